(* Proofs about the tick labels (Scale/Ticks.v precision, decimals, fmt). *)
From Coq Require Import ZArith QArith Qround Qpower Lqa Lia Bool List.
From Labella Require Import Scale.Ticks Scale.IlogProofs Scale.TickStepProofs Scale.TicksProofs.
Import ListNotations.
Open Scope Q_scope.

Lemma pow10_neq0 : forall e, ~ pow10 e == 0.
Proof. intros e H. pose proof (pow10_pos e). lra. Qed.

(* rounding an integer gives that integer *)
Lemma pyround_int : forall q z, q == inject_Z z -> pyround q = z.
Proof.
  intros q z H. unfold pyround.
  assert (E : Qfloor q = z) by (rewrite H; apply Qfloor_Z).
  rewrite E. destruct (Qlt_le_dec (q - inject_Z z) (1 # 2)) as [L|L]; [reflexivity|].
  exfalso. lra.
Qed.

Lemma small_pow_1 : ~ 1 <= Qpower (1 / 10) 100 * 10.
Proof. intro H. vm_compute in H. apply H. reflexivity. Qed.
Lemma small_pow_2 : ~ 1 <= Qpower (2 / 10) 100 * 10.
Proof. intro H. vm_compute in H. apply H. reflexivity. Qed.
Lemma small_pow_5 : ~ 1 <= Qpower (5 / 10) 100 * 10.
Proof. intro H. vm_compute in H. apply H. reflexivity. Qed.

(* the +0.01 of d3_scale_linearPrecision never matters for a step c*10^e *)
Lemma precision_step : forall v (c e : Z), (c = 1 \/ c = 2 \/ c = 5)%Z ->
  v == inject_Z c * pow10 e -> precision v = (- e)%Z.
Proof.
  intros v c e Hc Hv. unfold precision.
  assert (Hpos : 0 < v).
  { rewrite Hv. pose proof (pow10_pos e). destruct Hc as [H0|[H0|H0]]; subst c;
      [change (inject_Z 1) with 1|change (inject_Z 2) with 2|change (inject_Z 5) with 5]; lra. }
  assert (El : ilog10 v = e).
  { rewrite (ilog10_comp v _ Hpos Hv). apply ilog10_step. assumption. }
  rewrite El.
  assert (Ev : v / pow10 (e + 1) == inject_Z c / 10).
  { rewrite Hv, pow10_succ. field. apply pow10_neq0. }
  assert (F : Qle_bool 1 (Qpower (v / pow10 (e + 1)) 100 * 10) = false).
  { destruct (Qle_bool 1 (Qpower (v / pow10 (e + 1)) 100 * 10)) eqn:B; [|reflexivity].
    exfalso. apply Qle_bool_iff in B. rewrite Ev in B.
    destruct Hc as [H0|[H0|H0]]; subst c;
      [apply small_pow_1|apply small_pow_2|apply small_pow_5]; exact B. }
  rewrite F. reflexivity.
Qed.

Lemma decimals_step : forall v (c e : Z), (c = 1 \/ c = 2 \/ c = 5)%Z ->
  v == inject_Z c * pow10 e -> decimals v = Z.max 0 (- e).
Proof.
  intros v c e Hc Hv. unfold decimals.
  assert (Hpos : 0 < v).
  { rewrite Hv. pose proof (pow10_pos e). destruct Hc as [H0|[H0|H0]]; subst c;
      [change (inject_Z 1) with 1|change (inject_Z 2) with 2|change (inject_Z 5) with 5]; lra. }
  rewrite (Qeq_bool_neq_false v 0) by lra.
  rewrite (precision_step v c e Hc Hv). reflexivity.
Qed.

(* a multiple of a step c*10^e has at most max 0 (-e) decimals: formatting it
   with that many decimals loses nothing *)
Lemma fmt_exact_gen : forall t k v (c e : Z), (c = 1 \/ c = 2 \/ c = 5)%Z ->
  v == inject_Z c * pow10 e -> t == inject_Z k * v ->
  fmt (decimals v) t = (k * c * 10 ^ (e + Z.max 0 (- e)))%Z /\ fmt_value (decimals v) t == t.
Proof.
  intros t k v c e Hc Hv Ht.
  rewrite (decimals_step v c e Hc Hv). set (n := Z.max 0 (- e)).
  assert (Hn : (0 <= e + n)%Z) by (unfold n; lia).
  assert (E : t * pow10 n == inject_Z (k * c * 10 ^ (e + n))).
  { rewrite Ht, Hv. rewrite !inject_Z_mult. rewrite <- pow10_nonneg_Z by assumption.
    rewrite pow10_plus. ring. }
  assert (F : fmt n t = (k * c * 10 ^ (e + n))%Z) by (unfold fmt; apply pyround_int; exact E).
  split; [exact F|].
  unfold fmt_value. rewrite F, <- E. field. apply pow10_neq0.
Qed.

Section Labels.
  Variables (a b : Q) (m : Z).
  Hypothesis Hab : ~ a == b.
  Hypothesis Hm : (0 < m)%Z.

  Let step := dom_step a b m.
  Let n := decimals step.

  (* each label denotes its tick exactly *)
  Theorem fmt_exact : Forall (fun t => fmt_value n t == t) (ticks a b m).
  Proof.
    pose proof (ticks_multiples a b m Hab Hm) as M.
    destruct (step_form (span_of a b) m (span_pos a b Hab) Hm) as (c & e & Hc & Hv).
    fold (dom_step a b m) in Hv. fold step in Hv, M.
    eapply Forall_impl; [|exact M]. intros t [k Hk]. simpl in Hk.
    apply (fmt_exact_gen t k step c e Hc Hv Hk).
  Qed.

  (* distinct ticks get distinct labels *)
  Theorem fmt_injective : forall t1 t2, In t1 (ticks a b m) -> In t2 (ticks a b m) ->
    fmt n t1 = fmt n t2 -> t1 == t2.
  Proof.
    intros t1 t2 I1 I2 E. pose proof fmt_exact as F. rewrite Forall_forall in F.
    rewrite <- (F t1 I1), <- (F t2 I2). unfold fmt_value. rewrite E. reflexivity.
  Qed.
End Labels.
