(* nice_round: after nice() both ends are multiples of the second pass's step,
   and the tick step of the resulting domain is 1, 2, 5/2, 5 or 10 times that
   step - so both ends are multiples of a tenth of the resulting tick step.
   The delicate part is to exclude the ratio 4 (step2 = 5*10^e, result step
   2*10^(e+1)), which needs the integrality of the end points. *)
From Coq Require Import ZArith QArith Qround Qpower Qabs Lqa Lia Bool.
From Labella Require Import Scale.Ticks Scale.Nice Scale.IlogProofs Scale.TickStepProofs
  Scale.TicksProofs Scale.NiceProofs.
Open Scope Q_scope.

Definition is125 (c : Z) : Prop := (c = 1 \/ c = 2 \/ c = 5)%Z.

Lemma is125_bounds : forall c, is125 c -> 1 <= inject_Z c <= 5.
Proof.
  intros c [H|[H|H]]; subst c;
    [change (inject_Z 1) with 1|change (inject_Z 2) with 2|change (inject_Z 5) with 5]; lra.
Qed.

Lemma inject_Z_eq_inv : forall x y, inject_Z x == inject_Z y -> x = y.
Proof. intros x y H. apply inject_Z_injective. assumption. Qed.

(* the representation c * 10^e, c in {1,2,5}, is unique *)
Lemma form_unique : forall c c' e e', is125 c -> is125 c' ->
  inject_Z c * pow10 e == inject_Z c' * pow10 e' -> c = c' /\ e = e'.
Proof.
  intros c c' e e' Hc Hc' H.
  assert (E : e = e').
  { rewrite <- (ilog10_step c e Hc), <- (ilog10_step c' e' Hc').
    apply ilog10_comp; [|assumption].
    pose proof (pow10_pos e). pose proof (is125_bounds c Hc). nra. }
  subst e'. split; [|reflexivity]. apply inject_Z_eq_inv.
  pose proof (pow10_pos e). nra.
Qed.

(* two such numbers within a factor 10 of each other: exponents differ by 0 or 1 *)
Lemma ratio_exponents : forall c2 cr e2 er, is125 c2 -> is125 cr ->
  inject_Z c2 * pow10 e2 <= inject_Z cr * pow10 er ->
  inject_Z cr * pow10 er <= 10 * (inject_Z c2 * pow10 e2) ->
  er = e2 \/ er = (e2 + 1)%Z.
Proof.
  intros c2 cr e2 er H2 Hr L1 L2.
  pose proof (is125_bounds c2 H2). pose proof (is125_bounds cr Hr).
  pose proof (pow10_pos e2) as P2. pose proof (pow10_pos er) as Pr.
  destruct (Z_lt_le_dec er e2) as [A|A].
  - exfalso. assert (X : pow10 er <= pow10 (e2 - 1)) by (apply pow10_le_mono; lia).
    rewrite pow10_pred in X. assert (pow10 er * 10 <= pow10 e2).
    { assert (Y : pow10 e2 / 10 * 10 == pow10 e2) by field. nra. }
    nra.
  - destruct (Z_lt_le_dec (e2 + 1) er) as [B|B].
    + exfalso. assert (X : pow10 (e2 + 1 + 1) <= pow10 er) by (apply pow10_le_mono; lia).
      rewrite !pow10_succ in X. nra.
    + lia.
Qed.

(* which multiplier a step c*10^e came from *)
Lemma step_decode : forall S m c e, 0 < S -> (0 < m)%Z -> is125 c ->
  tick_step S m == inject_Z c * pow10 e ->
  (c = 5%Z /\ (15 # 100) * S < inject_Z m * pow10 e <= (35 # 100) * S) \/
  (c = 2%Z /\ (35 # 100) * S < inject_Z m * pow10 e <= (75 # 100) * S) \/
  (c = 1%Z).
Proof.
  intros S m c e HS Hm Hc H.
  destruct (tick_step_spec S m HS Hm) as [_ (q & E & C)].
  set (e0 := ilog10 (S / inject_Z m)) in *. rewrite E in H.
  unfold step_case in C.
  destruct C as [[Eq C]|[[Eq C]|[[Eq C]|[Eq C]]]]; rewrite Eq in H.
  - (* 10 * 10^e0 = 1 * 10^(e0+1) *)
    assert (X : inject_Z 1 * pow10 (e0 + 1) == inject_Z c * pow10 e).
    { rewrite pow10_succ. change (inject_Z 1) with 1. lra. }
    apply form_unique in X; [|unfold is125; auto|assumption]. destruct X as [X _]. right. right. auto.
  - change 5 with (inject_Z 5) in H. apply form_unique in H; [|unfold is125; auto|assumption].
    destruct H as [H1 H2]. subst c e. left. split; [reflexivity|assumption].
  - change 2 with (inject_Z 2) in H. apply form_unique in H; [|unfold is125; auto|assumption].
    destruct H as [H1 H2]. subst c e. right. left. split; [reflexivity|assumption].
  - change 1 with (inject_Z 1) in H. apply form_unique in H; [|unfold is125; auto|assumption].
    destruct H as [H1 _]. right. right. auto.
Qed.

(* floor / ceil of a multiple of the same step (up to ==) *)
Lemma step_floor_of_mult : forall s x k, 0 < s -> x == inject_Z k * s -> step_floor s x == x.
Proof.
  intros s x k Hs H.
  assert (X : x / s == inject_Z k) by (rewrite H; field; lra).
  destruct (step_floor_spec s x Hs) as [E _]. rewrite E.
  rewrite X, Qfloor_Z. rewrite H. reflexivity.
Qed.

Lemma step_ceil_of_mult : forall s x k, 0 < s -> x == inject_Z k * s -> step_ceil s x == x.
Proof.
  intros s x k Hs H.
  assert (X : x / s == inject_Z k) by (rewrite H; field; lra).
  destruct (step_ceil_spec s x Hs) as [E _]. rewrite E.
  rewrite X, Qceiling_Z. rewrite H. reflexivity.
Qed.

Lemma is_multiple_comp : forall s s' x, s == s' -> is_multiple s x -> is_multiple s' x.
Proof. intros s s' x E [k H]. exists k. rewrite <- E. assumption. Qed.

Ltac Zify.zify_post_hook ::= Z.to_euclidean_division_equations.

(* floor(2k/5) and ceil((2k+6)/5) are at most 2 apart *)
Lemma floor_ceil_25 : forall k, (Qceiling ((2 * (k + 3)) # 5) - Qfloor ((2 * k) # 5) <= 2)%Z.
Proof.
  intro k. unfold Qceiling, Qfloor. cbn [Qopp Qnum Qden]. lia.
Qed.

Lemma Qmake_as_div : forall n (d : positive), inject_Z n / inject_Z (Zpos d) == n # d.
Proof.
  intros n d. unfold Qeq, Qdiv, Qmult, Qinv, inject_Z. simpl. lia.
Qed.

(* ---------- the core: the ratio 4 cannot occur ---------------------------- *)
Section Core.
  Variables (m : Z) (S0 a1 b1 : Q).
  Hypothesis Hm : (0 < m)%Z.
  Let s1 := tick_step S0 m.
  Let S1 := b1 - a1.
  Let s2 := tick_step S1 m.
  Let a2 := step_floor s2 a1.
  Let b2 := step_ceil s2 b1.
  Let S2 := b2 - a2.
  Let sr := tick_step S2 m.
  Hypothesis HS0 : 0 < S0.
  Hypothesis H01 : S0 <= S1.
  Hypothesis H01' : S1 < S0 + 2 * s1.
  Hypothesis Ma : is_multiple s1 a1.
  Hypothesis Mb : is_multiple s1 b1.

  Lemma core_facts :
    0 < s1 /\ 0 < s2 /\ s1 <= s2 /\ S1 <= S2 /\ S2 < S1 + 2 * s2 /\ s2 <= sr /\ sr <= 10 * s2 /\
    a2 == inject_Z (Qfloor (a1 / s2)) * s2 /\ b2 == inject_Z (Qceiling (b1 / s2)) * s2.
  Proof.
    assert (HS1 : 0 < S1) by lra.
    assert (P1 : 0 < s1) by (apply step_pos; assumption).
    assert (P2 : 0 < s2) by (apply step_pos; assumption).
    destruct (step_floor_spec s2 a1 P2) as (Ea & A1 & A2).
    destruct (step_ceil_spec s2 b1 P2) as (Eb & B1 & B2).
    fold a2 in Ea, A1, A2. fold b2 in Eb, B1, B2.
    assert (M12 : s1 <= s2) by (apply step_monotone; assumption).
    assert (L12 : S1 <= S2) by (unfold S2, S1; lra).
    assert (U12 : S2 < S1 + 2 * s2) by (unfold S2, S1; lra).
    assert (M2r : s2 <= sr) by (apply step_monotone; assumption).
    assert (Mr : sr <= 10 * s2).
    { (* S2 < S1 + 2 s2 <= S1 (1 + 7/(2m)) <= 10 S1 *)
      destruct (step_span_bounds S1 m HS1 Hm) as [B _]. fold s2 in B.
      pose proof (inject_Z_pos m Hm) as Hmq.
      assert (1 <= inject_Z m).
      { change 1 with (inject_Z 1). rewrite <- Zle_Qle. lia. }
      assert (S2 <= S1 * 10) by nra.
      assert (X : sr <= tick_step (S1 * 10) m) by (apply step_monotone; [lra|assumption|assumption]).
      rewrite step_scale10 in X by assumption. fold s2 in X. lra. }
    repeat split; assumption.
  Qed.

  Lemma no_ratio4 : ~ sr == 4 * s2.
  Proof.
    intro R4.
    destruct core_facts as (P1 & P2 & M12 & L12 & U12 & M2r & Mr & Ea & Eb).
    assert (HS1 : 0 < S1) by lra. assert (HS2 : 0 < S2) by lra.
    destruct (step_form S1 m HS1 Hm) as (c2 & e2 & C2 & F2). fold s2 in F2.
    destruct (step_form S2 m HS2 Hm) as (cr & er & Cr & Fr). fold sr in Fr.
    destruct (step_form S0 m HS0 Hm) as (c1 & e1 & C1 & F1). fold s1 in F1.
    (* the forms: c2 = 5, cr = 2, er = e2 + 1 *)
    assert (X : er = e2 \/ er = (e2 + 1)%Z).
    { apply (ratio_exponents c2 cr); try assumption; rewrite <- F2, <- Fr; lra. }
    pose proof (pow10_pos e2) as T. set (t := pow10 e2) in *.
    assert (Y : c2 = 5%Z /\ cr = 2%Z /\ er = (e2 + 1)%Z).
    { rewrite Fr, F2 in R4. destruct X as [X|X]; subst er.
      - exfalso. fold t in R4. assert (Z4 : inject_Z cr == inject_Z (4 * c2)).
        { rewrite inject_Z_mult. change (inject_Z 4) with 4. nra. }
        apply inject_Z_eq_inv in Z4. unfold is125 in *. lia.
      - rewrite pow10_succ in R4. fold t in R4.
        assert (Z4 : inject_Z (10 * cr) == inject_Z (4 * c2)).
        { rewrite !inject_Z_mult. change (inject_Z 4) with 4. change (inject_Z 10) with 10. nra. }
        apply inject_Z_eq_inv in Z4. unfold is125 in *. lia. }
    destruct Y as (Y2 & Yr & Ye). subst c2 cr er.
    change (inject_Z 5) with 5 in F2. change (inject_Z 2) with 2 in Fr.
    (* the spans: S1 < 20/3 m t, S2 >= 40/3 m t *)
    destruct (step_decode S1 m 5 e2 HS1 Hm) as [[_ D1]|[[D1 _]|D1]];
      [unfold is125; auto|exact F2| |discriminate|discriminate].
    destruct (step_decode S2 m 2 (e2 + 1) HS2 Hm) as [[Dr _]|[[_ Dr]|Dr]];
      [unfold is125; auto|exact Fr|discriminate| |discriminate].
    fold t in D1. rewrite pow10_succ in Dr, Fr. fold t in Dr, Fr.
    pose proof (inject_Z_pos m Hm) as Hmq.
    (* hence m = 1 *)
    assert (M1 : m = 1%Z).
    { assert (inject_Z m < inject_Z 2).
      { change (inject_Z 2) with 2. destruct (Qlt_le_dec (inject_Z m) 2) as [Q|Q]; [assumption|].
        exfalso. nra. }
      rewrite <- Zlt_Qlt in H. lia. }
    rewrite M1 in *. change (inject_Z 1) with 1 in *.
    (* S2 is a multiple of 5t, at least 40/3 t, so at least 15 t *)
    set (j := Qfloor (a1 / s2)) in *. set (j' := Qceiling (b1 / s2)) in *.
    assert (ES2 : S2 == inject_Z (j' - j) * (5 * t)).
    { unfold S2. rewrite Ea, Eb, F2. unfold Z.sub. rewrite inject_Z_plus, inject_Z_opp. ring. }
    assert (N3 : (3 <= j' - j)%Z).
    { assert (inject_Z 2 < inject_Z (j' - j)).
      { change (inject_Z 2) with 2. destruct (Qlt_le_dec 2 (inject_Z (j' - j))) as [Q|Q]; [assumption|].
        exfalso. nra. }
      rewrite <- Zlt_Qlt in H. lia. }
    assert (G2 : 15 * t <= S2).
    { rewrite ES2. assert (inject_Z 3 <= inject_Z (j' - j)) by (rewrite <- Zle_Qle; assumption).
      change (inject_Z 3) with 3 in H. nra. }
    assert (G1 : 5 * t < S1) by lra.
    (* s1 < s2, since equal steps make the second pass the identity *)
    assert (NE : ~ s1 == s2).
    { intro E. apply (is_multiple_comp _ _ _ E) in Ma. apply (is_multiple_comp _ _ _ E) in Mb.
      destruct Ma as [ka Ka]. destruct Mb as [kb Kb].
      assert (a2 == a1) by (unfold a2; eapply step_floor_of_mult; eassumption).
      assert (b2 == b1) by (unfold b2; eapply step_ceil_of_mult; eassumption).
      unfold S2 in G2. unfold S1 in D1. lra. }
    (* so s1 = 2 t *)
    destruct (step_span_bounds S0 1 HS0 eq_refl) as [_ B0].
    rewrite <- M1 in B0 at 2. fold s1 in B0. change (inject_Z 1) with 1 in B0.
    assert (K1 : (35 # 24) * t < s1) by lra.
    assert (K2 : s1 < 5 * t) by (destruct (Qlt_le_dec s1 s2) as [Q|Q]; [lra|exfalso; apply NE; lra]).
    assert (Y1 : c1 = 2%Z /\ e1 = e2).
    { pose proof (is125_bounds c1 C1) as Bc. pose proof (pow10_pos e1) as T1. rewrite F1 in K1, K2.
      destruct (Z_lt_le_dec e1 e2) as [A|A].
      - exfalso. assert (Q : pow10 e1 <= pow10 (e2 - 1)) by (apply pow10_le_mono; lia).
        rewrite pow10_pred in Q. fold t in Q.
        assert (Q' : t / 10 * 10 == t) by field. nra.
      - destruct (Z_lt_le_dec e2 e1) as [B|B].
        + exfalso. assert (Q : pow10 (e2 + 1) <= pow10 e1) by (apply pow10_le_mono; lia).
          rewrite pow10_succ in Q. fold t in Q. nra.
        + assert (e1 = e2) by lia. subst e1. fold t in K1, K2. split; [|reflexivity].
          destruct C1 as [H|[H|H]]; subst c1; [exfalso|reflexivity|exfalso];
            [change (inject_Z 1) with 1 in *|change (inject_Z 5) with 5 in *]; lra. }
    destruct Y1 as [Y1 Y1']. subst c1 e1. fold t in F1. change (inject_Z 2) with 2 in F1.
    (* a1 = 2 k t, b1 = 2 (k+3) t *)
    destruct Ma as [k Ka]. destruct Mb as [k' Kb]. rewrite F1 in Ka, Kb.
    assert (K3 : k' = (k + 3)%Z).
    { assert (ES1 : S1 == inject_Z (k' - k) * (2 * t)).
      { unfold S1. rewrite Ka, Kb. unfold Z.sub. rewrite inject_Z_plus, inject_Z_opp. ring. }
      assert (inject_Z 2 < inject_Z (k' - k)).
      { change (inject_Z 2) with 2. destruct (Qlt_le_dec 2 (inject_Z (k' - k))) as [Q|Q]; [assumption|].
        exfalso. nra. }
      assert (inject_Z (k' - k) < inject_Z 4).
      { change (inject_Z 4) with 4. destruct (Qlt_le_dec (inject_Z (k' - k)) 4) as [Q|Q]; [assumption|].
        exfalso. nra. }
      rewrite <- Zlt_Qlt in H, H0. lia. }
    subst k'.
    (* floor(2k/5) and ceil((2k+6)/5) *)
    assert (J : j = Qfloor ((2 * k) # 5)).
    { unfold j. apply Qfloor_comp. rewrite Ka, F2, <- (Qmake_as_div (2 * k) 5), inject_Z_mult.
      change (inject_Z 2) with 2. change (inject_Z 5) with 5. field. lra. }
    assert (J' : j' = Qceiling ((2 * (k + 3)) # 5)).
    { unfold j'. apply Qceiling_comp. rewrite Kb, F2, <- (Qmake_as_div (2 * (k + 3)) 5), inject_Z_mult.
      change (inject_Z 2) with 2. change (inject_Z 5) with 5. field. lra. }
    pose proof (floor_ceil_25 k). lia.
  Qed.

  (* the ratio of the resulting tick step to the second pass's step *)
  Lemma core_ratio :
    sr == s2 \/ sr == 2 * s2 \/ 2 * sr == 5 * s2 \/ sr == 5 * s2 \/ sr == 10 * s2.
  Proof.
    destruct core_facts as (P1 & P2 & M12 & L12 & U12 & M2r & Mr & Ea & Eb).
    assert (HS1 : 0 < S1) by lra. assert (HS2 : 0 < S2) by lra.
    destruct (step_form S1 m HS1 Hm) as (c2 & e2 & C2 & F2). fold s2 in F2.
    destruct (step_form S2 m HS2 Hm) as (cr & er & Cr & Fr). fold sr in Fr.
    pose proof no_ratio4 as N4.
    pose proof (pow10_pos e2) as T. 
    assert (X : er = e2 \/ er = (e2 + 1)%Z).
    { apply (ratio_exponents c2 cr); try assumption; rewrite <- F2, <- Fr; lra. }
    rewrite Fr, F2 in *. destruct X as [X|X]; subst er; [|rewrite pow10_succ in *];
      set (t := pow10 e2) in *;
      destruct C2 as [H2|[H2|H2]]; destruct Cr as [Hr|[Hr|Hr]]; subst c2 cr;
      change (inject_Z 1) with 1 in *; change (inject_Z 2) with 2 in *; change (inject_Z 5) with 5 in *;
      try (exfalso; lra);
      try (left; lra); try (right; left; lra); try (right; right; left; lra);
      try (right; right; right; left; lra); try (right; right; right; right; lra).
  Qed.
End Core.

(* ---------- from the core to nice() --------------------------------------- *)

Lemma tenth_multiple : forall sr s2 x, ratio_ok sr s2 -> is_multiple s2 x -> is_multiple (sr / 10) x.
Proof.
  intros sr s2 x R [k H].
  destruct R as [R|[R|[R|[R|R]]]].
  - exists (10 * k)%Z. rewrite H, inject_Z_mult, R. change (inject_Z 10) with 10. field.
  - exists (5 * k)%Z. rewrite H, inject_Z_mult, R. change (inject_Z 5) with 5. field.
  - exists (4 * k)%Z. rewrite H, inject_Z_mult. change (inject_Z 4) with 4.
    assert (E : sr == (5 # 2) * s2) by lra. rewrite E. field.
  - exists (2 * k)%Z. rewrite H, inject_Z_mult, R. change (inject_Z 2) with 2. field.
  - exists k. rewrite H, R. field.
Qed.

Section NiceRound.
  Variable m : Z.
  Hypothesis Hm : (0 < m)%Z.

  Lemma nice_ratio_inc : forall a b, a < b -> ratio_ok (step_result m (a, b)) (step2 m (a, b)).
  Proof.
    intros a b L.
    destruct (pass_inc m Hm a b L) as (P0 & P1 & P2 & P3 & P4 & P5 & P6).
    set (s1 := dom_step a b m) in *.
    assert (Es1 : s1 = tick_step (b - a) m).
    { unfold s1, dom_step. rewrite span_of_inc by assumption. reflexivity. }
    assert (Ep : nice_pass m (a, b) = (step_floor s1 a, step_ceil s1 b)).
    { unfold nice_pass. fold s1. unfold nice_with. destruct (Qlt_le_dec b a); [lra|reflexivity]. }
    rewrite Ep in P1, P2, P3, P4, P5, P6. simpl in P1, P2, P3, P4, P5, P6.
    set (a1 := step_floor s1 a) in *. set (b1 := step_ceil s1 b) in *.
    assert (L1 : a1 < b1) by lra.
    set (s2 := tick_step (b1 - a1) m).
    assert (Es2 : step2 m (a, b) = s2).
    { unfold step2, step1. rewrite Ep. simpl. unfold dom_step. rewrite span_of_inc by assumption. reflexivity. }
    assert (Er : nice m (a, b) = (step_floor s2 a1, step_ceil s2 b1)).
    { unfold nice. rewrite Ep. unfold nice_pass.
      assert (X : dom_step a1 b1 m = s2).
      { unfold dom_step. rewrite span_of_inc by assumption. reflexivity. }
      rewrite X. unfold nice_with. destruct (Qlt_le_dec b1 a1); [lra|reflexivity]. }
    assert (P2' : 0 < s2) by (apply step_pos; [lra|assumption]).
    destruct (step_floor_spec s2 a1 P2') as (_ & A1 & A2).
    destruct (step_ceil_spec s2 b1 P2') as (_ & B1 & B2).
    assert (Esr : step_result m (a, b) = tick_step (step_ceil s2 b1 - step_floor s2 a1) m).
    { unfold step_result, step1. rewrite Er. simpl. unfold dom_step. rewrite span_of_inc by lra. reflexivity. }
    rewrite Esr, Es2. unfold s2.
    apply (core_ratio m (b - a) a1 b1 Hm); rewrite <- ?Es1; try assumption; lra.
  Qed.

  (* reversed domains: nice is symmetric under swapping the two ends *)
  Lemma nice_pass_swap : forall a b, b < a ->
    nice_pass m (a, b) = (snd (nice_pass m (b, a)), fst (nice_pass m (b, a))).
  Proof.
    intros a b L. unfold nice_pass.
    assert (Hab : ~ a == b) by (intro E; lra).
    rewrite (proj2 (ticks_sym a b m Hab)). unfold nice_with.
    destruct (Qlt_le_dec b a); [|lra]. destruct (Qlt_le_dec a b); [lra|]. reflexivity.
  Qed.

  Lemma nice_swap : forall a b, b < a ->
    nice m (a, b) = (snd (nice m (b, a)), fst (nice m (b, a))) /\
    step2 m (a, b) = step2 m (b, a) /\ step_result m (a, b) = step_result m (b, a).
  Proof.
    intros a b L.
    destruct (pass_inc m Hm b a L) as (_ & Q1 & Q2 & Q3 & Q4 & _ & _).
    set (p := nice_pass m (b, a)) in *.
    assert (Lp : fst p < snd p) by lra.
    assert (Ep : p = (fst p, snd p)) by (destruct p; reflexivity).
    destruct (pass_inc m Hm (fst p) (snd p) Lp) as (_ & R1 & R2 & R3 & R4 & _ & _).
    rewrite <- Ep in R1, R2, R3, R4.
    assert (E1 : nice m (a, b) = (snd (nice m (b, a)), fst (nice m (b, a)))).
    { unfold nice. rewrite (nice_pass_swap a b L). fold p.
      rewrite (nice_pass_swap (snd p) (fst p) Lp). rewrite <- Ep. reflexivity. }
    split; [exact E1|]. split.
    - unfold step2, step1. rewrite (nice_pass_swap a b L). fold p.
      change (dom_step (snd p) (fst p) m = dom_step (fst p) (snd p) m).
      assert (N : ~ snd p == fst p) by (intro E; lra).
      exact (proj2 (ticks_sym (snd p) (fst p) m N)).
    - unfold step_result, step1. rewrite E1.
      set (r := nice m (b, a)) in *.
      change (dom_step (snd r) (fst r) m = dom_step (fst r) (snd r) m).
      assert (Lr : fst r < snd r) by (unfold r, nice; fold p; lra).
      assert (N : ~ snd r == fst r) by (intro E; lra).
      exact (proj2 (ticks_sym (snd r) (fst r) m N)).
  Qed.

  (* both ends are multiples of step2; the resulting tick step is 1, 2, 5/2, 5
     or 10 times step2; hence both ends are multiples of a tenth of the tick
     step of the resulting domain *)
  Theorem nice_round : forall a b, ~ a == b ->
    let d := (a, b) in let r := nice m d in
    is_multiple (step2 m d) (fst r) /\ is_multiple (step2 m d) (snd r) /\
    ratio_ok (step_result m d) (step2 m d) /\
    is_multiple (step_result m d / 10) (fst r) /\ is_multiple (step_result m d / 10) (snd r).
  Proof.
    intros a b Hab d r. unfold r, d. clear r d.
    destruct (nice_round_step2 m Hm a b Hab) as [M1 M2].
    assert (R : ratio_ok (step_result m (a, b)) (step2 m (a, b))).
    { destruct (Qlt_le_dec a b) as [L|L]; [apply nice_ratio_inc; assumption|].
      assert (L' : b < a) by (destruct (Qlt_le_dec b a); [assumption|exfalso; apply Hab; lra]).
      destruct (nice_swap a b L') as (_ & E2 & Er). rewrite E2, Er. apply nice_ratio_inc. assumption. }
    repeat split; try assumption; eapply tenth_multiple; eassumption.
  Qed.
End NiceRound.
