(* Proofs about the tick step (Scale/Ticks.v tick_step): its form c*10^e,
   the span/step bounds behind the tick count, monotonicity, scaling. *)
From Coq Require Import ZArith QArith Qpower Lqa Lia Bool.
From Labella Require Import Scale.Ticks Scale.IlogProofs.
Open Scope Q_scope.

Lemma Qle_bool_false_lt : forall x y, Qle_bool x y = false -> y < x.
Proof.
  intros x y H. apply Qnot_le_lt. intro L. apply Qle_bool_iff in L. congruence.
Qed.

Lemma Qeq_bool_false_neq : forall x y, Qeq_bool x y = false -> ~ x == y.
Proof. intros x y H E. apply Qeq_bool_iff in E. congruence. Qed.

Lemma Qeq_bool_neq_false : forall x y, ~ x == y -> Qeq_bool x y = false.
Proof.
  intros x y H. destruct (Qeq_bool x y) eqn:E; [|reflexivity].
  apply Qeq_bool_iff in E. contradiction.
Qed.

Lemma inject_Z_pos : forall m, (0 < m)%Z -> 0 < inject_Z m.
Proof. intros m H. change 0 with (inject_Z 0). rewrite <- Zlt_Qlt. assumption. Qed.

(* which multiplier was chosen, in terms of mp = m * 10^e and the span *)
Definition step_case (S : Q) (m : Z) (e : Z) (c : Q) : Prop :=
  let mp := inject_Z m * pow10 e in
  (c == 10 /\ mp <= (15 # 100) * S) \/
  (c == 5 /\ (15 # 100) * S < mp <= (35 # 100) * S) \/
  (c == 2 /\ (35 # 100) * S < mp <= (75 # 100) * S) \/
  (c == 1 /\ (75 # 100) * S < mp).

Lemma err_le_iff : forall mq S P t, 0 < S -> (mq / S * P <= t <-> mq * P <= t * S).
Proof.
  intros mq S P t HS.
  assert (E : mq / S * P * S == mq * P) by (field; lra).
  split; intro H.
  - rewrite <- E. nra.
  - destruct (Qlt_le_dec t (mq / S * P)) as [L|L]; [exfalso; nra|assumption].
Qed.

Lemma tick_step_spec : forall S m, 0 < S -> (0 < m)%Z ->
  let e := ilog10 (S / inject_Z m) in
  (pow10 e * inject_Z m <= S < pow10 (e + 1) * inject_Z m) /\
  exists c, tick_step S m == c * pow10 e /\ step_case S m e c.
Proof.
  intros S m HS Hm e. pose proof (inject_Z_pos m Hm) as Hmq.
  assert (Hx : 0 < S / inject_Z m) by (apply Qlt_shift_div_l; lra).
  pose proof (ilog10_spec _ Hx) as [A B]. fold e in A, B.
  assert (X : S / inject_Z m * inject_Z m == S) by (field; lra).
  assert (A' : pow10 e * inject_Z m <= S) by nra.
  assert (B' : S < pow10 (e + 1) * inject_Z m) by nra.
  split; [split; assumption|].
  unfold tick_step. rewrite (Qeq_bool_neq_false S 0) by lra. fold e.
  set (err := inject_Z m / S * pow10 e).
  destruct (Qle_bool err (15 # 100)) eqn:E1.
  { exists 10. split; [rewrite Qred_correct; ring|]. left. split; [reflexivity|].
    apply Qle_bool_iff in E1. apply err_le_iff in E1; assumption. }
  apply Qle_bool_false_lt in E1.
  assert (E1' : (15 # 100) * S < inject_Z m * pow10 e).
  { apply Qnot_le_lt. intro L. apply (err_le_iff _ _ _ _ HS) in L. fold err in L. lra. }
  destruct (Qle_bool err (35 # 100)) eqn:E2.
  { exists 5. split; [rewrite Qred_correct; ring|]. right. left. split; [reflexivity|].
    apply Qle_bool_iff in E2. apply err_le_iff in E2; [|assumption]. split; assumption. }
  apply Qle_bool_false_lt in E2.
  assert (E2' : (35 # 100) * S < inject_Z m * pow10 e).
  { apply Qnot_le_lt. intro L. apply (err_le_iff _ _ _ _ HS) in L. fold err in L. lra. }
  destruct (Qle_bool err (75 # 100)) eqn:E3.
  { exists 2. split; [rewrite Qred_correct; ring|]. right. right. left. split; [reflexivity|].
    apply Qle_bool_iff in E3. apply err_le_iff in E3; [|assumption]. split; assumption. }
  apply Qle_bool_false_lt in E3.
  assert (E3' : (75 # 100) * S < inject_Z m * pow10 e).
  { apply Qnot_le_lt. intro L. apply (err_le_iff _ _ _ _ HS) in L. fold err in L. lra. }
  exists 1. split; [rewrite Qred_correct; ring|]. right. right. right. split; [reflexivity|assumption].
Qed.

Lemma tick_step_zero : forall S m, S == 0 -> tick_step S m = 0.
Proof.
  intros S m H. unfold tick_step.
  assert (E : Qeq_bool S 0 = true) by (apply Qeq_bool_iff; assumption). rewrite E. reflexivity.
Qed.

(* the step is 1, 2 or 5 times a power of ten *)
Theorem step_form : forall S m, 0 < S -> (0 < m)%Z ->
  exists (c e : Z), (c = 1 \/ c = 2 \/ c = 5)%Z /\ tick_step S m == inject_Z c * pow10 e.
Proof.
  intros S m HS Hm. destruct (tick_step_spec S m HS Hm) as [_ (c & E & C)].
  set (e := ilog10 (S / inject_Z m)) in *.
  destruct C as [[Ec _]|[[Ec _]|[[Ec _]|[Ec _]]]].
  - exists 1%Z, (e + 1)%Z. split; [auto|]. rewrite E, Ec, pow10_succ. ring.
  - exists 5%Z, e. split; [auto|]. rewrite E, Ec. reflexivity.
  - exists 2%Z, e. split; [auto|]. rewrite E, Ec. reflexivity.
  - exists 1%Z, e. split; [auto|]. rewrite E, Ec. reflexivity.
Qed.

Theorem step_pos : forall S m, 0 < S -> (0 < m)%Z -> 0 < tick_step S m.
Proof.
  intros S m HS Hm. destruct (tick_step_spec S m HS Hm) as [_ (c & E & C)].
  set (e := ilog10 (S / inject_Z m)) in *. pose proof (pow10_pos e) as P. rewrite E.
  destruct C as [[Ec _]|[[Ec _]|[[Ec _]|[Ec _]]]]; rewrite Ec; lra.
Qed.

(* the span is between 4/7 and 10/7 of m steps: the source of the count bounds *)
Theorem step_span_bounds : forall S m, 0 < S -> (0 < m)%Z ->
  (4 # 7) * (inject_Z m * tick_step S m) <= S /\ S < (10 # 7) * (inject_Z m * tick_step S m).
Proof.
  intros S m HS Hm. destruct (tick_step_spec S m HS Hm) as [[A B] (c & E & C)].
  set (e := ilog10 (S / inject_Z m)) in *. rewrite pow10_succ in B.
  unfold step_case in C. rewrite E.
  set (mp := inject_Z m * pow10 e) in *.
  assert (E' : inject_Z m * (c * pow10 e) == c * mp) by (unfold mp; ring). rewrite E'.
  assert (A' : mp <= S) by (unfold mp; lra).
  assert (B' : S < 10 * mp) by (unfold mp; lra).
  destruct C as [[Ec H]|[[Ec H]|[[Ec H]|[Ec H]]]]; rewrite Ec; lra.
Qed.

(* ---------- monotone in the span ----------------------------------------- *)
Theorem step_monotone : forall S S' m, 0 < S -> S <= S' -> (0 < m)%Z ->
  tick_step S m <= tick_step S' m.
Proof.
  intros S S' m HS L Hm. assert (HS' : 0 < S') by lra.
  pose proof (inject_Z_pos m Hm) as Hmq.
  destruct (tick_step_spec S m HS Hm) as [[A B] (c & E & C)].
  destruct (tick_step_spec S' m HS' Hm) as [[A' B'] (c' & E' & C')].
  set (e := ilog10 (S / inject_Z m)) in *. set (e' := ilog10 (S' / inject_Z m)) in *.
  assert (Hee : (e <= e')%Z).
  { apply ilog10_mono.
    - apply Qlt_shift_div_l; lra.
    - apply Qle_shift_div_l; [assumption|].
      assert (X : S / inject_Z m * inject_Z m == S) by (field; lra). lra. }
  rewrite E, E'. pose proof (pow10_pos e) as P. pose proof (pow10_pos e') as P'.
  assert (Hc : c <= 10) by (destruct C as [[Ec _]|[[Ec _]|[[Ec _]|[Ec _]]]]; rewrite Ec; lra).
  assert (Hc' : 1 <= c') by (destruct C' as [[Ec _]|[[Ec _]|[[Ec _]|[Ec _]]]]; rewrite Ec; lra).
  destruct (Z.eq_dec e e') as [Eq|Ne].
  - (* same decade: the multiplier is monotone *)
    subst e'. rewrite <- Eq in *. clear Eq.
    unfold step_case in C, C'. set (mp := inject_Z m * pow10 e) in *.
    assert (c <= c').
    { destruct C as [[Ec H]|[[Ec H]|[[Ec H]|[Ec H]]]];
      destruct C' as [[Ec' H']|[[Ec' H']|[[Ec' H']|[Ec' H']]]]; rewrite Ec, Ec'; lra. }
    nra.
  - (* a later decade: c*10^e <= 10^(e+1) <= 10^e' <= c'*10^e' *)
    assert (L1 : pow10 (e + 1) <= pow10 e') by (apply pow10_le_mono; lia).
    rewrite pow10_succ in L1. nra.
Qed.

(* ten times the span: ten times the step *)
Theorem step_scale10 : forall S m, 0 < S -> (0 < m)%Z ->
  tick_step (S * 10) m == tick_step S m * 10.
Proof.
  intros S m HS Hm. pose proof (inject_Z_pos m Hm) as Hmq.
  assert (HS' : 0 < S * 10) by lra.
  destruct (tick_step_spec S m HS Hm) as [[A B] (c & E & C)].
  destruct (tick_step_spec (S * 10) m HS' Hm) as [[A' B'] (c' & E' & C')].
  set (e := ilog10 (S / inject_Z m)) in *.
  assert (Ee : ilog10 (S * 10 / inject_Z m) = (e + 1)%Z).
  { unfold e. rewrite <- ilog10_times10 by (apply Qlt_shift_div_l; lra).
    apply ilog10_comp; [apply Qlt_shift_div_l; lra|field; lra]. }
  rewrite Ee in *. rewrite E, E'. rewrite pow10_succ in *.
  unfold step_case in C, C'. rewrite pow10_succ in C'.
  set (mp := inject_Z m * pow10 e) in *.
  assert (X : inject_Z m * (pow10 e * 10) == 10 * mp) by (unfold mp; ring).
  rewrite X in C'. pose proof (pow10_pos e) as P.
  assert (c == c').
  { destruct C as [[Ec H]|[[Ec H]|[[Ec H]|[Ec H]]]];
    destruct C' as [[Ec' H']|[[Ec' H']|[[Ec' H']|[Ec' H']]]]; rewrite Ec, Ec'; lra. }
  rewrite H. ring.
Qed.

(* the decimals of a step c*10^e (c in 1,2,5) are max 0 (-e) *)
Lemma ilog10_step : forall (c e : Z), (c = 1 \/ c = 2 \/ c = 5)%Z ->
  ilog10 (inject_Z c * pow10 e) = e.
Proof.
  intros c e Hc. apply ilog10_unique. rewrite pow10_succ. pose proof (pow10_pos e) as P.
  destruct Hc as [H|[H|H]]; subst c;
    [change (inject_Z 1) with 1|change (inject_Z 2) with 2|change (inject_Z 5) with 5]; lra.
Qed.
