(* Object-level model of labella/scale.py class LinearScale (305-380) as a
   heap machine.  The Python object has attributes _domain, _range (references
   to list objects), _clamp, and two closures _output/_input built by
   rescale() that CAPTURE the end points and the clamp flag at that moment
   (d3_scale_bilinear evaluates domain[0], domain[1], range[0], range[1] when
   it is called, scale.py:27-30).  So a scale is
       { dom, rng : cell ids;  clamp;  cache = (a, b, r0, r1, clamp) }
   and scale(x)/invert(y) read ONLY the cache.

   Cells are two-element lists (the property's domains [a,b] and ranges
   [r0,r1]).  Domain cells and range cells live in two heaps:
   - dheap: lists created by the scale code itself: `list(map(float, x))` in
     domain(x) (scale.py:339-343), `list(self._domain)` in copy() (374-380),
     the default [0, 1] of the constructor.  nice() (370-372) overwrites the
     two entries of the scale's domain cell IN PLACE.
   - rheap: range lists.  range(x) (345-349) stores the CALLER'S list object
     itself, so several scales may hold the same range cell; copy() allocates
     a fresh one (`list(self._range)`); nothing in the class writes into a
     range list.
   Outside the model (and outside the property's quantifier, which lists
   domain/range/clamp/nice/copy calls): the caller writing into a list it
   handed over, handing the list returned by s.domain() to range(), or
   passing a domain list to the constructor.
   Model only: no proofs here. *)
From Coq Require Import ZArith QArith List Bool.
From Labella Require Import Scale.Linear Scale.Ticks Scale.Nice.
Import ListNotations.
Open Scope Q_scope.

Definition cell := (Q * Q)%type.

Record cache := mkCache { c_a : Q; c_b : Q; c_r0 : Q; c_r1 : Q; c_clamp : bool }.

Record scale := mkScale { dom : nat; rng : nat; clamp : bool; cached : cache }.

Record state := mkState { dheap : list cell; rheap : list cell; scales : list scale }.

Definition init : state := mkState [] [] [].

(* in-place update of one heap cell / one scale *)
Fixpoint upd {A} (l : list A) (i : nat) (x : A) : list A :=
  match l, i with
  | [], _ => []
  | _ :: t, O => x :: t
  | h :: t, S j => h :: upd t j x
  end.

(* rescale(), scale.py:319-331: rebuild both closures from the CURRENT contents
   of the cells the scale points to *)
Definition rescale (dh rh : list cell) (s : scale) : scale :=
  match nth_error dh (dom s), nth_error rh (rng s) with
  | Some d, Some r =>
      mkScale (dom s) (rng s) (clamp s) (mkCache (fst d) (snd d) (fst r) (snd r) (clamp s))
  | _, _ => s   (* dangling cell: never happens (ss_invariant) *)
  end.

Inductive op :=
  | ONew                                  (* LinearScale(): fresh [0,1], [0,1] *)
  | OAllocR (r : cell)                    (* the caller builds a list object   *)
  | ODomain (s : nat) (d : cell)          (* s.domain([a, b])                  *)
  | ORange (s : nat) (c : nat)            (* s.range(<caller's list c>)        *)
  | OClamp (s : nat) (b : bool)           (* s.clamp(b)                        *)
  | ONice (s : nat) (m : Z)               (* s.nice(m)                         *)
  | OCopy (s : nat).                      (* s.copy()                          *)

(* one operation; an operation naming a scale or cell that does not exist
   leaves the state unchanged *)
Definition step (st : state) (o : op) : state :=
  match o with
  | ONew =>
      let dh := dheap st ++ [(0, 1)] in
      let rh := rheap st ++ [(0, 1)] in
      let s0 := mkScale (length (dheap st)) (length (rheap st)) false (mkCache 0 0 0 0 false) in
      mkState dh rh (scales st ++ [rescale dh rh s0])
  | OAllocR r => mkState (dheap st) (rheap st ++ [r]) (scales st)
  | ODomain i d =>
      match nth_error (scales st) i with
      | Some s =>
          let dh := dheap st ++ [d] in
          let s' := mkScale (length (dheap st)) (rng s) (clamp s) (cached s) in
          mkState dh (rheap st) (upd (scales st) i (rescale dh (rheap st) s'))
      | None => st
      end
  | ORange i c =>
      match nth_error (scales st) i, nth_error (rheap st) c with
      | Some s, Some _ =>
          let s' := mkScale (dom s) c (clamp s) (cached s) in
          mkState (dheap st) (rheap st) (upd (scales st) i (rescale (dheap st) (rheap st) s'))
      | _, _ => st
      end
  | OClamp i b =>
      match nth_error (scales st) i with
      | Some s =>
          let s' := mkScale (dom s) (rng s) b (cached s) in
          mkState (dheap st) (rheap st) (upd (scales st) i (rescale (dheap st) (rheap st) s'))
      | None => st
      end
  | ONice i m =>
      match nth_error (scales st) i with
      | Some s =>
          match nth_error (dheap st) (dom s) with
          | Some d =>
              let dh := upd (dheap st) (dom s) (nice m d) in      (* in place *)
              mkState dh (rheap st) (upd (scales st) i (rescale dh (rheap st) s))
          | None => st
          end
      | None => st
      end
  | OCopy i =>
      match nth_error (scales st) i with
      | Some s =>
          match nth_error (dheap st) (dom s), nth_error (rheap st) (rng s) with
          | Some d, Some r =>
              let dh := dheap st ++ [d] in
              let rh := rheap st ++ [r] in
              let s0 := mkScale (length (dheap st)) (length (rheap st)) (clamp s)
                                (mkCache 0 0 0 0 false) in
              mkState dh rh (scales st ++ [rescale dh rh s0])
          | _, _ => st
          end
      | None => st
      end
  end.

Definition run (ops : list op) (st : state) : state := fold_left step ops st.

(* the scale an operation writes to, if any *)
Definition op_target (o : op) : option nat :=
  match o with
  | ODomain i _ | ORange i _ | OClamp i _ | ONice i _ => Some i
  | ONew | OAllocR _ | OCopy _ => None
  end.
Definition touches (t : nat) (o : op) : bool :=
  match op_target o with Some i => Nat.eqb i t | None => false end.

(* ---------- observations ------------------------------------------------- *)
Inductive query :=
  | QCall (x : Q) | QInvert (y : Q) | QDomain | QRange | QClamp.
Inductive answer :=
  | ANum (q : Q) | APair (c : cell) | AFlag (b : bool) | AInvalid.

Definition call_cache (c : cache) (x : Q) : Q :=
  lin_gen (c_clamp c) (c_a c) (c_b c) (c_r0 c) (c_r1 c) x.
Definition invert_cache (c : cache) (y : Q) : Q :=
  inv_gen (c_clamp c) (c_a c) (c_b c) (c_r0 c) (c_r1 c) y.

Definition observe (st : state) (i : nat) (q : query) : answer :=
  match nth_error (scales st) i with
  | None => AInvalid
  | Some s =>
      match q with
      | QCall x => ANum (call_cache (cached s) x)        (* s(x): the closure *)
      | QInvert y => ANum (invert_cache (cached s) y)
      | QDomain => match nth_error (dheap st) (dom s) with Some d => APair d | None => AInvalid end
      | QRange => match nth_error (rheap st) (rng s) with Some r => APair r | None => AInvalid end
      | QClamp => AFlag (clamp s)
      end
  end.

(* ---------- specification predicates (used by the theorems) --------------- *)
(* the cache of s holds exactly the end points of the cells s points to *)
Definition wf_scale (dh rh : list cell) (s : scale) : Prop :=
  exists d r, nth_error dh (dom s) = Some d /\ nth_error rh (rng s) = Some r /\
              cached s = mkCache (fst d) (snd d) (fst r) (snd r) (clamp s).

Definition ss_inv (st : state) : Prop :=
  Forall (wf_scale (dheap st) (rheap st)) (scales st) /\ NoDup (map dom (scales st)).

