(* Object-level model of labella/scale.py class LinearScale (305-385) as a
   heap machine.  The Python object has attributes _domain, _range (references
   to list objects), _clamp, and two closures _output/_input built by
   rescale() that CAPTURE the end points and the clamp flag at that moment
   (d3_scale_bilinear evaluates domain[0], domain[1], range[0], range[1] when
   it is called, scale.py:27-30).  So a scale is
       { dom, rng : cell ids;  clamp;  cache = (a, b, r0, r1, clamp) }
   and scale(x)/invert(y) read ONLY the cache.

   ONE heap of list cells (two-element lists: the property's domains [a,b]
   and ranges [r0,r1]); a cell id is the list OBJECT.  Who allocates:
   - the caller (OAlloc: a list literal),
   - the default [0, 1] lists of the constructor (306-311),
   - domain(x) (339-343): `list(map(float, x))`, a fresh list,
   - nice(m) (373-375, repaired in /repo 41d590d): `d3_scale_linearNice(
     list(self._domain), m)`, a FRESH list holding the nice end points,
   - copy() (377-383, repaired in 0ea8365): `list(self._domain)`,
     `list(self._range)`, two fresh lists.
   Who merely STORES a given object: range(x) (345-349) and the constructor
   with explicit lists.  The object may be any existing list: one the caller
   built, or the very list another scale's domain()/range() getter returned
   (the getters return the scale's own list objects, 339-341, 345-347), so
   scales can share cells in every combination, domain cells included.
   No operation of the class writes into an existing list any more; that is
   what makes sharing harmless (ScaleStateProofs.ss_cells_immutable).
   Outside the model (and outside the property's quantifier, which lists
   domain/range/clamp/nice/copy calls): the caller itself writing into a list
   after handing it over.
   Model only: no proofs here. *)
From Coq Require Import ZArith QArith List Bool.
From Labella Require Import Scale.Linear Scale.Ticks Scale.Nice.
Import ListNotations.
Open Scope Q_scope.

Definition cell := (Q * Q)%type.

Record cache := mkCache { c_a : Q; c_b : Q; c_r0 : Q; c_r1 : Q; c_clamp : bool }.

Record scale := mkScale { dom : nat; rng : nat; clamp : bool; cached : cache }.

Record state := mkState { heap : list cell; scales : list scale }.

Definition init : state := mkState [] [].

(* replace one entry of a list (used for the scale table only: no heap cell
   is ever replaced) *)
Fixpoint upd {A} (l : list A) (i : nat) (x : A) : list A :=
  match l, i with
  | [], _ => []
  | _ :: t, O => x :: t
  | h :: t, S j => h :: upd t j x
  end.

(* rescale(), scale.py:319-331: rebuild both closures from the CURRENT contents
   of the cells the scale points to *)
Definition rescale (h : list cell) (s : scale) : scale :=
  match nth_error h (dom s), nth_error h (rng s) with
  | Some d, Some r =>
      mkScale (dom s) (rng s) (clamp s) (mkCache (fst d) (snd d) (fst r) (snd r) (clamp s))
  | _, _ => s   (* dangling cell: never happens (ss_invariant) *)
  end.

Definition no_cache : cache := mkCache 0 0 0 0 false.

Inductive op :=
  | ONew                                  (* LinearScale(): fresh [0,1], [0,1]          *)
  | ONewWith (d r : nat)                  (* LinearScale(<list d>, <list r>): stored as is *)
  | OAlloc (c : cell)                     (* the caller builds a list object            *)
  | ODomain (s : nat) (d : cell)          (* s.domain([a, b]): fresh list               *)
  | ORange (s : nat) (c : nat)            (* s.range(<list c>): ANY existing list       *)
  | ORangeOfDomain (s t : nat)            (* s.range(t.domain()): t's own domain list   *)
  | ORangeOfRange (s t : nat)             (* s.range(t.range()):  t's own range list    *)
  | OClamp (s : nat) (b : bool)           (* s.clamp(b)                                 *)
  | ONice (s : nat) (m : Z)               (* s.nice(m): fresh list                      *)
  | OCopy (s : nat).                      (* s.copy(): two fresh lists                  *)

(* s.range(<cell c>) *)
Definition set_range (st : state) (i c : nat) : state :=
  match nth_error (scales st) i, nth_error (heap st) c with
  | Some s, Some _ =>
      let s' := mkScale (dom s) c (clamp s) (cached s) in
      mkState (heap st) (upd (scales st) i (rescale (heap st) s'))
  | _, _ => st
  end.

(* one operation; an operation naming a scale or cell that does not exist
   leaves the state unchanged *)
Definition step (st : state) (o : op) : state :=
  match o with
  | ONew =>
      let h := heap st ++ [(0, 1); (0, 1)] in
      let s0 := mkScale (length (heap st)) (S (length (heap st))) false no_cache in
      mkState h (scales st ++ [rescale h s0])
  | ONewWith d r =>
      match nth_error (heap st) d, nth_error (heap st) r with
      | Some _, Some _ =>
          mkState (heap st) (scales st ++ [rescale (heap st) (mkScale d r false no_cache)])
      | _, _ => st
      end
  | OAlloc c => mkState (heap st ++ [c]) (scales st)
  | ODomain i d =>
      match nth_error (scales st) i with
      | Some s =>
          let h := heap st ++ [d] in
          let s' := mkScale (length (heap st)) (rng s) (clamp s) (cached s) in
          mkState h (upd (scales st) i (rescale h s'))
      | None => st
      end
  | ORange i c => set_range st i c
  | ORangeOfDomain i t =>
      match nth_error (scales st) t with
      | Some u => set_range st i (dom u)
      | None => st
      end
  | ORangeOfRange i t =>
      match nth_error (scales st) t with
      | Some u => set_range st i (rng u)
      | None => st
      end
  | OClamp i b =>
      match nth_error (scales st) i with
      | Some s =>
          let s' := mkScale (dom s) (rng s) b (cached s) in
          mkState (heap st) (upd (scales st) i (rescale (heap st) s'))
      | None => st
      end
  | ONice i m =>
      match nth_error (scales st) i with
      | Some s =>
          match nth_error (heap st) (dom s) with
          | Some d =>
              let h := heap st ++ [nice m d] in            (* a new list *)
              let s' := mkScale (length (heap st)) (rng s) (clamp s) (cached s) in
              mkState h (upd (scales st) i (rescale h s'))
          | None => st
          end
      | None => st
      end
  | OCopy i =>
      match nth_error (scales st) i with
      | Some s =>
          match nth_error (heap st) (dom s), nth_error (heap st) (rng s) with
          | Some d, Some r =>
              let h := heap st ++ [d; r] in
              let s0 := mkScale (length (heap st)) (S (length (heap st))) (clamp s) no_cache in
              mkState h (scales st ++ [rescale h s0])
          | _, _ => st
          end
      | None => st
      end
  end.

Definition run (ops : list op) (st : state) : state := fold_left step ops st.

(* the scale an operation writes to, if any *)
Definition op_target (o : op) : option nat :=
  match o with
  | ODomain i _ | ORange i _ | ORangeOfDomain i _ | ORangeOfRange i _
  | OClamp i _ | ONice i _ => Some i
  | ONew | ONewWith _ _ | OAlloc _ | OCopy _ => None
  end.
Definition touches (t : nat) (o : op) : bool :=
  match op_target o with Some i => Nat.eqb i t | None => false end.

(* ---------- observations ------------------------------------------------- *)
Inductive query :=
  | QCall (x : Q) | QInvert (y : Q) | QDomain | QRange | QClamp.
Inductive answer :=
  | ANum (q : Q) | APair (c : cell) | AFlag (b : bool) | AInvalid.

Definition call_cache (c : cache) (x : Q) : Q :=
  lin_gen (c_clamp c) (c_a c) (c_b c) (c_r0 c) (c_r1 c) x.
Definition invert_cache (c : cache) (y : Q) : Q :=
  inv_gen (c_clamp c) (c_a c) (c_b c) (c_r0 c) (c_r1 c) y.

Definition observe (st : state) (i : nat) (q : query) : answer :=
  match nth_error (scales st) i with
  | None => AInvalid
  | Some s =>
      match q with
      | QCall x => ANum (call_cache (cached s) x)        (* s(x): the closure *)
      | QInvert y => ANum (invert_cache (cached s) y)
      | QDomain => match nth_error (heap st) (dom s) with Some d => APair d | None => AInvalid end
      | QRange => match nth_error (heap st) (rng s) with Some r => APair r | None => AInvalid end
      | QClamp => AFlag (clamp s)
      end
  end.

(* ---------- specification predicates (used by the theorems) --------------- *)
(* the cache of s holds exactly the end points of the cells s points to *)
Definition wf_scale (h : list cell) (s : scale) : Prop :=
  exists d r, nth_error h (dom s) = Some d /\ nth_error h (rng s) = Some r /\
              cached s = mkCache (fst d) (snd d) (fst r) (snd r) (clamp s).

Definition ss_inv (st : state) : Prop := Forall (wf_scale (heap st)) (scales st).
