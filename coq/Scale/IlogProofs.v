(* Proofs about pow10 and the exact decimal logarithm ilog10 (Scale/Ticks.v). *)
From Coq Require Import ZArith QArith Qpower Lqa Lia.
From Labella Require Import Scale.Ticks.
Open Scope Q_scope.

Lemma ten_neq0 : ~ 10 == 0.
Proof. intro H. discriminate H. Qed.

Lemma pow10_pos : forall e, 0 < pow10 e.
Proof. intro e. apply Qpower_0_lt. reflexivity. Qed.

Lemma pow10_0 : pow10 0 == 1.
Proof. reflexivity. Qed.

Lemma pow10_succ : forall e, pow10 (e + 1) == pow10 e * 10.
Proof. intro e. unfold pow10. rewrite Qpower_plus by exact ten_neq0. reflexivity. Qed.

Lemma pow10_pred : forall e, pow10 (e - 1) == pow10 e / 10.
Proof.
  intro e. pose proof (pow10_succ (e - 1)) as H.
  replace (e - 1 + 1)%Z with e in H by lia. rewrite H. field.
Qed.

Lemma pow10_plus : forall e f, pow10 (e + f) == pow10 e * pow10 f.
Proof. intros. unfold pow10. apply Qpower_plus. exact ten_neq0. Qed.

Lemma pow10_le_mono : forall e f, (e <= f)%Z -> pow10 e <= pow10 f.
Proof. intros. apply Qpower_le_compat_l; [assumption|]. discriminate. Qed.

Lemma pow10_lt_mono : forall e f, (e < f)%Z -> pow10 e < pow10 f.
Proof. intros. apply Qpower_lt_compat_l; [assumption|]. reflexivity. Qed.

Lemma pow10_lt_inv : forall e f, pow10 e < pow10 f -> (e < f)%Z.
Proof. intros e f H. apply Qpower_lt_compat_l_inv with 10; [assumption|reflexivity]. Qed.

Lemma pow10_nonneg_Z : forall z, (0 <= z)%Z -> pow10 z == inject_Z (10 ^ z).
Proof. intros z H. unfold pow10. rewrite Zpower_Qpower by assumption. reflexivity. Qed.

(* a window [10^e, 10^(e+1)) determines e *)
Lemma pow10_window_unique : forall q e f,
  pow10 e <= q < pow10 (e + 1) -> pow10 f <= q < pow10 (f + 1) -> e = f.
Proof.
  intros q e f [H1 H2] [H3 H4].
  assert (pow10 e < pow10 (f + 1)) by lra. assert (pow10 f < pow10 (e + 1)) by lra.
  apply pow10_lt_inv in H. apply pow10_lt_inv in H0. lia.
Qed.

(* ---------- the two searches --------------------------------------------- *)
Lemma ilog_up_spec : forall fuel q p e r,
  p == pow10 e -> p <= q -> ilog_up fuel q p e = Some r ->
  pow10 r <= q < pow10 (r + 1).
Proof.
  induction fuel as [|fuel IH]; intros q p e r Hp Hle H; simpl in H; [discriminate|].
  destruct (Qlt_le_dec q (p * 10)) as [L|L].
  - injection H as H. subst r. rewrite pow10_succ, <- Hp. lra.
  - apply (IH q (p * 10) (e + 1)%Z r); [rewrite pow10_succ, Hp; reflexivity|assumption|assumption].
Qed.

Lemma ilog_up_fuel : forall fuel q p e,
  0 < p -> p <= q -> q < p * pow10 (Z.of_nat fuel) -> ilog_up fuel q p e <> None.
Proof.
  induction fuel as [|fuel IH]; intros q p e Hp Hle H.
  - change (Z.of_nat 0) with 0%Z in H. pose proof pow10_0. nra.
  - simpl. destruct (Qlt_le_dec q (p * 10)) as [L|L]; [discriminate|].
    apply IH; [lra|assumption|].
    rewrite Nat2Z.inj_succ in H. unfold Z.succ in H. rewrite pow10_succ in H. lra.
Qed.

Lemma ilog_down_spec : forall fuel q p e r,
  p == pow10 e -> q < p -> ilog_down fuel q p e = Some r ->
  pow10 r <= q < pow10 (r + 1).
Proof.
  induction fuel as [|fuel IH]; intros q p e r Hp Hlt H; simpl in H; [discriminate|].
  destruct (Qlt_le_dec q (p / 10)) as [L|L].
  - apply (IH q (p / 10) (e - 1)%Z r); [rewrite pow10_pred, Hp; reflexivity|assumption|assumption].
  - injection H as H. subst r. replace (e - 1 + 1)%Z with e by lia.
    rewrite pow10_pred, <- Hp. lra.
Qed.

Lemma ilog_down_fuel : forall fuel q p e,
  0 < q -> q < p -> p <= q * pow10 (Z.of_nat fuel) -> ilog_down fuel q p e <> None.
Proof.
  induction fuel as [|fuel IH]; intros q p e Hq Hlt H.
  - change (Z.of_nat 0) with 0%Z in H. pose proof pow10_0. nra.
  - simpl. destruct (Qlt_le_dec q (p / 10)) as [L|L]; [|discriminate].
    apply IH; [assumption|assumption|].
    rewrite Nat2Z.inj_succ in H. unfold Z.succ in H. rewrite pow10_succ in H.
    apply Qle_shift_div_r; lra.
Qed.

(* ---------- the fuel is enough ------------------------------------------- *)
Lemma Z_lt_pow10_log2 : forall n, (0 < n)%Z -> (n < 10 ^ (Z.log2 n + 1))%Z.
Proof.
  intros n H. pose proof (Z.log2_spec n H) as [_ L]. unfold Z.succ in L.
  assert (2 ^ (Z.log2 n + 1) <= 10 ^ (Z.log2 n + 1))%Z.
  { apply Z.pow_le_mono_l. lia. }
  lia.
Qed.

Lemma Q_lt_pow10_log2 : forall n, (0 < n)%Z -> inject_Z n < pow10 (Z.log2 n + 2).
Proof.
  intros n H. pose proof (Z_lt_pow10_log2 n H) as L.
  pose proof (Z.log2_nonneg n) as NN.
  apply Qlt_le_trans with (pow10 (Z.log2 n + 1)).
  - rewrite pow10_nonneg_Z by lia. rewrite <- Zlt_Qlt. assumption.
  - apply pow10_le_mono. lia.
Qed.

Lemma Qnum_pos : forall q, 0 < q -> (0 < Qnum q)%Z.
Proof. intros [n d] H. unfold Qlt in H. simpl in *. lia. Qed.

Lemma Q_le_num : forall q, 0 < q -> q <= inject_Z (Qnum q).
Proof.
  intros [n d] H. pose proof (Qnum_pos _ H) as Hn. unfold Qle. simpl in *.
  assert (1 <= Zpos d)%Z by lia. nia.
Qed.

Lemma Q_ge_inv_den : forall q, 0 < q -> 1 <= q * inject_Z (Zpos (Qden q)).
Proof.
  intros [n d] H. pose proof (Qnum_pos _ H) as Hn. unfold Qle, Qmult. simpl in *. nia.
Qed.

Theorem ilog10_fuel_enough : forall q, 0 < q -> ilog10_opt q <> None.
Proof.
  intros q Hq. unfold ilog10_opt. destruct (Qlt_le_dec q 1) as [L|L].
  - apply ilog_down_fuel; [assumption|assumption|].
    unfold fuel_down. rewrite Z2Nat.id by (pose proof (Z.log2_nonneg (Zpos (Qden q))); lia).
    pose proof (Q_lt_pow10_log2 (Zpos (Qden q)) eq_refl) as B.
    pose proof (Q_ge_inv_den q Hq) as C.
    pose proof (pow10_pos (Z.log2 (Zpos (Qden q)) + 2)) as P.
    nra.
  - apply ilog_up_fuel; [lra|assumption|].
    unfold fuel_up. pose proof (Qnum_pos q Hq) as Hn.
    rewrite Z2Nat.id by (pose proof (Z.log2_nonneg (Qnum q)); lia).
    pose proof (Q_lt_pow10_log2 (Qnum q) Hn) as B.
    pose proof (Q_le_num q Hq) as C. lra.
Qed.

Theorem ilog10_spec : forall q, 0 < q -> pow10 (ilog10 q) <= q < pow10 (ilog10 q + 1).
Proof.
  intros q Hq. unfold ilog10. pose proof (ilog10_fuel_enough q Hq) as F.
  destruct (ilog10_opt q) as [r|] eqn:E; [|congruence].
  unfold ilog10_opt in E. destruct (Qlt_le_dec q 1) as [L|L].
  - apply (ilog_down_spec (fuel_down q) q 1 0%Z r); [reflexivity|assumption|assumption].
  - apply (ilog_up_spec (fuel_up q) q 1 0%Z r); [reflexivity|assumption|assumption].
Qed.

Lemma ilog10_unique : forall q e, pow10 e <= q < pow10 (e + 1) -> ilog10 q = e.
Proof.
  intros q e H. assert (Hq : 0 < q) by (pose proof (pow10_pos e); lra).
  apply (pow10_window_unique q); [apply ilog10_spec; assumption|assumption].
Qed.

Lemma ilog10_comp : forall q q', 0 < q -> q == q' -> ilog10 q = ilog10 q'.
Proof.
  intros q q' Hq E. apply ilog10_unique. rewrite E. apply ilog10_spec. rewrite <- E. assumption.
Qed.

Lemma ilog10_times10 : forall q, 0 < q -> ilog10 (q * 10) = (ilog10 q + 1)%Z.
Proof.
  intros q Hq. apply ilog10_unique. pose proof (ilog10_spec q Hq) as [A B].
  rewrite !pow10_succ in *. lra.
Qed.

Lemma ilog10_mono : forall q q', 0 < q -> q <= q' -> (ilog10 q <= ilog10 q')%Z.
Proof.
  intros q q' Hq L. pose proof (ilog10_spec q Hq) as [A _].
  assert (Hq' : 0 < q') by lra. pose proof (ilog10_spec q' Hq') as [_ B].
  assert (pow10 (ilog10 q) < pow10 (ilog10 q' + 1)) by lra.
  apply pow10_lt_inv in H. lia.
Qed.
