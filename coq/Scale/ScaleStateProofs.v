(* Proofs about the scale heap machine Scale/ScaleState.v (property C12,
   object level).  No operation writes into an existing list cell, so cells
   are immutable after allocation; from that: the cache invariant for ALL
   histories (shared cells included, no disjointness condition) and
   non-interference between distinct scales (in particular copy/original). *)
From Coq Require Import ZArith QArith Lqa List Bool Lia.
From Labella Require Import Scale.Linear Scale.LinearProofs Scale.Ticks Scale.Nice Scale.ScaleState.
Import ListNotations.

(* ---------- list facts --------------------------------------------------- *)
Lemma nth_error_upd_same : forall A (l : list A) i x, (i < length l)%nat ->
  nth_error (upd l i x) i = Some x.
Proof.
  induction l as [|h t IH]; intros i x H; simpl in H; [lia|].
  destruct i; simpl; [reflexivity|]. apply IH. lia.
Qed.

Lemma nth_error_upd_other : forall A (l : list A) i j x, i <> j ->
  nth_error (upd l i x) j = nth_error l j.
Proof.
  induction l as [|h t IH]; intros i j x H; [reflexivity|].
  destruct i, j; simpl; try reflexivity; try congruence. apply IH. congruence.
Qed.

Lemma length_upd : forall A (l : list A) i x, length (upd l i x) = length l.
Proof. induction l as [|h t IH]; intros [|i] x; simpl; auto. Qed.

Lemma nth_error_Some_lt : forall A (l : list A) i x, nth_error l i = Some x -> (i < length l)%nat.
Proof. intros A l i x H. apply nth_error_Some. congruence. Qed.

Lemma nth_error_ext : forall A (l l' : list A) i x,
  nth_error l i = Some x -> nth_error (l ++ l') i = Some x.
Proof.
  intros A l l' i x H. rewrite nth_error_app1; [assumption|].
  apply nth_error_Some_lt with x. assumption.
Qed.

Lemma nth_error_snoc_new : forall A (l l' : list A) x,
  nth_error (l ++ x :: l') (length l) = Some x.
Proof. intros. rewrite nth_error_app2 by lia. rewrite Nat.sub_diag. reflexivity. Qed.

Lemma nth_error_snoc_new2 : forall A (l : list A) x y,
  nth_error (l ++ [x; y]) (S (length l)) = Some y.
Proof.
  intros. rewrite nth_error_app2 by lia.
  replace (S (length l) - length l)%nat with 1%nat by lia. reflexivity.
Qed.

Lemma In_upd : forall A (l : list A) i x y, In y (upd l i x) -> y = x \/ In y l.
Proof.
  induction l as [|h t IH]; intros [|i] x y H; simpl in *; try tauto.
  - destruct H; auto.
  - destruct H as [H|H]; auto. destruct (IH _ _ _ H); auto.
Qed.

Lemma Forall_upd : forall A (P : A -> Prop) l i x, Forall P l -> P x -> Forall P (upd l i x).
Proof.
  induction l as [|h t IH]; intros [|i] x F Px; simpl; auto; inversion F; subst; constructor; auto.
Qed.

Lemma app_nil_r' : forall A (l : list A), l = l ++ [].
Proof. intros. rewrite app_nil_r. reflexivity. Qed.

(* ---------- cells are immutable ------------------------------------------ *)
Lemma set_range_heap : forall st i c, heap (set_range st i c) = heap st.
Proof.
  intros st i c. unfold set_range.
  destruct (nth_error (scales st) i), (nth_error (heap st) c); reflexivity.
Qed.

(* every operation only appends to the heap *)
Lemma step_heap_ext : forall st o, exists l, heap (step st o) = heap st ++ l.
Proof.
  intros st o. destruct o as [|d r|c|i d|i c|i t|i t|i b|i m|i]; simpl;
    try rewrite set_range_heap;
    repeat match goal with |- context [match ?x with _ => _ end] => destruct x end;
    simpl; try rewrite set_range_heap;
    try (eexists; reflexivity); try (exists []; apply app_nil_r').
Qed.

Theorem ss_cells_immutable_step : forall st o c v,
  nth_error (heap st) c = Some v -> nth_error (heap (step st o)) c = Some v.
Proof.
  intros st o c v H. destruct (step_heap_ext st o) as [l E]. rewrite E.
  apply nth_error_ext. assumption.
Qed.

(* once a list cell exists its contents never change, whatever is done *)
Theorem ss_cells_immutable : forall ops st c v,
  nth_error (heap st) c = Some v -> nth_error (heap (run ops st)) c = Some v.
Proof.
  induction ops as [|o ops IH]; intros st c v H; [assumption|].
  simpl. apply IH. apply ss_cells_immutable_step. assumption.
Qed.

(* ---------- the invariant ------------------------------------------------ *)
Lemma wf_ext : forall h l s, wf_scale h s -> wf_scale (h ++ l) s.
Proof.
  intros h l s (d & r & Hd & Hr & Hc). exists d, r.
  repeat split; [apply nth_error_ext|apply nth_error_ext|]; assumption.
Qed.

Lemma Forall_wf_ext : forall h l ss, Forall (wf_scale h) ss -> Forall (wf_scale (h ++ l)) ss.
Proof. intros. eapply Forall_impl; [|eassumption]. intros. apply wf_ext. assumption. Qed.

Lemma wf_rescale : forall h s d r,
  nth_error h (dom s) = Some d -> nth_error h (rng s) = Some r -> wf_scale h (rescale h s).
Proof.
  intros h s d r Hd Hr. unfold rescale. rewrite Hd, Hr. exists d, r. simpl. auto.
Qed.

Lemma rescale_eq : forall h s d r,
  nth_error h (dom s) = Some d -> nth_error h (rng s) = Some r ->
  rescale h s = mkScale (dom s) (rng s) (clamp s) (mkCache (fst d) (snd d) (fst r) (snd r) (clamp s)).
Proof. intros h s d r Hd Hr. unfold rescale. rewrite Hd, Hr. reflexivity. Qed.

Lemma inv_init : ss_inv init.
Proof. constructor. Qed.

Lemma wf_of_inv : forall st i s, ss_inv st -> nth_error (scales st) i = Some s ->
  wf_scale (heap st) s.
Proof.
  intros st i s F H. unfold ss_inv in F. rewrite Forall_forall in F. apply F.
  eapply nth_error_In. eassumption.
Qed.

Lemma inv_set_range : forall st i c, ss_inv st -> ss_inv (set_range st i c).
Proof.
  intros st i c F. unfold set_range.
  destruct (nth_error (scales st) i) as [s|] eqn:Es; [|assumption].
  destruct (nth_error (heap st) c) as [r|] eqn:Ec; [|assumption].
  destruct (wf_of_inv st i s F Es) as (d0 & r0 & Hd0 & Hr0 & Hc0).
  unfold ss_inv. simpl. apply Forall_upd; [assumption|].
  eapply wf_rescale; simpl; eassumption.
Qed.

Lemma inv_step : forall st o, ss_inv st -> ss_inv (step st o).
Proof.
  intros st o F. destruct o as [|d r|c|i d|i c|i t|i t|i b|i m|i]; simpl.
  - (* ONew *)
    unfold ss_inv. simpl. apply Forall_app. split; [apply Forall_wf_ext; assumption|].
    constructor; [|constructor].
    eapply wf_rescale; simpl; [apply nth_error_snoc_new|apply nth_error_snoc_new2].
  - (* ONewWith *)
    destruct (nth_error (heap st) d) as [cd|] eqn:Ed; [|assumption].
    destruct (nth_error (heap st) r) as [cr|] eqn:Er; [|assumption].
    unfold ss_inv. simpl. apply Forall_app. split; [assumption|].
    constructor; [|constructor]. eapply wf_rescale; simpl; eassumption.
  - (* OAlloc *)
    unfold ss_inv. simpl. apply Forall_wf_ext. assumption.
  - (* ODomain *)
    destruct (nth_error (scales st) i) as [s|] eqn:Es; [|assumption].
    destruct (wf_of_inv st i s F Es) as (d0 & r0 & Hd0 & Hr0 & Hc0).
    unfold ss_inv. simpl. apply Forall_upd; [apply Forall_wf_ext; assumption|].
    eapply wf_rescale; simpl; [apply nth_error_snoc_new|apply nth_error_ext; eassumption].
  - apply inv_set_range. assumption.
  - destruct (nth_error (scales st) t); [apply inv_set_range|]; assumption.
  - destruct (nth_error (scales st) t); [apply inv_set_range|]; assumption.
  - (* OClamp *)
    destruct (nth_error (scales st) i) as [s|] eqn:Es; [|assumption].
    destruct (wf_of_inv st i s F Es) as (d0 & r0 & Hd0 & Hr0 & Hc0).
    unfold ss_inv. simpl. apply Forall_upd; [assumption|].
    eapply wf_rescale; simpl; eassumption.
  - (* ONice: a fresh cell; every other scale keeps pointing at unchanged cells *)
    destruct (nth_error (scales st) i) as [s|] eqn:Es; [|assumption].
    destruct (nth_error (heap st) (dom s)) as [d|] eqn:Ed; [|assumption].
    destruct (wf_of_inv st i s F Es) as (d0 & r0 & Hd0 & Hr0 & Hc0).
    unfold ss_inv. simpl. apply Forall_upd; [apply Forall_wf_ext; assumption|].
    eapply wf_rescale; simpl; [apply nth_error_snoc_new|apply nth_error_ext; eassumption].
  - (* OCopy *)
    destruct (nth_error (scales st) i) as [s|] eqn:Es; [|assumption].
    destruct (nth_error (heap st) (dom s)) as [d|] eqn:Ed; [|assumption].
    destruct (nth_error (heap st) (rng s)) as [r|] eqn:Er; [|assumption].
    unfold ss_inv. simpl. apply Forall_app. split; [apply Forall_wf_ext; assumption|].
    constructor; [|constructor].
    eapply wf_rescale; simpl; [apply nth_error_snoc_new|apply nth_error_snoc_new2].
Qed.

Lemma inv_run : forall ops st, ss_inv st -> ss_inv (run ops st).
Proof.
  induction ops as [|o ops IH]; intros st H; [assumption|].
  simpl. apply IH. apply inv_step. assumption.
Qed.

(* in every reachable state: every scale's closures hold exactly the end
   points of the domain and range it reports (and the current clamp flag) -
   however the list cells are shared between scales *)
Theorem ss_invariant : forall ops, ss_inv (run ops init).
Proof. intro ops. apply inv_run. apply inv_init. Qed.

(* the invariant in terms of observations *)
Lemma inv_observe : forall st i s, ss_inv st -> nth_error (scales st) i = Some s ->
  exists d r, observe st i QDomain = APair d /\ observe st i QRange = APair r /\
    observe st i QClamp = AFlag (clamp s) /\
    cached s = mkCache (fst d) (snd d) (fst r) (snd r) (clamp s).
Proof.
  intros st i s F Hs. destruct (wf_of_inv st i s F Hs) as (d & r & Hd & Hr & Hc).
  exists d, r. unfold observe. rewrite Hs, Hd, Hr. auto.
Qed.

(* every scale maps the end points of the domain it reports to the end points
   of the range it reports (clamped or not) *)
Theorem ss_endpoints : forall ops i a b r0 r1,
  let st := run ops init in
  observe st i QDomain = APair (a, b) -> observe st i QRange = APair (r0, r1) -> ~ a == b ->
  exists v0 v1, observe st i (QCall a) = ANum v0 /\ observe st i (QCall b) = ANum v1 /\
                v0 == r0 /\ v1 == r1.
Proof.
  intros ops i a b r0 r1 st HD HR Hab.
  pose proof (ss_invariant ops) as I. fold st in I.
  destruct (nth_error (scales st) i) as [s|] eqn:Hs;
    [|unfold observe in HD; rewrite Hs in HD; discriminate].
  destruct (inv_observe st i s I Hs) as (d & r & Od & Or & _ & Hc).
  rewrite HD in Od. rewrite HR in Or. injection Od as Od. injection Or as Or. subst d r.
  simpl in Hc. unfold observe. rewrite Hs.
  exists (call_cache (cached s) a), (call_cache (cached s) b).
  split; [reflexivity|]. split; [reflexivity|].
  unfold call_cache. rewrite Hc. simpl.
  destruct (clamp s).
  - fold (lin_clamp a b r0 r1 a). fold (lin_clamp a b r0 r1 b).
    rewrite !clamp_id_inside; try assumption.
    + apply lin_endpoints. assumption.
    + destruct (qmin_spec a b) as [[H1 E1]|[H1 E1]]; rewrite E1;
      destruct (qmax_spec a b) as [[H2 E2]|[H2 E2]]; rewrite E2; lra.
    + destruct (qmin_spec a b) as [[H1 E1]|[H1 E1]]; rewrite E1;
      destruct (qmax_spec a b) as [[H2 E2]|[H2 E2]]; rewrite E2; lra.
  - apply lin_endpoints. assumption.
Qed.

(* ---------- non-interference --------------------------------------------- *)
Lemma set_range_length : forall st i c, length (scales (set_range st i c)) = length (scales st).
Proof.
  intros st i c. unfold set_range.
  destruct (nth_error (scales st) i), (nth_error (heap st) c); simpl; rewrite ?length_upd; reflexivity.
Qed.

Lemma step_length : forall st o, (length (scales st) <= length (scales (step st o)))%nat.
Proof.
  intros st o. destruct o as [|d r|c|i d|i c|i t|i t|i b|i m|i]; simpl;
    try rewrite set_range_length;
    repeat match goal with |- context [match ?x with _ => _ end] => destruct x end;
    simpl; rewrite ?set_range_length, ?app_length, ?length_upd; simpl; lia.
Qed.

Lemma set_range_other : forall st i c t q, i <> t ->
  observe (set_range st i c) t q = observe st t q.
Proof.
  intros st i c t q H. unfold set_range.
  destruct (nth_error (scales st) i) as [s|]; [|reflexivity].
  destruct (nth_error (heap st) c) as [r|]; [|reflexivity].
  unfold observe. simpl. rewrite nth_error_upd_other by assumption. reflexivity.
Qed.

(* observations of t only depend on t's record and on the cells it points to *)
Lemma observe_ext : forall h l ss ss' t q s,
  wf_scale h s -> nth_error ss t = Some s -> nth_error ss' t = Some s ->
  observe (mkState (h ++ l) ss') t q = observe (mkState h ss) t q.
Proof.
  intros h l ss ss' t q s (d & r & Hd & Hr & _) H H'. unfold observe. simpl.
  rewrite H, H'. rewrite (nth_error_ext _ h l _ _ Hd), (nth_error_ext _ h l _ _ Hr), Hd, Hr.
  reflexivity.
Qed.

(* an operation that does not write to scale t changes no observation of t *)
Lemma step_other : forall st o t q, ss_inv st -> (t < length (scales st))%nat ->
  touches t o = false -> observe (step st o) t q = observe st t q.
Proof.
  intros st o t q F Ht Ho.
  destruct (nth_error (scales st) t) as [st_t|] eqn:Et;
    [|apply nth_error_None in Et; lia].
  pose proof (wf_of_inv st t st_t F Et) as Wt.
  assert (Est : st = mkState (heap st) (scales st)) by (destruct st; reflexivity).
  unfold touches in Ho.
  destruct o as [|d r|c|i d|i c|i u|i u|i b|i m|i]; simpl in Ho |- *;
    try (apply Nat.eqb_neq in Ho).
  - rewrite Est at 2. apply (observe_ext _ _ _ _ _ _ st_t Wt Et).
    rewrite nth_error_app1 by assumption. assumption.
  - destruct (nth_error (heap st) d); [|reflexivity]. destruct (nth_error (heap st) r); [|reflexivity].
    rewrite Est at 2. rewrite (app_nil_r' _ (heap st)) at 1.
    apply (observe_ext _ _ _ _ _ _ st_t Wt Et).
    rewrite nth_error_app1 by assumption. assumption.
  - rewrite Est at 2. apply (observe_ext _ _ _ _ _ _ st_t Wt Et). assumption.
  - destruct (nth_error (scales st) i) as [s|] eqn:Es; [|reflexivity].
    rewrite Est at 2. apply (observe_ext _ _ _ _ _ _ st_t Wt Et).
    rewrite nth_error_upd_other by assumption. assumption.
  - apply set_range_other. assumption.
  - destruct (nth_error (scales st) u); [apply set_range_other; assumption|reflexivity].
  - destruct (nth_error (scales st) u); [apply set_range_other; assumption|reflexivity].
  - destruct (nth_error (scales st) i) as [s|] eqn:Es; [|reflexivity].
    unfold observe. simpl. rewrite nth_error_upd_other by assumption. reflexivity.
  - destruct (nth_error (scales st) i) as [s|] eqn:Es; [|reflexivity].
    destruct (nth_error (heap st) (dom s)) as [d|] eqn:Ed; [|reflexivity].
    rewrite Est at 2. apply (observe_ext _ _ _ _ _ _ st_t Wt Et).
    rewrite nth_error_upd_other by assumption. assumption.
  - destruct (nth_error (scales st) i) as [s|] eqn:Es; [|reflexivity].
    destruct (nth_error (heap st) (dom s)) as [d|] eqn:Ed; [|reflexivity].
    destruct (nth_error (heap st) (rng s)) as [r|] eqn:Er; [|reflexivity].
    rewrite Est at 2. apply (observe_ext _ _ _ _ _ _ st_t Wt Et).
    rewrite nth_error_app1 by assumption. assumption.
Qed.

(* by induction over operation lists: whatever is done to OTHER scales
   (including copying t, handing t's own lists to them, nice() on them, ...)
   no observation of t changes *)
Lemma run_other : forall ops st t q, ss_inv st -> (t < length (scales st))%nat ->
  forallb (fun o => negb (touches t o)) ops = true ->
  observe (run ops st) t q = observe st t q.
Proof.
  induction ops as [|o ops IH]; intros st t q I Ht Hall; [reflexivity|].
  simpl in Hall. apply andb_true_iff in Hall. destruct Hall as [Ho Hall].
  apply negb_true_iff in Ho. simpl.
  rewrite IH; try assumption.
  - apply step_other; assumption.
  - apply inv_step; assumption.
  - pose proof (step_length st o). lia.
Qed.

Theorem ss_independent : forall pre ops t q,
  let st := run pre init in
  (t < length (scales st))%nat ->
  forallb (fun o => negb (touches t o)) ops = true ->
  observe (run ops st) t q = observe st t q.
Proof. intros pre ops t q st. apply run_other. apply ss_invariant. Qed.

(* copy(): the new scale answers every query as the original does ... *)
Lemma copy_faithful_inv : forall st i q, ss_inv st -> (i < length (scales st))%nat ->
  observe (step st (OCopy i)) (length (scales st)) q = observe st i q /\
  length (scales (step st (OCopy i))) = S (length (scales st)).
Proof.
  intros st i q I Hi.
  destruct (nth_error (scales st) i) as [s|] eqn:Es; [|apply nth_error_None in Es; lia].
  destruct (wf_of_inv st i s I Es) as (d & r & Hd & Hr & Hc).
  simpl. rewrite Es, Hd, Hr. cbn [scales heap]. split; [|rewrite app_length; simpl; lia].
  rewrite (rescale_eq _ _ d r); [|apply nth_error_snoc_new|apply nth_error_snoc_new2].
  unfold observe. cbn [scales heap]. rewrite (nth_error_snoc_new _ (scales st) []), Es.
  cbn [dom rng clamp cached].
  rewrite nth_error_snoc_new, nth_error_snoc_new2, Hd, Hr, Hc. reflexivity.
Qed.

(* ... and from then on original and copy never influence each other:
   operations on the copy (and on anything else) leave the original's
   observations unchanged, and vice versa *)
Theorem ss_copy_independent : forall pre i ops q,
  let st := run pre init in
  let c := length (scales st) in            (* the id of the copy *)
  let st1 := step st (OCopy i) in
  (i < length (scales st))%nat ->
  (forall x, observe st1 c x = observe st i x) /\
  (forallb (fun o => negb (touches i o)) ops = true ->
     observe (run ops st1) i q = observe st i q) /\
  (forallb (fun o => negb (touches c o)) ops = true ->
     observe (run ops st1) c q = observe st i q).
Proof.
  intros pre i ops q st c st1 Hi.
  pose proof (ss_invariant pre) as I. fold st in I.
  assert (I1 : ss_inv st1) by (apply inv_step; assumption).
  assert (L1 : length (scales st1) = S c) by (apply (copy_faithful_inv st i q I Hi)).
  split; [|split].
  - intro x. apply (copy_faithful_inv st i x I Hi).
  - intro H. rewrite run_other; try assumption; [|lia].
    apply step_other; [assumption|assumption|reflexivity].
  - intro H. rewrite run_other; try assumption; [|lia].
    apply (copy_faithful_inv st i q I Hi).
Qed.

(* no dangling references: every scale points to existing cells *)
Theorem ss_no_dangling : forall ops j s,
  let st := run ops init in
  nth_error (scales st) j = Some s ->
  (dom s < length (heap st))%nat /\ (rng s < length (heap st))%nat.
Proof.
  intros ops j s st H. destruct (wf_of_inv st j s (ss_invariant ops) H) as (d & r & Hd & Hr & _).
  split; eapply nth_error_Some_lt; eassumption.
Qed.
