(* Proofs about the scale heap machine Scale/ScaleState.v (property C12,
   object level): the cache invariant, ownership of domain cells, and
   non-interference between distinct scales (in particular copy/original). *)
From Coq Require Import ZArith QArith Lqa List Bool Lia.
From Labella Require Import Scale.Linear Scale.LinearProofs Scale.Ticks Scale.Nice Scale.ScaleState.
Import ListNotations.

(* ---------- list facts --------------------------------------------------- *)
Lemma nth_error_upd_same : forall A (l : list A) i x, (i < length l)%nat ->
  nth_error (upd l i x) i = Some x.
Proof.
  induction l as [|h t IH]; intros i x H; simpl in H; [lia|].
  destruct i; simpl; [reflexivity|]. apply IH. lia.
Qed.

Lemma nth_error_upd_other : forall A (l : list A) i j x, i <> j ->
  nth_error (upd l i x) j = nth_error l j.
Proof.
  induction l as [|h t IH]; intros i j x H; [reflexivity|].
  destruct i, j; simpl; try reflexivity; try congruence. apply IH. congruence.
Qed.

Lemma length_upd : forall A (l : list A) i x, length (upd l i x) = length l.
Proof. induction l as [|h t IH]; intros [|i] x; simpl; auto. Qed.

Lemma nth_error_snoc_old : forall A (l : list A) x i, (i < length l)%nat ->
  nth_error (l ++ [x]) i = nth_error l i.
Proof. intros. apply nth_error_app1. assumption. Qed.

Lemma nth_error_snoc_new : forall A (l : list A) x, nth_error (l ++ [x]) (length l) = Some x.
Proof. intros. rewrite nth_error_app2 by lia. rewrite Nat.sub_diag. reflexivity. Qed.

Lemma nth_error_Some_lt : forall A (l : list A) i x, nth_error l i = Some x -> (i < length l)%nat.
Proof. intros A l i x H. apply nth_error_Some. congruence. Qed.

Lemma map_upd : forall A B (f : A -> B) l i x, map f (upd l i x) = upd (map f l) i (f x).
Proof. induction l as [|h t IH]; intros [|i] x; simpl; auto. rewrite IH. reflexivity. Qed.

Lemma upd_same_val : forall A (l : list A) i x, nth_error l i = Some x -> upd l i x = l.
Proof.
  induction l as [|h t IH]; intros [|i] x H; simpl in *; try reflexivity; try discriminate.
  - congruence.
  - rewrite IH by assumption. reflexivity.
Qed.

Lemma In_upd : forall A (l : list A) i x y, In y (upd l i x) -> y = x \/ In y l.
Proof.
  induction l as [|h t IH]; intros [|i] x y H; simpl in *; try tauto.
  - destruct H; auto.
  - destruct H as [H|H]; auto. destruct (IH _ _ _ H); auto.
Qed.

Lemma NoDup_upd_fresh : forall A (l : list A) i x, NoDup l -> ~ In x l -> NoDup (upd l i x).
Proof.
  induction l as [|h t IH]; intros i x ND NI; [constructor|].
  inversion ND as [|? ? Hh Ht]; subst. destruct i; simpl.
  - constructor; [|assumption]. intro H. apply NI. right. assumption.
  - constructor.
    + intro H. apply In_upd in H. destruct H as [H|H]; [|contradiction]. apply NI. left. assumption.
    + apply IH; [assumption|]. intro H. apply NI. right. assumption.
Qed.

Lemma NoDup_snoc : forall A (l : list A) x, NoDup l -> ~ In x l -> NoDup (l ++ [x]).
Proof.
  intros A l x ND NI. apply NoDup_rev in ND.
  rewrite <- (rev_involutive (l ++ [x])). apply NoDup_rev. rewrite rev_app_distr. simpl.
  constructor; [|assumption]. intro H. apply NI. apply in_rev. assumption.
Qed.

Lemma NoDup_nth_error_inj : forall A (l : list A) i j x,
  NoDup l -> nth_error l i = Some x -> nth_error l j = Some x -> i = j.
Proof.
  intros A l i j x ND Hi Hj.
  apply (proj1 (NoDup_nth_error l) ND i j); [apply nth_error_Some_lt with x; assumption|congruence].
Qed.

Lemma Forall_upd : forall A (P : A -> Prop) l i x, Forall P l -> P x -> Forall P (upd l i x).
Proof.
  induction l as [|h t IH]; intros [|i] x F Px; simpl; auto; inversion F; subst; constructor; auto.
Qed.

Lemma Forall_nth_error : forall A (P : A -> Prop) l,
  (forall j x, nth_error l j = Some x -> P x) -> Forall P l.
Proof.
  intros A P l H. apply Forall_forall. intros x I. apply In_nth_error in I.
  destruct I as [j Hj]. eapply H. eassumption.
Qed.

(* ---------- the invariant ------------------------------------------------ *)
Definition reachable (st : state) : Prop := exists ops, st = run ops init.

Lemma wf_snoc : forall dh rh x y s, wf_scale dh rh s -> wf_scale (dh ++ x) (rh ++ y) s.
Proof.
  intros dh rh x y s (d & r & Hd & Hr & Hc). exists d, r. repeat split; [| |assumption].
  - rewrite nth_error_app1; [assumption|apply nth_error_Some_lt with d; assumption].
  - rewrite nth_error_app1; [assumption|apply nth_error_Some_lt with r; assumption].
Qed.

Lemma wf_dom_lt : forall dh rh s, wf_scale dh rh s -> (dom s < length dh)%nat.
Proof. intros dh rh s (d & r & Hd & _). apply nth_error_Some_lt with d. assumption. Qed.

Lemma wf_rescale : forall dh rh s d r,
  nth_error dh (dom s) = Some d -> nth_error rh (rng s) = Some r ->
  wf_scale dh rh (rescale dh rh s).
Proof.
  intros dh rh s d r Hd Hr. unfold rescale. rewrite Hd, Hr. exists d, r. simpl. auto.
Qed.

Lemma rescale_dom : forall dh rh s, dom (rescale dh rh s) = dom s.
Proof. intros. unfold rescale. destruct (nth_error dh (dom s)), (nth_error rh (rng s)); reflexivity. Qed.

Lemma fresh_dom : forall dh rh l, Forall (wf_scale dh rh) l -> ~ In (length dh) (map dom l).
Proof.
  intros dh rh l F H. apply in_map_iff in H. destruct H as (s & E & I).
  rewrite Forall_forall in F. pose proof (wf_dom_lt _ _ _ (F s I)). lia.
Qed.

Lemma Forall_wf_snoc : forall dh rh x y l,
  Forall (wf_scale dh rh) l -> Forall (wf_scale (dh ++ x) (rh ++ y)) l.
Proof. intros. eapply Forall_impl; [|eassumption]. intros. apply wf_snoc. assumption. Qed.

Lemma app_nil_r' : forall A (l : list A), l = l ++ [].
Proof. intros. rewrite app_nil_r. reflexivity. Qed.

Lemma inv_init : ss_inv init.
Proof. split; simpl; constructor. Qed.

Lemma inv_step : forall st o, ss_inv st -> ss_inv (step st o).
Proof.
  intros st o [F ND]. destruct o as [|r|i d|i c|i b|i m|i]; simpl.
  - (* ONew *)
    split; simpl.
    + apply Forall_app. split; [apply Forall_wf_snoc; assumption|]. constructor; [|constructor].
      eapply wf_rescale; simpl; apply nth_error_snoc_new.
    + rewrite map_app. simpl. rewrite rescale_dom. simpl.
      apply NoDup_snoc; [assumption|]. eapply fresh_dom; eassumption.
  - (* OAllocR *)
    split; simpl; [|assumption].
    rewrite (app_nil_r' _ (dheap st)). apply Forall_wf_snoc. assumption.
  - (* ODomain *)
    destruct (nth_error (scales st) i) as [s|] eqn:Es; [|split; assumption].
    assert (W : wf_scale (dheap st) (rheap st) s)
      by (rewrite Forall_forall in F; apply F; eapply nth_error_In; eassumption).
    destruct W as (d0 & r0 & Hd0 & Hr0 & Hc0).
    split; simpl.
    + apply Forall_upd.
      * rewrite (app_nil_r' _ (rheap st)). apply Forall_wf_snoc. assumption.
      * eapply wf_rescale; simpl; [apply nth_error_snoc_new|eassumption].
    + rewrite map_upd, rescale_dom. simpl. apply NoDup_upd_fresh; [assumption|].
      eapply fresh_dom; eassumption.
  - (* ORange *)
    destruct (nth_error (scales st) i) as [s|] eqn:Es; [|split; assumption].
    destruct (nth_error (rheap st) c) as [r|] eqn:Ec; [|split; assumption].
    assert (W : wf_scale (dheap st) (rheap st) s)
      by (rewrite Forall_forall in F; apply F; eapply nth_error_In; eassumption).
    destruct W as (d0 & r0 & Hd0 & Hr0 & Hc0).
    split; simpl.
    + apply Forall_upd; [assumption|]. eapply wf_rescale; simpl; eassumption.
    + rewrite map_upd, rescale_dom. simpl. rewrite upd_same_val; [assumption|].
      rewrite nth_error_map, Es. reflexivity.
  - (* OClamp *)
    destruct (nth_error (scales st) i) as [s|] eqn:Es; [|split; assumption].
    assert (W : wf_scale (dheap st) (rheap st) s)
      by (rewrite Forall_forall in F; apply F; eapply nth_error_In; eassumption).
    destruct W as (d0 & r0 & Hd0 & Hr0 & Hc0).
    split; simpl.
    + apply Forall_upd; [assumption|]. eapply wf_rescale; simpl; eassumption.
    + rewrite map_upd, rescale_dom. simpl. rewrite upd_same_val; [assumption|].
      rewrite nth_error_map, Es. reflexivity.
  - (* ONice *)
    destruct (nth_error (scales st) i) as [s|] eqn:Es; [|split; assumption].
    destruct (nth_error (dheap st) (dom s)) as [d|] eqn:Ed; [|split; assumption].
    assert (W : wf_scale (dheap st) (rheap st) s)
      by (rewrite Forall_forall in F; apply F; eapply nth_error_In; eassumption).
    destruct W as (d0 & r0 & Hd0 & Hr0 & Hc0).
    assert (Hlt : (dom s < length (dheap st))%nat) by (apply nth_error_Some_lt with d; assumption).
    split; simpl.
    + (* every other scale points to a different domain cell, so its cache stays right *)
      apply Forall_nth_error. intros j s' Hj.
      destruct (Nat.eq_dec i j) as [E|NE].
      * subst j. rewrite nth_error_upd_same in Hj by (apply nth_error_Some_lt with s; assumption).
        injection Hj as Hj. subst s'.
        eapply wf_rescale; [apply nth_error_upd_same; assumption|eassumption].
      * rewrite nth_error_upd_other in Hj by assumption.
        assert (Hdd : dom s' <> dom s).
        { intro E. apply NE. apply (NoDup_nth_error_inj _ (map dom (scales st)) i j (dom s) ND).
          - rewrite nth_error_map, Es. reflexivity.
          - rewrite nth_error_map, Hj. simpl. congruence. }
        rewrite Forall_forall in F. destruct (F s' (nth_error_In _ _ Hj)) as (d' & r' & Hd' & Hr' & Hc').
        exists d', r'. repeat split; try assumption.
        rewrite nth_error_upd_other by congruence. assumption.
    + rewrite map_upd, rescale_dom. rewrite upd_same_val; [assumption|].
      rewrite nth_error_map, Es. reflexivity.
  - (* OCopy *)
    destruct (nth_error (scales st) i) as [s|] eqn:Es; [|split; assumption].
    destruct (nth_error (dheap st) (dom s)) as [d|] eqn:Ed; [|split; assumption].
    destruct (nth_error (rheap st) (rng s)) as [r|] eqn:Er; [|split; assumption].
    split; simpl.
    + apply Forall_app. split; [apply Forall_wf_snoc; assumption|]. constructor; [|constructor].
      eapply wf_rescale; simpl; apply nth_error_snoc_new.
    + rewrite map_app. simpl. rewrite rescale_dom. simpl.
      apply NoDup_snoc; [assumption|]. eapply fresh_dom; eassumption.
Qed.

Lemma inv_run : forall ops st, ss_inv st -> ss_inv (run ops st).
Proof.
  induction ops as [|o ops IH]; intros st H; [assumption|].
  simpl. apply IH. apply inv_step. assumption.
Qed.

(* in every reachable state: every scale's closures hold exactly the end
   points of the domain and range it reports (and the current clamp flag), and
   no two scales share a domain list *)
Theorem ss_invariant : forall ops, ss_inv (run ops init).
Proof. intro ops. apply inv_run. apply inv_init. Qed.

(* the invariant in terms of observations *)
Lemma inv_observe : forall st i s, ss_inv st -> nth_error (scales st) i = Some s ->
  exists d r, observe st i QDomain = APair d /\ observe st i QRange = APair r /\
    observe st i QClamp = AFlag (clamp s) /\
    cached s = mkCache (fst d) (snd d) (fst r) (snd r) (clamp s).
Proof.
  intros st i s [F _] Hs. rewrite Forall_forall in F.
  destruct (F s (nth_error_In _ _ Hs)) as (d & r & Hd & Hr & Hc).
  exists d, r. unfold observe. rewrite Hs, Hd, Hr. auto.
Qed.

(* every scale maps the end points of the domain it reports to the end points
   of the range it reports (clamped or not) *)
Theorem ss_endpoints : forall ops i a b r0 r1,
  let st := run ops init in
  observe st i QDomain = APair (a, b) -> observe st i QRange = APair (r0, r1) -> ~ a == b ->
  exists v0 v1, observe st i (QCall a) = ANum v0 /\ observe st i (QCall b) = ANum v1 /\
                v0 == r0 /\ v1 == r1.
Proof.
  intros ops i a b r0 r1 st HD HR Hab.
  pose proof (ss_invariant ops) as I. fold st in I.
  destruct (nth_error (scales st) i) as [s|] eqn:Hs;
    [|unfold observe in HD; rewrite Hs in HD; discriminate].
  destruct (inv_observe st i s I Hs) as (d & r & Od & Or & _ & Hc).
  rewrite HD in Od. rewrite HR in Or. injection Od as Od. injection Or as Or. subst d r.
  simpl in Hc. unfold observe. rewrite Hs.
  exists (call_cache (cached s) a), (call_cache (cached s) b).
  split; [reflexivity|]. split; [reflexivity|].
  unfold call_cache. rewrite Hc. simpl.
  destruct (clamp s).
  - fold (lin_clamp a b r0 r1 a). fold (lin_clamp a b r0 r1 b).
    rewrite !clamp_id_inside; try assumption.
    + apply lin_endpoints. assumption.
    + destruct (qmin_spec a b) as [[H1 E1]|[H1 E1]]; rewrite E1;
      destruct (qmax_spec a b) as [[H2 E2]|[H2 E2]]; rewrite E2; lra.
    + destruct (qmin_spec a b) as [[H1 E1]|[H1 E1]]; rewrite E1;
      destruct (qmax_spec a b) as [[H2 E2]|[H2 E2]]; rewrite E2; lra.
  - apply lin_endpoints. assumption.
Qed.

(* ---------- non-interference --------------------------------------------- *)
Lemma step_length : forall st o, (length (scales st) <= length (scales (step st o)))%nat.
Proof.
  intros st o. destruct o as [|r|i d|i c|i b|i m|i]; simpl;
    repeat match goal with |- context [match ?x with _ => _ end] => destruct x end;
    simpl; rewrite ?app_length, ?length_upd; simpl; lia.
Qed.

(* an operation that does not write to scale t changes no observation of t *)
Lemma step_other : forall st o t q, ss_inv st -> (t < length (scales st))%nat ->
  touches t o = false -> observe (step st o) t q = observe st t q.
Proof.
  intros st o t q [F ND] Ht Ho.
  destruct (nth_error (scales st) t) as [st_t|] eqn:Et;
    [|apply nth_error_None in Et; lia].
  assert (Wt : wf_scale (dheap st) (rheap st) st_t)
    by (rewrite Forall_forall in F; apply F; eapply nth_error_In; eassumption).
  destruct Wt as (dt & rt & Hdt & Hrt & Hct).
  assert (Ldt : (dom st_t < length (dheap st))%nat) by (apply nth_error_Some_lt with dt; assumption).
  assert (Lrt : (rng st_t < length (rheap st))%nat) by (apply nth_error_Some_lt with rt; assumption).
  unfold touches in Ho.
  destruct o as [|r|i d|i c|i b|i m|i]; simpl in Ho |- *.
  - unfold observe. simpl. rewrite nth_error_app1 by assumption. rewrite Et.
    rewrite !nth_error_app1 by assumption. reflexivity.
  - unfold observe. simpl. rewrite Et. rewrite !nth_error_app1 by assumption. reflexivity.
  - apply Nat.eqb_neq in Ho.
    destruct (nth_error (scales st) i) as [s|] eqn:Es; [|reflexivity].
    unfold observe. simpl. rewrite nth_error_upd_other by assumption. rewrite Et.
    rewrite !nth_error_app1 by assumption. reflexivity.
  - apply Nat.eqb_neq in Ho.
    destruct (nth_error (scales st) i) as [s|] eqn:Es; [|reflexivity].
    destruct (nth_error (rheap st) c) as [r|] eqn:Ec; [|reflexivity].
    unfold observe. simpl. rewrite nth_error_upd_other by assumption. rewrite Et. reflexivity.
  - apply Nat.eqb_neq in Ho.
    destruct (nth_error (scales st) i) as [s|] eqn:Es; [|reflexivity].
    unfold observe. simpl. rewrite nth_error_upd_other by assumption. rewrite Et. reflexivity.
  - apply Nat.eqb_neq in Ho.
    destruct (nth_error (scales st) i) as [s|] eqn:Es; [|reflexivity].
    destruct (nth_error (dheap st) (dom s)) as [d|] eqn:Ed; [|reflexivity].
    unfold observe. simpl. rewrite nth_error_upd_other by assumption. rewrite Et.
    (* nice() writes into the domain cell of scale i, which is not t's *)
    assert (Hdd : dom s <> dom st_t).
    { intro E. apply Ho. apply (NoDup_nth_error_inj _ (map dom (scales st)) i t (dom s) ND).
      - rewrite nth_error_map, Es. reflexivity.
      - rewrite nth_error_map, Et. simpl. congruence. }
    rewrite nth_error_upd_other by assumption. reflexivity.
  - destruct (nth_error (scales st) i) as [s|] eqn:Es; [|reflexivity].
    destruct (nth_error (dheap st) (dom s)) as [d|] eqn:Ed; [|reflexivity].
    destruct (nth_error (rheap st) (rng s)) as [r|] eqn:Er; [|reflexivity].
    unfold observe. simpl. rewrite nth_error_app1 by assumption. rewrite Et.
    rewrite !nth_error_app1 by assumption. reflexivity.
Qed.

(* by induction over operation lists: whatever is done to OTHER scales
   (including copying t, copying the copies, nice() on them, ...) no
   observation of t changes *)
Lemma run_other : forall ops st t q, ss_inv st -> (t < length (scales st))%nat ->
  forallb (fun o => negb (touches t o)) ops = true ->
  observe (run ops st) t q = observe st t q.
Proof.
  induction ops as [|o ops IH]; intros st t q I Ht Hall; [reflexivity|].
  simpl in Hall. apply andb_true_iff in Hall. destruct Hall as [Ho Hall].
  apply negb_true_iff in Ho. simpl.
  rewrite IH; try assumption.
  - apply step_other; assumption.
  - apply inv_step; assumption.
  - pose proof (step_length st o). lia.
Qed.

Theorem ss_independent : forall pre ops t q,
  let st := run pre init in
  (t < length (scales st))%nat ->
  forallb (fun o => negb (touches t o)) ops = true ->
  observe (run ops st) t q = observe st t q.
Proof. intros pre ops t q st. apply run_other. apply ss_invariant. Qed.

(* copy(): the new scale answers every query as the original does ... *)
Lemma copy_faithful_inv : forall st i q, ss_inv st -> (i < length (scales st))%nat ->
  observe (step st (OCopy i)) (length (scales st)) q = observe st i q /\
  length (scales (step st (OCopy i))) = S (length (scales st)).
Proof.
  intros st i q I Hi.
  destruct (nth_error (scales st) i) as [s|] eqn:Es; [|apply nth_error_None in Es; lia].
  destruct I as [F ND]. rewrite Forall_forall in F.
  destruct (F s (nth_error_In _ _ Es)) as (d & r & Hd & Hr & Hc).
  simpl. rewrite Es, Hd, Hr. simpl. split; [|rewrite app_length; simpl; lia].
  unfold observe. simpl. rewrite nth_error_snoc_new, Es.
  unfold rescale. simpl. rewrite !nth_error_snoc_new. simpl.
  rewrite ?nth_error_snoc_new. rewrite Hd, Hr, Hc. reflexivity.
Qed.

(* ... and from then on original and copy never influence each other:
   operations on the copy (and on anything else) leave the original's
   observations unchanged, and vice versa *)
Theorem ss_copy_independent : forall pre i ops q,
  let st := run pre init in
  let c := length (scales st) in            (* the id of the copy *)
  let st1 := step st (OCopy i) in
  (i < length (scales st))%nat ->
  (forall x, observe st1 c x = observe st i x) /\
  (forallb (fun o => negb (touches i o)) ops = true ->
     observe (run ops st1) i q = observe st i q) /\
  (forallb (fun o => negb (touches c o)) ops = true ->
     observe (run ops st1) c q = observe st i q).
Proof.
  intros pre i ops q st c st1 Hi.
  pose proof (ss_invariant pre) as I. fold st in I.
  assert (I1 : ss_inv st1) by (apply inv_step; assumption).
  assert (L1 : length (scales st1) = S c) by (apply (copy_faithful_inv st i q I Hi)).
  split; [|split].
  - intro x. apply (copy_faithful_inv st i x I Hi).
  - intro H. rewrite run_other; try assumption; [|lia].
    apply step_other; [assumption|assumption|reflexivity].
  - intro H. rewrite run_other; try assumption; [|lia].
    apply (copy_faithful_inv st i q I Hi).
Qed.

(* nothing ever writes into a range list: sharing one between scales (which
   only the caller can arrange) is harmless *)
Theorem ss_range_cells_immutable : forall ops st c r,
  nth_error (rheap st) c = Some r -> nth_error (rheap (run ops st)) c = Some r.
Proof.
  induction ops as [|o ops IH]; intros st c r H; [assumption|].
  simpl. apply IH.
  destruct o as [|r'|i d|i c'|i b|i m|i]; simpl;
    repeat match goal with |- context [match ?x with _ => _ end] => destruct x end;
    simpl; try assumption;
    (rewrite nth_error_app1; [assumption|apply nth_error_Some_lt with r; assumption]).
Qed.

(* domain lists are never shared *)
Theorem ss_domains_disjoint : forall ops i j si sj,
  let st := run ops init in
  nth_error (scales st) i = Some si -> nth_error (scales st) j = Some sj ->
  dom si = dom sj -> i = j.
Proof.
  intros ops i j si sj st Hi Hj E.
  destruct (ss_invariant ops) as [_ ND]. fold st in ND.
  apply (NoDup_nth_error_inj _ (map dom (scales st)) i j (dom si) ND).
  - rewrite nth_error_map, Hi. reflexivity.
  - rewrite nth_error_map, Hj. simpl. congruence.
Qed.
