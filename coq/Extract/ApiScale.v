(* API commands 200..299: linear scale (C12: 200-229, C13: 230-259, C14: 260-289). *)
From Coq Require Import ZArith QArith List Bool.
From Labella Require Import Extract.Codec Scale.Linear Scale.Ticks Scale.Nice Scale.ScaleState Scale.Band.
Import ListNotations.
Open Scope Z_scope.

Definition e_z (z : Z) : list Z := [z].
Definition e_cell (c : cell) : list Z := e_q (fst c) ++ e_q (snd c).
Definition d_cell : dec cell := d_pair d_q d_q.

(* 200: clamp a b r0 r1 x y  ->  scale(x) invert(y) *)
Definition api_point (a : list Z) : list Z :=
  match d_bool a with
  | Some (c, a1) =>
    match d_rep d_q 6 a1 with
    | Some ([da; db; r0; r1; x; y], _) =>
        1 :: e_q (lin_gen c da db r0 r1 x) ++ e_q (inv_gen c da db r0 r1 y)
    | _ => bad_input
    end
  | None => bad_input
  end.

(* operations: 0 New | 1 Alloc a b | 2 Domain s a b | 3 Range s c | 4 Clamp s b
               | 5 Nice s m | 6 Copy s | 7 NewWith d r | 8 RangeOfDomain s t
               | 9 RangeOfRange s t *)
Definition d_op : dec op := fun l =>
  match l with
  | 0 :: r => Some (ONew, r)
  | 1 :: r => match d_cell r with Some (c, r') => Some (OAlloc c, r') | None => None end
  | 2 :: r => match d_pair d_nat d_cell r with Some ((s, c), r') => Some (ODomain s c, r') | None => None end
  | 3 :: r => match d_pair d_nat d_nat r with Some ((s, c), r') => Some (ORange s c, r') | None => None end
  | 4 :: r => match d_pair d_nat d_bool r with Some ((s, b), r') => Some (OClamp s b, r') | None => None end
  | 5 :: r => match d_pair d_nat d_z r with Some ((s, m), r') => Some (ONice s m, r') | None => None end
  | 6 :: r => match d_nat r with Some (s, r') => Some (OCopy s, r') | None => None end
  | 7 :: r => match d_pair d_nat d_nat r with Some ((d, g), r') => Some (ONewWith d g, r') | None => None end
  | 8 :: r => match d_pair d_nat d_nat r with Some ((s, t), r') => Some (ORangeOfDomain s t, r') | None => None end
  | 9 :: r => match d_pair d_nat d_nat r with Some ((s, t), r') => Some (ORangeOfRange s t, r') | None => None end
  | _ => None
  end.

Definition e_answer (a : answer) : list Z :=
  match a with
  | ANum q => 1 :: e_q q
  | APair c => 2 :: e_cell c
  | AFlag b => 3 :: e_bool b
  | AInvalid => [0]
  end.

(* everything observable of every scale: domain, range, clamp, s(x), s.invert(y) *)
Definition observe_all (st : state) (xs ys : list Q) : list Z :=
  e_list (fun i =>
            e_answer (observe st i QDomain) ++ e_answer (observe st i QRange)
            ++ e_answer (observe st i QClamp)
            ++ flat_map (fun x => e_answer (observe st i (QCall x))) xs
            ++ flat_map (fun y => e_answer (observe st i (QInvert y))) ys)
         (seq 0 (length (scales st))).

(* tie only: was this step a nice() inside the ambiguity band (Scale/Band.v)? *)
Definition step_sensitive (st : state) (o : op) : bool :=
  match o with
  | ONice i m =>
      match nth_error (scales st) i with
      | Some s => match nth_error (heap st) (dom s) with
                  | Some d => nice_sensitive m d
                  | None => false
                  end
      | None => false
      end
  | _ => false
  end.

Fixpoint run_observe (ops : list op) (st : state) (xs ys : list Q) : list Z :=
  match ops with
  | [] => []
  | o :: rest =>
      let st' := step st o in
      e_bool (step_sensitive st o) ++ observe_all st' xs ys ++ run_observe rest st' xs ys
  end.

(* 201: xs ys ops -> after every step: band flag, observations *)
Definition api_history (a : list Z) : list Z :=
  match d_list d_q a with
  | Some (xs, a1) =>
    match d_list d_q a1 with
    | Some (ys, a2) =>
      match d_list d_op a2 with
      | Some (ops, _) => 1 :: run_observe ops init xs ys
      | None => bad_input
      end
    | None => bad_input
    end
  | None => bad_input
  end.

(* 230: a b m -> ok step err decimals ticks texts
   (err is the quantity compared with the thresholds, for the ambiguity band) *)
Definition api_ticks (a : list Z) : list Z :=
  match d_pair (d_pair d_q d_q) d_z a with
  | Some ((da, db, m), _) =>
      match ticks_opt da db m with
      | Some l =>
          let n := decimals (dom_step da db m) in
          1 :: e_q (dom_step da db m) ++ e_q (tick_err (span_of da db) m) ++ [n]
            ++ e_list e_q l ++ e_list e_z (map (fmt n) l)
      | None => [0]
      end
  | None => bad_input
  end.

(* 232 (tie only): a b m -> the admissible outcomes of the double computation
   inside the ambiguity band (Scale/Band.v): each is step decimals ticks texts *)
Definition api_ticks_alts (a : list Z) : list Z :=
  match d_pair (d_pair d_q d_q) d_z a with
  | Some ((da, db, m), _) =>
      1 :: e_list (fun sl : Q * list Q =>
                     let (st, l) := sl in
                     let n := decimals st in
                     e_q st ++ [n] ++ e_list e_q l ++ e_list e_z (map (fmt n) l))
                  (ticks_alts da db m)
  | None => bad_input
  end.

(* 231: q -> ilog10 q (0 if the search ran out of fuel) *)
Definition api_ilog (a : list Z) : list Z :=
  match d_q a with
  | Some (q, _) => match ilog10_opt q with Some e => [1; e] | None => [0] end
  | None => bad_input
  end.

(* 260: a b m -> nice domain, step of pass one, of pass two, of the result,
   the domain after pass one, and (tie only) the band alternatives *)
Definition api_nice (a : list Z) : list Z :=
  match d_pair (d_pair d_q d_q) d_z a with
  | Some ((da, db, m), _) =>
      let d := (da, db) in
      1 :: e_cell (nice m d) ++ e_q (step1 m d) ++ e_q (step2 m d) ++ e_q (step_result m d)
           ++ e_cell (nice_pass m d) ++ e_list e_cell (nice_alts m d)
  | None => bad_input
  end.

Definition api_scale (cmd : Z) (a : list Z) : list Z :=
  match cmd with
  | 200 => api_point a
  | 201 => api_history a
  | 230 => api_ticks a
  | 231 => api_ilog a
  | 232 => api_ticks_alts a
  | 260 => api_nice a
  | _ => bad_input
  end.
