(* API commands 600..699: the process-level plumbing model (C10).
   Instantiation used by the tie: data and options are opaque ids, a scale
   state is the list of (data, options) constructions applied to it (caller
   object c starts as [(-1, c)]), a document is the triple it depends on. *)
From Coq Require Import ZArith List Bool.
From Labella Require Import Extract.Codec Render.Process.
Import ListNotations.
Open Scope Z_scope.

Definition tr := list (Z * Z).
Definition ia (d o : Z) (s : tr) : tr := s ++ [(d, o)].
Definition rd (d o : Z) (s : tr) : Z * Z * tr := (d, o, s).

Definition d_op : dec (op Z Z) := fun l =>
  match l with
  | 0 :: id :: d :: o :: sc :: r =>
      Some (Construct (Z.to_nat id) d o (if sc <? 0 then Default else Caller (Z.to_nat sc)), r)
  | 1 :: id :: r => Some (Export (Z.to_nat id), r)
  | _ => None
  end.

Definition caller_cells (k : nat) : list tr := map (fun c => [(-1, Z.of_nat c)]) (seq 0 k).

Definition e_doc (x : option (Z * Z * tr)) : list Z :=
  match x with
  | None => [0]
  | Some (d, o, s) => 1 :: d :: o :: e_list (fun p => [fst p; snd p]) s
  end.

(* 600: new plumbing; 601: the specification; 602: the OLD (module-level default scale) plumbing *)
Definition api_proc (cmd : Z) (a : list Z) : list Z :=
  match d_pair d_nat (d_list d_op) a with
  | Some ((k, h), _) =>
      if negb (wf_hist Z Z k h) then [-1] else
      let cc := caller_cells k in
      match cmd with
      | 600 => flat_map e_doc (run Z Z tr _ ia rd [] (init_state Z Z tr cc) h)
      | 601 => flat_map e_doc (spec_run Z Z tr _ ia rd [] cc [] h)
      | 602 => flat_map e_doc (run_old Z Z tr _ ia rd [] (init_state Z Z tr (cc ++ [[]])) h)
      | _ => bad_input
      end
  | None => bad_input
  end.
