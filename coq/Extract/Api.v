(* The single entry point of the extracted model:  api cmd args.
   Command ranges (mirrored in harness/props/*.py):
     1..9 text utils (C20)   10..99 TeX (C19)   100..199 time (C14-C18)
     200..299 linear scale (C12-C14)   300..339 layer placement (C01-C03)
     340..379 distributor (C04)   380..399 engine histories (C06)
     400..499 VPSC solver (C05)   500..599 rendering (C07-C09)
     600..699 process-level plumbing (C10)   700..799 axis pipeline / totality (C11, C07_affine); 720..729 option dictionaries (C11)
     800..849 timeline items -> engine -> scene labels (C08 end-to-end)
     850..899 raw timeline input -> both documents (C07/C09 end-to-end) *)
From Coq Require Import ZArith List.
From Labella Require Import Extract.Codec Extract.ApiText Extract.ApiTex Extract.ApiTime
  Extract.ApiScale Extract.ApiLayout Extract.ApiDist Extract.ApiForce Extract.ApiVpsc
  Extract.ApiRender Extract.ApiProc Extract.ApiAxis Extract.ApiOptions Extract.ApiCompose Extract.ApiPipeline.
Open Scope Z_scope.

Definition api (cmd : Z) (a : list Z) : list Z :=
  if cmd <? 10 then api_text cmd a
  else if cmd <? 100 then api_tex cmd a
  else if cmd <? 200 then api_time cmd a
  else if cmd <? 300 then api_scale cmd a
  else if cmd <? 340 then api_layout cmd a
  else if cmd <? 380 then api_dist cmd a
  else if cmd <? 400 then api_force cmd a
  else if cmd <? 500 then api_vpsc cmd a
  else if cmd <? 600 then api_render cmd a
  else if cmd <? 700 then api_proc cmd a
  else if cmd <? 720 then api_axis cmd a
  else if cmd <? 730 then api_options cmd a
  else if cmd <? 800 then api_axis cmd a
  else if cmd <? 850 then api_compose cmd a
  else api_pipeline cmd a.
