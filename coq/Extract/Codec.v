(* Flat integer codec for the correspondence driver: every model entry point
   is exposed as  list Z -> list Z.  Decoders return None on malformed input
   (the driver prints that as an error, it never happens for generated cases). *)
From Coq Require Import ZArith QArith List Bool.
Import ListNotations.
Open Scope Z_scope.

Definition dec (A : Type) := list Z -> option (A * list Z).

Definition d_z : dec Z := fun l => match l with x :: r => Some (x, r) | [] => None end.
Definition d_n : dec N := fun l => match l with x :: r => Some (Z.to_N x, r) | [] => None end.
Definition d_nat : dec nat := fun l => match l with x :: r => Some (Z.to_nat x, r) | [] => None end.
Definition d_bool : dec bool := fun l => match l with x :: r => Some (negb (x =? 0), r) | [] => None end.
(* a rational is numerator, denominator (denominator > 0) *)
Definition d_q : dec Q := fun l =>
  match l with
  | n :: d :: r => match d with Zpos p => Some (Qmake n p, r) | _ => None end
  | _ => None
  end.

Fixpoint d_rep {A} (d : dec A) (k : nat) (l : list Z) : option (list A * list Z) :=
  match k with
  | O => Some ([], l)
  | S k' => match d l with
            | Some (x, r) => match d_rep d k' r with
                             | Some (xs, r') => Some (x :: xs, r')
                             | None => None
                             end
            | None => None
            end
  end.

(* a list is its length followed by the elements *)
Definition d_list {A} (d : dec A) : dec (list A) := fun l =>
  match l with
  | k :: r => d_rep d (Z.to_nat k) r
  | [] => None
  end.

Definition d_opt {A} (d : dec A) : dec (option A) := fun l =>
  match l with
  | 0 :: r => Some (None, r)
  | _ :: r => match d r with Some (x, r') => Some (Some x, r') | None => None end
  | [] => None
  end.

Definition d_pair {A B} (da : dec A) (db : dec B) : dec (A * B) := fun l =>
  match da l with
  | Some (a, r) => match db r with Some (b, r') => Some ((a, b), r') | None => None end
  | None => None
  end.

(* encoders *)
Definition e_n (n : N) : list Z := [Z.of_N n].
Definition e_bool (b : bool) : list Z := [if b then 1 else 0].
Definition e_q (q : Q) : list Z := let q' := Qred q in [Qnum q'; Zpos (Qden q')].
Definition e_list {A} (e : A -> list Z) (l : list A) : list Z :=
  Z.of_nat (length l) :: flat_map e l.
Definition e_opt {A} (e : A -> list Z) (o : option A) : list Z :=
  match o with Some x => 1 :: e x | None => [0] end.

Definition bad_input : list Z := [-999].
