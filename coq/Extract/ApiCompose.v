(* API commands 800..849: the composed pipeline  timeline items -> engine ->
   scene labels  (Render/Compose.v), for the end-to-end tie of C08.
   800  dir padL padR padT padB layerGap  update  items  ->  result
     dir     0 up, 1 down, 2 left, 3 right
     update  the timeline's options["labella"] as a Force.set_options update on the
             engine defaults (encoding of command 380: alg? minPos?? maxPos?? density?
             nodeSpacing? stubWidth? lineSpacing?)
     items   n, then n times  pos(num den) width(num den) text(0 | 1 len code points..)
     result  status (1, or 2 = outside the documented domain),
             nodeHeight (num den),
             n, then per scene label in the engine's list order:
               id  layer  currentPos  w(num den)  h(num den)  chain(len z..)
               box origin truncated (x y as integers), untruncated (x y as num den)
             L, then per reported layer: len, then len times  id is_stub pos(num den)
             L, then per layer: len, then len exact (unrounded) positions, solver order *)
From Coq Require Import ZArith NArith QArith List Bool.
From Labella Require Layout.Distribute.
From Labella Require Import Extract.Codec Layout.ForceState Layout.Force Extract.ApiForce.
From Labella Require Import Render.Geometry Render.Scene Render.Compose Extract.ApiRender.
Import ListNotations.
Open Scope Z_scope.

Definition d_tl_item : dec tl_item :=
  pos <- d_q ;; width <- d_q ;; text <- d_opt d_text ;;
  dret (mkTlItem pos width text []).

Definition e_natz (n : nat) : list Z := [Z.of_nat n].

Definition e_scene_label (d : direction) (G H : Q) (nd : nodeobj) (l : label) : list Z :=
  let o := label_origin d G H l in
  e_natz (n_id nd) ++ [l_layer l; l_cur l] ++ e_q (l_w l) ++ e_q (l_h l) ++
  e_list e_z (l_chain l) ++
  [trunc (fst o); trunc (snd o)] ++ e_q (fst o) ++ e_q (snd o).

Definition api_engine_scene (a : list Z) : list Z :=
  match (d <- d_dir ;; pl <- d_q ;; pr <- d_q ;; pt <- d_q ;; pb <- d_q ;; G <- d_q ;;
         u <- d_update ;; its <- d_list d_tl_item ;;
         dret (d, mkPad pl pr pt pb, G, apply_update default_eopts u, its)) a with
  | Some ((d, p, G, e, its), _) =>
      let labels := engine_labels d p its in
      let before := mkState (map scrub_node (label_nodes labels)) e None in
      let st := engine_result d p e its in
      let ls := scene_labels d p e its in
      let H := node_height d ls in
      (if Distribute.dist_dom_b (dopts_of_eopts e) labels then 1 else 2) ::
      e_q H ++
      e_list (fun x : nodeobj * label => e_scene_label d G H (fst x) (snd x)) (combine (st_nodes st) ls) ++
      e_list (e_list (fun x : report_item => e_natz (fst (fst x)) ++ e_bool (snd (fst x)) ++ e_q (snd x)))
             (reported st) ++
      e_list (e_list e_q) (compute_exact before)
  | None => bad_input
  end.

Definition api_compose (cmd : Z) (a : list Z) : list Z :=
  match cmd with
  | 800 => api_engine_scene a
  | _ => bad_input
  end.
