(* The only file with extraction directives.  ExtrOcamlZBigInt maps
   positive/N/Z to zarith's Big_int_Z (its Extract Inductive / Extract
   Constant directives are the standard library's own; none is hand-written
   here).  Q stays the extracted record over Z; nat, list, option, bool, pairs
   via ExtrOcamlBasic. *)
From Coq Require Import Extraction ExtrOcamlBasic ExtrOcamlZBigInt.
From Labella Require Import Extract.Api.
Extraction Language OCaml.
(* coqc runs in /verif/coq (make); the directory is created by the build script *)
Extraction "../_build/extract/model.ml" api.
