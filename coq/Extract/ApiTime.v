(* API commands 100..199: time package (C14-C18).
   Instants travel as integer microseconds since 1970-01-01T00:00:00 (naive).
   A `res dt` is encoded  Ok t -> [1; to_us t] | Raise -> [0] | NoFuel -> [-1];
   a `res (list dt)`  Ok l -> 1 :: len :: to_us…  | Raise -> [0] | NoFuel -> [-1].
   Units: 0 second, 1 minute, 2 hour, 3 day, 4 week, 5 month, 6 year.

   100 floor  [u; t]          101 ceil [u; t]        102 round [u; t]
   103 offset [u; t; k]       104 range [u; t0; t1; step]
   105 number [u; t] -> [n]
   106 fields [t] -> [y; mo; d; h; mi; s; us; isoweekday; day_of_year]
   107 to_us  [y; mo; d; h; mi; s; us] -> [valid; us]
   110 batch  [u; op; n; t…]  op 0 floor, 1 ceil, 2 round -> concatenated results
   111 batch offset [u; k; n; t…]
   time scale (domain instants a b, range ends r0 r1 as rationals num den):
   140 scale  [a; b; r0; r1; n; t…]  -> 1 :: n :: positions (num den)…
   141 invert [a; b; r0; r1; n; y…]  -> 1 :: n :: exact epoch microseconds (num den)…
   142 invert, rounded to a datetime [a; b; r0; r1; n; y…] -> concatenated `res dt`
   150 ticks  [d0; d1; m] -> `res (list dt)`
   151 tickMethod [d0; d1; m] (d0 <= d1) -> [1; kind; unit; skip num; skip den] (kind 0 ms, 1 unit) | [0] | [-1]
   152 nice   [d0; d1; m] -> [1; d0'; d1'] | [0] | [-1] *)
From Coq Require Import ZArith QArith List Bool.
From Labella Require Import Extract.Codec Time.Calendar Time.Interval Time.TimeScale Time.TimeTicks Time.TimeNice.
Import ListNotations.
Open Scope Z_scope.

Definition d_unit : dec unit_id := fun l =>
  match l with
  | 0 :: r => Some (USecond, r) | 1 :: r => Some (UMinute, r) | 2 :: r => Some (UHour, r)
  | 3 :: r => Some (UDay, r) | 4 :: r => Some (UWeek, r) | 5 :: r => Some (UMonth, r)
  | 6 :: r => Some (UYear, r) | _ => None
  end.

(* an instant: must be inside datetime.min .. datetime.max *)
Definition d_dt : dec dt := fun l =>
  match l with
  | z :: r => if in_range z then Some (of_us z, r) else None
  | [] => None
  end.

Definition e_res_dt (r : res dt) : list Z :=
  match r with Ok t => [1; to_us t] | Raise => [0] | NoFuel => [-1] end.
Definition e_res_list (r : res (list dt)) : list Z :=
  match r with
  | Ok l => 1 :: e_list (fun t => [to_us t]) l
  | Raise => [0]
  | NoFuel => [-1]
  end.

Definition api_unop (f : interval -> dt -> res dt) (a : list Z) : list Z :=
  match d_pair d_unit d_dt a with
  | Some ((u, t), _) => e_res_dt (f (interval_of u) t)
  | None => bad_input
  end.

Definition api_offset (a : list Z) : list Z :=
  match d_pair d_unit (d_pair d_dt d_z) a with
  | Some ((u, (t, k)), _) => e_res_dt (iv_offset (interval_of u) t k)
  | None => bad_input
  end.

Definition api_range (a : list Z) : list Z :=
  match d_pair d_unit (d_pair d_dt (d_pair d_dt d_z)) a with
  | Some ((u, (t0, (t1, st))), _) => e_res_list (iv_range (interval_of u) t0 t1 st)
  | None => bad_input
  end.

Definition api_number (a : list Z) : list Z :=
  match d_pair d_unit d_dt a with
  | Some ((u, t), _) => [iv_number (interval_of u) t]
  | None => bad_input
  end.

Definition api_fields (a : list Z) : list Z :=
  match d_dt a with
  | Some (t, _) => [dt_y t; dt_mo t; dt_d t; dt_h t; dt_mi t; dt_s t; dt_us t;
                    isoweekday t; day_of_year t]
  | None => bad_input
  end.

Definition api_to_us (a : list Z) : list Z :=
  match a with
  | [y; mo; d; h; mi; s; us] =>
      let t := mkdt y mo d h mi s us in
      [if validb t then 1 else 0; to_us t]
  | _ => bad_input
  end.

Definition op_of (op : Z) : option (interval -> dt -> res dt) :=
  match op with 0 => Some iv_floor | 1 => Some iv_ceil | 2 => Some iv_round | _ => None end.

Definition api_batch (a : list Z) : list Z :=
  match d_pair d_unit (d_pair d_z (d_list d_dt)) a with
  | Some ((u, (op, ts)), _) =>
      match op_of op with
      | Some f => flat_map (fun t => e_res_dt (f (interval_of u) t)) ts
      | None => bad_input
      end
  | None => bad_input
  end.

Definition api_batch_offset (a : list Z) : list Z :=
  match d_pair d_unit (d_pair d_z (d_list d_dt)) a with
  | Some ((u, (k, ts)), _) => flat_map (fun t => e_res_dt (iv_offset (interval_of u) t k)) ts
  | None => bad_input
  end.

Definition d_tscale : dec tscale := fun l =>
  match d_pair d_dt (d_pair d_dt (d_pair d_q d_q)) l with
  | Some ((a, (b, (r0, r1))), r) => Some (mk_tscale a b r0 r1, r)
  | None => None
  end.

Definition api_ts_scale (a : list Z) : list Z :=
  match d_pair d_tscale (d_list d_dt) a with
  | Some ((s, ts), _) => 1 :: e_list (fun t => e_q (ts_apply s t)) ts
  | None => bad_input
  end.

Definition api_ts_invert (a : list Z) : list Z :=
  match d_pair d_tscale (d_list d_q) a with
  | Some ((s, ys), _) => 1 :: e_list (fun y => e_q (ts_invert_ms s y * 1000)) ys
  | None => bad_input
  end.

Definition api_ts_invert_dt (a : list Z) : list Z :=
  match d_pair d_tscale (d_list d_q) a with
  | Some ((s, ys), _) => flat_map (fun y => e_res_dt (ts_invert s y)) ys
  | None => bad_input
  end.

Definition api_ticks (a : list Z) : list Z :=
  match d_pair d_dt (d_pair d_dt d_z) a with
  | Some ((d0, (d1, m)), _) => e_res_list (ts_ticks d0 d1 m)
  | None => bad_input
  end.

Definition unit_code (u : unit_id) : Z :=
  match u with USecond => 0 | UMinute => 1 | UHour => 2 | UDay => 3 | UWeek => 4 | UMonth => 5 | UYear => 6 end.

Definition api_tick_method (a : list Z) : list Z :=
  match d_pair d_dt (d_pair d_dt d_z) a with
  | Some ((d0, (d1, m)), _) =>
      match tick_method_of (to_ms d0) (to_ms d1) m with
      | Ok (TMillis st) => [1; 0; -1] ++ e_q st
      | Ok (TUnit u sk) => [1; 1; unit_code u] ++ e_q sk
      | Raise => [0]
      | NoFuel => [-1]
      end
  | None => bad_input
  end.

Definition api_nice (a : list Z) : list Z :=
  match d_pair d_dt (d_pair d_dt d_z) a with
  | Some ((d0, (d1, m)), _) =>
      match ts_nice d0 d1 m with
      | Ok (n0, n1) => [1; to_us n0; to_us n1]
      | Raise => [0]
      | NoFuel => [-1]
      end
  | None => bad_input
  end.

Definition api_time (cmd : Z) (a : list Z) : list Z :=
  match cmd with
  | 100 => api_unop iv_floor a
  | 101 => api_unop iv_ceil a
  | 102 => api_unop iv_round a
  | 103 => api_offset a
  | 104 => api_range a
  | 105 => api_number a
  | 106 => api_fields a
  | 107 => api_to_us a
  | 110 => api_batch a
  | 111 => api_batch_offset a
  | 140 => api_ts_scale a
  | 141 => api_ts_invert a
  | 142 => api_ts_invert_dt a
  | 150 => api_ticks a
  | 151 => api_tick_method a
  | 152 => api_nice a
  | _ => bad_input
  end.
