(* API commands 400..499: the VPSC solver model (C05). *)
From Coq Require Import ZArith QArith Qround List Bool.
From Labella Require Import Extract.Codec Vpsc.Vpsc Vpsc.Kkt.
Import ListNotations.
Open Scope Z_scope.

Definition d_var : dec var := fun l =>
  match d_q l with
  | Some (d, r1) => match d_q r1 with
    | Some (w, r2) => match d_q r2 with
      | Some (s, r3) => Some (mkVar d w s, r3) | None => None end
    | None => None end
  | None => None
  end.
Definition d_con : dec con := fun l =>
  match d_nat l with
  | Some (a, r1) => match d_nat r1 with
    | Some (b, r2) => match d_q r2 with
      | Some (g, r3) => Some (mkCon a b g, r3) | None => None end
    | None => None end
  | None => None
  end.
Definition d_inst : dec (list var * list con) := d_pair (d_list d_var) (d_list d_con).

Definition e_nat (n : nat) : list Z := [Z.of_nat n].
(* rationals are written unreduced (the reader normalises): Codec.e_q's Qred
   is a binary gcd that is slow on the long cost denominators *)
Definition e_qu (q : Q) : list Z := [Qnum q; Zpos (Qden q)].

(* 400: solve.  in: vars (des w scale)*, cons (l r gap)*
   out: 1 positions cost flags nsat |list| |store| active g_pos g_lm g_mag g_tie g_tlm
          feas_ok cost_ok part_ok kkt_ok floor(gap*10^12) inactive   (inactive = the final self.inactive list; the proved checkers of Vpsc/Kkt.v on the exit state)
      | 0 k   (out of fuel: 1 traversal, 2 satisfy loop, 3 solve loop) *)
Definition api_solve (a : list Z) : list Z :=
  match d_inst a with
  | Some ((vs, cs), _) =>
      match solve vs cs with
      | Ok (st, cost, nsat) =>
          let g := s_mg st in
          1 :: e_list e_qu (positions vs st) ++ e_qu cost ++ e_list e_bool (flags st)
            ++ e_nat nsat ++ e_nat (length (s_list st)) ++ e_nat (length (s_b st))
            ++ e_list e_bool (map k_act (s_c st))
            ++ e_qu (g_pos g) ++ e_qu (g_lm g) ++ e_qu (g_mag g) ++ e_nat (g_tie g) ++ e_nat (g_tlm g)
            ++ e_bool (state_feas_ok vs cs st) ++ e_bool (state_cost_ok vs st cost)
            ++ e_bool (part_ok vs st) ++ e_bool (kkt_ok vs cs st) ++ [Qfloor (state_gap vs cs st * (1000000000000 # 1))]
            ++ e_list e_nat (s_inact st)
      | Fuel k => [0; Z.of_nat k]
      end
  | None => bad_input
  end.

Definition api_vpsc (cmd : Z) (a : list Z) : list Z :=
  match cmd with
  | 400 => api_solve a
  | _ => bad_input
  end.
