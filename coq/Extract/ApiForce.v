(* API commands for the Force package (stub until the package lands). *)
From Coq Require Import ZArith List.
From Labella Require Import Extract.Codec.
Import ListNotations.
Open Scope Z_scope.

Definition api_force (cmd : Z) (a : list Z) : list Z := bad_input.
