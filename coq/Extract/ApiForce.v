(* API commands 380..399: engine histories (C06).
   380  heap ops -> after every compute: the engine's nodes and reported layers
     heap : n, then n times `id pos width`          (fresh Node objects, rationals `num den`)
     ops  : m, then m operations
              0 k id_1 .. id_k                      force.nodes([those objects])
              1 alg? minPos?? maxPos?? density? nodeSpacing? stubWidth? lineSpacing?
                                                    force.set_options({...}); every `?` is `0` (key absent)
                                                    or `1 value`; a minPos/maxPos value is itself `0` (None) or `1 num den`
              2                                     force.compute()
     result: c, then per compute
              status (1, or 2 = labels/options outside the documented domain),
              n, then n times `id layer num den`    (engine's node order; currentPos)
              L, then per reported layer `len` and len times `id is_stub num den`
              L, then per layer `len` and len exact (unrounded) positions `num den`, solver order *)
From Coq Require Import ZArith QArith List Bool.
From Labella Require Import Extract.Codec Layout.Distribute Layout.ForceState Layout.Force Extract.ApiDist.
Import ListNotations.
Open Scope Z_scope.

Definition d_node : dec nodeobj := fun l =>
  match d_nat l with
  | Some (id, r) =>
    match d_pair d_q d_q r with
    | Some ((p, w), r') => Some (fresh_node id p w, r')
    | None => None
    end
  | None => None
  end.

Definition d_update : dec eupdate := fun l =>
  match d_opt d_alg l with
  | Some (a, r1) =>
    match d_opt (d_opt d_q) r1 with
    | Some (mn, r2) =>
      match d_opt (d_opt d_q) r2 with
      | Some (mx, r3) =>
        match d_opt d_q r3 with
        | Some (dn, r4) =>
          match d_opt d_q r4 with
          | Some (sp, r5) =>
            match d_opt d_q r5 with
            | Some (sw, r6) =>
              match d_opt d_q r6 with
              | Some (ls, r7) => Some (mkEupdate a mn mx dn sp sw ls, r7)
              | None => None
              end
            | None => None
            end
          | None => None
          end
        | None => None
        end
      | None => None
      end
    | None => None
    end
  | None => None
  end.

Definition d_wop : dec wop := fun l =>
  match l with
  | 0 :: r => match d_list d_nat r with Some (ids, r') => Some (WNodes ids, r') | None => None end
  | 1 :: r => match d_update r with Some (u, r') => Some (WOptions u, r') | None => None end
  | 2 :: r => Some (WCompute, r)
  | _ => None
  end.

Definition e_nat (n : nat) : list Z := [Z.of_nat n].

Definition e_compute (before : fstate) (after : fstate) : list Z :=
  let dom := dist_dom_b (dopts_of_eopts (st_opts before)) (map label_of (st_nodes before)) in
  (if dom then 1 else 2) ::
  e_list (fun nd => e_nat (n_id nd) ++ e_nat (n_layer nd) ++ e_q (n_cur nd)) (st_nodes after) ++
  e_list (e_list (fun x : report_item => e_nat (fst (fst x)) ++ e_bool (snd (fst x)) ++ e_q (snd x)))
         (match st_layers after with Some ls => ls | None => [] end) ++
  e_list (e_list e_q) (compute_exact before).

(* the worlds right before and right after every compute *)
Fixpoint world_pairs (w : world) (ops : list wop) : list (world * world) :=
  match ops with
  | [] => []
  | o :: r =>
      let w' := world_step w o in
      match o with
      | WCompute => (w, w') :: world_pairs w' r
      | _ => world_pairs w' r
      end
  end.

Definition api_history (a : list Z) : list Z :=
  match d_list d_node a with
  | Some (heap, r) =>
    match d_list d_wop r with
    | Some (ops, _) =>
        e_list (fun p => e_compute (w_engine (fst p)) (w_engine (snd p)))
               (world_pairs (mkWorld heap init_state) ops)
    | None => bad_input
    end
  | None => bad_input
  end.

Definition api_force (cmd : Z) (a : list Z) : list Z :=
  match cmd with
  | 380 => api_history a
  | _ => bad_input
  end.
