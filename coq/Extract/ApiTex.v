(* API commands 10..99: TeX text conversion (C19), model Text/Tex.v.
   The decomposition table of the model is a Section variable; every call
   carries the table entries it needs as an association list
     table := len (c  nfields f1..fn  tagged)*
   (absent code point = empty unicodedata.decomposition), and the API
   instantiates the variable with `lookup` in that list. *)
From Coq Require Import ZArith NArith List Bool.
From Labella Require Import Extract.Codec Text.Tex Text.Utils.
Import ListNotations.
Open Scope Z_scope.

Definition d_text : dec (list N) := d_list d_n.
Definition d_table : dec (list (N * (list N * bool))) :=
  d_list (d_pair d_n (d_pair d_text d_bool)).
Definition e_text (l : list N) : list Z := e_list e_n l.

(* 10: table s -> uni2tex s *)
Definition api_uni2tex (a : list Z) : list Z :=
  match d_pair d_table d_text a with
  | Some ((tbl, s), _) => e_text (uni2tex (lookup tbl) s)
  | None => bad_input
  end.

(* 11: table [s1..sn] -> [uni2tex s1 .. uni2tex sn] *)
Definition api_uni2tex_many (a : list Z) : list Z :=
  match d_pair d_table (d_list d_text) a with
  | Some ((tbl, ss), _) => e_list e_text (map (uni2tex (lookup tbl)) ss)
  | None => bad_input
  end.

(* 12: table ctx lo n -> uni2tex of the n strings made from the code points
   lo .. lo+n-1 in context ctx: 0 alone, 1 leading (c x), 2 trailing (x c) *)
Definition in_context (ctx : N) (c : N) : list N :=
  match ctx with
  | 0%N => [c]
  | 1%N => [c; 120%N]
  | _ => [120%N; c]
  end.
Definition api_uni2tex_block (a : list Z) : list Z :=
  match d_pair d_table (d_pair d_n (d_pair d_n d_nat)) a with
  | Some ((tbl, (ctx, (lo, n))), _) =>
      e_list e_text
        (map (fun k => uni2tex (lookup tbl) (in_context ctx (lo + N.of_nat k)%N)) (seq 0 n))
  | None => bad_input
  end.

(* 13: s -> tex2uni s  (the string-level reader; no table) *)
Definition api_tex2uni (a : list Z) : list Z :=
  match d_text a with
  | Some (s, _) => e_text (tex2uni s)
  | None => bad_input
  end.

(* 14: table s -> expand s ; tokens of uni2tex_tok s as (0 c | 1 cmd base) ;
   tex2uni (uni2tex s) *)
Definition e_tok (t : tok) : list Z :=
  match t with
  | Plain c => [0; Z.of_N c]
  | Accent cmd b => [1; Z.of_N cmd; Z.of_N b]
  end.
Definition api_expand (a : list Z) : list Z :=
  match d_pair d_table d_text a with
  | Some ((tbl, s), _) =>
      e_text (expand (lookup tbl) s) ++ e_list e_tok (uni2tex_tok (lookup tbl) s)
      ++ e_text (tex2uni (uni2tex (lookup tbl) s))
  | None => bad_input
  end.

(* 15: table [opt text] -> the \def\text<ID>{..} lines (timeline.py:645-653) *)
Definition api_header (a : list Z) : list Z :=
  match d_pair d_table (d_list (d_opt d_text)) a with
  | Some ((tbl, ts), _) => e_list e_text (header_text (lookup tbl) int2name ts)
  | None => bad_input
  end.

(* 16: table -> table_ok (lookup table)   (sent with the entries of 0..127) *)
Definition api_table_ok (a : list Z) : list Z :=
  match d_table a with
  | Some (tbl, _) => e_bool (table_ok (lookup tbl))
  | None => bad_input
  end.

(* 17: table d -> depth_ok_b table d   (sent with the complete table) *)
Definition api_depth_ok (a : list Z) : list Z :=
  match d_pair d_table d_nat a with
  | Some ((tbl, d), _) => e_bool (depth_ok_b tbl d)
  | None => bad_input
  end.

(* 18: table fontsize preamble text -> get_latex_fontdoc (tex.py:62-77) *)
Definition api_fontdoc (a : list Z) : list Z :=
  match d_pair d_table (d_pair d_text (d_pair d_text d_text)) a with
  | Some ((tbl, (fs, (pre, txt))), _) => e_text (fontdoc (lookup tbl) fs pre txt)
  | None => bad_input
  end.

Definition api_tex (cmd : Z) (a : list Z) : list Z :=
  match cmd with
  | 10 => api_uni2tex a
  | 11 => api_uni2tex_many a
  | 12 => api_uni2tex_block a
  | 13 => api_tex2uni a
  | 14 => api_expand a
  | 15 => api_header a
  | 16 => api_table_ok a
  | 17 => api_depth_ok a
  | 18 => api_fontdoc a
  | _ => bad_input
  end.
