(* API commands 700..799: the axis pipeline of labella/timeline.py (C11, C07_affine).
   700 axis:
     kind (0 LinearScale, 1 TimeScale)   today: y m d
     dir (0 up, 1 down, 2 left, 3 right)  iw ih ml mr mt mb (rationals num den)  showTicks (bool)
     explicit domain: 0 | 1 tval tval     data: list of tval
     tval := 0 num den (number) | 1 y m d (date) | 2 us (datetime, microseconds since
             1970-01-01) | 3 h mi s us (time)
   -> 1 d0 d1 len dots ticks texts   (d0 d1 := 0 num den | 1 us; len rational; lists of
        rationals; texts: list of lists of code points, one per tick)
    | 0 kind                   (0 empty data, 1 wrong type, 2 datetime out of range)
    | -1                       (out of fuel) *)
From Coq Require Import ZArith NArith QArith List Bool.
From Labella Require Import Extract.Codec Extract.ApiRender Time.Calendar Render.Geometry
  Render.Scene Render.Axis.
Import ListNotations.
Open Scope Z_scope.

Definition d_tval : dec tval :=
  z <- d_z ;;
  match z with
  | 0 => x <- d_q ;; dret (TNum x)
  | 1 => y <- d_z ;; m <- d_z ;; d <- d_z ;; dret (TDate y m d)
  | 2 => us <- d_z ;; dret (TDateTime (of_us us))
  | 3 => h <- d_z ;; mi <- d_z ;; s <- d_z ;; us <- d_z ;; dret (TClock h mi s us)
  | _ => fun _ => None
  end.

Definition d_axis_in : dec axis_in :=
  k <- d_z ;; ty <- d_z ;; tm <- d_z ;; td <- d_z ;;
  dir <- d_dir ;; iw <- d_q ;; ih <- d_q ;;
  ml <- d_q ;; mr <- d_q ;; mt <- d_q ;; mb <- d_q ;; tk <- d_bool ;;
  dom <- d_opt (d_pair d_tval d_tval) ;;
  data <- d_list d_tval ;;
  dret (mk_axis_in (if k =? 0 then SLinear else STime) data dom
         (mkOpts dir iw ih ml mr mt mb 0 (mkPad 0 0 0 0) 0 tk false false
                 (CConst []) (CConst []) (CConst []) (CConst []) (CConst []))
         (ty, tm, td)).

Definition e_pval (p : pval) : list Z :=
  match p with PNum x => 0 :: e_q x | PInst t => [1; to_us t] end.

Definition ekind_code (k : ekind) : Z :=
  match k with EEmptyData => 0 | EType => 1 | EDateRange => 2 end.

Definition api_axis_run (a : list Z) : list Z :=
  match d_axis_in a with
  | Some (i, _) =>
      match axis i with
      | AOk o => 1 :: e_pval (ax_d0 o) ++ e_pval (ax_d1 o) ++ e_q (ax_len o)
                   ++ e_list e_q (ax_dots o) ++ e_list e_q (ax_ticks o)
                   ++ e_list (e_list e_n) (ax_tick_text o)
      | ARaise k => [0; ekind_code k]
      | AFuel => [-1]
      end
  | None => bad_input
  end.

Definition api_axis (cmd : Z) (a : list Z) : list Z :=
  match cmd with
  | 700 => api_axis_run a
  | _ => bad_input
  end.
