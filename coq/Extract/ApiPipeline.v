(* API commands 850..899: the whole export pipeline (Render/Pipeline.v).
   850  raw input -> both documents
     kind (0 LinearScale, 1 TimeScale)   today: y m d
     options      as commands 500/501 (ApiRender.d_opts: dir, sizes, margins, layerGap,
                  padding, dotRadius, showTicks showBorder tickCross, five colour options)
     engine       options["labella"] as a Force.set_options update (encoding of command 380)
     domain       0 | 1 tval tval        (tval as command 700)
     data         n, then n times  tval  width(num den)  text(0 | 1 len cps..)  fcols(list of 5 codes)
   -> 1  svg_doc  tikz_doc  (encodings of 500 / 501 without their leading 1)
         dom (1, or 2 = labels/engine options outside the documented domain)
         d0 d1 (0 num den | 1 us)   dots (list of rationals)
         L, then per layer: len, then len exact (unrounded) solver positions
    | 0 kind   (0 empty data, 1 wrong type, 2 datetime out of range)
    | -1       (out of fuel)
   851  the same with the axis stage GIVEN (diagnostic, used only to classify a
        disagreement of 850 as double-versus-exact arithmetic in the axis stage):
     options  engine  ticks: list of (pos, text)
     items: n, then n times  ideal(num den) width(num den) text fcols
   -> 1 svg_doc tikz_doc dom exact-positions *)
From Coq Require Import ZArith NArith QArith List Bool.
From Labella Require Layout.Distribute.
From Labella Require Import Extract.Codec Layout.ForceState Layout.Force Extract.ApiForce.
From Labella Require Import Render.Geometry Render.Scene Render.Axis Render.Compose Render.Pipeline.
From Labella Require Import Extract.ApiRender Extract.ApiAxis.
Import ListNotations.
Open Scope Z_scope.

Definition d_raw_datum : dec raw_datum :=
  t <- d_tval ;; w <- d_q ;; text <- d_opt d_text ;; fc <- d_list d_text ;;
  dret (mkRawDatum t w text fc).

Definition d_raw_in : dec raw_in :=
  k <- d_z ;; ty <- d_z ;; tm <- d_z ;; td <- d_z ;;
  o <- d_opts ;; u <- d_update ;;
  dom <- d_opt (d_pair d_tval d_tval) ;;
  data <- d_list d_raw_datum ;;
  dret (mkRawIn (if k =? 0 then SLinear else STime) data dom o
          (apply_update default_eopts u) (ty, tm, td)).

(* the engine's exact positions, and whether labels and options are in the documented domain *)
Definition e_engine_diag (d : direction) (p : padding) (e : eopts) (its : list tl_item) : list Z :=
  let labels := engine_labels d p its in
  let before := mkState (map scrub_node (label_nodes labels)) e None in
  (if Distribute.dist_dom_b (dopts_of_eopts e) labels then 1 else 2) ::
  e_list (e_list e_q) (compute_exact before).

Definition api_pipeline_run (a : list Z) : list Z :=
  match d_raw_in a with
  | Some (r, []) =>
      match axis (ri_axis r) with
      | AOk ax =>
          let s := scene_of r ax in
          let o := ri_opts r in
          1 :: e_svg (svg_doc_of s) ++ e_tikz (tikz_doc_of s)
            ++ (match e_engine_diag (o_dir o) (o_pad o) (ri_engine r) (items_of (ax_dots ax) (ri_data r)) with
                | dom :: rest => dom :: e_pval (ax_d0 ax) ++ e_pval (ax_d1 ax) ++ e_list e_q (ax_dots ax) ++ rest
                | [] => []
                end)
      | ARaise k => [0; ekind_code k]
      | AFuel => [-1]
      end
  | _ => bad_input
  end.

Definition d_given_item : dec tl_item :=
  pos <- d_q ;; w <- d_q ;; text <- d_opt d_text ;; fc <- d_list d_text ;;
  dret (mkTlItem pos w text fc).

Definition api_pipeline_given (a : list Z) : list Z :=
  match (o <- d_opts ;; u <- d_update ;; ticks <- d_list (d_pair d_q d_text) ;;
         its <- d_list d_given_item ;; dret (o, apply_update default_eopts u, ticks, its)) a with
  | Some ((o, e, ticks, its), []) =>
      let s := engine_scene o ticks e its in
      1 :: e_svg (svg_doc_of s) ++ e_tikz (tikz_doc_of s) ++ e_engine_diag (o_dir o) (o_pad o) e its
  | _ => bad_input
  end.

Definition api_pipeline (cmd : Z) (a : list Z) : list Z :=
  match cmd with
  | 850 => api_pipeline_run a
  | 851 => api_pipeline_given a
  | _ => bad_input
  end.
