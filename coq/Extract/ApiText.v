(* API commands 1..99: text utilities (C20) and TeX conversion (C19). *)
From Coq Require Import ZArith QArith List Bool.
From Labella Require Import Extract.Codec Text.Utils.
Import ListNotations.
Open Scope Z_scope.

Definition e_nlist (l : list N) : list Z := e_list e_n l.

(* 1: int2name i -> letters *)
Definition api_int2name (a : list Z) : list Z :=
  match d_n a with
  | Some (i, _) => match int2name_opt i with Some s => 1 :: e_nlist s | None => [0] end
  | None => bad_input
  end.
(* 2: hex colour conversions: code -> ok r g b | rgbstr | html *)
Definition api_hex (a : list Z) : list Z :=
  match d_list d_n a with
  | Some (code, _) =>
      match hex2rgb code, hex2rgbstr code with
      | Some (r, g, b), Some s => [1; Z.of_N r; Z.of_N g; Z.of_N b] ++ e_nlist s ++ e_nlist (hex2html code)
      | _, _ => [0]
      end
  | None => bad_input
  end.

Definition api_text (cmd : Z) (a : list Z) : list Z :=
  match cmd with
  | 1 => api_int2name a
  | 2 => api_hex a
  | _ => bad_input
  end.
