(* API commands 500..599: rendering (C07, C08, C09).
     500 scene -> svg_doc      501 scene -> tikz_doc
     502 scene -> nodeHeight and, per label, w h x y dx dy origin (Renderer.layout, nodePos)
     503 text -> its serialisation as SVG character data (Text/Xml.v) and what the reader gets back
   scene :=
     dir(0 up,1 down,2 left,3 right) iw ih ml mr mt mb gap padL padR padT padB dotr (rationals)
     showTicks showBorder tickCross (bools)
     5 colour options in the order dot, labelBg, labelText, link, border:
        0 code | 1 list-of-codes | 2 (function: per-label values below)
     ticks: list of (pos, text)
     labels: list of (ideal, datum width, opt text, chain, list of 5 function-colour codes)
   Sizes are computed from the datum width by the model of get_nodes. *)
From Coq Require Import ZArith NArith QArith List Bool.
From Labella Require Import Extract.Codec Text.Utils Text.Xml Render.Geometry Render.Scene.
Import ListNotations.
Open Scope Z_scope.

(* ---------- decoding ---------------------------------------------------------- *)
Definition dbind {A B} (d : dec A) (f : A -> dec B) : dec B := fun l =>
  match d l with Some (a, r) => f a r | None => None end.
Definition dret {A} (a : A) : dec A := fun l => Some (a, l).
Notation "x <- d ;; e" := (dbind d (fun x => e)) (at level 61, d at next level, right associativity).

Definition d_text : dec (list N) := d_list d_n.

Definition d_dir : dec direction :=
  z <- d_z ;;
  match z with
  | 0 => dret Up | 1 => dret Down | 2 => dret Left | 3 => dret Right
  | _ => fun _ => None
  end.

Definition d_colour : dec colour_opt :=
  z <- d_z ;;
  match z with
  | 0 => c <- d_text ;; dret (CConst c)
  | 1 => cs <- d_list d_text ;; dret (CList cs)
  | 2 => dret CFun
  | _ => fun _ => None
  end.

Definition d_opts : dec opts :=
  dir <- d_dir ;; iw <- d_q ;; ih <- d_q ;;
  ml <- d_q ;; mr <- d_q ;; mt <- d_q ;; mb <- d_q ;; gap <- d_q ;;
  pl <- d_q ;; pr <- d_q ;; pt <- d_q ;; pb <- d_q ;; dotr <- d_q ;;
  tk <- d_bool ;; bd <- d_bool ;; cr <- d_bool ;;
  c1 <- d_colour ;; c2 <- d_colour ;; c3 <- d_colour ;; c4 <- d_colour ;; c5 <- d_colour ;;
  dret (mkOpts dir iw ih ml mr mt mb gap (mkPad pl pr pt pb) dotr tk bd cr c1 c2 c3 c4 c5).

(* a label as the harness observes it; w and h by the get_nodes model *)
Definition d_label (d : direction) (p : padding) : dec label :=
  ideal <- d_q ;; width <- d_q ;; text <- d_opt d_text ;; chain <- d_list d_z ;;
  fc <- d_list d_text ;;
  let '(w, h) := node_size d p width text in
  dret (mkLabel ideal w h chain text fc).

Definition d_scene : dec scene :=
  o <- d_opts ;;
  ticks <- d_list (d_pair d_q d_text) ;;
  labels <- d_list (d_label (o_dir o) (o_pad o)) ;;
  dret (mkScene o ticks labels).

(* ---------- encoding ---------------------------------------------------------- *)
Definition e_z (z : Z) : list Z := [z].
Definition e_text (t : list N) : list Z := e_list e_n t.
(* Fi carries the truncated integer, F6/F8/F16 the printed decimal as an
   integer number of units of the last digit; all carry the unrounded value
   too (for the harness's ambiguity band / tolerance) *)
Definition scaled (k : positive) (x : Q) : Z := dec_round (x * inject_Z (Zpos k)).
Definition e_num (n : num) : list Z :=
  match n with
  | Fi x => 0 :: trunc x :: e_q x
  | F6 x => 1 :: scaled pow6 x :: e_q x
  | F8 x => 2 :: scaled pow8 x :: e_q x
  | F16 x => 3 :: scaled pow16 x :: e_q x
  | Fs x => 4 :: e_q x
  | Fl z => [5; z]
  end.
Definition e_np (p : npoint) : list Z := e_num (fst p) ++ e_num (snd p).
Definition e_nstep (s : nstep) : list Z :=
  match s with
  | NM p => 0 :: e_list e_np [p]
  | NC c1 c2 p => 1 :: e_list e_np [c1; c2; p]
  | NL p => 2 :: e_list e_np [p]
  end.
Definition e_role (r : role) : list Z := [Z.of_nat (role_idx r)].
Definition e_cname (c : cname) : list Z := e_role (fst c) ++ e_text (snd c).

Definition e_svg_anchor (a : svg_anchor) : list Z :=
  match a with AMiddle => [0] | AEnd => [1] | AStart => [2] end.
Definition e_svg_tick (t : svg_tick) : list Z :=
  e_np (stk_tr t) ++ [stk_x2 t; stk_y2 t] ++ e_svg_anchor (stk_anchor t)
  ++ [stk_tx t; stk_ty t; Z.of_N (stk_dy t)] ++ e_text (stk_text t).
Definition e_svg_link (k : svg_link) : list Z :=
  e_opt e_text (slk_stroke k) ++ e_list e_nstep (slk_d k).
Definition e_svg_text (t : svg_text) : list Z :=
  e_num (stx_x t) ++ e_num (stx_y t) ++ e_opt e_text (stx_fill t) ++ e_text (stx_body t).
Definition e_svg_label (b : svg_label) : list Z :=
  e_np (slb_tr b) ++ e_num (slb_w b) ++ e_num (slb_h b) ++ e_opt e_text (slb_fill b)
  ++ e_opt (e_opt e_text) (slb_stroke b) ++ e_opt e_svg_text (slb_text b).
Definition e_svg_dot (c : svg_dot) : list Z :=
  e_num (sdt_r c) ++ e_opt e_text (sdt_fill c) ++ e_opt e_num (sdt_cx c) ++ e_opt e_num (sdt_cy c).
Definition e_svg (d : svg_doc) : list Z :=
  e_num (sv_width d) ++ e_num (sv_height d) ++ e_np (sv_margin d) ++ e_np (sv_main d)
  ++ e_opt e_num (sv_axis_x2 d) ++ e_opt e_num (sv_axis_y2 d)
  ++ e_opt (e_list e_svg_tick) (sv_ticks d)
  ++ e_list e_svg_link (sv_links d) ++ e_list e_svg_label (sv_labels d)
  ++ e_list e_svg_dot (sv_dots d).

Definition e_tikz_anchor (a : tikz_anchor) : list Z :=
  match a with ANorth => [0] | ASouth => [1] | AWest => [2] | AEast => [3] end.
Definition e_tikz_tick (t : tikz_tick) : list Z :=
  e_np (ttk_shift t) ++ [fst (ttk_from t); snd (ttk_from t); fst (ttk_to t); snd (ttk_to t)]
  ++ e_tikz_anchor (ttk_anchor t) ++ e_text (ttk_text t).
Definition e_tikz_seg (g : tikz_seg) : list Z :=
  match g with
  | TCurve c p0 c1 c2 p => 0 :: e_cname c ++ e_list e_np [p0; c1; c2; p]
  | TLine c p0 p => 1 :: e_cname c ++ e_list e_np [p0; p]
  end.
Definition e_tikz_label (b : tikz_label) : list Z :=
  e_np (tlb_shift b) ++ e_opt e_cname (tlb_border b) ++ e_cname (tlb_bg b)
  ++ e_num (tlb_w b) ++ e_num (tlb_h b) ++ e_cname (tlb_textcol b) ++ e_opt e_text (tlb_text b).
Definition e_tikz_dot (c : tikz_dot) : list Z :=
  e_num (tdt_size c) ++ e_cname (tdt_fill c) ++ e_np (tdt_at c).
Definition e_tikz (d : tikz_doc) : list Z :=
  let '(b1, b2, b3, b4) := tk_border d in
  e_num b1 ++ e_num b2 ++ e_num b3 ++ e_num b4
  ++ e_list (fun c => e_cname (fst c) ++ e_text (snd c)) (tk_colors d)
  ++ e_list (fun t => e_text (fst t) ++ e_text (snd t)) (tk_texts d)
  ++ e_np (tk_margin d) ++ e_np (tk_main d) ++ e_np (tk_axis d)
  ++ e_opt (e_list e_tikz_tick) (tk_ticks d)
  ++ e_list (e_list e_tikz_seg) (tk_links d)
  ++ e_list e_tikz_label (tk_labels d)
  ++ e_list e_tikz_dot (tk_dots d).

Definition e_layout (s : scene) (l : label) : list Z :=
  let o := sc_opts s in
  let p := label_layout (o_dir o) (o_gap o) (sc_H s) l in
  let og := sc_origin s l in
  e_q (l_w l) ++ e_q (l_h l) ++ e_q (px p) ++ e_q (py p) ++ e_q (pdx p) ++ e_q (pdy p)
  ++ e_q (fst og) ++ e_q (snd og) ++ [l_layer l].

Definition with_scene (f : scene -> list Z) (a : list Z) : list Z :=
  match d_scene a with
  | Some (s, []) => f s
  | _ => bad_input
  end.

Definition api_render (cmd : Z) (a : list Z) : list Z :=
  match cmd with
  | 500 => with_scene (fun s => 1 :: e_svg (svg_doc_of s)) a
  | 501 => with_scene (fun s => 1 :: e_tikz (tikz_doc_of s)) a
  | 502 => with_scene (fun s => 1 :: e_q (sc_H s) ++ e_list (e_layout s) (sc_labels s)) a
  | 503 => match d_text a with
           | Some (t, _) => 1 :: e_list e_n (xml_escape t)
                              ++ match xml_read (xml_escape t) with Some u => 1 :: e_list e_n u | None => [0] end
           | None => bad_input
           end
  | _ => bad_input
  end.
