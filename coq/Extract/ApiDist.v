(* API commands 340..379: distributor (C04).
   340  distribute     alg lw? density spacing stub labels   -> layering
   341  force_layers   alg minPos? maxPos? density spacing stub labels -> layering
   342  widths         alg lw? density spacing stub labels   -> required width, estimate, split?
   alg: 0 overlap, 1 simple, 2 none.  A rational is `num den`, an optional
   value `0` or `1 value`, labels are `n` followed by n pairs `pos width`.
   Layering result: 1 L then per layer `len` and len pairs `input_index is_stub` (label ids are indices
   into the caller's list, through dist_perm); 0 = out of fuel; 2 = input
   outside the documented domain (width <= 0, spacing < 0, stub width < 0,
   density <= 0: the implementation raises or is unspecified there). *)
From Coq Require Import ZArith QArith List Bool.
From Labella Require Import Extract.Codec Layout.Distribute.
Import ListNotations.
Open Scope Z_scope.

Definition d_alg : dec algo := fun l =>
  match l with
  | 0 :: r => Some (AlgOverlap, r)
  | 1 :: r => Some (AlgSimple, r)
  | 2 :: r => Some (AlgNone, r)
  | _ => None
  end.

Definition d_label : dec label := fun l =>
  match d_pair d_q d_q l with
  | Some ((p, w), r) => Some (mkLabel p w, r)
  | None => None
  end.

Definition d_dopts : dec dopts := fun l =>
  match d_alg l with
  | Some (a, r1) =>
    match d_opt d_q r1 with
    | Some (lw, r2) =>
      match d_q r2 with
      | Some (dens, r3) =>
        match d_q r3 with
        | Some (sp, r4) =>
          match d_q r4 with
          | Some (st, r5) => Some (mkDopts a lw dens sp st, r5)
          | None => None
          end
        | None => None
        end
      | None => None
      end
    | None => None
    end
  | None => None
  end.

Definition d_fopts : dec fopts := fun l =>
  match d_alg l with
  | Some (a, r1) =>
    match d_opt d_q r1 with
    | Some (mn, r2) =>
      match d_opt d_q r2 with
      | Some (mx, r2') =>
        match d_q r2' with
        | Some (dens, r3) =>
          match d_q r3 with
          | Some (sp, r4) =>
            match d_q r4 with
            | Some (st, r5) => Some (mkFopts a mn mx dens sp st, r5)
            | None => None
            end
          | None => None
          end
        | None => None
        end
      | None => None
      end
    | None => None
    end
  | None => None
  end.

Definition e_item (perm : list nat) (it : item) : list Z :=
  [Z.of_nat (nth (fst it) perm 0%nat); if snd it then 1 else 0].

Definition e_layering (o : dopts) (labels : list label) (r : option (list (list item))) : list Z :=
  if dist_dom_b o labels then
    match r with
    | None => [0]
    | Some ls => 1 :: e_list (e_list (e_item (dist_perm o labels))) ls
    end
  else [2].

Definition api_distribute (a : list Z) : list Z :=
  match d_dopts a with
  | Some (o, r) =>
    match d_list d_label r with
    | Some (labels, _) => e_layering o labels (distribute o labels)
    | None => bad_input
    end
  | None => bad_input
  end.

Definition api_force_layers (a : list Z) : list Z :=
  match d_fopts a with
  | Some (f, r) =>
    match d_list d_label r with
    | Some (labels, _) => e_layering (dopts_of_fopts f) labels (force_layers f labels)
    | None => bad_input
    end
  | None => bad_input
  end.

(* computeRequiredWidth / estimateRequiredLayers / needToSplit on the caller's list *)
Definition api_widths (a : list Z) : list Z :=
  match d_dopts a with
  | Some (o, r) =>
    match d_list d_label r with
    | Some (labels, _) =>
      if dist_dom_b o labels then
        let ws := map l_width labels in
        1 :: e_q (required_width (o_spacing o) ws) ++
        [estimate_layers o ws; if need_to_split o ws then 1 else 0]
      else [2]
    | None => bad_input
    end
  | None => bad_input
  end.

Definition api_dist (cmd : Z) (a : list Z) : list Z :=
  match cmd with
  | 340 => api_distribute a
  | 341 => api_force_layers a
  | 342 => api_widths a
  | _ => bad_input
  end.
