(* API commands 300..339: one layer's placement (C01-C03).
   300: nodeSp lineSp minP? maxP? items  ->  1, rounded positions, exact positions
        (positions in the order of the layer list sorted stably by target)
   301: minP? maxP? -> layer width handed to the distributor (option)
   302: as 300 -> 1, positions of ALL solver variables (walls included), exact
   303: d w g -> pava d w g (exact), the bare chain solver *)
From Coq Require Import ZArith QArith List Bool.
From Labella Require Import Extract.Codec Base.QUtil Layout.Pava Layout.Layer.
Import ListNotations.
Open Scope Z_scope.

Definition d_item : dec item := fun l =>
  match d_q l with
  | Some (t, r) =>
      match d_q r with
      | Some (w, r') =>
          match d_bool r' with
          | Some (s, r'') => Some (mkItem t w s, r'')
          | None => None
          end
      | None => None
      end
  | None => None
  end.

Definition d_layer : dec (lopts * list item) := fun l =>
  match d_q l with
  | Some (ns, r1) =>
    match d_q r1 with
    | Some (ls, r2) =>
      match d_opt d_q r2 with
      | Some (mn, r3) =>
        match d_opt d_q r3 with
        | Some (mx, r4) =>
          match d_list d_item r4 with
          | Some (its, r5) => Some ((mkOpts ns ls mn mx, its), r5)
          | None => None
          end
        | None => None
        end
      | None => None
      end
    | None => None
    end
  | None => None
  end.

Definition api_solve_layer (a : list Z) : list Z :=
  match d_layer a with
  | Some ((o, its), _) =>
      1 :: e_list (fun z => [z]) (solve_layer o its) ++ e_list e_q (solve_layer_exact o its)
  | None => bad_input
  end.

Definition api_layer_width (a : list Z) : list Z :=
  match d_opt d_q a with
  | Some (mn, r) =>
      match d_opt d_q r with
      | Some (mx, _) => e_opt e_q (layer_width mn mx)
      | None => bad_input
      end
  | None => bad_input
  end.

Definition api_solve_full (a : list Z) : list Z :=
  match d_layer a with
  | Some ((o, its), _) => 1 :: e_list e_q (solve_full o (sorted_items its))
  | None => bad_input
  end.

Definition api_pava (a : list Z) : list Z :=
  match d_list d_q a with
  | Some (d, r) =>
      match d_list d_q r with
      | Some (w, r') =>
          match d_list d_q r' with
          | Some (g, _) => 1 :: e_list e_q (pava d w g)
          | None => bad_input
          end
      | None => bad_input
      end
  | None => bad_input
  end.

Definition api_layout (cmd : Z) (a : list Z) : list Z :=
  match cmd with
  | 300 => api_solve_layer a
  | 301 => api_layer_width a
  | 302 => api_solve_full a
  | 303 => api_pava a
  | _ => bad_input
  end.
