(* API commands 720..729: the option dictionaries of labella/timeline.py (Render/Options.v).
     720 resolve:   user -> 1 resolved | 0 err        (err: 0 KeyError, 1 TypeError)
     721 tl_merge:  user -> 1 dict | 0 err
     722 export_docs (Render/PipelineOptions.v: resolve ; axis ; engine ; both emitters), status only:
         fresh user today(y m d) data(list of (tval, width)) -> 1 | 0 err | 2 kind (the pipeline raises) | 3 (fuel)
   input := fresh user      fresh: identity of the TimeScale the constructor creates
   user  := 0 (None) | 1 dict
   dict  := list of (key, oval)        oval := 0 | 1 b | 2 num den | 3 text | 4 list of texts | 5 (callable)
                                               | 6 dict0 | 7 linear oid      (dict0: a dict whose values are not dicts)
   resolved := dir iw ih ml mr mt mb gap padL padR padT padB dotr ticks border cross 5 x colour
               alg minPos? maxPos? density spacing stub lineSpacing? linear own_scale scale_oid
   colour := 0 text | 1 list of texts | 2 *)
From Coq Require Import ZArith NArith QArith List Bool.
From Labella Require Import Extract.Codec Extract.ApiRender Extract.ApiAxis Render.Geometry Render.Scene
  Render.Axis Layout.Distribute Layout.ForceState Render.Options Render.Pipeline Render.PipelineOptions.
Import ListNotations.
Open Scope Z_scope.

Definition d_oval0 : dec oval :=
  z <- d_z ;;
  match z with
  | 0 => dret VNone
  | 1 => b <- d_bool ;; dret (VBool b)
  | 2 => q <- d_q ;; dret (VNum q)
  | 3 => s <- d_text ;; dret (VStr s)
  | 4 => l <- d_list d_text ;; dret (VStrs l)
  | 5 => dret VFun
  | 7 => b <- d_bool ;; i <- d_n ;; dret (VScale b i)
  | _ => fun _ => None
  end.
Definition d_oval : dec oval := fun l =>
  match l with
  | 6 :: r => (d <- d_list (d_pair d_n d_oval0) ;; dret (VDict d)) r
  | _ => d_oval0 l
  end.
Definition d_user : dec (option dict) := d_opt (d_list (d_pair d_n d_oval)).

Definition e_text (s : list N) : list Z := e_list e_n s.
Definition e_oval0 (v : oval) : list Z :=
  match v with
  | VNone => [0] | VBool b => 1 :: e_bool b | VNum q => 2 :: e_q q | VStr s => 3 :: e_text s
  | VStrs l => 4 :: e_list e_text l | VFun => [5] | VDict _ => [6; 0] | VScale b i => 7 :: e_bool b ++ e_n i
  end.
Definition e_oval (v : oval) : list Z :=
  match v with
  | VDict d => 6 :: e_list (fun kv => e_n (fst kv) ++ e_oval0 (snd kv)) d
  | _ => e_oval0 v
  end.
Definition e_dict (d : dict) : list Z := e_list (fun kv => e_n (fst kv) ++ e_oval (snd kv)) d.

Definition e_dir (d : direction) : list Z := [match d with Up => 0 | Down => 1 | Left => 2 | Right => 3 end].
Definition e_colour (c : colour_opt) : list Z :=
  match c with CConst s => 0 :: e_text s | CList l => 1 :: e_list e_text l | CFun => [2] end.
Definition e_algo (a : algo) : list Z := [match a with AlgOverlap => 0 | AlgSimple => 1 | AlgNone => 2 end].

Definition e_resolved (r : resolved) : list Z :=
  let o := r_opts r in let e := r_engine r in
  e_dir (o_dir o) ++ e_q (o_iw o) ++ e_q (o_ih o) ++ e_q (o_ml o) ++ e_q (o_mr o) ++ e_q (o_mt o) ++ e_q (o_mb o)
  ++ e_q (o_gap o) ++ e_q (padL (o_pad o)) ++ e_q (padR (o_pad o)) ++ e_q (padT (o_pad o)) ++ e_q (padB (o_pad o))
  ++ e_q (o_dotr o) ++ e_bool (o_ticks o) ++ e_bool (o_border o) ++ e_bool (o_cross o)
  ++ e_colour (o_cdot o) ++ e_colour (o_cbg o) ++ e_colour (o_ctext o) ++ e_colour (o_clink o) ++ e_colour (o_cborder o)
  ++ e_algo (e_alg e) ++ e_opt e_q (e_minPos e) ++ e_opt e_q (e_maxPos e) ++ e_q (e_density e)
  ++ e_q (e_spacing e) ++ e_q (e_stub e) ++ e_opt e_q (e_lineSpacing e)
  ++ e_bool (r_linear r) ++ e_bool (r_own_scale r) ++ e_n (r_scale_id r).

Definition e_oerr (e : oerr) : list Z := [0; match e with OKeyError => 0 | OTypeError => 1 end].

Definition api_export_status (a : list Z) : list Z :=
  match (f <- d_n ;; u <- d_user ;; y <- d_z ;; m <- d_z ;; d <- d_z ;;
         data <- d_list (d_pair d_tval d_q) ;; dret (f, u, (y, m, d), data)) a with
  | Some ((fresh, u, today, data), _) =>
      let rd := map (fun tw => mkRawDatum (fst tw) (snd tw) None []) data in
      match export_docs fresh u rd None today with
      | OOk (AOk _) => [1]
      | OOk (ARaise k) => [2; ekind_code k]
      | OOk AFuel => [3]
      | ORaise e => e_oerr e
      end
  | None => bad_input
  end.

Definition api_options (cmd : Z) (a : list Z) : list Z :=
  if cmd =? 722 then api_export_status a else
  match (f <- d_n ;; u <- d_user ;; dret (f, u)) a with
  | Some ((fresh, u), _) =>
      match cmd with
      | 720 => match resolve fresh u with OOk r => 1 :: e_resolved r | ORaise e => e_oerr e end
      | 721 => match tl_merge fresh u with OOk d => 1 :: e_dict d | ORaise e => e_oerr e end
      | _ => bad_input
      end
  | None => bad_input
  end.
