(* History: the solve loop of commit b524544 (before b960568), kept as a
   kernel-checked record of the defect it had.

     def solve(self):
         self.satisfy(); lastcost = maxsize; cost = self.bs.cost()
         while abs(lastcost - cost) > 0.0001:
             self.satisfy(); lastcost = cost; cost = self.bs.cost()
         return cost

   It stops as soon as one satisfy() round leaves the cost unchanged.  A round
   can split a block on a negative multiplier and re-merge it across another
   constraint at the same cost; the new active tree then carries a negative
   multiplier that only the next round would split.  Witness below: six unit
   weight variables, ten constraints, returned cost 256/3, while a feasible
   assignment of cost 254/3 exists.  satisfy() itself is the current one. *)
From Coq Require Import ZArith QArith Qabs List Bool Arith Lia Lqa.
From Labella Require Import Vpsc.Vpsc Vpsc.Kkt.
Import ListNotations.
Open Scope Q_scope.

Section Old.
Variable vars : list var.
Variable cons : list con.

Fixpoint solve_loop_old (fuel sfuel : nat) (st : state) (lastcost cost : Q) : res (state * Q) :=
  if Qltb COST_EPS (Qabs (lastcost - cost)) then
    match fuel with
    | O => Fuel 3
    | S f =>
        match satisfy vars cons sfuel st with
        | Fuel e => Fuel e
        | Ok (st1, _) => solve_loop_old f sfuel st1 cost (blocks_cost vars st1)
        end
    end
  else Ok (st, cost).

Definition solve_old : res (state * Q) :=
  match satisfy vars cons (sat_fuel vars cons) (init_state vars cons) with
  | Fuel e => Fuel e
  | Ok (st, _) => solve_loop_old (solve_fuel cons) (sat_fuel vars cons) st maxsize (blocks_cost vars st)
  end.
End Old.

Definition feasibleb (vars : list var) (cons : list con) (x : list Q) : bool :=
  forallb (fun c => Qle_bool 0 (slack_fn vars x c)) cons.

Lemma feasibleb_sound : forall vars cons x, feasibleb vars cons x = true -> feasible vars cons x.
Proof.
  intros vars cons x H c Hc. unfold feasibleb in H. rewrite forallb_forall in H.
  apply Qle_bool_iff. now apply H.
Qed.

Definition w_vars : list var := map (fun d => mkVar (inject_Z d) 1 1) [9; 6; 3; 9; 5; 8]%Z.
Definition w_cons : list con :=
  map (fun t : nat * nat * Z => match t with (l, r, g) => mkCon l r (inject_Z g) end)
      [(0, 1, 1%Z); (0, 5, 1%Z); (0, 4, 3%Z); (0, 1, 3%Z); (4, 5, 3%Z); (0, 5, 3%Z); (3, 4, 2%Z);
       (1, 2, 2%Z); (1, 2, 2%Z); (2, 5, 1%Z)]%nat.
Definition w_better : list Q := [10 # 3; 19 # 3; 25 # 3; 5; 7; 10].

(* the old loop returns a feasible state of cost 256/3 although the feasible
   assignment w_better costs 254/3 *)
Theorem C05_refuted_old_early_exit_lemma :
  exists st c, solve_old w_vars w_cons = Ok (st, c) /\
               c == 256 # 3 /\
               c == cost_fn w_vars (positions w_vars st) /\
               feasible w_vars w_cons w_better /\
               cost_fn w_vars w_better == 254 # 3 /\
               cost_fn w_vars w_better < c - (6 # 10).
Proof.
  destruct (solve_old w_vars w_cons) as [[st c]|k] eqn:E; [|vm_compute in E; discriminate].
  exists st, c. split; [reflexivity|].
  assert (Hc : Qeq_bool c (256 # 3) = true)
    by (replace c with (match solve_old w_vars w_cons with Ok (_, c) => c | _ => 0 end) by (now rewrite E); now vm_compute).
  assert (Hp : Qeq_bool c (cost_fn w_vars (positions w_vars st)) = true)
    by (replace c with (match solve_old w_vars w_cons with Ok (_, c) => c | _ => 0 end) by (now rewrite E);
        replace st with (match solve_old w_vars w_cons with Ok (s, _) => s | _ => init_state w_vars w_cons end) by (now rewrite E);
        now vm_compute).
  apply Qeq_bool_iff in Hc. apply Qeq_bool_iff in Hp.
  assert (Hb : cost_fn w_vars w_better == 254 # 3) by (apply Qeq_bool_iff; now vm_compute).
  repeat split; try assumption.
  - apply feasibleb_sound. now vm_compute.
  - rewrite Hb, Hc. reflexivity.
Qed.

(* ------------------------------------------------------------------------
   History: the solver as first ported (commit 5c6fa44, before b524544).
     - mostViolated overwrote l[deletePoint] with the last element but
       `l = l[:-1]` only rebound a local: the list was never shortened;
     - satisfy() lost `v = self.mostViolated()` at the end of the while body:
       after one merge the same v is re-tested, it is now active, the loop
       stops: one merge per satisfy() call;
     - solve() as in solve_old above.
   Witness (DESIGN.md A.1): nine unit-weight variables, twelve constraints;
   solve returns although an unflagged constraint is violated by 1. *)
Section Cur.
Variable vars : list var.
Variable cons : list con.

Definition most_violated_cur (st : state) : state * option nat :=
  let l := s_inact st in
  let n := length l in
  let '(ms, v, dp, g) := mv_scan vars cons st l 0 (maxsize, None, n, s_mg st) in
  match v with
  | None => (set_mg st g, None)
  | Some c =>
      let st1 := set_mg st g in
      if negb (Nat.eqb dp n) && (Qltb ms ZERO_UPPERBOUND && negb (k_act (cst_ st c)))
      then (set_inact st1 (upd l dp (last l 0%nat)), Some c)      (* not shortened *)
      else (st1, Some c)
  end.

(* the while body; the boolean says whether the path ended in `continue`
   (v re-evaluated by mostViolated) or fell through (same v re-tested) *)
Definition satisfy_body_cur (st : state) (v : nat) : res (state * bool) :=
  let k := con_ cons v in
  let lb := o_blk (vst_ st (c_l k)) in
  let rb := o_blk (vst_ st (c_r k)) in
  if negb (Nat.eqb lb rb) then Ok (bs_merge vars cons st v, false)
  else
    match is_adp cons (trav_fuel vars) st (c_r k) (c_l k) with
    | Fuel e => Fuel e
    | Ok true => Ok (set_unsat st v, true)
    | Ok false =>
        match find_min_lm_between vars cons st (c_l k) (c_r k) with
        | Fuel e => Fuel e
        | Ok (st1, None) => Ok (set_unsat st1 v, true)
        | Ok (st1, Some c) =>
            match block_split vars cons st1 c with
            | Fuel e => Fuel e
            | Ok (st2, (nl, nr)) =>
                let st3 := bs_remove (bs_insert (bs_insert st2 nl) nr) lb in
                let st4 := set_inact st3 (s_inact st3 ++ [c]) in
                if Qle_bool 0 (slack vars cons st4 v) then Ok (set_inact st4 (s_inact st4 ++ [v]), false)
                else Ok (bs_merge vars cons st4 v, false)
            end
        end
    end.

Fixpoint satisfy_loop_cur (fuel : nat) (st : state) (v : option nat) : res state :=
  match v with
  | None => Ok st
  | Some c =>
      if Qltb (slack vars cons st c) ZERO_UPPERBOUND && negb (k_act (cst_ st c)) then
        match fuel with
        | O => Fuel 2
        | S f =>
            match satisfy_body_cur st c with
            | Fuel e => Fuel e
            | Ok (st1, true) => let (st2, v') := most_violated_cur st1 in satisfy_loop_cur f st2 v'
            | Ok (st1, false) => satisfy_loop_cur f st1 (Some c)
            end
        end
      else Ok st
  end.

Definition satisfy_cur (fuel : nat) (st : state) : res state :=
  match blocks_split vars cons st with
  | Fuel e => Fuel e
  | Ok (st1, _) => let (st2, v) := most_violated_cur st1 in satisfy_loop_cur fuel st2 v
  end.

Fixpoint solve_loop_cur (fuel sfuel : nat) (st : state) (lastcost cost : Q) : res (state * Q) :=
  if Qltb COST_EPS (Qabs (lastcost - cost)) then
    match fuel with
    | O => Fuel 3
    | S f =>
        match satisfy_cur sfuel st with
        | Fuel e => Fuel e
        | Ok st1 => solve_loop_cur f sfuel st1 cost (blocks_cost vars st1)
        end
    end
  else Ok (st, cost).

Definition vpsc_cur : res (state * Q) :=
  match satisfy_cur (sat_fuel vars cons) (init_state vars cons) with
  | Fuel e => Fuel e
  | Ok st => solve_loop_cur (solve_fuel cons) (sat_fuel vars cons) st maxsize (blocks_cost vars st)
  end.
End Cur.

Definition a1_vars : list var := map (fun d => mkVar (inject_Z d) 1 1) [19; 8; 5; 3; 6; 6; 0; 12; 10]%Z.
Definition a1_cons : list con :=
  map (fun t : nat * nat * Z => match t with (l, r, g) => mkCon l r (inject_Z g) end)
      [(0, 5, 2%Z); (3, 6, 2%Z); (2, 6, 0%Z); (4, 7, 2%Z); (0, 7, 0%Z); (2, 5, 2%Z); (0, 4, 2%Z); (0, 2, 1%Z);
       (2, 7, 3%Z); (1, 4, 2%Z); (0, 5, 2%Z); (3, 4, 0%Z)]%nat.

(* the first-ported solver returns with an unflagged constraint violated by more than 1/2 *)
Theorem C05_refuted_cur_lemma :
  exists st c, vpsc_cur a1_vars a1_cons = Ok (st, c) /\
    exists j, (j < length a1_cons)%nat /\ nth j (flags st) true = false /\
              slack_fn a1_vars (positions a1_vars st) (nth j a1_cons dcon) < - (1 # 2).
Proof.
  destruct (vpsc_cur a1_vars a1_cons) as [[st c]|k] eqn:E; [|vm_compute in E; discriminate].
  exists st, c. split; [reflexivity|].
  assert (H : existsb (fun j => negb (nth j (flags st) true)
                               && Qltb (slack_fn a1_vars (positions a1_vars st) (nth j a1_cons dcon)) (- (1 # 2)))
                      (seq 0 (length a1_cons)) = true).
  { replace st with (match vpsc_cur a1_vars a1_cons with Ok (s, _) => s | _ => init_state a1_vars a1_cons end) by (now rewrite E).
    now vm_compute. }
  apply existsb_exists in H. destruct H as (j & Hj & Hb). apply in_seq in Hj.
  apply andb_true_iff in Hb. destruct Hb as [B1 B2]. apply negb_true_iff in B1.
  exists j. split; [lia|]. split; [exact B1|].
  unfold Qltb in B2. apply negb_true_iff in B2. apply Qnot_le_lt. intro L. apply Qle_bool_iff in L. congruence.
Qed.
