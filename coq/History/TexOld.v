(* History: the loop of labella/tex.py:38-59 BEFORE commit e2f326e (snapshot
   5c6fa44), kept as a kernel-checked record of the defect (DESIGN.md A.10).
   Not tied to the code any more; the witnesses are replayed from
   corpus/C19 against the implementation, where they must now pass.

     if category(char) in ("Mn","Mc") and code in accents:
         out += "\\%s{%s}" % (accents[code], txt[i+1]); i += 1     # IndexError at the end
     elif decomposition(char):
         base, acc = decomposition(char).split()                    # ValueError unless 2 parts
         acc = int(acc,16); base = int(base,16)                     # ValueError on a <tag>
         out += "\\%s{%s}" % (accents[acc], chr(base)) if acc in accents else char
     else: out += char
     i += 1 *)
From Coq Require Import NArith List Bool.
From Labella Require Import Text.Tex.
Import ListNotations.
Open Scope N_scope.

Inductive res : Type := Ok (s : list N) | IndexError | ValueError.
Definition res_app (p : list N) (r : res) : res :=
  match r with Ok s => Ok (p ++ s) | e => e end.

Section Old.
  Variable is_mark : N -> bool.                         (* category in (Mn, Mc) *)
  Variable decomp : N -> option (list N * bool).
  Fixpoint uni2tex_cur (s : list N) : res :=
    match s with
    | [] => Ok []
    | c :: r =>
        match (if is_mark c then accent_cmd c else None) with
        | Some cmd =>
            match r with
            | [] => IndexError
            | n :: r' => res_app [BSL; cmd; LBR; n; RBR] (uni2tex_cur r')
            end
        | None =>
            match decomp c with
            | None => res_app [c] (uni2tex_cur r)
            | Some ([b; m], false) =>
                match accent_cmd m with
                | Some cmd => res_app [BSL; cmd; LBR; b; RBR] (uni2tex_cur r)
                | None => res_app [c] (uni2tex_cur r)
                end
            | Some _ => ValueError
            end
        end
    end.
End Old.

Definition ex_is_mark (c : N) : bool := (0x300 <=? c) && (c <=? 0x36F).

(* A.10: the no-break space raises ValueError, a trailing combining acute
   raises IndexError, and a + acute + b puts the accent on the b: read back it
   is  a b U+0301, not the input. *)
Theorem C19_refuted_old :
  uni2tex_cur ex_is_mark (lookup ex_tbl) [0xA0] = ValueError /\
  uni2tex_cur ex_is_mark (lookup ex_tbl) [101; 0x301] = IndexError /\
  uni2tex_cur ex_is_mark (lookup ex_tbl) [97; 0x301; 98] = Ok [97; 92; 39; 123; 98; 125] /\
  tex2uni [97; 92; 39; 123; 98; 125] = [97; 98; 0x301] /\
  (* the repaired loop on the same inputs *)
  uni2tex (lookup ex_tbl) [0xA0] = [0xA0] /\
  uni2tex (lookup ex_tbl) [101; 0x301] = [92; 39; 123; 101; 125] /\
  uni2tex (lookup ex_tbl) [97; 0x301; 98] = [92; 39; 123; 97; 125; 98].
Proof. vm_compute. repeat split. Qed.
Print Assumptions C19_refuted_old.
