(* HISTORICAL witnesses (property C12).  Two defects of LinearScale's handling
   of its list objects have been repaired in /repo:
   (1) 0ea8365 `copy() copies the domain and range lists`: before it, copy()
       passed the two list OBJECTS to the new scale (DESIGN.md A.6);
   (2) 41d590d `nice() builds a new domain list`: before it, nice() rewrote
       the scale's domain list IN PLACE (d3_scale_nice assigns domain[i0],
       domain[i1]); the getter domain() returns that very list and range(x)
       stores whatever list it is given, so a list could be shared (audit B6).
   This file models the OLD behaviour on the heap machine of
   Scale/ScaleState.v and proves, by computation, that the statement of
   C12_ss_endpoints failed for it:
   - ss_refuted_old       : s.domain([.3,9.7]).range([0,100]); c = s.copy(); c.nice()
                            (old copy + old nice): the ORIGINAL reports the
                            domain [0,10] but still maps 0 to -3.19...
   - ss_refuted_old_alias : ...; c = s.copy(); c.range(s.domain()); s.nice()
                            (repaired copy, old nice): the COPY reports the
                            range [0,10] but still maps onto [0.3,9.7].
   The model tied to the code is Scale/ScaleState.v (nothing writes into an
   existing cell); this file is only a kernel-checked record of the defects. *)
From Coq Require Import ZArith QArith List Bool.
From Labella Require Import Scale.Linear Scale.Ticks Scale.Nice Scale.ScaleState.
Import ListNotations.
Open Scope Q_scope.

(* old nice(): overwrite the domain cell in place, then rescale *)
Definition nice_in_place (st : state) (i : nat) (m : Z) : state :=
  match nth_error (scales st) i with
  | Some s =>
      match nth_error (heap st) (dom s) with
      | Some d =>
          let h := upd (heap st) (dom s) (nice m d) in
          mkState h (upd (scales st) i (rescale h s))
      | None => st
      end
  | None => st
  end.

(* old copy(): a new scale object holding the SAME two cells *)
Definition copy_aliasing (st : state) (i : nat) : state :=
  match nth_error (scales st) i with
  | Some s =>
      mkState (heap st) (scales st ++ [rescale (heap st) (mkScale (dom s) (rng s) (clamp s) no_cache)])
  | None => st
  end.

(* the machine before 41d590d (old nice); with alias_copy also before 0ea8365 *)
Definition step_old (alias_copy : bool) (st : state) (o : op) : state :=
  match o with
  | ONice i m => nice_in_place st i m
  | OCopy i => if alias_copy then copy_aliasing st i else step st o
  | _ => step st o
  end.

Definition run_old (alias_copy : bool) (ops : list op) (st : state) : state :=
  fold_left (step_old alias_copy) ops st.

Definition A6 : list op :=
  [ONew; OAlloc (0, 100); ODomain 0 (3#10, 97#10); ORange 0 2; OCopy 0; ONice 1 10].

Definition B6 : list op :=
  [ONew; OAlloc (0, 100); ODomain 0 (3#10, 97#10); ORange 0 2; OCopy 0;
   ORangeOfDomain 1 0; ONice 0 10].

(* the statement of C12_ss_endpoints fails for the snapshot's machine *)
Theorem ss_refuted_old :
  exists ops i a b r0 r1 v,
    let st := run_old true ops init in
    observe st i QDomain = APair (a, b) /\ observe st i QRange = APair (r0, r1) /\
    ~ a == b /\ observe st i (QCall a) = ANum v /\ ~ v == r0.
Proof.
  exists A6, 0%nat, 0, 10, 0, 100. eexists.
  vm_compute. repeat split; try discriminate.
Qed.
Print Assumptions ss_refuted_old.

(* ... and still failed after copy() was repaired, through a shared list:
   the copy reports domain [0.3,9.7] and range [0,10] but maps 0.3 to 0.3 *)
Theorem ss_refuted_old_alias :
  exists ops i a b r0 r1 v,
    let st := run_old false ops init in
    observe st i QDomain = APair (a, b) /\ observe st i QRange = APair (r0, r1) /\
    ~ a == b /\ observe st i (QCall a) = ANum v /\ ~ v == r0.
Proof.
  exists B6, 1%nat, (3#10), (97#10), 0, 10. eexists.
  vm_compute. repeat split; try discriminate.
Qed.
Print Assumptions ss_refuted_old_alias.

(* the very same histories on the repaired machine are consistent *)
Example A6_repaired :
  let st := run A6 init in
  observe st 0 QDomain = APair (3#10, 97#10) /\ observe st 1 QDomain = APair (0, 10).
Proof. vm_compute. split; reflexivity. Qed.

Example B6_repaired :
  let st := run B6 init in
  observe st 0 QDomain = APair (0, 10) /\ observe st 1 QRange = APair (3#10, 97#10) /\
  exists v, observe st 1 (QCall (3#10)) = ANum v /\ Qeq_bool v (3#10) = true.
Proof. vm_compute. repeat split. eexists. split; reflexivity. Qed.

(* the original of the snapshot's machine is off by the amount A.6 reports:
   s(0) = -300/94 = -3.19..., s(10) = 9700/94 = 103.19... *)
Example A6_values :
  let st := run_old true A6 init in
  exists v0 v1, observe st 0 (QCall 0) = ANum v0 /\ observe st 0 (QCall 10) = ANum v1 /\
                Qeq_bool v0 (-(300#94)) = true /\ Qeq_bool v1 (9700#94) = true.
Proof. vm_compute. eexists. eexists. repeat split. Qed.
