(* HISTORICAL witness (DESIGN.md A.6, property C12).  Before the repair
   `fix: LinearScale.copy() copies the domain and range lists` (/repo 0ea8365)
   copy() passed the domain and range list OBJECTS to the new scale
   (scale.py:374-377 of the snapshot), and nice() rewrites the domain list in
   place.  This file models that old copy() on the heap machine of
   Scale/ScaleState.v and proves, by computation, that the property failed:
   after  s.domain([0.3,9.7]).range([0,100]); c = s.copy(); c.nice()
   the ORIGINAL reports the domain [0,10] but still maps 0 to -3.19...
   The model tied to the code is Scale/ScaleState.v (the repaired copy); this
   file is only a kernel-checked record of the defect. *)
From Coq Require Import ZArith QArith List Bool.
From Labella Require Import Scale.Linear Scale.Ticks Scale.Nice Scale.ScaleState.
Import ListNotations.
Open Scope Q_scope.

(* the old copy(): a new scale object holding the SAME two cells *)
Definition step_old (st : state) (o : op) : state :=
  match o with
  | OCopy i =>
      match nth_error (scales st) i with
      | Some s =>
          let s0 := mkScale (dom s) (rng s) (clamp s) (mkCache 0 0 0 0 false) in
          mkState (dheap st) (rheap st) (scales st ++ [rescale (dheap st) (rheap st) s0])
      | None => st
      end
  | _ => step st o
  end.

Definition run_old (ops : list op) (st : state) : state := fold_left step_old ops st.

Definition A6 : list op :=
  [ONew; OAllocR (0, 100); ODomain 0 (3#10, 97#10); ORange 0 1; OCopy 0; ONice 1 10].

(* the statement of C12_ss_endpoints fails for the old machine *)
Theorem ss_refuted_old :
  exists ops i a b r0 r1 v,
    let st := run_old ops init in
    observe st i QDomain = APair (a, b) /\ observe st i QRange = APair (r0, r1) /\
    ~ a == b /\ observe st i (QCall a) = ANum v /\ ~ v == r0.
Proof.
  exists A6, 0%nat, 0, 10, 0, 100. eexists.
  vm_compute. repeat split; try discriminate.
Qed.
Print Assumptions ss_refuted_old.

(* the very same history on the repaired machine is consistent *)
Example A6_repaired :
  let st := run A6 init in
  observe st 0 QDomain = APair (3#10, 97#10) /\ observe st 1 QDomain = APair (0, 10).
Proof. vm_compute. split; reflexivity. Qed.

(* ... and the original of the old machine is off by the amount A.6 reports:
   s(0) = -300/94 = -3.19..., s(10) = 9700/94 = 103.19... *)
Example A6_values :
  let st := run_old A6 init in
  exists v0 v1, observe st 0 (QCall 0) = ANum v0 /\ observe st 0 (QCall 10) = ANum v1 /\
                Qeq_bool v0 (-(300#94)) = true /\ Qeq_bool v1 (9700#94) = true.
Proof. vm_compute. eexists. eexists. repeat split. Qed.
