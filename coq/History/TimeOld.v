(* HISTORICAL witnesses: small models of two defects of labella/d3_time.py as
   it was before the repairs (commits 867ccf8 and 9910f7f in /repo), kept as
   kernel-checked records.  Nothing here is tied to the current code; the
   witnesses are replayed against the implementation from corpus/C17 and
   corpus/C18, where they must now pass.

   (1) zone-dependent conversions (old d3_time.py:18-19, scale.py:17-18)
         dt2milli = lambda x: x.timestamp() * 1000
         milli2dt = lambda x: datetime.fromtimestamp(x / 1000)
       on NAIVE datetimes, i.e. through the process's local zone;
   (2) day offset by month arithmetic (old d3_time.py:119-128), which raises
       ValueError when a day 31 meets a 30-day month. *)
From Coq Require Import ZArith List Bool.
From Labella Require Import Time.Calendar Time.Interval Time.TzModel.
Import ListNotations.
Open Scope Z_scope.

(* ---------- (1) ------------------------------------------------------------- *)
Section OldConversions.
  (* offset of local time from UTC, in microseconds, at a UTC instant *)
  Variable tz : Z -> Z.

  (* fromtimestamp: UTC instant -> naive local wall clock (as "epoch us") *)
  Definition utc_to_local (u : Z) : Z := u + tz u.
  (* timestamp() of a naive datetime: CPython's two-probe search for u with
     utc_to_local u = w (exact for constant offsets, a sketch across gaps/folds) *)
  Definition local_to_utc (w : Z) : Z :=
    let u1 := w - tz w in
    if utc_to_local u1 =? w then u1 else w - tz u1.

  Definition dt2us_old (t : dt) : Z := local_to_utc (to_us t).
  Definition us2dt_old (z : Z) : res dt := of_us_chk (utc_to_local z).

  (* d3_time_hour_local with getTimezoneOffset = 0:
     milli2dt(math.floor(dt2milli(date) / 36e5) * 36e5) *)
  Definition hour_floor_old (t : dt) : res dt :=
    us2dt_old (dt2us_old t / US_H * US_H).
End OldConversions.

(* Asia/Kolkata: constant +05:30 = 19 800 000 ms *)
Definition kolkata : Z -> Z := fun _ => 19800000 * 1000.
Definition witness_A9 : dt := mkdt 2021 3 14 2 30 15 500000.

Example hour_floor_old_utc :
  hour_floor_old utc witness_A9 = Ok (mkdt 2021 3 14 2 0 0 0).
Proof. vm_compute. reflexivity. Qed.
Example hour_floor_old_kolkata :
  hour_floor_old kolkata witness_A9 = Ok (mkdt 2021 3 14 2 30 0 0).
Proof. vm_compute. reflexivity. Qed.

Theorem hour_floor_old_zone_dependent :
  exists tz t, valid t /\ hour_floor_old tz t <> hour_floor_old utc t.
Proof.
  exists kolkata, witness_A9. split; [reflexivity|].
  rewrite hour_floor_old_utc, hour_floor_old_kolkata. discriminate.
Qed.

(* the repaired floor gives 02:00 whatever the zone *)
Example hour_floor_now :
  iv_floor iv_hour witness_A9 = Ok (mkdt 2021 3 14 2 0 0 0).
Proof. vm_compute. reflexivity. Qed.

(* ---------- (2) ------------------------------------------------------------- *)
(* daysThisMonth = lambda x: (x.replace(month=x.month % 12 + 1, day=1) - timedelta(days=1)).day *)
Definition days_this_month_old (x : dt) : res Z :=
  rbind (replace_month_day x (dt_mo x mod 12 + 1) 1) (fun f =>
  rbind (add_us f (- US_DAY)) (fun l => Ok (dt_d l))).

(* nday = date.day + offset; ndaysthismonth = daysThisMonth(date); ndate = date
   while nday > ndaysthismonth:
       ndate = d3_time_month_offset(date, 1)      # sic: date, not ndate
       nday -= ndaysthismonth; ndaysthismonth = daysThisMonth(ndate)
   ndate = ndate.replace(day=nday) *)
Fixpoint day_offset_loop_old (fuel : nat) (date ndate : dt) (nday ndays : Z) : res (dt * Z) :=
  if nday >? ndays then
    match fuel with
    | O => NoFuel
    | S f =>
        rbind (month_step date 1) (fun nd =>
        rbind (days_this_month_old nd) (fun n' =>
        day_offset_loop_old f date nd (nday - ndays) n'))
    end
  else Ok (ndate, nday).

Definition day_offset_old (date : dt) (offset : Z) : res dt :=
  rbind (days_this_month_old date) (fun n =>
  rbind (day_offset_loop_old (Z.to_nat (Z.abs offset / 28 + 2)) date date (dt_d date + offset) n)
        (fun p => replace_day (fst p) (snd p))).

(* inside a month the old code was right ... *)
Example day_offset_old_inside :
  day_offset_old (mkdt 2084 8 30 0 0 0 0) 1 = Ok (mkdt 2084 8 31 0 0 0 0).
Proof. vm_compute. reflexivity. Qed.

(* ... across the 31st it raised (A.7: d3_time['day'].offset(datetime(2084,8,31), 1)),
   where the k-th following day boundary exists and the repaired step finds it *)
Theorem day_offset_old_raises :
  day_offset_old (mkdt 2084 8 31 0 0 0 0) 1 = Raise /\
  iv_offset iv_day (mkdt 2084 8 31 0 0 0 0) 1 = Ok (mkdt 2084 9 1 0 0 0 0).
Proof. vm_compute. split; reflexivity. Qed.
