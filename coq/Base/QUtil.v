(* Python numeric primitives over exact rationals (DESIGN.md section 4).
   Model file: definitions only; proofs are in Base/QUtilProofs.v. *)
From Coq Require Import ZArith QArith Qround List Bool.
Import ListNotations.
Open Scope Q_scope.

(* strict comparison as a boolean (cross-multiplication, no division) *)
Definition Qltb (a b : Q) : bool := negb (Qle_bool b a).

(* Python 3 `round(x)` on a float: nearest integer, ties to the even one *)
Definition pyround (q : Q) : Z :=
  let f := Qfloor q in
  match Qcompare (q - inject_Z f) (1 # 2) with
  | Lt => f
  | Gt => (f + 1)%Z
  | Eq => if Z.even f then f else (f + 1)%Z
  end.

(* Python `int(x)` / `%i`: truncation toward zero *)
Definition trunc (q : Q) : Z := if Qle_bool 0 q then Qfloor q else Qceiling q.

Definition Qabs' (q : Q) : Q := if Qle_bool 0 q then q else - q.

(* sums over lists *)
Definition Qsum (l : list Q) : Q := fold_right Qplus 0 l.

(* pointwise combination of two lists (truncates to the shorter one) *)
Fixpoint map2 {A B C} (f : A -> B -> C) (l : list A) (m : list B) : list C :=
  match l, m with
  | a :: l', b :: m' => f a b :: map2 f l' m'
  | _, _ => []
  end.

(* nth with default 0, the only default used in statements about positions *)
Definition qnth (i : nat) (l : list Q) : Q := nth i l 0.

(* the sub-list l[i..j) *)
Definition slice {A} (i j : nat) (l : list A) : list A := firstn (j - i) (skipn i l).
