(* Proofs about Base/QUtil.v. *)
From Coq Require Import ZArith QArith Qround Qabs List Bool Lia Lqa.
From Labella Require Import Base.QUtil.
Import ListNotations.
Open Scope Q_scope.

(* ---------- boolean comparisons ---------------------------------------- *)

Lemma Qltb_lt a b : Qltb a b = true <-> a < b.
Proof.
  unfold Qltb. rewrite negb_true_iff. split; intro H.
  - apply Qnot_le_lt. intro L. apply Qle_bool_iff in L. congruence.
  - destruct (Qle_bool b a) eqn:E; [|reflexivity].
    apply Qle_bool_iff in E. exfalso. exact (Qlt_not_le _ _ H E).
Qed.

Lemma Qltb_ge a b : Qltb a b = false <-> b <= a.
Proof.
  unfold Qltb. rewrite negb_false_iff. apply Qle_bool_iff.
Qed.

(* ---------- floor ------------------------------------------------------ *)

Lemma floor_spec q : inject_Z (Qfloor q) <= q /\ q < inject_Z (Qfloor q) + 1.
Proof.
  split; [apply Qfloor_le|].
  pose proof (Qlt_floor q) as H. rewrite inject_Z_plus in H. exact H.
Qed.

Lemma inject_Z_lt_1 a b : inject_Z a < inject_Z b + 1 -> (a <= b)%Z.
Proof.
  intro H. change 1 with (inject_Z 1) in H.
  rewrite <- inject_Z_plus in H. rewrite <- Zlt_Qlt in H. lia.
Qed.

Lemma floor_unique q z : inject_Z z <= q -> q < inject_Z z + 1 -> Qfloor q = z.
Proof.
  intros H1 H2. destruct (floor_spec q) as [F1 F2].
  assert (A : (z <= Qfloor q)%Z) by (apply inject_Z_lt_1; lra).
  assert (B : (Qfloor q <= z)%Z) by (apply inject_Z_lt_1; lra).
  lia.
Qed.

Lemma floor_inject z : Qfloor (inject_Z z) = z.
Proof. apply floor_unique; lra. Qed.

(* ---------- pyround ---------------------------------------------------- *)

Lemma inject_Z_succ z : inject_Z (z + 1) == inject_Z z + 1.
Proof. rewrite inject_Z_plus. reflexivity. Qed.

Lemma pyround_cases q :
  let f := Qfloor q in
  (q - inject_Z f < 1 # 2 /\ pyround q = f) \/
  (q - inject_Z f > 1 # 2 /\ pyround q = (f + 1)%Z) \/
  (q - inject_Z f == 1 # 2 /\ pyround q = if Z.even f then f else (f + 1)%Z).
Proof.
  intro f. unfold pyround. fold f.
  destruct (Qcompare (q - inject_Z f) (1 # 2)) eqn:E.
  - right; right. split; [apply Qeq_alt; exact E|reflexivity].
  - left. split; [apply Qlt_alt; exact E|reflexivity].
  - right; left. split; [apply Qgt_alt; exact E|reflexivity].
Qed.

Lemma pyround_near q : - (1 # 2) <= inject_Z (pyround q) - q <= 1 # 2.
Proof.
  destruct (floor_spec q) as [F1 F2].
  destruct (pyround_cases q) as [[H E]|[[H E]|[H E]]]; rewrite E.
  - lra.
  - rewrite inject_Z_succ. lra.
  - destruct (Z.even (Qfloor q)); [|rewrite inject_Z_succ]; lra.
Qed.

Lemma pyround_abs q : Qabs (inject_Z (pyround q) - q) <= 1 # 2.
Proof. apply Qabs_Qle_condition. apply pyround_near. Qed.

Lemma pyround_comp q q' : q == q' -> pyround q = pyround q'.
Proof.
  intro H. unfold pyround. rewrite (Qfloor_comp _ _ H).
  assert (E : Qcompare (q - inject_Z (Qfloor q')) (1 # 2) = Qcompare (q' - inject_Z (Qfloor q')) (1 # 2)).
  { apply Qcompare_comp; [rewrite H; reflexivity|reflexivity]. }
  rewrite E. reflexivity.
Qed.

Add Parametric Morphism : pyround with signature Qeq ==> eq as pyround_morph.
Proof. exact pyround_comp. Qed.

Lemma pyround_inject z : pyround (inject_Z z) = z.
Proof.
  unfold pyround. rewrite floor_inject.
  assert (E : Qcompare (inject_Z z - inject_Z z) (1 # 2) = Lt).
  { apply Qlt_alt. setoid_replace (inject_Z z - inject_Z z) with 0 by ring. reflexivity. }
  rewrite E. reflexivity.
Qed.

Lemma pyround_mono q q' : q <= q' -> (pyround q <= pyround q')%Z.
Proof.
  intro H.
  destruct (Z_le_gt_dec (pyround q) (pyround q')) as [L|G]; [exact L|exfalso].
  assert (G' : inject_Z (pyround q') + 1 <= inject_Z (pyround q)).
  { change 1 with (inject_Z 1). rewrite <- inject_Z_plus. rewrite <- Zle_Qle. lia. }
  pose proof (pyround_near q) as N. pose proof (pyround_near q') as N'.
  assert (E : q == q') by lra.
  apply pyround_comp in E. lia.
Qed.

(* the slack the rounding can cost between two positions *)
Lemma pyround_diff x y c : y - x >= c ->
  inject_Z (pyround y) - inject_Z (pyround x) >= c - 1.
Proof.
  intro H. pose proof (pyround_near x). pose proof (pyround_near y). lra.
Qed.

(* ---------- trunc ------------------------------------------------------ *)

Lemma ceiling_spec q : inject_Z (Qceiling q) - 1 < q /\ q <= inject_Z (Qceiling q).
Proof.
  split; [|apply Qle_ceiling].
  pose proof (Qceiling_lt q) as H. unfold Z.sub in H. rewrite inject_Z_plus in H.
  change (inject_Z (- (1))) with (- (1)) in H. lra.
Qed.

Lemma trunc_near q : Qabs (inject_Z (trunc q) - q) < 1.
Proof.
  unfold trunc. destruct (Qle_bool 0 q) eqn:E.
  - destruct (floor_spec q). apply Qabs_Qlt_condition. lra.
  - destruct (ceiling_spec q). apply Qabs_Qlt_condition. lra.
Qed.

Lemma trunc_inject z : trunc (inject_Z z) = z.
Proof.
  unfold trunc. destruct (Qle_bool 0 (inject_Z z)); [apply floor_inject|].
  unfold Qceiling. rewrite <- inject_Z_opp, floor_inject. lia.
Qed.

Lemma trunc_mono q q' : q <= q' -> (trunc q <= trunc q')%Z.
Proof.
  intro H. unfold trunc.
  destruct (Qle_bool 0 q) eqn:E; destruct (Qle_bool 0 q') eqn:E'.
  - apply Qfloor_resp_le; exact H.
  - apply Qle_bool_iff in E. exfalso.
    assert (X : Qle_bool 0 q' = true) by (apply Qle_bool_iff; lra). congruence.
  - (* q < 0 <= q' *)
    apply Qle_bool_iff in E'.
    assert (Q0 : q < 0).
    { apply Qnot_le_lt. intro L. apply Qle_bool_iff in L. congruence. }
    destruct (ceiling_spec q) as [C1 C2]. destruct (floor_spec q') as [F1 F2].
    assert (A : (Qceiling q <= 0)%Z) by (apply inject_Z_lt_1; change (inject_Z 0) with 0; lra).
    assert (B : (0 <= Qfloor q')%Z) by (apply inject_Z_lt_1; change (inject_Z 0) with 0; lra).
    lia.
  - apply Qceiling_resp_le; exact H.
Qed.

(* ---------- sums ------------------------------------------------------- *)

Lemma Qsum_cons a l : Qsum (a :: l) = a + Qsum l.
Proof. reflexivity. Qed.

Lemma Qsum_nil : Qsum [] = 0.
Proof. reflexivity. Qed.

Lemma Qsum_app l m : Qsum (l ++ m) == Qsum l + Qsum m.
Proof.
  induction l as [|a l IH].
  - rewrite Qsum_nil. change ([] ++ m) with m. lra.
  - change ((a :: l) ++ m) with (a :: (l ++ m)). rewrite !Qsum_cons, IH. lra.
Qed.

Lemma Qsum_nonneg l : Forall (fun x => 0 <= x) l -> 0 <= Qsum l.
Proof.
  induction 1 as [|a l Ha _ IH]; [rewrite Qsum_nil; lra|].
  rewrite Qsum_cons. lra.
Qed.

Lemma map2_length {A B C} (f : A -> B -> C) l m :
  length (map2 f l m) = Nat.min (length l) (length m).
Proof.
  revert m. induction l as [|a l IH]; intros [|b m]; cbn [map2 length]; try reflexivity.
  rewrite IH. reflexivity.
Qed.

Lemma map2_nth {A B C} (f : A -> B -> C) l m i da db dc :
  (i < length l)%nat -> (i < length m)%nat ->
  nth i (map2 f l m) dc = f (nth i l da) (nth i m db).
Proof.
  revert m i. induction l as [|a l IH]; intros [|b m] [|i] Hl Hm; cbn in *; try lia; try reflexivity.
  apply IH; lia.
Qed.
