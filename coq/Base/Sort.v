(* Python's `list.sort(key=...)` / `sorted`: a stable sort.  Modelled by a
   stable insertion sort on a rational key.  Model file (no proofs); the
   proofs (Permutation, Sorted, stability) are in Base/SortProofs.v. *)
From Coq Require Import QArith List Bool.
From Labella Require Import Base.QUtil.
Import ListNotations.

Section Sort.
  Variable A : Type.
  Variable key : A -> Q.

  (* x goes in front of the first element whose key is not smaller: an element
     inserted later from the left stays in front of its equals *)
  Fixpoint insert (x : A) (l : list A) : list A :=
    match l with
    | [] => [x]
    | y :: r => if Qltb (key y) (key x) then y :: insert x r else x :: l
    end.

  Fixpoint sort_by (l : list A) : list A :=
    match l with
    | [] => []
    | x :: r => insert x (sort_by r)
    end.
End Sort.
Arguments insert {A} key x l.
Arguments sort_by {A} key l.
