(* Proofs about Base/Sort.v: the result is a permutation, is sorted by key,
   and elements with equal keys keep their relative order (stability). *)
From Coq Require Import QArith List Bool Sorting.Permutation Sorting.Sorted Lia Lqa.
From Labella Require Import Base.QUtil Base.QUtilProofs Base.Sort.
Import ListNotations.
Open Scope Q_scope.

Section SortProofs.
  Variable A : Type.
  Variable key : A -> Q.

  Definition key_le (a b : A) : Prop := key a <= key b.

  Lemma insert_perm x l : Permutation (x :: l) (insert key x l).
  Proof.
    induction l as [|y r IH]; cbn [insert]; [apply Permutation_refl|].
    destruct (Qltb (key y) (key x)).
    - eapply perm_trans; [apply perm_swap|]. apply perm_skip. exact IH.
    - apply Permutation_refl.
  Qed.

  Theorem sort_perm l : Permutation l (sort_by key l).
  Proof.
    induction l as [|x r IH]; cbn [sort_by]; [apply perm_nil|].
    eapply perm_trans; [apply perm_skip; exact IH|apply insert_perm].
  Qed.

  Lemma sort_length l : length (sort_by key l) = length l.
  Proof. symmetry. apply Permutation_length, sort_perm. Qed.

  Lemma insert_hdrel x a l : key_le a x -> HdRel key_le a l -> HdRel key_le a (insert key x l).
  Proof.
    intros Hax H. destruct l as [|y r]; cbn [insert]; [constructor; exact Hax|].
    destruct (Qltb (key y) (key x)); constructor; [inversion H; assumption|exact Hax].
  Qed.

  Lemma insert_sorted x l : Sorted key_le l -> Sorted key_le (insert key x l).
  Proof.
    induction 1 as [|y r Hr IH Hy]; cbn [insert]; [repeat constructor|].
    destruct (Qltb (key y) (key x)) eqn:E.
    - constructor; [exact IH|]. apply insert_hdrel; [|exact Hy].
      apply Qltb_lt in E. unfold key_le. lra.
    - apply Qltb_ge in E. constructor; [constructor; assumption|constructor; exact E].
  Qed.

  Theorem sort_sorted l : Sorted key_le (sort_by key l).
  Proof.
    induction l as [|x r IH]; cbn [sort_by]; [constructor|apply insert_sorted; exact IH].
  Qed.

  Lemma key_le_trans : Relations_1.Transitive key_le.
  Proof. intros a b c H1 H2. unfold key_le in *. lra. Qed.

  Theorem sort_strongly_sorted l : StronglySorted key_le (sort_by key l).
  Proof. apply Sorted_StronglySorted; [exact key_le_trans|apply sort_sorted]. Qed.

  (* stability: for every key value k, the sub-sequence of elements with key
     k is the same before and after sorting *)
  Definition has_key (k : Q) (a : A) : bool := Qeq_bool (key a) k.

  Lemma insert_filter_other k x l : has_key k x = false ->
    filter (has_key k) (insert key x l) = filter (has_key k) l.
  Proof.
    intro H. induction l as [|y r IH]; cbn [insert filter]; [rewrite H; reflexivity|].
    destruct (Qltb (key y) (key x)); cbn [filter]; [rewrite IH|rewrite H]; reflexivity.
  Qed.

  Lemma insert_filter_same k x l : has_key k x = true -> Sorted key_le l ->
    filter (has_key k) (insert key x l) = x :: filter (has_key k) l.
  Proof.
    intros H S. apply Sorted_StronglySorted in S; [|exact key_le_trans].
    induction S as [|y r Sr IH Hy]; cbn [insert filter]; [rewrite H; reflexivity|].
    destruct (Qltb (key y) (key x)) eqn:E; cbn [filter].
    - apply Qltb_lt in E.
      assert (N : has_key k y = false).
      { unfold has_key in *. apply Qeq_bool_iff in H.
        destruct (Qeq_bool (key y) k) eqn:F; [|reflexivity].
        apply Qeq_bool_iff in F. exfalso. lra. }
      rewrite N, IH. reflexivity.
    - rewrite H. reflexivity.
  Qed.

  Theorem sort_stable k l :
    filter (has_key k) (sort_by key l) = filter (has_key k) l.
  Proof.
    induction l as [|x r IH]; cbn [sort_by filter]; [reflexivity|].
    destruct (has_key k x) eqn:E.
    - rewrite insert_filter_same; [rewrite IH; reflexivity|exact E|apply sort_sorted].
    - rewrite insert_filter_other; [exact IH|exact E].
  Qed.

  (* sorting a sorted list changes nothing (Python: re-sorting is idempotent) *)
  Lemma insert_head_sorted x l : HdRel key_le x l -> insert key x l = x :: l.
  Proof.
    intro H. destruct l as [|y r]; cbn [insert]; [reflexivity|].
    inversion H as [|? ? Hxy]; subst.
    assert (E : Qltb (key y) (key x) = false) by (apply Qltb_ge; exact Hxy).
    rewrite E. reflexivity.
  Qed.

  Theorem sort_sorted_id l : Sorted key_le l -> sort_by key l = l.
  Proof.
    induction 1 as [|x r Hr IH Hx]; cbn [sort_by]; [reflexivity|].
    rewrite IH. apply insert_head_sorted. exact Hx.
  Qed.

  Lemma sort_in x l : In x (sort_by key l) <-> In x l.
  Proof.
    split; intro H.
    - eapply Permutation_in; [apply Permutation_sym, sort_perm|exact H].
    - eapply Permutation_in; [apply sort_perm|exact H].
  Qed.
End SortProofs.

(* sorting commutes with a projection: sorting tagged elements (e.g. pairs
   (index, item)) by the key of the projection and then projecting is sorting
   the projections -- lets a client keep identities through `sort_by` *)
Lemma insert_map {A B} (f : B -> A) (key : A -> Q) x l :
  map f (insert (fun b => key (f b)) x l) = insert key (f x) (map f l).
Proof.
  induction l as [|y r IH]; cbn [insert map]; [reflexivity|].
  destruct (Qltb (key (f y)) (key (f x))); cbn [map]; [rewrite IH|]; reflexivity.
Qed.

Theorem sort_map {A B} (f : B -> A) (key : A -> Q) l :
  map f (sort_by (fun b => key (f b)) l) = sort_by key (map f l).
Proof.
  induction l as [|x r IH]; cbn [sort_by map]; [reflexivity|].
  rewrite insert_map, IH. reflexivity.
Qed.
