(* Proofs about coq/Render/Geometry.v: truncation, max, box placement
   (C08) and link paths (C07_link). *)
From Coq Require Import ZArith QArith Qabs Lia Lqa List Bool.
From Labella Require Import Render.Geometry.
Import ListNotations.
Open Scope Q_scope.

(* lra does not interpret division: x / 2 is x * (1#2) *)
Ltac qhalf := unfold Qdiv in *; change (/ 2) with (1#2) in *.

(* ---------- trunc ---------------------------------------------------------- *)
Lemma trunc_bounds (q : Q) :
  (0 <= q -> inject_Z (trunc q) <= q /\ q < inject_Z (trunc q) + 1) /\
  (q <= 0 -> q <= inject_Z (trunc q) /\ inject_Z (trunc q) - 1 < q).
Proof.
  destruct q as [n d]. unfold trunc, Qle, Qlt, inject_Z, Qminus, Qplus, Qopp; cbn [Qnum Qden].
  rewrite ?Pos.mul_1_r, ?Pos.mul_1_l.
  pose proof (Z.quot_rem' n (Zpos d)) as E.
  remember (n ÷ Z.pos d)%Z as k. remember (Z.rem n (Z.pos d)) as r.
  assert (0 < Z.pos d)%Z as Dp by lia.
  remember (Z.pos d) as D.
  split; intro Hs.
  - assert (0 <= n)%Z as Hn by lia.
    pose proof (Z.rem_bound_pos n D Hn Dp) as B. rewrite <- Heqr in B.
    clear Heqk Heqr HeqD. split; nia.
  - assert (n <= 0)%Z as Hn by lia.
    pose proof (Z.rem_bound_pos_neg n D Dp Hn) as B. rewrite <- Heqr in B.
    clear Heqk Heqr HeqD. split; nia.
Qed.

(* truncation is toward zero ... *)
Lemma trunc_nonneg q : 0 <= q -> 0 <= inject_Z (trunc q) /\ inject_Z (trunc q) <= q /\ q < inject_Z (trunc q) + 1.
Proof.
  intro H. destruct (proj1 (trunc_bounds q) H) as [A B]. repeat split; try assumption.
  destruct q as [n d]. unfold trunc, Qle, inject_Z in *; cbn [Qnum Qden] in *.
  assert (0 <= n)%Z by lia. pose proof (Z.quot_pos n (Zpos d) H0 ltac:(lia)). lia.
Qed.
Lemma trunc_nonpos q : q <= 0 -> inject_Z (trunc q) <= 0 /\ q <= inject_Z (trunc q) /\ inject_Z (trunc q) - 1 < q.
Proof.
  intro H. destruct (proj2 (trunc_bounds q) H) as [A B]. repeat split; try assumption.
  destruct q as [n d]. unfold trunc, Qle, inject_Z in *; cbn [Qnum Qden] in *.
  assert (n <= 0)%Z by lia.
  pose proof (Z.quot_opp_l n (Zpos d) ltac:(lia)) as E.
  pose proof (Z.quot_pos (- n) (Zpos d) ltac:(lia) ltac:(lia)). lia.
Qed.
(* ... and moves a value by less than one *)
Lemma trunc_lt_succ q : inject_Z (trunc q) < q + 1.
Proof.
  destruct (Qlt_le_dec q 0) as [H|H].
  - destruct (trunc_nonpos q (Qlt_le_weak _ _ H)) as (A & B & C). lra.
  - destruct (trunc_nonneg q H) as (A & B & C). lra.
Qed.
Lemma trunc_gt_pred q : q - 1 < inject_Z (trunc q).
Proof.
  destruct (Qlt_le_dec q 0) as [H|H].
  - destruct (trunc_nonpos q (Qlt_le_weak _ _ H)) as (A & B & C). lra.
  - destruct (trunc_nonneg q H) as (A & B & C). lra.
Qed.
Lemma trunc_abs q : Qabs (inject_Z (trunc q) - q) < 1.
Proof.
  pose proof (trunc_lt_succ q). pose proof (trunc_gt_pred q).
  apply Qabs_Qlt_condition. split; lra.
Qed.

(* ---------- max_list -------------------------------------------------------- *)
Lemma qmax_spec m x : m <= qmax m x /\ x <= qmax m x /\ (qmax m x = m \/ qmax m x = x).
Proof.
  unfold qmax. destruct (Qle_bool x m) eqn:E.
  - apply Qle_bool_iff in E. repeat split; try lra. now left.
  - assert (~ x <= m) as N by (intro A; apply Qle_bool_iff in A; congruence).
    apply Qnot_le_lt in N. repeat split; try lra. now right.
Qed.

Lemma max_from_ge l : forall m, m <= max_from m l /\ (forall x, In x l -> x <= max_from m l).
Proof.
  induction l as [|y r IH]; intro m; cbn [max_from].
  - split; [lra | intros x []].
  - destruct (IH (qmax m y)) as [A B]. destruct (qmax_spec m y) as (P & Q0 & _).
    split; [lra|]. intros x [->|Hx]; [lra | now apply B].
Qed.
Lemma max_from_in l : forall m, max_from m l = m \/ In (max_from m l) l.
Proof.
  induction l as [|y r IH]; intro m; cbn [max_from].
  - now left.
  - destruct (IH (qmax m y)) as [E|E].
    + destruct (qmax_spec m y) as (_ & _ & [F|F]); rewrite E, F; [now left | right; now left].
    + right; now right.
Qed.
Lemma max_list_ge l x : In x l -> x <= max_list l.
Proof.
  destruct l as [|y r]; [intros []|]. cbn [max_list].
  destruct (max_from_ge r y) as [A B]. intros [->|H]; [exact A | now apply B].
Qed.
Lemma max_list_in l : l <> [] -> In (max_list l) l.
Proof.
  destruct l as [|y r]; [congruence|]. intros _. cbn [max_list].
  destruct (max_from_in r y) as [E|E]; [rewrite E; now left | now right].
Qed.
Lemma max_list_const l c : l <> [] -> (forall x, In x l -> x == c) -> max_list l == c.
Proof. intros N H. apply H. now apply max_list_in. Qed.

Lemma thick_le_node_height d ls l : In l ls -> l_thick d l <= node_height d ls.
Proof. intro H. apply max_list_ge. now apply in_map. Qed.

(* ---------- layers ----------------------------------------------------------- *)
Lemma l_layer_nonneg l : l_chain l <> [] -> (0 <= l_layer l)%Z.
Proof. unfold l_layer. destruct (l_chain l); [congruence|]. cbn [length]. lia. Qed.

Lemma layer_pos_ge G H k : 0 <= G -> 0 <= H -> (0 <= k)%Z -> G <= layer_pos G H k.
Proof.
  intros HG HH Hk. unfold layer_pos.
  assert (0 <= inject_Z k) by (unfold inject_Z, Qle; cbn; lia).
  nra.
Qed.
Lemma layer_pos_step G H k k' : 0 <= G -> 0 <= H -> (k < k')%Z ->
  layer_pos G H k + G + H <= layer_pos G H k'.
Proof.
  intros HG HH Hk. unfold layer_pos.
  assert (inject_Z k + 1 <= inject_Z k') as E.
  { assert (k + 1 <= k')%Z as E by lia. rewrite Zle_Qle in E. rewrite inject_Z_plus in E. exact E. }
  nra.
Qed.

(* ---------- the drawn box, direction by direction ---------------------------- *)
(* extent along the axis and distance from the axis (toward the label side) *)
Definition along_lo (d : direction) (r : rect) : Q := if sideways d then ry r else rx r.
Definition along_hi (d : direction) (r : rect) : Q := if sideways d then ry r + rh r else rx r + rw r.
Definition cross_near (d : direction) (r : rect) : Q :=
  match d with Right => rx r | Left => - (rx r + rw r) | Down => ry r | Up => - (ry r + rh r) end.
Definition cross_far (d : direction) (r : rect) : Q :=
  match d with Right => rx r + rw r | Left => - rx r | Down => ry r + rh r | Up => - ry r end.

Definition rect_disjoint (a b : rect) : Prop :=
  rx a + rw a < rx b \/ rx b + rw b < rx a \/ ry a + rh a < ry b \/ ry b + rh b < ry a.

(* what property C01 guarantees for two labels of one layer, a before b *)
Definition separated (d : direction) (nodeSp : Q) (a b : label) : Prop :=
  (l_width d a + l_width d b) / 2 + nodeSp - 1 <= inject_Z (l_cur b) - inject_Z (l_cur a).

(* origin of the box before truncation, in along/cross roles *)
Lemma origin_along d G H l :
  (if sideways d then snd (label_origin d G H l) else fst (label_origin d G H l))
  == inject_Z (l_cur l) - l_width d l / 2.
Proof. destruct d; cbn; lra. Qed.

Lemma same_layer_along d G H nodeSp a b :
  3 <= nodeSp -> separated d nodeSp a b ->
  along_hi d (label_box d G H a) < along_lo d (label_box d G H b).
Proof.
  intros Hs Sep. unfold separated in Sep.
  pose proof (origin_along d G H a) as Oa. pose proof (origin_along d G H b) as Ob.
  unfold along_hi, along_lo, label_box, tpoint; cbn [rx ry rw rh fst snd].
  destruct (sideways d) eqn:Sd; unfold l_width in *; rewrite Sd in *.
  - pose proof (trunc_lt_succ (snd (label_origin d G H a))).
    pose proof (trunc_gt_pred (snd (label_origin d G H b))). qhalf. lra.
  - pose proof (trunc_lt_succ (fst (label_origin d G H a))).
    pose proof (trunc_gt_pred (fst (label_origin d G H b))). qhalf. lra.
Qed.

(* the cross coordinate of the untruncated origin *)
Lemma origin_cross d G H l :
  match d with
  | Right => fst (label_origin d G H l) == layer_pos G H (l_layer l)
  | Left => fst (label_origin d G H l) == - layer_pos G H (l_layer l) - l_w l
  | Down => snd (label_origin d G H l) == layer_pos G H (l_layer l)
  | Up => snd (label_origin d G H l) == - layer_pos G H (l_layer l) - H
  end.
Proof. destruct d; cbn; lra. Qed.

Section Side.
  Variables (d : direction) (G H : Q) (l : label).
  Hypothesis HG : 0 <= G.
  Hypothesis HH : 0 <= H.
  Hypothesis Hch : l_chain l <> [].
  Hypothesis Hw : 0 <= l_w l.
  Hypothesis Hth : l_thick d l <= H.

  Let P := layer_pos G H (l_layer l).
  Lemma P_ge : G <= P.
  Proof. apply layer_pos_ge; auto. now apply l_layer_nonneg. Qed.

  (* near edge: more than pos - 1 from the axis; far edge: at most pos + H *)
  Lemma box_cross_bounds :
    P - 1 < cross_near d (label_box d G H l) /\ cross_far d (label_box d G H l) <= P + H.
  Proof.
    pose proof P_ge as PG. pose proof (origin_cross d G H l) as O. fold P in O.
    unfold cross_near, cross_far, label_box, tpoint; cbn [rx ry rw rh fst snd].
    unfold l_thick in Hth.
    destruct d; cbn [sideways] in Hth.
    - (* Up *) set (q := snd (label_origin Up G H l)) in *.
      assert (q <= 0) as Q0 by lra.
      destruct (trunc_nonpos q Q0) as (A & B & C). split; lra.
    - (* Down *) set (q := snd (label_origin Down G H l)) in *.
      assert (0 <= q) as Q0 by lra.
      destruct (trunc_nonneg q Q0) as (A & B & C). split; lra.
    - (* Left *) set (q := fst (label_origin Left G H l)) in *.
      assert (q <= 0) as Q0 by lra.
      destruct (trunc_nonpos q Q0) as (A & B & C). split; lra.
    - (* Right *) set (q := fst (label_origin Right G H l)) in *.
      assert (0 <= q) as Q0 by lra.
      destruct (trunc_nonneg q Q0) as (A & B & C). split; lra.
  Qed.

  Lemma box_side : G - 1 < cross_near d (label_box d G H l).
  Proof. pose proof P_ge. destruct box_cross_bounds. lra. Qed.
End Side.

Lemma box_layers d G H a b :
  1 <= G -> 0 <= H ->
  l_chain a <> [] -> l_chain b <> [] ->
  0 <= l_w a -> 0 <= l_h a -> 0 <= l_w b -> 0 <= l_h b ->
  l_thick d a <= H -> l_thick d b <= H ->
  (l_layer a < l_layer b)%Z ->
  cross_far d (label_box d G H a) < cross_near d (label_box d G H b).
Proof.
  intros HG HH Ca Cb Wa Ha Wb Hb Ta Tb Lt.
  assert (0 <= G) as HG0 by lra.
  destruct (box_cross_bounds d G H a HG0 HH Ca Wa Ta) as [_ Fa].
  destruct (box_cross_bounds d G H b HG0 HH Cb Wb Tb) as [Nb _].
  pose proof (layer_pos_step G H _ _ HG0 HH Lt). lra.
Qed.

Lemma along_disjoint d a b : along_hi d a < along_lo d b -> rect_disjoint a b.
Proof. unfold along_hi, along_lo, rect_disjoint. destruct (sideways d); intro; auto. Qed.
Lemma along_disjoint' d a b : along_hi d b < along_lo d a -> rect_disjoint a b.
Proof. unfold along_hi, along_lo, rect_disjoint. destruct (sideways d); intro; auto. Qed.
Lemma cross_disjoint d a b : cross_far d a < cross_near d b -> rect_disjoint a b.
Proof. unfold cross_far, cross_near, rect_disjoint. destruct d; intro; [right;right;right|right;right;left|right;left|left]; lra. Qed.
Lemma cross_disjoint' d a b : cross_far d b < cross_near d a -> rect_disjoint a b.
Proof. unfold cross_far, cross_near, rect_disjoint. destruct d; intro; [right;right;left|right;right;right|left|right;left]; lra. Qed.

(* well-formed label lists: what get_nodes and the engine always produce *)
Definition label_wf (l : label) : Prop := l_chain l <> [] /\ 0 <= l_w l /\ 0 <= l_h l.

Lemma node_height_nonneg d ls l : In l ls -> label_wf l -> 0 <= node_height d ls.
Proof.
  intros I (_ & W & Hh). pose proof (thick_le_node_height d ls l I) as T.
  unfold l_thick in T. destruct (sideways d); lra.
Qed.

Theorem boxes_disjoint d G nodeSp ls :
  3 <= nodeSp -> 1 <= G ->
  (forall l, In l ls -> label_wf l) ->
  (forall i j a b, nth_error ls i = Some a -> nth_error ls j = Some b -> i <> j ->
     l_layer a = l_layer b -> separated d nodeSp a b \/ separated d nodeSp b a) ->
  forall i j a b, nth_error ls i = Some a -> nth_error ls j = Some b -> i <> j ->
    rect_disjoint (label_box d G (node_height d ls) a) (label_box d G (node_height d ls) b).
Proof.
  intros Hs HG Wf Sep i j a b Ea Eb Ne.
  assert (In a ls) as Ia by (eapply nth_error_In; eauto).
  assert (In b ls) as Ib by (eapply nth_error_In; eauto).
  destruct (Wf a Ia) as (Ca & Wa & Ha). destruct (Wf b Ib) as (Cb & Wb & Hb).
  pose proof (node_height_nonneg d ls a Ia (Wf a Ia)) as HH.
  pose proof (thick_le_node_height d ls a Ia) as Ta.
  pose proof (thick_le_node_height d ls b Ib) as Tb.
  destruct (Z.lt_trichotomy (l_layer a) (l_layer b)) as [Lt|[Eq|Gt]].
  - apply (cross_disjoint d). apply box_layers; auto.
  - destruct (Sep i j a b Ea Eb Ne Eq) as [S|S].
    + apply (along_disjoint d). eapply same_layer_along; eauto.
    + apply (along_disjoint' d). eapply same_layer_along; eauto.
  - apply (cross_disjoint' d). apply box_layers; auto.
Qed.

(* ---------- links (C07_link) -------------------------------------------------- *)
Lemma hop_pts_spec d G H level c :
  pt_eq (fst (hop_pts d G H level c)) (side_pt d (layer_pos G H level) (inject_Z c)) /\
  pt_eq (snd (hop_pts d G H level c)) (side_pt d (layer_pos G H level + H) (inject_Z c)).
Proof.
  unfold pt_eq, layer_pos. destruct d; cbn [hop_pts side_pt fst snd];
    rewrite inject_Z_plus; change (inject_Z 1) with 1; repeat split; try reflexivity; ring.
Qed.

Lemma curve_end d p q : step_end (curve d p q) = q /\ step_kind (curve d p q) = KC.
Proof. unfold curve. destruct (sideways d); cbn; auto. Qed.

(* the steps after the initial move are exactly the specified ones *)
Lemma path_from_spec d G H ch : forall level prev,
  Forall2 sig_eq (path_from d prev (hops d G H level ch)) (link_spec d G H level ch).
Proof.
  induction ch as [|c r IH]; intros level prev; cbn [hops path_from link_spec].
  - constructor.
  - destruct (hop_pts d G H level c) as [p1 p2] eqn:E.
    pose proof (hop_pts_spec d G H level c) as [S1 S2]. rewrite E in S1, S2. cbn [fst snd] in S1, S2.
    destruct (curve_end d prev p1) as [Ce Ck].
    constructor.
    + split; cbn [fst snd]; [exact Ck | rewrite Ce; exact S1].
    + destruct r as [|c' r'].
      * cbn [hops]. constructor.
      * specialize (IH (level + 1)%Z p2). cbn [hops] in IH |- *.
        constructor; [split; cbn; [reflexivity | exact S2] | exact IH].
Qed.

(* one continuous path: after the initial move there is no further move *)
Lemma path_from_no_move d prev hs : Forall (fun s => step_kind s <> KM) (path_from d prev hs).
Proof.
  revert prev. induction hs as [|[p1 p2] r IH]; intro prev; cbn [path_from].
  - constructor.
  - constructor.
    + destruct (curve_end d prev p1) as [_ K]. rewrite K. discriminate.
    + destruct r as [|h r']; [constructor|].
      constructor; [cbn; discriminate | apply IH].
Qed.

Definition dsig : kind * point := (KM, (0, 0)).

(* the end of the path: near edge of the label's own layer, at the label's position *)
Lemma link_spec_last d G H ch : forall level, ch <> [] ->
  exists k, last (link_spec d G H level ch) dsig =
            (k, side_pt d (layer_pos G H (level + Z.of_nat (length ch) - 1)) (inject_Z (last ch 0%Z))).
Proof.
  induction ch as [|c r IH]; intros level N; [congruence|].
  destruct r as [|c' r'].
  - exists KC. cbn [link_spec last length]. replace (level + Z.of_nat 1 - 1)%Z with level by lia. reflexivity.
  - destruct (IH (level + 1)%Z ltac:(discriminate)) as [k E]. exists k.
    change (link_spec d G H level (c :: c' :: r')) with
      ((KC, side_pt d (layer_pos G H level) (inject_Z c)) ::
       (KL, side_pt d (layer_pos G H level + H) (inject_Z c)) :: link_spec d G H (level + 1) (c' :: r')).
    assert (link_spec d G H (level + 1) (c' :: r') <> []) as NE by (cbn; discriminate).
    destruct (link_spec d G H (level + 1) (c' :: r')) as [|x xs] eqn:EL; [congruence|].
    change (last (c :: c' :: r') 0%Z) with (last (c' :: r') 0%Z).
    cbn [last] in E |- *. rewrite E.
    replace (level + 1 + Z.of_nat (length (c' :: r')) - 1)%Z
      with (level + Z.of_nat (length (c :: c' :: r')) - 1)%Z by (cbn [length]; lia).
    reflexivity.
Qed.

Lemma Forall2_last {A B} (R : A -> B -> Prop) l1 l2 da db :
  Forall2 R l1 l2 -> l1 <> [] -> R (last l1 da) (last l2 db).
Proof.
  induction 1 as [|x y l1 l2 Rxy F IH]; [congruence|]. intros _.
  destruct F as [|x' y' l1' l2' R' F'].
  - exact Rxy.
  - change (R (last (x' :: l1') da) (last (y' :: l2') db)). apply IH. discriminate.
Qed.

Lemma path_from_nonempty d prev hs : hs <> [] -> path_from d prev hs <> [].
Proof. destruct hs as [|[p1 p2] r]; [congruence|]. cbn. discriminate. Qed.
Lemma hops_nonempty d G H level ch : ch <> [] -> hops d G H level ch <> [].
Proof. destruct ch; [congruence|]. cbn. discriminate. Qed.

Lemma label_path_end d G H l : l_chain l <> [] ->
  pt_eq (path_end (label_path d G H l))
        (side_pt d (layer_pos G H (l_layer l)) (inject_Z (l_cur l))).
Proof.
  intro N. unfold label_path, generate_path, waypoints, path_end; cbn [fst snd].
  set (ss := path_from d (start_pt d (l_ideal l)) (hops d G H 0 (l_chain l))).
  assert (ss <> []) as NE by (apply path_from_nonempty, hops_nonempty, N).
  assert (last (M (start_pt d (l_ideal l)) :: ss) (M (0, 0)) = last ss (M (0, 0))) as EL
    by (destruct ss; [congruence | reflexivity]).
  rewrite EL.
  pose proof (path_from_spec d G H (l_chain l) 0%Z (start_pt d (l_ideal l))) as F. fold ss in F.
  pose proof (Forall2_last _ _ _ (M (0, 0)) dsig F NE) as [_ P].
  destruct (link_spec_last d G H (l_chain l) 0%Z N) as [k E]. rewrite E in P. cbn [snd] in P.
  unfold l_layer, l_cur. replace (Z.of_nat (length (l_chain l)) - 1)%Z
    with (0 + Z.of_nat (length (l_chain l)) - 1)%Z by lia. exact P.
Qed.

Lemma pt_eq_trans p q r : pt_eq p q -> pt_eq q r -> pt_eq p r.
Proof. unfold pt_eq. intros [A B] [C0 D]. split; [rewrite A; exact C0 | rewrite B; exact D]. Qed.

Lemma side_pt_edge_mid d G H l : thickness_ok d H l ->
  pt_eq (side_pt d (layer_pos G H (l_layer l)) (inject_Z (l_cur l)))
        (edge_mid d (label_box_exact d G H l)).
Proof.
  unfold thickness_ok, pt_eq. destruct d; intro T; cbn; qhalf; split; try lra.
Qed.

Theorem link_ends_at_edge_mid d G H l : l_chain l <> [] -> thickness_ok d H l ->
  pt_eq (path_end (label_path d G H l)) (edge_mid d (label_box_exact d G H l)).
Proof.
  intros N T. eapply pt_eq_trans; [apply label_path_end, N | apply side_pt_edge_mid, T].
Qed.

(* without the thickness condition: for `up` the path stops H - h short *)
Theorem link_end_up_general G H l : l_chain l <> [] ->
  let e := path_end (label_path Up G H l) in
  let m := edge_mid Up (label_box_exact Up G H l) in
  fst e == fst m /\ snd e == snd m + (H - l_h l).
Proof.
  intros N e m. destruct (label_path_end Up G H l N) as [A B]. fold e in A, B.
  clearbody e. subst m. cbn in *. qhalf. split; lra.
Qed.

(* the drawn (truncated) box is within one unit *)
Lemma edge_mid_trunc d G H l :
  pt_within1 (edge_mid d (label_box_exact d G H l)) (edge_mid d (label_box d G H l)).
Proof.
  unfold pt_within1, label_box, label_box_exact, tpoint.
  set (o := label_origin d G H l).
  pose proof (trunc_lt_succ (fst o)). pose proof (trunc_gt_pred (fst o)).
  pose proof (trunc_lt_succ (snd o)). pose proof (trunc_gt_pred (snd o)).
  destruct d; cbn [edge_mid rx ry rw rh fst snd]; qhalf;
    split; apply Qabs_Qlt_condition; split; lra.
Qed.

Lemma pt_within1_eq p q r : pt_eq p q -> pt_within1 q r -> pt_within1 p r.
Proof. unfold pt_eq, pt_within1. intros [A B] [C0 D]. rewrite A, B. split; assumption. Qed.

Theorem link_ends_near_drawn_box d G H l : l_chain l <> [] -> thickness_ok d H l ->
  pt_within1 (path_end (label_path d G H l)) (edge_mid d (label_box d G H l)).
Proof.
  intros N T. eapply pt_within1_eq; [apply link_ends_at_edge_mid; assumption | apply edge_mid_trunc].
Qed.

(* explicit widths: for up/down every label built by get_nodes has the same
   height, so the layer thickness equals every label's thickness *)
Lemma node_size_h_vertical d p width t : sideways d = false ->
  snd (node_size d p width t) = item_height + padT p + padB p.
Proof. intro S. unfold node_size, item_size. rewrite S. cbn. reflexivity. Qed.

Theorem thickness_uniform d p ls :
  sideways d = false -> ls <> [] ->
  (forall l, In l ls -> exists width t, (l_w l, l_h l) = node_size d p width t) ->
  forall l, In l ls -> l_h l == node_height d ls.
Proof.
  intros S N B l I.
  assert (forall x, In x ls -> l_h x = item_height + padT p + padB p) as Hc.
  { intros x Ix. destruct (B x Ix) as (w & t & E).
    pose proof (node_size_h_vertical d p w t S) as F. rewrite <- E in F. exact F. }
  unfold node_height. rewrite (max_list_const _ (item_height + padT p + padB p)).
  - rewrite (Hc l I). reflexivity.
  - destruct ls; [congruence | discriminate].
  - intros x Ix. apply in_map_iff in Ix. destruct Ix as (y & <- & Iy).
    unfold l_thick. rewrite S. rewrite (Hc y Iy). reflexivity.
Qed.

(* the whole path of a label: one move to the start point, then exactly the
   specified curves and lines, with no further move *)
Theorem label_path_spec d G H l :
  exists rest, label_path d G H l = M (start_pt d (l_ideal l)) :: rest /\
    Forall (fun st => step_kind st <> KM) rest /\
    Forall2 sig_eq rest (link_spec d G H 0 (l_chain l)).
Proof.
  unfold label_path, generate_path, waypoints; cbn [fst snd].
  eexists; split; [reflexivity|]. split; [apply path_from_no_move | apply path_from_spec].
Qed.

(* ---------- list-level forms used by Props/C08.v ------------------------------ *)
Theorem box_side_list d G ls l :
  0 <= G -> In l ls -> (forall x, In x ls -> label_wf x) ->
  G - 1 < cross_near d (label_box d G (node_height d ls) l) /\
  cross_near d (label_box d G (node_height d ls) l) <= cross_far d (label_box d G (node_height d ls) l).
Proof.
  intros HG I W. destruct (W l I) as (Ch & Ww & Wh). split.
  - apply box_side; auto.
    + eapply node_height_nonneg; eauto.
    + now apply thick_le_node_height.
  - unfold cross_near, cross_far, label_box; destruct d; cbn [rx ry rw rh]; lra.
Qed.

Theorem box_layers_list d G ls a b :
  1 <= G -> In a ls -> In b ls -> (forall x, In x ls -> label_wf x) ->
  (l_layer a < l_layer b)%Z ->
  cross_far d (label_box d G (node_height d ls) a) < cross_near d (label_box d G (node_height d ls) b).
Proof.
  intros HG Ia Ib W Lt.
  destruct (W a Ia) as (Ca & Wa & Ha). destruct (W b Ib) as (Cb & Wb & Hb).
  apply box_layers; auto.
  - eapply node_height_nonneg; eauto.
  - now apply thick_le_node_height.
  - now apply thick_le_node_height.
Qed.

Theorem trunc_facts q :
  Qabs (inject_Z (trunc q) - q) < 1 /\
  (0 <= q -> 0 <= inject_Z (trunc q) /\ inject_Z (trunc q) <= q) /\
  (q <= 0 -> inject_Z (trunc q) <= 0 /\ q <= inject_Z (trunc q)).
Proof.
  split; [apply trunc_abs|]. split; intro Hq.
  - destruct (trunc_nonneg q Hq) as (A & B & _). auto.
  - destruct (trunc_nonpos q Hq) as (A & B & _). auto.
Qed.

(* labels built by get_nodes from non-negative widths and paddings have
   non-negative sizes *)
Theorem node_size_nonneg d p width t :
  0 <= width -> 0 <= padL p -> 0 <= padR p -> 0 <= padT p -> 0 <= padB p ->
  0 <= fst (node_size d p width t) /\ 0 <= snd (node_size d p width t).
Proof.
  intros. unfold node_size, item_size, item_height.
  destruct (sideways d), (text_shown t); cbn [andb fst snd]; split; lra.
Qed.
