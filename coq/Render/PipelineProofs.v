(* Proofs about coq/Render/Pipeline.v: the composition of the axis pipeline
   (AxisProofs), the engine adapter (ComposeProofs) and the two emitters
   (SceneProofs) into statements about the documents that
   TimelineSVG/TimelineTex(data, options).export() produce from the RAW input. *)
From Coq Require Import ZArith NArith QArith Qabs Lia Lqa List Bool Arith Permutation.
From Labella Require Layout.Distribute.
From Labella Require Import Text.Utils Layout.ForceState Layout.Force Layout.ForceStateProofs Layout.ForceProofs.
From Labella Require Import Render.Geometry Render.GeometryProofs Render.Scene Render.SceneProofs
  Render.Axis Render.AxisProofs Render.Compose Render.ComposeProofs Render.Pipeline.
Import ListNotations.
Open Scope Q_scope.

(* ---------- the documented domain, on the raw input ------------------------------- *)
(* Appendix B: a non-empty list of data whose times fit the scale (doc_domain),
   positive explicit widths, non-negative paddings, engine options in their
   documented ranges *)
Definition pipeline_dom (r : raw_in) : Prop :=
  doc_domain (ri_axis r) /\
  (forall d, In d (ri_data r) -> 0 < rd_width d) /\
  0 <= padL (o_pad (ri_opts r)) /\ 0 <= padR (o_pad (ri_opts r)) /\
  0 <= padT (o_pad (ri_opts r)) /\ 0 <= padB (o_pad (ri_opts r)) /\
  0 <= e_spacing (ri_engine r) /\ 0 <= e_stub (ri_engine r) /\ 0 < e_density (ri_engine r) /\
  lineSp_ok (ri_engine r).

(* every colour a used option can yield is a valid code: a constant; every
   entry of a non-empty list; the value of a function option on every datum *)
Definition raw_colours_valid (r : raw_in) : Prop :=
  forall ro, role_used (ri_opts r) ro = true ->
    match opt_col (ri_opts r) ro with
    | CConst c => valid_code c = true
    | CList cs => cs <> [] /\ Forall (fun c => valid_code c = true) cs
    | CFun => forall d, In d (ri_data r) -> valid_code (nth (role_idx ro) (rd_fcols d) []) = true
    end.

(* ---------- unfolding the pipeline --------------------------------------------------- *)
Lemma pipeline_scene_ok r s : pipeline_scene r = AOk s ->
  exists ax, axis (ri_axis r) = AOk ax /\ s = scene_of r ax.
Proof.
  unfold pipeline_scene. intro H. apply abind_ok in H. destruct H as (ax & E & H).
  injection H as <-. eauto.
Qed.

Lemma timeline_docs_ok r ds : timeline_docs r = AOk ds ->
  exists s, pipeline_scene r = AOk s /\ ds = (svg_doc_of s, tikz_doc_of s).
Proof.
  unfold timeline_docs. intro H. apply abind_ok in H. destruct H as (s & E & H).
  injection H as <-. eauto.
Qed.

Theorem pipeline_total r : pipeline_dom r ->
  exists s, pipeline_scene r = AOk s /\ timeline_docs r = AOk (svg_doc_of s, tikz_doc_of s).
Proof.
  intros [D _]. destruct (axis_total _ D) as [ax E].
  exists (scene_of r ax). unfold timeline_docs, pipeline_scene. rewrite E. cbn [abind]. auto.
Qed.

(* ---------- items: datum k of the input is item k of the engine's input -------------- *)
Lemma items_nth (R : tval -> Q -> Prop) : forall data dots,
  Forall2 R (map rd_time data) dots ->
  forall id, (id < length data)%nat ->
  exists dat p, nth_error data id = Some dat /\ nth_error dots id = Some p /\ R (rd_time dat) p /\
    nth id (items_of dots data) tl_item0 = mkTlItem p (rd_width dat) (rd_text dat) (rd_fcols dat).
Proof.
  induction data as [|d data IH]; intros dots F id Hid; [cbn in Hid; lia|].
  cbn [map] in F. inversion F as [|v p vs ps Rvp F']; subst.
  destruct id as [|id].
  - exists d, p. cbn. auto.
  - cbn [length] in Hid. destruct (IH ps F' id ltac:(lia)) as (dat & q & A & B & C & E).
    exists dat, q. cbn [nth_error]. repeat split; try assumption.
Qed.

Lemma items_length (R : tval -> Q -> Prop) data dots :
  Forall2 R (map rd_time data) dots -> length (items_of dots data) = length data.
Proof.
  intro F. unfold items_of. rewrite map_length, combine_length.
  apply F2_length in F. rewrite map_length in F. lia.
Qed.

Lemma items_widths data dots it : In it (items_of dots data) -> exists d, In d data /\ ti_width it = rd_width d.
Proof.
  unfold items_of. intro H. apply in_map_iff in H. destruct H as ([p d] & <- & H).
  apply in_combine_r in H. exists d. split; [exact H|reflexivity].
Qed.

(* the engine's node ids are exactly the data indices, each once *)
Lemma engine_ids_perm d p e its :
  Permutation (map n_id (st_nodes (engine_result d p e its))) (seq 0 (length its)).
Proof.
  unfold engine_result. rewrite layout_fresh.
  eapply Permutation_trans; [apply out_ids_perm|].
  unfold fresh_state. cbn [st_nodes]. rewrite label_nodes_scrub, label_nodes_ids.
  unfold engine_labels. rewrite map_length. apply Permutation_refl.
Qed.

(* ---------- every scene label is the label of exactly one datum ------------------------ *)
Section Scene.
  Variables (r : raw_in) (ax : axis_out).
  Hypothesis Hax : axis (ri_axis r) = AOk ax.

  Let o := ri_opts r.
  Let d := o_dir o.
  Let p := o_pad o.
  Let e := ri_engine r.
  Let data := ri_data r.
  Let its := items_of (ax_dots ax) data.
  Let st := engine_result d p e its.
  Let s := scene_of r ax.
  Let pos_of (dat : raw_datum) : Q := ax_pos ax (coord (parse (ri_today r) (rd_time dat))).

  Lemma dots_F2 : Forall2 (fun v q => q = ax_pos ax (coord (parse (ri_today r) v))) (map rd_time data) (ax_dots ax).
  Proof. exact (proj1 (axis_counts _ _ Hax)). Qed.

  Lemma its_length : length its = length data.
  Proof. exact (items_length _ _ _ dots_F2). Qed.

  Lemma scene_labels_eq : sc_labels s = map (scene_label d p its (reported st)) (st_nodes st).
  Proof. reflexivity. Qed.

  (* the datum of a node *)
  Lemma node_datum nd : In nd (st_nodes st) ->
    exists dat, nth_error data (n_id nd) = Some dat /\
      let l := scene_label d p its (reported st) nd in
      l_ideal l = pos_of dat /\ l_text l = rd_text dat /\ l_fcols l = rd_fcols dat /\
      (l_w l, l_h l) = node_size d p (rd_width dat) (rd_text dat).
  Proof.
    intro H. destruct (out_node_label _ _ _ H) as [Hlt _].
    unfold engine_labels in Hlt. rewrite map_length in Hlt. fold its in Hlt. rewrite its_length in Hlt.
    destruct (items_nth _ data (ax_dots ax) dots_F2 (n_id nd) Hlt) as (dat & q & A & B & C & E).
    destruct (out_node_along d p e its nd H) as [_ Hp].
    exists dat. split; [exact A|]. cbn zeta. unfold scene_label; cbn [l_ideal l_text l_fcols l_w l_h].
    fold its in E. rewrite Hp, E. cbn [ti_pos ti_text ti_fcols]. unfold pos_of.
    split; [exact C|]. split; [reflexivity|]. split; [reflexivity|].
    unfold ti_size. cbn [ti_width ti_text]. destruct (node_size d p (rd_width dat) (rd_text dat)); reflexivity.
  Qed.

  (* one label per datum: the k-th label belongs to datum ids[k], and ids is a
     permutation of all data indices *)
  Theorem labels_per_datum :
    let ids := map n_id (st_nodes st) in
    Permutation ids (seq 0 (length data)) /\
    length (sc_labels s) = length data /\
    forall k l, nth_error (sc_labels s) k = Some l ->
      exists id dat, nth_error ids k = Some id /\ nth_error data id = Some dat /\
        l_ideal l = pos_of dat /\ l_text l = rd_text dat /\ l_fcols l = rd_fcols dat /\
        (l_w l, l_h l) = node_size d p (rd_width dat) (rd_text dat) /\
        l_chain l <> [].
  Proof.
    cbn zeta. split; [|split].
    - rewrite <- its_length. apply engine_ids_perm.
    - rewrite scene_labels_eq, map_length.
      pose proof (Permutation_length (engine_ids_perm d p e its)) as L.
      rewrite map_length, seq_length in L. fold st in L. rewrite L. apply its_length.
    - intros k l E. rewrite scene_labels_eq in E. apply nth_error_map_inv in E.
      destruct E as (nd & End & ->).
      destruct (node_datum nd (nth_error_In _ _ End)) as (dat & A & B).
      exists (n_id nd), dat. split; [apply map_nth_error, End|]. split; [exact A|].
      cbn zeta in B. destruct B as (B1 & B2 & B3 & B4). repeat split; try assumption.
      apply scene_label_chain_nonempty.
  Qed.

  Lemma scene_wf_pipeline : scene_wf s.
  Proof.
    intros l H. change (sc_labels s) with (map (scene_label d p its (reported st)) (st_nodes st)) in H.
    apply in_map_iff in H. destruct H as (nd & <- & _). apply scene_label_chain_nonempty.
  Qed.

  (* explicit widths: the link theorem's thickness condition holds for every label *)
  Lemma thickness_pipeline l : In l (sc_labels s) -> thickness_ok d (sc_H s) l.
  Proof.
    intro H. unfold sc_H. apply (thickness_ok_explicit d p (sc_labels s)).
    - intro E. rewrite E in H. destruct H.
    - intros x Hx. change (sc_labels s) with (map (scene_label d p its (reported st)) (st_nodes st)) in Hx.
      apply in_map_iff in Hx. destruct Hx as (nd & <- & Hnd).
      destruct (node_datum nd Hnd) as (dat & _ & B). cbn zeta in B. destruct B as (_ & _ & _ & B4).
      exists (rd_width dat), (rd_text dat). exact B4.
    - exact H.
  Qed.

  Lemma colours_valid_pipeline : raw_colours_valid r -> colours_valid s.
  Proof.
    intros V i l ro E U. change (sc_opts s) with (ri_opts r) in *. specialize (V ro U).
    unfold color_func. destruct (opt_col (ri_opts r) ro) as [c|cs|].
    - exact V.
    - destruct V as [Ne F]. rewrite Forall_forall in F. apply F. apply nth_In.
      assert (0 < length cs)%nat by (destruct cs; [congruence|cbn; lia]).
      pose proof (N.mod_lt (N.of_nat i) (N.of_nat (length cs)) ltac:(lia)). lia.
    - destruct (proj2 (proj2 labels_per_datum) i l E) as (id & dat & _ & A & _ & _ & Fc & _).
      rewrite Fc. apply V. eapply nth_error_In; exact A.
  Qed.

  Lemma compose_dom_pipeline : pipeline_dom r -> compose_dom d p e its.
  Proof.
    intros (_ & W & PL & PR & PT & PB & Sp & St & De & Ls).
    apply compose_dom_simple; try assumption.
    intros it H. destruct (items_widths _ _ _ H) as (dat & Hd & ->). apply W, Hd.
  Qed.

  (* the chain of a label is the reported positions of the datum's own stubs,
     layer by layer, then of the label itself *)
  Theorem chain_is_own_stubs : pipeline_dom r ->
    forall nd, In nd (st_nodes st) ->
      let l := scene_label d p its (reported st) nd in
      In (n_id nd, false, inject_Z (l_cur l)) (nth (n_layer nd) (reported st) []) /\
      l_layer l = Z.of_nat (n_layer nd) /\
      forall j, (j < n_layer nd)%nat ->
        let c := inject_Z (nth j (l_chain l) 0%Z) in
        In (n_id nd, true, c) (nth j (reported st) []) /\
        forall b c', In (n_id nd, b, c') (nth j (reported st) []) -> b = true /\ c' = c.
  Proof.
    intros D nd H. cbn zeta.
    destruct (engine_chain_stubs_lemma d p e its (compose_dom_pipeline D) nd H) as [A B].
    split; [exact A|]. split; [apply scene_label_layer|exact B].
  Qed.
End Scene.

(* ---------- C07 for the pipeline -------------------------------------------------------- *)
Theorem pipeline_c07 r s :
  pipeline_scene r = AOk s ->
  exists ax ids,
    axis (ri_axis r) = AOk ax /\
    (* one dot, link and box per datum: n of each, the k-th belongs to datum ids[k],
       ids a permutation of the data indices *)
    Permutation ids (seq 0 (length (ri_data r))) /\
    length (sc_labels s) = length (ri_data r) /\
    (forall k l, nth_error (sc_labels s) k = Some l ->
       let d := o_dir (ri_opts r) in
       exists id dat, nth_error ids k = Some id /\ nth_error (ri_data r) id = Some dat /\
         let t := coord (parse (ri_today r) (rd_time dat)) in
         (* dot k: on the axis line at ax_pos (time of that datum), in both documents *)
         (exists c, nth_error (pc_dots (geom_svg (svg_doc_of s))) k = Some c /\
            nval (np_along d (pd_at c)) == ax_pos ax t /\ nval (np_cross d (pd_at c)) == 0) /\
         (exists c, nth_error (pc_dots (geom_tikz (tikz_doc_of s))) k = Some c /\
            nval (np_along d (pd_at c)) == ax_pos ax t /\ nval (np_cross d (pd_at c)) == 0) /\
         (* link k: C07_link for that label, no thickness hypothesis left *)
         ((exists rest, sc_path s l = M (start_pt d (l_ideal l)) :: rest /\
             Forall (fun st => step_kind st <> KM) rest /\
             Forall2 sig_eq rest (link_spec d (o_gap (ri_opts r)) (sc_H s) 0 (l_chain l))) /\
          pt_eq (path_end (sc_path s l)) (edge_mid d (label_box_exact d (o_gap (ri_opts r)) (sc_H s) l)) /\
          pt_within1 (path_end (sc_path s l)) (edge_mid d (label_box d (o_gap (ri_opts r)) (sc_H s) l)) /\
          (exists col gs, nth_error (pc_links (geom_svg (svg_doc_of s))) k = Some (col, gs) /\
             gs <> [] /\ segs_continuous (p8 (start_pt d (l_ideal l))) gs /\
             map seg_end gs = map (fun x => p8 (step_end x)) (tl (sc_path s l)))) /\
         (* box k: that datum's size plus padding (swapped for left/right), its text verbatim *)
         (exists b, nth_error (pc_boxes (geom_svg (svg_doc_of s))) k = Some b /\
            (pb_w b, pb_h b) = (let '(w, h) := node_size d (o_pad (ri_opts r)) (rd_width dat) (rd_text dat) in (Fs w, Fs h)) /\
            match pb_text b with
            | Some (_, t) => rd_text dat = Some t /\ t <> []
            | None => text_shown (rd_text dat) = false
            end)) /\
    (* ticks: tick j at ax_pos of the j-th tick value with tickFormat of THAT value *)
    (o_ticks (ri_opts r) = true ->
     forall j pv, nth_error (ax_tick_at ax) j = Some pv ->
       let d := o_dir (ri_opts r) in
       (exists ts pt, pc_ticks (geom_svg (svg_doc_of s)) = Some ts /\
          nth_error ts j = Some (pt, tick_format ax pv) /\
          nval (np_along d pt) == ax_pos ax (coord pv) /\ nval (np_cross d pt) == 0) /\
       (exists ts pt, pc_ticks (geom_tikz (tikz_doc_of s)) = Some ts /\
          nth_error ts j = Some (pt, tick_format ax pv) /\
          nval (np_along d pt) = inject_Z (trunc (ax_pos ax (coord pv))) /\ nval (np_cross d pt) == 0)) /\
    (* the one function of time: affine, increasing, the reported domain onto [0, inner length] *)
    ax_len ax = axis_len (ri_opts r) /\
    (coord (ax_d0 ax) < coord (ax_d1 ax) -> 0 < ax_len ax ->
     (exists a b, 0 < a /\ (forall x, ax_pos ax x == a * x + b) /\
        ax_pos ax (coord (ax_d0 ax)) == 0 /\ ax_pos ax (coord (ax_d1 ax)) == ax_len ax) /\
     (forall x y, x < y -> ax_pos ax x < ax_pos ax y) /\
     (forall x, coord (ax_d0 ax) <= x -> x <= coord (ax_d1 ax) -> 0 <= ax_pos ax x /\ ax_pos ax x <= ax_len ax)).
Proof.
  intro H. destruct (pipeline_scene_ok r s H) as (ax & Hax & ->).
  exists ax, (map n_id (st_nodes (engine_result (o_dir (ri_opts r)) (o_pad (ri_opts r)) (ri_engine r)
                                   (items_of (ax_dots ax) (ri_data r))))).
  destruct (labels_per_datum r ax Hax) as (P & Len & Per). cbn zeta in P, Len, Per.
  split; [exact Hax|]. split; [exact P|]. split; [exact Len|].
  set (s := scene_of r ax) in *.
  split; [|split; [|split]].
  - intros k l E d.
    destruct (Per k l E) as (id & dat & Eid & Edat & Eideal & Etext & _ & Esize & Ech).
    exists id, dat. split; [exact Eid|]. split; [exact Edat|]. cbn zeta.
    destruct (dots_on_axis s k l E) as [(c1 & Ec1 & A1 & B1) (c2 & Ec2 & A2 & B2)].
    change (o_dir (sc_opts s)) with d in *.
    split; [exists c1; rewrite A1, Eideal; repeat split; try assumption; reflexivity|].
    split; [exists c2; rewrite A2, Eideal; repeat split; try assumption; reflexivity|].
    split.
    + apply (link_full s k l E Ech).
      apply (thickness_pipeline r ax Hax). eapply nth_error_In; exact E.
    + destruct (box_drawn s k l E) as (b & Eb & _ & Bw & Bh & Bt).
      exists b. split; [exact Eb|]. split.
      * change (o_dir (ri_opts r)) with d in Esize. rewrite <- Esize, Bw, Bh. reflexivity.
      * rewrite <- Etext. exact Bt.
  - intros T j pv Ej d.
    apply (axis_ticks_drawn (ri_axis r) ax s j pv Hax T eq_refl Ej).
  - exact (axis_len_ok _ _ Hax).
  - intros Hd HL. destruct (ax_pos_affine ax Hd HL) as (a & b & Ha & Hs & H0 & H1).
    split; [exists a, b; auto|]. split.
    + intros x y Hxy. exact (affine_increasing (ax_pos ax) a b Ha Hs x y Hxy).
    + intros x X0 X1. exact (affine_inside (ax_pos ax) a b (coord (ax_d0 ax)) (coord (ax_d1 ax)) (ax_len ax) Ha Hs H0 H1 x X0 X1).
Qed.

(* ---------- C09 and C08 for the pipeline ---------------------------------------------- *)
Theorem pipeline_same_geometry r s :
  pipeline_scene r = AOk s -> raw_colours_valid r ->
  picture_sim (geom_svg (svg_doc_of s)) (geom_tikz (tikz_doc_of s)).
Proof.
  intros H V. destruct (pipeline_scene_ok r s H) as (ax & Hax & ->).
  apply same_geometry; [apply (colours_valid_pipeline r ax Hax V)|apply scene_wf_pipeline].
Qed.

Theorem pipeline_boxes_disjoint r s :
  pipeline_scene r = AOk s -> pipeline_dom r ->
  3 <= e_spacing (ri_engine r) -> 1 <= o_gap (ri_opts r) ->
  forall pic, pic = geom_svg (svg_doc_of s) \/ pic = geom_tikz (tikz_doc_of s) ->
  forall i j bi bj, nth_error (pc_boxes pic) i = Some bi -> nth_error (pc_boxes pic) j = Some bj -> i <> j ->
    rect_disjoint (pbox_rect bi) (pbox_rect bj).
Proof.
  intros H D Hs HG. destruct (pipeline_scene_ok r s H) as (ax & Hax & ->).
  unfold scene_of. apply engine_drawn_disjoint; try assumption.
  apply (compose_dom_pipeline r ax), D.
Qed.

Theorem pipeline_chain_stubs r s : pipeline_scene r = AOk s -> pipeline_dom r ->
  exists ax, axis (ri_axis r) = AOk ax /\
  let d := o_dir (ri_opts r) in
  let p := o_pad (ri_opts r) in
  let its := items_of (ax_dots ax) (ri_data r) in
  let st := engine_result d p (ri_engine r) its in
  sc_labels s = map (scene_label d p its (reported st)) (st_nodes st) /\
  forall nd, In nd (st_nodes st) ->
    let l := scene_label d p its (reported st) nd in
    In (n_id nd, false, inject_Z (l_cur l)) (nth (n_layer nd) (reported st) []) /\
    l_layer l = Z.of_nat (n_layer nd) /\
    forall j, (j < n_layer nd)%nat ->
      let c := inject_Z (nth j (l_chain l) 0%Z) in
      In (n_id nd, true, c) (nth j (reported st) []) /\
      forall b c', In (n_id nd, b, c') (nth j (reported st) []) -> b = true /\ c' = c.
Proof.
  intros H D. destruct (pipeline_scene_ok r s H) as (ax & Hax & ->).
  exists ax. split; [exact Hax|]. cbn zeta. split; [reflexivity|].
  intros nd Hnd. exact (chain_is_own_stubs r ax D nd Hnd).
Qed.
