(* The axis pipeline of labella/timeline.py (property C11, and the scale part
   of C07), in an error monad with an explicit failure at every Python
   operation that can raise on the path.  Model only: no proofs here.

     Timeline.__init__ (timeline.py:142-166)
       parse_items   :176-200  date -> midnight datetime; datetime kept;
                               bare time -> datetime.combine(date.today(), time)
       equal_heights :168-172  max(x.height for x in self.items): ValueError on
                               an empty sequence
       init_axis     :202-214  explicit `domain` option, or d3_extent of the times
                               followed by scale.nice(); then
                               scale.range([0, innerHeight | innerWidth])
     export / compute
       timePos       :317-320  scale(time) per datum (get_nodes :235-238)
       add_axis      :379-380, 702-703  scale.ticks(), scale(tick) and
                               scale.tickFormat()(tick) (Time/TickFormat.v)

   Scales: LinearScale (Scale/Linear.v, Ticks.v, Nice.v: lin, ticks .. 10,
   nice 10) and TimeScale (Time/TimeScale.v, TimeTicks.v, TimeNice.v: ts_apply,
   ts_ticks .. 10, ts_nice .. 10).  Doubles are exact rationals.

   NOT in this model (covered by the tie of harness/props/c11.py only): the
   engine's recursion depth (CPython frames; open known finding for conflict
   clusters above 200 items), the dict-key handling of omitted / partial
   options, the emitters' string formatting. *)
From Coq Require Import ZArith NArith QArith List Bool.
From Labella Require Import Render.Geometry Render.Scene
  Time.Calendar Time.Interval Time.TimeScale Time.TimeTicks Time.TimeNice Time.TickFormat
  Scale.Linear Scale.Ticks Scale.Nice.
Import ListNotations.
Open Scope Q_scope.

(* ---------- the error monad ------------------------------------------------------ *)
Inductive ekind : Type :=
| EEmptyData     (* ValueError: max() arg is an empty sequence (equal_heights) *)
| EType          (* TypeError / AttributeError: a time (or explicit domain end) of
                    the wrong type for the scale, e.g. a number with the TimeScale,
                    a date as an explicit time domain end *)
| EDateRange.    (* ValueError / OverflowError out of datetime arithmetic in
                    nice() or ticks() (a result outside years 1..9999) *)

Inductive ares (A : Type) : Type :=
| AOk (a : A)
| ARaise (k : ekind)
| AFuel.          (* model artefact: a fuelled loop ran dry; proved unreachable *)
Arguments AOk {A} a.
Arguments ARaise {A} k.
Arguments AFuel {A}.

Definition abind {A B} (r : ares A) (f : A -> ares B) : ares B :=
  match r with AOk a => f a | ARaise k => ARaise k | AFuel => AFuel end.

(* results of the time package: its Raise is datetime arithmetic leaving 1..9999 *)
Definition of_res {A} (r : res A) : ares A :=
  match r with Ok a => AOk a | Raise => ARaise EDateRange | NoFuel => AFuel end.

Fixpoint amap {A B} (f : A -> ares B) (l : list A) : ares (list B) :=
  match l with
  | [] => AOk []
  | x :: r => abind (f x) (fun y => abind (amap f r) (fun ys => AOk (y :: ys)))
  end.

(* ---------- inputs ------------------------------------------------------------------ *)
(* the value of d["time"]: a number, a datetime.date, a datetime.datetime, a datetime.time *)
Inductive tval : Type :=
| TNum (x : Q)
| TDate (y m d : Z)
| TDateTime (t : dt)
| TClock (h mi s us : Z).

Inductive scale_kind : Type := SLinear | STime.

Record axis_in : Type := mk_axis_in {
  ai_kind : scale_kind;                 (* options["scale"]: a LinearScale, or the default TimeScale *)
  ai_data : list tval;
  ai_domain : option (tval * tval);     (* options["domain"], if given (and truthy) *)
  ai_opts : opts;                       (* direction, initialWidth/Height, margins, showTicks *)
  ai_today : Z * Z * Z                  (* datetime.date.today() at construction time *)
}.

(* after parse_items: a number, or an instant *)
Inductive pval : Type := PNum (x : Q) | PInst (t : dt).

Definition parse (today : Z * Z * Z) (v : tval) : pval :=
  match v with
  | TNum x => PNum x
  | TDate y m d => PInst (mkdt y m d 0 0 0 0)
  | TDateTime t => PInst t
  | TClock h mi s us => let '(y, m, d) := today in PInst (mkdt y m d h mi s us)
  end.

(* the coordinate a scale works on: the number, or dt2milli of the instant *)
Definition coord (p : pval) : Q :=
  match p with PNum x => x | PInst t => to_ms t end.

(* getInnerDims and the left/right vs up/down choice of init_axis *)
Definition axis_len (o : opts) : Q :=
  if sideways (o_dir o) then inner_h o else inner_w o.

(* ---------- outputs ------------------------------------------------------------------ *)
Record axis_out : Type := mk_axis_out {
  ax_d0 : pval; ax_d1 : pval;           (* scale.domain() *)
  ax_len : Q;                           (* scale.range() = [0, ax_len] *)
  ax_dots : list Q;                     (* timePos of every datum, in datum order *)
  ax_tick_at : list pval;               (* scale.ticks() ([] when showTicks is false) *)
  ax_ticks : list Q;                    (* scale(tick) *)
  ax_tick_text : list (list N)          (* scale.tickFormat()(tick), code points *)
}.

(* ---------- linear scale ---------------------------------------------------------------- *)
Definition as_num (p : pval) : ares Q :=
  match p with PNum x => AOk x | PInst _ => ARaise EType end.

(* min([...]) / max([...]) of d3_extent, on a non-empty list *)
Definition qmin_list (x : Q) (l : list Q) : Q := fold_left Linear.qmin l x.
Definition qmax_list (x : Q) (l : list Q) : Q := fold_left Linear.qmax l x.

Definition lin_pos (d0 d1 len x : Q) : Q := Linear.lin d0 d1 0 len x.

Definition axis_linear (i : axis_in) (items : list pval) : ares axis_out :=
  abind (amap as_num items) (fun xs =>
  match xs with
  | [] => ARaise EEmptyData
  | x0 :: xr =>
      abind (match ai_domain i with
             | Some (a, b) =>
                 abind (as_num (parse (ai_today i) a)) (fun a' =>
                 abind (as_num (parse (ai_today i) b)) (fun b' => AOk (a', b')))
             | None => AOk (Nice.nice 10 (qmin_list x0 xr, qmax_list x0 xr))
             end) (fun d =>
      let '(d0, d1) := d in
      let len := axis_len (ai_opts i) in
      abind (if o_ticks (ai_opts i)
             then match Ticks.ticks_opt d0 d1 10 with Some l => AOk l | None => AFuel end
             else AOk []) (fun tk =>
      AOk (mk_axis_out (PNum d0) (PNum d1) len
                       (map (lin_pos d0 d1 len) xs)
                       (map PNum tk) (map (lin_pos d0 d1 len) tk)
                       (map (lin_tick_format d0 d1 10) tk))))
  end).

(* ---------- time scale -------------------------------------------------------------------- *)
Definition as_inst (p : pval) : ares dt :=
  match p with PInst t => AOk t | PNum _ => ARaise EType end.

(* an explicit time domain end must be a datetime: dt2milli(x) = (x - _EPOCH) / ...
   raises TypeError for a date or a time *)
Definition as_datetime (v : tval) : ares dt :=
  match v with TDateTime t => AOk t | _ => ARaise EType end.

Definition dt_min2 (a b : dt) : dt := if dt_ltb b a then b else a.
Definition dt_max2 (a b : dt) : dt := if dt_ltb a b then b else a.
Definition dt_min_list (x : dt) (l : list dt) : dt := fold_left dt_min2 l x.
Definition dt_max_list (x : dt) (l : list dt) : dt := fold_left dt_max2 l x.

Definition time_pos (d0 d1 : dt) (len : Q) (t : dt) : Q :=
  ts_apply (mk_tscale d0 d1 0 len) t.

Definition axis_time (i : axis_in) (items : list pval) : ares axis_out :=
  abind (amap as_inst items) (fun ts =>
  match ts with
  | [] => ARaise EEmptyData
  | t0 :: tr =>
      abind (match ai_domain i with
             | Some (a, b) =>
                 abind (as_datetime a) (fun a' => abind (as_datetime b) (fun b' => AOk (a', b')))
             | None => of_res (ts_nice (dt_min_list t0 tr) (dt_max_list t0 tr) 10)
             end) (fun d =>
      let '(d0, d1) := d in
      let len := axis_len (ai_opts i) in
      abind (if o_ticks (ai_opts i) then of_res (ts_ticks d0 d1 10) else AOk []) (fun tk =>
      AOk (mk_axis_out (PInst d0) (PInst d1) len
                       (map (time_pos d0 d1 len) ts)
                       (map PInst tk) (map (time_pos d0 d1 len) tk)
                       (map time_format tk))))
  end).

(* ---------- the pipeline ---------------------------------------------------------------------- *)
Definition axis (i : axis_in) : ares axis_out :=
  let items := map (parse (ai_today i)) (ai_data i) in
  match items with
  | [] => ARaise EEmptyData                      (* equal_heights: max() of nothing *)
  | _ =>
      match ai_kind i with
      | SLinear => axis_linear i items
      | STime => axis_time i items
      end
  end.

(* the one function of the scale coordinate at which dots and ticks sit *)
Definition ax_pos (o : axis_out) (x : Q) : Q :=
  Linear.lin (coord (ax_d0 o)) (coord (ax_d1 o)) 0 (ax_len o) x.

(* the text of a tick: scale.tickFormat() applied to the tick (linear: the number of
   decimals comes from the tick step of the reported domain) *)
Definition tick_format (o : axis_out) (p : pval) : list N :=
  match p with
  | PInst t => time_format t
  | PNum x => lin_tick_format (coord (ax_d0 o)) (coord (ax_d1 o)) 10 x
  end.
