(* Proofs about the two emitter models (coq/Render/Scene.v): element counts
   and order, dots, ticks, boxes, links (C07) and agreement of the drawn
   geometry of the SVG and the TikZ document (C09). *)
From Coq Require Import ZArith NArith QArith Qabs Qround Lia ZifyBool ZifyN ZifyNat Lqa List Bool.
From Labella Require Import Text.Utils Text.UtilsProofs Render.Geometry Render.GeometryProofs Render.Scene.
Import ListNotations.
Open Scope Q_scope.

(* controlled unfolding of the documents: never let cbn loose on Q arithmetic *)
Ltac docs :=
  unfold geom_svg, geom_tikz, svg_doc_of, tikz_doc_of;
  cbn [pc_main pc_axis pc_ticks pc_links pc_boxes pc_dots
       sv_width sv_height sv_margin sv_main sv_axis_x2 sv_axis_y2 sv_ticks sv_links sv_labels sv_dots
       tk_border tk_colors tk_texts tk_margin tk_main tk_axis tk_ticks tk_links tk_labels tk_dots].
Ltac numc := cbn [opt_num0 fst snd nval np_along np_cross pd_at pd_diam pd_fill].

(* ---------- mapi ---------------------------------------------------------------- *)
Lemma mapi_length {A B} (f : N -> A -> B) l : forall k, length (mapi f k l) = length l.
Proof. induction l as [|x r IH]; intro k; cbn; [reflexivity | now rewrite IH]. Qed.

Lemma mapi_nth_error {A B} (f : N -> A -> B) l : forall k i,
  nth_error (mapi f k l) i = option_map (f (k + N.of_nat i)%N) (nth_error l i).
Proof.
  induction l as [|x r IH]; intros k i.
  - destruct i; reflexivity.
  - destruct i as [|i]; cbn [mapi nth_error option_map].
    + now rewrite N.add_0_r.
    + rewrite IH. replace (k + 1 + N.of_nat i)%N with (k + N.of_nat (S i))%N by lia. reflexivity.
Qed.

Lemma mapi_ext_nth {A B} (f g : N -> A -> B) l : forall k,
  (forall i x, nth_error l i = Some x -> f (k + N.of_nat i)%N x = g (k + N.of_nat i)%N x) ->
  mapi f k l = mapi g k l.
Proof.
  induction l as [|x r IH]; intros k E; cbn [mapi]; [reflexivity|].
  f_equal.
  - specialize (E 0%nat x eq_refl). now rewrite N.add_0_r in E.
  - apply IH. intros i y Hy. specialize (E (S i) y Hy).
    replace (k + 1 + N.of_nat i)%N with (k + N.of_nat (S i))%N by lia. exact E.
Qed.

Lemma map_mapi {A B C} (g : B -> C) (f : N -> A -> B) l : forall k,
  map g (mapi f k l) = mapi (fun i x => g (f i x)) k l.
Proof. induction l as [|x r IH]; intro k; cbn; [reflexivity | now rewrite IH]. Qed.

Lemma Forall2_mapi {A B C} (R : B -> C -> Prop) (f : N -> A -> B) (g : N -> A -> C) l : forall k,
  (forall i x, nth_error l i = Some x -> R (f (k + N.of_nat i)%N x) (g (k + N.of_nat i)%N x)) ->
  Forall2 R (mapi f k l) (mapi g k l).
Proof.
  induction l as [|x r IH]; intros k E; cbn [mapi]; constructor.
  - specialize (E 0%nat x eq_refl). now rewrite N.add_0_r in E.
  - apply IH. intros i y Hy. specialize (E (S i) y Hy).
    replace (k + 1 + N.of_nat i)%N with (k + N.of_nat (S i))%N by lia. exact E.
Qed.

Lemma Forall2_map {A B C D} (R : C -> D -> Prop) (f : A -> C) (g : B -> D) l1 l2 :
  Forall2 (fun a b => R (f a) (g b)) l1 l2 -> Forall2 R (map f l1) (map g l2).
Proof. induction 1; cbn; constructor; auto. Qed.

Lemma Forall2_same {A B} (R : B -> B -> Prop) (f g : A -> B) l :
  (forall x, In x l -> R (f x) (g x)) -> Forall2 R (map f l) (map g l).
Proof.
  induction l as [|x r IH]; intro E; cbn; constructor.
  - apply E. now left.
  - apply IH. intros y Hy. apply E. now right.
Qed.

(* ---------- C07: counts and order ------------------------------------------------ *)
Section Counts.
  Variable s : scene.
  Let n := length (sc_labels s).

  Lemma svg_counts :
    length (sv_dots (svg_doc_of s)) = n /\ length (sv_links (svg_doc_of s)) = n /\
    length (sv_labels (svg_doc_of s)) = n.
  Proof. unfold svg_doc_of; cbn. now rewrite !mapi_length. Qed.

  Lemma tikz_counts :
    length (tk_dots (tikz_doc_of s)) = n /\ length (tk_links (tikz_doc_of s)) = n /\
    length (tk_labels (tikz_doc_of s)) = n.
  Proof. unfold tikz_doc_of; cbn. now rewrite !mapi_length. Qed.

  Lemma svg_nth i l : nth_error (sc_labels s) i = Some l ->
    nth_error (sv_dots (svg_doc_of s)) i = Some (svg_dot_of s (N.of_nat i) l) /\
    nth_error (sv_links (svg_doc_of s)) i = Some (svg_link_of s (N.of_nat i) l) /\
    nth_error (sv_labels (svg_doc_of s)) i = Some (svg_label_of s (N.of_nat i) l).
  Proof. intro E. unfold svg_doc_of; cbn. rewrite !mapi_nth_error, E. cbn. auto. Qed.

  Lemma tikz_nth i l : nth_error (sc_labels s) i = Some l ->
    nth_error (tk_dots (tikz_doc_of s)) i = Some (tikz_dot_of s (N.of_nat i) l) /\
    nth_error (tk_links (tikz_doc_of s)) i = Some (tikz_link_of s (N.of_nat i) l) /\
    nth_error (tk_labels (tikz_doc_of s)) i = Some (tikz_label_of s (N.of_nat i) l).
  Proof. intro E. unfold tikz_doc_of; cbn. rewrite !mapi_nth_error, E. cbn. auto. Qed.
End Counts.

(* ---------- colours ---------------------------------------------------------------- *)
Lemma valid_colour_agrees c : valid_code c = true ->
  exists t, svg_rgb (hex2rgbstr c) = Some t /\ triple_of_html (hex2html c) = Some t.
Proof.
  intro V. destruct (hex_total c V) as [t Ht].
  destruct (hex_agree c t V Ht) as [(str & Es & Ep) Eh].
  exists t. unfold svg_rgb. rewrite Es. auto.
Qed.

Lemma nlist_eqb_eq a : forall b, nlist_eqb a b = true <-> a = b.
Proof.
  induction a as [|x a IH]; intros [|y b]; cbn; split; try congruence; try reflexivity.
  - intro E. apply andb_true_iff in E as [E1 E2]. apply N.eqb_eq in E1. apply IH in E2. congruence.
  - intro E. injection E as -> ->. rewrite N.eqb_refl. cbn. now apply IH.
Qed.
Lemma nlist_eqb_refl a : nlist_eqb a a = true.
Proof. now apply nlist_eqb_eq. Qed.

Lemma int2name_neq k j : k <> j -> nlist_eqb (int2name k) (int2name j) = false.
Proof.
  intro Ne. destruct (nlist_eqb _ _) eqn:E; [|reflexivity].
  apply nlist_eqb_eq in E. apply int2name_injective in E. congruence.
Qed.

Lemma role_eqb_refl r : role_eqb r r = true.
Proof. destruct r; reflexivity. Qed.

Lemma lookup_col_app a b n :
  lookup_col (a ++ b) n = match lookup_col a n with Some c => Some c | None => lookup_col b n end.
Proof.
  induction a as [|[m c] a IH]; cbn [app lookup_col]; [reflexivity|].
  destruct (cname_eqb m n); [reflexivity | exact IH].
Qed.

Lemma lookup_other_role (g : N -> label -> list N) r r' id ls : forall k, r' <> r ->
  lookup_col (mapi (fun j x => ((r', int2name j), g j x)) k ls) (r, id) = None.
Proof.
  induction ls as [|x ls IH]; intros k Ne; cbn [mapi lookup_col]; [reflexivity|].
  unfold cname_eqb; cbn [fst snd].
  replace (role_eqb r' r) with false by (destruct r', r; try reflexivity; congruence).
  cbn. now apply IH.
Qed.

Lemma lookup_same_role (g : N -> label -> list N) r ls : forall k i l j,
  nth_error ls i = Some l -> j = (k + N.of_nat i)%N ->
  lookup_col (mapi (fun j x => ((r, int2name j), g j x)) k ls) (r, int2name j) = Some (g j l).
Proof.
  induction ls as [|x ls IH]; intros k i l j E Ej; [destruct i; discriminate|].
  destruct i as [|i]; cbn [mapi lookup_col]; unfold cname_eqb; cbn [fst snd]; rewrite role_eqb_refl.
  - cbn [nth_error] in E. injection E as ->. replace j with k by lia.
    now rewrite nlist_eqb_refl.
  - rewrite int2name_neq by lia. cbn [andb]. apply (IH (k + 1)%N i); [exact E | lia].
Qed.

(* the macro of role r and index i stands for the colour colorFunc yields there *)
Lemma tikz_colour_lookup s r i l :
  nth_error (sc_labels s) i = Some l -> role_used (sc_opts s) r = true ->
  lookup_col (tikz_colors s) (r, int2name (N.of_nat i))
  = Some (hex2html (color_func (sc_opts s) r (N.of_nat i) l)).
Proof.
  intros E U. unfold tikz_colors, tikz_coldefs. rewrite !lookup_col_app.
  pose proof (fun r' => lookup_same_role (fun j x => hex2html (color_func (sc_opts s) r' j x)) r'
                          (sc_labels s) 0%N i l (N.of_nat i) E eq_refl) as Hit.
  destruct r; cbn [role_used] in U.
  - now rewrite (Hit RDot).
  - rewrite lookup_other_role by discriminate. now rewrite (Hit RBg).
  - rewrite !lookup_other_role by discriminate. now rewrite (Hit RText).
  - rewrite !lookup_other_role by discriminate. now rewrite (Hit RLink).
  - rewrite !lookup_other_role by discriminate. rewrite U. now rewrite (Hit RBorder).
Qed.

Lemma colour_agrees s r i l :
  colours_valid s -> nth_error (sc_labels s) i = Some l -> role_used (sc_opts s) r = true ->
  exists t, svg_rgb (hex2rgbstr (color_func (sc_opts s) r (N.of_nat i) l)) = Some t /\
            tikz_rgb (tikz_colors s) (r, int2name (N.of_nat i)) = Some t.
Proof.
  intros V E U. destruct (valid_colour_agrees _ (V i l r E U)) as (t & A & B).
  exists t. split; [exact A|]. unfold tikz_rgb. now rewrite (tikz_colour_lookup s r i l E U).
Qed.

(* ---------- text macros ------------------------------------------------------------ *)
Definition text_entry (i : N) (l : label) : list (list N * list N) :=
  if text_shown (l_text l)
  then [(int2name i, match l_text l with Some t => t | None => [] end)]
  else [].

Lemma lookup_text_hit ls : forall k i l t j,
  nth_error ls i = Some l -> l_text l = Some t -> text_shown (l_text l) = true ->
  j = (k + N.of_nat i)%N ->
  lookup_text (concat (mapi text_entry k ls)) (int2name j) = Some t.
Proof.
  induction ls as [|x ls IH]; intros k i l t j E Et Sh Ej; [destruct i; discriminate|].
  destruct i as [|i]; cbn [mapi concat].
  - cbn [nth_error] in E. injection E as ->. unfold text_entry. rewrite Sh, Et. cbn [app lookup_text].
    replace j with k by lia. now rewrite nlist_eqb_refl.
  - unfold text_entry at 1. destruct (text_shown (l_text x)).
    + cbn [app lookup_text]. rewrite int2name_neq by lia.
      apply (IH (k + 1)%N i l t j); auto. lia.
    + cbn [app]. apply (IH (k + 1)%N i l t j); auto. lia.
Qed.

Lemma tikz_text_lookup s i l t :
  nth_error (sc_labels s) i = Some l -> l_text l = Some t -> text_shown (l_text l) = true ->
  lookup_text (tikz_texts s) (int2name (N.of_nat i)) = Some t.
Proof. intros. unfold tikz_texts. now apply (lookup_text_hit (sc_labels s) 0%N i l t). Qed.

Lemma text_shown_some l : text_shown (l_text l) = true -> exists t, l_text l = Some t.
Proof. destruct (l_text l) as [t|]; [eauto | discriminate]. Qed.

(* ---------- links ------------------------------------------------------------------- *)
Lemma replay_geom col steps : forall cur,
  map tikz_seg_geom (tikz_replay col cur steps) = svg_segs cur steps.
Proof.
  induction steps as [|st r IH]; intro cur; [reflexivity|].
  destruct st; cbn [tikz_replay svg_segs map tikz_seg_geom]; now rewrite ?IH.
Qed.

Lemma label_path_shape d G H l : l_chain l <> [] ->
  exists c1 c2 p rest, label_path d G H l = M (start_pt d (l_ideal l)) :: C c1 c2 p :: rest.
Proof.
  intro N. unfold label_path, generate_path, waypoints; cbn [fst snd].
  destruct (l_chain l) as [|c r]; [congruence|]. cbn [hops path_from].
  destruct (hop_pts d G H 0 c) as [p1 p2].
  unfold curve, v_curve, h_curve. destruct (sideways d); eauto.
Qed.

Lemma tikz_link_head s i l : l_chain l <> [] ->
  exists g r, tikz_link_of s i l = g :: r /\ tikz_seg_col g = (RLink, int2name i).
Proof.
  intro N. unfold tikz_link_of, sc_path.
  destruct (label_path_shape (o_dir (sc_opts s)) (o_gap (sc_opts s)) (sc_H s) l N) as (c1 & c2 & p & rest & E).
  rewrite E. cbn [map step8 tikz_replay]. eauto.
Qed.

(* a path with a single initial move is drawn as continuous segments whose end
   points are the ends of its steps *)
Lemma segs_of_moveless steps : forall cur,
  Forall (fun st => step_kind st <> KM) steps ->
  segs_continuous cur (svg_segs cur (map step8 steps)) /\
  map seg_end (svg_segs cur (map step8 steps)) = map (fun st => p8 (step_end st)) steps.
Proof.
  induction steps as [|st r IH]; intros cur F; [cbn; auto|].
  inversion F as [|? ? Hk Fr]; subst.
  destruct st as [p|c1 c2 p|p]; [cbn in Hk; congruence| |];
    cbn [map step8 svg_segs segs_continuous seg_start seg_end step_end];
    destruct (IH (p8 p) Fr) as [A B]; (split; [split; [reflexivity|exact A] | now rewrite B]).
Qed.

Lemma sc_path_segs s l : l_chain l <> [] ->
  let st := p8 (start_pt (o_dir (sc_opts s)) (l_ideal l)) in
  let gs := svg_segs (Fl 0, Fl 0) (map step8 (sc_path s l)) in
  gs <> [] /\ segs_continuous st gs /\
  map seg_end gs = map (fun x => p8 (step_end x)) (tl (sc_path s l)).
Proof.
  intros N st gs. unfold gs, sc_path, label_path, generate_path, waypoints. cbn [fst snd tl map step8 svg_segs].
  set (d := o_dir (sc_opts s)).
  set (rest := path_from d (start_pt d (l_ideal l)) (hops d (o_gap (sc_opts s)) (sc_H s) 0 (l_chain l))).
  destruct (segs_of_moveless rest (p8 (start_pt d (l_ideal l))) (path_from_no_move _ _ _)) as [A B].
  repeat split; try assumption.
  assert (rest <> []) as NE by (apply path_from_nonempty, hops_nonempty, N).
  destruct rest as [|x r]; [congruence|]. intro E.
  apply (f_equal (map seg_end)) in E. rewrite B in E. discriminate.
Qed.

(* ---------- C09: the two pictures ---------------------------------------------------- *)
Lemma nval_Fi0 : nval (Fi 0) == 0.
Proof. reflexivity. Qed.

Lemma num_close_trunc x : Qabs (x - inject_Z (trunc x)) < 1.
Proof. rewrite Qabs_Qminus. apply trunc_abs. Qed.

Lemma num_close_0 : Qabs (0 - 0) < 1.
Proof. reflexivity. Qed.

Lemma main_same o : np_same (svg_main o) (tikz_main o).
Proof.
  unfold np_same, num_same, svg_main, tikz_main.
  destruct (o_dir o); cbn [fst snd nval]; split; reflexivity.
Qed.

Lemma axis_close s :
  np_close (pc_axis (geom_svg (svg_doc_of s))) (pc_axis (geom_tikz (tikz_doc_of s))).
Proof.
  unfold np_close, num_close. docs.
  destruct (sideways (o_dir (sc_opts s))); numc; split; try apply num_close_trunc; reflexivity.
Qed.

Lemma ticks_sim s :
  opt_rel (Forall2 tick_sim) (pc_ticks (geom_svg (svg_doc_of s))) (pc_ticks (geom_tikz (tikz_doc_of s))).
Proof.
  docs. destruct (o_ticks (sc_opts s)); cbn [opt_rel]; [|exact I].
  rewrite !map_map. apply Forall2_same. intros [pos text] _.
  unfold tick_sim, np_close, num_close, svg_tick_of, tikz_tick_of.
  destruct (o_dir (sc_opts s)); cbn [stk_tr stk_text ttk_shift ttk_text fst snd nval];
    repeat split; try apply num_close_trunc; reflexivity.
Qed.

Lemma links_equal s : colours_valid s -> scene_wf s ->
  pc_links (geom_svg (svg_doc_of s)) = pc_links (geom_tikz (tikz_doc_of s)).
Proof.
  intros V W. docs. rewrite !map_mapi. apply mapi_ext_nth. intros i l E. cbn [N.add].
  assert (l_chain l <> []) as N by (apply W; eapply nth_error_In; eauto).
  destruct (colour_agrees s RLink i l V E eq_refl) as (t & A & B).
  destruct (tikz_link_head s (N.of_nat i) l N) as (g & r & Eg & Ec).
  unfold svg_link_of; cbn [slk_stroke slk_d]. rewrite A.
  rewrite Eg, Ec, B. rewrite <- Eg. unfold tikz_link_of. now rewrite replay_geom.
Qed.

Lemma boxes_equal s : colours_valid s ->
  pc_boxes (geom_svg (svg_doc_of s)) = pc_boxes (geom_tikz (tikz_doc_of s)).
Proof.
  intros V. docs. rewrite !map_mapi. apply mapi_ext_nth. intros i l E. cbn [N.add].
  destruct (colour_agrees s RBg i l V E eq_refl) as (tb & Ab & Bb).
  destruct (colour_agrees s RText i l V E eq_refl) as (tt & At & Bt).
  unfold svg_label_of, tikz_label_of;
    cbn [slb_tr slb_w slb_h slb_fill slb_stroke slb_text tlb_shift tlb_w tlb_h tlb_bg tlb_border tlb_textcol tlb_text].
  rewrite Ab, Bb. f_equal.
  - destruct (o_border (sc_opts s)) eqn:Bd; [|reflexivity].
    destruct (colour_agrees s RBorder i l V E Bd) as (t & A & B). now rewrite A, B.
  - destruct (text_shown (l_text l)) eqn:Sh; [|reflexivity].
    destruct (text_shown_some l Sh) as [t Et].
    cbn [stx_fill stx_body]. rewrite (tikz_text_lookup s i l t E Et Sh), At, Bt, Et. reflexivity.
Qed.

Lemma dots_sim s : colours_valid s ->
  Forall2 dot_sim (pc_dots (geom_svg (svg_doc_of s))) (pc_dots (geom_tikz (tikz_doc_of s))).
Proof.
  intros V. docs. rewrite !map_mapi. apply Forall2_mapi. intros i l E. cbn [N.add].
  destruct (colour_agrees s RDot i l V E eq_refl) as (t & A & B).
  unfold dot_sim, svg_dot_of, tikz_dot_of; cbn [sdt_r sdt_fill sdt_cx sdt_cy tdt_size tdt_fill tdt_at pd_at pd_diam pd_fill].
  rewrite A, B. unfold np_same, num_same.
  destruct (sideways (o_dir (sc_opts s))); numc; repeat split; reflexivity.
Qed.

Theorem same_geometry s : colours_valid s -> scene_wf s ->
  picture_sim (geom_svg (svg_doc_of s)) (geom_tikz (tikz_doc_of s)).
Proof.
  intros V W. unfold picture_sim. repeat split.
  - apply (main_same (sc_opts s)).
  - apply (main_same (sc_opts s)).
  - apply axis_close.
  - apply axis_close.
  - apply ticks_sim.
  - now apply links_equal.
  - now apply boxes_equal.
  - now apply dots_sim.
Qed.

(* every colour of the picture is a defined triple (so "equal" is not None = None) *)
Theorem colours_defined s : colours_valid s -> scene_wf s ->
  Forall (fun k => fst k <> None) (pc_links (geom_svg (svg_doc_of s))) /\
  Forall (fun b => pb_bg b <> None /\ pb_border b <> Some None /\
                   (forall c t, pb_text b = Some (c, t) -> c <> None))
         (pc_boxes (geom_svg (svg_doc_of s))) /\
  Forall (fun c => pd_fill c <> None) (pc_dots (geom_svg (svg_doc_of s))).
Proof.
  intros V W. docs. rewrite !map_mapi. repeat split.
  - apply Forall_forall. intros x Hx. apply In_nth_error in Hx as [i Hi].
    rewrite mapi_nth_error in Hi. destruct (nth_error (sc_labels s) i) as [l|] eqn:E; [|discriminate].
    injection Hi as <-. cbn [N.add fst].
    destruct (colour_agrees s RLink i l V E eq_refl) as (t & A & _).
    unfold svg_link_of; cbn [slk_stroke]. rewrite A. discriminate.
  - apply Forall_forall. intros x Hx. apply In_nth_error in Hx as [i Hi].
    rewrite mapi_nth_error in Hi. destruct (nth_error (sc_labels s) i) as [l|] eqn:E; [|discriminate].
    injection Hi as <-. cbn [N.add].
    unfold svg_label_of; cbn [slb_fill slb_stroke slb_text pb_bg pb_border pb_text].
    destruct (colour_agrees s RBg i l V E eq_refl) as (tb & Ab & _).
    destruct (colour_agrees s RText i l V E eq_refl) as (tt & At & _).
    rewrite Ab. repeat split; try discriminate.
    + destruct (o_border (sc_opts s)) eqn:Bd; [|discriminate].
      destruct (colour_agrees s RBorder i l V E Bd) as (t & A & _). rewrite A. discriminate.
    + intros c t. destruct (text_shown (l_text l)); [|discriminate].
      cbn [stx_fill]. rewrite At. intro X. injection X as <- _. discriminate.
  - apply Forall_forall. intros x Hx. apply In_nth_error in Hx as [i Hi].
    rewrite mapi_nth_error in Hi. destruct (nth_error (sc_labels s) i) as [l|] eqn:E; [|discriminate].
    injection Hi as <-. cbn [N.add pd_fill].
    destruct (colour_agrees s RDot i l V E eq_refl) as (t & A & _).
    unfold svg_dot_of; cbn [sdt_fill]. rewrite A. discriminate.
Qed.

(* ---------- C07 on the pictures -------------------------------------------------------- *)
(* dots: one per label, in order, on the axis line at the label's ideal position *)
Theorem dots_on_axis s i l : nth_error (sc_labels s) i = Some l ->
  let d := o_dir (sc_opts s) in
  (exists c, nth_error (pc_dots (geom_svg (svg_doc_of s))) i = Some c /\
             nval (np_along d (pd_at c)) == l_ideal l /\ nval (np_cross d (pd_at c)) == 0) /\
  (exists c, nth_error (pc_dots (geom_tikz (tikz_doc_of s))) i = Some c /\
             nval (np_along d (pd_at c)) == l_ideal l /\ nval (np_cross d (pd_at c)) == 0).
Proof.
  intros E d. docs. rewrite !map_mapi, !mapi_nth_error, E. cbn [option_map N.add].
  unfold d, svg_dot_of, tikz_dot_of, np_along, np_cross. split; eexists; (split; [reflexivity|]);
    cbn [sdt_cx sdt_cy tdt_at pd_at]; destruct (sideways (o_dir (sc_opts s))); numc; split; reflexivity.
Qed.

(* links: drawn for label i as continuous segments that start at its dot and
   end, step by step, at the step ends of the label's path *)
Theorem link_drawn s i l : nth_error (sc_labels s) i = Some l -> l_chain l <> [] ->
  let st := p8 (start_pt (o_dir (sc_opts s)) (l_ideal l)) in
  exists col gs, nth_error (pc_links (geom_svg (svg_doc_of s))) i = Some (col, gs) /\
    gs <> [] /\ segs_continuous st gs /\
    map seg_end gs = map (fun x => p8 (step_end x)) (tl (sc_path s l)).
Proof.
  intros E N st. docs. rewrite map_mapi, mapi_nth_error, E. cbn [option_map N.add].
  eexists; eexists; split; [reflexivity|].
  unfold svg_link_of; cbn [slk_d]. apply (sc_path_segs s l N).
Qed.

(* boxes: origin = truncated nodePos, size printed in full, text verbatim *)
Theorem box_drawn s i l : nth_error (sc_labels s) i = Some l ->
  exists b, nth_error (pc_boxes (geom_svg (svg_doc_of s))) i = Some b /\
    pb_origin b = (Fi (fst (sc_origin s l)), Fi (snd (sc_origin s l))) /\
    pb_w b = Fs (l_w l) /\ pb_h b = Fs (l_h l) /\
    match pb_text b with
    | Some (_, t) => l_text l = Some t /\ t <> []
    | None => text_shown (l_text l) = false
    end.
Proof.
  intros E. docs. rewrite map_mapi, mapi_nth_error, E. cbn [option_map N.add].
  eexists; split; [reflexivity|]. unfold svg_label_of;
    cbn [pb_origin pb_w pb_h pb_text slb_tr slb_w slb_h slb_text]. repeat split.
  destruct (l_text l) as [[|c t]|]; cbn [text_shown stx_body]; auto. split; [reflexivity|discriminate].
Qed.

(* get_nodes: the size of a box is the datum's size plus padding, swapped for left/right *)
Theorem node_size_spec d p width t :
  node_size d p width t =
  if sideways d
  then if text_shown t
       then (width + padT p + padB p, item_height + padL p + padR p)
       else (item_height + padT p + padB p, width + padL p + padR p)
  else (width + padL p + padR p, item_height + padT p + padB p).
Proof. unfold node_size, item_size. destruct (sideways d), (text_shown t); reflexivity. Qed.

(* ticks: tick j sits at its position on the axis line and carries its text *)
Theorem ticks_drawn s j pos text : o_ticks (sc_opts s) = true ->
  nth_error (sc_ticks s) j = Some (pos, text) ->
  let d := o_dir (sc_opts s) in
  (exists ts p, pc_ticks (geom_svg (svg_doc_of s)) = Some ts /\ nth_error ts j = Some (p, text) /\
        nval (np_along d p) == pos /\ nval (np_cross d p) == 0) /\
  (exists ts p, pc_ticks (geom_tikz (tikz_doc_of s)) = Some ts /\ nth_error ts j = Some (p, text) /\
        nval (np_along d p) = inject_Z (trunc pos) /\ nval (np_cross d p) == 0).
Proof.
  intros T E d. docs. rewrite T. unfold d, np_along, np_cross, svg_tick_of, tikz_tick_of.
  destruct (o_dir (sc_opts s)); split;
    (eexists; eexists; split; [reflexivity|]; rewrite map_map, nth_error_map, E;
     cbn [option_map svg_tick_of tikz_tick_of stk_tr stk_text ttk_shift ttk_text sideways fst snd nval];
     repeat split; reflexivity).
Qed.

(* ---------- the drawn rectangles are the boxes of the geometry model (C08) ------------ *)
Definition pbox_rect (b : pbox) : rect :=
  mkRect (nval (fst (pb_origin b))) (nval (snd (pb_origin b))) (nval (pb_w b)) (nval (pb_h b)).

Theorem drawn_boxes s i l : nth_error (sc_labels s) i = Some l ->
  let box := label_box (o_dir (sc_opts s)) (o_gap (sc_opts s)) (sc_H s) l in
  (exists b, nth_error (pc_boxes (geom_svg (svg_doc_of s))) i = Some b /\ pbox_rect b = box) /\
  (exists b, nth_error (pc_boxes (geom_tikz (tikz_doc_of s))) i = Some b /\ pbox_rect b = box).
Proof.
  intros E box. docs. rewrite !map_mapi, !mapi_nth_error, E. cbn [option_map N.add].
  split; eexists; (split; [reflexivity|]); reflexivity.
Qed.

(* ---------- an affine scale (C07_affine; the scale itself is another package's) -------- *)
Section Affine.
  Variables (scale : Q -> Q) (a b d0 d1 L : Q).
  Hypothesis Ha : 0 < a.
  Hypothesis Hs : forall t, scale t == a * t + b.
  Hypothesis H0 : scale d0 == 0.
  Hypothesis H1 : scale d1 == L.

  Lemma affine_increasing t1 t2 : t1 < t2 -> scale t1 < scale t2.
  Proof. intro. rewrite !Hs. nra. Qed.

  Lemma affine_inside t : d0 <= t -> t <= d1 -> 0 <= scale t /\ scale t <= L.
  Proof. intros A B. rewrite <- H0, <- H1, !Hs. split; nra. Qed.

  (* the unique affine map through (d0, 0) and (d1, L) *)
  Lemma affine_formula t : d0 < d1 -> scale t == (t - d0) / (d1 - d0) * L.
  Proof.
    intro Lt. rewrite <- H1. rewrite Hs in H0. rewrite !Hs.
    assert (b == - a * d0) as Eb by lra. rewrite Eb. field. lra.
  Qed.
End Affine.

Theorem dots_affine (scale : Q -> Q) (a b d0 d1 L : Q) s times :
  0 < a -> (forall t, scale t == a * t + b) -> scale d0 == 0 -> scale d1 == L ->
  Forall2 (fun l t => l_ideal l == scale t) (sc_labels s) times ->
  forall i l t, nth_error (sc_labels s) i = Some l -> nth_error times i = Some t ->
  let d := o_dir (sc_opts s) in
  exists c, nth_error (pc_dots (geom_svg (svg_doc_of s))) i = Some c /\
    nval (np_along d (pd_at c)) == scale t /\ nval (np_cross d (pd_at c)) == 0 /\
    (d0 <= t -> t <= d1 -> 0 <= nval (np_along d (pd_at c)) /\ nval (np_along d (pd_at c)) <= L).
Proof.
  intros Ha Hs H0 H1 F i l t El Et d.
  destruct (dots_on_axis s i l El) as [(c & Ec & A & B) _]. fold d in A, B.
  assert (l_ideal l == scale t) as Ei.
  { clear - F El Et. revert i El Et. induction F as [|x y ls ts R F IH]; intros [|i] El Et; try discriminate.
    - cbn in El, Et. injection El as <-. injection Et as <-. exact R.
    - cbn in El, Et. eapply IH; eauto. }
  exists c. split; [exact Ec|]. split; [rewrite A; exact Ei|]. split; [exact B|].
  intros T0 T1. rewrite A, Ei. eapply affine_inside; eauto.
Qed.

(* ---------- C07_link, assembled for a label of a scene ---------------------------------- *)
(* explicit widths: the thickness condition of the link theorem holds for every
   label built by the get_nodes model *)
Theorem thickness_ok_explicit d p ls :
  ls <> [] ->
  (forall l, In l ls -> exists width t, (l_w l, l_h l) = node_size d p width t) ->
  forall l, In l ls -> thickness_ok d (node_height d ls) l.
Proof.
  intros N B l Hin. unfold thickness_ok. destruct d; try exact I.
  exact (thickness_uniform Up p ls eq_refl N B l Hin).
Qed.

Theorem link_full s i l :
  nth_error (sc_labels s) i = Some l -> l_chain l <> [] ->
  let d := o_dir (sc_opts s) in
  let G := o_gap (sc_opts s) in
  let H := sc_H s in
  thickness_ok d H l ->
  (* the path: starts at the dot, one continuous path through the label's own
     stubs layer by layer *)
  (exists rest, sc_path s l = M (start_pt d (l_ideal l)) :: rest /\
     Forall (fun st => step_kind st <> KM) rest /\
     Forall2 sig_eq rest (link_spec d G H 0 (l_chain l))) /\
  (* its end: middle of the axis-facing edge of the label's box *)
  pt_eq (path_end (sc_path s l)) (edge_mid d (label_box_exact d G H l)) /\
  pt_within1 (path_end (sc_path s l)) (edge_mid d (label_box d G H l)) /\
  (* and it is what the documents draw for label i *)
  (exists col gs, nth_error (pc_links (geom_svg (svg_doc_of s))) i = Some (col, gs) /\
     gs <> [] /\ segs_continuous (p8 (start_pt d (l_ideal l))) gs /\
     map seg_end gs = map (fun x => p8 (step_end x)) (tl (sc_path s l))).
Proof.
  intros E N d G H T. unfold sc_path. fold d G H. repeat split.
  - apply label_path_spec.
  - apply (link_ends_at_edge_mid d G H l N T).
  - apply (link_ends_at_edge_mid d G H l N T).
  - apply (link_ends_near_drawn_box d G H l N T).
  - apply (link_ends_near_drawn_box d G H l N T).
  - apply (link_drawn s i l E N).
Qed.

(* ---------- C08 on the documents ---------------------------------------------------------- *)
Lemma drawn_boxes_inv_svg s i b :
  nth_error (pc_boxes (geom_svg (svg_doc_of s))) i = Some b ->
  exists l, nth_error (sc_labels s) i = Some l /\
    pbox_rect b = label_box (o_dir (sc_opts s)) (o_gap (sc_opts s)) (sc_H s) l.
Proof.
  docs. rewrite map_mapi, mapi_nth_error.
  destruct (nth_error (sc_labels s) i) as [l|]; cbn [option_map]; [|discriminate].
  intro E. injection E as <-. exists l. split; reflexivity.
Qed.
Lemma drawn_boxes_inv_tikz s i b :
  nth_error (pc_boxes (geom_tikz (tikz_doc_of s))) i = Some b ->
  exists l, nth_error (sc_labels s) i = Some l /\
    pbox_rect b = label_box (o_dir (sc_opts s)) (o_gap (sc_opts s)) (sc_H s) l.
Proof.
  docs. rewrite map_mapi, mapi_nth_error.
  destruct (nth_error (sc_labels s) i) as [l|]; cbn [option_map]; [|discriminate].
  intro E. injection E as <-. exists l. split; reflexivity.
Qed.

(* all rectangles drawn by either back-end are pairwise disjoint *)
Theorem drawn_boxes_disjoint s nodeSp :
  3 <= nodeSp -> 1 <= o_gap (sc_opts s) ->
  (forall l, In l (sc_labels s) -> label_wf l) ->
  (forall i j a b, nth_error (sc_labels s) i = Some a -> nth_error (sc_labels s) j = Some b -> i <> j ->
     l_layer a = l_layer b ->
     separated (o_dir (sc_opts s)) nodeSp a b \/ separated (o_dir (sc_opts s)) nodeSp b a) ->
  forall pic, pic = geom_svg (svg_doc_of s) \/ pic = geom_tikz (tikz_doc_of s) ->
  forall i j bi bj, nth_error (pc_boxes pic) i = Some bi -> nth_error (pc_boxes pic) j = Some bj -> i <> j ->
    rect_disjoint (pbox_rect bi) (pbox_rect bj).
Proof.
  intros Hs HG W Sep pic Hp i j bi bj Ei Ej Ne.
  assert (exists a b, nth_error (sc_labels s) i = Some a /\ nth_error (sc_labels s) j = Some b /\
            pbox_rect bi = label_box (o_dir (sc_opts s)) (o_gap (sc_opts s)) (sc_H s) a /\
            pbox_rect bj = label_box (o_dir (sc_opts s)) (o_gap (sc_opts s)) (sc_H s) b) as (a & b & Ea & Eb & Ra & Rb).
  { destruct Hp as [-> | ->].
    - destruct (drawn_boxes_inv_svg s i bi Ei) as (a & Ea & Ra).
      destruct (drawn_boxes_inv_svg s j bj Ej) as (b & Eb & Rb). eauto 10.
    - destruct (drawn_boxes_inv_tikz s i bi Ei) as (a & Ea & Ra).
      destruct (drawn_boxes_inv_tikz s j bj Ej) as (b & Eb & Rb). eauto 10. }
  rewrite Ra, Rb. unfold sc_H.
  eapply boxes_disjoint; eauto.
Qed.

(* ---------- printed decimals --------------------------------------------------------------- *)
Lemma dec_round_half q : - (1 # 2) <= inject_Z (dec_round q) - q /\ inject_Z (dec_round q) - q <= 1 # 2.
Proof.
  unfold dec_round. pose proof (Qfloor_le q) as A. pose proof (Qlt_floor q) as B.
  rewrite inject_Z_plus in B. change (inject_Z 1) with 1 in B.
  set (f := Qfloor q) in *.
  destruct (Qcompare_spec (q - inject_Z f) (1 # 2)) as [E|E|E].
  - destruct (Z.even f); [|rewrite inject_Z_plus; change (inject_Z 1) with 1]; split; lra.
  - split; lra.
  - rewrite inject_Z_plus; change (inject_Z 1) with 1. split; lra.
Qed.

Lemma round_dec_close k x : Qabs (round_dec k x - x) <= 1 # (2 * k).
Proof.
  unfold round_dec. set (K := inject_Z (Zpos k)).
  assert (0 < K) as Kp by (unfold K, Qlt, inject_Z; cbn; lia).
  destruct (dec_round_half (x * K)) as [A B]. set (z := inject_Z (dec_round (x * K))) in *.
  assert ((1 # (2 * k)) * K == 1 # 2) as EK.
  { unfold K, Qeq, Qmult, inject_Z; cbn [Qnum Qden]. lia. }
  assert ((z / K - x) * K == z - x * K) as EE by (field; lra).
  apply Qabs_Qle_condition. split.
  - apply (Qmult_le_r _ _ K Kp). rewrite EE.
    setoid_replace (- (1 # 2 * k) * K) with (- ((1 # 2 * k) * K)) by ring. rewrite EK. exact A.
  - apply (Qmult_le_r _ _ K Kp). rewrite EE, EK. exact B.
Qed.

(* the printed decimal is within half a unit of the last printed digit of the
   value nval reads; %i, str() and literals print the value itself *)
Theorem nprint_close n : Qabs (nprint n - nval n) <= ntol n.
Proof.
  destruct n; cbn [nprint nval ntol]; try apply round_dec_close;
    (setoid_replace (inject_Z (trunc x) - inject_Z (trunc x)) with 0 by ring) ||
    (setoid_replace (x - x) with 0 by ring) ||
    (setoid_replace (inject_Z z - inject_Z z) with 0 by ring); discriminate.
Qed.

(* two numbers that denote the same value print within the sum of their tolerances *)
Theorem printed_same a b : num_same a b -> Qabs (nprint a - nprint b) <= ntol a + ntol b.
Proof.
  unfold num_same. intro E.
  pose proof (nprint_close a) as A. pose proof (nprint_close b) as B.
  apply Qabs_Qle_condition in A. apply Qabs_Qle_condition in B.
  apply Qabs_Qle_condition. split; lra.
Qed.
Theorem printed_close a b : num_close a b -> Qabs (nprint a - nprint b) < 1 + ntol a + ntol b.
Proof.
  unfold num_close. intro E. apply Qabs_Qlt_condition in E.
  pose proof (nprint_close a) as A. pose proof (nprint_close b) as B.
  apply Qabs_Qle_condition in A. apply Qabs_Qle_condition in B.
  apply Qabs_Qlt_condition. split; lra.
Qed.
