(* Proofs about Render/Axis.v: totality on the documented domain (C11_total),
   the degenerate domain (C11_degenerate), one dot per datum in datum order
   (C11_counts), and the affine scale of C07 (C07_affine). *)
From Coq Require Import ZArith QArith Qround Lia Lqa List Bool.
From Labella Require Import Render.Geometry Render.GeometryProofs Render.Scene Render.SceneProofs
  Time.Calendar Time.CalendarProofs Time.Interval Time.IntervalSpec Time.TimeScale
  Time.TimeScaleProofs Time.TimeTicks Time.TimeTicksProofs Time.TimeNice Time.TimeNiceProofs
  Time.NiceTotalProofs
  Scale.Linear Scale.LinearProofs Scale.Ticks Scale.TicksProofs Scale.Nice Scale.NiceProofs
  Scale.TickStepProofs Render.Axis.
Import ListNotations.
Open Scope Q_scope.

(* ---------- the monad ---------------------------------------------------------------- *)
Lemma abind_ok {A B} (r : ares A) (f : A -> ares B) b :
  abind r f = AOk b -> exists a, r = AOk a /\ f a = AOk b.
Proof. destruct r as [a|k|]; cbn; intros H; [exists a; auto|discriminate|discriminate]. Qed.

Lemma amap_ok {A B} (f : A -> ares B) : forall l ys, amap f l = AOk ys ->
  Forall2 (fun x y => f x = AOk y) l ys.
Proof.
  induction l as [|x l IH]; intros ys H; cbn [amap] in H.
  - injection H as <-. constructor.
  - apply abind_ok in H. destruct H as (y & Ey & H).
    apply abind_ok in H. destruct H as (ys' & Eys & H). injection H as <-.
    constructor; [exact Ey|apply IH; exact Eys].
Qed.

Lemma amap_total {A B} (f : A -> ares B) : forall l,
  Forall (fun x => exists y, f x = AOk y) l -> exists ys, amap f l = AOk ys.
Proof.
  induction l as [|x l IH]; intros H; cbn [amap]; [eexists; reflexivity|].
  inversion H as [|? ? [y Ey] Hl]; subst. destruct (IH Hl) as [ys Eys].
  rewrite Ey, Eys. cbn [abind]. eexists; reflexivity.
Qed.

(* the two copies of d3_scale_bilinear are the same function *)
Lemma lin_same a b r0 r1 x : TimeScale.lin a b r0 r1 x = Linear.lin a b r0 r1 x.
Proof. reflexivity. Qed.

Lemma time_pos_eq d0 d1 len t :
  time_pos d0 d1 len t = Linear.lin (to_ms d0) (to_ms d1) 0 len (to_ms t).
Proof.
  unfold time_pos, ts_apply. cbn [ts_d0 ts_d1 ts_r0 ts_r1]. apply lin_same.
Qed.

(* ---------- C11_counts: one dot per datum, in datum order, at ax_pos of its time -------- *)
Lemma map_Forall2 {A B} (f : A -> B) : forall l, Forall2 (fun x y => y = f x) l (map f l).
Proof. induction l; cbn; constructor; auto. Qed.

Lemma Forall2_compose {A B C} (R : A -> B -> Prop) (S : B -> C -> Prop) (T : A -> C -> Prop) :
  (forall a b c, R a b -> S b c -> T a c) ->
  forall l m n, Forall2 R l m -> Forall2 S m n -> Forall2 T l n.
Proof.
  intros H l m n F. revert n. induction F; intros n G; inversion G; subst; constructor; eauto.
Qed.

Lemma Forall2_map_l {A B C} (g : A -> B) (R : B -> C -> Prop) : forall l m,
  Forall2 R (map g l) m -> Forall2 (fun a c => R (g a) c) l m.
Proof.
  induction l as [|a l IH]; intros m H; inversion H; subst; constructor; auto.
Qed.

Theorem axis_counts i o : axis i = AOk o ->
  Forall2 (fun v p => p = ax_pos o (coord (parse (ai_today i) v))) (ai_data i) (ax_dots o) /\
  ax_ticks o = map (fun p => ax_pos o (coord p)) (ax_tick_at o).
Proof.
  unfold axis. intros H.
  destruct (map (parse (ai_today i)) (ai_data i)) as [|p0 pr] eqn:EI; [discriminate|].
  rewrite <- EI in H. clear p0 pr EI.
  destruct (ai_kind i).
  - unfold axis_linear in H. apply abind_ok in H. destruct H as (xs & Exs & H).
    apply amap_ok in Exs. apply Forall2_map_l in Exs.
    destruct xs as [|x0 xr]; [discriminate|].
    apply abind_ok in H. destruct H as ([d0 d1] & _ & H).
    apply abind_ok in H. destruct H as (tk & _ & H). injection H as <-.
    unfold ax_pos. cbn [ax_d0 ax_d1 ax_len ax_dots ax_ticks ax_tick_at coord]. split.
    + eapply Forall2_compose; [|exact Exs|exact (map_Forall2 (lin_pos d0 d1 (axis_len (ai_opts i))) (x0 :: xr))].
      intros v x p E ->. unfold as_num in E.
      destruct (parse (ai_today i) v); [|discriminate]. injection E as <-. reflexivity.
    + rewrite map_map. reflexivity.
  - unfold axis_time in H. apply abind_ok in H. destruct H as (ts & Ets & H).
    apply amap_ok in Ets. apply Forall2_map_l in Ets.
    destruct ts as [|t0 tr]; [discriminate|].
    apply abind_ok in H. destruct H as ([d0 d1] & _ & H).
    apply abind_ok in H. destruct H as (tk & _ & H). injection H as <-.
    unfold ax_pos. cbn [ax_d0 ax_d1 ax_len ax_dots ax_ticks ax_tick_at coord]. split.
    + eapply Forall2_compose; [|exact Ets|exact (map_Forall2 (time_pos d0 d1 (axis_len (ai_opts i))) (t0 :: tr))].
      intros v x p E ->. unfold as_inst in E.
      destruct (parse (ai_today i) v); [discriminate|]. injection E as <-.
      cbn [coord]. apply time_pos_eq.
    + rewrite map_map. apply map_ext. intros t. cbn [coord]. apply time_pos_eq.
Qed.

(* ---------- the affine scale (C07_affine) ------------------------------------------------- *)
Theorem ax_pos_affine o : coord (ax_d0 o) < coord (ax_d1 o) -> 0 < ax_len o ->
  exists a b, 0 < a /\ (forall x, ax_pos o x == a * x + b) /\
              ax_pos o (coord (ax_d0 o)) == 0 /\ ax_pos o (coord (ax_d1 o)) == ax_len o.
Proof.
  intros Hd HL. set (d0 := coord (ax_d0 o)) in *. set (d1 := coord (ax_d1 o)) in *.
  assert (Hne : ~ d0 == d1) by (intros E; lra).
  exists (ax_len o / (d1 - d0)), (- (ax_len o / (d1 - d0)) * d0).
  split; [apply Qlt_shift_div_l; lra|].
  unfold ax_pos. fold d0 d1. split; [|split].
  - intros x. rewrite (lin_formula d0 d1 0 (ax_len o) x Hne). field. lra.
  - rewrite (lin_formula d0 d1 0 (ax_len o) d0 Hne). field. lra.
  - rewrite (lin_formula d0 d1 0 (ax_len o) d1 Hne). field. lra.
Qed.

Lemma axis_len_ok i o : axis i = AOk o -> ax_len o = axis_len (ai_opts i).
Proof.
  unfold axis. intros H.
  destruct (map (parse (ai_today i)) (ai_data i)) as [|p0 pr] eqn:EI; [discriminate|].
  rewrite <- EI in H. clear p0 pr EI.
  destruct (ai_kind i).
  - unfold axis_linear in H. apply abind_ok in H. destruct H as (xs & _ & H).
    destruct xs as [|x0 xr]; [discriminate|].
    apply abind_ok in H. destruct H as ([d0 d1] & _ & H).
    apply abind_ok in H. destruct H as (tk & _ & H). injection H as <-. reflexivity.
  - unfold axis_time in H. apply abind_ok in H. destruct H as (ts & _ & H).
    destruct ts as [|t0 tr]; [discriminate|].
    apply abind_ok in H. destruct H as ([d0 d1] & _ & H).
    apply abind_ok in H. destruct H as (tk & _ & H). injection H as <-. reflexivity.
Qed.

Lemma Forall2_nth {A B} (R : A -> B -> Prop) : forall l m, Forall2 R l m ->
  forall k a, nth_error l k = Some a -> exists b, nth_error m k = Some b /\ R a b.
Proof.
  intros l m F. induction F as [|x y l m Rxy F IH]; intros [|k] a E; try discriminate.
  - cbn in E. injection E as <-. exists y. split; [reflexivity|exact Rxy].
  - cbn in E. cbn. apply IH. exact E.
Qed.

(* the dots of the drawn scene sit at ONE increasing affine function of the time
   coordinate, which maps the reported domain onto [0, inner length] *)
Theorem axis_dots_affine i o s :
  axis i = AOk o -> coord (ax_d0 o) < coord (ax_d1 o) -> 0 < ax_len o ->
  Forall2 (fun l p => l_ideal l == p) (sc_labels s) (ax_dots o) ->
  (exists a b, 0 < a /\ (forall x, ax_pos o x == a * x + b) /\
               ax_pos o (coord (ax_d0 o)) == 0 /\ ax_pos o (coord (ax_d1 o)) == ax_len o) /\
  ax_len o = axis_len (ai_opts i) /\
  (forall x y, x < y -> ax_pos o x < ax_pos o y) /\
  ax_ticks o = map (fun p => ax_pos o (coord p)) (ax_tick_at o) /\
  forall k l v, nth_error (sc_labels s) k = Some l -> nth_error (ai_data i) k = Some v ->
    let t := coord (parse (ai_today i) v) in
    let d := o_dir (sc_opts s) in
    exists c, nth_error (pc_dots (geom_svg (svg_doc_of s))) k = Some c /\
      nval (np_along d (pd_at c)) == ax_pos o t /\ nval (np_cross d (pd_at c)) == 0 /\
      (coord (ax_d0 o) <= t -> t <= coord (ax_d1 o) ->
       0 <= nval (np_along d (pd_at c)) /\ nval (np_along d (pd_at c)) <= ax_len o).
Proof.
  intros H Hd HL F.
  destruct (ax_pos_affine o Hd HL) as (a & b & Ha & Hs & H0 & H1).
  destruct (axis_counts i o H) as [Fd Et].
  split; [exists a, b; auto|]. split; [exact (axis_len_ok i o H)|].
  split; [intros x y Hxy; exact (affine_increasing (ax_pos o) a b Ha Hs x y Hxy)|].
  split; [exact Et|].
  intros k l v El Ev t d.
  set (times := map (fun v => coord (parse (ai_today i) v)) (ai_data i)).
  assert (F2 : Forall2 (fun l t => l_ideal l == ax_pos o t) (sc_labels s) times).
  { unfold times. clear - F Fd. revert F. generalize (sc_labels s) as ls.
    induction Fd as [|v p vs ps E Fd IH]; intros ls F; inversion F; subst; cbn [map]; constructor.
    - match goal with X : l_ideal _ == _ |- _ => rewrite X end. reflexivity.
    - apply IH. assumption. }
  assert (Et' : nth_error times k = Some t).
  { unfold times. rewrite nth_error_map, Ev. reflexivity. }
  exact (dots_affine (ax_pos o) a b (coord (ax_d0 o)) (coord (ax_d1 o)) (ax_len o) s times
           Ha Hs H0 H1 F2 k l t El Et').
Qed.

(* ---------- C11_degenerate ------------------------------------------------------------------ *)
Lemma qmin_list_eq c : forall l x, x == c -> Forall (fun y => y == c) l -> qmin_list x l == c.
Proof.
  unfold qmin_list. induction l as [|y l IH]; intros x Hx F; cbn [fold_left]; [exact Hx|].
  inversion F; subst. apply IH; [|assumption].
  destruct (qmin_spec x y) as [[_ ->]|[_ ->]]; assumption.
Qed.

Lemma qmax_list_eq c : forall l x, x == c -> Forall (fun y => y == c) l -> qmax_list x l == c.
Proof.
  unfold qmax_list. induction l as [|y l IH]; intros x Hx F; cbn [fold_left]; [exact Hx|].
  inversion F; subst. apply IH; [|assumption].
  destruct (qmax_spec x y) as [[_ ->]|[_ ->]]; assumption.
Qed.

Lemma span_of_eq a b : a == b -> span_of a b == 0.
Proof.
  intros E. unfold span_of, extent. destruct (Qlt_le_dec a b); cbn [fst snd]; lra.
Qed.

Lemma nice_pass_degenerate m a b : a == b -> nice_pass m (a, b) = (a, b).
Proof.
  intros E. unfold nice_pass, dom_step. rewrite (tick_step_zero _ m (span_of_eq a b E)).
  unfold nice_with, step_floor, step_ceil. cbn [Qeq_bool Qnum Qden Z.mul Zeq_bool Z.compare].
  destruct (Qlt_le_dec b a); reflexivity.
Qed.

Lemma nice_degenerate m a b : a == b -> Nice.nice m (a, b) = (a, b).
Proof. intros E. unfold Nice.nice. rewrite !(nice_pass_degenerate m a b E). reflexivity. Qed.

Lemma dt_min_list_in : forall l x, In (dt_min_list x l) (x :: l).
Proof.
  unfold dt_min_list. induction l as [|y l IH]; intros x; cbn [fold_left]; [left; reflexivity|].
  destruct (IH (dt_min2 x y)) as [E|E].
  - rewrite <- E. unfold dt_min2. destruct (dt_ltb y x); [right; left|left]; reflexivity.
  - right; right; exact E.
Qed.

Lemma dt_max_list_in : forall l x, In (dt_max_list x l) (x :: l).
Proof.
  unfold dt_max_list. induction l as [|y l IH]; intros x; cbn [fold_left]; [left; reflexivity|].
  destruct (IH (dt_max2 x y)) as [E|E].
  - rewrite <- E. unfold dt_max2. destruct (dt_ltb x y); [right; left|left]; reflexivity.
  - right; right; exact E.
Qed.

Lemma Qle_bool_false_of_zero x : x == 0 -> Qle_bool (inject_Z 1000) x = false.
Proof.
  intros E. destruct (Qle_bool (inject_Z 1000) x) eqn:C; [|reflexivity].
  apply Qle_bool_iff in C. rewrite E in C. exfalso. revert C. unfold Qle. cbn. lia.
Qed.

Lemma tick_method_degenerate e0 e1 m : (0 < m)%Z -> e0 == e1 ->
  tick_method_of e0 e1 m = Ok (TMillis 0).
Proof.
  intros Hm E. unfold tick_method_of. destruct (m <=? 0)%Z eqn:C; [lia|]. cbv zeta.
  assert (Ht : (e1 - e0) / inject_Z m == 0).
  { assert (Z0 : e1 - e0 == 0) by lra. rewrite Z0. unfold Qdiv. ring. }
  assert (B : bisect scale_steps ((e1 - e0) / inject_Z m) = O).
  { cbn [bisect scale_steps]. rewrite (Qle_bool_false_of_zero _ Ht). reflexivity. }
  rewrite B. cbn [Nat.eqb length scale_steps].
  unfold lin_tick_step. cbv zeta.
  assert (Q0 : Qeq_bool (e1 - e0) 0 = true) by (apply Qeq_bool_iff; lra).
  rewrite Q0. reflexivity.
Qed.

Lemma ts_nice_degenerate d0 d1 m : (0 < m)%Z -> to_us d0 = to_us d1 ->
  ts_nice d0 d1 m = Ok (d0, d1).
Proof.
  intros Hm E. unfold ts_nice.
  assert (Eq : to_ms (dom_lo d0 d1) == to_ms (dom_hi d0 d1)).
  { apply to_ms_eq. unfold dom_lo, dom_hi. destruct (dt_ltb d0 d1); lia. }
  rewrite (tick_method_degenerate _ _ m Hm Eq).
  unfold dt_ltb. replace (to_us d1 <? to_us d0)%Z with false by lia.
  reflexivity.
Qed.

Definition all_times_equal (i : axis_in) : Prop :=
  exists c, Forall (fun v => coord (parse (ai_today i) v) == c) (ai_data i).

Lemma Forall2_Forall_r {A B} (R : A -> B -> Prop) (Pa : A -> Prop) (Pb : B -> Prop) :
  (forall a b, R a b -> Pa a -> Pb b) ->
  forall l m, Forall2 R l m -> Forall Pa l -> Forall Pb m.
Proof.
  intros H l m F. induction F; intros G; inversion G; subst; constructor; eauto.
Qed.

Theorem axis_degenerate i o : axis i = AOk o -> ai_domain i = None -> all_times_equal i ->
  Forall (fun p => p == 0) (ax_dots o) /\ coord (ax_d0 o) == coord (ax_d1 o).
Proof.
  unfold axis. intros H Hdom [c Hc].
  destruct (map (parse (ai_today i)) (ai_data i)) as [|p0 pr] eqn:EI; [discriminate|].
  rewrite <- EI in H. clear p0 pr EI.
  destruct (ai_kind i).
  - unfold axis_linear in H. apply abind_ok in H. destruct H as (xs & Exs & H).
    apply amap_ok, Forall2_map_l in Exs.
    assert (Fx : Forall (fun x => x == c) xs).
    { eapply Forall2_Forall_r; [|exact Exs|exact Hc]. cbn. intros v x E Hv.
      unfold as_num in E. destruct (parse (ai_today i) v); [|discriminate].
      injection E as <-. exact Hv. }
    destruct xs as [|x0 xr]; [discriminate|]. rewrite Hdom in H.
    inversion Fx as [|? ? Hx0 Hxr]; subst.
    assert (Eq : qmin_list x0 xr == qmax_list x0 xr).
    { rewrite (qmin_list_eq c xr x0 Hx0 Hxr), (qmax_list_eq c xr x0 Hx0 Hxr). reflexivity. }
    rewrite (nice_degenerate 10 _ _ Eq) in H. cbn [abind] in H.
    apply abind_ok in H. destruct H as (tk & _ & H). injection H as <-.
    cbn [ax_dots ax_d0 ax_d1 coord]. split; [|exact Eq].
    apply Forall_forall. intros p Hp.
    change (In p (map (lin_pos (qmin_list x0 xr) (qmax_list x0 xr) (axis_len (ai_opts i))) (x0 :: xr))) in Hp.
    apply in_map_iff in Hp. destruct Hp as (x & <- & _).
    unfold lin_pos. apply (lin_degenerate false). exact Eq.
  - unfold axis_time in H. apply abind_ok in H. destruct H as (ts & Ets & H).
    apply amap_ok, Forall2_map_l in Ets.
    assert (Fx : Forall (fun t => to_ms t == c) ts).
    { eapply Forall2_Forall_r; [|exact Ets|exact Hc]. cbn. intros v x E Hv.
      unfold as_inst in E. destruct (parse (ai_today i) v); [discriminate|].
      injection E as <-. exact Hv. }
    destruct ts as [|t0 tr]; [discriminate|]. rewrite Hdom in H.
    rewrite Forall_forall in Fx.
    pose proof (Fx _ (dt_min_list_in tr t0)) as Emin.
    pose proof (Fx _ (dt_max_list_in tr t0)) as Emax.
    assert (Eus : to_us (dt_min_list t0 tr) = to_us (dt_max_list t0 tr)).
    { apply to_ms_eq. rewrite Emin, Emax. reflexivity. }
    rewrite (ts_nice_degenerate _ _ 10 ltac:(lia) Eus) in H. cbn [of_res abind] in H.
    apply abind_ok in H. destruct H as (tk & _ & H). injection H as <-.
    cbn [ax_dots ax_d0 ax_d1 coord]. split; [|rewrite Emin, Emax; reflexivity].
    apply Forall_forall. intros p Hp.
    change (In p (map (time_pos (dt_min_list t0 tr) (dt_max_list t0 tr) (axis_len (ai_opts i))) (t0 :: tr))) in Hp.
    apply in_map_iff in Hp. destruct Hp as (x & <- & _).
    unfold time_pos, ts_apply. cbn [ts_d0 ts_d1 ts_r0 ts_r1].
    apply lin_deg. rewrite Emin, Emax. reflexivity.
Qed.

(* ---------- C11_total ----------------------------------------------------------------------- *)
(* the documented domain (DESIGN.md Appendix B): a non-empty list of data; with a
   LinearScale all times are numbers (and so is an explicit domain); with the
   TimeScale all times are date / datetime / time values whose instants (dates at
   midnight, times on today's date) are valid, of millisecond resolution and in
   years 1900..2200, and an explicit domain is a pair of such datetimes *)
Definition inst_ok (t : dt) : Prop :=
  valid t /\ ms_resolution t /\ (1900 <= dt_y t <= 2200)%Z.

Definition doc_domain (i : axis_in) : Prop :=
  ai_data i <> [] /\
  match ai_kind i with
  | SLinear =>
      Forall (fun v => exists x, v = TNum x) (ai_data i) /\
      match ai_domain i with
      | Some (a, b) => (exists x, a = TNum x) /\ (exists y, b = TNum y)
      | None => True
      end
  | STime =>
      Forall (fun v => exists t, parse (ai_today i) v = PInst t /\ inst_ok t) (ai_data i) /\
      match ai_domain i with
      | Some (a, b) => (exists t, a = TDateTime t /\ inst_ok t) /\ (exists t, b = TDateTime t /\ inst_ok t)
      | None => True
      end
  end.

Lemma ticks_opt_degenerate a b m : a == b -> ticks_opt a b m = Some [].
Proof.
  intros E. unfold ticks_opt, tick_range, ticks_fuel, extent.
  destruct (Qlt_le_dec a b) as [L|L]; [lra|].
  assert (Z0 : a - b == 0) by lra.
  rewrite (tick_step_zero (a - b) m Z0).
  cbn [Qeq_bool Qnum Qden Z.mul Zeq_bool Z.compare drange].
  destruct (Qlt_le_dec b a) as [L2|L2]; [lra|reflexivity].
Qed.

Lemma ticks_opt_total a b : exists l, ticks_opt a b 10 = Some l.
Proof.
  destruct (Qeq_dec a b) as [E|NE].
  - exists []. apply ticks_opt_degenerate. exact E.
  - pose proof (ticks_fuel_enough a b 10 NE ltac:(lia)) as F.
    destruct (ticks_opt a b 10) as [l|]; [exists l; reflexivity|contradiction].
Qed.

Lemma inst_years t : inst_ok t -> valid t /\ ms_resolution t /\ (2 <= dt_y t <= 9997)%Z.
Proof. intros (V & M & Y). repeat split; try assumption; lia. Qed.

Lemma Forall_Forall2_l {A B} (R : A -> B -> Prop) (Pa : A -> Prop) :
  forall l m, Forall2 R l m -> Forall Pa l -> Forall (fun b => exists a, R a b /\ Pa a) m.
Proof.
  intros l m F. induction F; intros G; inversion G; subst; constructor; eauto.
Qed.

Theorem axis_total i : doc_domain i -> exists o, axis i = AOk o.
Proof.
  intros [Hne Hk]. unfold axis.
  destruct (map (parse (ai_today i)) (ai_data i)) as [|p0 pr] eqn:EI.
  { destruct (ai_data i); [contradiction|discriminate]. }
  rewrite <- EI. clear p0 pr EI.
  destruct (ai_kind i).
  - destruct Hk as [Hd Hdom]. unfold axis_linear.
    destruct (amap_total as_num (map (parse (ai_today i)) (ai_data i))) as [xs Exs].
    { apply Forall_forall. intros p Hp. apply in_map_iff in Hp. destruct Hp as (v & <- & Hv).
      rewrite Forall_forall in Hd. destruct (Hd v Hv) as [x ->]. exists x. reflexivity. }
    rewrite Exs. cbn [abind].
    destruct xs as [|x0 xr].
    { apply amap_ok in Exs. inversion Exs as [E0 E1|]. destruct (ai_data i); [contradiction|discriminate]. }
    assert (Hd' : exists d, (match ai_domain i with
             | Some (a, b) =>
                 abind (as_num (parse (ai_today i) a)) (fun a' =>
                 abind (as_num (parse (ai_today i) b)) (fun b' => AOk (a', b')))
             | None => AOk (Nice.nice 10 (qmin_list x0 xr, qmax_list x0 xr))
             end) = AOk d).
    { destruct (ai_domain i) as [[a b]|]; [|eexists; reflexivity].
      destruct Hdom as [[x ->] [y ->]]. eexists; reflexivity. }
    destruct Hd' as [[d0 d1] ->]. cbn [abind].
    destruct (o_ticks (ai_opts i)).
    + destruct (ticks_opt_total d0 d1) as [l ->]. cbn [abind]. eexists; reflexivity.
    + cbn [abind]. eexists; reflexivity.
  - destruct Hk as [Hd Hdom]. unfold axis_time.
    destruct (amap_total as_inst (map (parse (ai_today i)) (ai_data i))) as [ts Ets].
    { apply Forall_forall. intros p Hp. apply in_map_iff in Hp. destruct Hp as (v & <- & Hv).
      rewrite Forall_forall in Hd. destruct (Hd v Hv) as (t & -> & _). exists t. reflexivity. }
    rewrite Ets. cbn [abind].
    apply amap_ok, Forall2_map_l in Ets.
    assert (Fok : Forall inst_ok ts).
    { eapply Forall2_Forall_r; [|exact Ets|exact Hd]. cbn. intros v t E (t' & Ep & Hok).
      rewrite Ep in E. cbn in E. injection E as <-. exact Hok. }
    destruct ts as [|t0 tr].
    { inversion Ets. destruct (ai_data i); [contradiction|discriminate]. }
    assert (Hd' : exists d0 d1, (match ai_domain i with
             | Some (a, b) =>
                 abind (as_datetime a) (fun a' => abind (as_datetime b) (fun b' => AOk (a', b')))
             | None => of_res (ts_nice (dt_min_list t0 tr) (dt_max_list t0 tr) 10)
             end) = AOk (d0, d1) /\ valid d0 /\ valid d1 /\ ms_resolution d0 /\ ms_resolution d1 /\
             (2 <= dt_y d0 <= 9997)%Z /\ (2 <= dt_y d1 <= 9997)%Z).
    { destruct (ai_domain i) as [[a b]|].
      - destruct Hdom as [(ta & -> & Ha) (tb & -> & Hb)]. exists ta, tb.
        destruct (inst_years ta Ha) as (? & ? & ?). destruct (inst_years tb Hb) as (? & ? & ?).
        split; [reflexivity|]. repeat split; assumption || lia.
      - rewrite Forall_forall in Fok.
        destruct (Fok _ (dt_min_list_in tr t0)) as (V0 & M0 & Y0).
        destruct (Fok _ (dt_max_list_in tr t0)) as (V1 & M1 & Y1).
        destruct (tnice_total_years _ _ 10 V0 V1 M0 M1 Y0 Y1 ltac:(lia))
          as (n0 & n1 & E & Vn0 & Vn1 & Mn0 & Mn1 & Yn0 & Yn1).
        exists n0, n1. rewrite E. split; [reflexivity|]. repeat split; assumption || lia. }
    destruct Hd' as (d0 & d1 & -> & V0 & V1 & M0 & M1 & Y0 & Y1). cbn [abind].
    destruct (o_ticks (ai_opts i)).
    + destruct (ticks_total d0 d1 10 V0 V1 M0 M1 Y0 Y1 ltac:(lia)) as [l ->].
      cbn [of_res abind]. eexists; reflexivity.
    + cbn [abind]. eexists; reflexivity.
Qed.

(* ---------- tick texts (C07_ticktext) ----------------------------------------------------- *)
(* positions and texts are the same tick list, zipped: every tick's text is the format
   applied to the tick AT THAT position *)
Theorem axis_tick_text i o : axis i = AOk o ->
  ax_tick_text o = map (tick_format o) (ax_tick_at o) /\
  combine (ax_ticks o) (ax_tick_text o) =
    map (fun p => (ax_pos o (coord p), tick_format o p)) (ax_tick_at o).
Proof.
  intros H.
  assert (E : ax_tick_text o = map (tick_format o) (ax_tick_at o)).
  { revert H. unfold axis.
    destruct (map (parse (ai_today i)) (ai_data i)) as [|p0 pr] eqn:EI; [discriminate|].
    rewrite <- EI. clear p0 pr EI. intros H.
    destruct (ai_kind i).
    - unfold axis_linear in H. apply abind_ok in H. destruct H as (xs & _ & H).
      destruct xs as [|x0 xr]; [discriminate|].
      apply abind_ok in H. destruct H as ([d0 d1] & _ & H).
      apply abind_ok in H. destruct H as (tk & _ & H). injection H as <-.
      unfold tick_format. cbn [ax_tick_text ax_tick_at ax_d0 ax_d1 coord]. rewrite map_map. reflexivity.
    - unfold axis_time in H. apply abind_ok in H. destruct H as (ts & _ & H).
      destruct ts as [|t0 tr]; [discriminate|].
      apply abind_ok in H. destruct H as ([d0 d1] & _ & H).
      apply abind_ok in H. destruct H as (tk & _ & H). injection H as <-.
      unfold tick_format. cbn [ax_tick_text ax_tick_at]. rewrite map_map. reflexivity. }
  split; [exact E|].
  destruct (axis_counts i o H) as [_ Et]. rewrite E, Et.
  generalize (ax_tick_at o) as l. induction l as [|p l IH]; cbn [map combine]; [reflexivity|].
  rewrite IH. reflexivity.
Qed.

(* ... and in the drawn documents: tick j is drawn at the position of the j-th tick
   with the formatted value of THAT tick as its text *)
Theorem axis_ticks_drawn i o s j p : axis i = AOk o -> o_ticks (sc_opts s) = true ->
  sc_ticks s = combine (ax_ticks o) (ax_tick_text o) ->
  nth_error (ax_tick_at o) j = Some p ->
  let d := o_dir (sc_opts s) in
  let text := tick_format o p in
  let pos := ax_pos o (coord p) in
  (exists ts pt, pc_ticks (geom_svg (svg_doc_of s)) = Some ts /\ nth_error ts j = Some (pt, text) /\
        nval (np_along d pt) == pos /\ nval (np_cross d pt) == 0) /\
  (exists ts pt, pc_ticks (geom_tikz (tikz_doc_of s)) = Some ts /\ nth_error ts j = Some (pt, text) /\
        nval (np_along d pt) = inject_Z (trunc pos) /\ nval (np_cross d pt) == 0).
Proof.
  intros H T Es Ej d text pos.
  destruct (axis_tick_text i o H) as [_ Ec].
  apply (ticks_drawn s j pos text T).
  rewrite Es, Ec, nth_error_map, Ej. reflexivity.
Qed.
