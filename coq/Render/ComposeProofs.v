(* Proofs about Render/Compose.v: the scene built from the engine's layout
   satisfies the hypotheses the rendering theorems (Props/C08.v) take --
   `label_wf` and, from C01_pairwise_labels + the engine's per-layer report,
   `separated` for any two labels of one layer. *)
From Coq Require Import ZArith NArith QArith Qround List Bool Arith Lia Lqa Permutation.
From Labella Require Base.QUtil Base.QUtilProofs Layout.Layer Layout.LayerProofs.
From Labella Require Import Layout.Distribute Layout.DistributeBase Layout.DistributeProofs
  Layout.ForceState Layout.ForceStateProofs Layout.Force Layout.ForceProofs.
From Labella Require Import Render.Geometry Render.GeometryProofs Render.Scene Render.SceneProofs Render.Compose.
Import ListNotations.
Open Scope nat_scope.

(* ================= the engine side ========================================= *)

Lemma locate_spec id : forall solved k0 prev k c p,
  locate id k0 prev solved = Some (k, c, p) ->
  k0 <= k /\ exists r, In r (nth (k - k0) solved []) /\ r_id r = id /\ r_stub r = false /\ r_cur r = c.
Proof.
  induction solved as [|l solved IH]; intros k0 prev k c p H; cbn [locate] in H; [discriminate|].
  destruct (find_ritem id (rlabels l)) as [r|] eqn:E.
  - injection H as <- <- _. split; [lia|]. rewrite Nat.sub_diag. cbn [nth].
    apply find_ritem_some in E. destruct E as [Hin Hid].
    unfold rlabels in Hin. apply filter_In in Hin. destruct Hin as [Hin Hs].
    exists r. repeat split; try assumption. destruct (r_stub r); [discriminate|reflexivity].
  - apply IH in H. destruct H as [Hk [r Hr]]. split; [lia|].
    replace (k - k0) with (S (k - S k0)) by lia. cbn [nth]. exists r. exact Hr.
Qed.

(* every node of the engine's list after a compute is the label item reported
   in its layer at its position *)
Lemma out_node_reported st nd :
  engine_dom (st_opts st) (st_nodes st) -> In nd (st_nodes (force_compute st)) ->
  In (n_id nd, false, n_cur nd) (nth (n_layer nd) (reported (force_compute st)) []).
Proof.
  intros D H. destruct (compute_unfold st D) as [rs [ls [Hd [Ers [_ [_ [El En]]]]]]].
  cbn zeta in Hd, Ers, El, En. unfold reported. rewrite El. rewrite En in H.
  set (e := st_opts st) in *. set (ns1 := map remove_stub (st_nodes st)) in *.
  set (T := isort nleb ns1) in *. set (solved := run_layers solve e T None rs) in *.
  apply in_map_iff in H. destruct H as [nd0 [E H0]].
  assert (H1 : In nd0 ns1).
  { destruct (e_alg e); try exact H0. eapply Permutation_in; [apply isort_perm|exact H0]. }
  assert (D1 : dist_dom (dopts_of_eopts e) (map label_of ns1))
    by (unfold ns1; rewrite label_of_remove_stub; exact D).
  destruct (distribute_conservation _ _ _ D1 Hd) as [P _].
  assert (Lord : length (ord_of (e_alg e) ns1) = length (map label_of ns1)).
  { rewrite map_length. apply Permutation_length, ord_of_perm. }
  assert (Hloc : locate (n_id nd0) 0 None solved <> None).
  { unfold solved. rewrite Ers. apply located; [now rewrite Lord|].
    eapply Permutation_in; [symmetry; apply ord_of_perm|exact H1]. }
  unfold write_back in E.
  destruct (locate (n_id nd0) 0 None solved) as [[[k c] p]|] eqn:EL; [|congruence].
  apply locate_spec in EL. destruct EL as [_ [r [Hr [Hid [Hs Hc]]]]]. rewrite Nat.sub_0_r in Hr.
  subst nd. cbn [n_id n_cur n_layer].
  change (@nil report_item) with (map (fun r : ritem => (r_id r, r_stub r, r_cur r)) []).
  rewrite (map_nth (map (fun r : ritem => (r_id r, r_stub r, r_cur r)))).
  apply in_map_iff. exists r. split; [now rewrite Hid, Hs, Hc|exact Hr].
Qed.

(* the ids of the engine's list are those it was handed *)
Lemma out_ids_perm st :
  Permutation (map n_id (st_nodes (force_compute st))) (map n_id (st_nodes st)).
Proof.
  assert (T : tracks st (st_nodes st, st_opts st)) by (split; reflexivity).
  apply (compute_tracks solve) in T. destruct T as [_ Hc]. cbn [fst] in Hc.
  apply canon_eq_perm in Hc. apply (Permutation_map n_id) in Hc.
  rewrite !map_map in Hc. exact Hc.
Qed.

(* fresh Node objects for a label list *)
Lemma label_nodes_ids labels : map n_id (label_nodes labels) = seq 0 (length labels).
Proof.
  unfold label_nodes. rewrite map_map. cbn [fresh_node n_id].
  rewrite <- (map_map fst (fun x => x)), map_id, map_fst_combine; [reflexivity|apply seq_length].
Qed.

Lemma label_nodes_nodup labels : NoDup (map n_id (label_nodes labels)).
Proof. rewrite label_nodes_ids. apply seq_NoDup. Qed.

Lemma label_nodes_scrubbed labels x : In x (label_nodes labels) -> scrub_node x = x.
Proof.
  unfold label_nodes. intro H. apply in_map_iff in H. destruct H as [[i l] [<- _]]. reflexivity.
Qed.

Lemma label_nodes_scrub labels : map scrub_node (label_nodes labels) = label_nodes labels.
Proof.
  rewrite <- (map_id (label_nodes labels)) at 2. apply map_ext_in. intros x H.
  now apply (label_nodes_scrubbed labels).
Qed.

Lemma label_nodes_In labels x : In x (label_nodes labels) ->
  n_child x = false /\ n_id x < length labels /\
  n_width x = Distribute.l_width (nth (n_id x) labels label0) /\
  n_pos x = Distribute.l_pos (nth (n_id x) labels label0).
Proof.
  unfold label_nodes. intro H. apply in_map_iff in H. destruct H as [[i l] [<- H]].
  cbn [fst snd fresh_node n_child n_id n_width n_pos].
  pose proof (in_combine_l _ _ _ _ H) as Hi. apply in_seq in Hi.
  assert (E : nth i labels label0 = l).
  { destruct (In_nth _ _ (0, label0) H) as [k [Hk Ek]].
    rewrite combine_nth in Ek by apply seq_length. injection Ek as E1 E2.
    rewrite combine_length, seq_length, Nat.min_id in Hk. rewrite seq_nth in E1 by exact Hk.
    cbn in E1. subst k. exact E2. }
  rewrite E. repeat split; lia.
Qed.

Definition fresh_state (e : eopts) (labels : list Distribute.label) : fstate :=
  mkState (map scrub_node (label_nodes labels)) e None.

Lemma layout_fresh e labels : Force.layout e labels = force_compute (fresh_state e labels).
Proof. reflexivity. Qed.

Lemma F2_length {A B} (R : A -> B -> Prop) l l' : Forall2 R l l' -> length l = length l'.
Proof. induction 1; cbn [length]; congruence. Qed.

Lemma layer_report_ok_nil e : layer_report_ok e [] [].
Proof.
  unfold layer_report_ok, layer_separated, layer_ordered. cbn [map length].
  split; [reflexivity|]. split; [reflexivity|]. split; [reflexivity|].
  split; intros i j Hij Hj; lia.
Qed.

(* two nodes of the engine's list: the separation of C01 in the engine's own terms *)
Definition node_sep (sp : Q) (x y : nodeobj) : Prop :=
  ((n_width x + n_width y) / 2 + sp - 1 <= n_cur y - n_cur x)%Q.

Theorem engine_pair_separated e labels a b :
  engine_dom e (label_nodes labels) -> lineSp_ok e ->
  In a (st_nodes (Force.layout e labels)) -> In b (st_nodes (Force.layout e labels)) ->
  n_id a <> n_id b -> n_layer a = n_layer b ->
  (exists za zb, n_cur a = inject_Z za /\ n_cur b = inject_Z zb) /\
  (node_sep (e_spacing e) a b \/ node_sep (e_spacing e) b a).
Proof.
  intros D Hl Ha Hb Nid Lay. rewrite layout_fresh in Ha, Hb.
  set (st0 := fresh_state e labels) in *. set (E := label_nodes labels) in *.
  assert (EE : st_nodes st0 = E) by (unfold st0, fresh_state; cbn [st_nodes]; apply label_nodes_scrub).
  assert (D0 : engine_dom (st_opts st0) (st_nodes st0)) by (rewrite EE; exact D).
  assert (Hl0 : lineSp_ok (st_opts st0)) by exact Hl.
  pose proof (out_node_reported st0 a D0 Ha) as Ra.
  pose proof (out_node_reported st0 b D0 Hb) as Rb.
  destruct (all_layers_real st0 D0 Hl0) as [rep [Erep F]].
  unfold reported in Ra, Rb. rewrite Erep in Ra, Rb. rewrite <- Lay in Rb.
  set (k := n_layer a) in *.
  destruct (compute_unfold st0 D0) as [rs [ls [_ [_ [_ [Ep _]]]]]]. cbn zeta in Ep.
  change (st_opts st0) with e in *.
  set (T := isort nleb (map remove_stub (st_nodes st0))) in *.
  assert (Hk : k < length rep).
  { destruct (Nat.lt_ge_cases k (length rep)) as [H|H]; [exact H|].
    rewrite nth_overflow in Ra by exact H. contradiction. }
  assert (Lrs : length rs = length rep).
  { rewrite (F2_length _ _ _ F), Ep, layer_pairs_length. reflexivity. }
  pose proof (Forall2_nth (layer_report_ok e) [] [] (layer_report_ok_nil e) _ _ F k) as OK.
  set (R := nth k rep []) in *.
  assert (EPS : nth k (compute_pairs st0) [] =
                sorted_pairs e T (match k with 0 => None | S j' => Some (nth j' (run_layers solve e T None rs) []) end)
                             (nth k rs [])).
  { rewrite Ep. apply nth_layer_pairs. lia. }
  set (prev := match k with 0 => None | S j' => Some (nth j' (run_layers solve e T None rs) []) end) in *.
  rewrite EPS in OK. set (PS := sorted_pairs e T prev (nth k rs [])) in *.
  destruct OK as [Hshape [Hpos [Hsrt _]]]. cbn zeta in Hshape, Hpos, Hsrt.
  set (o := solver_opts e) in *. set (its := map (fun x : ritem * litem => layer_item (snd x)) PS) in *.
  set (sol := Layer.solve_layer o its) in *.
  assert (LR : length R = length PS).
  { apply (f_equal (@length _)) in Hshape. rewrite !map_length in Hshape. exact Hshape. }
  (* facts about the table *)
  assert (NE : NoDup (map n_id E)) by apply label_nodes_nodup.
  assert (PT : Permutation T (map remove_stub E)) by (unfold T; rewrite EE; apply isort_perm).
  assert (NT : NoDup (map n_id T)).
  { eapply Permutation_NoDup; [symmetry; apply (Permutation_map n_id), PT|].
    rewrite map_map. cbn [remove_stub n_id]. exact NE. }
  assert (HT : forall nd, In nd T -> (0 <= n_width nd)%Q).
  { intros nd H. eapply Permutation_in in H; [|exact PT].
    apply in_map_iff in H. destruct H as [x [<- Hx]]. cbn [remove_stub n_width].
    destruct D as [Hw _]. apply Qlt_le_weak, (Hw (label_of x)). now apply in_map. }
  assert (Hstub : (0 <= e_stub e)%Q) by (destruct D as [_ [_ [H _]]]; exact H).
  assert (Iok : Layer.items_ok its) by (unfold its, PS; now apply pairs_items_ok).
  assert (Ook : Layer.opts_ok o) by (apply (solver_opts_ok e E); assumption).
  (* the item of an output node in this layer *)
  assert (Item : forall nd c i, In nd (st_nodes (force_compute st0)) -> i < length R ->
            nth i R (0, false, 0%Q) = (n_id nd, false, c) ->
            exists it, nth_error its i = Some it /\ Layer.stub it = false /\
                       Layer.wid it = n_width nd /\ c = inject_Z (nth i sol 0%Z)).
  { intros nd c i Hnd Hi Ei. unfold report_item in *.
    assert (Hc : c = inject_Z (nth i sol 0%Z)).
    { pose proof (map_nth snd R ((0, false, 0%Q) : report_item) i) as M1.
      pose proof (map_nth inject_Z sol 0%Z i) as M2.
      rewrite Ei in M1. cbn [snd] in M1, M2. rewrite <- M1, <- M2, Hpos. reflexivity. }
    assert (Hi' : i < length PS) by lia.
    destruct (nth i PS (mkRitem 0 false 0, mkLitem 0 0 false)) as [r li] eqn:Epi.
    assert (Hin : In (r, li) PS) by (rewrite <- Epi; apply nth_In; exact Hi').
    apply sorted_pairs_In in Hin. destruct Hin as [_ Eli].
    assert (Hsh : shape r = (n_id nd, false)).
    { pose proof (map_nth rshape R ((0, false, 0%Q) : report_item) i) as M1.
      pose proof (map_nth (fun x : ritem * litem => shape (fst x)) PS (mkRitem 0 false 0, mkLitem 0 0 false) i) as M2.
      unfold report_item in *. rewrite Ei in M1. rewrite Epi in M2. cbn [rshape shape fst snd r_id r_stub] in M1, M2.
      rewrite <- M2. rewrite Hshape in M1. exact M1. }
    unfold shape in Hsh. injection Hsh as Hid Hst.
    (* the label's node in the table *)
    assert (Hidin : In (n_id nd) (map n_id E)).
    { eapply Permutation_in; [|apply in_map; exact Hnd]. rewrite <- EE. apply out_ids_perm. }
    apply in_map_iff in Hidin. destruct Hidin as [x [Ex Hx]].
    assert (FT : find_node (n_id nd) T = remove_stub x).
    { rewrite <- Ex. change (n_id x) with (n_id (remove_stub x)). apply find_node_NoDup; [exact NT|].
      eapply Permutation_in; [symmetry; exact PT|]. now apply in_map. }
    assert (FE : find_node (n_id nd) E = x) by (rewrite <- Ex; now apply find_node_NoDup).
    pose proof (label_nodes_In labels x Hx) as [Cx _].
    assert (Wx : n_width nd = n_width x).
    { pose proof (nodes_after_compute solve E e None nd NE (label_nodes_scrubbed labels)) as L.
      assert (Est : st0 = mkState E e None).
      { unfold st0, fresh_state. f_equal. apply label_nodes_scrub. }
      rewrite Est in Hnd. specialize (L Hnd). unfold lab_of in L. rewrite FE in L. injection L as _ L. symmetry. exact L. }
    exists (layer_item li). split; [|split; [|split; [|exact Hc]]].
    - unfold its. change (layer_item li) with ((fun x : ritem * litem => layer_item (snd x)) (r, li)).
      apply map_nth_error. rewrite <- Epi. apply nth_error_nth'. exact Hi'.
    - rewrite Eli. unfold layer_item, litem_of, node_of. cbn [Layer.stub li_stub].
      rewrite Hid, Hst, FT. cbn [remove_stub n_child]. rewrite Cx. reflexivity.
    - rewrite Eli. unfold layer_item, litem_of, node_of. cbn [Layer.wid li_width].
      rewrite Hid, Hst, FT. cbn [remove_stub n_width]. symmetry. exact Wx. }
  destruct (In_nth _ _ (0, false, 0%Q) Ra) as [i [Hi Ei]].
  destruct (In_nth _ _ (0, false, 0%Q) Rb) as [j [Hj Ej]].
  destruct (Item a (n_cur a) i Ha Hi Ei) as [ia [Nia [Sia [Wia Cia]]]].
  destruct (Item b (n_cur b) j Hb Hj Ej) as [ib [Nib [Sib [Wib Cib]]]].
  split; [exists (nth i sol 0%Z), (nth j sol 0%Z); split; assumption|].
  assert (Nij : i <> j).
  { intro Eij. subst j. rewrite Ei in Ej. injection Ej as Eid _. contradiction. }
  unfold node_sep. rewrite <- Wia, <- Wib, Cia, Cib.
  assert (X : i < j \/ j < i) by lia. destruct X as [Lt|Gt].
  - left. rewrite <- Hsrt in Nia, Nib.
    exact (LayerProofs.C01_pairwise_labels_lemma o its i j ia ib Ook Iok Lt Nia Nib (or_introl Sia)).
  - right. rewrite <- Hsrt in Nia, Nib.
    exact (LayerProofs.C01_pairwise_labels_lemma o its j i ib ia Ook Iok Gt Nib Nia (or_introl Sib)).
Qed.

(* ================= the scene side =========================================== *)

Lemma nth_error_map_inv {A B} (f : A -> B) : forall l n y,
  nth_error (map f l) n = Some y -> exists x, nth_error l n = Some x /\ y = f x.
Proof.
  induction l as [|a l IH]; intros [|n] y H; cbn in H; try discriminate.
  - injection H as <-. exists a. split; reflexivity.
  - apply IH in H. exact H.
Qed.

Lemma chain_length rep nd : length (chain_of rep nd) = S (n_layer nd).
Proof. unfold chain_of. rewrite app_length, map_length, seq_length. cbn [length]. lia. Qed.

Lemma scene_label_layer d p its rep nd :
  l_layer (scene_label d p its rep nd) = Z.of_nat (n_layer nd).
Proof. unfold l_layer, scene_label. cbn [l_chain]. rewrite chain_length. lia. Qed.

Lemma scene_label_cur d p its rep nd : l_cur (scene_label d p its rep nd) = qz (n_cur nd).
Proof. unfold l_cur, scene_label, chain_of. cbn [l_chain]. apply last_last. Qed.

Lemma scene_label_width d p its rep nd :
  l_width d (scene_label d p its rep nd) = ti_along d p (nth (n_id nd) its tl_item0).
Proof. unfold l_width, scene_label, ti_along. cbn [l_w l_h]. reflexivity. Qed.

Lemma scene_label_chain_nonempty d p its rep nd : l_chain (scene_label d p its rep nd) <> [].
Proof. unfold scene_label, chain_of. cbn [l_chain]. intro H. apply app_eq_nil in H. destruct H; discriminate. Qed.

(* what the engine knows of a node is what get_nodes put there *)
Lemma out_node_label e labels nd : In nd (st_nodes (Force.layout e labels)) ->
  n_id nd < length labels /\
  n_width nd = Distribute.l_width (nth (n_id nd) labels label0) /\
  n_pos nd = Distribute.l_pos (nth (n_id nd) labels label0).
Proof.
  intro H. rewrite layout_fresh in H. unfold fresh_state in H. rewrite label_nodes_scrub in H.
  set (E := label_nodes labels) in *.
  pose proof (nodes_after_compute solve E e None nd (label_nodes_nodup labels) (label_nodes_scrubbed labels) H) as L.
  assert (Hid : In (n_id nd) (map n_id E)).
  { eapply Permutation_in; [|apply in_map; exact H].
    apply (out_ids_perm (mkState E e None)). }
  apply in_map_iff in Hid. destruct Hid as [x [Ex Hx]].
  assert (FE : find_node (n_id nd) E = x) by (rewrite <- Ex; apply find_node_NoDup; [apply label_nodes_nodup|exact Hx]).
  unfold lab_of in L. rewrite FE in L. injection L as Lp Lw.
  destruct (label_nodes_In labels x Hx) as [_ [Hlt [Hw Hp]]]. rewrite Ex in Hlt, Hw, Hp.
  repeat split; congruence.
Qed.

Lemma engine_labels_nth d p its i : i < length its ->
  nth i (engine_labels d p its) label0 =
  Distribute.mkLabel (ti_pos (nth i its tl_item0)) (ti_along d p (nth i its tl_item0)).
Proof.
  intro H. unfold engine_labels.
  rewrite (nth_indep _ label0 ((fun it => Distribute.mkLabel (ti_pos it) (ti_along d p it)) tl_item0))
    by (rewrite map_length; exact H).
  exact (map_nth (fun it => Distribute.mkLabel (ti_pos it) (ti_along d p it)) its tl_item0 i).
Qed.

Lemma out_node_along d p e its nd : In nd (st_nodes (engine_result d p e its)) ->
  n_width nd = ti_along d p (nth (n_id nd) its tl_item0) /\ n_pos nd = ti_pos (nth (n_id nd) its tl_item0).
Proof.
  intro H. unfold engine_result in H. destruct (out_node_label _ _ _ H) as [Hlt [Hw Hp]].
  unfold engine_labels in Hlt. rewrite map_length in Hlt.
  rewrite engine_labels_nth in Hw, Hp by exact Hlt. cbn in Hw, Hp. split; assumption.
Qed.

(* the documented domain on the timeline's side *)
Definition compose_dom (d : direction) (p : padding) (e : eopts) (its : list tl_item) : Prop :=
  engine_dom e (label_nodes (engine_labels d p its)) /\ lineSp_ok e /\
  (forall it, In it its -> (0 <= ti_width it)%Q) /\
  (0 <= padL p)%Q /\ (0 <= padR p)%Q /\ (0 <= padT p)%Q /\ (0 <= padB p)%Q.

(* ... which is: item widths > 0, paddings >= 0, and the engine options in
   their documented ranges *)
Lemma compose_dom_simple d p e its :
  (forall it, In it its -> (0 < ti_width it)%Q) ->
  (0 <= padL p)%Q -> (0 <= padR p)%Q -> (0 <= padT p)%Q -> (0 <= padB p)%Q ->
  (0 <= e_spacing e)%Q -> (0 <= e_stub e)%Q -> (0 < e_density e)%Q -> lineSp_ok e ->
  compose_dom d p e its.
Proof.
  intros W PL PR PT PB Sp St De Ls. unfold compose_dom.
  split; [|split; [exact Ls|split; [intros it H; apply Qlt_le_weak, W, H|tauto]]].
  unfold engine_dom, dist_dom. split; [|repeat split; assumption].
  intros l Hl. apply in_map_iff in Hl. destruct Hl as [nd [<- Hnd]].
  destruct (label_nodes_In _ nd Hnd) as [_ [Hlt [Hw _]]].
  unfold engine_labels in Hlt. rewrite map_length in Hlt.
  rewrite engine_labels_nth in Hw by exact Hlt.
  unfold label_of. cbn [Distribute.l_width]. rewrite Hw. cbn [Distribute.l_width].
  pose proof (W _ (nth_In its tl_item0 Hlt)) as Wi.
  unfold ti_along, ti_size, node_size, item_size, item_height.
  destruct (sideways d), (text_shown (ti_text (nth (n_id nd) its tl_item0))); cbn [andb fst snd]; lra.
Qed.

Lemma scene_labels_wf d p e its : compose_dom d p e its ->
  forall l, In l (scene_labels d p e its) -> label_wf l.
Proof.
  intros [_ [_ [W [PL [PR [PT PB]]]]]] l H. unfold scene_labels in H.
  apply in_map_iff in H. destruct H as [nd [<- _]].
  unfold label_wf. split; [apply scene_label_chain_nonempty|].
  unfold scene_label. cbn [l_w l_h]. unfold ti_size. apply node_size_nonneg; try assumption.
  destruct (nth_in_or_default (n_id nd) its tl_item0) as [H|H]; [apply W, H|rewrite H; cbn; lra].
Qed.

(* the scene built from the engine's layout satisfies the hypothesis
   `separated` of the rendering theorems *)
Theorem engine_separated_lemma d p e its : compose_dom d p e its ->
  forall i j a b,
    nth_error (scene_labels d p e its) i = Some a -> nth_error (scene_labels d p e its) j = Some b ->
    i <> j -> l_layer a = l_layer b ->
    separated d (e_spacing e) a b \/ separated d (e_spacing e) b a.
Proof.
  intros [D [Hl _]] i j a b Ea Eb Nij Lay. unfold scene_labels in Ea, Eb.
  set (st := engine_result d p e its) in *. set (rep := reported st) in *.
  apply nth_error_map_inv in Ea. destruct Ea as [na [Ena ->]].
  apply nth_error_map_inv in Eb. destruct Eb as [nb [Enb ->]].
  assert (Ha : In na (st_nodes st)) by (eapply nth_error_In; exact Ena).
  assert (Hb : In nb (st_nodes st)) by (eapply nth_error_In; exact Enb).
  assert (ND : NoDup (map n_id (st_nodes st))).
  { eapply Permutation_NoDup.
    - symmetry. unfold st, engine_result. rewrite layout_fresh. apply out_ids_perm.
    - unfold fresh_state. cbn [st_nodes]. rewrite label_nodes_scrub. apply label_nodes_nodup. }
  assert (Nid : n_id na <> n_id nb).
  { intro E. apply Nij. rewrite NoDup_nth_error in ND. apply ND.
    - rewrite map_length. apply nth_error_Some. congruence.
    - rewrite (map_nth_error n_id i _ Ena), (map_nth_error n_id j _ Enb), E. reflexivity. }
  rewrite !scene_label_layer in Lay. apply Nat2Z.inj in Lay.
  destruct (engine_pair_separated e _ na nb D Hl Ha Hb Nid Lay) as [[za [zb [Ca Cb]]] S].
  destruct (out_node_along d p e its na Ha) as [Wa _].
  destruct (out_node_along d p e its nb Hb) as [Wb _].
  unfold separated. rewrite !scene_label_cur, !scene_label_width, <- Wa, <- Wb.
  assert (Qa : inject_Z (qz (n_cur na)) = n_cur na) by (rewrite Ca; unfold qz; rewrite QUtilProofs.floor_inject; reflexivity).
  assert (Qb : inject_Z (qz (n_cur nb)) = n_cur nb) by (rewrite Cb; unfold qz; rewrite QUtilProofs.floor_inject; reflexivity).
  rewrite Qa, Qb. exact S.
Qed.

(* ---------- C08 for the engine's layout, no `separated` hypothesis left ------- *)
Theorem engine_boxes_disjoint d p G e its :
  (3 <= e_spacing e)%Q -> (1 <= G)%Q -> compose_dom d p e its ->
  let ls := scene_labels d p e its in
  forall i j a b, nth_error ls i = Some a -> nth_error ls j = Some b -> i <> j ->
    rect_disjoint (label_box d G (node_height d ls) a) (label_box d G (node_height d ls) b).
Proof.
  intros Hs HG Dom ls. apply (boxes_disjoint d G (e_spacing e) ls Hs HG).
  - apply scene_labels_wf, Dom.
  - apply engine_separated_lemma, Dom.
Qed.

Theorem engine_box_side d p G e its l :
  (0 <= G)%Q -> compose_dom d p e its ->
  let ls := scene_labels d p e its in
  In l ls ->
  (G - 1 < cross_near d (label_box d G (node_height d ls) l))%Q /\
  (cross_near d (label_box d G (node_height d ls) l) <= cross_far d (label_box d G (node_height d ls) l))%Q.
Proof. intros HG Dom ls H. apply box_side_list; [exact HG|exact H|apply scene_labels_wf, Dom]. Qed.

Theorem engine_box_layers d p G e its a b :
  (1 <= G)%Q -> compose_dom d p e its ->
  let ls := scene_labels d p e its in
  In a ls -> In b ls -> (l_layer a < l_layer b)%Z ->
  (cross_far d (label_box d G (node_height d ls) a) < cross_near d (label_box d G (node_height d ls) b))%Q.
Proof. intros HG Dom ls Ha Hb. apply box_layers_list; [exact HG|exact Ha|exact Hb|apply scene_labels_wf, Dom]. Qed.

(* the label of node nd is drawn in the engine's layer and at the engine's position *)
Theorem scene_label_engine d p its rep nd :
  let l := scene_label d p its rep nd in
  l_layer l = Z.of_nat (n_layer nd) /\ l_cur l = qz (n_cur nd) /\ l_ideal l = n_pos nd /\
  length (l_chain l) = S (n_layer nd).
Proof.
  cbn zeta. split; [apply scene_label_layer|]. split; [apply scene_label_cur|].
  split; [reflexivity|apply chain_length].
Qed.

(* both back-ends, on the scene export() draws from *)
Theorem engine_drawn_disjoint o ticks e its :
  (3 <= e_spacing e)%Q -> (1 <= o_gap o)%Q -> compose_dom (o_dir o) (o_pad o) e its ->
  let s := engine_scene o ticks e its in
  forall pic, pic = geom_svg (svg_doc_of s) \/ pic = geom_tikz (tikz_doc_of s) ->
  forall i j bi bj, nth_error (pc_boxes pic) i = Some bi -> nth_error (pc_boxes pic) j = Some bj -> i <> j ->
    rect_disjoint (pbox_rect bi) (pbox_rect bj).
Proof.
  intros Hs HG Dom s. apply (drawn_boxes_disjoint s (e_spacing e) Hs HG).
  - apply scene_labels_wf, Dom.
  - apply engine_separated_lemma, Dom.
Qed.

(* ---------- the chain really is the reported positions of the label's stubs ---- *)

Lemma report_item_pair e R PS id b c : layer_report_ok e R PS -> In (id, b, c) R ->
  (exists r li, In (r, li) PS /\ r_id r = id) /\ exists z, c = inject_Z z.
Proof.
  intros [Hshape [Hpos _]] H. cbn zeta in Hshape, Hpos. split.
  - assert (H1 : In (id, b) (map rshape R)).
    { change (id, b) with (rshape (id, b, c)). apply in_map. exact H. }
    rewrite Hshape in H1. apply in_map_iff in H1. destruct H1 as [[r li] [E Hin]].
    exists r, li. split; [exact Hin|]. unfold shape in E. cbn [fst] in E. congruence.
  - assert (H1 : In c (map snd R)) by (change c with (snd (id, b, c)); apply in_map; exact H).
    rewrite Hpos in H1. apply in_map_iff in H1. destruct H1 as [z [E _]]. exists z. symmetry. exact E.
Qed.

Theorem engine_chain_stubs_lemma d p e its : compose_dom d p e its ->
  let st := engine_result d p e its in
  forall nd, In nd (st_nodes st) ->
    In (n_id nd, false, inject_Z (last (chain_of (reported st) nd) 0%Z)) (nth (n_layer nd) (reported st) []) /\
    forall j, j < n_layer nd ->
      let c := inject_Z (nth j (chain_of (reported st) nd) 0%Z) in
      In (n_id nd, true, c) (nth j (reported st) []) /\
      forall b c', In (n_id nd, b, c') (nth j (reported st) []) -> b = true /\ c' = c.
Proof.
  intros [D [Hl _]] st nd Hnd. unfold st, engine_result in *. rewrite layout_fresh in *.
  set (labels := engine_labels d p its) in *. set (st0 := fresh_state e labels) in *.
  assert (EE : st_nodes st0 = label_nodes labels) by (unfold st0, fresh_state; cbn [st_nodes]; apply label_nodes_scrub).
  assert (D0 : engine_dom (st_opts st0) (st_nodes st0)) by (rewrite EE; exact D).
  assert (N0 : NoDup (map n_id (st_nodes st0))) by (rewrite EE; apply label_nodes_nodup).
  pose proof (out_node_reported st0 nd D0 Hnd) as Rk.
  destruct (all_layers_real st0 D0 Hl) as [rep [Erep F]].
  destruct (targets_real st0 D0 N0) as [rep' [Erep' Tg]].
  rewrite Erep in Erep'. injection Erep' as <-.
  unfold reported in *. rewrite Erep in *.
  set (id := n_id nd) in *. set (k := n_layer nd) in *.
  assert (OK : forall j, layer_report_ok e (nth j rep []) (nth j (compute_pairs st0) [])).
  { intro j. apply (Forall2_nth (layer_report_ok e) [] [] (layer_report_ok_nil e) _ _ F j). }
  (* own position *)
  destruct (proj2 (report_item_pair e _ _ id false (n_cur nd) (OK k) Rk)) as [zk Ezk].
  split.
  { unfold chain_of. rewrite last_last. fold id. unfold qz. rewrite Ezk, QUtilProofs.floor_inject.
    rewrite <- Ezk. exact Rk. }
  (* one layer down *)
  assert (Down : forall j', (exists b c, In (id, b, c) (nth (S j') rep [])) ->
            exists c, In (id, true, c) (nth j' rep []) /\
                      forall b c', In (id, b, c') (nth j' rep []) -> b = true /\ c' = c).
  { intros j' [b [c H]].
    destruct (proj1 (report_item_pair e _ _ id b c (OK (S j')) H)) as [r [li [Hin Hid]]].
    specialize (Tg (S j') r li Hin). cbn iota in Tg. rewrite Hid in Tg.
    destruct Tg as [c0 [H1 [_ H2]]]. exists c0. split; assumption. }
  assert (Any : forall m, m <= k -> exists b c, In (id, b, c) (nth (k - m) rep [])).
  { induction m as [|m IH]; intro Hm.
    - rewrite Nat.sub_0_r. exists false, (n_cur nd). exact Rk.
    - destruct (Down (k - S m)) as [c [H _]].
      + replace (S (k - S m)) with (k - m) by lia. apply IH. lia.
      + exists true, c. exact H. }
  intros j Hj. cbn zeta.
  destruct (Down j) as [c [Hc Uc]].
  { replace (S j) with (k - (k - S j)) by lia. apply Any. lia. }
  destruct (proj2 (report_item_pair e _ _ id true c (OK j) Hc)) as [z Ez].
  assert (Ech : inject_Z (nth j (chain_of rep nd) 0%Z) = c).
  { unfold chain_of. fold id k. rewrite app_nth1 by (rewrite map_length, seq_length; exact Hj).
    rewrite (nth_indep _ 0%Z ((fun j => qz (pos_in (nth j rep []) id)) 0)) by (rewrite map_length, seq_length; exact Hj).
    rewrite (map_nth (fun j => qz (pos_in (nth j rep []) id)) (seq 0 k) 0 j), seq_nth by exact Hj.
    cbn [plus]. unfold pos_in.
    destruct (find (fun x : report_item => fst (fst x) =? id) (nth j rep [])) as [[[i' b'] c']|] eqn:Ef.
    - apply find_some in Ef. destruct Ef as [Hin Heq]. cbn [fst] in Heq. apply Nat.eqb_eq in Heq. subst i'.
      destruct (Uc b' c' Hin) as [_ ->]. cbn [snd]. unfold qz. rewrite Ez, QUtilProofs.floor_inject. reflexivity.
    - exfalso. pose proof (find_none _ _ Ef _ Hc) as X. cbn [fst] in X. rewrite Nat.eqb_refl in X. discriminate. }
  rewrite Ech. split; [exact Hc|exact Uc].
Qed.
