(* The whole of  TimelineSVG(data, options).export()  /  TimelineTex(...).export()
   (labella/timeline.py) from the RAW input to the two structured documents:

     Axis      (Render/Axis.v)     parse_items, init_axis (explicit domain, or extent
                                   + nice()), range from sizes/margins/direction,
                                   scale(time) per datum, ticks and tick texts
     Compose   (Render/Compose.v)  get_nodes (padded sizes, left/right swap),
                                   Force(options["labella"]).nodes(..).compute()
                                   (Layout/Force.v: distributor + per-layer solver),
                                   the scene labels with their stub chains
     Scene     (Render/Scene.v)    the SVG and the TikZ emitter

   Nothing but the caller's input enters: per datum the time value, the width,
   the text and the values of function-valued colour options; the options; the
   engine options; and `today` (datetime.date.today(), used by parse_items for
   bare time-of-day values only).  Model only: no proofs here. *)
From Coq Require Import ZArith NArith QArith List Bool.
From Labella Require Import Layout.ForceState Layout.Force.
From Labella Require Import Render.Geometry Render.Scene Render.Axis Render.Compose.
Import ListNotations.
Open Scope Q_scope.

(* one dict of the caller's data list *)
Record raw_datum := mkRawDatum {
  rd_time : tval;                 (* d["time"] *)
  rd_width : Q;                   (* d["width"] (explicit) *)
  rd_text : option (list N);      (* d.get("text") *)
  rd_fcols : list (list N)        (* colour options given as functions, applied to d, by role *)
}.

Record raw_in := mkRawIn {
  ri_kind : scale_kind;                  (* options["scale"]: a LinearScale, or the default TimeScale *)
  ri_data : list raw_datum;
  ri_domain : option (tval * tval);      (* options["domain"] *)
  ri_opts : opts;                        (* direction, sizes, margins, layerGap, padding, dotRadius,
                                            showTicks, showBorder, latex.tickCross, colours *)
  ri_engine : eopts;                     (* Force defaults updated with options["labella"] *)
  ri_today : Z * Z * Z
}.

(* Timeline.__init__: parse_items + init_axis see the times and the axis options *)
Definition ri_axis (r : raw_in) : axis_in :=
  mk_axis_in (ri_kind r) (map rd_time (ri_data r)) (ri_domain r) (ri_opts r) (ri_today r).

(* get_nodes: Node(self.timePos(it.data), it.width, data=it), one per item, in data order *)
Definition item_of (pd : Q * raw_datum) : tl_item :=
  mkTlItem (fst pd) (rd_width (snd pd)) (rd_text (snd pd)) (rd_fcols (snd pd)).
Definition items_of (dots : list Q) (data : list raw_datum) : list tl_item :=
  map item_of (combine dots data).

(* add_axis: zip(map(scale, ticks), map(tickFormat, ticks)) *)
Definition ticks_of (ax : axis_out) : list (Q * list N) := combine (ax_ticks ax) (ax_tick_text ax).

(* everything export() draws from *)
Definition scene_of (r : raw_in) (ax : axis_out) : scene :=
  engine_scene (ri_opts r) (ticks_of ax) (ri_engine r) (items_of (ax_dots ax) (ri_data r)).

Definition pipeline_scene (r : raw_in) : ares scene :=
  abind (axis (ri_axis r)) (fun ax => AOk (scene_of r ax)).

Definition timeline_docs (r : raw_in) : ares (svg_doc * tikz_doc) :=
  abind (pipeline_scene r) (fun s => AOk (svg_doc_of s, tikz_doc_of s)).
