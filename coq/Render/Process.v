(* Process-level model of labella/timeline.py object plumbing (property C10).

   What can make one timeline's export depend on another timeline is which
   mutable objects they reference.  After construction (timeline.py:142-166) an
   instance holds its data, its own copy of the option dict, and a reference
   to a scale object: a fresh TimeScale() when the caller gave none
   (timeline.py `if "scale" not in options`), the caller's object otherwise.
   init_axis (timeline.py:202-214) re-domains / re-ranges the scale THROUGH
   that reference at construction time; export() (timeline.py:323-345,
   521-560) reads it.  Nothing else is written after construction.

   The model is generic in the data D, options Opt, scale state Sc and document
   Doc (Section variables: the concrete functions are the other packages'
   business); what it fixes is the reference structure.  Model only. *)
From Coq Require Import List Arith Bool.
Import ListNotations.

Section Proc.
Variables D Opt Sc Doc : Type.
Variable init_axis : D -> Opt -> Sc -> Sc.   (* domain(...).nice(); range(...) on the referenced scale *)
Variable render : D -> Opt -> Sc -> Doc.    (* export(): reads data, options and the referenced scale *)
Variable s_fresh : Sc.                    (* state of a newly constructed TimeScale() *)

Inductive scale_choice := Default | Caller (c : nat).

Inductive op :=
| Construct (id : nat) (d : D) (o : Opt) (sc : scale_choice)
| Export (id : nat).

Record inst := { i_data : D; i_opts : Opt; i_cell : nat }.

(* cells 0..K-1 are the caller's own scale objects; later cells are the
   per-instance default scales *)
Record state := { cells : list Sc; insts : list (nat * inst) }.

Fixpoint set_nth (n : nat) (x : Sc) (l : list Sc) : list Sc :=
  match l, n with
  | [], _ => []
  | _ :: t, O => x :: t
  | h :: t, S n' => h :: set_nth n' x t
  end.

Fixpoint lookup (id : nat) (l : list (nat * inst)) : option inst :=
  match l with
  | [] => None
  | (k, v) :: t => if Nat.eqb k id then Some v else lookup id t
  end.

Definition step (st : state) (o : op) : state * option Doc :=
  match o with
  | Construct id d opts Default =>
      let c := length (cells st) in
      ({| cells := cells st ++ [init_axis d opts s_fresh];
          insts := (id, {| i_data := d; i_opts := opts; i_cell := c |}) :: insts st |}, None)
  | Construct id d opts (Caller c) =>
      ({| cells := set_nth c (init_axis d opts (nth c (cells st) s_fresh)) (cells st);
          insts := (id, {| i_data := d; i_opts := opts; i_cell := c |}) :: insts st |}, None)
  | Export id =>
      (st, match lookup id (insts st) with
           | Some i => Some (render (i_data i) (i_opts i) (nth (i_cell i) (cells st) s_fresh))
           | None => None
           end)
  end.

(* outputs of the Export operations of a history, in order *)
Fixpoint run (st : state) (h : list op) : list (option Doc) :=
  match h with
  | [] => []
  | o :: h' => let (st', out) := step st o in
               match o with
               | Export _ => out :: run st' h'
               | _ => run st' h'
               end
  end.

Definition init_state (caller_cells : list Sc) : state :=
  {| cells := caller_cells; insts := [] |}.

(* ---------------- the stateless specification ------------------------- *)

(* the latest construction of [id] in a prefix *)
Definition latest (id : nat) (prefix : list op) : option (D * Opt * scale_choice) :=
  fold_left (fun acc o => match o with
                          | Construct k d opts sc => if Nat.eqb k id then Some (d, opts, sc) else acc
                          | Export _ => acc
                          end) prefix None.

(* the state of caller cell c after a prefix: only constructions that were
   GIVEN that very object touch it *)
Definition cell_trace (c : nat) (prefix : list op) (s0 : Sc) : Sc :=
  fold_left (fun s o => match o with
                        | Construct _ d opts (Caller c') => if Nat.eqb c' c then init_axis d opts s else s
                        | _ => s
                        end) prefix s0.

Definition spec_export (caller_cells : list Sc) (prefix : list op) (id : nat) : option Doc :=
  match latest id prefix with
  | Some (d, opts, Default) => Some (render d opts (init_axis d opts s_fresh))
  | Some (d, opts, Caller c) => Some (render d opts (cell_trace c prefix (nth c caller_cells s_fresh)))
  | None => None
  end.

Fixpoint spec_run (caller_cells : list Sc) (prefix h : list op) : list (option Doc) :=
  match h with
  | [] => []
  | Export id :: h' => spec_export caller_cells prefix id :: spec_run caller_cells (prefix ++ [Export id]) h'
  | o :: h' => spec_run caller_cells (prefix ++ [o]) h'
  end.

(* histories only name caller objects that exist *)
Definition wf_op (K : nat) (o : op) : bool :=
  match o with
  | Construct _ _ _ (Caller c) => Nat.ltb c K
  | _ => true
  end.
Definition wf_hist (K : nat) (h : list op) : bool := forallb (wf_op K) h.

End Proc.

Arguments Construct {D Opt} id d o sc.
Arguments Export {D Opt} id.

(* ---------------- the OLD plumbing (history) ---------------------------
   Before the repair every default-scale timeline referenced the one
   module-level TimeScale() of DEFAULT_OPTIONS: cell 0. *)
Section ProcOld.
Variables D Opt Sc Doc : Type.
Variable init_axis : D -> Opt -> Sc -> Sc.
Variable render : D -> Opt -> Sc -> Doc.
Variable s_fresh : Sc.

Definition step_old (st : state D Opt Sc) (o : op D Opt) : state D Opt Sc * option Doc :=
  match o with
  | Construct id d opts Default =>
      step D Opt Sc Doc init_axis render s_fresh st (Construct id d opts (Caller 0))
  | _ => step D Opt Sc Doc init_axis render s_fresh st o
  end.

Fixpoint run_old (st : state D Opt Sc) (h : list (op D Opt)) : list (option Doc) :=
  match h with
  | [] => []
  | o :: h' => let (st', out) := step_old st o in
               match o with
               | Export _ => out :: run_old st' h'
               | _ => run_old st' h'
               end
  end.
End ProcOld.
