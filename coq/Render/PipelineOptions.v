(* Timeline(data, options).export() from the caller's RAW arguments: the option dictionary
   is merged and read by Render/Options.v (resolve), the result feeds the whole-pipeline
   model Render/Pipeline.v.  export_docs is the composition; export_total says it returns
   both documents for every documented input: options None / {} / any subset of the keys
   with values of the documented kinds, data in the documented domain of the scale kind
   the options select. *)
From Coq Require Import ZArith NArith QArith List Bool.
From Labella Require Import Render.Geometry Render.Scene Render.Axis Render.AxisProofs Render.Compose
  Render.Pipeline Render.PipelineProofs Layout.ForceState Render.Options Render.OptionsProofs.
Import ListNotations.

Definition raw_of_user (fresh : N) (user : option dict) (data : list raw_datum) (dom : option (tval * tval))
           (today : Z * Z * Z) : ores raw_in :=
  obind (resolve fresh user) (fun r =>
  OOk (mkRawIn (if r_linear r then SLinear else STime) data dom (r_opts r) (r_engine r) today)).

Definition export_docs (fresh : N) (user : option dict) (data : list raw_datum) (dom : option (tval * tval))
           (today : Z * Z * Z) : ores (ares (svg_doc * tikz_doc)) :=
  obind (raw_of_user fresh user data dom today) (fun r => OOk (timeline_docs r)).

(* Hypotheses: the options are in the documented domain (user_ok: any subset of the keys,
   given values of the documented kinds, valid colour codes, positive density ...) and the
   resolved input is in the documented domain of the pipeline model (pipeline_dom: non-empty
   data of the scale's kind, instants in 1900-2200, non-negative paddings and spacings ...). *)
Theorem export_total : forall fresh user data dom today,
  (match user with Some u => user_ok u | None => True end) ->
  (forall r, raw_of_user fresh user data dom today = OOk r -> pipeline_dom r) ->
  exists r s, raw_of_user fresh user data dom today = OOk r /\
              export_docs fresh user data dom today = OOk (AOk (svg_doc_of s, tikz_doc_of s)).
Proof.
  intros fresh user data dom today U D.
  assert (R : exists rs, resolve fresh user = OOk rs).
  { destruct user as [u|]; [now apply resolve_total|apply resolve_none_total]. }
  destruct R as [rs Ers].
  set (r := mkRawIn (if r_linear rs then SLinear else STime) data dom (r_opts rs) (r_engine rs) today).
  assert (Er : raw_of_user fresh user data dom today = OOk r) by (unfold raw_of_user; rewrite Ers; reflexivity).
  destruct (D r Er) as [DD _]. destruct (axis_total _ DD) as [ax Eax].
  exists r, (scene_of r ax). split; [exact Er|].
  unfold export_docs. rewrite Er. cbn [obind]. unfold timeline_docs, pipeline_scene. rewrite Eax. reflexivity.
Qed.
