(* Model of the geometry of labella's timeline rendering:
     labella/renderer.py  (Renderer.layout 94-128, getWayPoints 46-92,
                           generatePath 130-154, v/hCurveBetween 26-33)
     labella/timeline.py  (rotate_items 170-174, get_nodes 235-256,
                           compute 258-277 (nodeHeight), nodePos 307-315)
   The layout RESULT of the engine is an input here: a laid-out label carries
   the integer currentPos of its stubs from layer 0 outward followed by its own
   currentPos (`l_chain`, never empty; layer index = length - 1), exactly
   what `[h.currentPos for h in node.getPathFromRoot()]` gives after export().
   Doubles are modelled by exact rationals.  Model only: no proofs here. *)
From Coq Require Import ZArith QArith Qabs List Bool.
Import ListNotations.
Open Scope Q_scope.

(* ---------- Python primitives --------------------------------------------- *)
(* int(x) and "%i" % x truncate toward zero *)
Definition trunc (q : Q) : Z := Z.quot (Qnum q) (Zpos (Qden q)).

(* max(...) over a generator: keeps the first maximal element *)
Definition qmax (m x : Q) : Q := if Qle_bool x m then m else x.
Fixpoint max_from (m : Q) (l : list Q) : Q :=
  match l with [] => m | x :: r => max_from (qmax m x) r end.
Definition max_list (l : list Q) : Q :=
  match l with [] => 0 | x :: r => max_from x r end.   (* [] raises in Python: excluded *)

(* ---------- directions ----------------------------------------------------- *)
Inductive direction := Up | Down | Left | Right.
(* `direction in ["left", "right"]`: the axis is vertical, labels beside it *)
Definition sideways (d : direction) : bool :=
  match d with Left | Right => true | _ => false end.

Definition point := (Q * Q)%type.

(* ---------- sizes (timeline.py:81-104, 164-174, 235-256) ------------------- *)
(* Item.height is the constant 13.0 for explicit widths (timeline.py:101-104);
   equal_heights then changes nothing. *)
Definition item_height : Q := 13.
Record padding := mkPad { padL : Q; padR : Q; padT : Q; padB : Q }.

(* Python truthiness of `item.text` (None and "" are false) *)
Definition text_shown (t : option (list N)) : bool :=
  match t with Some (_ :: _) => true | _ => false end.

(* rotate_items: for left/right, items WITH text swap height and width *)
Definition item_size (d : direction) (width : Q) (t : option (list N)) : Q * Q :=
  if sideways d && text_shown t then (item_height, width) else (width, item_height).

(* get_nodes: w = item.width + left + right, h = item.height + top + bottom,
   then `node.h, node.w = node.w, node.h` for left/right.  Result (w, h). *)
Definition node_size (d : direction) (p : padding) (width : Q) (t : option (list N)) : Q * Q :=
  let '(iw, ih) := item_size d width t in
  let w := iw + padL p + padR p in
  let h := ih + padT p + padB p in
  if sideways d then (h, w) else (w, h).

(* ---------- laid-out labels ------------------------------------------------- *)
Record label := mkLabel {
  l_ideal : Q;              (* node.getRoot().idealPos = scale(time) *)
  l_w : Q;                  (* node.w: drawn width  (after the swap) *)
  l_h : Q;                  (* node.h: drawn height (after the swap) *)
  l_chain : list Z;         (* currentPos of the stubs, layer 0 first, then the label's own *)
  l_text : option (list N); (* node.data.text, code points *)
  l_fcols : list (list N)   (* values of colour options given as functions, by role *)
}.

(* node.width (get_nodes: `node.width = node.h` for left/right, else node.w):
   the extent along the axis *)
Definition l_width (d : direction) (l : label) : Q := if sideways d then l_h l else l_w l.
(* the extent across the axis: the quantity compute() maximises *)
Definition l_thick (d : direction) (l : label) : Q := if sideways d then l_w l else l_h l.
(* compute(): nodeHeight = max(n.w) for left/right, max(n.h) otherwise *)
Definition node_height (d : direction) (ls : list label) : Q := max_list (map (l_thick d) ls).

Definition l_cur (l : label) : Z := last (l_chain l) 0%Z.
Definition l_layer (l : label) : Z := Z.of_nat (length (l_chain l)) - 1.

(* ---------- Renderer.layout (renderer.py:94-128) --------------------------- *)
(* pos = layerIndex * (layerGap + nodeHeight) + layerGap *)
Definition layer_pos (G H : Q) (k : Z) : Q := inject_Z k * (G + H) + G.

Record placed := mkPlaced { px : Q; py : Q; pdx : Q; pdy : Q }.

Definition layout (d : direction) (G H : Q) (k : Z) (cur : Z) (width : Q) : placed :=
  let pos := layer_pos G H k in
  match d with
  | Left  => mkPlaced (- pos - H) (inject_Z cur) H width
  | Right => mkPlaced pos (inject_Z cur) H width
  | Up    => mkPlaced (inject_Z cur) (- pos - H) width H
  | Down  => mkPlaced (inject_Z cur) pos width H
  end.

(* Timeline.nodePos (timeline.py:307-315): origin of the label box *)
Definition node_pos (d : direction) (p : placed) (w : Q) : point :=
  match d with
  | Right => (px p, py p - pdy p / 2)
  | Left  => (px p - w + pdx p, py p - pdy p / 2)
  | Up | Down => (px p - pdx p / 2, py p)
  end.

Definition label_layout (d : direction) (G H : Q) (l : label) : placed :=
  layout d G H (l_layer l) (l_cur l) (l_width d l).
Definition label_origin (d : direction) (G H : Q) (l : label) : point :=
  node_pos d (label_layout d G H l) (l_w l).

(* ---------- way-points and paths (renderer.py:26-33, 46-92, 130-154) ------- *)
Inductive step := M (p : point) | C (c1 c2 p : point) | L (p : point).

Definition v_curve (p1 p2 : point) : step :=
  let midY := (snd p1 + snd p2) / 2 in C (fst p1, midY) (fst p2, midY) p2.
Definition h_curve (p1 p2 : point) : step :=
  let midX := (fst p1 + fst p2) / 2 in C (midX, snd p1) (midX, snd p2) p2.
Definition curve (d : direction) : point -> point -> step :=
  if sideways d then h_curve else v_curve.

(* out[0] = [[0, idealPos]] resp. [[idealPos, 0]] *)
Definition start_pt (d : direction) (ideal : Q) : point :=
  if sideways d then (0, ideal) else (ideal, 0).

(* the two way-points of the hop at `level` (0-based): near and far edge of
   that layer, at the hop's currentPos *)
Definition hop_pts (d : direction) (G H : Q) (level : Z) (cur : Z) : point * point :=
  let gap := H + G in
  let c := inject_Z cur in
  match d with
  | Left  => let xPos := gap * inject_Z (level + 1) * (-1 # 1) in ((xPos + H, c), (xPos, c))
  | Right => let xPos := gap * inject_Z (level + 1) in ((xPos - H, c), (xPos, c))
  | Up    => let yPos := gap * inject_Z (level + 1) * (-1 # 1) in ((c, yPos + H), (c, yPos))
  | Down  => let yPos := gap * inject_Z (level + 1) in ((c, yPos - H), (c, yPos))
  end.

Fixpoint hops (d : direction) (G H : Q) (level : Z) (ch : list Z) : list (point * point) :=
  match ch with
  | [] => []
  | c :: r => hop_pts d G H level c :: hops d G H (level + 1) r
  end.

(* getWayPoints: the start point and one pair per hop *)
Definition waypoints (d : direction) (G H : Q) (ideal : Q) (ch : list Z)
  : point * list (point * point) := (start_pt d ideal, hops d G H 0 ch).

(* generatePath's loop: a curve from the previous last point to the hop's near
   edge, and for every hop but the last a line to its far edge *)
Fixpoint path_from (d : direction) (prev : point) (hs : list (point * point)) : list step :=
  match hs with
  | [] => []
  | (p1, p2) :: r =>
      curve d prev p1 ::
      match r with
      | [] => []
      | _ :: _ => L p2 :: path_from d p2 r
      end
  end.

Definition generate_path (d : direction) (wp : point * list (point * point)) : list step :=
  M (fst wp) :: path_from d (fst wp) (snd wp).

Definition label_path (d : direction) (G H : Q) (l : label) : list step :=
  generate_path d (waypoints d G H (l_ideal l) (l_chain l)).

(* ---------- readers used by the theorems ----------------------------------- *)
Definition step_end (s : step) : point :=
  match s with M p => p | C _ _ p => p | L p => p end.

(* the drawn rectangle: origin truncated by "%i", size printed in full *)
Definition tpoint (p : point) : point := (inject_Z (trunc (fst p)), inject_Z (trunc (snd p))).
Record rect := mkRect { rx : Q; ry : Q; rw : Q; rh : Q }.
Definition label_box (d : direction) (G H : Q) (l : label) : rect :=
  let o := tpoint (label_origin d G H l) in mkRect (fst o) (snd o) (l_w l) (l_h l).
(* the same rectangle before truncation *)
Definition label_box_exact (d : direction) (G H : Q) (l : label) : rect :=
  let o := label_origin d G H l in mkRect (fst o) (snd o) (l_w l) (l_h l).

(* ---------- specification vocabulary for the link theorems ------------------- *)
Definition pt_eq (p q : point) : Prop := fst p == fst q /\ snd p == snd q.
Definition pt_within1 (p q : point) : Prop :=
  Qabs (fst p - fst q) < 1 /\ Qabs (snd p - snd q) < 1.

(* the point at distance `cross` from the axis on the label side, at
   coordinate `along` of the axis *)
Definition side_pt (d : direction) (cross along : Q) : point :=
  match d with
  | Right => (cross, along)
  | Left  => (- cross, along)
  | Down  => (along, cross)
  | Up    => (along, - cross)
  end.

Inductive kind := KM | KC | KL.
Definition step_kind (s : step) : kind :=
  match s with M _ => KM | C _ _ _ => KC | L _ => KL end.

(* what the link of a label with chain `ch` must pass after its start, in
   order: for the node of every layer (the label's stubs, then the label) a
   curve ending on the near edge of that layer at the node's position, and for
   every stub a straight line across the layer to its far edge *)
Fixpoint link_spec (d : direction) (G H : Q) (level : Z) (ch : list Z) : list (kind * point) :=
  match ch with
  | [] => []
  | c :: r =>
      (KC, side_pt d (layer_pos G H level) (inject_Z c)) ::
      match r with
      | [] => []
      | _ :: _ => (KL, side_pt d (layer_pos G H level + H) (inject_Z c)) :: link_spec d G H (level + 1) r
      end
  end.
Definition sig_eq (s : step) (e : kind * point) : Prop :=
  step_kind s = fst e /\ pt_eq (step_end s) (snd e).

Definition path_end (ss : list step) : point := step_end (last ss (M (0, 0))).

(* middle of the axis-facing edge of a box *)
Definition edge_mid (d : direction) (r : rect) : point :=
  match d with
  | Right => (rx r, ry r + rh r / 2)
  | Left  => (rx r + rw r, ry r + rh r / 2)
  | Down  => (rx r + rw r / 2, ry r)
  | Up    => (rx r + rw r / 2, ry r + rh r)
  end.

(* For `up` the box hangs from the far edge of its layer, so its axis-facing
   edge meets the end of the link only if the label is as thick as the layer
   (always so for explicit widths: every label is 13 + padding high).  For
   `left` nodePos compensates (x - w + dx), so no condition is needed. *)
Definition thickness_ok (d : direction) (H : Q) (l : label) : Prop :=
  match d with Up => l_h l == H | _ => True end.
