(* Extension of Render/Process.v (property C10): the caller's DATA objects are
   shared mutable cells too.  timeline.py parse_items writes the normalised
   time back into the caller's dicts (`d["time"] = time`, timeline.py:176-190),
   so two timelines constructed from the same list object see each other's
   write.  The write is a normalisation (date -> midnight datetime, time ->
   today+time) and is idempotent; this file models the data cells explicitly
   and proves that, because of idempotence, sharing a data list is harmless:
   every export still equals the stateless specification, which for a
   default-scale timeline mentions only its own (normalised) data and options.

   Limitation (audit 3, B1): `norm` is ONE function.  For bare time-of-day
   values the code's normalisation reads today's date, so it is really a
   family norm_day; a second pass is the identity whatever the day
   (norm_day2 (norm_day1 x) = norm_day1 x), hence a list of time-of-day
   values shared by timelines constructed on DIFFERENT days keeps the first
   day's dates.  That is sharing through an object the caller passed to both
   (which the property allows) and is outside this model: histories are taken
   within one day.

   Generic in the types and in init_axis / render / norm; the only hypothesis
   is norm_idem (Section hypothesis, discharged for the concrete normalisation
   by the tie: the harness re-uses the same data list objects across
   constructions).  Model and proofs in one file; statements in Props/C10.v. *)
From Coq Require Import List Arith Bool Lia.
Import ListNotations.

Section ProcData.
Variables D Opt Sc Doc : Type.
Variable norm : D -> D.                       (* parse_items' write-back *)
Hypothesis norm_idem : forall d, norm (norm d) = norm d.
Variable init_axis : D -> Opt -> Sc -> Sc.
Variable render : D -> Opt -> Sc -> Doc.
Variable s_fresh : Sc.
Variable d_none : D.                          (* default for out-of-range lookups; never reached on wf histories *)

Inductive scale_choice := Default | Caller (c : nat).

Inductive op :=
| Construct (id : nat) (dc : nat) (o : Opt) (sc : scale_choice)   (* dc: which caller data list object *)
| Export (id : nat).

Record inst := { i_dcell : nat; i_opts : Opt; i_cell : nat }.
Record state := { dcells : list D; cells : list Sc; insts : list (nat * inst) }.

Fixpoint set_nth {A} (n : nat) (x : A) (l : list A) : list A :=
  match l, n with
  | [], _ => []
  | _ :: t, O => x :: t
  | h :: t, S n' => h :: set_nth n' x t
  end.

Fixpoint lookup (id : nat) (l : list (nat * inst)) : option inst :=
  match l with
  | [] => None
  | (k, v) :: t => if Nat.eqb k id then Some v else lookup id t
  end.

Definition step (st : state) (o : op) : state * option Doc :=
  match o with
  | Construct id dc opts sc =>
      let d := norm (nth dc (dcells st) d_none) in
      let ds := set_nth dc d (dcells st) in
      match sc with
      | Default =>
          ({| dcells := ds; cells := cells st ++ [init_axis d opts s_fresh];
              insts := (id, {| i_dcell := dc; i_opts := opts; i_cell := length (cells st) |}) :: insts st |}, None)
      | Caller c =>
          ({| dcells := ds;
              cells := set_nth c (init_axis d opts (nth c (cells st) s_fresh)) (cells st);
              insts := (id, {| i_dcell := dc; i_opts := opts; i_cell := c |}) :: insts st |}, None)
      end
  | Export id =>
      (st, match lookup id (insts st) with
           | Some i => Some (render (nth (i_dcell i) (dcells st) d_none) (i_opts i)
                                    (nth (i_cell i) (cells st) s_fresh))
           | None => None
           end)
  end.

Fixpoint run (st : state) (h : list op) : list (option Doc) :=
  match h with
  | [] => []
  | o :: h' => let (st', out) := step st o in
               match o with
               | Export _ => out :: run st' h'
               | _ => run st' h'
               end
  end.

Definition init_state (data : list D) (caller_cells : list Sc) : state :=
  {| dcells := data; cells := caller_cells; insts := [] |}.

(* ---------------- stateless specification ---------------------------- *)
Definition latest (id : nat) (prefix : list op) : option (nat * Opt * scale_choice) :=
  fold_left (fun acc o => match o with
                          | Construct k dc opts sc => if Nat.eqb k id then Some (dc, opts, sc) else acc
                          | Export _ => acc
                          end) prefix None.

Definition cell_trace (data : list D) (c : nat) (prefix : list op) (s0 : Sc) : Sc :=
  fold_left (fun s o => match o with
                        | Construct _ dc opts (Caller c') =>
                            if Nat.eqb c' c then init_axis (norm (nth dc data d_none)) opts s else s
                        | _ => s
                        end) prefix s0.

Definition spec_export (data : list D) (caller_cells : list Sc) (prefix : list op) (id : nat) : option Doc :=
  match latest id prefix with
  | Some (dc, opts, Default) =>
      let d := norm (nth dc data d_none) in Some (render d opts (init_axis d opts s_fresh))
  | Some (dc, opts, Caller c) =>
      Some (render (norm (nth dc data d_none)) opts (cell_trace data c prefix (nth c caller_cells s_fresh)))
  | None => None
  end.

Fixpoint spec_run (data : list D) (cc : list Sc) (prefix h : list op) : list (option Doc) :=
  match h with
  | [] => []
  | Export id :: h' => spec_export data cc prefix id :: spec_run data cc (prefix ++ [Export id]) h'
  | o :: h' => spec_run data cc (prefix ++ [o]) h'
  end.

Definition wf_op (nd K : nat) (o : op) : bool :=
  match o with
  | Construct _ dc _ sc => Nat.ltb dc nd && match sc with Caller c => Nat.ltb c K | Default => true end
  | Export _ => true
  end.
Definition wf_hist (nd K : nat) (h : list op) : bool := forallb (wf_op nd K) h.

(* ---------------- proofs ---------------------------------------------- *)
Lemma set_nth_length {A} n (x : A) l : length (set_nth n x l) = length l.
Proof. revert n; induction l as [|h t IH]; intros [|n]; cbn; auto. Qed.

Lemma nth_set_nth_eq {A} n (x : A) l d : n < length l -> nth n (set_nth n x l) d = x.
Proof. revert n; induction l as [|h t IH]; intros [|n] H; cbn in *; try lia; auto. apply IH; lia. Qed.

Lemma nth_set_nth_neq {A} n m (x : A) l d : n <> m -> nth m (set_nth n x l) d = nth m l d.
Proof. revert n m; induction l as [|h t IH]; intros [|n] [|m] H; cbn; auto; congruence. Qed.

Lemma latest_snoc id prefix o :
  latest id (prefix ++ [o]) =
  match o with
  | Construct k dc opts sc => if Nat.eqb k id then Some (dc, opts, sc) else latest id prefix
  | Export _ => latest id prefix
  end.
Proof. unfold latest. rewrite fold_left_app. cbn. destruct o; reflexivity. Qed.

Lemma cell_trace_snoc data c prefix o s0 :
  cell_trace data c (prefix ++ [o]) s0 =
  match o with
  | Construct _ dc opts (Caller c') =>
      if Nat.eqb c' c then init_axis (norm (nth dc data d_none)) opts (cell_trace data c prefix s0)
      else cell_trace data c prefix s0
  | _ => cell_trace data c prefix s0
  end.
Proof. unfold cell_trace. rewrite fold_left_app. cbn. destruct o as [id dc opts [|c']|id]; reflexivity. Qed.

(* a data cell holds its initial content, or (once a construction was given it)
   the normalisation of its initial content *)
Definition inst_ok (data : list D) (K : nat) (st : state) (i : inst) (r : nat * Opt * scale_choice) : Prop :=
  let '(dc, opts, sc) := r in
  i_dcell i = dc /\ i_opts i = opts /\ dc < length data /\
  nth dc (dcells st) d_none = norm (nth dc data d_none) /\
  match sc with
  | Caller c => i_cell i = c /\ c < K
  | Default => K <= i_cell i < length (cells st) /\
               nth (i_cell i) (cells st) s_fresh = init_axis (norm (nth dc data d_none)) opts s_fresh
  end.

Definition Inv (data : list D) (cc : list Sc) (st : state) (prefix : list op) : Prop :=
  length (dcells st) = length data /\
  (forall dc, dc < length data ->
     nth dc (dcells st) d_none = nth dc data d_none \/
     nth dc (dcells st) d_none = norm (nth dc data d_none)) /\
  length cc <= length (cells st) /\
  (forall c, c < length cc ->
     nth c (cells st) s_fresh = cell_trace data c prefix (nth c cc s_fresh)) /\
  (forall id, match lookup id (insts st), latest id prefix with
              | Some i, Some r => inst_ok data (length cc) st i r
              | None, None => True
              | _, _ => False
              end).

Lemma Inv_init data cc : Inv data cc (init_state data cc) [].
Proof. unfold Inv, init_state; cbn. repeat split; auto. Qed.

Lemma Inv_step data cc st prefix o :
  Inv data cc st prefix -> wf_op (length data) (length cc) o = true ->
  Inv data cc (fst (step st o)) (prefix ++ [o]).
Proof.
  intros (Hdl & Hd & Hlen & Hcells & Hinsts) Hwf.
  destruct o as [id dc opts sc|id].
  - cbn in Hwf. apply andb_true_iff in Hwf as [Hdc Hsc]. apply Nat.ltb_lt in Hdc.
    assert (Hnew : norm (nth dc (dcells st) d_none) = norm (nth dc data d_none)).
    { destruct (Hd dc Hdc) as [E|E]; rewrite E; [reflexivity|apply norm_idem]. }
    assert (Hd' : forall dc', dc' < length data ->
              nth dc' (set_nth dc (norm (nth dc (dcells st) d_none)) (dcells st)) d_none = nth dc' data d_none \/
              nth dc' (set_nth dc (norm (nth dc (dcells st) d_none)) (dcells st)) d_none = norm (nth dc' data d_none)).
    { intros dc' Hdc'. destruct (Nat.eq_dec dc dc') as [<-|Hne].
      - right. rewrite nth_set_nth_eq by lia. exact Hnew.
      - rewrite nth_set_nth_neq by exact Hne. apply Hd; exact Hdc'. }
    assert (Hkeep : forall dc', dc' < length data ->
              nth dc' (dcells st) d_none = norm (nth dc' data d_none) ->
              nth dc' (set_nth dc (norm (nth dc (dcells st) d_none)) (dcells st)) d_none = norm (nth dc' data d_none)).
    { intros dc' Hdc' E. destruct (Nat.eq_dec dc dc') as [<-|Hne].
      - rewrite nth_set_nth_eq by lia. exact Hnew.
      - rewrite nth_set_nth_neq by exact Hne. exact E. }
    destruct sc as [|c]; cbn [step fst]; rewrite Hnew.
    + (* default scale: fresh scale cell *)
      unfold Inv; cbn [dcells cells insts].
      split; [rewrite set_nth_length; exact Hdl|]. split; [rewrite <- Hnew; exact Hd'|].
      split; [rewrite app_length; cbn; lia|]. split.
      * intros c Hc. rewrite app_nth1 by lia. rewrite cell_trace_snoc. apply Hcells; exact Hc.
      * intro id'. rewrite latest_snoc. cbn [lookup].
        destruct (Nat.eqb id id') eqn:E.
        -- unfold inst_ok; cbn. repeat split; auto; rewrite ?app_length; cbn; try lia.
           ++ rewrite <- Hnew. rewrite nth_set_nth_eq by lia. reflexivity.
           ++ rewrite app_nth2 by lia. rewrite Nat.sub_diag. reflexivity.
        -- specialize (Hinsts id').
           destruct (lookup id' (insts st)) as [i|], (latest id' prefix) as [[[dc' o'] sc']|]; auto.
           unfold inst_ok in *; cbn [dcells cells].
           destruct Hinsts as (H1 & H2 & H3 & H5 & H6). repeat split; auto.
           ++ rewrite <- Hnew. apply Hkeep; assumption.
           ++ destruct sc' as [|c']; auto. destruct H6 as ((Hlo & Hhi) & Hn).
              rewrite app_length; cbn. repeat split; try lia. rewrite app_nth1 by lia. exact Hn.
    + (* the caller's scale object c *)
      apply Nat.ltb_lt in Hsc.
      unfold Inv; cbn [dcells cells insts]. rewrite !set_nth_length.
      split; [exact Hdl|]. split; [rewrite <- Hnew; exact Hd'|]. split; [exact Hlen|]. split.
      * intros c' Hc'. rewrite cell_trace_snoc.
        destruct (Nat.eqb c c') eqn:E.
        -- apply Nat.eqb_eq in E; subst c'. rewrite nth_set_nth_eq by lia. rewrite Hcells by lia. reflexivity.
        -- apply Nat.eqb_neq in E. rewrite nth_set_nth_neq by exact E. apply Hcells; exact Hc'.
      * intro id'. rewrite latest_snoc. cbn [lookup].
        destruct (Nat.eqb id id') eqn:E.
        -- unfold inst_ok; cbn. repeat split; auto.
           rewrite <- Hnew. rewrite nth_set_nth_eq by lia. reflexivity.
        -- specialize (Hinsts id').
           destruct (lookup id' (insts st)) as [i|], (latest id' prefix) as [[[dc' o'] sc']|]; auto.
           unfold inst_ok in *; cbn [dcells cells].
           destruct Hinsts as (H1 & H2 & H3 & H5 & H6). repeat split; auto.
           ++ rewrite <- Hnew. apply Hkeep; assumption.
           ++ destruct sc' as [|c']; auto. destruct H6 as ((Hlo & Hhi) & Hn).
              rewrite set_nth_length. repeat split; try lia.
              rewrite nth_set_nth_neq by lia. exact Hn.
  - cbn [step fst]. unfold Inv. split; [exact Hdl|]. split; [exact Hd|]. split; [exact Hlen|]. split.
    + intros c Hc. rewrite cell_trace_snoc. apply Hcells; exact Hc.
    + intro id'. rewrite latest_snoc. apply Hinsts.
Qed.

Lemma export_matches data cc st prefix id :
  Inv data cc st prefix -> snd (step st (Export id)) = spec_export data cc prefix id.
Proof.
  intros (Hdl & Hd & Hlen & Hcells & Hinsts). cbn [step snd]. unfold spec_export.
  specialize (Hinsts id).
  destruct (lookup id (insts st)) as [i|], (latest id prefix) as [[[dc o] sc]|]; try contradiction; auto.
  unfold inst_ok in Hinsts. destruct Hinsts as (-> & -> & Hdc & Hdat & H3).
  rewrite Hdat. destruct sc as [|c].
  - destruct H3 as (_ & ->). reflexivity.
  - destruct H3 as (-> & Hc). rewrite Hcells by exact Hc. reflexivity.
Qed.

Theorem run_refines_spec data cc : forall h st prefix,
  Inv data cc st prefix -> wf_hist (length data) (length cc) h = true ->
  run st h = spec_run data cc prefix h.
Proof.
  induction h as [|o h IH]; intros st prefix HI Hwf; [reflexivity|].
  cbn [wf_hist forallb] in Hwf. apply andb_true_iff in Hwf as [Hwo Hwh].
  pose proof (Inv_step data cc st prefix o HI Hwo) as HI'.
  cbn [run spec_run].
  destruct (step st o) as [st' out] eqn:Es. cbn [fst] in HI'.
  destruct o as [id dc opts sc|id].
  - apply IH; assumption.
  - f_equal.
    + pose proof (export_matches data cc st prefix id HI) as Hm. rewrite Es in Hm. exact Hm.
    + apply IH; assumption.
Qed.

Corollary isolation_data data cc h :
  wf_hist (length data) (length cc) h = true ->
  run (init_state data cc) h = spec_run data cc [] h.
Proof. intro H. apply run_refines_spec; [apply Inv_init|exact H]. Qed.

Lemma spec_default_own data cc prefix id dc opts :
  latest id prefix = Some (dc, opts, Default) ->
  spec_export data cc prefix id =
  Some (render (norm (nth dc data d_none)) opts (init_axis (norm (nth dc data d_none)) opts s_fresh)).
Proof. intro H. unfold spec_export. rewrite H. reflexivity. Qed.

End ProcData.
