(* Structured-document models of the two emitters of labella/timeline.py:
     TimelineSVG (timeline.py:323-518)  ->  svg_doc
     TimelineTex (timeline.py:521-851)  ->  tikz_doc
   written separately, line for line after the code, and `geom`, which reads
   the drawn geometry out of either document.  Numbers keep the printf format
   they are printed with.  Text is a list of code points.  The TeX conversion
   of label texts (labella.tex.uni2tex, property C19) is applied by the real
   emitter to the bodies of the \def\text.. macros; the model keeps the raw
   text there.  Model only: no proofs here. *)
From Coq Require Import ZArith NArith QArith Qabs Qround List Bool.
From Labella Require Import Text.Utils Render.Geometry.
Import ListNotations.
Open Scope Q_scope.

(* ---------- numbers with their print format --------------------------------- *)
Inductive num :=
| Fi  (x : Q)    (* "%i"    : truncation toward zero *)
| F6  (x : Q)    (* "%f"    : 6 decimals *)
| F8  (x : Q)    (* "%.8f"  *)
| F16 (x : Q)    (* "%.16f" *)
| Fs  (x : Q)    (* str(x) of a Python int or float: shortest round-trip form *)
| Fl  (z : Z).   (* an integer literal of the template *)

(* the value a reader obtains, the decimal rounding of F6/F8/F16 not modelled
   (it moves the value by at most half a unit of the last printed digit) *)
Definition nval (n : num) : Q :=
  match n with
  | Fi x => inject_Z (trunc x)
  | F6 x | F8 x | F16 x | Fs x => x
  | Fl z => inject_Z z
  end.

(* the decimal the format prints: "%.kf" rounds the exact binary value to k
   decimals, half to even (CPython's float formatting is correctly rounded);
   str() is the shortest string that reads back as the same double *)
Definition dec_round (q : Q) : Z :=
  let f := Qfloor q in
  match Qcompare (q - inject_Z f) (1 # 2) with
  | Lt => f
  | Gt => (f + 1)%Z
  | Eq => if Z.even f then f else (f + 1)%Z
  end.
Definition round_dec (k : positive) (x : Q) : Q :=
  inject_Z (dec_round (x * inject_Z (Zpos k))) / inject_Z (Zpos k).
Definition pow6 : positive := 1000000.
Definition pow8 : positive := 100000000.
Definition pow16 : positive := 10000000000000000.
Definition nprint (n : num) : Q :=
  match n with
  | Fi x => inject_Z (trunc x)
  | F6 x => round_dec pow6 x
  | F8 x => round_dec pow8 x
  | F16 x => round_dec pow16 x
  | Fs x => x
  | Fl z => inject_Z z
  end.
(* how far the printed decimal can be from nval *)
Definition ntol (n : num) : Q :=
  match n with
  | F6 _ => 1 # (2 * pow6)
  | F8 _ => 1 # (2 * pow8)
  | F16 _ => 1 # (2 * pow16)
  | _ => 0
  end.

Definition npoint := (num * num)%type.
Inductive nstep := NM (p : npoint) | NC (c1 c2 p : npoint) | NL (p : npoint).

Definition p8 (p : point) : npoint := (F8 (fst p), F8 (snd p)).
(* moveTo / curveTo / lineTo: every coordinate "%.8f" (renderer.py:11-23) *)
Definition step8 (s : step) : nstep :=
  match s with
  | M p => NM (p8 p)
  | C c1 c2 p => NC (p8 c1) (p8 c2) (p8 p)
  | L p => NL (p8 p)
  end.

(* ---------- options ----------------------------------------------------------- *)
Inductive role := RDot | RBg | RText | RLink | RBorder.
Definition role_idx (r : role) : nat :=
  match r with RDot => 0 | RBg => 1 | RText => 2 | RLink => 3 | RBorder => 4 end%nat.

(* a colour option: one code, a list cycled by node index, or a function of the datum *)
Inductive colour_opt := CConst (c : list N) | CList (cs : list (list N)) | CFun.

Record opts := mkOpts {
  o_dir : direction;
  o_iw : Q; o_ih : Q;                       (* initialWidth, initialHeight *)
  o_ml : Q; o_mr : Q; o_mt : Q; o_mb : Q;   (* margin *)
  o_gap : Q;                                (* layerGap *)
  o_pad : padding;                          (* labelPadding *)
  o_dotr : Q;                               (* dotRadius *)
  o_ticks : bool; o_border : bool;          (* showTicks, showBorder *)
  o_cross : bool;                           (* latex.tickCross *)
  o_cdot : colour_opt; o_cbg : colour_opt; o_ctext : colour_opt;
  o_clink : colour_opt; o_cborder : colour_opt
}.

Definition opt_col (o : opts) (r : role) : colour_opt :=
  match r with
  | RDot => o_cdot o | RBg => o_cbg o | RText => o_ctext o
  | RLink => o_clink o | RBorder => o_cborder o
  end.

(* Timeline.colorFunc (timeline.py:279-283) *)
Definition color_func (o : opts) (r : role) (i : N) (l : label) : list N :=
  match opt_col o r with
  | CConst c => c
  | CList cs => nth (N.to_nat (i mod N.of_nat (length cs))) cs []
  | CFun => nth (role_idx r) (l_fcols l) []
  end.

(* getInnerDims (timeline.py:222-233) *)
Definition inner_w (o : opts) : Q := o_iw o - o_ml o - o_mr o.
Definition inner_h (o : opts) : Q := o_ih o - o_mt o - o_mb o.

(* everything export() draws from: options, the scale's ticks as
   (scale(t), tickFormat(t)), and the laid-out labels in `self.nodes` order *)
Record scene := mkScene {
  sc_opts : opts;
  sc_ticks : list (Q * list N);
  sc_labels : list label
}.

Definition sc_H (s : scene) : Q := node_height (o_dir (sc_opts s)) (sc_labels s).
Definition sc_origin (s : scene) (l : label) : point :=
  label_origin (o_dir (sc_opts s)) (o_gap (sc_opts s)) (sc_H s) l.
Definition sc_path (s : scene) (l : label) : list step :=
  label_path (o_dir (sc_opts s)) (o_gap (sc_opts s)) (sc_H s) l.

Fixpoint mapi {A B : Type} (f : N -> A -> B) (i : N) (l : list A) : list B :=
  match l with
  | [] => []
  | x :: r => f i x :: mapi f (i + 1)%N r
  end.

(* ================================ SVG ======================================== *)
Inductive svg_anchor := AMiddle | AEnd | AStart.

Record svg_tick := mkSvgTick {
  stk_tr : npoint;            (* transform="translate(..)" of the tick group *)
  stk_x2 : Z; stk_y2 : Z;     (* the tick mark *)
  stk_anchor : svg_anchor;
  stk_tx : Z; stk_ty : Z;     (* x, y of the text *)
  stk_dy : N;                 (* dy in hundredths of an em *)
  stk_text : list N
}.
Record svg_link := mkSvgLink { slk_stroke : option (list N); slk_d : list nstep }.
Record svg_text := mkSvgText {
  stx_x : num; stx_y : num; stx_fill : option (list N); stx_body : list N }.
Record svg_label := mkSvgLabel {
  slb_tr : npoint; slb_w : num; slb_h : num;
  slb_fill : option (list N);
  slb_stroke : option (option (list N));    (* present iff showBorder *)
  slb_text : option svg_text                (* present iff the text is non-empty *)
}.
Record svg_dot := mkSvgDot {
  sdt_r : num; sdt_fill : option (list N); sdt_cx : option num; sdt_cy : option num }.
Record svg_doc := mkSvg {
  sv_width : num; sv_height : num;
  sv_margin : npoint;                       (* outer translate: margins *)
  sv_main : npoint;                         (* translate of the main layer *)
  sv_axis_x2 : option num; sv_axis_y2 : option num;
  sv_ticks : option (list svg_tick);        (* axis layer, present iff showTicks *)
  sv_links : list svg_link;
  sv_labels : list svg_label;
  sv_dots : list svg_dot
}.

(* add_main (timeline.py:360-372) *)
Definition svg_main (o : opts) : npoint :=
  match o_dir o with
  | Right => (Fl 0, Fl 0)
  | Left  => (Fi (inner_w o), Fl 0)
  | Up    => (Fl 0, Fi (inner_h o))
  | Down  => (Fl 0, Fl 0)
  end.

(* add_axis (timeline.py:374-427) *)
Definition svg_tick_of (d : direction) (t : Q * list N) : svg_tick :=
  let '(pos, text) := t in
  match d with
  | Down  => mkSvgTick (F16 pos, Fl 0) 0 (-6) AMiddle 0 (-9) 0 text
  | Right => mkSvgTick (Fl 0, F16 pos) (-6) 0 AEnd (-9) 0 32 text
  | Left  => mkSvgTick (Fl 0, F16 pos) 6 0 AStart 9 0 32 text
  | Up    => mkSvgTick (F16 pos, Fl 0) 0 6 AMiddle 0 9 71 text
  end.

(* add_links (timeline.py:452-465) *)
Definition svg_link_of (s : scene) (i : N) (l : label) : svg_link :=
  mkSvgLink (hex2rgbstr (color_func (sc_opts s) RLink i l)) (map step8 (sc_path s l)).

(* add_labels (timeline.py:467-518) *)
Definition svg_label_of (s : scene) (i : N) (l : label) : svg_label :=
  let o := sc_opts s in
  let p := sc_origin s l in
  mkSvgLabel (Fi (fst p), Fi (snd p)) (Fs (l_w l)) (Fs (l_h l))
    (hex2rgbstr (color_func o RBg i l))
    (if o_border o then Some (hex2rgbstr (color_func o RBorder i l)) else None)
    (if text_shown (l_text l)
     then Some (mkSvgText (Fs (padL (o_pad o))) (Fs (padT (o_pad o)))
                  (hex2rgbstr (color_func o RText i l))
                  (match l_text l with Some t => t | None => [] end))
     else None).

(* add_dots (timeline.py:440-450) *)
Definition svg_dot_of (s : scene) (i : N) (l : label) : svg_dot :=
  let o := sc_opts s in
  let c := Fs (l_ideal l) in
  mkSvgDot (Fs (o_dotr o)) (hex2rgbstr (color_func o RDot i l))
    (if sideways (o_dir o) then None else Some c)
    (if sideways (o_dir o) then Some c else None).

(* export (timeline.py:329-352), getTranslation, add_timeline (429-438) *)
Definition svg_doc_of (s : scene) : svg_doc :=
  let o := sc_opts s in
  mkSvg (Fs (o_iw o)) (Fs (o_ih o))
    (Fi (o_ml o), Fi (o_mt o))
    (svg_main o)
    (if sideways (o_dir o) then None else Some (Fs (inner_w o)))
    (if sideways (o_dir o) then Some (Fs (inner_h o)) else None)
    (if o_ticks o then Some (map (svg_tick_of (o_dir o)) (sc_ticks s)) else None)
    (mapi (svg_link_of s) 0 (sc_labels s))
    (mapi (svg_label_of s) 0 (sc_labels s))
    (mapi (svg_dot_of s) 0 (sc_labels s)).

(* ================================ TikZ ======================================= *)
(* a colour macro name: <role>Color<ID> with ID = int2name(i) *)
Definition cname := (role * list N)%type.
Inductive tikz_anchor := ANorth | ASouth | AWest | AEast.

Record tikz_tick := mkTikzTick {
  ttk_shift : npoint;
  ttk_from : Z * Z; ttk_to : Z * Z;       (* tick mark end points, in pt *)
  ttk_anchor : tikz_anchor;
  ttk_text : list N
}.
Inductive tikz_seg :=
| TCurve (col : cname) (p0 c1 c2 p : npoint)
| TLine  (col : cname) (p0 p : npoint).
Record tikz_label := mkTikzLabel {
  tlb_shift : npoint;
  tlb_border : option cname;              (* present iff showBorder *)
  tlb_bg : cname;
  tlb_w : num; tlb_h : num;
  tlb_textcol : cname;
  tlb_text : option (list N)              (* ID of the \text<ID> macro, iff text non-empty *)
}.
Record tikz_dot := mkTikzDot { tdt_size : num; tdt_fill : cname; tdt_at : npoint }.
Record tikz_doc := mkTikz {
  tk_border : num * num * num * num;      (* standalone border: left bottom right top *)
  tk_colors : list (cname * list N);      (* \definecolor{name}{HTML}{code}, in order *)
  tk_texts : list (list N * list N);      (* \def\text<ID>{uni2tex text}: ID, raw text *)
  tk_margin : npoint;
  tk_main : npoint;
  tk_axis : npoint;                       (* \draw (0, 0) -- (..) *)
  tk_ticks : option (list tikz_tick);
  tk_links : list (list tikz_seg);        (* one group of \draw commands per node *)
  tk_labels : list tikz_label;
  tk_dots : list tikz_dot
}.

(* add_header_colors (timeline.py:595-631): dot, labelBg, labelText, link, and
   border only when showBorder *)
Definition tikz_coldefs (s : scene) (r : role) : list (cname * list N) :=
  mapi (fun i l => ((r, int2name i), hex2html (color_func (sc_opts s) r i l))) 0 (sc_labels s).
Definition tikz_colors (s : scene) : list (cname * list N) :=
  tikz_coldefs s RDot ++ tikz_coldefs s RBg ++ tikz_coldefs s RText ++ tikz_coldefs s RLink
  ++ (if o_border (sc_opts s) then tikz_coldefs s RBorder else []).

(* add_header_text (timeline.py:651-659) *)
Definition tikz_texts (s : scene) : list (list N * list N) :=
  concat (mapi (fun i l =>
    if text_shown (l_text l)
    then [(int2name i, match l_text l with Some t => t | None => [] end)]
    else []) 0 (sc_labels s)).

(* add_main (timeline.py:670-679) *)
Definition tikz_main (o : opts) : npoint :=
  match o_dir o with
  | Right | Down => (Fi 0, Fi 0)
  | Left => (Fi (inner_w o), Fi 0)
  | Up => (Fi 0, Fi (inner_h o))
  end.

(* add_axis (timeline.py:698-741) *)
Definition tikz_tick_of (o : opts) (t : Q * list N) : tikz_tick :=
  let '(pos, text) := t in
  let ts := if o_cross o then 6%Z else 0%Z in
  match o_dir o with
  | Up    => mkTikzTick (Fi pos, Fi 0) (0, ts)%Z (0, -6)%Z ANorth text
  | Down  => mkTikzTick (Fi pos, Fi 0) (0, - ts)%Z (0, 6)%Z ASouth text
  | Left  => mkTikzTick (Fi 0, Fi pos) (- ts, 0)%Z (6, 0)%Z AWest text
  | Right => mkTikzTick (Fi 0, Fi pos) (ts, 0)%Z (-6, 0)%Z AEast text
  end.

(* add_links (timeline.py:743-785): the step strings are replayed; M sets the
   current position, C and L emit one \draw from it and move it *)
Fixpoint tikz_replay (col : cname) (cur : npoint) (steps : list nstep) : list tikz_seg :=
  match steps with
  | [] => []
  | NM p :: r => tikz_replay col p r
  | NC c1 c2 p :: r => TCurve col cur c1 c2 p :: tikz_replay col p r
  | NL p :: r => TLine col cur p :: tikz_replay col p r
  end.
Definition tikz_link_of (s : scene) (i : N) (l : label) : list tikz_seg :=
  tikz_replay (RLink, int2name i) (Fl 0, Fl 0) (map step8 (sc_path s l)).

(* add_labels (timeline.py:787-828) *)
Definition tikz_label_of (s : scene) (i : N) (l : label) : tikz_label :=
  let o := sc_opts s in
  let p := sc_origin s l in
  let ID := int2name i in
  mkTikzLabel (Fi (fst p), Fi (snd p))
    (if o_border o then Some (RBorder, ID) else None)
    (RBg, ID) (Fs (l_w l)) (Fs (l_h l)) (RText, ID)
    (if text_shown (l_text l) then Some ID else None).

(* add_dots (timeline.py:830-847) *)
Definition tikz_dot_of (s : scene) (i : N) (l : label) : tikz_dot :=
  let o := sc_opts s in
  mkTikzDot (Fs (2 * o_dotr o)) (RDot, int2name i)
    (if sideways (o_dir o) then (Fl 0, F6 (l_ideal l)) else (F6 (l_ideal l), Fl 0)).

(* export (timeline.py:527-559), add_header (561-593), add_margin (661-665),
   add_timeline (681-696) *)
Definition tikz_doc_of (s : scene) : tikz_doc :=
  let o := sc_opts s in
  mkTikz (F6 (o_ml o), F6 (o_mb o), F6 (o_mr o), F6 (o_mt o))
    (tikz_colors s) (tikz_texts s)
    (Fi (o_ml o), Fi (o_mr o))
    (tikz_main o)
    (if sideways (o_dir o) then (Fl 0, Fi (inner_h o)) else (Fi (inner_w o), Fl 0))
    (if o_ticks o then Some (map (tikz_tick_of o) (sc_ticks s)) else None)
    (mapi (tikz_link_of s) 0 (sc_labels s))
    (mapi (tikz_label_of s) 0 (sc_labels s))
    (mapi (tikz_dot_of s) 0 (sc_labels s)).

(* ============================ drawn geometry ================================= *)
Definition rgb := (N * N * N)%type.
Inductive seg := SCurve (p0 c1 c2 p : npoint) | SLine (p0 p : npoint).
Record pbox := mkPbox {
  pb_origin : npoint; pb_w : num; pb_h : num;
  pb_bg : option rgb;
  pb_border : option (option rgb);            (* outer None: no border drawn *)
  pb_text : option (option rgb * list N)      (* text colour and text, iff shown *)
}.
Record pdot := mkPdot { pd_at : npoint; pd_diam : Q; pd_fill : option rgb }.
Record picture := mkPicture {
  pc_main : npoint;                           (* shift of the main layer *)
  pc_axis : npoint;                           (* the axis runs from (0,0) to here *)
  pc_ticks : option (list (npoint * list N)); (* tick origin and text *)
  pc_links : list (option rgb * list seg);
  pc_boxes : list pbox;
  pc_dots : list pdot
}.

Definition svg_rgb (c : option (list N)) : option rgb :=
  match c with Some s => parse_rgbstr s | None => None end.

(* SVG path semantics: every command draws from the current point *)
Fixpoint svg_segs (cur : npoint) (steps : list nstep) : list seg :=
  match steps with
  | [] => []
  | NM p :: r => svg_segs p r
  | NC c1 c2 p :: r => SCurve cur c1 c2 p :: svg_segs p r
  | NL p :: r => SLine cur p :: svg_segs p r
  end.

Definition opt_num0 (n : option num) : num := match n with Some x => x | None => Fl 0 end.

Definition geom_svg (d : svg_doc) : picture :=
  mkPicture (sv_main d)
    (opt_num0 (sv_axis_x2 d), opt_num0 (sv_axis_y2 d))   (* absent x2/y2 default to 0 *)
    (match sv_ticks d with
     | Some ts => Some (map (fun t => (stk_tr t, stk_text t)) ts)
     | None => None end)
    (map (fun k => (svg_rgb (slk_stroke k), svg_segs (Fl 0, Fl 0) (slk_d k))) (sv_links d))
    (map (fun b => mkPbox (slb_tr b) (slb_w b) (slb_h b) (svg_rgb (slb_fill b))
                     (match slb_stroke b with Some c => Some (svg_rgb c) | None => None end)
                     (match slb_text b with
                      | Some t => Some (svg_rgb (stx_fill t), stx_body t)
                      | None => None end)) (sv_labels d))
    (map (fun c => mkPdot (opt_num0 (sdt_cx c), opt_num0 (sdt_cy c))   (* absent cx/cy = 0 *)
                     (2 * nval (sdt_r c)) (svg_rgb (sdt_fill c))) (sv_dots d)).

Definition role_eqb (a b : role) : bool := Nat.eqb (role_idx a) (role_idx b).
Fixpoint nlist_eqb (a b : list N) : bool :=
  match a, b with
  | [], [] => true
  | x :: a', y :: b' => N.eqb x y && nlist_eqb a' b'
  | _, _ => false
  end.
Definition cname_eqb (a b : cname) : bool := role_eqb (fst a) (fst b) && nlist_eqb (snd a) (snd b).

(* what a colour macro name stands for: the first \definecolor of that name *)
Fixpoint lookup_col (cs : list (cname * list N)) (n : cname) : option (list N) :=
  match cs with
  | [] => None
  | (m, code) :: r => if cname_eqb m n then Some code else lookup_col r n
  end.
Definition tikz_rgb (cs : list (cname * list N)) (n : cname) : option rgb :=
  match lookup_col cs n with Some code => triple_of_html code | None => None end.
Fixpoint lookup_text (ts : list (list N * list N)) (id : list N) : option (list N) :=
  match ts with
  | [] => None
  | (m, t) :: r => if nlist_eqb m id then Some t else lookup_text r id
  end.

Definition tikz_seg_geom (g : tikz_seg) : seg :=
  match g with
  | TCurve _ p0 c1 c2 p => SCurve p0 c1 c2 p
  | TLine _ p0 p => SLine p0 p
  end.
Definition tikz_seg_col (g : tikz_seg) : cname :=
  match g with TCurve c _ _ _ _ => c | TLine c _ _ => c end.

Definition geom_tikz (d : tikz_doc) : picture :=
  let cs := tk_colors d in
  mkPicture (tk_main d) (tk_axis d)
    (match tk_ticks d with
     | Some ts => Some (map (fun t => (ttk_shift t, ttk_text t)) ts)
     | None => None end)
    (map (fun k => (match k with g :: _ => tikz_rgb cs (tikz_seg_col g) | [] => None end,
                    map tikz_seg_geom k)) (tk_links d))
    (map (fun b => mkPbox (tlb_shift b) (tlb_w b) (tlb_h b) (tikz_rgb cs (tlb_bg b))
                     (match tlb_border b with Some c => Some (tikz_rgb cs c) | None => None end)
                     (match tlb_text b with
                      | Some id => match lookup_text (tk_texts d) id with
                                   | Some t => Some (tikz_rgb cs (tlb_textcol b), t)
                                   | None => None end
                      | None => None end)) (tk_labels d))
    (map (fun c => mkPdot (tdt_at c) (nval (tdt_size c)) (tikz_rgb cs (tdt_fill c))) (tk_dots d)).

(* ==================== vocabulary of the C07 / C09 statements ================== *)
(* two printed numbers denote the same value / values less than 1 apart *)
Definition num_same (a b : num) : Prop := nval a == nval b.
Definition num_close (a b : num) : Prop := Qabs (nval a - nval b) < 1.
Definition np_same (p q : npoint) : Prop := num_same (fst p) (fst q) /\ num_same (snd p) (snd q).
Definition np_close (p q : npoint) : Prop := num_close (fst p) (fst q) /\ num_close (snd p) (snd q).

Definition opt_rel {A B : Type} (R : A -> B -> Prop) (a : option A) (b : option B) : Prop :=
  match a, b with
  | Some x, Some y => R x y
  | None, None => True
  | _, _ => False
  end.

Definition tick_sim (a b : npoint * list N) : Prop := np_close (fst a) (fst b) /\ snd a = snd b.
Definition dot_sim (a b : pdot) : Prop :=
  np_same (pd_at a) (pd_at b) /\ pd_diam a == pd_diam b /\ pd_fill a = pd_fill b.

(* "the same picture": links and boxes are IDENTICAL (same print format, same
   value, same colour triple, same text); main-layer shift and dots denote the
   same values (Fl 0 / Fi 0; Fs x / F6 x); axis end and tick origins are within
   the 1-unit truncation (Fs x or F16 x against Fi x) *)
Definition picture_sim (p q : picture) : Prop :=
  np_same (pc_main p) (pc_main q) /\
  np_close (pc_axis p) (pc_axis q) /\
  opt_rel (Forall2 tick_sim) (pc_ticks p) (pc_ticks q) /\
  pc_links p = pc_links q /\
  pc_boxes p = pc_boxes q /\
  Forall2 dot_sim (pc_dots p) (pc_dots q).

(* the colour roles an export uses *)
Definition role_used (o : opts) (r : role) : bool :=
  match r with RBorder => o_border o | _ => true end.
(* documented domain: every colour a used option yields is '#'? + 3 or 6 hex digits *)
Definition colours_valid (s : scene) : Prop :=
  forall i l r, nth_error (sc_labels s) i = Some l -> role_used (sc_opts s) r = true ->
    valid_code (color_func (sc_opts s) r (N.of_nat i) l) = true.
(* every label has a chain (its own position at least) *)
Definition scene_wf (s : scene) : Prop := forall l, In l (sc_labels s) -> l_chain l <> [].

Definition np_along (d : direction) (p : npoint) : num := if sideways d then snd p else fst p.
Definition np_cross (d : direction) (p : npoint) : num := if sideways d then fst p else snd p.

Definition seg_start (g : seg) : npoint :=
  match g with SCurve p0 _ _ _ => p0 | SLine p0 _ => p0 end.
Definition seg_end (g : seg) : npoint :=
  match g with SCurve _ _ _ p => p | SLine _ p => p end.
(* each segment starts where the previous one ended, the first at `cur` *)
Fixpoint segs_continuous (cur : npoint) (gs : list seg) : Prop :=
  match gs with
  | [] => True
  | g :: r => seg_start g = cur /\ segs_continuous (seg_end g) r
  end.
