(* Proofs about Render/Process.v (property C10): every Export of every
   history equals the stateless specification. *)
From Coq Require Import List Arith Bool Lia.
From Labella Require Import Render.Process.
Import ListNotations.

Section Proofs.
Variables D Opt Sc Doc : Type.
Variable init_axis : D -> Opt -> Sc -> Sc.
Variable render : D -> Opt -> Sc -> Doc.
Variable s_fresh : Sc.

Notation state := (state D Opt Sc).
Notation op := (op D Opt).
Notation step := (step D Opt Sc Doc init_axis render s_fresh).
Notation run := (run D Opt Sc Doc init_axis render s_fresh).
Notation latest := (latest D Opt).
Notation cell_trace := (cell_trace D Opt Sc init_axis).
Notation spec_export := (spec_export D Opt Sc Doc init_axis render s_fresh).
Notation spec_run := (spec_run D Opt Sc Doc init_axis render s_fresh).
Notation set_nth := (set_nth Sc).
Notation lookup := (lookup D Opt).

Lemma set_nth_length n x l : length (set_nth n x l) = length l.
Proof. revert n; induction l as [|h t IH]; intros [|n]; cbn; auto. Qed.

Lemma nth_set_nth_eq n x l d : n < length l -> nth n (set_nth n x l) d = x.
Proof.
  revert n; induction l as [|h t IH]; intros [|n] H; cbn in *; try lia; auto.
  apply IH; lia.
Qed.

Lemma nth_set_nth_neq n m x l d : n <> m -> nth m (set_nth n x l) d = nth m l d.
Proof.
  revert n m; induction l as [|h t IH]; intros [|n] [|m] H; cbn; auto; try congruence.
Qed.

Lemma latest_snoc id prefix o :
  latest id (prefix ++ [o]) =
  match o with
  | Construct k d opts sc => if Nat.eqb k id then Some (d, opts, sc) else latest id prefix
  | Export _ => latest id prefix
  end.
Proof. unfold Process.latest. rewrite fold_left_app. cbn. destruct o; reflexivity. Qed.

Lemma cell_trace_snoc c prefix o s0 :
  cell_trace c (prefix ++ [o]) s0 =
  match o with
  | Construct _ d opts (Caller c') =>
      if Nat.eqb c' c then init_axis d opts (cell_trace c prefix s0) else cell_trace c prefix s0
  | _ => cell_trace c prefix s0
  end.
Proof.
  unfold Process.cell_trace. rewrite fold_left_app. cbn.
  destruct o as [id d opts [|c']|id]; reflexivity.
Qed.

(* the invariant relating a reachable state to the prefix that produced it *)
Definition inst_ok (K : nat) (st : state) (i : inst D Opt) (r : D * Opt * scale_choice) : Prop :=
  let '(d, opts, sc) := r in
  i_data _ _ i = d /\ i_opts _ _ i = opts /\
  match sc with
  | Caller c => i_cell _ _ i = c /\ c < K
  | Default => K <= i_cell _ _ i < length (cells _ _ _ st) /\
               nth (i_cell _ _ i) (cells _ _ _ st) s_fresh = init_axis d opts s_fresh
  end.

Definition Inv (cc : list Sc) (st : state) (prefix : list op) : Prop :=
  length cc <= length (cells _ _ _ st) /\
  (forall c, c < length cc ->
     nth c (cells _ _ _ st) s_fresh = cell_trace c prefix (nth c cc s_fresh)) /\
  (forall id, match lookup id (insts _ _ _ st), latest id prefix with
              | Some i, Some r => inst_ok (length cc) st i r
              | None, None => True
              | _, _ => False
              end).

Lemma Inv_init cc : Inv cc (init_state D Opt Sc cc) [].
Proof. unfold Inv, init_state; cbn. repeat split; auto. Qed.

Lemma Inv_step cc st prefix o :
  Inv cc st prefix -> wf_op D Opt (length cc) o = true ->
  Inv cc (fst (step st o)) (prefix ++ [o]).
Proof.
  intros (Hlen & Hcells & Hinsts) Hwf.
  destruct o as [id d opts [|c]|id]; cbn [Process.step fst].
  - (* Construct, default scale: a fresh cell *)
    unfold Inv; cbn [cells insts]. split; [rewrite app_length; cbn; lia|]. split.
    + intros c Hc. rewrite app_nth1 by lia. rewrite cell_trace_snoc. apply Hcells; exact Hc.
    + intro id'. rewrite latest_snoc. cbn [Process.lookup].
      destruct (Nat.eqb id id') eqn:E.
      * unfold inst_ok; cbn. repeat split; auto; rewrite ?app_length; cbn; try lia.
        rewrite app_nth2 by lia. rewrite Nat.sub_diag. reflexivity.
      * specialize (Hinsts id').
        destruct (lookup id' (insts _ _ _ st)) as [i|], (latest id' prefix) as [[[d' o'] sc']|]; auto.
        unfold inst_ok in *; cbn [cells]. destruct Hinsts as (H1 & H2 & H3). repeat split; auto.
        destruct sc' as [|c']; auto. destruct H3 as ((Hlo & Hhi) & Hn).
        rewrite app_length; cbn. repeat split; try lia. rewrite app_nth1 by lia. exact Hn.
  - (* Construct on the caller's object c *)
    cbn in Hwf. apply Nat.ltb_lt in Hwf.
    unfold Inv; cbn [cells insts]. rewrite set_nth_length. split; [exact Hlen|]. split.
    + intros c' Hc'. rewrite cell_trace_snoc.
      destruct (Nat.eqb c c') eqn:E.
      * apply Nat.eqb_eq in E; subst c'. rewrite nth_set_nth_eq by lia. rewrite Hcells by lia. reflexivity.
      * apply Nat.eqb_neq in E. rewrite nth_set_nth_neq by exact E. apply Hcells; exact Hc'.
    + intro id'. rewrite latest_snoc. cbn [Process.lookup].
      destruct (Nat.eqb id id') eqn:E.
      * unfold inst_ok; cbn. repeat split; auto.
      * specialize (Hinsts id').
        destruct (lookup id' (insts _ _ _ st)) as [i|], (latest id' prefix) as [[[d' o'] sc']|]; auto.
        unfold inst_ok in *; cbn [cells]. destruct Hinsts as (H1 & H2 & H3). repeat split; auto.
        destruct sc' as [|c']; auto. destruct H3 as ((Hlo & Hhi) & Hn).
        rewrite set_nth_length. repeat split; try lia.
        rewrite nth_set_nth_neq by lia. exact Hn.
  - (* Export changes nothing *)
    unfold Inv. split; [exact Hlen|]. split.
    + intros c Hc. rewrite cell_trace_snoc. apply Hcells; exact Hc.
    + intro id'. rewrite latest_snoc. apply Hinsts.
Qed.

Lemma export_matches cc st prefix id :
  Inv cc st prefix -> snd (step st (Export id)) = spec_export cc prefix id.
Proof.
  intros (Hlen & Hcells & Hinsts). cbn [Process.step snd]. unfold Process.spec_export.
  specialize (Hinsts id).
  destruct (lookup id (insts _ _ _ st)) as [i|], (latest id prefix) as [[[d o] sc]|]; try contradiction; auto.
  unfold inst_ok in Hinsts. destruct Hinsts as (-> & -> & H3).
  destruct sc as [|c].
  - destruct H3 as (_ & ->). reflexivity.
  - destruct H3 as (-> & Hc). rewrite Hcells by exact Hc. reflexivity.
Qed.

Theorem run_refines_spec cc : forall h st prefix,
  Inv cc st prefix -> wf_hist D Opt (length cc) h = true ->
  run st h = spec_run cc prefix h.
Proof.
  induction h as [|o h IH]; intros st prefix HI Hwf; [reflexivity|].
  cbn [wf_hist forallb] in Hwf. apply andb_true_iff in Hwf as [Hwo Hwh].
  pose proof (Inv_step cc st prefix o HI Hwo) as HI'.
  cbn [Process.run Process.spec_run].
  destruct (step st o) as [st' out] eqn:Es. cbn [fst] in HI'.
  destruct o as [id d opts sc|id].
  - apply IH; assumption.
  - f_equal.
    + pose proof (export_matches cc st prefix id HI) as Hm. rewrite Es in Hm. exact Hm.
    + apply IH; assumption.
Qed.

Corollary isolation cc h :
  wf_hist D Opt (length cc) h = true ->
  run (init_state D Opt Sc cc) h = spec_run cc [] h.
Proof. intro H. apply run_refines_spec; [apply Inv_init|exact H]. Qed.

(* exporting twice in a row gives identical documents *)
Lemma export_idempotent st id :
  fst (step st (Export id)) = st /\
  snd (step (fst (step st (Export id))) (Export id)) = snd (step st (Export id)).
Proof. cbn. split; reflexivity. Qed.

(* a default-scale timeline: the specification mentions nothing but its own
   data and options -- in particular not the rest of the history *)
Lemma spec_default_own cc prefix id d opts :
  latest id prefix = Some (d, opts, Default) ->
  spec_export cc prefix id = Some (render d opts (init_axis d opts s_fresh)).
Proof. intro H. unfold Process.spec_export. rewrite H. reflexivity. Qed.

End Proofs.
