(* The option dictionaries of labella/timeline.py:  Timeline.__init__ (timeline.py:141-160)
   merges the caller's `options` (None, {}, or any subset of the documented keys) with
   the module's DEFAULT_OPTIONS (timeline.py:38-72), merges the `latex` sub-dict key by
   key, gives every timeline its own scale and its own copy of the `labella` (engine)
   dict, and writes the direction into that copy.  Everything downstream then READS the
   merged dict with plain subscripts  self.options[k], self.options["margin"]["left"] ...
   which raise KeyError on a missing key.

   Model: Python dicts are association lists (insertion order, unique keys), keys are
   numbers (the harness maps the documented key strings to the constants below and any
   other string to a number >= 100), values are the small universe `oval`.  Model only;
   the proofs are in Render/OptionsProofs.v. *)
From Coq Require Import ZArith NArith QArith List Bool String Ascii.
From Labella Require Import Text.Utils Render.Geometry Render.Scene Layout.Distribute Layout.ForceState.
Import ListNotations.
Open Scope Q_scope.

Definition s2n (s : string) : list N := map N_of_ascii (list_ascii_of_string s).

Inductive oval :=
| VNone
| VBool (b : bool)
| VNum (q : Q)
| VStr (s : list N)
| VStrs (l : list (list N))         (* a list of strings (colour lists, latexmkOptions) *)
| VFun                              (* a callable *)
| VDict (d : list (N * oval))       (* a nested dict *)
| VScale (linear : bool) (oid : N). (* a LinearScale (true) or TimeScale (false) OBJECT; oid is its identity:
                                       0 = the module-level DEFAULT_OPTIONS["scale"], others chosen by the caller *)

Definition dict := list (N * oval).

(* d.get(k) / k in d / d[k] *)
Fixpoint dget (d : dict) (k : N) : option oval :=
  match d with
  | [] => None
  | (k', v) :: r => if N.eqb k' k then Some v else dget r k
  end.
(* d[k] = v : replaces in place, appends a new key at the end *)
Fixpoint dset (d : dict) (k : N) (v : oval) : dict :=
  match d with
  | [] => [(k, v)]
  | (k', v') :: r => if N.eqb k' k then (k', v) :: r else (k', v') :: dset r k v
  end.
(* d.update(e) *)
Definition dupdate (d e : dict) : dict := fold_left (fun acc kv => dset acc (fst kv) (snd kv)) e d.

(* ---- keys ------------------------------------------------------------------------- *)
Definition K_margin := 0%N.        Definition K_initialWidth := 1%N.  Definition K_initialHeight := 2%N.
Definition K_scale := 3%N.         Definition K_domain := 4%N.        Definition K_direction := 5%N.
Definition K_dotRadius := 6%N.     Definition K_layerGap := 7%N.      Definition K_labella := 8%N.
Definition K_timeFn := 9%N.        Definition K_textFn := 10%N.       Definition K_dotColor := 11%N.
Definition K_labelBgColor := 12%N. Definition K_labelTextColor := 13%N. Definition K_linkColor := 14%N.
Definition K_labelPadding := 15%N. Definition K_textXOffset := 16%N.  Definition K_textYOffset := 17%N.
Definition K_showTicks := 18%N.    Definition K_borderColor := 19%N.  Definition K_showBorder := 20%N.
Definition K_latex := 21%N.
Definition top_keys : list N := map N.of_nat (seq 0 22).

(* margin / labelPadding *)
Definition K_left := 0%N. Definition K_right := 1%N. Definition K_top := 2%N. Definition K_bottom := 3%N.
(* latex *)
Definition L_fontsize := 0%N. Definition L_borderThickness := 1%N. Definition L_axisThickness := 2%N.
Definition L_tickThickness := 3%N. Definition L_linkThickness := 4%N. Definition L_tickCross := 5%N.
Definition L_preamble := 6%N. Definition L_latexmkOptions := 7%N. Definition L_reproducible := 8%N.
Definition latex_keys : list N := map N.of_nat (seq 0 9).
(* labella (engine options, force.py:14-21, removeOverlap.py:12-17) *)
Definition E_nodeSpacing := 0%N. Definition E_minPos := 1%N. Definition E_maxPos := 2%N.
Definition E_algorithm := 3%N. Definition E_density := 4%N. Definition E_stubWidth := 5%N.
Definition E_lineSpacing := 6%N. Definition E_direction := 7%N.

(* ---- DEFAULT_OPTIONS (timeline.py:38-72) ------------------------------------------- *)
Definition default_latex : dict :=
  [ (L_fontsize, VStr (s2n "11pt")); (L_borderThickness, VStr (s2n "very thick"));
    (L_axisThickness, VStr (s2n "very thick")); (L_tickThickness, VStr (s2n "thick"));
    (L_linkThickness, VStr (s2n "very thick")); (L_tickCross, VBool false);
    (L_preamble, VStr []); (L_latexmkOptions, VStrs []); (L_reproducible, VBool false) ].

Definition default_options : dict :=
  [ (K_margin, VDict [(K_left, VNum 20); (K_right, VNum 20); (K_top, VNum 20); (K_bottom, VNum 20)]);
    (K_initialWidth, VNum 400); (K_initialHeight, VNum 400);
    (K_scale, VScale false 0); (K_domain, VNone); (K_direction, VStr (s2n "right"));
    (K_dotRadius, VNum 3); (K_layerGap, VNum 60); (K_labella, VDict []);
    (K_timeFn, VFun); (K_textFn, VFun);
    (K_dotColor, VStr (s2n "#222")); (K_labelBgColor, VStr (s2n "#222"));
    (K_labelTextColor, VStr (s2n "#fff")); (K_linkColor, VStr (s2n "#222"));
    (K_labelPadding, VDict [(K_left, VNum 2); (K_right, VNum 2); (K_top, VNum 3); (K_bottom, VNum 2)]);
    (K_textXOffset, VStr (s2n "0.15em")); (K_textYOffset, VStr (s2n "0.85em"));
    (K_showTicks, VBool true); (K_borderColor, VStr (s2n "#000")); (K_showBorder, VBool false);
    (K_latex, VDict default_latex) ].

(* ---- errors ------------------------------------------------------------------------- *)
Inductive oerr := OKeyError | OTypeError.
Inductive ores (A : Type) := OOk (a : A) | ORaise (e : oerr).
Arguments OOk {A} a. Arguments ORaise {A} e.
Definition obind {A B} (x : ores A) (f : A -> ores B) : ores B :=
  match x with OOk a => f a | ORaise e => ORaise e end.

(* d[k] *)
Definition sub (d : dict) (k : N) : ores oval :=
  match dget d k with Some v => OOk v | None => ORaise OKeyError end.

(* ---- Timeline.__init__ (timeline.py:141-160) ----------------------------------------
     options = {} if options is None else dict(options)
     latex_opts = {k: v for k, v in DEFAULT_OPTIONS["latex"].items()}
     if "latex" in options: latex_opts.update(options["latex"])     # needs a mapping
     options["latex"] = latex_opts
     self.options = {k: v for k, v in DEFAULT_OPTIONS.items()}
     if options: self.options.update(options)
     if "scale" not in options: self.options["scale"] = TimeScale()
     self.options["labella"] = dict(self.options["labella"])        # needs a mapping
     self.direction = self.options["direction"]
     self.options["labella"]["direction"] = self.direction
   `fresh` is the identity of the TimeScale() object this constructor call creates. *)
Definition tl_merge (fresh : N) (user : option dict) : ores dict :=
  let options := match user with None => [] | Some u => u end in
  obind (match dget options K_latex with
         | None => OOk default_latex
         | Some (VDict l) => OOk (dupdate default_latex l)
         | Some _ => ORaise OTypeError
         end) (fun latex_opts =>
  let options := dset options K_latex (VDict latex_opts) in
  let so := dupdate default_options options in
  let so := match dget options K_scale with Some _ => so | None => dset so K_scale (VScale false fresh) end in
  obind (sub so K_labella) (fun lab =>
  match lab with
  | VDict l =>
      obind (sub so K_direction) (fun dir =>
      OOk (dset so K_labella (VDict (dset l E_direction dir))))
  | _ => ORaise OTypeError
  end)).

(* ---- reading the merged dict ---------------------------------------------------------- *)
Definition as_num (v : oval) : ores Q :=
  match v with VNum q => OOk q | VBool b => OOk (if b then 1 else 0) | _ => ORaise OTypeError end.
(* Python truthiness *)
Definition truthy (v : oval) : bool :=
  match v with
  | VNone => false | VBool b => b | VNum q => negb (Qeq_bool q 0)
  | VStr s => negb (match s with [] => true | _ => false end)
  | VStrs l => negb (match l with [] => true | _ => false end)
  | VFun => true
  | VDict d => negb (match d with [] => true | _ => false end)
  | VScale _ _ => true
  end.

Definition str_eqb (a b : list N) : bool :=
  Nat.eqb (List.length a) (List.length b) && forallb (fun p => N.eqb (fst p) (snd p)) (combine a b).

Definition as_direction (v : oval) : ores direction :=
  match v with
  | VStr s => if str_eqb s (s2n "up") then OOk Up else if str_eqb s (s2n "down") then OOk Down
              else if str_eqb s (s2n "left") then OOk Left else if str_eqb s (s2n "right") then OOk Right
              else ORaise OTypeError
  | _ => ORaise OTypeError
  end.

(* self.options[k]["left"] ... : four subscripts of a nested dict *)
Definition four (d : dict) (k : N) : ores (Q * Q * Q * Q) :=
  obind (sub d k) (fun v =>
  match v with
  | VDict m =>
      obind (obind (sub m K_left) as_num) (fun l =>
      obind (obind (sub m K_right) as_num) (fun r =>
      obind (obind (sub m K_top) as_num) (fun t =>
      obind (obind (sub m K_bottom) as_num) (fun b => OOk (l, r, t, b)))))
  | _ => ORaise OTypeError
  end).

(* Timeline.colorFunc (timeline.py:279-283): a list is indexed modulo its length, a
   callable is applied to the datum, anything else is a constant *)
Definition as_colour (v : oval) : ores colour_opt :=
  match v with
  | VStr s => if valid_code s then OOk (CConst s) else ORaise OTypeError   (* hex2rgbstr / hex2html raise *)
  | VStrs [] => ORaise OTypeError          (* i % len([]) : ZeroDivisionError *)
  | VStrs l => if forallb valid_code l then OOk (CList l) else ORaise OTypeError
  | VFun => OOk CFun
  | _ => ORaise OTypeError                 (* a constant that is not a colour string *)
  end.
(* the border colour is only read when showBorder is on *)
Definition as_colour_if (used : bool) (v : oval) : ores colour_opt :=
  if used then as_colour v else OOk (match as_colour v with OOk c => c | ORaise _ => CConst [] end).

Definition as_algo (v : oval) : ores algo :=
  match v with
  | VStr s => if str_eqb s (s2n "overlap") then OOk AlgOverlap else if str_eqb s (s2n "simple") then OOk AlgSimple
              else if str_eqb s (s2n "none") then OOk AlgNone else ORaise OTypeError
  | _ => ORaise OTypeError
  end.
Definition as_optnum (v : oval) : ores (option Q) :=
  match v with VNone => OOk None | _ => obind (as_num v) (fun q => OOk (Some q)) end.

Definition opt_key {A} (d : dict) (k : N) (f : oval -> ores A) : ores (option A) :=
  match dget d k with None => OOk None | Some v => obind (f v) (fun a => OOk (Some a)) end.

(* Force(self.options["labella"]): the engine's own defaults updated with the keys given *)
Definition engine_update (l : dict) : ores eupdate :=
  obind (opt_key l E_algorithm as_algo) (fun a =>
  obind (opt_key l E_minPos as_optnum) (fun mn =>
  obind (opt_key l E_maxPos as_optnum) (fun mx =>
  obind (opt_key l E_density as_num) (fun de =>
  obind (opt_key l E_nodeSpacing as_num) (fun sp =>
  obind (opt_key l E_stubWidth as_num) (fun sw =>
  obind (opt_key l E_lineSpacing as_num) (fun ls =>
  OOk (mkEupdate a mn mx de sp sw ls)))))))).

Record resolved := mkResolved {
  r_opts : opts;                 (* what the renderers read *)
  r_engine : eopts;              (* the engine's effective options *)
  r_linear : bool;               (* the scale object is a LinearScale *)
  r_own_scale : bool;            (* the timeline made its own TimeScale (no "scale" key given) *)
  r_scale_id : N                 (* identity of the scale object the timeline points to *)
}.

Definition resolve (fresh : N) (user : option dict) : ores resolved :=
  obind (tl_merge fresh user) (fun so =>
  obind (obind (sub so K_direction) as_direction) (fun dir =>
  obind (obind (sub so K_initialWidth) as_num) (fun iw =>
  obind (obind (sub so K_initialHeight) as_num) (fun ih =>
  obind (four so K_margin) (fun mg =>
  obind (obind (sub so K_layerGap) as_num) (fun gap =>
  obind (four so K_labelPadding) (fun pd =>
  obind (obind (sub so K_dotRadius) as_num) (fun dr =>
  obind (sub so K_showTicks) (fun tk =>
  obind (sub so K_showBorder) (fun bd =>
  obind (sub so K_latex) (fun lx =>
  obind (match lx with VDict l => sub l L_tickCross | _ => ORaise OTypeError end) (fun cross =>
  obind (obind (sub so K_dotColor) as_colour) (fun c1 =>
  obind (obind (sub so K_labelBgColor) as_colour) (fun c2 =>
  obind (obind (sub so K_labelTextColor) as_colour) (fun c3 =>
  obind (obind (sub so K_linkColor) as_colour) (fun c4 =>
  obind (obind (sub so K_borderColor) (as_colour_if (truthy bd))) (fun c5 =>
  obind (sub so K_labella) (fun lab =>
  obind (match lab with VDict l => engine_update l | _ => ORaise OTypeError end) (fun eu =>
  obind (sub so K_scale) (fun sc =>
  match sc with
  | VScale lin sid =>
      let '(ml, mr, mt, mb) := mg in
      let '(pl, pr, pt, pb) := pd in
      OOk (mkResolved
             (mkOpts dir iw ih ml mr mt mb gap (mkPad pl pr pt pb) dr (truthy tk) (truthy bd) (truthy cross)
                     c1 c2 c3 c4 c5)
             (apply_update default_eopts eu) lin
             (match user with
              | None => true
              | Some u => match dget u K_scale with None => true | Some _ => false end
              end)
             sid)
  | _ => ORaise OTypeError
  end)))))))))))))))))))).
