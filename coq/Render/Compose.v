(* The adapter between the layout engine (Layout/Force.v: labella/force.py)
   and the rendering model (Render/Geometry.v, Scene.v): what
   Timeline.get_nodes / Timeline.compute (labella/timeline.py:235-277) do.

     get_nodes   one Node per item: idealPos = timePos(item), and after
                 node.w / node.h are set (padded size, swapped for left/right)
                 node.width = node.h for left/right, node.w otherwise
                 (timeline.py:251-255): the engine sees the padded extent
                 ALONG the axis.
     compute     force = Force(options["labella"]); force.nodes(nodes);
                 force.compute(); newnodes = force.nodes()   (:268-272)
                 The drawing then uses, per node of newnodes, layerIndex,
                 currentPos and the currentPos of the stubs on its path from
                 the root (renderer.py getWayPoints).

   Node identity in the engine model is the index of the item in the item list
   (Force.label_nodes).  The engine's node list after compute keeps the input
   order except for algorithm none, where removeOverlap sorted it in place; a
   scene label is therefore built per engine node, looking its item up by
   identity.  Model only: no proofs here (Render/ComposeProofs.v). *)
From Coq Require Import ZArith NArith QArith Qround List Bool Arith.
From Labella Require Layout.Distribute.
From Labella Require Import Layout.ForceState Layout.Force.
From Labella Require Import Render.Geometry Render.Scene.
Import ListNotations.
Open Scope Q_scope.

(* a parsed timeline item: scale(time), the width given by the caller, the
   text, the values of function-valued colour options *)
Record tl_item := mkTlItem {
  ti_pos : Q;
  ti_width : Q;
  ti_text : option (list N);
  ti_fcols : list (list N) }.
Definition tl_item0 : tl_item := mkTlItem 0 0 None [].

(* (node.w, node.h) after get_nodes *)
Definition ti_size (d : direction) (p : padding) (it : tl_item) : Q * Q :=
  node_size d p (ti_width it) (ti_text it).

(* node.width: the extent along the axis *)
Definition ti_along (d : direction) (p : padding) (it : tl_item) : Q :=
  if sideways d then snd (ti_size d p it) else fst (ti_size d p it).

(* the labels handed to the engine *)
Definition engine_labels (d : direction) (p : padding) (its : list tl_item) : list Distribute.label :=
  map (fun it => Distribute.mkLabel (ti_pos it) (ti_along d p it)) its.

(* Force(options).nodes(nodes).compute() on fresh Node objects *)
Definition engine_result (d : direction) (p : padding) (e : eopts) (its : list tl_item) : fstate :=
  Force.layout e (engine_labels d p its).

(* currentPos is round(...) : an integer *)
Definition qz (q : Q) : Z := Qfloor q.

(* the position of the item of label `id` in a reported layer *)
Definition pos_in (layer : list report_item) (id : nat) : Q :=
  match find (fun x : report_item => Nat.eqb (fst (fst x)) id) layer with
  | Some x => snd x
  | None => 0
  end.

(* [h.currentPos for h in node.getPathFromRoot()]: the label's stub in every
   nearer layer (createStub makes one per layer below the label's,
   distributor.py:84-87,139-152), then the label itself *)
Definition chain_of (rep : list (list report_item)) (nd : nodeobj) : list Z :=
  map (fun j => qz (pos_in (nth j rep []) (n_id nd))) (seq 0 (n_layer nd)) ++ [qz (n_cur nd)].

Definition scene_label (d : direction) (p : padding) (its : list tl_item)
    (rep : list (list report_item)) (nd : nodeobj) : label :=
  let it := nth (n_id nd) its tl_item0 in
  mkLabel (n_pos nd) (fst (ti_size d p it)) (snd (ti_size d p it))
          (chain_of rep nd) (ti_text it) (ti_fcols it).

Definition reported (st : fstate) : list (list report_item) :=
  match st_layers st with Some r => r | None => [] end.

(* self.nodes after compute(): the scene's labels, in the engine's list order *)
Definition scene_labels (d : direction) (p : padding) (e : eopts) (its : list tl_item) : list label :=
  let st := engine_result d p e its in
  map (scene_label d p its (reported st)) (st_nodes st).

(* the whole scene export() draws from *)
Definition engine_scene (o : opts) (ticks : list (Q * list N)) (e : eopts) (its : list tl_item) : scene :=
  mkScene o ticks (scene_labels (o_dir o) (o_pad o) e its).
