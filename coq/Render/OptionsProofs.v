(* Proofs about the option-dictionary model (Render/Options.v): what Timeline.__init__'s
   merge produces for EVERY user dict, and that every subscript the renderers and the
   engine perform on the merged dict succeeds whenever the user's values have the
   documented kinds - whichever keys are omitted. *)
From Coq Require Import ZArith NArith QArith List Bool String Ascii Lia.
From Labella Require Import Render.Geometry Render.Scene Layout.Distribute Layout.ForceState Render.Options.
Import ListNotations.

(* ------------------------------------------------------------------ dict algebra --- *)
Lemma dget_dset : forall d k v k', dget (dset d k v) k' = if N.eqb k k' then Some v else dget d k'.
Proof.
  induction d as [|[a x] d IH]; intros k v k'; simpl.
  - reflexivity.
  - destruct (N.eqb a k) eqn:E; simpl.
    + apply N.eqb_eq in E. subst a. destruct (N.eqb k k'); reflexivity.
    + rewrite IH. destruct (N.eqb a k') eqn:E2; [|reflexivity].
      apply N.eqb_eq in E2. subst a. rewrite N.eqb_sym, E. reflexivity.
Qed.

Lemma dget_dset_same : forall d k v, dget (dset d k v) k = Some v.
Proof. intros. rewrite dget_dset, N.eqb_refl. reflexivity. Qed.

Lemma dget_dset_other : forall d k v k', k <> k' -> dget (dset d k v) k' = dget d k'.
Proof. intros d k v k' H. rewrite dget_dset. apply N.eqb_neq in H. now rewrite H. Qed.

(* update: the LAST binding of k in e wins; a Python dict has unique keys, for which that is
   the only binding *)
Lemma dget_dupdate_none : forall e d k, dget e k = None -> dget (dupdate d e) k = dget d k.
Proof.
  unfold dupdate. induction e as [|[a x] e IH]; intros d k H; simpl in *; [reflexivity|].
  destruct (N.eqb a k) eqn:E; [discriminate|].
  rewrite IH by exact H. apply dget_dset_other. now apply N.eqb_neq.
Qed.

Lemma dget_dupdate_some : forall e d k v, NoDup (map fst e) -> dget e k = Some v -> dget (dupdate d e) k = Some v.
Proof.
  unfold dupdate. induction e as [|[a x] e IH]; intros d k v ND H; simpl in *; [discriminate|].
  inversion ND as [|? ? Hn ND']; subst.
  destruct (N.eqb a k) eqn:E.
  - inversion H; subst x. apply N.eqb_eq in E. subst a.
    assert (He : dget e k = None).
    { clear -Hn. induction e as [|[b y] e IH]; simpl in *; [reflexivity|].
      destruct (N.eqb b k) eqn:E; [apply N.eqb_eq in E; subst; exfalso; apply Hn; now left|].
      apply IH. intro Q. apply Hn. now right. }
    fold (dupdate (dset d k v) e). rewrite dget_dupdate_none by exact He. apply dget_dset_same.
  - apply IH; assumption.
Qed.

Definition eff (base user : dict) (k : N) : option oval :=
  match dget user k with Some v => Some v | None => dget base k end.

Lemma dget_dupdate : forall e d k, NoDup (map fst e) -> dget (dupdate d e) k = eff d e k.
Proof.
  intros e d k ND. unfold eff. destruct (dget e k) as [v|] eqn:E.
  - now apply dget_dupdate_some.
  - now apply dget_dupdate_none.
Qed.

Lemma dset_keys_nodup : forall d k v, NoDup (map fst d) -> NoDup (map fst (dset d k v)).
Proof.
  induction d as [|[a x] d IH]; intros k v ND; simpl.
  - constructor; [intros []|constructor].
  - inversion ND as [|? ? Hn ND']; subst. destruct (N.eqb a k) eqn:E; simpl.
    + constructor; assumption.
    + constructor; [|now apply IH]. intro Hin. apply Hn.
      clear -Hin E. induction d as [|[b y] d IH]; simpl in *.
      * destruct Hin as [Q|[]]. subst. now rewrite N.eqb_refl in E.
      * destruct (N.eqb b k) eqn:E2; simpl in Hin.
        -- exact Hin.
        -- destruct Hin as [Q|Q]; [now left|right; now apply IH].
Qed.

(* ------------------------------------------------------------------- the merge --- *)
(* the user's dict as Python hands it over: unique keys; `latex` and `labella`, when given,
   are dicts (with unique keys) *)
Definition sub_dict_ok (u : dict) (k : N) : Prop :=
  match dget u k with None => True | Some (VDict l) => NoDup (map fst l) | Some _ => False end.
Definition user_wf (u : dict) : Prop :=
  NoDup (map fst u) /\ sub_dict_ok u K_latex /\ sub_dict_ok u K_labella.

Definition user_latex (u : dict) : dict := match dget u K_latex with Some (VDict l) => l | _ => [] end.
Definition user_labella (u : dict) : dict := match dget u K_labella with Some (VDict l) => l | _ => [] end.
Definition user_direction (u : dict) : oval :=
  match dget u K_direction with Some v => v | None => VStr (s2n "right") end.

Definition merged_spec (fresh : N) (u d : dict) : Prop :=
  (* every other key: the user's value if given, else the default *)
  (forall k, k <> K_latex -> k <> K_labella -> k <> K_scale -> dget d k = eff default_options u k) /\
  (* scale: the caller's object, else a fresh TimeScale of this timeline's own *)
  dget d K_scale = Some (match dget u K_scale with Some v => v | None => VScale false fresh end) /\
  (* latex: merged key by key *)
  (exists lm, dget d K_latex = Some (VDict lm) /\ forall j, dget lm j = eff default_latex (user_latex u) j) /\
  (* labella: a copy of the caller's engine options with the direction written in *)
  dget d K_labella = Some (VDict (dset (user_labella u) E_direction (user_direction u))).

Lemma default_has_direction : dget default_options K_direction = Some (VStr (s2n "right")).
Proof. reflexivity. Qed.

Theorem tl_merge_spec : forall fresh u, user_wf u -> exists d, tl_merge fresh (Some u) = OOk d /\ merged_spec fresh u d.
Proof.
  intros fresh u (ND & HL & HB). unfold tl_merge.
  (* latex *)
  set (lx := match dget u K_latex with
             | None => OOk default_latex
             | Some (VDict l) => OOk (dupdate default_latex l)
             | Some _ => ORaise OTypeError end).
  assert (Hlx : lx = OOk (dupdate default_latex (user_latex u)) /\ NoDup (map fst (user_latex u))).
  { unfold lx, user_latex, sub_dict_ok in *. destruct (dget u K_latex) as [[| | | | | |l|]|]; try contradiction.
    - split; [reflexivity|exact HL].
    - split; [reflexivity|constructor]. }
  destruct Hlx as [Hlx NDl]. rewrite Hlx. cbn [obind].
  set (lm := dupdate default_latex (user_latex u)).
  set (options := dset u K_latex (VDict lm)).
  assert (NDo : NoDup (map fst options)) by (apply dset_keys_nodup; exact ND).
  set (so0 := dupdate default_options options).
  assert (G0 : forall k, dget so0 k = eff default_options options k) by (intro k; apply dget_dupdate; exact NDo).
  assert (Gopt : forall k, k <> K_latex -> dget options k = dget u k).
  { intros k Hk. unfold options. apply dget_dset_other. congruence. }
  assert (Gscale : dget options K_scale = dget u K_scale) by (apply Gopt; discriminate).
  set (so := match dget options K_scale with Some _ => so0 | None => dset so0 K_scale (VScale false fresh) end).
  assert (G1 : forall k, k <> K_scale -> dget so k = dget so0 k).
  { intros k Hk. unfold so. destruct (dget options K_scale); [reflexivity|]. apply dget_dset_other. congruence. }
  (* labella *)
  assert (Glab : dget so K_labella = Some (VDict (user_labella u))).
  { rewrite G1 by discriminate. rewrite G0. unfold eff. rewrite Gopt by discriminate.
    unfold user_labella, sub_dict_ok in *. destruct (dget u K_labella) as [[| | | | | |l|]|]; try contradiction; reflexivity. }
  assert (Gdir : dget so K_direction = Some (user_direction u)).
  { rewrite G1 by discriminate. rewrite G0. unfold eff. rewrite Gopt by discriminate.
    unfold user_direction. destruct (dget u K_direction); reflexivity. }
  unfold sub. rewrite Glab. cbn [obind]. rewrite Gdir. cbn [obind].
  eexists. split; [reflexivity|].
  set (d := dset so K_labella (VDict (dset (user_labella u) E_direction (user_direction u)))).
  assert (G2 : forall k, k <> K_labella -> dget d k = dget so k) by (intros k Hk; apply dget_dset_other; congruence).
  repeat split.
  - intros k H1 H2 H3. rewrite G2 by exact H2. rewrite G1 by exact H3. rewrite G0. unfold eff. now rewrite Gopt.
  - rewrite G2 by discriminate. unfold so. destruct (dget u K_scale) as [v|] eqn:E; rewrite Gscale.
    + rewrite G0. unfold eff. rewrite Gscale. reflexivity.
    + apply dget_dset_same.
  - exists lm. split.
    + rewrite G2 by discriminate. rewrite G1 by discriminate. rewrite G0. unfold eff, options.
      rewrite dget_dset_same. reflexivity.
    + intro j. unfold lm. apply dget_dupdate. exact NDl.
  - apply dget_dset_same.
Qed.

(* options=None behaves as options={} *)
Theorem tl_merge_none : forall fresh, tl_merge fresh None = tl_merge fresh (Some []).
Proof. reflexivity. Qed.

(* after the merge every documented key is there, whatever the user omitted *)
Lemma default_all_keys : forall k, In k top_keys -> dget default_options k <> None.
Proof.
  intros k H. unfold top_keys in H. simpl in H.
  repeat (destruct H as [H|H]; [subst k; discriminate|]). contradiction.
Qed.
Lemma default_latex_all_keys : forall k, In k latex_keys -> dget default_latex k <> None.
Proof.
  intros k H. unfold latex_keys in H. simpl in H.
  repeat (destruct H as [H|H]; [subst k; discriminate|]). contradiction.
Qed.

Theorem merged_has_all_keys : forall fresh u d, merged_spec fresh u d ->
  (forall k, In k top_keys -> dget d k <> None) /\
  (exists lm, dget d K_latex = Some (VDict lm) /\ forall j, In j latex_keys -> dget lm j <> None) /\
  (exists l, dget d K_labella = Some (VDict l) /\ dget l E_direction = Some (user_direction u)).
Proof.
  intros fresh u d (H1 & H2 & (lm & H3 & H3') & H4). repeat split.
  - intros k Hk. destruct (N.eq_dec k K_latex) as [->|N1]; [rewrite H3; discriminate|].
    destruct (N.eq_dec k K_labella) as [->|N2]; [rewrite H4; discriminate|].
    destruct (N.eq_dec k K_scale) as [->|N3]; [rewrite H2; discriminate|].
    rewrite H1 by assumption. unfold eff. destruct (dget u k); [discriminate|]. now apply default_all_keys.
  - exists lm. split; [exact H3|]. intros j Hj. rewrite H3'. unfold eff.
    destruct (dget (user_latex u) j); [discriminate|]. now apply default_latex_all_keys.
  - eexists. split; [exact H4|]. apply dget_dset_same.
Qed.

(* ------------------------------------------------------- reading the merged dict --- *)
(* "the user's value for k, if given, has property P" *)
Definition given (u : dict) (k : N) (P : oval -> Prop) : Prop :=
  match dget u k with Some v => P v | None => True end.
Definition is_num (v : oval) : Prop := exists q, as_num v = OOk q.
Definition is_dir (v : oval) : Prop := exists x, as_direction v = OOk x.
Definition is_colour (v : oval) : Prop := exists c, as_colour v = OOk c.
Definition num_at (m : dict) (k : N) : Prop := exists v q, dget m k = Some v /\ as_num v = OOk q.
Definition is_four (v : oval) : Prop :=
  exists m, v = VDict m /\ num_at m K_left /\ num_at m K_right /\ num_at m K_top /\ num_at m K_bottom.
Definition is_scale (v : oval) : Prop := exists b i, v = VScale b i.
Definition is_str (v : oval) : Prop := exists t, v = VStr t.
Definition is_pos (v : oval) : Prop := exists q, as_num v = OOk q /\ (0 < q)%Q.
Definition is_nonneg (v : oval) : Prop := exists q, as_num v = OOk q /\ (0 <= q)%Q.
Definition is_algo (v : oval) : Prop := exists a, as_algo v = OOk a.
Definition is_optnum (v : oval) : Prop := exists a, as_optnum v = OOk a.

(* the documented input domain for options (DESIGN.md Appendix B): any subset of the keys;
   a value that is given has the documented kind; margin and labelPadding, when given,
   are complete; latex and labella may be partial; undocumented extra keys are allowed *)
Record user_ok (u : dict) : Prop := mkUserOk {
  uo_wf : user_wf u;
  uo_dir : given u K_direction is_dir;
  uo_iw : given u K_initialWidth is_num;
  uo_ih : given u K_initialHeight is_num;
  uo_margin : given u K_margin is_four;
  uo_gap : given u K_layerGap is_num;
  uo_pad : given u K_labelPadding is_four;
  uo_dotr : given u K_dotRadius is_num;
  uo_c1 : given u K_dotColor is_colour;
  uo_c2 : given u K_labelBgColor is_colour;
  uo_c3 : given u K_labelTextColor is_colour;
  uo_c4 : given u K_linkColor is_colour;
  uo_c5 : given u K_borderColor is_colour;
  uo_scale : given u K_scale is_scale;
  uo_alg : given (user_labella u) E_algorithm is_algo;
  uo_min : given (user_labella u) E_minPos is_optnum;
  uo_max : given (user_labella u) E_maxPos is_optnum;
  uo_den : given (user_labella u) E_density is_pos;            (* the layer estimate divides by it *)
  uo_sp : given (user_labella u) E_nodeSpacing is_nonneg;
  uo_sw : given (user_labella u) E_stubWidth is_nonneg;
  uo_ls : given (user_labella u) E_lineSpacing is_nonneg;
  (* keys that `resolve` does not read but the export path does (emitters, parse_items): *)
  uo_xoff : given u K_textXOffset is_str;                        (* SVG attribute values must be strings *)
  uo_yoff : given u K_textYOffset is_str;
  uo_timefn : given u K_timeFn (fun v => v = VFun);
  uo_textfn : given u K_textFn (fun v => v = VFun \/ v = VNone);  (* None is handled by Timeline.textFn *)
  uo_domain : given u K_domain (fun v => truthy v = false);       (* an explicit domain enters separately *)
  uo_lx_str : forall k, In k [L_fontsize; L_borderThickness; L_axisThickness; L_tickThickness; L_linkThickness; L_preamble] ->
              given (user_latex u) k is_str;                      (* concatenated into the TikZ text *)
  uo_lx_opts : given (user_latex u) L_latexmkOptions (fun v => exists l, v = VStrs l)
}.

Lemma given_weaken : forall u k (P Q : oval -> Prop), (forall v, P v -> Q v) -> given u k P -> given u k Q.
Proof. intros u k P Q H. unfold given. destruct (dget u k); auto. Qed.
Lemma pos_num : forall v, is_pos v -> exists a, as_num v = OOk a.
Proof. intros v (q & E & _). now exists q. Qed.
Lemma nonneg_num : forall v, is_nonneg v -> exists a, as_num v = OOk a.
Proof. intros v (q & E & _). now exists q. Qed.

Lemma sub_given : forall fresh u d k (P : oval -> Prop), merged_spec fresh u d ->
  k <> K_latex -> k <> K_labella -> k <> K_scale ->
  given u k P -> (exists v, dget default_options k = Some v /\ P v) ->
  exists v, sub d k = OOk v /\ P v.
Proof.
  intros fresh u d k P (H1 & _) N1 N2 N3 G (v0 & D0 & P0). unfold sub. rewrite H1 by assumption.
  unfold eff, given in *. destruct (dget u k) as [v|].
  - exists v. now split.
  - rewrite D0. exists v0. now split.
Qed.

Lemma opt_key_given : forall {A} (l : dict) (k : N) (f : oval -> ores A) dir,
  k <> E_direction -> given l k (fun v => exists a, f v = OOk a) ->
  exists r, opt_key (dset l E_direction dir) k f = OOk r.
Proof.
  intros A l k f dir Hk G. unfold opt_key. rewrite dget_dset_other by congruence.
  unfold given in G. destruct (dget l k) as [v|]; [|eexists; reflexivity].
  destruct G as [a Ea]. rewrite Ea. eexists. reflexivity.
Qed.

Lemma four_ok : forall d k v, sub d k = OOk v -> is_four v -> exists r, four d k = OOk r.
Proof.
  intros d k v E (m & -> & (v1 & q1 & A1 & B1) & (v2 & q2 & A2 & B2) & (v3 & q3 & A3 & B3) & (v4 & q4 & A4 & B4)).
  unfold four. rewrite E. cbn [obind]. unfold sub.
  rewrite A1; cbn [obind]; rewrite B1; cbn [obind].
  rewrite A2; cbn [obind]; rewrite B2; cbn [obind].
  rewrite A3; cbn [obind]; rewrite B3; cbn [obind].
  rewrite A4; cbn [obind]; rewrite B4; cbn [obind].
  eexists. reflexivity.
Qed.

Lemma as_colour_if_ok : forall b v c, as_colour v = OOk c -> exists c', as_colour_if b v = OOk c'.
Proof. intros b v c E. unfold as_colour_if. rewrite E. destruct b; eexists; reflexivity. Qed.

Ltac default_fact := eexists; split; [reflexivity|]; try (eexists; reflexivity).

(* C11, the options clause: with options omitted (None), empty, or ANY subset of the
   documented keys whose given values have the documented kinds, the constructor's merge
   succeeds and every subscript the renderers, the axis set-up and the engine perform on the
   merged options succeeds - no KeyError, no TypeError *)
Theorem resolve_total : forall fresh u, user_ok u -> exists r, resolve fresh (Some u) = OOk r.
Proof.
  intros fresh u U. destruct (tl_merge_spec fresh u (uo_wf u U)) as (d & Em & S).
  unfold resolve. rewrite Em. cbn [obind].
  (* direction *)
  destruct (sub_given fresh u d K_direction is_dir S ltac:(discriminate) ltac:(discriminate) ltac:(discriminate) (uo_dir u U))
    as (vv1 & EE1 & [x Ex]); [default_fact|]. rewrite EE1; cbn [obind]; rewrite Ex; cbn [obind].
  destruct (sub_given fresh u d K_initialWidth is_num S ltac:(discriminate) ltac:(discriminate) ltac:(discriminate) (uo_iw u U))
    as (vv2 & EE2 & [q1 Eq1]); [default_fact|]. rewrite EE2; cbn [obind]; rewrite Eq1; cbn [obind].
  destruct (sub_given fresh u d K_initialHeight is_num S ltac:(discriminate) ltac:(discriminate) ltac:(discriminate) (uo_ih u U))
    as (vv3 & EE3 & [q2 Eq2]); [default_fact|]. rewrite EE3; cbn [obind]; rewrite Eq2; cbn [obind].
  (* margin *)
  destruct (sub_given fresh u d K_margin is_four S ltac:(discriminate) ltac:(discriminate) ltac:(discriminate) (uo_margin u U))
    as (vv4 & EE4 & FF4).
  { eexists. split; [reflexivity|]. eexists. split; [reflexivity|].
    repeat split; eexists; eexists; (split; [reflexivity|reflexivity]). }
  destruct (four_ok d K_margin vv4 EE4 FF4) as [[[[ml mr] mt] mb] Emg]. rewrite Emg; cbn [obind].
  destruct (sub_given fresh u d K_layerGap is_num S ltac:(discriminate) ltac:(discriminate) ltac:(discriminate) (uo_gap u U))
    as (vv5 & EE5 & [q3 Eq3]); [default_fact|]. rewrite EE5; cbn [obind]; rewrite Eq3; cbn [obind].
  destruct (sub_given fresh u d K_labelPadding is_four S ltac:(discriminate) ltac:(discriminate) ltac:(discriminate) (uo_pad u U))
    as (vv6 & EE6 & FF6).
  { eexists. split; [reflexivity|]. eexists. split; [reflexivity|].
    repeat split; eexists; eexists; (split; [reflexivity|reflexivity]). }
  destruct (four_ok d K_labelPadding vv6 EE6 FF6) as [[[[pl pr] pt] pb] Epd]. rewrite Epd; cbn [obind].
  destruct (sub_given fresh u d K_dotRadius is_num S ltac:(discriminate) ltac:(discriminate) ltac:(discriminate) (uo_dotr u U))
    as (vv7 & EE7 & [q4 Eq4]); [default_fact|]. rewrite EE7; cbn [obind]; rewrite Eq4; cbn [obind].
  (* showTicks, showBorder: any value, only its truth value is read *)
  destruct (sub_given fresh u d K_showTicks (fun _ => True) S ltac:(discriminate) ltac:(discriminate) ltac:(discriminate))
    as (tk & EE8 & _); [unfold given; destruct (dget u K_showTicks); exact I|eexists; split; [reflexivity|exact I]|].
  rewrite EE8; cbn [obind].
  destruct (sub_given fresh u d K_showBorder (fun _ => True) S ltac:(discriminate) ltac:(discriminate) ltac:(discriminate))
    as (bd & EE9 & _); [unfold given; destruct (dget u K_showBorder); exact I|eexists; split; [reflexivity|exact I]|].
  rewrite EE9; cbn [obind].
  (* latex.tickCross *)
  destruct (merged_has_all_keys fresh u d S) as (_ & (lm & Elm & Hlm) & _).
  unfold sub at 1. rewrite Elm. cbn [obind].
  assert (Hc : dget lm L_tickCross <> None) by (apply Hlm; unfold latex_keys; simpl; tauto).
  unfold sub at 1. destruct (dget lm L_tickCross) as [cross|]; [|congruence]. cbn [obind].
  (* colours *)
  destruct (sub_given fresh u d K_dotColor is_colour S ltac:(discriminate) ltac:(discriminate) ltac:(discriminate) (uo_c1 u U))
    as (vv10 & EE10 & [c1 Ec1]); [default_fact|]. rewrite EE10; cbn [obind]; rewrite Ec1; cbn [obind].
  destruct (sub_given fresh u d K_labelBgColor is_colour S ltac:(discriminate) ltac:(discriminate) ltac:(discriminate) (uo_c2 u U))
    as (vv11 & EE11 & [c2 Ec2]); [default_fact|]. rewrite EE11; cbn [obind]; rewrite Ec2; cbn [obind].
  destruct (sub_given fresh u d K_labelTextColor is_colour S ltac:(discriminate) ltac:(discriminate) ltac:(discriminate) (uo_c3 u U))
    as (vv12 & EE12 & [c3 Ec3]); [default_fact|]. rewrite EE12; cbn [obind]; rewrite Ec3; cbn [obind].
  destruct (sub_given fresh u d K_linkColor is_colour S ltac:(discriminate) ltac:(discriminate) ltac:(discriminate) (uo_c4 u U))
    as (vv13 & EE13 & [c4 Ec4]); [default_fact|]. rewrite EE13; cbn [obind]; rewrite Ec4; cbn [obind].
  destruct (sub_given fresh u d K_borderColor is_colour S ltac:(discriminate) ltac:(discriminate) ltac:(discriminate) (uo_c5 u U))
    as (vv14 & EE14 & [c5 Ec5]); [default_fact|]. rewrite EE14; cbn [obind].
  destruct (as_colour_if_ok (truthy bd) _ _ Ec5) as [c5' Ec5']. rewrite Ec5'; cbn [obind].
  (* the engine options *)
  destruct S as (S1 & S2 & S3 & S4).
  unfold sub at 1. rewrite S4. cbn [obind].
  unfold engine_update.
  destruct (opt_key_given (user_labella u) E_algorithm as_algo (user_direction u) ltac:(discriminate) (uo_alg u U)) as [a Ea].
  rewrite Ea; cbn [obind].
  destruct (opt_key_given (user_labella u) E_minPos as_optnum (user_direction u) ltac:(discriminate) (uo_min u U)) as [mn Emn].
  rewrite Emn; cbn [obind].
  destruct (opt_key_given (user_labella u) E_maxPos as_optnum (user_direction u) ltac:(discriminate) (uo_max u U)) as [mx Emx].
  rewrite Emx; cbn [obind].
  destruct (opt_key_given (user_labella u) E_density as_num (user_direction u) ltac:(discriminate) (given_weaken _ _ _ _ pos_num (uo_den u U))) as [de Ede].
  rewrite Ede; cbn [obind].
  destruct (opt_key_given (user_labella u) E_nodeSpacing as_num (user_direction u) ltac:(discriminate) (given_weaken _ _ _ _ nonneg_num (uo_sp u U))) as [sp Esp].
  rewrite Esp; cbn [obind].
  destruct (opt_key_given (user_labella u) E_stubWidth as_num (user_direction u) ltac:(discriminate) (given_weaken _ _ _ _ nonneg_num (uo_sw u U))) as [sw Esw].
  rewrite Esw; cbn [obind].
  destruct (opt_key_given (user_labella u) E_lineSpacing as_num (user_direction u) ltac:(discriminate) (given_weaken _ _ _ _ nonneg_num (uo_ls u U))) as [ls Els].
  rewrite Els; cbn [obind].
  (* the scale object *)
  unfold sub. rewrite S2. cbn [obind].
  assert (Hs : is_scale (match dget u K_scale with Some vv14 => vv14 | None => VScale false fresh end)).
  { generalize (uo_scale u U). unfold given. destruct (dget u K_scale); [tauto|intros _; now exists false, fresh]. }
  destruct Hs as (lin & sid & ->). eexists. reflexivity.
Qed.

Theorem resolve_none_total : forall fresh, exists r, resolve fresh None = OOk r.
Proof. intro fresh. eexists. cbv -[N.eqb]. reflexivity. Qed.

(* WHICH scale object the timeline points to: the caller's (its identity), else the TimeScale
   this very constructor call created - never anything else; in particular never the
   module-level default object (identity 0) unless the caller passed that object in *)
Theorem resolve_scale_identity : forall fresh u r, user_wf u -> resolve fresh (Some u) = OOk r ->
  r_scale_id r = match dget u K_scale with Some (VScale _ i) => i | _ => fresh end.
Proof.
  intros fresh u r W H. destruct (tl_merge_spec fresh u W) as (d & Em & S).
  unfold resolve in H. rewrite Em in H. cbn [obind] in H.
  destruct S as (_ & S2 & _).
  repeat match type of H with
         | obind (sub d K_scale) _ = OOk _ => unfold sub at 1 in H; rewrite S2 in H; cbn [obind] in H
         | obind ?x _ = OOk _ => destruct x as [?a|?e]; cbn [obind] in H; [|discriminate]
         | match ?x with _ => _ end = OOk _ => destruct x eqn:?; try discriminate
         end.
  all: inversion H; subst; cbn [r_scale_id];
    match goal with
    | E : match dget ?x K_scale with _ => _ end = VScale _ _ |- _ =>
        destruct (dget x K_scale) as [v|]; [subst v; reflexivity|inversion E; reflexivity]
    end.
Qed.

Corollary resolve_scale_not_default : forall fresh u r, user_wf u -> resolve fresh (Some u) = OOk r ->
  fresh <> 0%N -> (forall b i, dget u K_scale = Some (VScale b i) -> i <> 0%N) -> r_scale_id r <> 0%N.
Proof.
  intros fresh u r W H F C. rewrite (resolve_scale_identity fresh u r W H).
  destruct (dget u K_scale) as [[| | | | | | |b i]|] eqn:E; try exact F. exact (C b i eq_refl).
Qed.

(* the same without a caller dict *)
Theorem resolve_none_scale : forall fresh r, resolve fresh None = OOk r -> r_scale_id r = fresh.
Proof. intros fresh r H. cbv -[N.eqb] in H. inversion H. reflexivity. Qed.

(* the direction the constructor writes into the engine-option dict is not an engine option:
   Force(options["labella"]) reads the same values with or without it *)
Lemma opt_key_dset_other : forall {A} (l : dict) (k k' : N) (f : oval -> ores A) v,
  k' <> k -> opt_key (dset l k' v) k f = opt_key l k f.
Proof. intros A l k k' f v H. unfold opt_key. rewrite dget_dset_other by exact H. reflexivity. Qed.

Theorem engine_update_ignores_direction : forall l dir,
  engine_update (dset l E_direction dir) = engine_update l.
Proof.
  intros l dir. unfold engine_update.
  rewrite !(opt_key_dset_other l _ E_direction) by discriminate. reflexivity.
Qed.
