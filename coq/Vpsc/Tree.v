(* The active constraints of a block form a tree (invariant I3), phrased
   through the depth-first traversal the code itself performs
   (Variable.visitNeighbours with the `prev` check): [reach] lists the
   (constraint, parent, child) triples in the order populateSplitBlock adds
   the children.  Proof-side definitions and lemmas only. *)
From Coq Require Import ZArith QArith List Bool Arith Lia Permutation.
From Labella Require Import Vpsc.Vpsc Vpsc.VpscBase Vpsc.InvBase Vpsc.InvProofs.
Import ListNotations.

Definition T3 := (nat * nat * nat)%type.          (* constraint, parent, child *)
Definition t_c (t : T3) : nat := fst (fst t).
Definition t_p (t : T3) : nat := snd (fst t).
Definition t_v (t : T3) : nat := snd t.
Definition verts (E : list T3) : list nat := map t_v E.

Section Tree.
Variable cons : list con.

Fixpoint children (rec : nat -> res (list T3)) (v : nat) (l : list (nat * nat)) : res (list T3) :=
  match l with
  | [] => Ok []
  | (c, nx) :: t =>
      match rec nx with
      | Fuel k => Fuel k
      | Ok e => match children rec v t with
                | Fuel k => Fuel k
                | Ok r => Ok ((c, v, nx) :: e ++ r)
                end
      end
  end.

Fixpoint reach (fuel : nat) (st : state) (v : nat) (prev : option nat) : res (list T3) :=
  match fuel with
  | O => Fuel 1
  | S f => children (fun nx => reach f st nx (Some v)) v (nbrs cons st v prev)
  end.

Lemma verts_app : forall a b, verts (a ++ b) = verts a ++ verts b.
Proof. intros. unfold verts. apply map_app. Qed.

Lemma children_app : forall rec v l1 l2 r,
  children rec v (l1 ++ l2) = Ok r <->
  exists r1 r2, children rec v l1 = Ok r1 /\ children rec v l2 = Ok r2 /\ r = r1 ++ r2.
Proof.
  intros rec v l1. induction l1 as [|[c nx] t IH]; intros l2 r; simpl.
  - split.
    + intro H. exists [], r. now repeat split.
    + intros (r1 & r2 & H1 & H2 & H3). inversion H1; subst. exact H2.
  - destruct (rec nx) as [e|k].
    + split.
      * intro H. destruct (children rec v (t ++ l2)) as [r0|k] eqn:E; [|discriminate].
        inversion H; subst. apply IH in E. destruct E as (r1 & r2 & E1 & E2 & E3). subst r0.
        exists ((c, v, nx) :: e ++ r1), r2. rewrite E1. repeat split; [exact E2|].
        simpl. now rewrite app_assoc.
      * intros (r1 & r2 & H1 & H2 & H3).
        destruct (children rec v t) as [r0|k] eqn:E; [|discriminate]. inversion H1; subst r1.
        assert (Q : children rec v (t ++ l2) = Ok (r0 ++ r2)) by (apply IH; now exists r0, r2).
        rewrite Q. subst r. simpl. now rewrite app_assoc.
    + split; [discriminate|]. intros (r1 & r2 & H1 & _). discriminate.
Qed.

Lemma children_ext : forall rec rec' v l r,
  (forall nx e, In nx (map snd l) -> rec nx = Ok e -> rec' nx = Ok e) ->
  children rec v l = Ok r -> children rec' v l = Ok r.
Proof.
  intros rec rec' v l. induction l as [|[c nx] t IH]; intros r H Hc; simpl in *; [exact Hc|].
  destruct (rec nx) as [e|k] eqn:E; [|discriminate].
  rewrite (H nx e (or_introl eq_refl) E).
  destruct (children rec v t) as [r0|k] eqn:E2; [|discriminate].
  rewrite (IH r0); [exact Hc| |reflexivity]. intros nx' e' Hin. apply H. now right.
Qed.

Lemma reach_mono : forall f st v p E, reach f st v p = Ok E -> reach (S f) st v p = Ok E.
Proof.
  induction f as [|f IH]; intros st v p E H; [discriminate|].
  cbn [reach] in *. eapply children_ext; [|exact H]. intros nx e _ He. now apply IH.
Qed.

Lemma reach_le : forall f f' st v p E, (f <= f')%nat -> reach f st v p = Ok E -> reach f' st v p = Ok E.
Proof.
  intros f f' st v p E Hle H. induction Hle; [exact H|]. now apply reach_mono.
Qed.

Lemma reach_det : forall f f' st v p E E', reach f st v p = Ok E -> reach f' st v p = Ok E' -> E = E'.
Proof.
  intros f f' st v p E E' H H'.
  apply (reach_le f (Nat.max f f')) in H; [|lia]. apply (reach_le f' (Nat.max f f')) in H'; [|lia]. congruence.
Qed.

(* the result only depends on the neighbour lists of the visited vertices *)
Lemma children_local : forall rec rec' v l r,
  children rec v l = Ok r ->
  (forall nx e, In nx (map snd l) -> rec nx = Ok e -> incl (verts e) (verts r) -> rec' nx = Ok e) ->
  children rec' v l = Ok r.
Proof.
  intros rec rec' v l. induction l as [|[c nx] t IH]; intros r Hc H; simpl in *; [exact Hc|].
  destruct (rec nx) as [e|k] eqn:E; [|discriminate].
  destruct (children rec v t) as [r0|k] eqn:E2; [|discriminate]. inversion Hc; subst r.
  rewrite (H nx e (or_introl eq_refl) E).
  - rewrite (IH r0 eq_refl); [reflexivity|]. intros nx' e' Hin He' Hincl. apply H; [now right|exact He'|].
    intros y Hy. simpl. right. rewrite verts_app. apply in_or_app. right. now apply Hincl.
  - intros y Hy. simpl. right. rewrite verts_app. apply in_or_app. now left.
Qed.

Lemma reach_local : forall f st st' v p p' E,
  reach f st v p = Ok E ->
  nbrs cons st' v p' = nbrs cons st v p ->
  (forall y q, In y (verts E) -> nbrs cons st' y q = nbrs cons st y q) ->
  reach f st' v p' = Ok E.
Proof.
  induction f as [|f IH]; intros st st' v p p' E H Hn Hl; [discriminate|].
  cbn [reach] in *. rewrite Hn.
  eapply children_local; [exact H|]. intros nx e Hin He Hincl. cbv beta.
  apply (IH st st' nx (Some v) (Some v) e He).
  - apply Hl.
    (* nx itself is a vertex of E *)
    clear - H Hin. revert E H. induction (nbrs cons st v p) as [|[c0 n0] t IHl]; intros E H; simpl in *; [contradiction|].
    destruct (reach f st n0 (Some v)) as [e0|k]; [|discriminate].
    destruct (children (fun nx0 => reach f st nx0 (Some v)) v t) as [r0|k] eqn:E2; [|discriminate].
    inversion H; subst E. simpl. destruct Hin as [Q|Q]; [now left|right].
    rewrite verts_app. apply in_or_app. right. now apply (IHl Q r0).
  - intros y q Hy. apply Hl. now apply Hincl.
Qed.

(* ------------------------------------------------- neighbour lists --- *)
Lemma adj_from_spec : forall left v l i k,
  In k (adj_from left v i l) <->
  exists j, k = (i + j)%nat /\ (j < length l)%nat /\
            (if left then c_l (nth j l dcon) else c_r (nth j l dcon)) = v.
Proof.
  intros left v l. induction l as [|c t IH]; intros i k; cbn [adj_from length].
  - split; [intros []|intros (j & _ & H & _); lia].
  - destruct (Nat.eqb_spec (if left then c_l c else c_r c) v) as [E|E].
    + cbn [In]. rewrite IH. split.
      * intros [H|(j & H1 & H2 & H3)].
        -- exists 0%nat. split; [lia|]. split; [lia|exact E].
        -- exists (S j). split; [lia|]. split; [lia|exact H3].
      * intros (j & H1 & H2 & H3). destruct j as [|j]; [left; lia|right]. exists j.
        split; [lia|]. split; [lia|exact H3].
    + rewrite IH. split.
      * intros (j & H1 & H2 & H3). exists (S j). split; [lia|]. split; [lia|exact H3].
      * intros (j & H1 & H2 & H3). destruct j as [|j]; [cbn [nth] in H3; congruence|]. exists j.
        split; [lia|]. split; [lia|exact H3].
Qed.

Lemma cOut_spec : forall v k, In k (cOut cons v) <-> (k < length cons)%nat /\ c_l (con_ cons k) = v.
Proof.
  intros v k. unfold cOut. rewrite adj_from_spec. unfold con_. split.
  - intros (j & H1 & H2 & H3). simpl in H1. subst k. now split.
  - intros [H1 H2]. exists k. now repeat split.
Qed.
Lemma cIn_spec : forall v k, In k (cIn cons v) <-> (k < length cons)%nat /\ c_r (con_ cons k) = v.
Proof.
  intros v k. unfold cIn. rewrite adj_from_spec. unfold con_. split.
  - intros (j & H1 & H2 & H3). simpl in H1. subst k. now split.
  - intros [H1 H2]. exists k. now repeat split.
Qed.

Lemma nbrs_spec : forall st v p c nx, In (c, nx) (nbrs cons st v p) <->
  (c < length cons)%nat /\ k_act (cst_ st c) = true /\ neq_prev p nx = true /\
  ((c_l (con_ cons c) = v /\ nx = c_r (con_ cons c)) \/ (c_r (con_ cons c) = v /\ nx = c_l (con_ cons c))).
Proof.
  intros st v p c nx. unfold nbrs. rewrite in_app_iff, !in_flat_map. split.
  - intros [(c0 & H1 & H2)|(c0 & H1 & H2)].
    + apply cOut_spec in H1. destruct H1 as [L E].
      destruct (k_act (cst_ st c0) && neq_prev p (c_r (con_ cons c0)))%bool eqn:B; [|contradiction].
      destruct H2 as [H2|[]]. inversion H2; subst. apply andb_true_iff in B. destruct B as [B1 B2].
      repeat split; try assumption. now left.
    + apply cIn_spec in H1. destruct H1 as [L E].
      destruct (k_act (cst_ st c0) && neq_prev p (c_l (con_ cons c0)))%bool eqn:B; [|contradiction].
      destruct H2 as [H2|[]]. inversion H2; subst. apply andb_true_iff in B. destruct B as [B1 B2].
      repeat split; try assumption. now right.
  - intros (L & A & N & [[E1 E2]|[E1 E2]]).
    + left. exists c. split; [apply cOut_spec; now split|]. subst nx. rewrite A, N. now left.
    + right. exists c. split; [apply cIn_spec; now split|]. subst nx. rewrite A, N. now left.
Qed.

Lemma nbrs_act_ext : forall st st' v p,
  (forall c, k_act (cst_ st' c) = k_act (cst_ st c)) -> nbrs cons st' v p = nbrs cons st v p.
Proof.
  intros st st' v p H. unfold nbrs. f_equal; apply flat_map_ext; intros c; now rewrite H.
Qed.

Lemma filter_flat_map : forall {A B} (f : A -> list B) (P : B -> bool) l,
  filter P (flat_map f l) = flat_map (fun a => filter P (f a)) l.
Proof.
  induction l as [|a l IH]; simpl; [reflexivity|]. now rewrite filter_app, IH.
Qed.

(* the prev check is a filter on the unrestricted neighbour list *)
Lemma nbrs_prev : forall st v p,
  nbrs cons st v (Some p) = filter (fun cn => negb (Nat.eqb p (snd cn))) (nbrs cons st v None).
Proof.
  intros st v p. unfold nbrs. rewrite filter_app, !filter_flat_map. f_equal; apply flat_map_ext; intros c; cbn [neq_prev].
  - rewrite andb_true_r. destruct (k_act (cst_ st c)); cbn [andb]; [|reflexivity].
    destruct (negb (Nat.eqb p (c_r (con_ cons c)))) eqn:E; simpl; now rewrite E.
  - rewrite andb_true_r. destruct (k_act (cst_ st c)); cbn [andb]; [|reflexivity].
    destruct (negb (Nat.eqb p (c_l (con_ cons c)))) eqn:E; simpl; now rewrite E.
Qed.

(* switching one constraint off is a filter as well *)
Lemma nbrs_deact : forall st st' c v p,
  (forall u, k_act (cst_ st' u) = if Nat.eqb c u then false else k_act (cst_ st u)) ->
  nbrs cons st' v p = filter (fun cn => negb (Nat.eqb c (fst cn))) (nbrs cons st v p).
Proof.
  intros st st' c v p H. unfold nbrs. rewrite filter_app, !filter_flat_map. f_equal; apply flat_map_ext; intros u; rewrite H.
  - destruct (Nat.eqb c u) eqn:E; cbn [andb].
    + destruct (k_act (cst_ st u) && neq_prev p (c_r (con_ cons u)))%bool; simpl; [now rewrite E|reflexivity].
    + destruct (k_act (cst_ st u) && neq_prev p (c_r (con_ cons u)))%bool; simpl; [now rewrite E|reflexivity].
  - destruct (Nat.eqb c u) eqn:E; cbn [andb].
    + destruct (k_act (cst_ st u) && neq_prev p (c_l (con_ cons u)))%bool; simpl; [now rewrite E|reflexivity].
    + destruct (k_act (cst_ st u) && neq_prev p (c_l (con_ cons u)))%bool; simpl; [now rewrite E|reflexivity].
Qed.

(* a list with exactly one element satisfying P, and its filter *)
Lemma filter_split_one : forall {A} (P : A -> bool) (l : list A) x,
  In x l -> P x = true -> (forall y z l1 l2 l3, l = l1 ++ y :: l2 ++ z :: l3 -> P y = true -> P z = true -> False) ->
  exists l1 l2, l = l1 ++ x :: l2 /\ filter (fun a => negb (P a)) l = l1 ++ l2 /\
                (forall a, In a (l1 ++ l2) -> P a = false).
Proof.
  intros A P l x Hin Px Huniq.
  apply in_split in Hin. destruct Hin as (l1 & l2 & E). exists l1, l2. split; [exact E|].
  assert (F1 : forall a, In a l1 -> P a = false).
  { intros a Ha. destruct (P a) eqn:Pa; [|reflexivity]. exfalso.
    apply in_split in Ha. destruct Ha as (m1 & m2 & E1). subst l1.
    apply (Huniq a x m1 m2 l2); [|exact Pa|exact Px]. rewrite E. now rewrite <- app_assoc. }
  assert (F2 : forall a, In a l2 -> P a = false).
  { intros a Ha. destruct (P a) eqn:Pa; [|reflexivity]. exfalso.
    apply in_split in Ha. destruct Ha as (m1 & m2 & E1). subst l2.
    apply (Huniq x a l1 m1 m2); [exact E|exact Px|exact Pa]. }
  assert (G : forall l0, (forall a, In a l0 -> P a = false) -> filter (fun a => negb (P a)) l0 = l0).
  { induction l0 as [|a l0 IH]; intros H; simpl; [reflexivity|].
    rewrite (H a (or_introl eq_refl)). simpl. f_equal. apply IH. intros; apply H; now right. }
  split.
  - rewrite E, filter_app. simpl. rewrite Px. simpl. now rewrite (G l1 F1), (G l2 F2).
  - intros a Ha. apply in_app_or in Ha. destruct Ha; [now apply F1|now apply F2].
Qed.

(* a pair can occur twice in a neighbour list only for a self-loop *)
Lemma NoDup_adj_from : forall left v l i, NoDup (adj_from left v i l).
Proof.
  intros left v l. induction l as [|c t IH]; intros i; cbn [adj_from]; [constructor|].
  destruct (Nat.eqb (if left then c_l c else c_r c) v); [|apply IH].
  constructor; [|apply IH]. intro H. apply adj_from_spec in H. destruct H as (j & H & _). lia.
Qed.

Definition outpart (st : state) (v : nat) (p : option nat) : list (nat * nat) :=
  flat_map (fun c => let nx := c_r (con_ cons c) in
                     if (k_act (cst_ st c) && neq_prev p nx)%bool then [(c, nx)] else []) (cOut cons v).
Definition inpart (st : state) (v : nat) (p : option nat) : list (nat * nat) :=
  flat_map (fun c => let nx := c_l (con_ cons c) in
                     if (k_act (cst_ st c) && neq_prev p nx)%bool then [(c, nx)] else []) (cIn cons v).

Lemma NoDup_flat_map_tag : forall (g : nat -> bool) (h : nat -> nat) l, NoDup l ->
  NoDup (flat_map (fun c => if g c then [(c, h c)] else []) l).
Proof.
  intros g h l ND. induction ND as [|a l Hn ND IH]; simpl; [constructor|].
  destruct (g a); simpl; [|exact IH]. constructor; [|exact IH].
  intro H. apply in_flat_map in H. destruct H as (c & Hc & H). destruct (g c); [|contradiction].
  destruct H as [H|[]]. inversion H; subst. contradiction.
Qed.

Lemma nbrs_parts : forall st v p, nbrs cons st v p = outpart st v p ++ inpart st v p.
Proof. reflexivity. Qed.

Lemma NoDup_outpart : forall st v p, NoDup (outpart st v p).
Proof. intros. unfold outpart. apply (NoDup_flat_map_tag (fun c => (k_act (cst_ st c) && neq_prev p (c_r (con_ cons c)))%bool) (fun c => c_r (con_ cons c))). apply NoDup_adj_from. Qed.
Lemma NoDup_inpart : forall st v p, NoDup (inpart st v p).
Proof. intros. unfold inpart. apply (NoDup_flat_map_tag (fun c => (k_act (cst_ st c) && neq_prev p (c_l (con_ cons c)))%bool) (fun c => c_l (con_ cons c))). apply NoDup_adj_from. Qed.

Lemma outpart_spec : forall st v p c a, In (c, a) (outpart st v p) -> c_l (con_ cons c) = v /\ a = c_r (con_ cons c).
Proof.
  intros st v p c a H. unfold outpart in H. apply in_flat_map in H. destruct H as (c0 & H1 & H2).
  apply cOut_spec in H1. destruct (k_act (cst_ st c0) && neq_prev p (c_r (con_ cons c0)))%bool; [|contradiction].
  destruct H2 as [H2|[]]. inversion H2; subst. now split.
Qed.
Lemma inpart_spec : forall st v p c a, In (c, a) (inpart st v p) -> c_r (con_ cons c) = v /\ a = c_l (con_ cons c).
Proof.
  intros st v p c a H. unfold inpart in H. apply in_flat_map in H. destruct H as (c0 & H1 & H2).
  apply cIn_spec in H1. destruct (k_act (cst_ st c0) && neq_prev p (c_l (con_ cons c0)))%bool; [|contradiction].
  destruct H2 as [H2|[]]. inversion H2; subst. now split.
Qed.

Lemma NoDup_app_mid : forall {A} (l1 l2 l3 : list A) x, ~ NoDup (l1 ++ x :: l2 ++ x :: l3).
Proof.
  intros A l1 l2 l3 x H. apply NoDup_remove_2 in H. apply H. apply in_or_app. right. apply in_or_app. right. now left.
Qed.

Lemma app_split_head : forall {A} (a b l2 : list A) y l3,
  a ++ b = l2 ++ y :: l3 -> (exists k, a = l2 ++ y :: k) \/ In y b.
Proof.
  intros A a. induction a as [|h a IH]; intros b l2 y l3 E; simpl in E.
  - right. rewrite E. apply in_or_app. right. now left.
  - destruct l2 as [|g l2]; simpl in E.
    + inversion E; subst. left. exists a. reflexivity.
    + inversion E; subst. destruct (IH b l2 y l3 H1) as [(k & Ek)|I].
      * left. exists k. now rewrite Ek.
      * now right.
Qed.

Lemma app_split_cases : forall {A} (a b l1 l2 : list A) x y l3,
  a ++ b = l1 ++ x :: l2 ++ y :: l3 ->
  (exists k, a = l1 ++ x :: l2 ++ y :: k) \/ (exists k, b = k ++ x :: l2 ++ y :: l3) \/ (In x a /\ In y b).
Proof.
  intros A a. induction a as [|h a IH]; intros b l1 l2 x y l3 E; simpl in E.
  - right. left. exists l1. exact E.
  - destruct l1 as [|h1 l1]; simpl in E.
    + inversion E; subst. destruct (app_split_head a b l2 y l3 H1) as [(k & Ek)|I].
      * left. exists k. now rewrite Ek.
      * right. right. split; [now left|exact I].
    + inversion E; subst. destruct (IH b l1 l2 x y l3 H1) as [(k & Ek)|[(k & Ek)|[I1 I2]]].
      * left. exists k. now rewrite Ek.
      * right. left. exists k. exact Ek.
      * right. right. split; [now right|exact I2].
Qed.

Lemma nbrs_dup_self : forall st v p c a l1 l2 l3,
  nbrs cons st v p = l1 ++ (c, a) :: l2 ++ (c, a) :: l3 -> a = v.
Proof.
  intros st v p c a l1 l2 l3 E. rewrite nbrs_parts in E.
  apply app_split_cases in E. destruct E as [(k & E)|[(k & E)|[I1 I2]]].
  - exfalso. apply (NoDup_app_mid l1 l2 k (c, a)). rewrite <- E. apply NoDup_outpart.
  - exfalso. apply (NoDup_app_mid k l2 l3 (c, a)). rewrite <- E. apply NoDup_inpart.
  - apply outpart_spec in I1. apply inpart_spec in I2. destruct I1 as [A1 A2]. destruct I2 as [B1 B2]. congruence.
Qed.

(* ---------------------------------------------------------- trees --- *)
Definition tree (st : state) (r : nat) (E : list T3) : Prop :=
  (exists f, reach f st r None = Ok E) /\ NoDup (r :: verts E).

Lemma children_split : forall rec v l1 c x l2 E,
  children rec v (l1 ++ (c, x) :: l2) = Ok E ->
  exists R1 ex R2, children rec v l1 = Ok R1 /\ rec x = Ok ex /\ children rec v l2 = Ok R2 /\
                   E = R1 ++ (c, v, x) :: ex ++ R2.
Proof.
  intros rec v l1 c x l2 E H. apply children_app in H. destruct H as (R1 & R & H1 & H2 & H3).
  simpl in H2. destruct (rec x) as [ex|k]; [|discriminate].
  destruct (children rec v l2) as [R2|k]; [|discriminate]. inversion H2; subst.
  exists R1, ex, R2. now repeat split.
Qed.

Lemma children_join : forall rec v l1 c x l2 R1 ex R2,
  children rec v l1 = Ok R1 -> rec x = Ok ex -> children rec v l2 = Ok R2 ->
  children rec v (l1 ++ (c, x) :: l2) = Ok (R1 ++ (c, v, x) :: ex ++ R2).
Proof.
  intros. apply children_app. exists R1, ((c, v, x) :: ex ++ R2). repeat split; [assumption|].
  simpl. now rewrite H0, H1.
Qed.

Lemma children_verts_snd : forall rec v l E, children rec v l = Ok E -> incl (map snd l) (verts E).
Proof.
  intros rec v l. induction l as [|[c nx] t IH]; intros E H; simpl in *; [intros x []|].
  destruct (rec nx) as [e|k]; [|discriminate]. destruct (children rec v t) as [r|k] eqn:E2; [|discriminate].
  inversion H; subst. intros y [Hy|Hy]; [now left|]. right. rewrite verts_app. apply in_or_app. right. now apply (IH r).
Qed.

Lemma children_NoDup_snd : forall rec v l E, children rec v l = Ok E -> NoDup (verts E) -> NoDup (map snd l).
Proof.
  intros rec v l. induction l as [|[c nx] t IH]; intros E H ND; simpl in *; [constructor|].
  destruct (rec nx) as [e|k]; [|discriminate]. destruct (children rec v t) as [r|k] eqn:E2; [|discriminate].
  inversion H; subst. simpl in ND. rewrite verts_app in ND. inversion ND as [|? ? Hn ND']; subst.
  apply NoDup_app_inv in ND'. destruct ND' as (_ & NDr & _).
  constructor; [|now apply (IH r)].
  intro Q. apply Hn. apply in_or_app. right. now apply (children_verts_snd rec v t r).
Qed.

Lemma NoDup_map_inj : forall {A B} (f : A -> B) l a b, NoDup (map f l) -> In a l -> In b l -> f a = f b -> a = b.
Proof.
  intros A B f l. induction l as [|h t IH]; intros a b ND Ha Hb E; [contradiction|].
  simpl in ND. inversion ND as [|? ? Hn ND']; subst.
  destruct Ha as [Ha|Ha]; destruct Hb as [Hb|Hb]; subst.
  - reflexivity.
  - exfalso. apply Hn. rewrite E. now apply in_map.
  - exfalso. apply Hn. rewrite <- E. now apply in_map.
  - now apply IH.
Qed.

Lemma filter_id : forall {A} (P : A -> bool) l, (forall a, In a l -> P a = true) -> filter P l = l.
Proof.
  induction l as [|a l IH]; intros H; simpl; [reflexivity|].
  rewrite (H a (or_introl eq_refl)). f_equal. apply IH. intros; apply H; now right.
Qed.

Lemma nbrs_sym : forall st v p c x, In (c, x) (nbrs cons st v p) -> In (c, v) (nbrs cons st x None).
Proof.
  intros st v p c x H. apply nbrs_spec in H. destruct H as (L & A & _ & H). apply nbrs_spec.
  repeat split; try assumption. destruct H as [[E1 E2]|[E1 E2]]; subst; [right|left]; now split.
Qed.

Lemma nbrs_relax : forall st v p c x, In (c, x) (nbrs cons st v p) -> In (c, x) (nbrs cons st v None).
Proof.
  intros st v p c x H. apply nbrs_spec in H. destruct H as (L & A & _ & H). apply nbrs_spec. now repeat split.
Qed.

(* an endpoint relation: the other end of an incident constraint *)
Lemma nbrs_other_end : forall st v p q c a b, In (c, a) (nbrs cons st v p) -> In (c, b) (nbrs cons st v q) -> a <> v -> a = b.
Proof.
  intros st v p q c a b Ha Hb Hne. apply nbrs_spec in Ha, Hb.
  destruct Ha as (_ & _ & _ & [[A1 A2]|[A1 A2]]); destruct Hb as (_ & _ & _ & [[B1 B2]|[B1 B2]]); congruence.
Qed.

(* exactly one neighbour entry leads from x back to its tree parent r *)
Lemma back_edge_unique : forall st r x c f E,
  reach (S f) st r None = Ok E -> NoDup (r :: verts E) -> In (c, x) (nbrs cons st r None) ->
  forall y z m1 m2 m3, nbrs cons st x None = m1 ++ y :: m2 ++ z :: m3 ->
                       Nat.eqb r (snd y) = true -> Nat.eqb r (snd z) = true -> False.
Proof.
  intros st r x c f E H ND Hin [c1 a1] [c2 a2] m1 m2 m3 Em Py Pz. simpl in Py, Pz.
  apply Nat.eqb_eq in Py, Pz. subst a1 a2.
  assert (Hxr : x <> r).
  { intro Q. subst x. inversion ND as [|? ? Hn _]; subst. apply Hn.
    cbn [reach] in H. apply (children_verts_snd _ _ _ _ H). change r with (snd (c, r)). now apply in_map. }
  destruct (Nat.eq_dec c1 c2) as [Q|Q].
  - subst c2. apply nbrs_dup_self in Em. congruence.
  - assert (I1 : In (c1, x) (nbrs cons st r None)) by (apply (nbrs_sym st x None); rewrite Em; apply in_or_app; right; now left).
    assert (I2 : In (c2, x) (nbrs cons st r None)).
    { apply (nbrs_sym st x None). rewrite Em. apply in_or_app. right. right. apply in_or_app. right. now left. }
    cbn [reach] in H. inversion ND as [|? ? _ ND']; subst.
    assert (NS := children_NoDup_snd _ _ _ _ H ND').
    assert (Z := NoDup_map_inj snd _ (c1, x) (c2, x) NS I1 I2 eq_refl). inversion Z. contradiction.
Qed.

(* ------------------------------------------------------- re-rooting --- *)
Lemma perm_reroot : forall (r x : nat) A B C D,
  Permutation (x :: C ++ r :: (A ++ B) ++ D) (r :: A ++ x :: (C ++ D) ++ B).
Proof.
  intros.
  apply perm_trans with (r :: x :: A ++ B ++ C ++ D).
  - apply perm_trans with (x :: r :: A ++ B ++ C ++ D); [|constructor].
    constructor.
    apply perm_trans with (r :: C ++ (A ++ B) ++ D); [apply Permutation_sym; apply Permutation_middle|].
    constructor. rewrite <- !app_assoc.
    apply perm_trans with ((A ++ B ++ D) ++ C); [apply Permutation_app_comm|].
    rewrite <- !app_assoc. do 2 apply Permutation_app_head. apply Permutation_app_comm.
  - constructor. apply perm_trans with (x :: A ++ (C ++ D) ++ B); [|apply Permutation_middle].
    constructor. apply Permutation_app_head. rewrite <- !app_assoc.
    apply perm_trans with ((C ++ D) ++ B); [apply Permutation_app_comm|now rewrite <- app_assoc].
Qed.

Lemma reroot_step : forall st r x c f E,
  reach (S f) st r None = Ok E -> NoDup (r :: verts E) -> In (c, x) (nbrs cons st r None) ->
  exists E', reach (S (S f)) st x None = Ok E' /\ Permutation (x :: verts E') (r :: verts E).
Proof.
  intros st r x c f E H ND Hin.
  assert (Huniq := back_edge_unique st r x c f E H ND Hin).
  assert (Hback : In (c, r) (nbrs cons st x None)) by (eapply nbrs_sym; exact Hin).
  destruct (filter_split_one (fun cn => Nat.eqb r (snd cn)) (nbrs cons st x None) (c, r) Hback (Nat.eqb_refl r) Huniq)
    as (m1 & m2 & Em & Ef & _).
  rewrite <- nbrs_prev in Ef.
  (* the children of r *)
  inversion ND as [|? ? Hnr ND']; subst.
  assert (H0 := H). cbn [reach] in H0.
  assert (NS := children_NoDup_snd _ _ _ _ H0 ND').
  apply in_split in Hin. destruct Hin as (L1 & L2 & EL). rewrite EL in H0, NS.
  destruct (children_split _ _ _ _ _ _ _ H0) as (R1 & ex & R2 & C1 & Cx & C2 & EE).
  (* r's neighbour list without x *)
  assert (Er : nbrs cons st r (Some x) = L1 ++ L2).
  { rewrite nbrs_prev, EL, filter_app. simpl. rewrite Nat.eqb_refl. simpl.
    rewrite map_app in NS. simpl in NS.
    assert (Fx : forall a, In a (L1 ++ L2) -> negb (Nat.eqb x (snd a)) = true).
    { intros a Ha. apply negb_true_iff. apply Nat.eqb_neq. intro Q.
      apply NoDup_remove_2 in NS. apply NS. rewrite <- map_app. rewrite Q. now apply in_map. }
    rewrite !filter_id; [reflexivity| |]; intros a Ha; apply Fx; apply in_or_app; [now right|now left]. }
  (* x's own subtree *)
  destruct f as [|f0]; [discriminate|].
  assert (Cx0 := Cx). cbn [reach] in Cx0. rewrite Ef in Cx0.
  apply children_app in Cx0. destruct Cx0 as (X1 & X2 & D1 & D2 & EX).
  exists (X1 ++ (c, x, r) :: (R1 ++ R2) ++ X2). split.
  - change (reach (S (S (S f0))) st x None) with
      (children (fun nx => reach (S (S f0)) st nx (Some x)) x (nbrs cons st x None)).
    rewrite Em. apply children_join.
    + eapply children_ext; [|exact D1]. intros nx e _ He. apply reach_mono. now apply reach_mono.
    + change (reach (S (S f0)) st r (Some x)) with
        (children (fun nx => reach (S f0) st nx (Some r)) r (nbrs cons st r (Some x))).
      rewrite Er. apply children_app. now exists R1, R2.
    + eapply children_ext; [|exact D2]. intros nx e _ He. apply reach_mono. now apply reach_mono.
  - subst E ex. rewrite !verts_app. simpl. rewrite !verts_app. simpl.
    apply perm_reroot.
Qed.

Fixpoint at_depth (d : nat) (st : state) (v : nat) (p : option nat) (x : nat) : Prop :=
  match d with
  | O => x = v
  | S d' => exists c nx, In (c, nx) (nbrs cons st v p) /\ at_depth d' st nx (Some v) x
  end.

Lemma children_in_verts : forall rec v l E y, children rec v l = Ok E -> In y (verts E) ->
  exists c nx e, In (c, nx) l /\ rec nx = Ok e /\ In y (nx :: verts e).
Proof.
  intros rec v l. induction l as [|[c nx] t IH]; intros E y H Hy; simpl in *.
  - inversion H; subst. contradiction.
  - destruct (rec nx) as [e|k] eqn:Er; [|discriminate]. destruct (children rec v t) as [r|k] eqn:E2; [|discriminate].
    inversion H; subst. simpl in Hy. rewrite verts_app in Hy.
    destruct Hy as [Hy|Hy]; [exists c, nx, e; repeat split; [now left|exact Er|now left]|].
    apply in_app_or in Hy. destruct Hy as [Hy|Hy].
    + exists c, nx, e. repeat split; [now left|exact Er|now right].
    + destruct (IH r y eq_refl Hy) as (c' & nx' & e' & A & B & C). exists c', nx', e'. repeat split; [now right|exact B|exact C].
Qed.

Lemma reach_depth : forall f st v p E x, reach f st v p = Ok E -> In x (v :: verts E) -> exists d, at_depth d st v p x.
Proof.
  induction f as [|f IH]; intros st v p E x H Hx; [discriminate|].
  destruct Hx as [Hx|Hx]; [exists 0%nat; now subst|].
  cbn [reach] in H. destruct (children_in_verts _ _ _ _ _ H Hx) as (c & nx & e & A & B & C).
  destruct (IH st nx (Some v) e x B C) as [d Hd]. exists (S d). simpl. now exists c, nx.
Qed.

Lemma at_depth_relax : forall d st y p x, at_depth d st y p x -> at_depth d st y None x.
Proof.
  intros d st y p x H. destruct d as [|d]; [exact H|]. simpl in *. destruct H as (c & nx & A & B).
  exists c, nx. split; [eapply nbrs_relax; exact A|exact B].
Qed.

Lemma reroot : forall d st r x E, tree st r E -> at_depth d st r None x ->
  exists E', tree st x E' /\ Permutation (x :: verts E') (r :: verts E).
Proof.
  induction d as [|d IH]; intros st r x E T H.
  - simpl in H. subst x. exists E. now split.
  - simpl in H. destruct H as (c & nx & Hin & Hd). destruct T as [[f Hf] ND].
    destruct f as [|f]; [discriminate|].
    destruct (reroot_step st r nx c f E Hf ND Hin) as (E1 & R1 & P1).
    assert (T1 : tree st nx E1).
    { split; [now exists (S (S f))|]. apply (Permutation_NoDup (Permutation_sym P1)). exact ND. }
    destruct (IH st nx x E1 T1 (at_depth_relax _ _ _ _ _ Hd)) as (E' & T' & P').
    exists E'. split; [exact T'|]. now transitivity (nx :: verts E1).
Qed.

Lemma reroot_any : forall st r E x, tree st r E -> In x (r :: verts E) ->
  exists E', tree st x E' /\ Permutation (x :: verts E') (r :: verts E).
Proof.
  intros st r E x T Hx. destruct T as [[f Hf] ND].
  destruct (reach_depth f st r None E x Hf Hx) as [d Hd].
  apply (reroot d st r x E); [split; [now exists f|exact ND]|exact Hd].
Qed.

(* -------------------------------------- switching a constraint on / off --- *)
Definition deact (st st' : state) (c : nat) : Prop :=
  forall u, k_act (cst_ st' u) = if Nat.eqb c u then false else k_act (cst_ st u).

Lemma nbrs_endpoint : forall st y q c a, In (c, a) (nbrs cons st y q) ->
  (c_l (con_ cons c) = y /\ c_r (con_ cons c) = a) \/ (c_r (con_ cons c) = y /\ c_l (con_ cons c) = a).
Proof.
  intros st y q c a H. apply nbrs_spec in H. destruct H as (_ & _ & _ & [[A B]|[A B]]); [left|right]; now split.
Qed.

Lemma nbrs_deact_other : forall st st' c u w p y q, deact st st' c -> In (c, w) (nbrs cons st u p) ->
  y <> u -> y <> w -> nbrs cons st' y q = nbrs cons st y q.
Proof.
  intros st st' c u w p y q D Hc Hu Hw. rewrite (nbrs_deact st st' c y q D). apply filter_id.
  intros [k a] Hk. cbn [fst]. apply negb_true_iff. apply Nat.eqb_neq. intro Q. subst k.
  apply nbrs_endpoint in Hc, Hk. destruct Hc as [[A B]|[A B]]; destruct Hk as [[A' B']|[A' B']]; congruence.
Qed.

Lemma filter_ext_in' : forall {A} (P Q : A -> bool) l, (forall a, In a l -> P a = Q a) -> filter P l = filter Q l.
Proof.
  induction l as [|a l IH]; intros H; simpl; [reflexivity|].
  rewrite (H a (or_introl eq_refl)). rewrite IH; [reflexivity|]. intros; apply H; now right.
Qed.

Lemma deact_subtree : forall f st st' c u w q ew,
  deact st st' c -> reach f st w (Some u) = Ok ew -> In (c, w) (nbrs cons st u q) ->
  u <> w -> ~ In u (verts ew) -> ~ In w (verts ew) ->
  (forall k, In (k, u) (nbrs cons st w None) -> k = c) ->
  reach f st' w None = Ok ew.
Proof.
  intros f st st' c u w q ew D H Hc Huw Hu Hw Huniq.
  apply (reach_local f st st' w (Some u) None ew H).
  - rewrite (nbrs_deact st st' c w None D), nbrs_prev. apply filter_ext_in'.
    intros [k a] Hk. cbn [fst snd].
    assert (Hcu : In (c, u) (nbrs cons st w None)) by (eapply nbrs_sym; exact Hc).
    destruct (Nat.eqb_spec c k) as [E|E]; destruct (Nat.eqb_spec u a) as [E2|E2]; try reflexivity.
    + subst k. exfalso. apply E2. apply (nbrs_other_end st w None None c u a Hcu Hk Huw).
    + subst a. exfalso. apply E. symmetry. now apply Huniq.
  - intros y q0 Hy. apply (nbrs_deact_other st st' c u w q y q0 D Hc); intro; subst; contradiction.
Qed.

Lemma verts_incl_app_l : forall A B, incl (verts A) (verts (A ++ B)).
Proof. intros A B x H. rewrite verts_app. apply in_or_app. now left. Qed.

Lemma prune_root : forall st st' c u w E,
  deact st st' c -> tree st u E -> In (c, w) (nbrs cons st u None) ->
  exists E1 E2, tree st' u E1 /\ tree st' w E2 /\
                Permutation (u :: verts E) ((u :: verts E1) ++ (w :: verts E2)) /\
                (exists f, reach f st w (Some u) = Ok E2).
Proof.
  intros st st' c u w E D [[f Hf] ND] Hc. destruct f as [|f]; [discriminate|].
  inversion ND as [|? ? Hnu ND']; subst.
  assert (H0 := Hf). cbn [reach] in H0.
  assert (NS := children_NoDup_snd _ _ _ _ H0 ND').
  assert (Huw : u <> w).
  { intro Q. subst w. apply Hnu. apply (children_verts_snd _ _ _ _ H0). change u with (snd (c, u)). now apply in_map. }
  (* the entries of u's list that use c *)
  assert (Huniq : forall y z m1 m2 m3, nbrs cons st u None = m1 ++ y :: m2 ++ z :: m3 ->
                  Nat.eqb c (fst y) = true -> Nat.eqb c (fst z) = true -> False).
  { intros [k1 a1] [k2 a2] m1 m2 m3 Em P1 P2. cbn [fst] in P1, P2. apply Nat.eqb_eq in P1, P2. subst k1 k2.
    assert (I1 : In (c, a1) (nbrs cons st u None)) by (rewrite Em; apply in_or_app; right; now left).
    assert (I2 : In (c, a2) (nbrs cons st u None)) by (rewrite Em; apply in_or_app; right; right; apply in_or_app; right; now left).
    assert (a1 = w) by (symmetry; apply (nbrs_other_end st u None None c w a1 Hc I1); congruence).
    assert (a2 = w) by (symmetry; apply (nbrs_other_end st u None None c w a2 Hc I2); congruence).
    subst a1 a2. apply nbrs_dup_self in Em. congruence. }
  destruct (filter_split_one (fun cn => Nat.eqb c (fst cn)) (nbrs cons st u None) (c, w) Hc (Nat.eqb_refl c) Huniq)
    as (L1 & L2 & EL & Ef & _).
  rewrite <- (nbrs_deact st st' c u None D) in Ef.
  rewrite EL in H0, NS.
  destruct (children_split _ _ _ _ _ _ _ H0) as (R1 & ew & R2 & C1 & Cw & C2 & EE).
  subst E. rewrite verts_app in ND', Hnu. simpl in ND', Hnu. rewrite verts_app in ND', Hnu.
  assert (NDm := ND'). apply NoDup_remove in NDm. destruct NDm as [ND12 Hnw].
  apply NoDup_app_inv in ND12. destruct ND12 as (ND1 & NDe2 & Dj1). apply NoDup_app_inv in NDe2. destruct NDe2 as (NDe & ND2 & Dj2).
  (* children other than w are unaffected *)
  assert (Keep : forall l R, children (fun nx => reach f st nx (Some u)) u l = Ok R ->
                 ~ In w (verts R) -> ~ In u (verts R) -> children (fun nx => reach f st' nx (Some u)) u l = Ok R).
  { intros l R HR Hw Hu. eapply children_local; [exact HR|]. intros nx e Hin He Hincl. cbv beta.
    assert (Hnx : In nx (verts R)) by (apply (children_verts_snd _ _ _ _ HR); exact Hin).
    apply (reach_local f st st' nx (Some u) (Some u) e He).
    - apply (nbrs_deact_other st st' c u w None nx (Some u) D Hc); intro; subst; contradiction.
    - intros y q0 Hy. apply (nbrs_deact_other st st' c u w None y q0 D Hc); intro; subst; apply Hincl in Hy; contradiction. }
  assert (Hw1 : ~ In w (verts R1)) by (intro Q; apply Hnw; apply in_or_app; now left).
  assert (Hw2 : ~ In w (verts R2)) by (intro Q; apply Hnw; apply in_or_app; right; apply in_or_app; now right).
  assert (Hwe : ~ In w (verts ew)) by (intro Q; apply Hnw; apply in_or_app; right; apply in_or_app; now left).
  assert (Hu1 : ~ In u (verts R1)) by (intro Q; apply Hnu; apply in_or_app; now left).
  assert (Hu2 : ~ In u (verts R2)) by (intro Q; apply Hnu; apply in_or_app; right; right; apply in_or_app; now right).
  assert (Hue : ~ In u (verts ew)) by (intro Q; apply Hnu; apply in_or_app; right; right; apply in_or_app; now left).
  exists (R1 ++ R2), ew. split; [|split; [|split]].
  - split.
    + exists (S f). cbn [reach]. rewrite Ef. apply children_app. exists R1, R2. repeat split; now apply Keep.
    + constructor.
      * rewrite verts_app. intro Q. apply in_app_or in Q. destruct Q; contradiction.
      * rewrite verts_app. apply NoDup_app_intro; try assumption. intros x Hx Hx2. apply (Dj1 x Hx). apply in_or_app. now right.
  - split.
    + exists f. apply (deact_subtree f st st' c u w None ew D Cw Hc Huw Hue Hwe).
      intros k Hk. destruct (Nat.eq_dec k c) as [Q|Q]; [exact Q|exfalso].
      assert (I1 : In (k, w) (nbrs cons st u None)) by (eapply nbrs_sym; exact Hk).
      rewrite <- EL in NS.
      assert (Z := NoDup_map_inj snd _ (k, w) (c, w) NS I1 Hc eq_refl). inversion Z. contradiction.
    + constructor; assumption.
  - rewrite !verts_app. simpl. rewrite !verts_app.
    constructor. rewrite <- app_assoc. apply Permutation_app_head.
    apply (Permutation_app_comm (w :: verts ew) (verts R2)).
  - now exists f.
Qed.

Lemma graft_root : forall st st' c u w EA EB,
  deact st' st c -> k_act (cst_ st' c) = true -> (c < length cons)%nat ->
  ((c_l (con_ cons c) = u /\ c_r (con_ cons c) = w) \/ (c_r (con_ cons c) = u /\ c_l (con_ cons c) = w)) ->
  u <> w -> tree st u EA -> tree st w EB ->
  (forall x, In x (u :: verts EA) -> ~ In x (w :: verts EB)) ->
  exists E', tree st' u E' /\ Permutation (u :: verts E') ((u :: verts EA) ++ (w :: verts EB)).
Proof.
  intros st st' c u w EA EB D Hact Hc Hends Huw [[fA HA] NDA] [[fB HB] NDB] Dj.
  assert (Hc' : In (c, w) (nbrs cons st' u None)).
  { apply nbrs_spec. repeat split; try assumption. destruct Hends as [[A B]|[A B]]; [left|right]; now split. }
  assert (Huniq : forall y z m1 m2 m3, nbrs cons st' u None = m1 ++ y :: m2 ++ z :: m3 ->
                  Nat.eqb c (fst y) = true -> Nat.eqb c (fst z) = true -> False).
  { intros [k1 a1] [k2 a2] m1 m2 m3 Em P1 P2. cbn [fst] in P1, P2. apply Nat.eqb_eq in P1, P2. subst k1 k2.
    assert (I1 : In (c, a1) (nbrs cons st' u None)) by (rewrite Em; apply in_or_app; right; now left).
    assert (I2 : In (c, a2) (nbrs cons st' u None)) by (rewrite Em; apply in_or_app; right; right; apply in_or_app; right; now left).
    assert (a1 = w) by (symmetry; apply (nbrs_other_end st' u None None c w a1 Hc' I1); congruence).
    assert (a2 = w) by (symmetry; apply (nbrs_other_end st' u None None c w a2 Hc' I2); congruence).
    subst a1 a2. apply nbrs_dup_self in Em. congruence. }
  destruct (filter_split_one (fun cn => Nat.eqb c (fst cn)) (nbrs cons st' u None) (c, w) Hc' (Nat.eqb_refl c) Huniq)
    as (L1 & L2 & EL & Ef & _).
  rewrite <- (nbrs_deact st' st c u None D) in Ef.
  destruct fA as [|fA]; [discriminate|].
  assert (H0 := HA). cbn [reach] in H0. rewrite Ef in H0.
  apply children_app in H0. destruct H0 as (R1 & R2 & C1 & C2 & EE). subst EA.
  inversion NDA as [|? ? HnuA NDA']; subst. inversion NDB as [|? ? HnwB NDB']; subst.
  set (F := (fA + fB)%nat).
  assert (Keep : forall l R, children (fun nx => reach fA st nx (Some u)) u l = Ok R ->
                 incl (verts R) (verts (R1 ++ R2)) -> children (fun nx => reach F st' nx (Some u)) u l = Ok R).
  { intros l R HR Hincl. eapply children_local; [exact HR|]. intros nx e Hin He Hincl2. cbv beta.
    assert (Hnx : In nx (verts R)) by (apply (children_verts_snd _ _ _ _ HR); exact Hin).
    apply (reach_le fA F); [unfold F; lia|].
    assert (Out : forall y, In y (verts R) -> y <> u /\ y <> w).
    { intros y Hy. apply Hincl in Hy. split; [intro; subst; contradiction|].
      intro; subst. apply (Dj w); [now right|now left]. }
    apply (reach_local fA st st' nx (Some u) (Some u) e He).
    - symmetry. destruct (Out nx Hnx). now apply (nbrs_deact_other st' st c u w None nx (Some u) D Hc').
    - intros y q0 Hy. symmetry. destruct (Out y (Hincl2 y Hy)). now apply (nbrs_deact_other st' st c u w None y q0 D Hc'). }
  assert (HwB : reach F st' w (Some u) = Ok EB).
  { apply (reach_le fB F); [unfold F; lia|].
    apply (reach_local fB st st' w None (Some u) EB HB).
    - rewrite nbrs_prev, (nbrs_deact st' st c w None D). apply filter_ext_in'.
      intros [k a] Hk. cbn [fst snd].
      assert (Hcu : In (c, u) (nbrs cons st' w None)) by (eapply nbrs_sym; exact Hc').
      destruct (Nat.eqb_spec c k) as [E|E]; destruct (Nat.eqb_spec u a) as [E2|E2]; try reflexivity.
      + subst k. exfalso. apply E2. apply (nbrs_other_end st' w None None c u a Hcu Hk Huw).
      + subst a. exfalso.
        (* an edge other than c from w to u would already be active in st: u would be in w's tree *)
        assert (Hk0 : In (k, u) (nbrs cons st w None)).
        { rewrite (nbrs_deact st' st c w None D). apply filter_In. split; [exact Hk|]. cbn [fst]. apply negb_true_iff. now apply Nat.eqb_neq. }
        destruct fB as [|fB]; [discriminate|]. cbn [reach] in HB.
        apply (Dj u); [now left|right]. apply (children_verts_snd _ _ _ _ HB). change u with (snd (k, u)). now apply in_map.
    - intros y q0 Hy. symmetry. apply (nbrs_deact_other st' st c u w None y q0 D Hc').
      + intro; subst. apply (Dj u); [now left|now right].
      + intro; subst. contradiction. }
  exists (R1 ++ (c, u, w) :: EB ++ R2).
  assert (P : Permutation (u :: verts (R1 ++ (c, u, w) :: EB ++ R2)) ((u :: verts (R1 ++ R2)) ++ w :: verts EB)).
  { rewrite !verts_app. simpl. rewrite !verts_app. constructor. rewrite <- app_assoc. apply Permutation_app_head.
    apply (Permutation_app_comm (w :: verts EB) (verts R2)). }
  split; [|exact P]. split.
  - exists (S F). cbn [reach]. rewrite EL. apply children_join.
    + apply Keep; [exact C1|apply verts_incl_app_l].
    + exact HwB.
    + apply Keep; [exact C2|]. intros y Hy. rewrite verts_app. apply in_or_app. now right.
  - apply (Permutation_NoDup (Permutation_sym P)). apply NoDup_app_intro; [exact NDA|exact NDB|exact Dj].
Qed.

(* every active constraint at a visited vertex is traversed, one way or the other *)
Lemma children_contains : forall rec v l E c nx, children rec v l = Ok E -> In (c, nx) l ->
  In (c, v, nx) E /\ exists e, rec nx = Ok e /\ incl e E.
Proof.
  intros rec v l E c nx H Hin. apply in_split in Hin. destruct Hin as (l1 & l2 & El). subst l.
  destruct (children_split _ _ _ _ _ _ _ H) as (R1 & ex & R2 & C1 & Cx & C2 & EE). subst E. split.
  - apply in_or_app. right. now left.
  - exists ex. split; [exact Cx|]. intros t Ht. apply in_or_app. right. right. apply in_or_app. now left.
Qed.

Lemma children_in_verts' : forall rec v l E y, children rec v l = Ok E -> In y (verts E) ->
  exists c nx e, In (c, nx) l /\ rec nx = Ok e /\ In y (nx :: verts e) /\ incl e E.
Proof.
  intros rec v l E y H Hy. destruct (children_in_verts rec v l E y H Hy) as (c & nx & e & A & B & C).
  exists c, nx, e. repeat split; try assumption.
  destruct (children_contains rec v l E c nx H A) as (_ & e' & B' & I). rewrite B in B'. inversion B'; subst. exact I.
Qed.

Lemma edge_traversed : forall f st v p E, reach f st v p = Ok E ->
  forall x c' y, In x (v :: verts E) -> In (c', y) (nbrs cons st x None) -> (x = v -> neq_prev p y = true) ->
  In (c', x, y) E \/ In (c', y, x) E.
Proof.
  induction f as [|f IH]; intros st v p E H x c' y Hx Hc Hp; [discriminate|].
  cbn [reach] in H.
  destruct (Nat.eq_dec x v) as [Q|Q].
  - subst x. left.
    assert (I : In (c', y) (nbrs cons st v p)).
    { apply nbrs_spec in Hc. destruct Hc as (A & B & _ & D). apply nbrs_spec. repeat split; try assumption. now apply Hp. }
    now apply (children_contains _ _ _ _ _ _ H I).
  - destruct Hx as [Hx|Hx]; [congruence|].
    destruct (children_in_verts' _ _ _ _ _ H Hx) as (k & nx & e & A & B & C & I).
    destruct (Nat.eq_dec x nx) as [Q1|Q1]; [destruct (Nat.eq_dec y v) as [Q2|Q2]|].
    + subst x y. right.
      assert (I2 : In (c', nx) (nbrs cons st v p)).
      { apply nbrs_sym in Hc. apply nbrs_spec in Hc. destruct Hc as (A1 & B1 & _ & D1).
        apply nbrs_spec in A. destruct A as (_ & _ & N & _). apply nbrs_spec. now repeat split. }
      now apply (children_contains _ _ _ _ _ _ H I2).
    + subst x. destruct (IH st nx (Some v) e B nx c' y (or_introl eq_refl) Hc) as [Z|Z].
      * intros _. cbn [neq_prev]. apply negb_true_iff. apply Nat.eqb_neq. congruence.
      * left. now apply I.
      * right. now apply I.
    + destruct (IH st nx (Some v) e B x c' y C Hc) as [Z|Z].
      * intro. congruence.
      * left. now apply I.
      * right. now apply I.
Qed.
End Tree.
