(* Block splitting (Block.split / createSplitBlock / populateSplitBlock)
   preserves the invariants, given the tree invariant I3. *)
From Coq Require Import ZArith QArith Qabs Qminmax List Bool Arith Lia Lqa Permutation.
From Labella Require Import Vpsc.Vpsc Vpsc.VpscBase Vpsc.InvBase Vpsc.InvProofs Vpsc.Tree.
Import ListNotations.
Open Scope Q_scope.

Section Split.
Variable vars : list var.
Variable cons : list con.
Let n := length vars.
Let m := length cons.

(* reach only looks at the activity flags *)
Lemma reach_act_ext : forall f st st' v p,
  (forall c, k_act (cst_ st' c) = k_act (cst_ st c)) -> reach cons f st' v p = reach cons f st v p.
Proof.
  induction f as [|f IH]; intros st st' v p H; [reflexivity|]. cbn [reach].
  rewrite (nbrs_act_ext cons st st' v p H).
  assert (E : forall l, children (fun nx => reach cons f st' nx (Some v)) v l = children (fun nx => reach cons f st nx (Some v)) v l).
  { induction l as [|[c nx] t IHl]; simpl; [reflexivity|]. rewrite (IH st st' nx (Some v) H). now rewrite IHl. }
  apply E.
Qed.

Lemma reach_parent : forall f st v p E t, reach cons f st v p = Ok E -> In t E -> t_p t = v \/ In (t_p t) (verts E).
Proof.
  induction f as [|f IH]; intros st v p E t H Ht; [discriminate|]. cbn [reach] in H.
  revert E H Ht. induction (nbrs cons st v p) as [|[c nx] l IHl]; intros E H Ht; simpl in H.
  - inversion H; subst. contradiction.
  - destruct (reach cons f st nx (Some v)) as [e|k] eqn:Er; [|discriminate].
    destruct (children (fun nx0 => reach cons f st nx0 (Some v)) v l) as [r|k] eqn:Ec; [|discriminate].
    inversion H; subst. destruct Ht as [Ht|Ht]; [subst t; now left|].
    apply in_app_or in Ht. destruct Ht as [Ht|Ht].
    + right. simpl. destruct (IH st nx (Some v) e t Er Ht) as [Q|Q]; [left; now rewrite Q|right].
      rewrite verts_app. apply in_or_app. now left.
    + destruct (IHl r eq_refl Ht) as [Q|Q]; [now left|right]. simpl. right. rewrite verts_app. apply in_or_app. now right.
Qed.

Lemma reach_edge : forall f st v p E t, reach cons f st v p = Ok E -> In t E ->
  exists q, In (t_c t, t_v t) (nbrs cons st (t_p t) q).
Proof.
  induction f as [|f IH]; intros st v p E t H Ht; [discriminate|]. cbn [reach] in H.
  assert (G : forall l E0, children (fun nx => reach cons f st nx (Some v)) v l = Ok E0 -> incl l (nbrs cons st v p) -> In t E0 ->
              exists q, In (t_c t, t_v t) (nbrs cons st (t_p t) q)).
  { induction l as [|[c nx] l IHl]; intros E0 H0 Hl Ht0; simpl in H0.
    - inversion H0; subst. contradiction.
    - destruct (reach cons f st nx (Some v)) as [e|k] eqn:Er; [|discriminate].
      destruct (children (fun nx0 => reach cons f st nx0 (Some v)) v l) as [r|k] eqn:Ec; [|discriminate].
      inversion H0; subst. destruct Ht0 as [Ht0|Ht0].
      + subst t. exists p. apply Hl. now left.
      + apply in_app_or in Ht0. destruct Ht0 as [Ht0|Ht0]; [eapply IH; eassumption|].
        apply (IHl r eq_refl); [|exact Ht0]. intros x Hx. apply Hl. now right. }
  apply (G _ E H); [apply incl_refl|exact Ht].
Qed.

(* the offset relation populateSplitBlock establishes along a traversed constraint *)
Definition rel (s : state) (t : T3) : Prop :=
  o_off (vst_ s (t_v t)) =
  if Nat.eqb (t_v t) (c_r (con_ cons (t_c t)))
  then qr (o_off (vst_ s (t_p t)) + c_gap (con_ cons (t_c t)))
  else qr (o_off (vst_ s (t_p t)) - c_gap (con_ cons (t_c t))).

Record PopSpec (s s' : state) (bid : nat) (v : nat) (E : list T3) : Prop := mkPop {
  ps_c : s_c s' = s_c s;
  ps_list : s_list s' = s_list s;
  ps_inact : s_inact s' = s_inact s;
  ps_nv : length (s_v s') = length (s_v s);
  ps_nb : length (s_b s') = length (s_b s);
  ps_vars : b_vars (blk_ s' bid) = b_vars (blk_ s bid) ++ verts E;
  ps_ind : b_ind (blk_ s' bid) = b_ind (blk_ s bid);
  ps_other : forall b, b <> bid -> blk_ s' b = blk_ s b;
  ps_keep : forall y, ~ In y (verts E) -> vst_ s' y = vst_ s y;
  ps_blk : forall y, In y (verts E) -> o_blk (vst_ s' y) = bid;
  ps_rel : NoDup (v :: verts E) -> forall t, In t E -> rel s' t
}.

Lemma populate_spec : forall f bid v prev s s',
  populate vars cons f bid v prev s = Ok s' -> (bid < length (s_b s))%nat ->
  (forall c, (c < m)%nat -> (c_l (con_ cons c) < length (s_v s))%nat /\ (c_r (con_ cons c) < length (s_v s))%nat) ->
  exists E, reach cons f s v prev = Ok E /\ PopSpec s s' bid v E.
Proof.
  induction f as [|f IH]; intros bid v prev s s' H Hb Hidx; [discriminate|].
  cbn [populate reach] in *.
  set (step := fun (cn : nat * nat) (s0 : state) =>
         let (c, nx) := cn in
         populate vars cons f bid nx (Some v)
           (add_variable vars (set_off s0 nx (if Nat.eqb nx (c_r (con_ cons c))
                                              then qr (o_off (vst_ s0 v) + c_gap (con_ cons c))
                                              else qr (o_off (vst_ s0 v) - c_gap (con_ cons c)))) bid nx)) in *.
  assert (G : forall l s0 s1, fold_res step l s0 = Ok s1 -> incl l (nbrs cons s v prev) ->
              (forall c, k_act (cst_ s0 c) = k_act (cst_ s c)) -> (bid < length (s_b s0))%nat -> length (s_v s0) = length (s_v s) ->
              exists E, children (fun nx => reach cons f s nx (Some v)) v l = Ok E /\ PopSpec s0 s1 bid v E).
  { induction l as [|[c nx] l IHl]; intros s0 s1 H0 Hl Hact Hb0 Hlen; simpl in H0.
    - inversion H0; subst. exists []. split; [reflexivity|]. constructor; try reflexivity.
      + simpl. now rewrite app_nil_r. + intros y []. + intros _ t [].
    - unfold step at 1 in H0.
      set (o' := if Nat.eqb nx (c_r (con_ cons c)) then qr (o_off (vst_ s0 v) + c_gap (con_ cons c))
                 else qr (o_off (vst_ s0 v) - c_gap (con_ cons c))) in *.
      set (sa := add_variable vars (set_off s0 nx o') bid nx) in *.
      destruct (populate vars cons f bid nx (Some v) sa) as [s2|k] eqn:Ep; [|discriminate].
      (* nx is a variable *)
      assert (Hnx : (nx < length (s_v s0))%nat).
      { assert (Q : In (c, nx) (nbrs cons s v prev)) by (apply Hl; now left). apply nbrs_spec in Q.
        destruct Q as (Lc & _ & _ & Q). fold m in Lc. destruct (Hidx c Lc) as [A B]. rewrite Hlen.
        destruct Q as [[_ Q]|[_ Q]]; now rewrite Q. }
      assert (Fso := set_off_frame s0 nx o'). destruct Fso as (F1 & F2 & F3 & F4 & F5).
      assert (Fa := add_variable_frame vars (set_off s0 nx o') bid nx). cbv zeta in Fa. fold sa in Fa.
      destruct Fa as (A1 & A2 & A3 & A4 & A5).
      assert (Hact_a : forall c0, k_act (cst_ sa c0) = k_act (cst_ s c0)).
      { intros c0. unfold cst_. rewrite A3, F3. apply Hact. }
      assert (Hb_a : (bid < length (s_b sa))%nat) by (rewrite A5, F5; exact Hb0).
      assert (Hidx_a : forall c0, (c0 < m)%nat -> (c_l (con_ cons c0) < length (s_v sa))%nat /\ (c_r (con_ cons c0) < length (s_v sa))%nat)
        by (intros c0 Hc0; rewrite A4, F4, Hlen; now apply Hidx).
      destruct (IH bid nx (Some v) sa s2 Ep Hb_a Hidx_a) as (e & Re & Pe).
      rewrite (reach_act_ext f s sa nx (Some v) Hact_a) in Re.
      assert (Hact_2 : forall c0, k_act (cst_ s2 c0) = k_act (cst_ s c0))
        by (intros c0; unfold cst_; rewrite (ps_c _ _ _ _ _ Pe); apply Hact_a).
      assert (Hb_2 : (bid < length (s_b s2))%nat) by (rewrite (ps_nb _ _ _ _ _ Pe); exact Hb_a).
      assert (Hlen_2 : length (s_v s2) = length (s_v s)) by (rewrite (ps_nv _ _ _ _ _ Pe), A4, F4; exact Hlen).
      destruct (IHl s2 s1 H0 (fun x Hx => Hl x (or_intror Hx)) Hact_2 Hb_2 Hlen_2) as (r & Rr & Pr).
      exists ((c, v, nx) :: e ++ r). split; [cbn [children]; now rewrite Re, Rr|].
      (* the state right after adding nx *)
      assert (Va : forall y, vst_ sa y = if Nat.eqb nx y then mkVst o' bid else vst_ s0 y).
      { intros y. unfold sa. rewrite add_variable_vst by (now rewrite F4).
        unfold set_off. rewrite !vst_set_v. rewrite Nat.eqb_refl.
        replace (Nat.ltb nx (length (s_v s0))) with true by (symmetry; now apply Nat.ltb_lt).
        cbn [andb o_off]. destruct (Nat.eqb nx y); reflexivity. }
      assert (Ba : b_vars (blk_ sa bid) = b_vars (blk_ s0 bid) ++ [nx] /\ b_ind (blk_ sa bid) = b_ind (blk_ s0 bid)).
      { destruct (add_variable_blk_same vars (set_off s0 nx o') bid nx) as (X & Y & _); [now rewrite F5|].
        fold sa in X, Y. split; [exact X|exact Y]. }
      assert (Oa : forall b, b <> bid -> blk_ sa b = blk_ s0 b)
        by (intros b Hbb; unfold sa; now rewrite add_variable_blk_other).
      constructor.
      + now rewrite (ps_c _ _ _ _ _ Pr), (ps_c _ _ _ _ _ Pe), A3, F3.
      + now rewrite (ps_list _ _ _ _ _ Pr), (ps_list _ _ _ _ _ Pe), A1, F1.
      + now rewrite (ps_inact _ _ _ _ _ Pr), (ps_inact _ _ _ _ _ Pe), A2, F2.
      + now rewrite (ps_nv _ _ _ _ _ Pr), (ps_nv _ _ _ _ _ Pe), A4, F4.
      + now rewrite (ps_nb _ _ _ _ _ Pr), (ps_nb _ _ _ _ _ Pe), A5, F5.
      + rewrite (ps_vars _ _ _ _ _ Pr), (ps_vars _ _ _ _ _ Pe). destruct Ba as [Ba _]. rewrite Ba.
        simpl. rewrite verts_app. now rewrite <- !app_assoc.
      + rewrite (ps_ind _ _ _ _ _ Pr), (ps_ind _ _ _ _ _ Pe). now destruct Ba.
      + intros b Hbb. rewrite (ps_other _ _ _ _ _ Pr b Hbb), (ps_other _ _ _ _ _ Pe b Hbb). now apply Oa.
      + intros y Hy. simpl in Hy. rewrite verts_app in Hy.
        rewrite (ps_keep _ _ _ _ _ Pr) by (intro Q; apply Hy; right; apply in_or_app; now right).
        rewrite (ps_keep _ _ _ _ _ Pe) by (intro Q; apply Hy; right; apply in_or_app; now left).
        rewrite Va. destruct (Nat.eqb_spec nx y) as [Q|Q]; [exfalso; apply Hy; now left|reflexivity].
      + intros y Hy. simpl in Hy. rewrite verts_app in Hy.
        destruct (in_dec Nat.eq_dec y (verts r)) as [Ir|Ir]; [now apply (ps_blk _ _ _ _ _ Pr)|].
        rewrite (ps_keep _ _ _ _ _ Pr) by exact Ir.
        destruct (in_dec Nat.eq_dec y (verts e)) as [Ie|Ie]; [now apply (ps_blk _ _ _ _ _ Pe)|].
        rewrite (ps_keep _ _ _ _ _ Pe) by exact Ie. rewrite Va.
        destruct Hy as [Hy|Hy]; [subst y; now rewrite Nat.eqb_refl|].
        apply in_app_or in Hy. destruct Hy; contradiction.
      + intros ND t Ht. simpl in ND. rewrite verts_app in ND.
        inversion ND as [|? ? Hnv ND1]; subst. inversion ND1 as [|? ? Hnnx ND2]; subst.
        apply NoDup_app_inv in ND2. destruct ND2 as (NDe & NDr & Dj).
        assert (Kv : forall st1 st2 E0 (P : PopSpec st1 st2 bid v E0) y, ~ In y (verts E0) -> vst_ st2 y = vst_ st1 y)
          by (intros st1 st2 E0 P y Hy; now apply (ps_keep _ _ _ _ _ P)).
        destruct Ht as [Ht|Ht].
        * subst t. unfold rel, t_v, t_p, t_c. cbn [fst snd].
          assert (Hnx_r : ~ In nx (verts r)) by (intro Q; apply Hnnx; apply in_or_app; now right).
          assert (Hnx_e : ~ In nx (verts e)) by (intro Q; apply Hnnx; apply in_or_app; now left).
          assert (Hv_r : ~ In v (verts r)) by (intro Q; apply Hnv; right; apply in_or_app; now right).
          assert (Hv_e : ~ In v (verts e)) by (intro Q; apply Hnv; right; apply in_or_app; now left).
          rewrite (ps_keep _ _ _ _ _ Pr nx Hnx_r), (ps_keep _ _ _ _ _ Pe nx Hnx_e), Va, Nat.eqb_refl.
          rewrite (ps_keep _ _ _ _ _ Pr v Hv_r), (ps_keep _ _ _ _ _ Pe v Hv_e), Va.
          replace (Nat.eqb nx v) with false by (symmetry; apply Nat.eqb_neq; intro Q; apply Hnv; now left).
          cbn [o_off]. reflexivity.
        * apply in_app_or in Ht. destruct Ht as [Ht|Ht].
          -- assert (Re' : rel s2 t).
             { apply (ps_rel _ _ _ _ _ Pe); [|exact Ht]. constructor; [intro Q; apply Hnnx; apply in_or_app; now left|exact NDe]. }
             assert (Hy : In (t_v t) (verts e)) by (unfold verts; now apply in_map).
             assert (Hx : t_p t = nx \/ In (t_p t) (verts e)) by (eapply reach_parent; eassumption).
             unfold rel in *.
             rewrite (ps_keep _ _ _ _ _ Pr (t_v t)) by (now apply Dj).
             rewrite (ps_keep _ _ _ _ _ Pr (t_p t)); [exact Re'|].
             destruct Hx as [Hx|Hx]; [rewrite Hx; intro Q; apply Hnnx; apply in_or_app; now right|now apply Dj].
          -- apply (ps_rel _ _ _ _ _ Pr); [|exact Ht]. constructor; [|exact NDr].
             intro Q. apply Hnv. right. apply in_or_app. now right. }
  destruct (G _ s s' H (incl_refl _) (fun c => eq_refl) Hb eq_refl) as (E & RE & PE).
  exists E. now split.
Qed.

Record CSpec (st s' : state) (bid v : nat) (E : list T3) : Prop := mkCS {
  cs_c : s_c s' = s_c st;
  cs_list : s_list s' = s_list st;
  cs_inact : s_inact s' = s_inact st;
  cs_nv : length (s_v s') = length (s_v st);
  cs_nb : length (s_b s') = S (length (s_b st));
  cs_old : forall b, (b < length (s_b st))%nat -> blk_ s' b = blk_ st b;
  cs_vars : b_vars (blk_ s' bid) = v :: verts E;
  cs_keep : forall y, ~ In y (v :: verts E) -> vst_ s' y = vst_ st y;
  cs_blk : forall y, In y (v :: verts E) -> o_blk (vst_ s' y) = bid;
  cs_rel : NoDup (v :: verts E) -> forall t, In t E -> rel s' t
}.

Lemma create_split_spec : forall st v s' bid,
  create_split vars cons st v = Ok (s', bid) -> (v < length (s_v st))%nat ->
  (forall c, (c < m)%nat -> (c_l (con_ cons c) < length (s_v st))%nat /\ (c_r (con_ cons c) < length (s_v st))%nat) ->
  bid = length (s_b st) /\ exists E, reach cons (trav_fuel vars) st v None = Ok E /\ CSpec st s' bid v E.
Proof.
  intros st v s' bid H Hv Hidx. unfold create_split in H.
  destruct (new_block vars st v) as [sN b0] eqn:EN.
  destruct (populate vars cons (trav_fuel vars) b0 v None sN) as [s2|k] eqn:EP; [|discriminate].
  inversion H; subst s2 b0. clear H.
  assert (ENb : bid = length (s_b st)) by (unfold new_block in EN; now inversion EN).
  split; [exact ENb|]. subst bid. set (bid := length (s_b st)) in *.
  set (sA := mkSt (s_v (set_off st v 0)) (s_c (set_off st v 0)) (s_b (set_off st v 0) ++ [mkBlk [] 0 (v_sc (var_ vars v)) 0 0 0 0])
                  (s_list (set_off st v 0)) (s_inact (set_off st v 0)) (s_mg (set_off st v 0))) in *.
  assert (LA : length (s_b sA) = S bid) by (unfold sA, set_off, set_v; cbn [s_b]; rewrite app_length; simpl; unfold bid; lia).
  assert (VA : length (s_v sA) = length (s_v st)) by (unfold sA, set_off, set_v; cbn [s_v]; now rewrite length_upd).
  assert (ENs : add_variable vars sA bid v = sN) by (unfold new_block in EN; inversion EN; reflexivity).
  clear EN.
  assert (FN := add_variable_frame vars sA bid v). cbv zeta in FN. rewrite ENs in FN. destruct FN as (N1 & N2 & N3 & N4 & N5).
  assert (VN : forall y, vst_ sN y = if Nat.eqb v y then mkVst 0 bid else vst_ st y).
  { intros y. rewrite <- ENs. rewrite add_variable_vst by (now rewrite VA).
    unfold sA, vst_. cbn [s_v]. unfold set_off, set_v. cbn [s_v]. rewrite !nth_upd.
    rewrite Nat.eqb_refl. replace (Nat.ltb v (length (s_v st))) with true by (symmetry; now apply Nat.ltb_lt).
    cbn [andb o_off]. destruct (Nat.eqb v y); reflexivity. }
  assert (BN : forall b, (b < bid)%nat -> blk_ sN b = blk_ st b).
  { intros b Hb. rewrite <- ENs. rewrite add_variable_blk_other by lia.
    unfold blk_, sA. cbn [s_b]. unfold set_off, set_v. cbn [s_b]. now rewrite app_nth1. }
  assert (BNb : b_vars (blk_ sN bid) = [v] /\ b_ind (blk_ sN bid) = 0%nat).
  { rewrite <- ENs. destruct (add_variable_blk_same vars sA bid v) as (X & Y & _); [rewrite LA; lia|].
    rewrite X, Y. unfold blk_, sA. cbn [s_b]. unfold set_off, set_v. cbn [s_b]. rewrite app_nth2 by (unfold bid; lia).
    replace (bid - length (s_b st))%nat with 0%nat by (unfold bid; lia). now split. }
  assert (Hb : (bid < length (s_b sN))%nat) by (rewrite N5, LA; lia).
  assert (HidxN : forall c, (c < m)%nat -> (c_l (con_ cons c) < length (s_v sN))%nat /\ (c_r (con_ cons c) < length (s_v sN))%nat)
    by (intros c Hc; rewrite N4, VA; now apply Hidx).
  destruct (populate_spec (trav_fuel vars) bid v None sN s' EP Hb HidxN) as (E & RE & PE).
  assert (ActN : forall c, k_act (cst_ sN c) = k_act (cst_ st c)).
  { intros c. unfold cst_. rewrite N3. reflexivity. }
  rewrite (reach_act_ext (trav_fuel vars) st sN v None ActN) in RE.
  exists E. split; [exact RE|]. constructor.
  - rewrite (ps_c _ _ _ _ _ PE), N3. reflexivity.
  - rewrite (ps_list _ _ _ _ _ PE), N1. reflexivity.
  - rewrite (ps_inact _ _ _ _ _ PE), N2. reflexivity.
  - rewrite (ps_nv _ _ _ _ _ PE), N4. exact VA.
  - rewrite (ps_nb _ _ _ _ _ PE), N5. exact LA.
  - intros b Hbb. rewrite (ps_other _ _ _ _ _ PE) by (unfold bid; lia). apply BN. exact Hbb.
  - rewrite (ps_vars _ _ _ _ _ PE). destruct BNb as [X _]. now rewrite X.
  - intros y Hy. rewrite (ps_keep _ _ _ _ _ PE) by (intro Q; apply Hy; now right). rewrite VN.
    destruct (Nat.eqb_spec v y) as [Q|Q]; [exfalso; apply Hy; now left|reflexivity].
  - intros y Hy. destruct (in_dec Nat.eq_dec y (verts E)) as [I|I]; [now apply (ps_blk _ _ _ _ _ PE)|].
    rewrite (ps_keep _ _ _ _ _ PE) by exact I. rewrite VN. destruct Hy as [Hy|Hy]; [subst; now rewrite Nat.eqb_refl|contradiction].
  - apply (ps_rel _ _ _ _ _ PE).
Qed.

(* ------------------------------------------- block list bookkeeping --- *)
Definition LI (st : state) : Prop :=
  NoDup (s_list st) /\ (forall b, In b (s_list st) -> (b < length (s_b st))%nat) /\
  (forall i, (i < length (s_list st))%nat -> b_ind (blk_ st (nth i (s_list st) 0%nat)) = i).

Lemma LI_insert : forall st bid, LI st -> (bid < length (s_b st))%nat -> ~ In bid (s_list st) ->
  let st' := bs_insert st bid in
  LI st' /\ s_list st' = s_list st ++ [bid] /\ s_v st' = s_v st /\ s_c st' = s_c st /\ s_inact st' = s_inact st /\
  length (s_b st') = length (s_b st) /\ (forall b, b_vars (blk_ st' b) = b_vars (blk_ st b)).
Proof.
  intros st bid (ND & IDS & IND) Hb Hn st'. unfold st', bs_insert.
  assert (BL : forall b, blk_ (set_list (set_b st bid (mkBlk (b_vars (blk_ st bid)) (b_posn (blk_ st bid)) (b_sc (blk_ st bid))
                 (b_AB (blk_ st bid)) (b_AD (blk_ st bid)) (b_A2 (blk_ st bid)) (length (s_list st))))
                 (s_list (set_b st bid (mkBlk (b_vars (blk_ st bid)) (b_posn (blk_ st bid)) (b_sc (blk_ st bid))
                 (b_AB (blk_ st bid)) (b_AD (blk_ st bid)) (b_A2 (blk_ st bid)) (length (s_list st)))) ++ [bid])) b =
                 if Nat.eqb bid b then mkBlk (b_vars (blk_ st bid)) (b_posn (blk_ st bid)) (b_sc (blk_ st bid))
                 (b_AB (blk_ st bid)) (b_AD (blk_ st bid)) (b_A2 (blk_ st bid)) (length (s_list st)) else blk_ st b).
  { intros b. unfold blk_ at 1. cbn [set_list set_b s_b]. rewrite nth_upd.
    replace (Nat.ltb bid (length (s_b st))) with true by (symmetry; now apply Nat.ltb_lt). now rewrite andb_true_r. }
  unfold LI. cbn [set_list set_b s_list s_v s_c s_inact s_b] in *. rewrite !length_upd.
  split; [|split; [reflexivity|split; [reflexivity|split; [reflexivity|split; [reflexivity|split; [reflexivity|]]]]]].
  - split; [|split].
    + apply NoDup_app_intro; [exact ND|constructor; [intros []|constructor]|]. intros x Hx [Q|[]]. subst. contradiction.
    + intros b Hbin. apply in_app_or in Hbin. destruct Hbin as [Q|[Q|[]]]; [now apply IDS|now subst].
    + intros i Hi. rewrite app_length in Hi. simpl in Hi. rewrite BL.
      destruct (Nat.lt_ge_cases i (length (s_list st))) as [Q|Q].
      * rewrite app_nth1 by exact Q.
        replace (Nat.eqb bid (nth i (s_list st) 0%nat)) with false; [now apply IND|].
        symmetry. apply Nat.eqb_neq. intro Z. apply Hn. rewrite Z. now apply nth_In.
      * assert (i = length (s_list st)) by lia. subst i. rewrite app_nth2 by lia. rewrite Nat.sub_diag. simpl.
        now rewrite Nat.eqb_refl.
  - intros b. rewrite BL. destruct (Nat.eqb_spec bid b); [now subst|reflexivity].
Qed.

Lemma LI_remove : forall st b, LI st -> In b (s_list st) ->
  let st' := bs_remove st b in
  LI st' /\ Permutation (b :: s_list st') (s_list st) /\ s_v st' = s_v st /\ s_c st' = s_c st /\ s_inact st' = s_inact st /\
  length (s_b st') = length (s_b st) /\ (forall x, b_vars (blk_ st' x) = b_vars (blk_ st x)).
Proof.
  intros st b (ND & IDS & IND) Hb st'.
  destruct (In_nth _ _ 0%nat Hb) as [i [Hi Hnth]].
  assert (Hbind : b_ind (blk_ st b) = i) by (rewrite <- Hnth; now apply IND).
  destruct (bs_remove_spec vars cons st b i ND Hi Hnth Hbind IDS) as (A2 & V2 & C2 & B2 & LB2 & S2 & I2).
  fold st' in A2, V2, C2, B2, LB2, S2, I2.
  set (l := s_list st) in *.
  assert (F := proj1 (NoDup_nth l 0%nat) ND).
  split; [|split; [|repeat split; assumption]].
  - split; [|split].
    + rewrite A2. now apply swap_remove_NoDup.
    + intros x Hx. rewrite A2 in Hx. apply swap_remove_incl in Hx; [|exact Hi]. rewrite LB2. now apply IDS.
    + intros j Hj. rewrite A2 in *. rewrite swap_remove_length in Hj. rewrite swap_remove_nth by (assumption || exact Hi).
      rewrite I2.
      destruct (Nat.eqb_spec i j) as [E|E].
      * subst j. rewrite Nat.eqb_refl.
        assert (Hne : b <> last l 0%nat).
        { intro Q. rewrite nth_last in Q. rewrite <- Hnth in Q.
          assert (i = length l - 1)%nat by (apply F; [exact Hi|unfold l in *; lia|exact Q]). lia. }
        replace (Nat.eqb b (last l 0%nat)) with false by (symmetry; now apply Nat.eqb_neq). reflexivity.
      * assert (Hne : last l 0%nat <> nth j l 0%nat).
        { intro Q. rewrite nth_last in Q.
          assert (length l - 1 = j)%nat by (apply F; [unfold l in *; lia|unfold l in *; lia|exact Q]). lia. }
        replace (Nat.eqb (last l 0%nat) (nth j l 0%nat)) with false by (symmetry; now apply Nat.eqb_neq).
        cbn [andb]. apply IND. unfold l in *. lia.
  - rewrite A2, <- Hnth. now apply swap_remove_perm.
Qed.

Lemma WF_LI : forall pend st, WF vars cons pend st -> LI st.
Proof. intros pend st W. split; [apply (wf_nodup _ _ _ _ W)|split; [apply (wf_ids _ _ _ _ W)|apply (wf_ind _ _ _ _ W)]]. Qed.

(* ------------------------------------------------ the tree invariant --- *)
Definition I3 (st : state) : Prop :=
  forall b, In b (s_list st) -> exists r E, tree cons st r E /\ Permutation (r :: verts E) (bvars st b).

Lemma tree_act_ext : forall st st' r E, (forall c, k_act (cst_ st' c) = k_act (cst_ st c)) ->
  tree cons st r E -> tree cons st' r E.
Proof.
  intros st st' r E H [[f Hf] ND]. split; [|exact ND]. exists f. now rewrite (reach_act_ext f st st' r None H).
Qed.

Lemma set_active_deact : forall st c, (c < length (s_c st))%nat -> deact st (set_active st c false) c.
Proof.
  intros st c Hc u. unfold set_active. rewrite cst_set_c.
  replace (Nat.ltb c (length (s_c st))) with true by (symmetry; now apply Nat.ltb_lt). rewrite andb_true_r.
  destruct (Nat.eqb c u); reflexivity.
Qed.

(* what Block.split produces, in terms of the two halves of the block's tree *)
Record Halves (st s2 : state) (c lb rb : nat) (E1 E2 : list T3) : Prop := mkHalves {
  hv_lb : lb = length (s_b st);
  hv_rb : rb = S (length (s_b st));
  hv_c : s_c s2 = s_c (set_active st c false);
  hv_list : s_list s2 = s_list st;
  hv_inact : s_inact s2 = s_inact st;
  hv_nv : length (s_v s2) = length (s_v st);
  hv_nb : length (s_b s2) = S (S (length (s_b st)));
  hv_old : forall b, (b < length (s_b st))%nat -> blk_ s2 b = blk_ st b;
  hv_vars1 : bvars s2 lb = (c_l (con_ cons c)) :: verts E1;
  hv_vars2 : bvars s2 rb = (c_r (con_ cons c)) :: verts E2;
  hv_keep : forall y, ~ In y ((c_l (con_ cons c)) :: verts E1) -> ~ In y ((c_r (con_ cons c)) :: verts E2) -> vst_ s2 y = vst_ st y;
  hv_blk1 : forall y, In y ((c_l (con_ cons c)) :: verts E1) -> o_blk (vst_ s2 y) = lb;
  hv_blk2 : forall y, In y ((c_r (con_ cons c)) :: verts E2) -> o_blk (vst_ s2 y) = rb;
  hv_rel : forall t, In t (E1 ++ E2) -> rel s2 t;
  hv_tree1 : tree cons (set_active st c false) (c_l (con_ cons c)) E1;
  hv_tree2 : tree cons (set_active st c false) (c_r (con_ cons c)) E2;
  hv_perm : Permutation (bvars st (o_blk (vst_ st (c_l (con_ cons c))))) (((c_l (con_ cons c)) :: verts E1) ++ ((c_r (con_ cons c)) :: verts E2));
  hv_sub : exists f, reach cons f st (c_r (con_ cons c)) (Some (c_l (con_ cons c))) = Ok E2
}.

Lemma block_split_halves : forall pend st c st2 lb rb,
  WF vars cons pend st -> I3 st -> idx_ok vars cons -> (c < m)%nat -> k_act (cst_ st c) = true ->
  block_split vars cons st c = Ok (st2, (lb, rb)) ->
  exists E1 E2, Halves st st2 c lb rb E1 E2.
Proof.
  intros pend st c st2 lb rb W T IDX Hc Hact H.
  set (u := c_l (con_ cons c)). set (w := c_r (con_ cons c)).
  destruct (IDX c Hc) as [Hu Hw]. fold u in Hu. fold w in Hw. fold n in Hu, Hw.
  destruct (wf_var_block _ _ _ _ u W Hu) as [HB Hub]. set (B := o_blk (vst_ st u)) in *.
  destruct (T B HB) as (r & E & Tr & Pr).
  assert (Hur : In u (r :: verts E)) by (apply (Permutation_in u (Permutation_sym Pr)); exact Hub).
  destruct (reroot_any cons st r E u Tr Hur) as (Eu & Tu & Pu).
  assert (Hcw : In (c, w) (nbrs cons st u None)).
  { apply nbrs_spec. fold m. repeat split; try assumption. left. now split. }
  set (st0 := set_active st c false) in *.
  assert (D : deact st st0 c) by (apply set_active_deact; now rewrite (wf_nc _ _ _ _ W)).
  destruct (prune_root cons st st0 c u w Eu D Tu Hcw) as (E1 & E2 & T1 & T2 & P12 & Hsub).
  unfold block_split in H. fold st0 u w in H.
  destruct (create_split vars cons st0 u) as [[s1 lb']|k] eqn:C1; [|discriminate].
  destruct (create_split vars cons s1 w) as [[s2 rb']|k] eqn:C2; [|discriminate].
  inversion H; subst s2 lb' rb'. clear H.
  assert (L0 : length (s_v st0) = n) by (unfold st0, set_active, set_c; cbn [s_v]; apply (wf_nv _ _ _ _ W)).
  assert (Hidx0 : forall k, (k < m)%nat -> (c_l (con_ cons k) < length (s_v st0))%nat /\ (c_r (con_ cons k) < length (s_v st0))%nat)
    by (intros k Hk; rewrite L0; now apply IDX).
  destruct (create_split_spec st0 u s1 lb C1) as (Elb & F1 & R1 & S1); [now rewrite L0|exact Hidx0|].
  assert (L1 : length (s_v s1) = n) by (rewrite (cs_nv _ _ _ _ _ S1); exact L0).
  assert (Hidx1 : forall k, (k < m)%nat -> (c_l (con_ cons k) < length (s_v s1))%nat /\ (c_r (con_ cons k) < length (s_v s1))%nat)
    by (intros k Hk; rewrite L1; now apply IDX).
  destruct (create_split_spec s1 w st2 rb C2) as (Erb & F2 & R2 & S2); [now rewrite L1|exact Hidx1|].
  (* the traversals are the two halves *)
  destruct T1 as [[f1 Hf1] ND1]. destruct T2 as [[f2 Hf2] ND2].
  assert (EF1 : F1 = E1) by (eapply reach_det; eassumption). subst F1.
  assert (Act1 : forall k, k_act (cst_ s1 k) = k_act (cst_ st0 k)) by (intros k; unfold cst_; now rewrite (cs_c _ _ _ _ _ S1)).
  rewrite (reach_act_ext (trav_fuel vars) st0 s1 w None Act1) in R2.
  assert (EF2 : F2 = E2) by (eapply reach_det; eassumption). subst F2.
  (* the halves are disjoint *)
  assert (NDB : NoDup ((u :: verts E1) ++ (w :: verts E2))).
  { apply (Permutation_NoDup P12). destruct Tu as [_ NDu]. exact NDu. }
  apply NoDup_app_inv in NDB. destruct NDB as (_ & _ & Dj).
  assert (Lst0 : length (s_b st0) = length (s_b st)) by reflexivity.
  exists E1, E2. constructor.
  - rewrite Elb. exact Lst0.
  - rewrite Erb, (cs_nb _ _ _ _ _ S1). now rewrite Lst0.
  - rewrite (cs_c _ _ _ _ _ S2), (cs_c _ _ _ _ _ S1). reflexivity.
  - rewrite (cs_list _ _ _ _ _ S2), (cs_list _ _ _ _ _ S1). reflexivity.
  - rewrite (cs_inact _ _ _ _ _ S2), (cs_inact _ _ _ _ _ S1). reflexivity.
  - rewrite (cs_nv _ _ _ _ _ S2), (cs_nv _ _ _ _ _ S1). reflexivity.
  - rewrite (cs_nb _ _ _ _ _ S2), (cs_nb _ _ _ _ _ S1). now rewrite Lst0.
  - intros b Hb. rewrite (cs_old _ _ _ _ _ S2) by (rewrite (cs_nb _ _ _ _ _ S1), Lst0; lia).
    rewrite (cs_old _ _ _ _ _ S1) by (rewrite Lst0; exact Hb). reflexivity.
  - unfold bvars. rewrite (cs_old _ _ _ _ _ S2) by (rewrite (cs_nb _ _ _ _ _ S1), Elb; lia). apply (cs_vars _ _ _ _ _ S1).
  - unfold bvars. apply (cs_vars _ _ _ _ _ S2).
  - intros y Hy1 Hy2. rewrite (cs_keep _ _ _ _ _ S2 y Hy2), (cs_keep _ _ _ _ _ S1 y Hy1). reflexivity.
  - intros y Hy. rewrite (cs_keep _ _ _ _ _ S2 y) by (now apply Dj). now apply (cs_blk _ _ _ _ _ S1).
  - intros y Hy. now apply (cs_blk _ _ _ _ _ S2).
  - intros t Ht. apply in_app_or in Ht. destruct Ht as [Ht|Ht].
    + assert (Rt : rel s1 t) by (apply (cs_rel _ _ _ _ _ S1); assumption).
      assert (Hy : In (t_v t) (u :: verts E1)) by (right; unfold verts; now apply in_map).
      assert (Hx : In (t_p t) (u :: verts E1)).
      { destruct (reach_parent _ _ _ _ _ t R1 Ht) as [Q|Q]; [left; now rewrite Q|now right]. }
      unfold rel in *. rewrite (cs_keep _ _ _ _ _ S2 (t_v t)) by (now apply Dj).
      rewrite (cs_keep _ _ _ _ _ S2 (t_p t)) by (now apply Dj). exact Rt.
    + apply (cs_rel _ _ _ _ _ S2); assumption.
  - split; [now exists f1|exact ND1].
  - split; [now exists f2|exact ND2].
  - fold u. fold B. apply Permutation_sym. transitivity (r :: verts E); [|exact Pr].
    transitivity (u :: verts Eu); [now apply Permutation_sym|exact Pu].
  - exact Hsub.
Qed.

Definition after_split (s2 : state) (lb rb B c : nat) : state :=
  let s3 := bs_remove (bs_insert (bs_insert s2 lb) rb) B in
  set_inact s3 (s_inact s3 ++ [c]).

Lemma split_preserves : forall pend st c s2 lb rb E1 E2,
  WF vars cons pend st -> I3 st -> idx_ok vars cons -> (c < m)%nat -> k_act (cst_ st c) = true ->
  Halves st s2 c lb rb E1 E2 ->
  let B := o_blk (vst_ st (c_l (con_ cons c))) in
  let s4 := after_split s2 lb rb B c in
  WF vars cons pend s4 /\ I3 s4 /\
  (forall y, vst_ s4 y = vst_ s2 y) /\ (forall k, cst_ s4 k = cst_ s2 k) /\ lb <> rb.
Proof.
  intros pend st c s2 lb rb E1 E2 W T IDX Hc Hact HV B s4.
  set (u := c_l (con_ cons c)) in *. set (w := c_r (con_ cons c)) in *.
  destruct (IDX c Hc) as [Hu Hw]. fold u in Hu. fold w in Hw. fold n in Hu, Hw.
  destruct (wf_var_block _ _ _ _ u W Hu) as [HB Hub]. fold B in HB, Hub.
  set (H1 := u :: verts E1). set (H2 := w :: verts E2).
  assert (P12 : Permutation (bvars st B) (H1 ++ H2)) by exact (hv_perm _ _ _ _ _ _ _ HV).
  assert (NDF := wf_nodup_flat _ _ _ _ W).
  assert (NDBv : NoDup (bvars st B)) by (apply (NoDup_flat_map_elem (bvars st) (s_list st)); assumption).
  assert (ND12 : NoDup (H1 ++ H2)) by (apply (Permutation_NoDup P12); exact NDBv).
  destruct (NoDup_app_inv _ _ ND12) as (NDH1 & NDH2 & Dj).
  assert (InB : forall y, In y (H1 ++ H2) <-> In y (bvars st B)).
  { intros y. split; intro Q; [apply (Permutation_in y (Permutation_sym P12) Q)|apply (Permutation_in y P12 Q)]. }
  set (nb0 := length (s_b st)).
  assert (Elb : lb = nb0) by exact (hv_lb _ _ _ _ _ _ _ HV).
  assert (Erb : rb = S nb0) by exact (hv_rb _ _ _ _ _ _ _ HV).
  assert (Hlbrb : lb <> rb) by lia.
  assert (Hold : forall b, In b (s_list st) -> (b < nb0)%nat) by (intros b Hb; now apply (wf_ids _ _ _ _ W)).
  (* list bookkeeping *)
  assert (LI2 : LI s2).
  { split; [|split].
    - rewrite (hv_list _ _ _ _ _ _ _ HV). apply (wf_nodup _ _ _ _ W).
    - intros b Hb. rewrite (hv_list _ _ _ _ _ _ _ HV) in Hb. rewrite (hv_nb _ _ _ _ _ _ _ HV). apply Hold in Hb. unfold nb0 in *. lia.
    - intros i Hi. rewrite (hv_list _ _ _ _ _ _ _ HV) in *.
      rewrite (hv_old _ _ _ _ _ _ _ HV) by (apply Hold; now apply nth_In). now apply (wf_ind _ _ _ _ W). }
  destruct (LI_insert s2 lb LI2) as (LIa & La & Va & Ca & Ia & Na & Ba).
  { rewrite (hv_nb _ _ _ _ _ _ _ HV). unfold nb0 in *. lia. }
  { rewrite (hv_list _ _ _ _ _ _ _ HV). intro Q. apply Hold in Q. lia. }
  set (sa := bs_insert s2 lb) in *.
  destruct (LI_insert sa rb LIa) as (LIb & Lb & Vb & Cb & Ib & Nb & Bb).
  { rewrite Na, (hv_nb _ _ _ _ _ _ _ HV). unfold nb0 in *. lia. }
  { rewrite La, (hv_list _ _ _ _ _ _ _ HV). intro Q. apply in_app_or in Q. destruct Q as [Q|[Q|[]]]; [apply Hold in Q; lia|lia]. }
  set (sb := bs_insert sa rb) in *.
  assert (HBb : In B (s_list sb)).
  { rewrite Lb, La, (hv_list _ _ _ _ _ _ _ HV). apply in_or_app. left. apply in_or_app. now left. }
  destruct (LI_remove sb B LIb HBb) as (LIc & Pc & Vc & Cc & Ic & Nc & Bc).
  set (s3 := bs_remove sb B) in *.
  assert (E4 : s4 = set_inact s3 (s_inact s3 ++ [c])) by reflexivity.
  assert (BV4 : forall b, bvars s4 b = bvars s2 b).
  { intros b. unfold bvars. rewrite E4. change (blk_ (set_inact s3 _) b) with (blk_ s3 b). now rewrite Bc, Bb, Ba. }
  assert (VS4 : forall y, vst_ s4 y = vst_ s2 y).
  { intros y. rewrite E4. unfold vst_. cbn [set_inact s_v]. now rewrite Vc, Vb, Va. }
  assert (CS4 : forall k, cst_ s4 k = cst_ s2 k).
  { intros k. rewrite E4. unfold cst_. cbn [set_inact s_c]. now rewrite Cc, Cb, Ca. }
  assert (L4 : s_list s4 = s_list s3) by reflexivity.
  assert (P4 : Permutation (B :: s_list s4) (s_list st ++ [lb; rb])).
  { rewrite L4. rewrite Lb, La, (hv_list _ _ _ _ _ _ _ HV), <- app_assoc in Pc. exact Pc. }
  assert (In4 : forall b, In b (s_list s4) <-> (In b (s_list st) /\ b <> B) \/ b = lb \/ b = rb).
  { intros b.
    assert (NDall : NoDup (B :: s_list s4)).
    { apply (Permutation_NoDup (Permutation_sym P4)). apply NoDup_app_intro; [apply (wf_nodup _ _ _ _ W)| |].
      - constructor; [intros [Q|[]]; lia|constructor; [intros []|constructor]].
      - intros x Hx [Q|[Q|[]]]; apply Hold in Hx; lia. }
    apply NoDup_cons_iff in NDall. destruct NDall as [HnB _].
    split.
    - intro Hb. assert (Q : In b (s_list st ++ [lb; rb])) by (apply (Permutation_in b P4); now right).
      apply in_app_or in Q. destruct Q as [Q|[Q|[Q|[]]]]; [left; split; [exact Q|intro; subst; contradiction]|right; left; now symmetry|right; right; now symmetry].
    - intros [[Q Qn]|[Q|Q]].
      + assert (Z : In b (B :: s_list s4)) by (apply (Permutation_in b (Permutation_sym P4)); apply in_or_app; now left).
        destruct Z as [Z|Z]; [congruence|exact Z].
      + assert (Z : In b (B :: s_list s4)) by (apply (Permutation_in b (Permutation_sym P4)); apply in_or_app; right; left; now symmetry).
        destruct Z as [Z|Z]; [apply Hold in HB; lia|exact Z].
      + assert (Z : In b (B :: s_list s4)) by (apply (Permutation_in b (Permutation_sym P4)); apply in_or_app; right; right; left; now symmetry).
        destruct Z as [Z|Z]; [apply Hold in HB; lia|exact Z]. }
  assert (BVold : forall b, In b (s_list st) -> bvars s2 b = bvars st b)
    by (intros b Hb; unfold bvars; rewrite (hv_old _ _ _ _ _ _ _ HV); [reflexivity|now apply Hold]).
  assert (BV1 : bvars s2 lb = H1) by exact (hv_vars1 _ _ _ _ _ _ _ HV).
  assert (BV2 : bvars s2 rb = H2) by exact (hv_vars2 _ _ _ _ _ _ _ HV).
  assert (Act4 : forall k, k_act (cst_ s4 k) = k_act (cst_ (set_active st c false) k)).
  { intros k. rewrite CS4. unfold cst_. now rewrite (hv_c _ _ _ _ _ _ _ HV). }
  assert (D : deact st (set_active st c false) c) by (apply set_active_deact; now rewrite (wf_nc _ _ _ _ W)).
  assert (Hcw : In (c, w) (nbrs cons st u None)).
  { apply nbrs_spec. fold m. repeat split; try assumption. left. now split. }
  (* a variable outside the split block keeps its state *)
  assert (Keep : forall y, ~ In y (bvars st B) -> vst_ s4 y = vst_ st y).
  { intros y Hy. rewrite VS4. apply (hv_keep _ _ _ _ _ _ _ HV); intro Q; apply Hy; apply InB; apply in_or_app; [now left|now right]. }
  split; [|split; [|split; [exact VS4|split; [exact CS4|exact Hlbrb]]]].
  - (* WF *)
    constructor.
    + rewrite E4. cbn [set_inact s_v]. rewrite Vc, Vb, Va, (hv_nv _ _ _ _ _ _ _ HV). apply (wf_nv _ _ _ _ W).
    + rewrite E4. cbn [set_inact s_c]. rewrite Cc, Cb, Ca, (hv_c _ _ _ _ _ _ _ HV).
      unfold set_active, set_c. cbn [s_c]. rewrite length_upd. apply (wf_nc _ _ _ _ W).
    + (* partition *)
      assert (Q1 : Permutation (flat_map (bvars s4) (B :: s_list s4)) (flat_map (bvars s4) (s_list st ++ [lb; rb])))
        by (apply flat_map_perm; exact P4).
      rewrite flat_map_app in Q1. simpl in Q1. rewrite app_nil_r in Q1.
      rewrite (flat_map_ext_in (bvars s4) (bvars st) (s_list st)) in Q1
        by (intros b Hb; rewrite BV4; now apply BVold).
      rewrite !BV4, BV1, BV2, (BVold B HB) in Q1.
      assert (Q2 : Permutation (flat_map (bvars st) (s_list st) ++ H1 ++ H2) (bvars st B ++ flat_map (bvars st) (s_list st))).
      { transitivity (flat_map (bvars st) (s_list st) ++ bvars st B); [apply Permutation_app_head; now apply Permutation_sym|apply Permutation_app_comm]. }
      assert (Q3 := perm_trans Q1 Q2). apply Permutation_app_inv_l in Q3.
      transitivity (flat_map (bvars st) (s_list st)); [exact Q3|apply (wf_part _ _ _ _ W)].
    + (* block pointers *)
      intros b y Hb Hy. rewrite BV4 in Hy. rewrite VS4. apply In4 in Hb. destruct Hb as [[Hb Hne]|[Hb|Hb]].
      * rewrite BVold in Hy by exact Hb. rewrite <- VS4, Keep; [now apply (wf_blk _ _ _ _ W)|].
        intro Q. apply Hne. apply (NoDup_flat_map_disjoint (bvars st) (s_list st) b B y NDF Hb HB Hy Q).
      * subst b. rewrite BV1 in Hy. now apply (hv_blk1 _ _ _ _ _ _ _ HV).
      * subst b. rewrite BV2 in Hy. now apply (hv_blk2 _ _ _ _ _ _ _ HV).
    + intros b Hb. rewrite L4 in Hb. rewrite E4. cbn [set_inact s_b]. now apply (proj1 (proj2 LIc)).
    + intros i Hi. rewrite L4 in *. rewrite E4. change (blk_ (set_inact s3 _) ?x) with (blk_ s3 x). now apply (proj2 (proj2 LIc)).
    + rewrite L4. apply (proj1 LIc).
    + (* I2 *)
      intros c' Hc' Ha. rewrite Act4 in Ha.
      assert (Hne : c' <> c).
      { intro Q. subst c'. rewrite (D c), Nat.eqb_refl in Ha. discriminate. }
      rewrite (D c') in Ha. replace (Nat.eqb c c') with false in Ha by (symmetry; apply Nat.eqb_neq; congruence).
      destruct (wf_I2 _ _ _ _ W c' Hc' Ha) as [Qb Qo]. destruct (IDX c' Hc') as [Hx Hy].
      set (x := c_l (con_ cons c')) in *. set (y := c_r (con_ cons c')) in *. fold n in Hx, Hy.
      destruct (wf_var_block _ _ _ _ x W Hx) as [Bx Xx]. destruct (wf_var_block _ _ _ _ y W Hy) as [By Xy].
      destruct (Nat.eq_dec x y) as [Exy|Exy].
      { rewrite <- Exy in *. split; [reflexivity|]. rewrite <- Qo. ring. }
      destruct (Nat.eq_dec (o_blk (vst_ st x)) B) as [EB|EB].
      * (* inside the split block: the constraint is traversed in one of the halves *)
        rewrite EB in Xx. rewrite <- Qb, EB in Xy.
        assert (Hcx : forall st', (forall k, k_act (cst_ st' k) = k_act (cst_ (set_active st c false) k)) -> In (c', y) (nbrs cons st' x None)).
        { intros st' Hst'. apply nbrs_spec. fold m. repeat split; try assumption.
          - rewrite Hst', (D c'). replace (Nat.eqb c c') with false by (symmetry; apply Nat.eqb_neq; congruence). exact Ha.
          - left. now split. }
        assert (Fin : forall (r0 : nat) E0 lb0, tree cons (set_active st c false) r0 E0 -> In x (r0 :: verts E0) ->
                      (forall z, In z (r0 :: verts E0) -> o_blk (vst_ s2 z) = lb0) -> (forall t, In t E0 -> rel s2 t) ->
                      o_blk (vst_ s2 x) = o_blk (vst_ s2 y) /\ o_off (vst_ s2 y) - o_off (vst_ s2 x) == c_gap (con_ cons c')).
        { intros r0 E0 lb0 [[f0 Hf0] ND0] Hxin Hblk Hrel.
          destruct (edge_traversed cons f0 _ r0 None E0 Hf0 x c' y Hxin (Hcx _ (fun k => eq_refl)) (fun _ => eq_refl)) as [Z|Z].
          - assert (Hyin : In y (r0 :: verts E0)) by (right; change y with (t_v (c', x, y)); unfold verts; now apply in_map).
            split; [now rewrite (Hblk x Hxin), (Hblk y Hyin)|].
            assert (R := Hrel _ Z). unfold rel, t_v, t_p, t_c in R. cbn [fst snd] in R. fold y in R. rewrite Nat.eqb_refl in R.
            rewrite R, qr_eq. ring.
          - assert (Hyin : In y (r0 :: verts E0)).
            { destruct (reach_parent _ _ _ _ _ _ Hf0 Z) as [Q|Q]; [left; symmetry; exact Q|now right]. }
            split; [now rewrite (Hblk x Hxin), (Hblk y Hyin)|].
            assert (R := Hrel _ Z). unfold rel, t_v, t_p, t_c in R. cbn [fst snd] in R. fold y in R.
            replace (Nat.eqb x y) with false in R by (symmetry; now apply Nat.eqb_neq).
            rewrite R, qr_eq. ring. }
        rewrite !VS4.
        apply InB in Xx. apply in_app_or in Xx. destruct Xx as [Xx|Xx].
        -- apply (Fin u E1 lb (hv_tree1 _ _ _ _ _ _ _ HV) Xx).
           ++ intros z Hz. now apply (hv_blk1 _ _ _ _ _ _ _ HV).
           ++ intros t Ht. apply (hv_rel _ _ _ _ _ _ _ HV). apply in_or_app. now left.
        -- apply (Fin w E2 rb (hv_tree2 _ _ _ _ _ _ _ HV) Xx).
           ++ intros z Hz. now apply (hv_blk2 _ _ _ _ _ _ _ HV).
           ++ intros t Ht. apply (hv_rel _ _ _ _ _ _ _ HV). apply in_or_app. now right.
      * assert (Kx : ~ In x (bvars st B)).
        { intro Q. apply EB. apply (NoDup_flat_map_disjoint (bvars st) (s_list st) _ B x NDF Bx HB Xx Q). }
        assert (Ky : ~ In y (bvars st B)).
        { intro Q. apply EB. rewrite Qb. apply (NoDup_flat_map_disjoint (bvars st) (s_list st) _ B y NDF By HB Xy Q). }
        rewrite (Keep x Kx), (Keep y Ky). now split.
    + (* I1 *)
      intros c' Hc' Ha Hu' Hp. rewrite E4. cbn [set_inact s_inact]. rewrite Ic, Ib, Ia, (hv_inact _ _ _ _ _ _ _ HV).
      apply in_or_app. destruct (Nat.eq_dec c' c) as [Q|Q]; [right; left; now symmetry|left].
      rewrite Act4, (D c') in Ha. replace (Nat.eqb c c') with false in Ha by (symmetry; apply Nat.eqb_neq; congruence).
      rewrite CS4 in Hu'. unfold cst_ in Hu'. rewrite (hv_c _ _ _ _ _ _ _ HV) in Hu'. fold (cst_ (set_active st c false) c') in Hu'.
      unfold set_active in Hu'. rewrite cst_set_c in Hu'.
      replace (Nat.eqb c c') with false in Hu' by (symmetry; apply Nat.eqb_neq; congruence). cbn [andb] in Hu'.
      now apply (wf_I1 _ _ _ _ W).
    + intros c' Hc'. rewrite E4 in Hc'. cbn [set_inact s_inact] in Hc'. rewrite Ic, Ib, Ia, (hv_inact _ _ _ _ _ _ _ HV) in Hc'.
      apply in_app_or in Hc'. destruct Hc' as [Q|[Q|[]]]; [now apply (wf_inact_lt _ _ _ _ W)|now subst].
    + intros c' Hc' Ha. rewrite Act4, (D c') in Ha. destruct (Nat.eqb c c'); [discriminate|]. now apply (wf_noself _ _ _ _ W).
  - (* I3 *)
    intros b Hb. apply In4 in Hb. destruct Hb as [[Hb Hne]|[Hb|Hb]].
    + destruct (T b Hb) as (r & E & [[f Hf] ND] & Pr). exists r, E. split; [|now rewrite BV4, BVold].
      apply (tree_act_ext (set_active st c false) s4 r E Act4). split; [|exact ND]. exists f.
      assert (Out : forall y, In y (r :: verts E) -> y <> u /\ y <> w).
      { intros y Hy. apply (Permutation_in y Pr) in Hy.
        assert (Z : ~ In y (bvars st B)) by (intro Q; apply Hne; apply (NoDup_flat_map_disjoint (bvars st) (s_list st) b B y NDF Hb HB Hy Q)).
        split; intro; subst y; apply Z; apply InB; apply in_or_app; [left|right]; now left. }
      apply (reach_local cons f st _ r None None E Hf).
      * destruct (Out r (or_introl eq_refl)). now apply (nbrs_deact_other cons st _ c u w None r None D Hcw).
      * intros y q Hy. destruct (Out y (or_intror Hy)). now apply (nbrs_deact_other cons st _ c u w None y q D Hcw).
    + subst b. exists u, E1. split; [apply (tree_act_ext _ s4 u E1 Act4); exact (hv_tree1 _ _ _ _ _ _ _ HV)|now rewrite BV4, BV1].
    + subst b. exists w, E2. split; [apply (tree_act_ext _ s4 w E2 Act4); exact (hv_tree2 _ _ _ _ _ _ _ HV)|now rewrite BV4, BV2].
Qed.

(* ------------------------------------------- I3 under the other steps --- *)
Lemma I3_core_eq : forall st st', core_eq st st' -> I3 st -> I3 st'.
Proof.
  intros st st' (A1 & A2 & A3 & A4 & A5 & A6 & A7) T b Hb. rewrite A2 in Hb.
  destruct (T b Hb) as (r & E & Tr & Pr). exists r, E. split.
  - apply (tree_act_ext st st' r E); [intros c; apply A7|exact Tr].
  - unfold bvars. destruct (A5 b) as [X _]. now rewrite X.
Qed.

Lemma I3_set_unsat : forall st c, I3 st -> I3 (set_unsat st c).
Proof.
  intros st c T b Hb. destruct (T b Hb) as (r & E & Tr & Pr). exists r, E. split; [|exact Pr].
  apply (tree_act_ext st _ r E); [|exact Tr]. intros k. unfold set_unsat. rewrite cst_set_c.
  destruct (Nat.eqb c k && Nat.ltb c (length (s_c st)))%bool eqn:Q; [|reflexivity].
  apply andb_true_iff in Q. destruct Q as [Q _]. apply Nat.eqb_eq in Q. now subst.
Qed.

Lemma I3_frame : forall st st', s_c st' = s_c st -> s_b st' = s_b st -> s_list st' = s_list st -> I3 st -> I3 st'.
Proof.
  intros st st' A B C T b Hb. rewrite C in Hb. destruct (T b Hb) as (r & E & Tr & Pr). exists r, E. split.
  - apply (tree_act_ext st st' r E); [intros c; unfold cst_; now rewrite A|exact Tr].
  - unfold bvars, blk_. now rewrite B.
Qed.

Lemma I3_merge_pair : forall pend st a b c d,
  WF vars cons pend st -> I3 st -> idx_ok vars cons -> (c < m)%nat ->
  In a (s_list st) -> In b (s_list st) -> a <> b ->
  let cl := c_l (con_ cons c) in let cr := c_r (con_ cons c) in
  ((o_blk (vst_ st cl) = a /\ o_blk (vst_ st cr) = b) \/ (o_blk (vst_ st cl) = b /\ o_blk (vst_ st cr) = a)) ->
  I3 (bs_remove (merge_across vars st a b c d) b).
Proof.
  intros pend st a b c d W T IDX Hc Ha Hb Hab cl cr Hends.
  assert (NDF := wf_nodup_flat _ _ _ _ W).
  assert (NDL : NoDup (bvars st b)) by (apply (NoDup_flat_map_elem (bvars st) (s_list st)); assumption).
  assert (HLlt : forall v, In v (bvars st b) -> (v < length (s_v st))%nat)
    by (intros v Hv; rewrite (wf_nv _ _ _ _ W); eapply wf_bvars_lt; eauto).
  destruct (merge_across_spec vars st a b c d Hab (wf_ids _ _ _ _ W a Ha) NDL HLlt)
    as (A1 & B1 & LV1 & LB1 & LC1 & C1 & V1 & O1 & S1 & I1).
  set (st1 := merge_across vars st a b c d) in *. fold (bvars st b) in V1, S1.
  assert (LI1 : LI st1).
  { split; [|split].
    - rewrite A1. apply (wf_nodup _ _ _ _ W).
    - intros x Hx. rewrite A1 in Hx. rewrite LB1. now apply (wf_ids _ _ _ _ W).
    - intros i Hi. rewrite A1 in *.
      assert (Hb1 : forall x, b_ind (blk_ st1 x) = b_ind (blk_ st x)).
      { intros x. destruct (Nat.eq_dec x a) as [E|E]; [subst; exact I1|now rewrite O1]. }
      rewrite Hb1. now apply (wf_ind _ _ _ _ W). }
  assert (Hb1 : In b (s_list st1)) by now rewrite A1.
  destruct (LI_remove st1 b LI1 Hb1) as (LI2 & P2 & V2 & C2 & B2 & N2 & S2).
  set (st2 := bs_remove st1 b) in *. rewrite A1 in P2.
  assert (In2 : forall x, In x (s_list st2) <-> In x (s_list st) /\ x <> b).
  { intros x. assert (NDall : NoDup (b :: s_list st2)) by (apply (Permutation_NoDup (Permutation_sym P2)); apply (wf_nodup _ _ _ _ W)).
    apply NoDup_cons_iff in NDall. destruct NDall as [Hnb _]. split.
    - intro Hx. split; [apply (Permutation_in x P2); now right|intro; subst; contradiction].
    - intros [Hx Hne]. apply (Permutation_in x (Permutation_sym P2)) in Hx. destruct Hx; [congruence|assumption]. }
  assert (BV2 : forall x, bvars st2 x = if Nat.eqb x a then bvars st a ++ bvars st b else bvars st x).
  { intros x. unfold bvars. rewrite S2. destruct (Nat.eqb_spec x a) as [E|E]; [subst; exact S1|now rewrite O1]. }
  assert (Act2 : forall k, k_act (cst_ st2 k) = if Nat.eqb c k then true else k_act (cst_ st k)).
  { intros k. unfold cst_ at 1. rewrite C2. fold (cst_ st1 k). rewrite C1.
    replace (Nat.ltb c (length (s_c st))) with true by (symmetry; apply Nat.ltb_lt; now rewrite (wf_nc _ _ _ _ W)).
    rewrite andb_true_r. destruct (Nat.eqb c k); reflexivity. }
  destruct (IDX c Hc) as [Hl Hr]. fold cl in Hl. fold cr in Hr. fold n in Hl, Hr.
  (* c was inactive: its ends lie in different blocks *)
  assert (Hina : k_act (cst_ st c) = false).
  { destruct (k_act (cst_ st c)) eqn:Q; [|reflexivity]. exfalso.
    destruct (wf_I2 _ _ _ _ W c Hc Q) as [Z _]. fold cl cr in Z. destruct Hends as [[X Y]|[X Y]]; congruence. }
  assert (D : deact st2 st c).
  { intros k. rewrite Act2. destruct (Nat.eqb_spec c k) as [E|E]; [subst; exact Hina|reflexivity]. }
  (* name the ends by the block they sit in *)
  assert (Ends : exists u w, o_blk (vst_ st u) = a /\ o_blk (vst_ st w) = b /\ (u < n)%nat /\ (w < n)%nat /\
                 ((c_l (con_ cons c) = u /\ c_r (con_ cons c) = w) \/ (c_r (con_ cons c) = u /\ c_l (con_ cons c) = w))).
  { destruct Hends as [[X Y]|[X Y]]; [exists cl, cr|exists cr, cl]; repeat split; try assumption; [left|right]; now split. }
  destruct Ends as (u & w & Bu & Bw & Hu & Hw & Huw).
  assert (Hune : u <> w) by (intro; subst; congruence).
  destruct (wf_var_block _ _ _ _ u W Hu) as [_ Inu]. rewrite Bu in Inu.
  destruct (wf_var_block _ _ _ _ w W Hw) as [_ Inw]. rewrite Bw in Inw.
  assert (Hcw2 : In (c, w) (nbrs cons st2 u None)).
  { apply nbrs_spec. fold m. repeat split; try assumption; [now rewrite Act2, Nat.eqb_refl|].
    destruct Huw as [[X Y]|[X Y]]; [left|right]; now split. }
  intros x Hx. apply In2 in Hx. destruct Hx as [Hx Hxb]. rewrite BV2.
  destruct (Nat.eqb_spec x a) as [E|E].
  - subst x. destruct (T a Ha) as (ra & EA & TA & PA). destruct (T b Hb) as (rb & EB & TB & PB).
    destruct (reroot_any cons st ra EA u TA (Permutation_in u (Permutation_sym PA) Inu)) as (EA' & TA' & PA').
    destruct (reroot_any cons st rb EB w TB (Permutation_in w (Permutation_sym PB) Inw)) as (EB' & TB' & PB').
    assert (Dj : forall y, In y (u :: verts EA') -> ~ In y (w :: verts EB')).
    { intros y Hy1 Hy2. apply Hab.
      apply (NoDup_flat_map_disjoint (bvars st) (s_list st) a b y NDF Ha Hb).
      - apply (Permutation_in y PA). now apply (Permutation_in y PA').
      - apply (Permutation_in y PB). now apply (Permutation_in y PB'). }
    destruct (graft_root cons st st2 c u w EA' EB' D) as (E' & T' & P'); try assumption.
    { now rewrite Act2, Nat.eqb_refl. }
    exists u, E'. split; [exact T'|]. transitivity ((u :: verts EA') ++ (w :: verts EB')); [exact P'|].
    apply Permutation_app; [now transitivity (ra :: verts EA)|now transitivity (rb :: verts EB)].
  - destruct (T x Hx) as (r & E0 & [[f Hf] ND] & Pr). exists r, E0. split; [|exact Pr]. split; [|exact ND]. exists f.
    assert (Out : forall y, In y (r :: verts E0) -> y <> u /\ y <> w).
    { intros y Hy. apply (Permutation_in y Pr) in Hy. split; intro; subst y.
      - apply E. apply (NoDup_flat_map_disjoint (bvars st) (s_list st) x a u NDF Hx Ha Hy Inu).
      - apply Hxb. apply (NoDup_flat_map_disjoint (bvars st) (s_list st) x b w NDF Hx Hb Hy Inw). }
    apply (reach_local cons f st st2 r None None E0 Hf).
    + destruct (Out r (or_introl eq_refl)). symmetry. now apply (nbrs_deact_other cons st2 st c u w None r None D Hcw2).
    + intros y q Hy. destruct (Out y (or_intror Hy)). symmetry. now apply (nbrs_deact_other cons st2 st c u w None y q D Hcw2).
Qed.

Lemma I3_bs_merge : forall pend st c,
  WF vars cons pend st -> I3 st -> idx_ok vars cons -> (c < m)%nat ->
  o_blk (vst_ st (c_l (con_ cons c))) <> o_blk (vst_ st (c_r (con_ cons c))) ->
  I3 (bs_merge vars cons st c).
Proof.
  intros pend st c W T IDX Hc Hne. unfold bs_merge. fold (con_ cons c).
  set (k := con_ cons c) in *. destruct (IDX c Hc) as [Hl Hr]. fold k in Hl, Hr.
  destruct (wf_var_block _ _ _ _ _ W Hl) as [Il _]. destruct (wf_var_block _ _ _ _ _ W Hr) as [Ir _].
  destruct (Nat.ltb _ _).
  - apply (I3_merge_pair pend); try assumption; [congruence|]. right. now split.
  - apply (I3_merge_pair pend); try assumption. left. now split.
Qed.
End Split.
