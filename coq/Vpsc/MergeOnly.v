(* Executions without block splits ("merge-only"): the invariant WF holds at
   the exit of solve, hence every unflagged constraint holds within 1e-10 and
   the reported cost is the cost of the reported positions -- unconditionally,
   with "no split happened" read off the exit state (the block store never
   grew: length (s_b st) = number of variables; every split allocates two
   blocks and nothing is ever freed). *)
From Coq Require Import ZArith QArith Qabs Qminmax List Bool Arith Lia Lqa Permutation.
From Labella Require Import Vpsc.Vpsc Vpsc.VpscBase Vpsc.InvBase Vpsc.InvProofs.
Import ListNotations.
Open Scope Q_scope.

Section MO.
Variable vars : list var.
Variable cons : list con.
Let n := length vars.
Let m := length cons.

Definition nb (st : state) : nat := length (s_b st).

(* ------------------------------------------- the block store only grows --- *)
Lemma nb_lm_eq : forall a b, lm_eq a b -> nb b = nb a.
Proof. intros a b (_ & H & _). unfold nb. now rewrite H. Qed.
Lemma nb_core_eq : forall a b, core_eq a b -> nb b = nb a.
Proof. intros a b (_ & _ & _ & H & _). exact H. Qed.

Lemma nb_add_variable : forall st b v, nb (add_variable vars st b v) = nb st.
Proof. intros. unfold nb. now destruct (add_variable_frame vars st b v) as (_ & _ & _ & _ & E). Qed.

Lemma nb_set_off : forall st v o, nb (set_off st v o) = nb st.
Proof. intros. reflexivity. Qed.

Lemma nb_new_block : forall st v, nb (fst (new_block vars st v)) = S (nb st).
Proof.
  intros. unfold new_block. cbn [fst]. rewrite nb_add_variable. unfold nb. cbn [s_b]. rewrite app_length. simpl.
  unfold set_off, set_v. cbn [s_b]. lia.
Qed.

Lemma nb_populate : forall fuel bid v prev st st', populate vars cons fuel bid v prev st = Ok st' -> nb st' = nb st.
Proof.
  induction fuel as [|f IH]; intros bid v prev st st' H; [discriminate|]. cbn [populate] in H.
  match type of H with fold_res ?F ?L ?S0 = _ =>
    apply (fold_res_inv (fun a b => nb b = nb a) F L (fun x => eq_refl) (fun a b c (X : nb b = nb a) (Y : nb c = nb b) => eq_trans Y X)) in H end;
    [exact H|].
  intros [c nx] s s' _ Hs. apply IH in Hs. rewrite Hs. now rewrite nb_add_variable.
Qed.

Lemma nb_create_split : forall st v st' b, create_split vars cons st v = Ok (st', b) -> nb st' = S (nb st).
Proof.
  intros st v st' b H. unfold create_split in H.
  destruct (new_block vars st v) as [st1 bid] eqn:E.
  destruct (populate vars cons (trav_fuel vars) bid v None st1) as [st2|k] eqn:E2; [|discriminate].
  inversion H; subst. apply nb_populate in E2. rewrite E2.
  assert (Q := nb_new_block st v). now rewrite E in Q.
Qed.

Lemma nb_block_split : forall st c st' r, block_split vars cons st c = Ok (st', r) -> nb st' = S (S (nb st)).
Proof.
  intros st c st' r H. unfold block_split in H.
  destruct (create_split vars cons (set_active st c false) (c_l (con_ cons c))) as [[st1 lb]|k] eqn:E1; [|discriminate].
  destruct (create_split vars cons st1 (c_r (con_ cons c))) as [[st2 rb]|k] eqn:E2; [|discriminate].
  inversion H; subst. apply nb_create_split in E1, E2. rewrite E2, E1. reflexivity.
Qed.

Lemma nb_bs_insert : forall st b, nb (bs_insert st b) = nb st.
Proof. intros. unfold nb, bs_insert, set_list, set_b. cbn [s_b]. now rewrite length_upd. Qed.

Lemma nb_bs_remove : forall st b, nb (bs_remove st b) = nb st.
Proof.
  intros. unfold nb, bs_remove. destruct (Nat.eqb b (last (s_list st) 0%nat)); cbn [set_list set_b s_b]; [reflexivity|].
  now rewrite length_upd.
Qed.

Lemma nb_merge_across : forall st a b c d, nb (merge_across vars st a b c d) = nb st.
Proof.
  intros. unfold merge_across.
  assert (F : forall L s, nb (fold_left (fun s0 v => add_variable vars (set_off s0 v (qr (o_off (vst_ s0 v) + d))) a v) L s) = nb s).
  { induction L as [|v L IH]; intros s; cbn [fold_left]; [reflexivity|]. rewrite IH. now rewrite nb_add_variable. }
  unfold nb at 1. unfold set_b. cbn [s_b]. rewrite length_upd. fold (nb (fold_left (fun s0 v => add_variable vars (set_off s0 v (qr (o_off (vst_ s0 v) + d))) a v) (b_vars (blk_ (set_active st c true) b)) (set_active st c true))).
  rewrite F. reflexivity.
Qed.

Lemma nb_bs_merge : forall st c, nb (bs_merge vars cons st c) = nb st.
Proof.
  intros. unfold bs_merge.
  destruct (Nat.ltb _ _); now rewrite nb_bs_remove, nb_merge_across.
Qed.

Lemma split_step_nb : forall bid st ex k st' ex' k',
  split_step vars cons bid (st, (ex, k)) = Ok (st', (ex', k')) ->
  (lm_eq st st' /\ k' = k /\ ex' = ex) \/ (nb st' = S (S (nb st)) /\ k' = S k).
Proof.
  intros bid st ex k st' ex' k' H. unfold split_step in H.
  destruct (find_min_lm vars cons st bid) as [[st1 [v|]]|e] eqn:E; [| |discriminate].
  - apply find_min_lm_lm_eq in E.
    destruct (Qltb (k_lm (cst_ st1 v)) LAGRANGIAN_TOLERANCE).
    + match type of H with context [block_split vars cons ?S v] => destruct (block_split vars cons S v) as [[st2 [lb rb]]|e] eqn:E2; [|discriminate] end.
      apply nb_block_split in E2. inversion H; subst. right. split; [|reflexivity].
      unfold nb at 1. unfold set_inact. cbn [s_b]. fold (nb (bs_remove (bs_insert (bs_insert st2 lb) rb) (o_blk (vst_ (set_mg st1 (note_lm (k_lm (cst_ st1 v) - LAGRANGIAN_TOLERANCE) (s_mg st1))) (c_l (con_ cons v)))))).
      rewrite nb_bs_remove, !nb_bs_insert, E2. f_equal. f_equal.
      change (nb (set_mg st1 _)) with (nb st1). now apply nb_lm_eq.
    + inversion H; subst. left. split; [|now split].
      eapply lm_eq_trans; [exact E|apply set_mg_lm_eq].
  - apply find_min_lm_lm_eq in E. inversion H; subst. left. now split.
Qed.

Definition ss_rel (a b : state * (list nat * nat)) : Prop :=
  (nb (fst a) <= nb (fst b))%nat /\
  (nb (fst b) = nb (fst a) -> lm_eq (fst a) (fst b) /\ snd b = snd a).

Lemma ss_rel_refl : forall a, ss_rel a a.
Proof. intros a. split; [lia|]. intros _. split; [apply lm_eq_refl|reflexivity]. Qed.
Lemma ss_rel_trans : forall a b c, ss_rel a b -> ss_rel b c -> ss_rel a c.
Proof.
  intros a b c [A1 A2] [B1 B2]. split; [lia|]. intro E.
  assert (E1 : nb (fst b) = nb (fst a)) by lia. assert (E2 : nb (fst c) = nb (fst b)) by lia.
  destruct (A2 E1) as [X1 X2]. destruct (B2 E2) as [Y1 Y2]. split; [eapply lm_eq_trans; eassumption|congruence].
Qed.

Lemma split_fold_rel : forall l a b, fold_res (split_step vars cons) l a = Ok b -> ss_rel a b.
Proof.
  intros l a b H.
  apply (fold_res_inv ss_rel (split_step vars cons) l ss_rel_refl ss_rel_trans) in H; [exact H|].
  intros bid [st [ex k]] [st' [ex' k']] _ Hs. apply split_step_nb in Hs. unfold ss_rel. cbn [fst snd].
  destruct Hs as [(A & B & C)|(A & B)].
  - split; [rewrite (nb_lm_eq _ _ A); lia|]. intros _. split; [exact A|congruence].
  - split; [lia|]. intro E. lia.
Qed.

Lemma blocks_split_nb : forall st st' k, blocks_split vars cons st = Ok (st', k) ->
  (nb st <= nb st')%nat /\ (nb st' = nb st -> core_eq st st' /\ k = 0%nat).
Proof.
  intros st st' k H. unfold blocks_split in H.
  set (st0 := fold_left (update_weighted vars) (s_list st) st) in *.
  assert (C0 : core_eq st st0) by apply update_all_core_eq.
  assert (N0 : nb st0 = nb st) by now apply nb_core_eq.
  destruct (fold_res (split_step vars cons) (s_list st0) (st0, ([], 0%nat))) as [[st1 [extra k1]]|e] eqn:E1; [|discriminate].
  destruct (fold_res (split_step vars cons) extra (st1, ([], k1))) as [[st2 [ex2 k2]]|e] eqn:E2; [|discriminate].
  inversion H; subst. apply split_fold_rel in E1, E2. destruct E1 as [A1 A2]. destruct E2 as [B1 B2]. cbn [fst snd] in *.
  split; [lia|]. intro E.
  assert (Q1 : nb st1 = nb st0) by lia. assert (Q2 : nb st' = nb st1) by lia.
  destruct (A2 Q1) as [X1 X2]. destruct (B2 Q2) as [Y1 Y2]. inversion X2; subst. inversion Y2; subst.
  split; [|reflexivity]. eapply core_eq_trans; [exact C0|]. apply lm_eq_core. eapply lm_eq_trans; eassumption.
Qed.

(* ----------------------------------------------- one satisfy iteration --- *)
Lemma satisfy_body_nb : forall st c st', satisfy_body vars cons st c = Ok st' ->
  (nb st <= nb st')%nat /\
  (nb st' = nb st -> forall pend, WF vars cons pend st -> idx_ok vars cons -> (c < m)%nat ->
                     (pend = None \/ pend = Some c) -> WF vars cons None st').
Proof.
  intros st c st' H. unfold satisfy_body in H.
  set (k := con_ cons c) in *.
  destruct (Nat.eqb (o_blk (vst_ st (c_l k))) (o_blk (vst_ st (c_r k)))) eqn:EB; cbn [negb] in H.
  - destruct (is_adp cons (trav_fuel vars) st (c_r k) (c_l k)) as [[|]|e] eqn:EA; [| |discriminate].
    + inversion H; subst. split; [unfold nb, set_unsat, set_c; cbn [s_b]; lia|].
      intros _ pend W _ _ Hp. eapply WF_set_unsat; eassumption.
    + destruct (find_min_lm_between vars cons st (c_l k) (c_r k)) as [[st1 [c2|]]|e] eqn:EF; [| |discriminate].
      * apply find_min_lm_between_lm_eq in EF.
        destruct (block_split vars cons st1 c2) as [[st2 [nl nr]]|e] eqn:ES; [|discriminate].
        apply nb_block_split in ES. assert (N1 := nb_lm_eq _ _ EF).
        match type of H with (if ?b then _ else _) = _ => destruct b end; inversion H; subst.
        -- split; [|intro E; exfalso]; unfold nb in *; unfold set_inact in *; cbn [s_b set_mg] in *;
           fold (nb (bs_remove (bs_insert (bs_insert st2 nl) nr) (o_blk (vst_ st (c_l k))))) in *;
           rewrite nb_bs_remove, !nb_bs_insert in *; unfold nb in *; lia.
        -- split; [|intro E; exfalso]; rewrite nb_bs_merge in *; unfold nb in *; unfold set_inact in *; cbn [s_b set_mg] in *;
           fold (nb (bs_remove (bs_insert (bs_insert st2 nl) nr) (o_blk (vst_ st (c_l k))))) in *;
           rewrite nb_bs_remove, !nb_bs_insert in *; unfold nb in *; lia.
      * apply find_min_lm_between_lm_eq in EF. inversion H; subst.
        split; [unfold nb, set_unsat, set_c; cbn [s_b]; fold (nb st1); rewrite (nb_lm_eq _ _ EF); unfold nb; lia|].
        intros _ pend W _ _ Hp. apply (WF_set_unsat vars cons pend); [|exact Hp].
        eapply WF_core_eq; [apply lm_eq_core; exact EF|exact W].
  - inversion H; subst. split; [rewrite nb_bs_merge; lia|].
    intros _ pend W IDX Hc Hp. apply (WF_bs_merge vars cons pend); try assumption.
    fold k. apply Nat.eqb_neq. exact EB.
Qed.

(* ------------------------------------------------ feasibility at exit --- *)
Definition sc_ok : Prop := forall v, (v < n)%nat -> ~ v_sc (var_ vars v) == 0.

Lemma active_slack_zero : forall pend st c,
  WF vars cons pend st -> idx_ok vars cons -> sc_ok -> (c < m)%nat ->
  k_act (cst_ st c) = true -> k_uns (cst_ st c) = false -> slack vars cons st c == 0.
Proof.
  intros pend st c W IDX SC Hc Ha Hu. unfold slack. rewrite Hu.
  destruct (wf_I2 _ _ _ _ W c Hc Ha) as [Eb Eo]. destruct (IDX c Hc) as [Hl Hr].
  set (k := con_ cons c) in *. unfold position. rewrite <- Eb.
  set (b := blk_ st (o_blk (vst_ st (c_l k)))).
  assert (Sl := SC _ Hl). assert (Sr := SC _ Hr).
  set (sl := v_sc (var_ vars (c_l k))) in *. set (sr := v_sc (var_ vars (c_r k))) in *.
  setoid_replace (sr * ((b_sc b * b_posn b + o_off (vst_ st (c_r k))) / sr)) with (b_sc b * b_posn b + o_off (vst_ st (c_r k))) by (field; exact Sr).
  setoid_replace (sl * ((b_sc b * b_posn b + o_off (vst_ st (c_l k))) / sl)) with (b_sc b * b_posn b + o_off (vst_ st (c_l k))) by (field; exact Sl).
  lra.
Qed.

(* what holds when the satisfy loop stops *)
Definition Exit (st : state) : Prop :=
  forall x, In x (s_inact st) -> k_uns (cst_ st x) = false -> ZERO_UPPERBOUND <= slack vars cons st x.

Lemma ZUB_neg : ZERO_UPPERBOUND < 0.
Proof. unfold ZERO_UPPERBOUND. reflexivity. Qed.
Lemma ZUB_lt_maxsize : ZERO_UPPERBOUND < maxsize.
Proof. reflexivity. Qed.

(* the candidate handed to the loop: minimal slack among the unflagged
   members of the inactive list (as it was before the candidate was removed) *)
Definition MV (st : state) (v : option nat) : Prop :=
  match v with
  | None => forall x, In x (s_inact st) -> k_uns (cst_ st x) = false -> maxsize <= slack vars cons st x
  | Some c => (c < m)%nat /\ k_uns (cst_ st c) = false /\
              (forall x, In x (s_inact st) -> k_uns (cst_ st x) = false -> slack vars cons st c <= slack vars cons st x) /\
              WF vars cons (if violated vars cons st c then Some c else None) st
  end.

Lemma most_violated_MV : forall st st' v, WF vars cons None st -> most_violated vars cons st = (st', v) ->
  nb st' = nb st /\ WF vars cons (match v with Some c => if violated vars cons st' c then Some c else None | None => None end) st' /\ MV st' v.
Proof.
  intros st st' v W H. apply most_violated_spec in H. destruct H as (A & B & C & D & H).
  assert (SL : forall x, slack vars cons st' x = slack vars cons st x) by (intros; now apply slack_ext).
  assert (CS : forall x, cst_ st' x = cst_ st x) by (intros; unfold cst_; now rewrite B).
  assert (VS : forall x, vst_ st' x = vst_ st x) by (intros; unfold vst_; now rewrite A).
  assert (BS : forall x, blk_ st' x = blk_ st x) by (intros; unfold blk_; now rewrite C).
  assert (Wgen : forall pend, (forall x, In x (s_inact st) -> Some x <> pend -> In x (s_inact st')) ->
                              (forall x, In x (s_inact st') -> In x (s_inact st)) -> WF vars cons pend st').
  { intros pend K1 K2. constructor.
    - rewrite A. apply (wf_nv _ _ _ _ W).
    - rewrite B. apply (wf_nc _ _ _ _ W).
    - rewrite D. rewrite (flat_map_ext_in (bvars st') (bvars st)) by (intros; unfold bvars; now rewrite BS). apply (wf_part _ _ _ _ W).
    - intros b x Hb Hx. rewrite D in Hb. unfold bvars in Hx. rewrite BS in Hx. rewrite VS. now apply (wf_blk _ _ _ _ W).
    - intros b Hb. rewrite D in Hb. rewrite C. now apply (wf_ids _ _ _ _ W).
    - intros i Hi. rewrite D in *. rewrite BS. now apply (wf_ind _ _ _ _ W).
    - rewrite D. apply (wf_nodup _ _ _ _ W).
    - intros c Hc Ha. rewrite CS in Ha. rewrite !VS. now apply (wf_I2 _ _ _ _ W).
    - intros c Hc Ha Hu Hp. rewrite CS in Ha, Hu. apply K1; [|exact Hp]. apply (wf_I1 _ _ _ _ W c Hc Ha Hu). discriminate.
    - intros c Hc. apply (wf_inact_lt _ _ _ _ W). now apply K2.
    - intros c Hc Ha. rewrite CS in Ha. now apply (wf_noself _ _ _ _ W). }
  split; [unfold nb; now rewrite C|].
  destruct v as [c|].
  - destruct H as (H1 & H2 & H3 & H4).
    assert (Vi : violated vars cons st' c = violated vars cons st c) by (unfold violated; now rewrite SL, CS).
    rewrite Vi.
    assert (Wc : WF vars cons (if violated vars cons st c then Some c else None) st').
    { destruct (violated vars cons st c).
      - destruct H4 as [K1 K2]. apply Wgen; [|exact K2]. intros x Hx Hp. apply K1; [exact Hx|congruence].
      - apply Wgen; rewrite H4; auto. }
    split; [exact Wc|]. unfold MV. rewrite Vi. split; [now apply (wf_inact_lt _ _ _ _ W)|]. split; [now rewrite CS|]. split; [|exact Wc].
    intros x Hx Hu. rewrite !SL. rewrite CS in Hu. apply H3; [|exact Hu].
    destruct (violated vars cons st c); [now apply (proj2 H4)|now rewrite <- H4].
  - destruct H as [H1 H2]. split; [apply Wgen; rewrite H1; auto|].
    unfold MV. intros x Hx Hu. rewrite SL. rewrite CS in Hu. rewrite H1 in Hx. now apply H2.
Qed.

Lemma nb_most_violated : forall st st' v, most_violated vars cons st = (st', v) -> nb st' = nb st.
Proof. intros st st' v H. apply most_violated_spec in H. destruct H as (_ & _ & C & _). unfold nb. now rewrite C. Qed.

Lemma satisfy_loop_mono : forall fuel st v st', satisfy_loop vars cons fuel st v = Ok st' -> (nb st <= nb st')%nat.
Proof.
  induction fuel as [|f IHf]; intros st v st' H.
  - destruct v as [c'|]; cbn [satisfy_loop] in H; [|inversion H; lia].
    destruct (Qltb (slack vars cons st c') ZERO_UPPERBOUND && negb (k_act (cst_ st c')))%bool; [discriminate|inversion H; lia].
  - destruct v as [c'|]; cbn [satisfy_loop] in H; [|inversion H; lia].
    destruct (Qltb (slack vars cons st c') ZERO_UPPERBOUND && negb (k_act (cst_ st c')))%bool; [|inversion H; lia].
    destruct (satisfy_body vars cons st c') as [s1|e] eqn:EB; [|discriminate].
    destruct (most_violated vars cons s1) as [s2 v2] eqn:EM.
    destruct (satisfy_body_nb st c' s1 EB) as [N1 _].
    assert (N2 := nb_most_violated _ _ _ EM).
    apply IHf in H. lia.
Qed.

Lemma satisfy_loop_inv : forall fuel st v st',
  satisfy_loop vars cons fuel st v = Ok st' -> idx_ok vars cons -> sc_ok ->
  WF vars cons (match v with Some c => if violated vars cons st c then Some c else None | None => None end) st -> MV st v ->
  (nb st <= nb st')%nat /\ (nb st' = nb st -> WF vars cons None st' /\ Exit st').
Proof.
  induction fuel as [|f IH]; intros st v st' H IDX SC W M.
  - destruct v as [c|]; cbn [satisfy_loop] in H.
    + fold (violated vars cons st c) in H. destruct (violated vars cons st c) eqn:Vi; [discriminate|].
      inversion H; subst. split; [lia|]. intros _. split; [exact W|].
      destruct M as (Hc & Hu & Hmin & _). intros x Hx Hux.
      assert (Hs := Hmin x Hx Hux).
      unfold violated in Vi. apply andb_false_iff in Vi. destruct Vi as [Vi|Vi].
      * apply Qltb_ge in Vi. lra.
      * apply negb_false_iff in Vi. assert (Z := active_slack_zero None st' c W IDX SC Hc Vi Hu).
        assert (Zn := ZUB_neg). lra.
    + inversion H; subst. split; [lia|]. intros _. split; [exact W|].
      intros x Hx Hux. assert (Hs := M x Hx Hux). assert (Zm := ZUB_lt_maxsize). lra.
  - destruct v as [c|]; cbn [satisfy_loop] in H.
    + fold (violated vars cons st c) in H. destruct (violated vars cons st c) eqn:Vi.
      * destruct (satisfy_body vars cons st c) as [st1|e] eqn:EB; [|discriminate].
        destruct (most_violated vars cons st1) as [st2 v'] eqn:EM.
        destruct (satisfy_body_nb st c st1 EB) as [N1 P1].
        destruct M as (Hc & Hu & Hmin & _).
        (* the block store did not grow in this iteration or it did; decide after the recursive call *)
        destruct (Nat.eq_dec (nb st1) (nb st)) as [Q|Q].
        -- assert (W1 : WF vars cons None st1) by (apply (P1 Q (Some c)); auto).
           destruct (most_violated_MV st1 st2 v' W1 EM) as (N2 & W2 & M2).
           destruct (IH st2 v' st' H IDX SC W2 M2) as [N3 P3].
           split; [lia|]. intro E. apply P3. lia.
        -- (* a split happened: the store grew and never shrinks; nothing to prove for equality *)
           assert (Hgrow : (nb st < nb st1)%nat) by lia.
           assert (N2 : nb st2 = nb st1).
           { apply most_violated_spec in EM. destruct EM as (_ & _ & C & _). unfold nb. now rewrite C. }
           (* monotonicity of the rest of the loop without invariants *)
           assert (Mono := satisfy_loop_mono f st2 v' st' H).
           split; [lia|]. intro E. exfalso. lia.
      * inversion H; subst. split; [lia|]. intros _. split; [exact W|].
        destruct M as (Hc & Hu & Hmin & _). intros x Hx Hux.
        assert (Hs := Hmin x Hx Hux).
        unfold violated in Vi. apply andb_false_iff in Vi. destruct Vi as [Vi|Vi].
        -- apply Qltb_ge in Vi. lra.
        -- apply negb_false_iff in Vi. assert (Z := active_slack_zero None st' c W IDX SC Hc Vi Hu).
           assert (Zn := ZUB_neg). lra.
    + inversion H; subst. split; [lia|]. intros _. split; [exact W|].
      intros x Hx Hux. assert (Hs := M x Hx Hux). assert (Zm := ZUB_lt_maxsize). lra.
Qed.

Lemma satisfy_inv : forall fuel st st' ns, satisfy vars cons fuel st = Ok (st', ns) ->
  idx_ok vars cons -> sc_ok -> WF vars cons None st ->
  (nb st <= nb st')%nat /\ (nb st' = nb st -> WF vars cons None st' /\ Exit st').
Proof.
  intros fuel st st' ns H IDX SC W. unfold satisfy in H.
  destruct (blocks_split vars cons st) as [[st1 k]|e] eqn:E1; [|discriminate].
  destruct (most_violated vars cons st1) as [st2 v] eqn:E2.
  destruct (satisfy_loop vars cons fuel st2 v) as [st3|e] eqn:E3; [|discriminate].
  destruct (blocks_split_nb st st1 k E1) as [N1 P1]. inversion H; subst.
  assert (N2 := nb_most_violated _ _ _ E2). assert (N3 := satisfy_loop_mono _ _ _ _ E3).
  split; [lia|]. intro E.
  assert (Q1 : nb st1 = nb st) by lia. destruct (P1 Q1) as [C1 _].
  assert (W1 : WF vars cons None st1) by (eapply WF_core_eq; eassumption).
  destruct (most_violated_MV st1 st2 v W1 E2) as (_ & W2 & M2).
  destruct (satisfy_loop_inv fuel st2 v st' E3 IDX SC W2 M2) as [_ P3]. apply P3. lia.
Qed.

Lemma satisfy_mono : forall fuel st st' ns, satisfy vars cons fuel st = Ok (st', ns) -> (nb st <= nb st')%nat.
Proof.
  intros fuel st st' ns H. unfold satisfy in H.
  destruct (blocks_split vars cons st) as [[st1 k]|e] eqn:E1; [|discriminate].
  destruct (most_violated vars cons st1) as [st2 v] eqn:E2.
  destruct (satisfy_loop vars cons fuel st2 v) as [st3|e] eqn:E3; [|discriminate].
  destruct (blocks_split_nb st st1 k E1) as [N1 _]. inversion H; subst.
  assert (N2 := nb_most_violated _ _ _ E2). assert (N3 := satisfy_loop_mono _ _ _ _ E3). lia.
Qed.

(* ----------------------------------------------------- initial state --- *)
Lemma init_blk : forall i, (i < n)%nat -> blk_ (init_state vars cons) i = init_block vars i.
Proof.
  intros i Hi. unfold blk_, init_state. cbn [s_b]. fold n.
  rewrite (nth_indep _ dblk (init_block vars 0)) by (rewrite map_length, seq_length; exact Hi).
  rewrite map_nth. now rewrite seq_nth.
Qed.

Lemma init_vst : forall i, (i < n)%nat -> vst_ (init_state vars cons) i = mkVst 0 i.
Proof.
  intros i Hi. unfold vst_, init_state. cbn [s_v]. fold n.
  rewrite (nth_indep _ dvst (mkVst 0 0)) by (rewrite map_length, seq_length; exact Hi).
  rewrite (map_nth (fun i0 => mkVst 0 i0)). now rewrite seq_nth.
Qed.

Lemma init_cst : forall c, cst_ (init_state vars cons) c = mkCst false false 0.
Proof.
  intros c. unfold cst_, init_state. cbn [s_c].
  destruct (Nat.lt_ge_cases c (length cons)) as [H|H].
  - rewrite (nth_indep _ dcst (mkCst false false 0)) by (now rewrite map_length).
    now rewrite (map_nth (fun _ : con => mkCst false false 0) cons dcon).
  - rewrite nth_overflow by (now rewrite map_length). reflexivity.
Qed.

Lemma flat_map_single : forall l : list nat, flat_map (fun b => [b]) l = l.
Proof. induction l as [|a l IH]; simpl; [reflexivity|now rewrite IH]. Qed.

Lemma WF_init : WF vars cons None (init_state vars cons).
Proof.
  assert (BV : forall b, In b (seq 0 n) -> bvars (init_state vars cons) b = [b]).
  { intros b Hb. apply in_seq in Hb. unfold bvars. rewrite init_blk by lia. reflexivity. }
  constructor.
  - unfold init_state. cbn [s_v]. now rewrite map_length, seq_length.
  - unfold init_state. cbn [s_c]. now rewrite map_length.
  - change (s_list (init_state vars cons)) with (seq 0 n).
    rewrite (flat_map_ext_in _ (fun b => [b])) by exact BV. now rewrite flat_map_single.
  - intros b v Hb Hv. change (s_list (init_state vars cons)) with (seq 0 n) in Hb.
    rewrite BV in Hv by exact Hb. destruct Hv as [E|[]]. subst v. apply in_seq in Hb. rewrite init_vst by lia. reflexivity.
  - intros b Hb. change (s_list (init_state vars cons)) with (seq 0 n) in Hb. apply in_seq in Hb.
    unfold init_state, nvars. cbn [s_b]. rewrite map_length, seq_length. fold n. lia.
  - intros i Hi. change (s_list (init_state vars cons)) with (seq 0 n) in *. rewrite seq_length in Hi.
    rewrite seq_nth by exact Hi. rewrite init_blk by (simpl; exact Hi). reflexivity.
  - apply seq_NoDup.
  - intros c _ Ha. rewrite init_cst in Ha. discriminate.
  - intros c Hc _ _ _. unfold init_state. cbn [s_inact]. apply in_seq. fold m. lia.
  - intros c Hc. unfold init_state in Hc. cbn [s_inact] in Hc. apply in_seq in Hc. fold m in Hc. lia.
  - intros c _ Ha. rewrite init_cst in Ha. discriminate.
Qed.

Lemma nb_init : nb (init_state vars cons) = n.
Proof. unfold nb, init_state. cbn [s_b]. now rewrite map_length, seq_length. Qed.

(* ------------------------------------------------------------- solve --- *)
Lemma Exit_set_mg : forall st g, Exit st -> Exit (set_mg st g).
Proof. intros st g H. exact H. Qed.

Lemma solve_loop_mono : forall fuel sfuel st lastcost cost ns stalled nsat st' c' k',
  solve_loop vars cons fuel sfuel st lastcost cost ns stalled nsat = Ok (st', c', k') -> (nb st <= nb st')%nat.
Proof.
  induction fuel as [|f IHf]; intros sfuel st lastcost cost ns stalled nsat st' c' k' H; cbn [solve_loop] in H;
    destruct (Qltb COST_EPS (Qabs (lastcost - cost)) || negb (Nat.eqb ns 0) && Nat.ltb stalled (length cons))%bool;
    try discriminate; try (inversion H; subst; unfold nb; cbn; lia).
  destruct (satisfy vars cons sfuel _) as [[s1 n1]|e] eqn:E; [|discriminate].
  apply satisfy_mono in E. apply IHf in H. change (nb (set_mg st _)) with (nb st) in E. lia.
Qed.

Lemma solve_loop_inv : forall fuel sfuel st lastcost cost ns stalled nsat st' c' k',
  solve_loop vars cons fuel sfuel st lastcost cost ns stalled nsat = Ok (st', c', k') ->
  idx_ok vars cons -> sc_ok -> WF vars cons None st -> Exit st ->
  (nb st <= nb st')%nat /\ (nb st' = nb st -> WF vars cons None st' /\ Exit st').
Proof.
  induction fuel as [|f IH]; intros sfuel st lastcost cost ns stalled nsat st' c' k' H IDX SC W EX;
    cbn [solve_loop] in H;
    destruct (Qltb COST_EPS (Qabs (lastcost - cost)) || negb (Nat.eqb ns 0) && Nat.ltb stalled (length cons))%bool.
  - discriminate.
  - inversion H; subst. split; [unfold nb; cbn; lia|]. intros _. split; [|exact EX].
    eapply WF_core_eq; [apply lm_eq_core; apply set_mg_lm_eq|exact W].
  - destruct (satisfy vars cons sfuel _) as [[st1 ns1]|e] eqn:E; [|discriminate].
    set (st0 := set_mg st (note_pos (Qabs (lastcost - cost) - COST_EPS) (s_mg st))) in *.
    assert (W0 : WF vars cons None st0) by (eapply WF_core_eq; [apply lm_eq_core; apply set_mg_lm_eq|exact W]).
    destruct (satisfy_inv sfuel st0 st1 ns1 E IDX SC W0) as [N1 P1].
    change (nb st0) with (nb st) in *.
    destruct (Nat.eq_dec (nb st1) (nb st)) as [Q|Q].
    + destruct (P1 Q) as [W1 E1]. destruct (IH _ _ _ _ _ _ _ _ _ _ H IDX SC W1 E1) as [N2 P2].
      split; [lia|]. intro E2. apply P2. lia.
    + assert (N2 := solve_loop_mono _ _ _ _ _ _ _ _ _ _ _ H).
      split; [lia|]. intro E2. exfalso. lia.
  - inversion H; subst. split; [unfold nb; cbn; lia|]. intros _. split; [|exact EX].
    eapply WF_core_eq; [apply lm_eq_core; apply set_mg_lm_eq|exact W].
Qed.

Theorem solve_merge_only_inv : forall st c k,
  solve vars cons = Ok (st, c, k) -> idx_ok vars cons -> sc_ok -> nb st = n ->
  WF vars cons None st /\ Exit st.
Proof.
  intros st c k H IDX SC E. unfold solve, solve_with in H.
  destruct (satisfy vars cons (sat_fuel vars cons) (init_state vars cons)) as [[st0 ns]|e] eqn:E0; [|discriminate].
  destruct (satisfy_inv _ _ _ _ E0 IDX SC WF_init) as [N0 P0]. rewrite nb_init in *.
  destruct (Nat.eq_dec (nb st0) n) as [Q|Q].
  - destruct (P0 Q) as [W0 X0]. destruct (solve_loop_inv _ _ _ _ _ _ _ _ _ _ _ H IDX SC W0 X0) as [N1 P1].
    apply P1. lia.
  - exfalso.
    assert (N1 := solve_loop_mono _ _ _ _ _ _ _ _ _ _ _ H).
    lia.
Qed.
End MO.
