(* Recursion depth of the solver's traversals, per BLOCK.

   Vpsc/FuelProofs.v shows that the recursive traversals of vpsc.py
   (compute_lm, populateSplitBlock, findPath, isActiveDirectedPathBetween)
   never need more fuel than |vars| + 1.  Here the bound is sharpened to the
   block the traversal starts in:  in every state that satisfies the solver's
   invariants, a traversal started at variable v recurses at most
   |block of v| levels deep (fuel = recursion depth in the model: every
   recursive call of the Python functions is one `S f` of the model).

   This is the logical half of property C11's recursion-limit clause: CPython
   spends a fixed number of interpreter frames per level (measured: four), so a
   layout whose solver blocks ("conflict clusters") hold at most B items can
   only exhaust the interpreter's recursion limit if 4 B + (frames below the
   solver) exceeds it -- whatever the number of labels, layers or blocks. *)
From Coq Require Import ZArith QArith List Bool Arith Lia Permutation.
From Labella Require Import Vpsc.Vpsc Vpsc.VpscBase Vpsc.InvBase Vpsc.InvProofs Vpsc.MergeOnly
  Vpsc.Tree Vpsc.SplitProofs Vpsc.PathProofs Vpsc.General Vpsc.FuelProofs.
Import ListNotations.
Open Scope Q_scope.

Section Depth.
Variable vars : list var.
Variable cons : list con.
Let n := length vars.
Let m := length cons.

(* number of variables of the block that holds v *)
Definition blk_size (st : state) (v : nat) : nat := length (bvars st (o_blk (vst_ st v))).

Lemma tree_fuel_list : forall st r E L, tree cons st r E -> Permutation (r :: verts E) L ->
  reach cons (length L) st r None = Ok E.
Proof.
  intros st r E L [[f Hf] _] P.
  rewrite <- (Permutation_length P). simpl. unfold verts. rewrite map_length.
  apply (reach_fuel_size vars cons f). exact Hf.
Qed.

(* the spanning tree of v's block is explored within |block| levels *)
Theorem reach_depth_le_block : forall pend st v, Inv vars cons pend st -> (v < n)%nat ->
  exists E, reach cons (blk_size st v) st v None = Ok E /\ NoDup (v :: verts E) /\
            Permutation (v :: verts E) (bvars st (o_blk (vst_ st v))).
Proof.
  intros pend st v I Hv. destruct (any_root_tree vars cons pend st v I Hv) as (E & T & P).
  exists E. split; [|split; [now destruct T|exact P]].
  unfold blk_size. eapply tree_fuel_list; eassumption.
Qed.

(* Block.compute_lm (findMinLM, findMinLMBetween, Blocks.split) *)
Theorem compute_lm_depth_le_block : forall {M} (post : nat -> state -> M -> state * M),
  (forall c s mm, lm_eq s (fst (post c s mm))) ->
  forall pend st v mm, Inv vars cons pend st -> (v < n)%nat ->
  exists r, compute_lm vars cons post (blk_size st v) v None (st, mm) = Ok r.
Proof.
  intros M post Hpost pend st v mm I Hv.
  destruct (reach_depth_le_block pend st v I Hv) as (E & R & _).
  exact (compute_lm_ok vars cons post Hpost _ st v None E st mm (fun c => eq_refl) R).
Qed.

(* Block.findPath *)
Theorem find_path_depth_le_block : forall pend st v to mm, Inv vars cons pend st -> (v < n)%nat ->
  exists r, find_path cons (blk_size st v) v None to (st, mm) = Ok r.
Proof.
  intros pend st v to mm I Hv.
  destruct (reach_depth_le_block pend st v I Hv) as (E & R & _).
  exact (find_path_ok cons _ st v None to E st mm (fun c => eq_refl) R).
Qed.

(* Block.isActiveDirectedPathBetween *)
Theorem is_adp_depth_le_block : forall pend st v to, Inv vars cons pend st -> (v < n)%nat ->
  exists b, is_adp cons (blk_size st v) st v to = Ok b.
Proof.
  intros pend st v to I Hv.
  destruct (reach_depth_le_block pend st v I Hv) as (E & R & ND & _).
  destruct I as [W T].
  apply (is_adp_ok cons _ st v None E to (wf_noself _ _ _ _ W) R ND).
  intros p Q. discriminate.
Qed.

(* Block.populateSplitBlock, both halves of Block.split: once the split
   constraint c is deactivated, each half is explored within the size of the
   ORIGINAL block (in fact within its own size; the two sizes add up to it) *)
Theorem populate_depth_le_block : forall pend st c, Inv vars cons pend st -> idx_ok vars cons ->
  (c < m)%nat -> k_act (cst_ st c) = true ->
  let u := c_l (con_ cons c) in let w := c_r (con_ cons c) in
  let st0 := set_active st c false in
  exists E1 E2,
    reach cons (S (length E1)) st0 u None = Ok E1 /\
    reach cons (S (length E2)) st0 w None = Ok E2 /\
    (S (length E1) + S (length E2) = blk_size st u)%nat /\
    (forall bid s, act_eq s st0 -> exists s', populate vars cons (blk_size st u) bid u None s = Ok s') /\
    (forall bid s, act_eq s st0 -> exists s', populate vars cons (blk_size st u) bid w None s = Ok s').
Proof.
  intros pend st c [W T] IDX Hc Hact u w st0.
  destruct (IDX c Hc) as [Hu Hw]. fold u in Hu. fold w in Hw. fold n in Hu, Hw.
  destruct (any_root_tree vars cons pend st u (conj W T) Hu) as (Eu & Tu & Pu).
  assert (Hcw : In (c, w) (nbrs cons st u None)).
  { apply nbrs_spec. fold m. repeat split; try assumption. left. now split. }
  assert (D : deact st st0 c) by (apply set_active_deact; now rewrite (wf_nc _ _ _ _ W)).
  destruct (prune_root cons st st0 c u w Eu D Tu Hcw) as (E1 & E2 & T1 & T2 & P12 & _).
  assert (R1 : reach cons (S (length E1)) st0 u None = Ok E1)
    by (destruct T1 as [[f Hf] _]; apply (reach_fuel_size vars cons f); exact Hf).
  assert (R2 : reach cons (S (length E2)) st0 w None = Ok E2)
    by (destruct T2 as [[f Hf] _]; apply (reach_fuel_size vars cons f); exact Hf).
  assert (Sz : (S (length E1) + S (length E2) = blk_size st u)%nat).
  { unfold blk_size. rewrite <- (Permutation_length Pu). rewrite (Permutation_length P12).
    rewrite app_length. simpl. unfold verts. rewrite !map_length. reflexivity. }
  exists E1, E2. repeat split; try assumption.
  - intros bid s Ha. apply (populate_ok vars cons _ st0 bid u None E1 s Ha).
    apply (reach_le cons (S (length E1))); [lia|exact R1].
  - intros bid s Ha. apply (populate_ok vars cons _ st0 bid w None E2 s Ha).
    apply (reach_le cons (S (length E2))); [lia|exact R2].
Qed.

(* a block never holds more variables than there are *)
Lemma blk_size_le_n : forall pend st v, Inv vars cons pend st -> (v < n)%nat -> (blk_size st v <= n)%nat.
Proof.
  intros pend st v I Hv. destruct (reach_depth_le_block pend st v I Hv) as (E & R & ND & P).
  unfold blk_size. rewrite <- (Permutation_length P).
  rewrite <- (seq_length n 0). apply NoDup_incl_length; [exact ND|].
  intros y [Q|Q]; apply in_seq.
  - subst. lia.
  - destruct I as [W _].
    assert (Hy : In y (bvars st (o_blk (vst_ st v)))) by (eapply Permutation_in; [exact P|now right]).
    destruct (wf_var_block _ _ _ _ v W Hv) as [HB _].
    assert (L := wf_bvars_lt _ _ _ _ _ _ W HB Hy). fold n in L. lia.
Qed.

End Depth.
