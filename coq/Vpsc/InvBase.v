(* List and state-update lemmas used by the invariant proofs. *)
From Coq Require Import ZArith QArith List Bool Arith Lia Permutation.
From Labella Require Import Vpsc.Vpsc Vpsc.VpscBase.
Import ListNotations.

(* ------------------------------------------------------------ lists --- *)
Lemma nth_upd : forall {A} (l : list A) i j x d,
  nth j (upd l i x) d = if (Nat.eqb i j && Nat.ltb i (length l))%bool then x else nth j l d.
Proof.
  intros A l i j x d. destruct (Nat.eqb i j) eqn:E; simpl.
  - apply Nat.eqb_eq in E. subst j. destruct (Nat.ltb i (length l)) eqn:L.
    + apply Nat.ltb_lt in L. now apply nth_upd_same.
    + apply Nat.ltb_ge in L. revert i L. induction l as [|h t IH]; intros i L; simpl; [reflexivity|].
      destruct i; simpl in *; [lia|]. apply IH. lia.
  - apply Nat.eqb_neq in E. now apply nth_upd_other.
Qed.

Lemma upd_out : forall {A} (l : list A) i x, (length l <= i)%nat -> upd l i x = l.
Proof.
  induction l as [|h t IH]; intros i x H; simpl; [reflexivity|].
  destruct i; simpl in *; [lia|]. f_equal. apply IH. lia.
Qed.

Lemma upd_nth_same : forall {A} (l : list A) i d, upd l i (nth i l d) = l.
Proof.
  induction l as [|h t IH]; intros i d; simpl; [reflexivity|].
  destruct i; simpl; [reflexivity|]. now rewrite IH.
Qed.

Lemma nth_last : forall {A} (l : list A) d, last l d = nth (length l - 1) l d.
Proof.
  induction l as [|h t IH]; intros d; [reflexivity|].
  destruct t as [|h' t']; [reflexivity|].
  change (last (h :: h' :: t') d) with (last (h' :: t') d). rewrite IH. simpl. now rewrite Nat.sub_0_r.
Qed.

Lemma length_removelast : forall {A} (l : list A), length (removelast l) = (length l - 1)%nat.
Proof.
  intros A l. destruct l as [|h t]; [reflexivity|].
  assert (H : h :: t <> []) by discriminate.
  assert (E := app_removelast_last h H).
  assert (L : length (h :: t) = length (removelast (h :: t) ++ [last (h :: t) h])) by (rewrite <- E; reflexivity).
  rewrite app_length in L. simpl length in L at 3. lia.
Qed.

Lemma nth_removelast : forall {A} (l : list A) j d, (j < length l - 1)%nat -> nth j (removelast l) d = nth j l d.
Proof.
  intros A l j d Hj. destruct l as [|h t]; [simpl in Hj; lia|].
  assert (H : h :: t <> []) by discriminate.
  assert (E := app_removelast_last h H).
  rewrite E at 2. rewrite app_nth1; [reflexivity|]. rewrite length_removelast. exact Hj.
Qed.

(* the list operation of swap-with-last removal *)
Definition swap_remove {A} (l : list A) (i : nat) (d : A) : list A := removelast (upd l i (last l d)).

Lemma swap_remove_length : forall {A} (l : list A) i d, length (swap_remove l i d) = (length l - 1)%nat.
Proof. intros. unfold swap_remove. now rewrite length_removelast, length_upd. Qed.

Lemma swap_remove_nth : forall {A} (l : list A) i j d, (i < length l)%nat -> (j < length l - 1)%nat ->
  nth j (swap_remove l i d) d = if Nat.eqb i j then last l d else nth j l d.
Proof.
  intros A l i j d Hi Hj. unfold swap_remove.
  rewrite nth_removelast by (rewrite length_upd; exact Hj).
  rewrite nth_upd. replace (Nat.ltb i (length l)) with true by (symmetry; now apply Nat.ltb_lt).
  now rewrite andb_true_r.
Qed.

Lemma swap_remove_In : forall {A} (l : list A) i d x, (i < length l)%nat -> NoDup l ->
  (In x (swap_remove l i d) <-> In x l /\ x <> nth i l d).
Proof.
  intros A l i d x Hi ND. split.
  - intro H. destruct (In_nth _ _ d H) as [j [Hj Ej]]. rewrite swap_remove_length in Hj.
    rewrite swap_remove_nth in Ej by assumption.
    destruct (Nat.eqb i j) eqn:E.
    + apply Nat.eqb_eq in E. subst j. subst x. rewrite nth_last. split; [apply nth_In; lia|].
      intro Q. apply (proj1 (NoDup_nth l d) ND) in Q; lia.
    + apply Nat.eqb_neq in E. subst x. split; [apply nth_In; lia|].
      intro Q. apply (proj1 (NoDup_nth l d) ND) in Q; lia.
  - intros [H Hne]. destruct (In_nth _ _ d H) as [j [Hj Ej]].
    destruct (Nat.eq_dec j (length l - 1)) as [Q|Q].
    + (* x is the last element: it sits at position i now *)
      assert (i <> j) by (intro; subst; congruence).
      assert (Hi' : (i < length l - 1)%nat) by lia.
      assert (E := swap_remove_nth l i i d Hi Hi'). rewrite Nat.eqb_refl in E.
      rewrite nth_last in E. rewrite <- Q, Ej in E. rewrite <- E. apply nth_In.
      rewrite swap_remove_length. exact Hi'.
    + assert (Hj' : (j < length l - 1)%nat) by lia.
      assert (E := swap_remove_nth l i j d Hi Hj').
      destruct (Nat.eqb i j) eqn:E2; [apply Nat.eqb_eq in E2; subst; congruence|].
      rewrite Ej in E. rewrite <- E. apply nth_In. rewrite swap_remove_length. exact Hj'.
Qed.

Lemma swap_remove_keeps : forall {A} (l : list A) i d x, (i < length l)%nat ->
  In x l -> x <> nth i l d -> In x (swap_remove l i d).
Proof.
  intros A l i d x Hi H Hne. destruct (In_nth _ _ d H) as [j [Hj Ej]].
  destruct (Nat.eq_dec j (length l - 1)) as [Q|Q].
  - assert (i <> j) by (intro; subst; congruence).
    assert (Hi' : (i < length l - 1)%nat) by lia.
    assert (E := swap_remove_nth l i i d Hi Hi'). rewrite Nat.eqb_refl in E.
    rewrite nth_last in E. rewrite <- Q, Ej in E. rewrite <- E. apply nth_In.
    rewrite swap_remove_length. exact Hi'.
  - assert (Hj' : (j < length l - 1)%nat) by lia.
    assert (E := swap_remove_nth l i j d Hi Hj').
    destruct (Nat.eqb i j) eqn:E2; [apply Nat.eqb_eq in E2; subst; congruence|].
    rewrite Ej in E. rewrite <- E. apply nth_In. rewrite swap_remove_length. exact Hj'.
Qed.

Lemma swap_remove_incl : forall {A} (l : list A) i d x, (i < length l)%nat ->
  In x (swap_remove l i d) -> In x l.
Proof.
  intros A l i d x Hi H. destruct (In_nth _ _ d H) as [j [Hj Ej]]. rewrite swap_remove_length in Hj.
  rewrite swap_remove_nth in Ej by assumption.
  destruct (Nat.eqb i j); subst x; [rewrite nth_last|]; apply nth_In; lia.
Qed.

Lemma swap_remove_NoDup : forall {A} (l : list A) i d, (i < length l)%nat -> NoDup l -> NoDup (swap_remove l i d).
Proof.
  intros A l i d Hi ND. apply (proj2 (NoDup_nth _ d)). intros j k Hj Hk E.
  rewrite swap_remove_length in Hj, Hk.
  rewrite !swap_remove_nth in E by assumption. rewrite nth_last in E.
  assert (F := proj1 (NoDup_nth l d) ND).
  destruct (Nat.eqb_spec i j) as [E1|E1]; destruct (Nat.eqb_spec i k) as [E2|E2]; subst; try reflexivity.
  - assert (Q : (length l - 1 = k)%nat) by (apply F; [lia|lia|exact E]). lia.
  - assert (Q : (j = length l - 1)%nat) by (apply F; [lia|lia|exact E]). lia.
  - apply F; [lia|lia|exact E].
Qed.

Lemma swap_remove_perm : forall (l : list nat) i d, (i < length l)%nat -> NoDup l ->
  Permutation (nth i l d :: swap_remove l i d) l.
Proof.
  intros l i d Hi ND. apply NoDup_Permutation.
  - constructor; [|now apply swap_remove_NoDup].
    intro H. apply swap_remove_In in H; [|assumption|assumption]. now destruct H.
  - exact ND.
  - intros x. split.
    + intros [H|H]; [subst; now apply nth_In|]. apply swap_remove_In in H; tauto.
    + intro H. destruct (Nat.eq_dec x (nth i l d)) as [E|E]; [now left|right].
      apply swap_remove_In; tauto.
Qed.

(* flat_map when one element's image is extended *)
Lemma flat_map_ext_in : forall {A B} (f g : A -> list B) l,
  (forall x, In x l -> f x = g x) -> flat_map f l = flat_map g l.
Proof.
  induction l as [|a l IH]; intros H; simpl; [reflexivity|].
  rewrite (H a (or_introl eq_refl)), IH; [reflexivity|]. intros; apply H; now right.
Qed.

Lemma flat_map_extend : forall (f g : nat -> list nat) (l : list nat) a extra,
  NoDup l -> In a l -> g a = f a ++ extra -> (forall x, x <> a -> g x = f x) ->
  Permutation (flat_map g l) (flat_map f l ++ extra).
Proof.
  intros f g l a extra. induction l as [|h t IH]; intros ND Hin Ga Gx; [contradiction|].
  inversion ND as [|? ? Hnot ND']; subst. simpl.
  destruct (Nat.eq_dec h a) as [E|E].
  - subst h. rewrite Ga.
    rewrite (flat_map_ext_in g f t) by (intros x Hx; apply Gx; intro; subst; contradiction).
    rewrite <- !app_assoc. apply Permutation_app_head. apply Permutation_app_comm.
  - rewrite (Gx h E). rewrite <- app_assoc. apply Permutation_app_head.
    destruct Hin as [Q|Q]; [congruence|]. now apply IH.
Qed.

Lemma flat_map_perm : forall (f : nat -> list nat) l l', Permutation l l' -> Permutation (flat_map f l) (flat_map f l').
Proof.
  intros f l l' P. induction P; simpl.
  - constructor.
  - now apply Permutation_app_head.
  - rewrite !app_assoc. apply Permutation_app_tail. apply Permutation_app_comm.
  - now transitivity (flat_map f l').
Qed.

Lemma NoDup_app_inv : forall {A} (l1 l2 : list A), NoDup (l1 ++ l2) ->
  NoDup l1 /\ NoDup l2 /\ forall x, In x l1 -> ~ In x l2.
Proof.
  induction l1 as [|h t IH]; intros l2 H; simpl in *.
  - split; [constructor|]. split; [exact H|]. intros x [].
  - inversion H as [|? ? Hn ND]; subst. destruct (IH l2 ND) as [A1 [A2 A3]]. split; [|split].
    + constructor; [|exact A1]. intro Q. apply Hn. apply in_or_app. now left.
    + exact A2.
    + intros x [E|Hx]; [subst; intro Q; apply Hn; apply in_or_app; now right|now apply A3].
Qed.

Lemma NoDup_app_intro : forall {A} (l1 l2 : list A), NoDup l1 -> NoDup l2 ->
  (forall x, In x l1 -> ~ In x l2) -> NoDup (l1 ++ l2).
Proof.
  induction l1 as [|h t IH]; intros l2 H1 H2 D; simpl; [exact H2|].
  inversion H1 as [|? ? Hn ND]; subst. constructor.
  - intro Q. apply in_app_or in Q. destruct Q as [Q|Q]; [contradiction|]. apply (D h (or_introl eq_refl) Q).
  - apply IH; try assumption. intros x Hx. apply D. now right.
Qed.

Lemma NoDup_flat_map_elem : forall (f : nat -> list nat) l b, NoDup (flat_map f l) -> In b l -> NoDup (f b).
Proof.
  intros f l b. induction l as [|h t IH]; intros ND H; [contradiction|]. simpl in ND.
  apply NoDup_app_inv in ND. destruct ND as [A1 [A2 A3]].
  destruct H as [E|H]; [subst; exact A1|]. now apply IH.
Qed.

Lemma NoDup_flat_map_disjoint : forall (f : nat -> list nat) l a b x,
  NoDup (flat_map f l) -> In a l -> In b l -> In x (f a) -> In x (f b) -> a = b.
Proof.
  intros f l a b x. induction l as [|h t IH]; intros ND Ha Hb Xa Xb; [contradiction|]. simpl in ND.
  apply NoDup_app_inv in ND. destruct ND as [A1 [A2 D]].
  destruct Ha as [Ea|Ha]; destruct Hb as [Eb|Hb]; subst.
  - reflexivity.
  - exfalso. apply (D x Xa). apply in_flat_map. now exists b.
  - exfalso. apply (D x Xb). apply in_flat_map. now exists a.
  - now apply IH.
Qed.
