(* The optimisation problem the solver addresses, and executable certificate
   checkers for a solver result.  Model/definitions only: no proofs here.

     minimise   cost x = sum_i w_i (x_i - d_i)^2
     subject to s_r x_r - s_l x_l >= gap      for every constraint (l, r, gap)

   A dual certificate is a list of multipliers, one per constraint.  For ANY
   multipliers lam >= 0 and ANY point x (VpscProofs.weak_duality)
     cost y >= cost x - dual_gap x lam        for every feasible y,
   dual_gap x lam = sum_c lam_c slack_c(x) + sum_i r_i^2 / (4 w_i),
   r_i = 2 w_i (x_i - d_i) - s_i (sum_{c: r(c)=i} lam_c - sum_{c: l(c)=i} lam_c). *)
From Coq Require Import ZArith QArith Qabs Qminmax List Bool Arith.
From Labella Require Import Vpsc.Vpsc.
Import ListNotations.
Open Scope Q_scope.

Definition qsum (l : list Q) : Q := fold_right Qplus 0 l.

Section Problem.
Variable vars : list var.
Variable cons : list con.

Definition xat (x : list Q) (i : nat) : Q := nth i x 0.
Definition var_at (i : nat) : var := nth i vars dvar.

Definition cost_fn (x : list Q) : Q :=
  qsum (map (fun i => v_w (var_at i) * ((xat x i - v_des (var_at i)) * (xat x i - v_des (var_at i))))
            (seq 0 (length vars))).

Definition slack_fn (x : list Q) (c : con) : Q :=
  v_sc (var_at (c_r c)) * xat x (c_r c) - c_gap c - v_sc (var_at (c_l c)) * xat x (c_l c).

Definition feasible (x : list Q) : Prop := forall c, In c cons -> 0 <= slack_fn x c.

(* net multiplier flow into variable i *)
Fixpoint net (i : nat) (cs : list con) (lam : list Q) : Q :=
  match cs, lam with
  | c :: cs', l :: lam' =>
      (if Nat.eqb (c_r c) i then l else 0) - (if Nat.eqb (c_l c) i then l else 0) + net i cs' lam'
  | _, _ => 0
  end.

Definition resid (x lam : list Q) (i : nat) : Q :=
  2 * v_w (var_at i) * (xat x i - v_des (var_at i)) - v_sc (var_at i) * net i cons lam.

Fixpoint comp_gap (x : list Q) (cs : list con) (lam : list Q) : Q :=
  match cs, lam with
  | c :: cs', l :: lam' => l * slack_fn x c + comp_gap x cs' lam'
  | _, _ => 0
  end.

Definition dual_gap (x lam : list Q) : Q :=
  comp_gap x cons lam
  + qsum (map (fun i => resid x lam i * resid x lam i / (4 * v_w (var_at i))) (seq 0 (length vars))).

(* the instance is inside the property's quantifier: positive weights and
   scales, constraint ends are variables *)
Definition inst_ok : bool :=
  forallb (fun v => Qltb 0 (v_w v) && Qltb 0 (v_sc v)) vars
  && forallb (fun c => Nat.ltb (c_l c) (length vars) && Nat.ltb (c_r c) (length vars)) cons.

Definition lam_ok (lam : list Q) : bool :=
  Nat.eqb (length lam) (length cons) && forallb (fun l => Qle_bool 0 l) lam.

(* certificate check: x is within [bound] of the optimum *)
Definition cert_ok (x lam : list Q) (bound : Q) : bool :=
  inst_ok && lam_ok lam && Qle_bool (dual_gap x lam) bound.

(* feasibility up to eps of the constraints that are not flagged *)
Fixpoint feas_ok (x : list Q) (eps : Q) (cs : list con) (flags : list bool) : bool :=
  match cs, flags with
  | c :: cs', f :: flags' => (f || Qle_bool (- eps) (slack_fn x c)) && feas_ok x eps cs' flags'
  | [], [] => true
  | _, _ => false
  end.

End Problem.

(* ---------------------------------------- checkers on a solver state --- *)
Section OnState.
Variable vars : list var.
Variable cons : list con.

(* multipliers of the exit state: recompute lm in every block, clip at 0;
   soundness does not depend on how they are obtained *)
Definition exit_multipliers (st : state) : res (list Q) :=
  match fold_res (fun b s =>
                    match compute_lm vars cons (fun _ s' (m : unit) => (s', m)) (trav_fuel vars)
                                     (hd 0%nat (b_vars (blk_ st b))) None (s, tt) with
                    | Fuel k => Fuel k
                    | Ok (_, (s', _)) => Ok s'
                    end) (s_list st) st with
  | Fuel k => Fuel k
  | Ok st' => Ok (map (fun k => if k_act k && negb (k_uns k) then Qmax 0 (k_lm k) else 0) (s_c st'))
  end.

(* the blocks in the block list partition the variables and every variable
   points to the block that lists it (invariant I4) *)
Definition part_ok (st : state) : bool :=
  let all := flat_map (fun b => b_vars (blk_ st b)) (s_list st) in
  Nat.eqb (length all) (length vars)
  && forallb (fun v => Nat.eqb (count_occ Nat.eq_dec all v) 1) (seq 0 (length vars))
  && forallb (fun b => forallb (fun v => Nat.eqb (o_blk (vst_ st v)) b) (b_vars (blk_ st b))) (s_list st).

Definition OPT_REL : Q := 1 # 1000000.
Definition opt_bound (c : Q) : Q := OPT_REL * (1 + c).
Definition FEAS_EPS : Q := - ZERO_UPPERBOUND.

Definition state_feas_ok (st : state) : bool :=
  feas_ok vars (positions vars st) FEAS_EPS cons (flags st).
Definition state_cost_ok (st : state) (cost : Q) : bool :=
  Qeq_bool cost (cost_fn vars (positions vars st)).
Definition state_gap (st : state) : Q :=
  match exit_multipliers st with
  | Ok lam => dual_gap vars cons (positions vars st) lam
  | Fuel _ => -1
  end.
(* no flag, feasible within 1e-10, and a dual certificate with gap below
   1e-6 (1 + cost) *)
Definition kkt_ok (st : state) : bool :=
  match exit_multipliers st with
  | Ok lam =>
      let x := positions vars st in
      forallb negb (flags st) && state_feas_ok st
      && cert_ok vars cons x lam (opt_bound (cost_fn vars x))
  | Fuel _ => false
  end.
End OnState.
