(* Faithful executable model of /repo/labella/vpsc.py (the repaired solver,
   commits b524544 and b960568) over exact rationals.  Model only: no proofs here.

   Conventions
   - variables and constraints are addressed by their index in the lists
     given to Solver(vs, cs); Python object identity of Variable/Constraint
     is index equality;
   - Block objects get an id = index into the block store [s_b] (blocks are
     never freed: a removed block stays in the store, unreferenced by
     [s_list], exactly like a Python object that is still referenced by
     nothing that matters); Python identity of blocks is id equality;
   - doubles are exact rationals; the float constants -1e-4, -1e-10, 1e-4 are
     the exact values of those doubles; sys.maxsize = 2^63-1;
   - [Constraint.equality] is always False in this code base (labella never
     passes it, vpsc.py:38-40) and is omitted: every [c.equality or ...]
     reduces to its other operand and [not c.equality and ...] likewise;
   - [c.lm] is an attribute that does not exist before the first
     compute_lm; it is only read after having been written (vpsc.py:142-146
     precede every read at 183, 201, 320), so the default 0 is never observed;
   - every recursive traversal runs on fuel with the distinct result [Fuel k];
   - [s_mg] is instrumentation only (how close any compared quantity came to
     its threshold); nothing reads it. *)
From Coq Require Import ZArith QArith Qabs Qminmax List Bool Arith.
Import ListNotations.
Open Scope Q_scope.

(* ---------------------------------------------------------------- data --- *)
Record var := mkVar { v_des : Q; v_w : Q; v_sc : Q }.
Record con := mkCon { c_l : nat; c_r : nat; c_gap : Q }.

Record vst := mkVst { o_off : Q; o_blk : nat }.
Record cst := mkCst { k_act : bool; k_uns : bool; k_lm : Q }.
Record blk := mkBlk { b_vars : list nat; b_posn : Q; b_sc : Q;
                      b_AB : Q; b_AD : Q; b_A2 : Q; b_ind : nat }.
(* instrumentation: least non-zero distance of a slack/cost comparison, of a
   multiplier comparison, largest multiplier magnitude, exact ties seen *)
Record marg := mkMg { g_pos : Q; g_lm : Q; g_mag : Q; g_tie : nat; g_tlm : nat }.
Record state := mkSt { s_v : list vst; s_c : list cst; s_b : list blk;
                       s_list : list nat; s_inact : list nat; s_mg : marg }.

Inductive res (A : Type) : Type :=
| Ok (a : A)
| Fuel (k : nat).   (* 1 traversal, 2 satisfy loop, 3 solve loop *)
Arguments Ok {A} a.
Arguments Fuel {A} k.

Definition dvar := mkVar 0 1 1.
Definition dcon := mkCon 0 0 0.
Definition dvst := mkVst 0 0.
Definition dcst := mkCst false false 0.
Definition dblk := mkBlk [] 0 1 0 0 0 0.

Definition maxsize : Q := 9223372036854775807 # 1.
Definition LAGRANGIAN_TOLERANCE : Q := - (7378697629483821 # 73786976294838206464).   (* -1e-4 *)
Definition ZERO_UPPERBOUND : Q := - (7737125245533627 # 77371252455336267181195264).   (* -1e-10 *)
Definition COST_EPS : Q := 7378697629483821 # 73786976294838206464.                      (* 0.0001 *)

Definition Qltb (a b : Q) : bool := negb (Qle_bool b a).

(* Normalisation of stored rationals.  Qred's binary gcd is very slow once
   extracted over zarith integers, so [qr] divides by a Euclid gcd on fuel and
   checks the divisibility itself: whatever the fuel, [qr q == q]. *)
Fixpoint zgcd (fuel : nat) (a b : Z) : Z :=
  match fuel with
  | O => 1%Z
  | S f => if Z.eqb b 0 then a else zgcd f b (Z.modulo a b)
  end.
Definition gcd_fuel : nat := 128 * 128.
Definition qr (q : Q) : Q :=
  let n := Qnum q in
  let d := Zpos (Qden q) in
  let g := zgcd gcd_fuel d (Z.abs n) in
  if (Z.ltb 1 g && Z.eqb (Z.modulo n g) 0 && Z.eqb (Z.modulo d g) 0)%bool
  then match Z.div d g with
       | Zpos p => Qmake (Z.div n g) p
       | _ => q
       end
  else q.

Fixpoint upd {A} (l : list A) (i : nat) (x : A) : list A :=
  match l, i with
  | [], _ => []
  | _ :: t, O => x :: t
  | h :: t, S j => h :: upd t j x
  end.

Fixpoint fold_res {A S} (f : A -> S -> res S) (l : list A) (s : S) : res S :=
  match l with
  | [] => Ok s
  | a :: t => match f a s with Ok s' => fold_res f t s' | Fuel k => Fuel k end
  end.

(* ------------------------------------------------------ instrumentation --- *)
Definition mg0 : marg := mkMg maxsize maxsize 0 0 0.
Definition note_pos (d : Q) (g : marg) : marg :=
  if Qeq_bool d 0 then mkMg (g_pos g) (g_lm g) (g_mag g) (S (g_tie g)) (g_tlm g)
  else mkMg (Qmin (g_pos g) (Qabs d)) (g_lm g) (g_mag g) (g_tie g) (g_tlm g).
Definition note_lm (d : Q) (g : marg) : marg :=
  if Qeq_bool d 0 then mkMg (g_pos g) (g_lm g) (g_mag g) (g_tie g) (S (g_tlm g))
  else mkMg (g_pos g) (Qmin (g_lm g) (Qabs d)) (g_mag g) (g_tie g) (g_tlm g).
Definition note_mag (d : Q) (g : marg) : marg :=
  mkMg (g_pos g) (g_lm g) (Qmax (g_mag g) (Qabs d)) (g_tie g) (g_tlm g).
Definition set_mg (st : state) (g : marg) : state :=
  mkSt (s_v st) (s_c st) (s_b st) (s_list st) (s_inact st) g.

Section Solver.
(* the instance: Solver.__init__ (vpsc.py:337-349) builds cOut / cIn by
   appending in constraint order *)
Variable vars : list var.
Variable cons : list con.

Definition nvars := length vars.
Definition var_ (v : nat) : var := nth v vars dvar.
Definition con_ (c : nat) : con := nth c cons dcon.

Fixpoint adj_from (left : bool) (v : nat) (k : nat) (l : list con) : list nat :=
  match l with
  | [] => []
  | c :: t => if Nat.eqb (if left then c_l c else c_r c) v
              then k :: adj_from left v (S k) t else adj_from left v (S k) t
  end.
Definition cOut (v : nat) : list nat := adj_from true v 0 cons.
Definition cIn (v : nat) : list nat := adj_from false v 0 cons.

(* ----------------------------------------------------------- accessors --- *)
Definition vst_ (st : state) (v : nat) : vst := nth v (s_v st) dvst.
Definition cst_ (st : state) (c : nat) : cst := nth c (s_c st) dcst.
Definition blk_ (st : state) (b : nat) : blk := nth b (s_b st) dblk.

Definition set_v (st : state) (v : nat) (x : vst) : state :=
  mkSt (upd (s_v st) v x) (s_c st) (s_b st) (s_list st) (s_inact st) (s_mg st).
Definition set_c (st : state) (c : nat) (x : cst) : state :=
  mkSt (s_v st) (upd (s_c st) c x) (s_b st) (s_list st) (s_inact st) (s_mg st).
Definition set_b (st : state) (b : nat) (x : blk) : state :=
  mkSt (s_v st) (s_c st) (upd (s_b st) b x) (s_list st) (s_inact st) (s_mg st).
Definition set_list (st : state) (l : list nat) : state :=
  mkSt (s_v st) (s_c st) (s_b st) l (s_inact st) (s_mg st).
Definition set_inact (st : state) (l : list nat) : state :=
  mkSt (s_v st) (s_c st) (s_b st) (s_list st) l (s_mg st).

Definition set_active (st : state) (c : nat) (a : bool) : state :=
  let k := cst_ st c in set_c st c (mkCst a (k_uns k) (k_lm k)).
Definition set_unsat (st : state) (c : nat) : state :=
  let k := cst_ st c in set_c st c (mkCst (k_act k) true (k_lm k)).
Definition set_lm (st : state) (c : nat) (lm : Q) : state :=
  let k := cst_ st c in set_c st c (mkCst (k_act k) (k_uns k) lm).
Definition set_off (st : state) (v : nat) (o : Q) : state :=
  set_v st v (mkVst o (o_blk (vst_ st v))).

(* Variable.position (vpsc.py:85-88) *)
Definition position (st : state) (v : nat) : Q :=
  let x := vst_ st v in
  let b := blk_ st (o_blk x) in
  (b_sc b * b_posn b + o_off x) / v_sc (var_ v).

(* Constraint.slack (vpsc.py:48-55) *)
Definition slack (st : state) (c : nat) : Q :=
  if k_uns (cst_ st c) then maxsize
  else let k := con_ c in
       v_sc (var_ (c_r k)) * position st (c_r k) - c_gap k
       - v_sc (var_ (c_l k)) * position st (c_l k).

(* Variable.dfdv (vpsc.py:82-83) *)
Definition dfdv (st : state) (v : nat) : Q :=
  qr (2 * v_w (var_ v) * (position st v - v_des (var_ v))).

(* ------------------------------------------------------------- blocks --- *)
(* PositionStats.addVariable + getPosn (vpsc.py:25-34), on a block record;
   [off] is the variable's current offset *)
Definition ps_add (b : blk) (v : nat) (off : Q) : blk :=
  let x := var_ v in
  let ai := b_sc b / v_sc x in
  let bi := off / v_sc x in
  let wi := v_w x in
  mkBlk (b_vars b) (b_posn b) (b_sc b)
        (qr (b_AB b + wi * ai * bi)) (qr (b_AD b + wi * ai * v_des x))
        (qr (b_A2 b + wi * ai * ai)) (b_ind b).
Definition get_posn (b : blk) : Q := qr ((b_AD b - b_AB b) / b_A2 b).
Definition with_posn (b : blk) : blk :=
  mkBlk (b_vars b) (get_posn b) (b_sc b) (b_AB b) (b_AD b) (b_A2 b) (b_ind b).

(* Block.addVariable (vpsc.py:119-123) *)
Definition add_variable (st : state) (bid v : nat) : state :=
  let x := vst_ st v in
  let st1 := set_v st v (mkVst (o_off x) bid) in
  let b := blk_ st1 bid in
  let b1 := mkBlk (b_vars b ++ [v]) (b_posn b) (b_sc b) (b_AB b) (b_AD b) (b_A2 b) (b_ind b) in
  set_b st1 bid (with_posn (ps_add b1 v (o_off x))).

(* Block.__init__ (vpsc.py:113-117): a fresh block object, appended to the store *)
Definition new_block (st : state) (v : nat) : state * nat :=
  let bid := length (s_b st) in
  let st1 := set_off st v 0 in
  let b0 := mkBlk [] 0 (v_sc (var_ v)) 0 0 0 0 in
  let st2 := mkSt (s_v st1) (s_c st1) (s_b st1 ++ [b0]) (s_list st1) (s_inact st1) (s_mg st1) in
  (add_variable st2 bid v, bid).

(* Block.updateWeightedPosition (vpsc.py:125-131) *)
Definition update_weighted (st : state) (bid : nat) : state :=
  let b := blk_ st bid in
  let b0 := mkBlk (b_vars b) (b_posn b) (b_sc b) 0 0 0 (b_ind b) in
  let b1 := fold_left (fun acc v => ps_add acc v (o_off (vst_ st v))) (b_vars b) b0 in
  set_b st bid (with_posn b1).

(* Block.cost (vpsc.py:261-267); the summation order is irrelevant in Q *)
Definition block_cost (st : state) (bid : nat) : Q :=
  fold_right (fun v acc =>
                let d := position st v - v_des (var_ v) in qr (acc + d * d * v_w (var_ v)))
             0 (b_vars (blk_ st bid)).
(* Blocks.cost (vpsc.py:280-284) *)
Definition blocks_cost (st : state) : Q :=
  fold_right (fun b acc => acc + block_cost st b) 0 (s_list st).

(* Blocks.insert (vpsc.py:286-288) *)
Definition bs_insert (st : state) (bid : nat) : state :=
  let b := blk_ st bid in
  let st1 := set_b st bid (mkBlk (b_vars b) (b_posn b) (b_sc b) (b_AB b) (b_AD b) (b_A2 b)
                                 (length (s_list st))) in
  set_list st1 (s_list st1 ++ [bid]).

(* Blocks.remove (vpsc.py:290-295): swap with last, then drop the last *)
Definition bs_remove (st : state) (bid : nat) : state :=
  let swap := last (s_list st) 0%nat in
  let st1 :=
    if Nat.eqb bid swap then st
    else let i := b_ind (blk_ st bid) in
         let sb := blk_ st swap in
         let st' := set_list st (upd (s_list st) i swap) in
         set_b st' swap (mkBlk (b_vars sb) (b_posn sb) (b_sc sb) (b_AB sb) (b_AD sb) (b_A2 sb) i) in
  set_list st1 (removelast (s_list st1)).

(* Block.mergeAcross (vpsc.py:253-259): self = a absorbs b *)
Definition merge_across (st : state) (a b c : nat) (dist : Q) : state :=
  let st1 := set_active st c true in
  let st2 := fold_left (fun s v =>
                          let s' := set_off s v (qr (o_off (vst_ s v) + dist)) in
                          add_variable s' a v)
                       (b_vars (blk_ st1 b)) st1 in
  set_b st2 a (with_posn (blk_ st2 a)).

(* Blocks.merge (vpsc.py:297-306) *)
Definition bs_merge (st : state) (c : nat) : state :=
  let k := con_ c in
  let l := o_blk (vst_ st (c_l k)) in
  let r := o_blk (vst_ st (c_r k)) in
  let dist := qr (o_off (vst_ st (c_r k)) - o_off (vst_ st (c_l k)) - c_gap k) in
  if Nat.ltb (length (b_vars (blk_ st l))) (length (b_vars (blk_ st r)))
  then bs_remove (merge_across st r l c dist) l
  else bs_remove (merge_across st l r c (- dist)) r.

(* ----------------------------------------------------------- traversals --- *)
(* Variable.visitNeighbours (vpsc.py:90-97): the (constraint, next) pairs for
   which ff reaches f, in call order.  [c.active] is read when the pair is
   reached; no traversal below writes [active], so reading all flags up
   front is the same thing. *)
Definition neq_prev (prev : option nat) (nx : nat) : bool :=
  match prev with None => true | Some p => negb (Nat.eqb p nx) end.
Definition nbrs (st : state) (v : nat) (prev : option nat) : list (nat * nat) :=
  (flat_map (fun c => let nx := c_r (con_ c) in
                      if k_act (cst_ st c) && neq_prev prev nx then [(c, nx)] else []) (cOut v))
  ++
  (flat_map (fun c => let nx := c_l (con_ c) in
                      if k_act (cst_ st c) && neq_prev prev nx then [(c, nx)] else []) (cIn v)).

(* Block.compute_lm (vpsc.py:133-149).  [post c st m] is postAction. *)
Section ComputeLm.
Context {M : Type}.
Variable post : nat -> state -> M -> state * M.

Fixpoint compute_lm (fuel : nat) (v : nat) (u : option nat) (sm : state * M)
  : res (Q * (state * M)) :=
  match fuel with
  | O => Fuel 1
  | S f =>
      let st0 := fst sm in
      let d0 := dfdv st0 v in
      let st0' := set_mg st0 (note_mag d0 (s_mg st0)) in
      match fold_res
              (fun (cn : nat * nat) (acc : Q * (state * M)) =>
                 let (c, nx) := cn in
                 let (dv, sm1) := acc in
                 match compute_lm f nx (Some v) sm1 with
                 | Fuel k => Fuel k
                 | Ok (d, (st1, m1)) =>
                     let k := con_ c in
                     let (dv', st2) :=
                       if Nat.eqb nx (c_r k)
                       then (qr (dv + d * v_sc (var_ (c_l k))), set_lm st1 c d)
                       else (qr (dv + d * v_sc (var_ (c_r k))), set_lm st1 c (- d)) in
                     let (st3, m3) := post c st2 m1 in
                     Ok (dv', (st3, m3))
                 end)
              (nbrs st0 v u) (d0, (st0', snd sm)) with
      | Fuel k => Fuel k
      | Ok (dv, sm') => Ok (qr (dv / v_sc (var_ v)), sm')
      end
  end.
End ComputeLm.

Definition trav_fuel : nat := S nvars.

(* Block.findMinLM (vpsc.py:178-187) *)
Definition post_min (c : nat) (st : state) (m : option nat) : state * option nat :=
  match m with
  | None => (st, Some c)
  | Some m0 =>
      let d := k_lm (cst_ st c) - k_lm (cst_ st m0) in
      let st' := set_mg st (note_lm d (s_mg st)) in
      if Qltb (k_lm (cst_ st c)) (k_lm (cst_ st m0)) then (st', Some c) else (st', Some m0)
  end.
Definition find_min_lm (st : state) (bid : nat) : res (state * option nat) :=
  match compute_lm post_min trav_fuel (hd 0%nat (b_vars (blk_ st bid))) None (st, None) with
  | Fuel k => Fuel k
  | Ok (_, sm) => Ok sm
  end.

(* Block.populateSplitBlock (vpsc.py:151-163) *)
Fixpoint populate (fuel : nat) (bid : nat) (v : nat) (prev : option nat) (st : state) : res state :=
  match fuel with
  | O => Fuel 1
  | S f =>
      fold_res (fun (cn : nat * nat) (s : state) =>
                  let (c, nx) := cn in
                  let k := con_ c in
                  let o := o_off (vst_ s v) in
                  let o' := if Nat.eqb nx (c_r k) then qr (o + c_gap k) else qr (o - c_gap k) in
                  let s1 := add_variable (set_off s nx o') bid nx in
                  populate f bid nx (Some v) s1)
               (nbrs st v prev) st
  end.

(* Block.createSplitBlock, Block.split (vpsc.py:232-244) *)
Definition create_split (st : state) (v : nat) : res (state * nat) :=
  let (st1, bid) := new_block st v in
  match populate trav_fuel bid v None st1 with
  | Fuel k => Fuel k
  | Ok st2 => Ok (st2, bid)
  end.
Definition block_split (st : state) (c : nat) : res (state * (nat * nat)) :=
  let st0 := set_active st c false in
  match create_split st0 (c_l (con_ c)) with
  | Fuel k => Fuel k
  | Ok (st1, lb) =>
      match create_split st1 (c_r (con_ c)) with
      | Fuel k => Fuel k
      | Ok (st2, rb) => Ok (st2, (lb, rb))
      end
  end.

(* Block.findPath (vpsc.py:208-221) with the visitor of findMinLMBetween
   (vpsc.py:196-203) *)
Definition visit_between (c nx : nat) (st : state) (m : option nat) : state * option nat :=
  if Nat.eqb (c_r (con_ c)) nx then post_min c st m else (st, m).

Fixpoint find_path (fuel : nat) (v : nat) (prev : option nat) (to : nat)
         (sm : state * option nat) : res (bool * (state * option nat)) :=
  match fuel with
  | O => Fuel 1
  | S f =>
      fold_res (fun (cn : nat * nat) (acc : bool * (state * option nat)) =>
                  let (c, nx) := cn in
                  let (found, sm1) := acc in
                  if found then Ok acc
                  else if Nat.eqb nx to
                       then Ok (true, visit_between c nx (fst sm1) (snd sm1))
                       else match find_path f nx (Some v) to sm1 with
                            | Fuel k => Fuel k
                            | Ok (true, sm2) => Ok (true, visit_between c nx (fst sm2) (snd sm2))
                            | Ok (false, sm2) => Ok (false, sm2)
                            end)
               (nbrs (fst sm) v prev) (false, sm)
  end.

(* Block.findMinLMBetween (vpsc.py:189-206) *)
Definition find_min_lm_between (st : state) (lv rv : nat) : res (state * option nat) :=
  match compute_lm (fun _ s (m : unit) => (s, m)) trav_fuel lv None (st, tt) with
  | Fuel k => Fuel k
  | Ok (_, (st1, _)) =>
      match find_path trav_fuel lv None rv (st1, None) with
      | Fuel k => Fuel k
      | Ok (_, sm) => Ok sm
      end
  end.

(* Block.isActiveDirectedPathBetween (vpsc.py:223-230): cOut scanned from the
   last element, stops at the first success *)
Fixpoint is_adp (fuel : nat) (st : state) (u v : nat) : res bool :=
  if Nat.eqb u v then Ok true
  else match fuel with
       | O => Fuel 1
       | S f =>
           fold_res (fun (c : nat) (found : bool) =>
                       if found then Ok true
                       else if k_act (cst_ st c) then is_adp f st (c_r (con_ c)) v
                            else Ok false)
                    (rev (cOut u)) false
       end.

(* -------------------------------------------------------------- Blocks --- *)
(* Blocks.__init__ (vpsc.py:271-278).  Block ids are labels for Python object
   identity, their numbering is unobservable; block i holds variable i. *)
Definition init_block (i : nat) : blk :=
  with_posn (ps_add (mkBlk [i] 0 (v_sc (var_ i)) 0 0 0 i) i 0).
Definition init_state : state :=
  let ids := seq 0 nvars in
  mkSt (map (fun i => mkVst 0 i) ids)
       (map (fun _ => mkCst false false 0) cons)
       (map init_block ids) ids (seq 0 (length cons)) mg0.

(* Blocks.split (vpsc.py:316-329).  `for b in self._list` iterates over the
   list OBJECT bound at loop entry (L0).  The first split appends its two new
   blocks to L0 in place (insert) and overwrites the already visited slot of
   the split block (remove), then remove rebinds self._list to a copy; from
   then on L0 is frozen.  So the loop visits: the blocks present at entry, in
   order, then the two blocks created by the FIRST split (left, right); blocks
   created by later splits are not visited in this call.  The accumulator
   carries the blocks still to be appended to the visit list and the running
   number of splits (the method's return value, vpsc.py:318,328,329). *)
Definition split_step (bid : nat) (acc : state * (list nat * nat)) : res (state * (list nat * nat)) :=
  let '(st, (extra, did)) := acc in
  match find_min_lm st bid with
  | Fuel k => Fuel k
  | Ok (st1, None) => Ok (st1, (extra, did))
  | Ok (st1, Some v) =>
      let lm := k_lm (cst_ st1 v) in
      let st1' := set_mg st1 (note_lm (lm - LAGRANGIAN_TOLERANCE) (s_mg st1)) in
      if Qltb lm LAGRANGIAN_TOLERANCE then
        let b := o_blk (vst_ st1' (c_l (con_ v))) in
        match block_split st1' v with
        | Fuel k => Fuel k
        | Ok (st2, (lb, rb)) =>
            let st3 := bs_remove (bs_insert (bs_insert st2 lb) rb) b in
            let st4 := set_inact st3 (s_inact st3 ++ [v]) in
            Ok (st4, (match did with O => [lb; rb] | S _ => extra end, S did))
        end
      else Ok (st1', (extra, did))
  end.
Definition blocks_split (st : state) : res (state * nat) :=
  let st0 := fold_left update_weighted (s_list st) st in     (* updateBlockPositions *)
  match fold_res split_step (s_list st0) (st0, ([], O)) with
  | Fuel k => Fuel k
  | Ok (st1, (extra, k1)) =>
      (* k1 >= 1 whenever extra is non-empty, so the second pass never extends the visit list *)
      match fold_res split_step extra (st1, ([], k1)) with
      | Fuel k => Fuel k
      | Ok (st2, (_, k2)) => Ok (st2, k2)       (* `return splits` *)
      end
  end.

(* -------------------------------------------------------------- Solver --- *)
(* Solver.mostViolated (vpsc.py:366-388) *)
Fixpoint mv_scan (st : state) (l : list nat) (i : nat) (acc : Q * option nat * nat * marg)
  : Q * option nat * nat * marg :=
  match l with
  | [] => acc
  | c :: t =>
      let '(ms, v, dp, g) := acc in
      if k_uns (cst_ st c) then mv_scan st t (S i) acc
      else let s := slack st c in
           let g' := note_pos (s - ms) g in
           if Qltb s ms then mv_scan st t (S i) (s, Some c, i, g')
           else mv_scan st t (S i) (ms, v, dp, g')
  end.
Definition most_violated (st : state) : state * option nat :=
  let l := s_inact st in
  let n := length l in
  let '(ms, v, dp, g) := mv_scan st l 0 (maxsize, None, n, s_mg st) in
  match v with
  | None => (set_mg st g, None)
  | Some c =>
      let g' := note_pos (ms - ZERO_UPPERBOUND) g in
      let st1 := set_mg st g' in
      if negb (Nat.eqb dp n) && (Qltb ms ZERO_UPPERBOUND && negb (k_act (cst_ st c)))
      then (set_inact st1 (removelast (upd l dp (last l 0%nat))), Some c)
      else (st1, Some c)
  end.

(* the body of the while loop of Solver.satisfy (vpsc.py:398-422), without the
   trailing v = mostViolated() which every path performs *)
Definition satisfy_body (st : state) (v : nat) : res state :=
  let k := con_ v in
  let lb := o_blk (vst_ st (c_l k)) in
  let rb := o_blk (vst_ st (c_r k)) in
  if negb (Nat.eqb lb rb) then Ok (bs_merge st v)
  else
    match is_adp trav_fuel st (c_r k) (c_l k) with
    | Fuel e => Fuel e
    | Ok true => Ok (set_unsat st v)                     (* cycle found *)
    | Ok false =>
        match find_min_lm_between st (c_l k) (c_r k) with
        | Fuel e => Fuel e
        | Ok (st1, None) => Ok (set_unsat st1 v)
        | Ok (st1, Some c) =>
            match block_split st1 c with
            | Fuel e => Fuel e
            | Ok (st2, (nl, nr)) =>
                let st3 := bs_remove (bs_insert (bs_insert st2 nl) nr) lb in
                let st4 := set_inact st3 (s_inact st3 ++ [c]) in
                let s := slack st4 v in
                let st5 := set_mg st4 (note_pos s (s_mg st4)) in
                if Qle_bool 0 s then Ok (set_inact st5 (s_inact st5 ++ [v]))
                else Ok (bs_merge st5 v)
            end
        end
    end.

Fixpoint satisfy_loop (fuel : nat) (st : state) (v : option nat) : res state :=
  match v with
  | None => Ok st
  | Some c =>
      if Qltb (slack st c) ZERO_UPPERBOUND && negb (k_act (cst_ st c)) then
        match fuel with
        | O => Fuel 2
        | S f =>
            match satisfy_body st c with
            | Fuel e => Fuel e
            | Ok st1 => let (st2, v') := most_violated st1 in satisfy_loop f st2 v'
            end
        end
      else Ok st
  end.

(* Solver.satisfy (vpsc.py:390-422); self.bs is created by the caller.  The
   second component is self.nsplits. *)
Definition satisfy (fuel : nat) (st : state) : res (state * nat) :=
  match blocks_split st with
  | Fuel e => Fuel e
  | Ok (st1, ns) =>
      let (st2, v) := most_violated st1 in
      match satisfy_loop fuel st2 v with
      | Fuel e => Fuel e
      | Ok st3 => Ok (st3, ns)
      end
  end.

(* Solver.solve (vpsc.py:424-439):
     while abs(lastcost - cost) > 0.0001 or (self.nsplits and stalled < len(self.cs)):
         stalled = stalled + 1 if abs(lastcost - cost) <= 0.0001 else 0
         self.satisfy(); lastcost = cost; cost = self.bs.cost() *)
Fixpoint solve_loop (fuel sfuel : nat) (st : state) (lastcost cost : Q) (nsplits stalled nsat : nat)
  : res (state * Q * nat) :=
  let d := Qabs (lastcost - cost) - COST_EPS in
  let st' := set_mg st (note_pos d (s_mg st)) in
  let moving := Qltb COST_EPS (Qabs (lastcost - cost)) in
  if moving || (negb (Nat.eqb nsplits 0) && Nat.ltb stalled (length cons)) then
    match fuel with
    | O => Fuel 3
    | S f =>
        let stalled' := if moving then O else S stalled in
        match satisfy sfuel st' with
        | Fuel e => Fuel e
        | Ok (st1, ns) => solve_loop f sfuel st1 cost (blocks_cost st1) ns stalled' (S nsat)
        end
    end
  else Ok (st', cost, nsat).

Definition solve_with (fuel sfuel : nat) : res (state * Q * nat) :=
  match satisfy sfuel init_state with
  | Fuel e => Fuel e
  | Ok (st, ns) => solve_loop fuel sfuel st maxsize (blocks_cost st) ns O 1
  end.

(* default fuels: far above anything observed (satisfy iterations are at most a
   small multiple of the number of constraints; solve needs a handful of
   rounds, and at most len(cs) consecutive stalled ones) *)
Definition sat_fuel : nat := 64 + 8 * (length cons + 1) * (nvars + 1).
Definition solve_fuel : nat := 200 + 2 * length cons.
Definition solve : res (state * Q * nat) := solve_with solve_fuel sat_fuel.

Definition positions (st : state) : list Q := map (position st) (seq 0 nvars).
Definition flags (st : state) : list bool := map (fun k => k_uns k) (s_c st).

End Solver.
