(* The eleven instances of /repo/tests/test_vpsc.py as model inputs (data only),
   and a layer chain as labella/removeOverlap.py builds it (Layout/Layer.v). *)
From Coq Require Import ZArith QArith List Bool.
From Labella Require Import Vpsc.Vpsc.
From Labella Require Layout.Layer.
Import ListNotations.
Open Scope Q_scope.

Definition ts_no_splits : list var * list con :=
  ([mkVar (2 # 1) (1 # 1) (1 # 1); mkVar (9 # 1) (1 # 1) (1 # 1); mkVar (9 # 1) (1 # 1) (1 # 1); mkVar (9 # 1) (1 # 1) (1 # 1); mkVar (2 # 1) (1 # 1) (1 # 1)],
   [mkCon 0 4 (3 # 1); mkCon 0 1 (3 # 1); mkCon 1 2 (3 # 1); mkCon 2 4 (3 # 1); mkCon 3 4 (3 # 1)]).
Definition ts_simple_scale : list var * list con :=
  ([mkVar (0 # 1) (1 # 1) (2 # 1); mkVar (0 # 1) (1 # 1) (1 # 1)],
   [mkCon 0 1 (2 # 1)]).
Definition ts_simple_scale_2 : list var * list con :=
  ([mkVar (1 # 1) (1 # 1) (3 # 1); mkVar (1 # 1) (1 # 1) (2 # 1); mkVar (1 # 1) (1 # 1) (4 # 1)],
   [mkCon 0 1 (2 # 1); mkCon 1 2 (2 # 1)]).
Definition ts_nontrivial_merging : list var * list con :=
  ([mkVar (4 # 1) (1 # 1) (1 # 1); mkVar (6 # 1) (1 # 1) (1 # 1); mkVar (9 # 1) (1 # 1) (1 # 1); mkVar (2 # 1) (1 # 1) (1 # 1); mkVar (5 # 1) (1 # 1) (1 # 1)],
   [mkCon 0 2 (3 # 1); mkCon 0 3 (3 # 1); mkCon 1 4 (3 # 1); mkCon 2 4 (3 # 1); mkCon 2 3 (3 # 1); mkCon 3 4 (3 # 1)]).
Definition ts_next : list var * list con :=
  ([mkVar (5 # 1) (1 # 1) (1 # 1); mkVar (6 # 1) (1 # 1) (1 # 1); mkVar (7 # 1) (1 # 1) (1 # 1); mkVar (4 # 1) (1 # 1) (1 # 1); mkVar (3 # 1) (1 # 1) (1 # 1)],
   [mkCon 0 4 (3 # 1); mkCon 1 2 (3 # 1); mkCon 2 3 (3 # 1); mkCon 2 4 (3 # 1); mkCon 3 4 (3 # 1)]).
Definition ts_split_block_activate_different_constraint : list var * list con :=
  ([mkVar (7 # 1) (1 # 1) (1 # 1); mkVar (1 # 1) (1 # 1) (1 # 1); mkVar (6 # 1) (1 # 1) (1 # 1); mkVar (0 # 1) (1 # 1) (1 # 1); mkVar (2 # 1) (1 # 1) (1 # 1)],
   [mkCon 0 3 (3 # 1); mkCon 0 1 (3 # 1); mkCon 1 4 (3 # 1); mkCon 2 4 (3 # 1); mkCon 2 3 (3 # 1); mkCon 3 4 (3 # 1)]).
Definition ts_nontrivial_split : list var * list con :=
  ([mkVar (0 # 1) (1 # 1) (1 # 1); mkVar (9 # 1) (1 # 1) (1 # 1); mkVar (1 # 1) (1 # 1) (1 # 1); mkVar (9 # 1) (1 # 1) (1 # 1); mkVar (5 # 1) (1 # 1) (1 # 1); mkVar (1 # 1) (1 # 1) (1 # 1); mkVar (2 # 1) (1 # 1) (1 # 1); mkVar (1 # 1) (1 # 1) (1 # 1); mkVar (6 # 1) (1 # 1) (1 # 1); mkVar (3 # 1) (1 # 1) (1 # 1)],
   [mkCon 0 3 (3 # 1); mkCon 1 8 (3 # 1); mkCon 1 6 (3 # 1); mkCon 2 6 (3 # 1); mkCon 3 5 (3 # 1); mkCon 3 6 (3 # 1); mkCon 3 7 (3 # 1); mkCon 4 8 (3 # 1); mkCon 4 7 (3 # 1); mkCon 5 8 (3 # 1); mkCon 5 7 (3 # 1); mkCon 5 8 (3 # 1); mkCon 6 9 (3 # 1); mkCon 7 8 (3 # 1); mkCon 7 9 (3 # 1); mkCon 8 9 (3 # 1)]).
Definition ts_t6 : list var * list con :=
  ([mkVar (7 # 1) (1 # 1) (1 # 1); mkVar (0 # 1) (1 # 1) (1 # 1); mkVar (3 # 1) (1 # 1) (1 # 1); mkVar (1 # 1) (1 # 1) (1 # 1); mkVar (4 # 1) (1 # 1) (1 # 1)],
   [mkCon 0 3 (3 # 1); mkCon 0 2 (3 # 1); mkCon 1 4 (3 # 1); mkCon 1 4 (3 # 1); mkCon 2 3 (3 # 1); mkCon 3 4 (3 # 1)]).
Definition ts_t7 : list var * list con :=
  ([mkVar (4 # 1) (1 # 1) (1 # 1); mkVar (2 # 1) (1 # 1) (1 # 1); mkVar (3 # 1) (1 # 1) (1 # 1); mkVar (1 # 1) (1 # 1) (1 # 1); mkVar (8 # 1) (1 # 1) (1 # 1)],
   [mkCon 0 4 (3 # 1); mkCon 0 2 (3 # 1); mkCon 1 3 (3 # 1); mkCon 2 3 (3 # 1); mkCon 2 4 (3 # 1); mkCon 3 4 (3 # 1)]).
Definition ts_t8 : list var * list con :=
  ([mkVar (3 # 1) (1 # 1) (1 # 1); mkVar (4 # 1) (1 # 1) (1 # 1); mkVar (0 # 1) (1 # 1) (1 # 1); mkVar (5 # 1) (1 # 1) (1 # 1); mkVar (6 # 1) (1 # 1) (1 # 1)],
   [mkCon 0 1 (3 # 1); mkCon 0 2 (3 # 1); mkCon 1 2 (3 # 1); mkCon 1 4 (3 # 1); mkCon 2 3 (3 # 1); mkCon 2 3 (3 # 1); mkCon 3 4 (3 # 1); mkCon 3 4 (3 # 1)]).
Definition ts_t9 : list var * list con :=
  ([mkVar (8 # 1) (1 # 1) (1 # 1); mkVar (2 # 1) (1 # 1) (1 # 1); mkVar (6 # 1) (1 # 1) (1 # 1); mkVar (5 # 1) (1 # 1) (1 # 1); mkVar (3 # 1) (1 # 1) (1 # 1)],
   [mkCon 0 4 (3 # 1); mkCon 0 3 (3 # 1); mkCon 1 2 (3 # 1); mkCon 1 4 (3 # 1); mkCon 2 3 (3 # 1); mkCon 2 4 (3 # 1); mkCon 3 4 (3 # 1)]).

Definition test_suite : list (list var * list con) :=
  [ts_no_splits; ts_simple_scale; ts_simple_scale_2; ts_nontrivial_merging; ts_next; ts_split_block_activate_different_constraint; ts_nontrivial_split; ts_t6; ts_t7; ts_t8; ts_t9].

(* every instance: solve returns, the result is certified optimal and the
   structural checkers accept it *)
From Labella Require Vpsc.Kkt.
Definition solved_ok (i : list var * list con) : bool :=
  match solve (fst i) (snd i) with
  | Ok (st, c, _) => Kkt.kkt_ok (fst i) (snd i) st && Kkt.part_ok (fst i) st && Kkt.state_cost_ok (fst i) st c
  | Fuel _ => false
  end.

(* five items between walls at 0 and 100 (two labels in conflict, stubs) *)
Definition layer_opts : Layer.lopts := Layer.mkOpts 3 2 (Some 0) (Some 100).
Definition layer_items : list Layer.item :=
  [Layer.mkItem 10 10 false; Layer.mkItem 12 10 false; Layer.mkItem 40 20 false;
   Layer.mkItem 41 10 true; Layer.mkItem 95 10 true].
