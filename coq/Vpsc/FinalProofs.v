(* Unconditional statements about solve (whenever it returns), in terms of
   the problem definitions of Vpsc/Kkt.v; first for all executions (from
   Vpsc/General.v), then the earlier merge-only versions. *)
From Coq Require Import ZArith QArith Qabs Qminmax List Bool Arith Lia Lqa Permutation.
From Labella Require Import Vpsc.Vpsc Vpsc.VpscBase Vpsc.InvBase Vpsc.InvProofs Vpsc.MergeOnly
  Vpsc.Tree Vpsc.SplitProofs Vpsc.General Vpsc.Kkt Vpsc.KktProofs Vpsc.CostProofs.
Import ListNotations.
Open Scope Q_scope.

Section Final.
Variable vars : list var.
Variable cons : list con.

Lemma inst_ok_idx : inst_ok vars cons = true -> idx_ok vars cons.
Proof.
  intros H c Hc. apply inst_ok_spec in H. destruct H as [_ H]. apply H. unfold con_. now apply nth_In.
Qed.

Lemma inst_ok_sc : inst_ok vars cons = true -> sc_ok vars.
Proof.
  intros H v Hv. apply inst_ok_spec in H. destruct H as [H _].
  assert (Q : 0 < v_sc (var_ vars v)) by (apply H; unfold var_; now apply nth_In). lra.
Qed.

Lemma slack_is_slack_fn : forall st j, idx_ok vars cons -> (j < length cons)%nat ->
  k_uns (cst_ st j) = false -> slack vars cons st j = slack_fn vars (positions vars st) (con_ cons j).
Proof.
  intros st j IDX Hj Hu. unfold slack. rewrite Hu. unfold slack_fn. destruct (IDX j Hj) as [Hl Hr].
  rewrite !xat_positions by assumption. reflexivity.
Qed.

Lemma flags_nth : forall st j, (j < length (s_c st))%nat -> nth j (flags st) true = k_uns (cst_ st j).
Proof.
  intros st j Hj. unfold flags, cst_.
  rewrite (nth_indep _ true (k_uns dcst)) by (now rewrite map_length).
  now rewrite (map_nth (fun k => k_uns k)).
Qed.

(* C05_feasible_at_exit, all executions (acyclic or cyclic instances): when
   solve returns, every constraint not flagged unsatisfiable holds within 1e-10 *)
Theorem feasible_at_exit : forall st c k,
  inst_ok vars cons = true -> solve vars cons = Ok (st, c, k) ->
  forall j, (j < length cons)%nat -> nth j (flags st) true = false ->
            - FEAS_EPS <= slack_fn vars (positions vars st) (nth j cons dcon).
Proof.
  intros st c k IO H j Hj Hf.
  assert (IDX := inst_ok_idx IO). assert (SC := inst_ok_sc IO).
  destruct (solve_inv vars cons st c k H IDX SC) as [[W _] EX].
  rewrite flags_nth in Hf by (rewrite (wf_nc _ _ _ _ W); exact Hj).
  change (nth j cons dcon) with (con_ cons j). rewrite <- slack_is_slack_fn by assumption.
  assert (Z : - FEAS_EPS == ZERO_UPPERBOUND) by (unfold FEAS_EPS; ring). rewrite Z.
  destruct (k_act (cst_ st j)) eqn:Ha.
  - rewrite (active_slack_zero vars cons None st j W IDX SC Hj Ha Hf). apply Qlt_le_weak. apply ZUB_neg.
  - apply EX; [|exact Hf]. apply (wf_I1 _ _ _ _ W j Hj Ha Hf). discriminate.
Qed.

(* C05_cost_is_cost_of_positions, all executions *)
Theorem cost_identity : forall st c k,
  inst_ok vars cons = true -> solve vars cons = Ok (st, c, k) -> c == cost_fn vars (positions vars st).
Proof.
  intros st c k IO H.
  destruct (solve_inv vars cons st c k H (inst_ok_idx IO) (inst_ok_sc IO)) as [[W _] _].
  rewrite (solve_cost vars cons st c k H). apply cost_of_perm.
  apply Permutation_sym. exact (wf_part _ _ _ _ W).
Qed.

(* the invariants at exit: I1, I2, I4, blockInd (WF) and I3 (trees) *)
Theorem invariants_at_exit : forall st c k,
  inst_ok vars cons = true -> solve vars cons = Ok (st, c, k) -> WF vars cons None st /\ I3 cons st.
Proof.
  intros st c k IO H. exact (proj1 (solve_inv vars cons st c k H (inst_ok_idx IO) (inst_ok_sc IO))).
Qed.

(* C05_feasible_at_exit for merge-only executions (acyclic or not): every
   constraint not flagged unsatisfiable holds within 1e-10 *)
Theorem feasible_merge_only : forall st c k,
  inst_ok vars cons = true -> solve vars cons = Ok (st, c, k) ->
  length (s_b st) = length vars ->
  forall j, (j < length cons)%nat -> nth j (flags st) true = false ->
            - FEAS_EPS <= slack_fn vars (positions vars st) (nth j cons dcon).
Proof.
  intros st c k IO H Hnb j Hj Hf.
  assert (IDX := inst_ok_idx IO). assert (SC := inst_ok_sc IO).
  destruct (solve_merge_only_inv vars cons st c k H IDX SC Hnb) as [W EX].
  rewrite flags_nth in Hf by (rewrite (wf_nc _ _ _ _ W); exact Hj).
  change (nth j cons dcon) with (con_ cons j). rewrite <- slack_is_slack_fn by assumption.
  assert (Z : - FEAS_EPS == ZERO_UPPERBOUND) by (unfold FEAS_EPS; ring). rewrite Z.
  destruct (k_act (cst_ st j)) eqn:Ha.
  - rewrite (active_slack_zero vars cons None st j W IDX SC Hj Ha Hf). apply Qlt_le_weak. apply ZUB_neg.
  - apply EX; [|exact Hf]. apply (wf_I1 _ _ _ _ W j Hj Ha Hf). discriminate.
Qed.

(* C05_cost_is_cost_of_positions for merge-only executions *)
Theorem cost_merge_only : forall st c k,
  inst_ok vars cons = true -> solve vars cons = Ok (st, c, k) ->
  length (s_b st) = length vars -> c == cost_fn vars (positions vars st).
Proof.
  intros st c k IO H Hnb.
  destruct (solve_merge_only_inv vars cons st c k H (inst_ok_idx IO) (inst_ok_sc IO) Hnb) as [W _].
  rewrite (solve_cost vars cons st c k H). apply cost_of_perm.
  apply Permutation_sym. exact (wf_part _ _ _ _ W).
Qed.

(* the structural invariants themselves, at exit *)
Theorem invariants_merge_only : forall st c k,
  inst_ok vars cons = true -> solve vars cons = Ok (st, c, k) ->
  length (s_b st) = length vars -> WF vars cons None st.
Proof.
  intros st c k IO H Hnb.
  exact (proj1 (solve_merge_only_inv vars cons st c k H (inst_ok_idx IO) (inst_ok_sc IO) Hnb)).
Qed.
End Final.
