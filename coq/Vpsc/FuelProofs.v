(* Fuel: the recursive traversals never run out of fuel in a state that
   satisfies the invariants (their recursion depth is bounded by the number of
   variables because the active constraints of a block form a tree); and a
   satisfy loop that meets no split-between needs at most
   (number of blocks + number of unflagged constraints) iterations. *)
From Coq Require Import ZArith QArith Qabs Qminmax List Bool Arith Lia Lqa Permutation.
From Labella Require Import Vpsc.Vpsc Vpsc.VpscBase Vpsc.InvBase Vpsc.InvProofs Vpsc.MergeOnly
  Vpsc.Tree Vpsc.SplitProofs Vpsc.PathProofs Vpsc.General.
Import ListNotations.
Open Scope Q_scope.

Section Fuel.
Variable vars : list var.
Variable cons : list con.
Let n := length vars.
Let m := length cons.

(* ---------------------------------------- reach needs |E| + 1 fuel --- *)
Lemma children_ext_len : forall rec rec' v l r,
  children rec v l = Ok r ->
  (forall nx e, rec nx = Ok e -> (length e < length r)%nat -> rec' nx = Ok e) ->
  children rec' v l = Ok r.
Proof.
  intros rec rec' v l. induction l as [|[c nx] t IH]; intros r Hc H; simpl in *; [exact Hc|].
  destruct (rec nx) as [e|k] eqn:E; [|discriminate].
  destruct (children rec v t) as [r0|k] eqn:E2; [|discriminate]. inversion Hc; subst r.
  rewrite (H nx e E) by (simpl; rewrite app_length; lia).
  rewrite (IH r0 eq_refl); [reflexivity|]. intros nx' e' He' Hl. apply H; [exact He'|]. simpl. rewrite app_length. lia.
Qed.

Lemma reach_fuel_size : forall f st v p E, reach cons f st v p = Ok E -> reach cons (S (length E)) st v p = Ok E.
Proof.
  induction f as [|f IH]; intros st v p E H; [discriminate|].
  cbn [reach] in *. eapply children_ext_len; [exact H|].
  intros nx e He Hl. cbv beta in *. apply IH in He. apply (reach_le cons (S (length e))); [lia|exact He].
Qed.

Lemma reach_verts_lt : forall f st v p E, idx_ok vars cons -> reach cons f st v p = Ok E ->
  forall y, In y (verts E) -> (y < n)%nat.
Proof.
  intros f st v p E IDX H y Hy. unfold verts in Hy. apply in_map_iff in Hy. destruct Hy as (t & Et & Ht).
  destruct (reach_edge cons f st v p E t H Ht) as [q Hq]. apply nbrs_spec in Hq.
  destruct Hq as (Hc & _ & _ & Hends). fold m in Hc. destruct (IDX (t_c t) Hc) as [A B]. fold n in A, B.
  rewrite <- Et. destruct Hends as [[_ Q]|[_ Q]]; rewrite Q; assumption.
Qed.

Lemma tree_fuel : forall st r E, idx_ok vars cons -> (r < n)%nat -> tree cons st r E ->
  reach cons (trav_fuel vars) st r None = Ok E.
Proof.
  intros st r E IDX Hr [[f Hf] ND].
  assert (Hlt : forall y, In y (r :: verts E) -> (y < n)%nat).
  { intros y [Q|Q]; [now subst|]. eapply reach_verts_lt; eassumption. }
  assert (Len : (length (r :: verts E) <= n)%nat).
  { rewrite <- (seq_length n 0). apply NoDup_incl_length; [exact ND|]. intros y Hy. apply in_seq. specialize (Hlt y Hy). lia. }
  simpl in Len. unfold verts in Len. rewrite map_length in Len.
  apply (reach_le cons (S (length E))); [unfold trav_fuel, nvars; fold n; lia|]. eapply reach_fuel_size; exact Hf.
Qed.

(* --------------------------- the traversals follow reach's recursion --- *)
Definition act_eq (s st : state) : Prop := forall c, k_act (cst_ s c) = k_act (cst_ st c).

Lemma lm_eq_act : forall s s', lm_eq s s' -> forall c, k_act (cst_ s' c) = k_act (cst_ s c).
Proof. intros s s' (_ & _ & _ & _ & _ & A) c. apply A. Qed.

Lemma compute_lm_ok : forall {M} (post : nat -> state -> M -> state * M),
  (forall c s mm, lm_eq s (fst (post c s mm))) ->
  forall f st v u E s mm, act_eq s st -> reach cons f st v u = Ok E ->
  exists r, compute_lm vars cons post f v u (s, mm) = Ok r.
Proof.
  intros M post Hpost. induction f as [|f IH]; intros st v u E s mm Ha H; [discriminate|].
  cbn [compute_lm reach] in *. cbn [fst snd].
  rewrite (nbrs_act_ext cons st s v u Ha).
  match goal with |- context [fold_res ?F ?L ?A0] => set (step := F); set (acc0 := A0) end.
  assert (G : forall l E0 acc, children (fun nx => reach cons f st nx (Some v)) v l = Ok E0 ->
              act_eq (fst (snd acc)) st -> exists acc', fold_res step l acc = Ok acc').
  { induction l as [|[c nx] l IHl]; intros E0 acc Hc Hacc; simpl.
    - now exists acc.
    - simpl in Hc. destruct (reach cons f st nx (Some v)) as [e|k] eqn:Er; [|discriminate].
      destruct (children (fun nx0 => reach cons f st nx0 (Some v)) v l) as [r0|k] eqn:Ec; [|discriminate].
      destruct acc as [dv [s0 m0]]. unfold step at 1. cbn [fst snd] in *.
      destruct (IH st nx (Some v) e s0 m0 Hacc Er) as [[d [s2 m2]] E2]. rewrite E2.
      assert (L2 := compute_lm_lm_eq vars cons post Hpost _ _ _ _ _ _ _ _ E2).
      set (sx := if Nat.eqb nx (c_r (con_ cons c)) then set_lm s2 c d else set_lm s2 c (- d)).
      assert (Lx : lm_eq s0 sx) by (eapply lm_eq_trans; [exact L2|unfold sx; destruct (Nat.eqb nx (c_r (con_ cons c))); apply set_lm_lm_eq]).
      assert (Lp : lm_eq s0 (fst (post c sx m2))) by (eapply lm_eq_trans; [exact Lx|apply Hpost]).
      assert (Ap : act_eq (fst (post c sx m2)) st) by (intros k; rewrite (lm_eq_act _ _ Lp k); apply Hacc).
      unfold sx in *. destruct (Nat.eqb nx (c_r (con_ cons c)));
        [destruct (post c (set_lm s2 c d) m2) as [s3 m3] eqn:E3|destruct (post c (set_lm s2 c (- d)) m2) as [s3 m3] eqn:E3];
        cbn [fst] in Ap; apply (IHl r0 _ eq_refl); exact Ap. }
  destruct (G _ E acc0 H) as [[dv sm'] E1].
  { unfold acc0. cbn [fst snd]. intros k. exact (Ha k). }
  rewrite E1. eexists. reflexivity.
Qed.

Lemma populate_c : forall f bid v prev s s', populate vars cons f bid v prev s = Ok s' -> s_c s' = s_c s.
Proof.
  induction f as [|f IH]; intros bid v prev s s' H; [discriminate|]. cbn [populate] in H.
  match type of H with fold_res ?F ?L ?S0 = _ =>
    apply (fold_res_inv (fun a b => s_c b = s_c a) F L (fun x => eq_refl) (fun a b c (X : s_c b = s_c a) (Y : s_c c = s_c b) => eq_trans Y X)) in H end;
    [exact H|].
  intros [c nx] s0 s1 _ Hs. apply IH in Hs. rewrite Hs.
  match goal with |- s_c (add_variable vars ?S bid nx) = _ => destruct (add_variable_frame vars S bid nx) as (_ & _ & C & _) end.
  cbv zeta in C. rewrite C. reflexivity.
Qed.

Lemma populate_ok : forall f st bid v prev E s, act_eq s st -> reach cons f st v prev = Ok E ->
  exists s', populate vars cons f bid v prev s = Ok s'.
Proof.
  induction f as [|f IH]; intros st bid v prev E s Ha H; [discriminate|].
  cbn [populate reach] in *. rewrite (nbrs_act_ext cons st s v prev Ha).
  match goal with |- context [fold_res ?F ?L ?A0] => set (step := F) end.
  assert (G : forall l E0 s0, children (fun nx => reach cons f st nx (Some v)) v l = Ok E0 ->
              act_eq s0 st -> exists s1, fold_res step l s0 = Ok s1).
  { induction l as [|[c nx] l IHl]; intros E0 s0 Hc Hs0; simpl; [now exists s0|].
    simpl in Hc. destruct (reach cons f st nx (Some v)) as [e|k] eqn:Er; [|discriminate].
    destruct (children (fun nx0 => reach cons f st nx0 (Some v)) v l) as [r0|k] eqn:Ec; [|discriminate].
    unfold step at 1.
    set (sa := add_variable vars (set_off s0 nx _) bid nx).
    assert (Asa : act_eq sa st).
    { intros k. unfold sa, cst_. destruct (add_variable_frame vars (set_off s0 nx (if Nat.eqb nx (c_r (con_ cons c)) then qr (o_off (vst_ s0 v) + c_gap (con_ cons c)) else qr (o_off (vst_ s0 v) - c_gap (con_ cons c)))) bid nx) as (_ & _ & C & _).
      cbv zeta in C. rewrite C. apply Hs0. }
    destruct (IH st bid nx (Some v) e sa Asa Er) as [s2 E2]. rewrite E2.
    apply (IHl r0 s2 eq_refl).
    assert (C2 := populate_c f bid nx (Some v) sa s2 E2). intros k. unfold cst_. rewrite C2. apply Asa. }
  exact (G _ E s H Ha).
Qed.

Lemma find_path_ok : forall f st v prev to E s mm, act_eq s st -> reach cons f st v prev = Ok E ->
  exists r, find_path cons f v prev to (s, mm) = Ok r.
Proof.
  induction f as [|f IH]; intros st v prev to E s mm Ha H; [discriminate|].
  cbn [find_path reach] in *. cbn [fst]. rewrite (nbrs_act_ext cons st s v prev Ha).
  match goal with |- context [fold_res ?F ?L ?A0] => set (step := F) end.
  assert (G : forall l E0 acc, children (fun nx => reach cons f st nx (Some v)) v l = Ok E0 ->
              act_eq (fst (snd acc)) st -> exists acc', fold_res step l acc = Ok acc').
  { induction l as [|[c nx] l IHl]; intros E0 acc Hc Hacc; simpl; [now exists acc|].
    simpl in Hc. destruct (reach cons f st nx (Some v)) as [e|k] eqn:Er; [|discriminate].
    destruct (children (fun nx0 => reach cons f st nx0 (Some v)) v l) as [r0|k] eqn:Ec; [|discriminate].
    destruct acc as [found [s0 m0]]. unfold step at 1. cbn [fst snd] in *.
    destruct found; [apply (IHl r0 _ eq_refl); exact Hacc|].
    destruct (Nat.eqb nx to).
    - apply (IHl r0 _ eq_refl). cbn [fst snd]. intros k.
      rewrite (lm_eq_act _ _ (visit_between_lm_eq cons c nx s0 m0) k). apply Hacc.
    - destruct (IH st nx (Some v) to e s0 m0 Hacc Er) as [[b2 [s2 m2]] E2]. rewrite E2.
      assert (L2 := find_path_lm_eq cons _ _ _ _ _ _ _ _ _ E2).
      destruct b2.
      + apply (IHl r0 _ eq_refl). cbn [fst snd]. intros k.
        rewrite (lm_eq_act _ _ (visit_between_lm_eq cons c nx s2 m2) k), (lm_eq_act _ _ L2 k). apply Hacc.
      + apply (IHl r0 _ eq_refl). cbn [fst snd]. intros k. rewrite (lm_eq_act _ _ L2 k). apply Hacc. }
  exact (G _ E (false, (s, mm)) H Ha).
Qed.

(* isActiveDirectedPathBetween only ever walks down the tree *)
Lemma children_sub_nodup : forall rec v l E c nx, children rec v l = Ok E -> In (c, nx) l -> NoDup (verts E) ->
  exists e, rec nx = Ok e /\ NoDup (nx :: verts e).
Proof.
  intros rec v l E c nx H Hin ND. apply in_split in Hin. destruct Hin as (l1 & l2 & El). subst l.
  destruct (children_split _ _ _ _ _ _ _ H) as (R1 & ex & R2 & C1 & Cx & C2 & EE). subst E.
  exists ex. split; [exact Cx|]. rewrite verts_app in ND. simpl in ND. rewrite verts_app in ND.
  apply NoDup_app_inv in ND. destruct ND as (_ & ND & _).
  change (nx :: verts ex ++ verts R2) with ((nx :: verts ex) ++ verts R2) in ND.
  apply NoDup_app_inv in ND. now destruct ND.
Qed.

Lemma is_adp_ok : forall f st x q e v,
  (forall c, (c < m)%nat -> k_act (cst_ st c) = true -> c_l (con_ cons c) <> c_r (con_ cons c)) ->
  reach cons f st x q = Ok e -> NoDup (x :: verts e) ->
  (forall p, q = Some p -> forall k, In (k, p) (nbrs cons st x None) -> c_l (con_ cons k) = p) ->
  exists b, is_adp cons f st x v = Ok b.
Proof.
  induction f as [|f IH]; intros st x q e v NS H ND Hback; [discriminate|].
  cbn [is_adp]. destruct (Nat.eqb x v); [now exists true|].
  cbn [reach] in H. apply NoDup_cons_iff in ND. destruct ND as [Hnx ND].
  assert (NSnd := children_NoDup_snd _ _ _ _ H ND).
  match goal with |- context [fold_res ?F ?L ?A0] => set (step := F) end.
  assert (G : forall l acc, incl l (cOut cons x) -> exists r, fold_res step l acc = Ok r).
  { induction l as [|c l IHl]; intros acc Hl; simpl; [now exists acc|].
    unfold step at 1. destruct acc; [apply IHl; intros y Hy; apply Hl; now right|].
    destruct (k_act (cst_ st c)) eqn:Ac; [|apply IHl; intros y Hy; apply Hl; now right].
    assert (Hc : In c (cOut cons x)) by (apply Hl; now left). apply cOut_spec in Hc. destruct Hc as [Hcm Hcl]. fold m in Hcm.
    set (y := c_r (con_ cons c)).
    assert (Hn0 : In (c, y) (nbrs cons st x None)).
    { apply nbrs_spec. fold m. repeat split; try assumption. left. now split. }
    assert (Hyq : neq_prev q y = true).
    { destruct q as [p|]; [|reflexivity]. cbn [neq_prev]. apply negb_true_iff. apply Nat.eqb_neq. intro Q.
      assert (Z := Hback p eq_refl c). rewrite <- Q in Hn0. specialize (Z Hn0).
      apply (NS c Hcm Ac). unfold y in Q. congruence. }
    assert (Hn : In (c, y) (nbrs cons st x q)).
    { apply nbrs_spec in Hn0. destruct Hn0 as (A & B & _ & D). apply nbrs_spec. now repeat split. }
    destruct (children_sub_nodup _ _ _ _ c y H Hn ND) as (ey & Ry & NDy).
    destruct (IH st y (Some x) ey v NS Ry NDy) as [b Eb].
    { intros p Ep k Hk. inversion Ep; subst p.
      assert (Hk2 : In (k, y) (nbrs cons st x None)) by (eapply nbrs_sym; exact Hk).
      assert (Hk3 : In (k, y) (nbrs cons st x q)).
      { apply nbrs_spec in Hk2. destruct Hk2 as (A & B & _ & D). apply nbrs_spec. now repeat split. }
      assert (Z := NoDup_map_inj snd _ (k, y) (c, y) NSnd Hk3 Hn eq_refl). inversion Z. exact Hcl. }
    fold y. rewrite Eb. apply IHl. intros z Hz. apply Hl. now right. }
  apply G. intros c Hc. now apply in_rev.
Qed.

(* ------------------------------------------------ at the call sites --- *)
Lemma any_root_tree : forall pend st v, Inv vars cons pend st -> (v < n)%nat ->
  exists E, tree cons st v E /\ Permutation (v :: verts E) (bvars st (o_blk (vst_ st v))).
Proof.
  intros pend st v [W T] Hv. destruct (wf_var_block _ _ _ _ v W Hv) as [HB Hin].
  destruct (T _ HB) as (r & E & Tr & Pr).
  destruct (reroot_any cons st r E v Tr (Permutation_in v (Permutation_sym Pr) Hin)) as (E' & T' & P').
  exists E'. split; [exact T'|]. now transitivity (r :: verts E).
Qed.

Lemma root_reach : forall pend st v, Inv vars cons pend st -> idx_ok vars cons -> (v < n)%nat ->
  exists E, reach cons (trav_fuel vars) st v None = Ok E /\ NoDup (v :: verts E).
Proof.
  intros pend st v I IDX Hv. destruct (any_root_tree pend st v I Hv) as (E & T & _).
  exists E. split; [now apply tree_fuel|now destruct T].
Qed.

Theorem find_min_lm_no_fuel : forall pend st bid, Inv vars cons pend st -> idx_ok vars cons ->
  In bid (s_list st) -> exists r, find_min_lm vars cons st bid = Ok r.
Proof.
  intros pend st bid I IDX Hb. destruct I as [W T]. destruct (T bid Hb) as (r & E & Tr & Pr).
  assert (Hne : bvars st bid <> []) by (intro Q; rewrite Q in Pr; apply Permutation_sym, Permutation_nil in Pr; discriminate).
  unfold find_min_lm. set (r0 := hd 0%nat (b_vars (blk_ st bid))).
  assert (Hr0 : In r0 (bvars st bid)) by (unfold r0, bvars in *; destruct (b_vars (blk_ st bid)); [congruence|now left]).
  assert (Hlt : (r0 < n)%nat) by (eapply wf_bvars_lt; eassumption).
  destruct (root_reach pend st r0 (conj W T) IDX Hlt) as (E0 & R0 & _).
  destruct (compute_lm_ok post_min (post_min_lm_eq) _ st r0 None E0 st None (fun c => eq_refl) R0) as [[d sm] Ec].
  rewrite Ec. eexists. reflexivity.
Qed.

Lemma pathedge_active : forall st to v p c u w, pathedge cons st to v p c u w ->
  (c < m)%nat /\ k_act (cst_ st c) = true.
Proof.
  intros st to v p c u w P. induction P as [v p c nx A _|v p c0 nx c u w A P IH]; [|exact IH].
  apply nbrs_spec in A. destruct A as (A & B & _). now split.
Qed.

Theorem block_split_no_fuel : forall pend st c, Inv vars cons pend st -> idx_ok vars cons ->
  (c < m)%nat -> k_act (cst_ st c) = true -> exists r, block_split vars cons st c = Ok r.
Proof.
  intros pend st c [W T] IDX Hc Hact.
  set (u := c_l (con_ cons c)). set (w := c_r (con_ cons c)).
  destruct (IDX c Hc) as [Hu Hw]. fold u in Hu. fold w in Hw. fold n in Hu, Hw.
  destruct (any_root_tree pend st u (conj W T) Hu) as (Eu & Tu & _).
  assert (Hcw : In (c, w) (nbrs cons st u None)).
  { apply nbrs_spec. fold m. repeat split; try assumption. left. now split. }
  set (st0 := set_active st c false).
  assert (D : deact st st0 c) by (apply set_active_deact; now rewrite (wf_nc _ _ _ _ W)).
  destruct (prune_root cons st st0 c u w Eu D Tu Hcw) as (E1 & E2 & T1 & T2 & _ & _).
  assert (R1 := tree_fuel st0 u E1 IDX Hu T1). assert (R2 := tree_fuel st0 w E2 IDX Hw T2).
  unfold block_split. fold st0 u w. unfold create_split.
  destruct (new_block vars st0 u) as [sN bid] eqn:EN.
  assert (AN : act_eq sN st0).
  { intros k. unfold new_block in EN. inversion EN as [[E1' E2']]. unfold cst_.
    match goal with |- context [s_c (add_variable vars ?S ?B ?V)] => destruct (add_variable_frame vars S B V) as (_ & _ & C & _) end.
    cbv zeta in C. rewrite C. reflexivity. }
  destruct (populate_ok _ st0 bid u None E1 sN AN R1) as [s1 P1]. rewrite P1.
  destruct (new_block vars s1 w) as [sM bid2] eqn:EM.
  assert (A1 : act_eq s1 st0) by (intros k; unfold cst_; rewrite (populate_c _ _ _ _ _ _ P1); apply AN).
  assert (AM : act_eq sM st0).
  { intros k. unfold new_block in EM. inversion EM as [[E1' E2']]. unfold cst_.
    match goal with |- context [s_c (add_variable vars ?S ?B ?V)] => destruct (add_variable_frame vars S B V) as (_ & _ & C & _) end.
    cbv zeta in C. rewrite C. apply A1. }
  destruct (populate_ok _ st0 bid2 w None E2 sM AM R2) as [s2 P2]. rewrite P2. eexists. reflexivity.
Qed.

Theorem split_step_no_fuel : forall bid st acc, Inv vars cons None st -> idx_ok vars cons ->
  In bid (s_list st) -> exists r, split_step vars cons bid (st, acc) = Ok r.
Proof.
  intros bid st [ex k] I IDX Hb. unfold split_step.
  destruct (find_min_lm_no_fuel None st bid I IDX Hb) as [[st1 [v|]] E]; rewrite E; [|eexists; reflexivity].
  destruct (find_min_lm_active vars cons st bid st1 v E) as [Hv Hact].
  apply find_min_lm_lm_eq in E.
  set (st1' := set_mg st1 (note_lm (k_lm (cst_ st1 v) - LAGRANGIAN_TOLERANCE) (s_mg st1))).
  assert (L1 : lm_eq st st1') by (eapply lm_eq_trans; [exact E|apply set_mg_lm_eq]).
  assert (I1 : Inv vars cons None st1') by (eapply Inv_lm_eq; eassumption).
  destruct (Qltb (k_lm (cst_ st1 v)) LAGRANGIAN_TOLERANCE); [|eexists; reflexivity].
  assert (Hact1 : k_act (cst_ st1' v) = true) by (rewrite (lm_eq_act _ _ L1 v); exact Hact).
  destruct (block_split_no_fuel None st1' v I1 IDX Hv Hact1) as [[st2 [lb rb]] E2].
  fold st1'. rewrite E2. eexists. reflexivity.
Qed.

Theorem satisfy_body_no_fuel : forall pend st c, Inv vars cons pend st -> idx_ok vars cons -> (c < m)%nat ->
  exists st', satisfy_body vars cons st c = Ok st'.
Proof.
  intros pend st c I IDX Hc. unfold satisfy_body.
  set (k := con_ cons c). destruct (IDX c Hc) as [Hl Hr]. fold k in Hl, Hr. fold n in Hl, Hr.
  destruct (negb (Nat.eqb (o_blk (vst_ st (c_l k))) (o_blk (vst_ st (c_r k))))); [eexists; reflexivity|].
  destruct I as [W T].
  (* isActiveDirectedPathBetween from the right end *)
  destruct (root_reach pend st (c_r k) (conj W T) IDX Hr) as (Er & Rr & NDr).
  destruct (is_adp_ok (trav_fuel vars) st (c_r k) None Er (c_l k) (wf_noself _ _ _ _ W) Rr NDr) as [b Eb]; [intros p Q; discriminate|].
  rewrite Eb. destruct b; [eexists; reflexivity|].
  (* findMinLMBetween from the left end *)
  destruct (root_reach pend st (c_l k) (conj W T) IDX Hl) as (El & Rl & NDl).
  unfold find_min_lm_between.
  destruct (compute_lm_ok (fun _ s (mm : unit) => (s, mm)) (fun _ s _ => lm_eq_refl s) _ st (c_l k) None El st tt (fun c0 => eq_refl) Rl) as [[d [s1 u1]] Ec].
  rewrite Ec.
  assert (L1 := compute_lm_lm_eq vars cons (fun _ s (mm : unit) => (s, mm)) (fun _ s _ => lm_eq_refl s) _ _ _ _ _ _ _ _ Ec).
  assert (A1 : act_eq s1 st) by (intros c0; apply (lm_eq_act _ _ L1)).
  destruct (find_path_ok _ st (c_l k) None (c_r k) El s1 None A1 Rl) as [[b2 [s2 m2]] Ep]. rewrite Ep.
  destruct m2 as [c2|]; [|eexists; reflexivity].
  destruct (find_path_spec cons _ _ _ _ _ _ _ _ _ Ep) as (L12 & _ & _ & FP).
  destruct FP as [FP|(c0 & u & w & FP1 & FP2 & _)]; [discriminate|]. inversion FP1; subst c0.
  destruct (pathedge_active _ _ _ _ _ _ _ FP2) as [Hc2 Hact2].
  assert (L02 : lm_eq st s2) by (eapply lm_eq_trans; eassumption).
  assert (I2 : Inv vars cons pend s2) by (eapply Inv_lm_eq; [exact L02|now split]).
  assert (Hact2' : k_act (cst_ s2 c2) = true) by (rewrite (lm_eq_act _ _ L12 c2); exact Hact2).
  destruct (block_split_no_fuel pend s2 c2 I2 IDX Hc2 Hact2') as [[st2 [nl nr]] E2]. rewrite E2.
  match goal with |- context [if ?b then _ else _] => destruct b end; eexists; reflexivity.
Qed.

(* the satisfy loop can only run out of its own fuel (code 2) *)
Theorem satisfy_loop_only_fuel2 : forall fuel st v k,
  idx_ok vars cons -> Inv vars cons (pend_of vars cons st v) st -> MVg vars cons st v ->
  satisfy_loop vars cons fuel st v = Fuel k -> k = 2%nat.
Proof.
  induction fuel as [|f IH]; intros st v k IDX I M H; destruct v as [c|]; cbn [satisfy_loop] in H; try discriminate.
  - destruct (Qltb (slack vars cons st c) ZERO_UPPERBOUND && negb (k_act (cst_ st c)))%bool; [|discriminate]. now inversion H.
  - fold (violated vars cons st c) in H. unfold pend_of in I. destruct (violated vars cons st c) eqn:Vi; [|discriminate].
    destruct M as (Hc & Hu & Hmin).
    destruct (satisfy_body_no_fuel (Some c) st c I IDX Hc) as [st1 EB]. rewrite EB in H.
    destruct (most_violated vars cons st1) as [st2 v'] eqn:EM.
    assert (I1 : Inv vars cons None st1) by (apply (satisfy_body_gen vars cons st c st1 (Some c) EB I IDX Hc); now right).
    destruct (most_violated_gen vars cons st1 st2 v' I1 EM) as [I2 M2].
    exact (IH st2 v' k IDX I2 M2 H).
Qed.

(* ------------------------------------ Blocks.split never runs out of fuel --- *)
(* findMinLM returns a constraint of the visited block *)
Lemma compute_lm_min_edge : forall f st v u E s mm r s' mm',
  act_eq s st -> reach cons f st v u = Ok E ->
  compute_lm vars cons post_min f v u (s, mm) = Ok (r, (s', mm')) ->
  mm' = mm \/ exists t, mm' = Some (t_c t) /\ In t E.
Proof.
  induction f as [|f IH]; intros st v u E s mm r s' mm' Ha HR H; [discriminate|].
  cbn [compute_lm reach] in *. cbn [fst snd] in H. rewrite <- (nbrs_act_ext cons st s v u Ha) in HR.
  match type of H with context [fold_res ?F ?L ?S0] => destruct (fold_res F L S0) as [[dv [s1 m1]]|k] eqn:EF; [|discriminate];
    set (step := F) in *; set (A0 := S0) in * end.
  inversion H; subst r s1 m1. clear H.
  assert (G : forall l E0 acc acc', children (fun nx => reach cons f st nx (Some v)) v l = Ok E0 ->
              act_eq (fst (snd acc)) st -> fold_res step l acc = Ok acc' ->
              act_eq (fst (snd acc')) st /\ (snd (snd acc') = snd (snd acc) \/ exists t, snd (snd acc') = Some (t_c t) /\ In t E0)).
  { induction l as [|[c nx] l IHl]; intros E0 acc acc' Hc Hacc HF; simpl in HF.
    - inversion HF; subst. split; [exact Hacc|now left].
    - simpl in Hc. destruct (reach cons f st nx (Some v)) as [e|k] eqn:Er; [|discriminate].
      destruct (children (fun nx0 => reach cons f st nx0 (Some v)) v l) as [r0|k] eqn:Ec; [|discriminate].
      inversion Hc; subst E0. clear Hc.
      destruct acc as [dv0 [s0 m0]]. unfold step at 1 in HF. cbn [fst snd] in *.
      destruct (compute_lm vars cons post_min f nx (Some v) (s0, m0)) as [[d [s2 m2]]|k] eqn:E2; [|discriminate].
      assert (L2 := compute_lm_lm_eq vars cons post_min (post_min_lm_eq) _ _ _ _ _ _ _ _ E2).
      destruct (IH st nx (Some v) e s0 m0 d s2 m2 Hacc Er E2) as [Q2|Q2].
      + set (sx := if Nat.eqb nx (c_r (con_ cons c)) then set_lm s2 c d else set_lm s2 c (- d)).
        set (q0 := if Nat.eqb nx (c_r (con_ cons c)) then qr (dv0 + d * v_sc (var_ vars (c_l (con_ cons c)))) else qr (dv0 + d * v_sc (var_ vars (c_r (con_ cons c))))).
        assert (HF' : fold_res step l (q0, post_min c sx m2) = Ok acc').
        { unfold sx, q0. destruct (Nat.eqb nx (c_r (con_ cons c))); cbn [fst snd] in *;
            [destruct (post_min c (set_lm s2 c d) m2) as [s3 m3]|destruct (post_min c (set_lm s2 c (- d)) m2) as [s3 m3]]; exact HF. }
        assert (Lx : lm_eq s0 sx) by (eapply lm_eq_trans; [exact L2|unfold sx; destruct (Nat.eqb nx (c_r (con_ cons c))); apply set_lm_lm_eq]).
        assert (Ap : act_eq (fst (post_min c sx m2)) st).
        { intros k. rewrite (lm_eq_act _ _ (post_min_lm_eq c sx m2) k), (lm_eq_act _ _ Lx k). apply Hacc. }
        destruct (IHl r0 (q0, post_min c sx m2) acc' eq_refl Ap HF') as (A & B). cbn [fst snd] in *. split; [exact A|].
        destruct B as [B|(t & B1 & B2)].
        * destruct (post_min_cases c sx m2) as [Y|Y]; rewrite Y in B.
          -- left. congruence.
          -- right. exists (c, v, nx). split; [exact B|now left].
        * right. exists t. split; [exact B1|]. right. apply in_or_app. now right.
      + destruct Q2 as (t2 & Q2a & Q2b).
        set (sx := if Nat.eqb nx (c_r (con_ cons c)) then set_lm s2 c d else set_lm s2 c (- d)).
        set (q0 := if Nat.eqb nx (c_r (con_ cons c)) then qr (dv0 + d * v_sc (var_ vars (c_l (con_ cons c)))) else qr (dv0 + d * v_sc (var_ vars (c_r (con_ cons c))))).
        assert (HF' : fold_res step l (q0, post_min c sx m2) = Ok acc').
        { unfold sx, q0. destruct (Nat.eqb nx (c_r (con_ cons c))); cbn [fst snd] in *;
            [destruct (post_min c (set_lm s2 c d) m2) as [s3 m3]|destruct (post_min c (set_lm s2 c (- d)) m2) as [s3 m3]]; exact HF. }
        assert (Lx : lm_eq s0 sx) by (eapply lm_eq_trans; [exact L2|unfold sx; destruct (Nat.eqb nx (c_r (con_ cons c))); apply set_lm_lm_eq]).
        assert (Ap : act_eq (fst (post_min c sx m2)) st).
        { intros k. rewrite (lm_eq_act _ _ (post_min_lm_eq c sx m2) k), (lm_eq_act _ _ Lx k). apply Hacc. }
        destruct (IHl r0 (q0, post_min c sx m2) acc' eq_refl Ap HF') as (A & B). cbn [fst snd] in *. split; [exact A|].
        right. destruct B as [B|(t & B1 & B2)].
        * destruct (post_min_cases c sx m2) as [Y|Y]; rewrite Y in B.
          -- exists t2. split; [congruence|]. right. apply in_or_app. now left.
          -- exists (c, v, nx). split; [exact B|now left].
        * exists t. split; [exact B1|]. right. apply in_or_app. now right. }
  destruct (G _ E A0 (dv, (s', mm')) HR) as (_ & B); [unfold A0; cbn [fst snd]; intros k; apply Ha|exact EF|].
  cbn [snd] in B. exact B.
Qed.

Lemma find_min_lm_in_block : forall pend st bid st' c, Inv vars cons pend st -> idx_ok vars cons -> In bid (s_list st) ->
  find_min_lm vars cons st bid = Ok (st', Some c) -> o_blk (vst_ st (c_l (con_ cons c))) = bid.
Proof.
  intros pend st bid st' c [W T] IDX Hb H. destruct (T bid Hb) as (r & E & Tr & Pr).
  assert (Hne : bvars st bid <> []) by (intro Q; rewrite Q in Pr; apply Permutation_sym, Permutation_nil in Pr; discriminate).
  unfold find_min_lm in H. set (r0 := hd 0%nat (b_vars (blk_ st bid))) in *.
  assert (Hr0 : In r0 (bvars st bid)) by (unfold r0, bvars in *; destruct (b_vars (blk_ st bid)); [congruence|now left]).
  assert (Hlt : (r0 < n)%nat) by (eapply wf_bvars_lt; eassumption).
  destruct (any_root_tree pend st r0 (conj W T) Hlt) as (E0 & T0 & P0).
  rewrite (wf_blk _ _ _ _ W bid r0 Hb Hr0) in P0.
  assert (R0 := tree_fuel st r0 E0 IDX Hlt T0).
  destruct (compute_lm vars cons post_min (trav_fuel vars) r0 None (st, None)) as [[d [s1 m1]]|k] eqn:Ec; [|discriminate].
  inversion H; subst s1 m1.
  destruct (compute_lm_min_edge _ st r0 None E0 st None d st' (Some c) (fun k => eq_refl) R0 Ec) as [Q|(t & Q1 & Q2)]; [discriminate|].
  inversion Q1; subst c.
  destruct (reach_edge cons _ st r0 None E0 t R0 Q2) as [q Hq]. apply nbrs_endpoint in Hq.
  assert (Hin : In (c_l (con_ cons (t_c t))) (r0 :: verts E0)).
  { destruct Hq as [[A _]|[_ A]]; rewrite A.
    - destruct (reach_parent cons _ st r0 None E0 t R0 Q2) as [Z|Z]; [left; now symmetry|now right].
    - right. unfold verts. now apply in_map. }
  apply (wf_blk _ _ _ _ W bid). exact Hb. apply (Permutation_in _ P0). exact Hin.
Qed.

Lemma after_split_list : forall pend st c s2 lb rb E1 E2,
  WF vars cons pend st -> idx_ok vars cons -> (c < m)%nat -> Halves cons st s2 c lb rb E1 E2 ->
  let B := o_blk (vst_ st (c_l (con_ cons c))) in
  let s4 := after_split s2 lb rb B c in
  (forall b, In b (s_list st) -> b <> B -> In b (s_list s4)) /\ In lb (s_list s4) /\ In rb (s_list s4) /\
  lb = length (s_b st) /\ rb = S (length (s_b st)).
Proof.
  intros pend st c s2 lb rb E1 E2 W IDX Hc HV B s4.
  destruct (IDX c Hc) as [Hu _]. fold n in Hu.
  destruct (wf_var_block _ _ _ _ _ W Hu) as [HB _]. fold B in HB.
  set (nb0 := length (s_b st)).
  assert (Elb : lb = nb0) by exact (hv_lb _ _ _ _ _ _ _ _ HV).
  assert (Erb : rb = S nb0) by exact (hv_rb _ _ _ _ _ _ _ _ HV).
  assert (Hold : forall b, In b (s_list st) -> (b < nb0)%nat) by (intros b Hb; now apply (wf_ids _ _ _ _ W)).
  assert (LI2 : LI s2).
  { split; [|split].
    - rewrite (hv_list _ _ _ _ _ _ _ _ HV). apply (wf_nodup _ _ _ _ W).
    - intros b Hb. rewrite (hv_list _ _ _ _ _ _ _ _ HV) in Hb. rewrite (hv_nb _ _ _ _ _ _ _ _ HV). apply Hold in Hb. unfold nb0 in *. lia.
    - intros i Hi. rewrite (hv_list _ _ _ _ _ _ _ _ HV) in *.
      rewrite (hv_old _ _ _ _ _ _ _ _ HV) by (apply Hold; now apply nth_In). now apply (wf_ind _ _ _ _ W). }
  destruct (LI_insert vars cons s2 lb LI2) as (LIa & La & _ & _ & _ & Na & _).
  { rewrite (hv_nb _ _ _ _ _ _ _ _ HV). unfold nb0 in *. lia. }
  { rewrite (hv_list _ _ _ _ _ _ _ _ HV). intro Q. apply Hold in Q. lia. }
  set (sa := bs_insert s2 lb) in *.
  destruct (LI_insert vars cons sa rb LIa) as (LIb & Lb & _ & _ & _ & _ & _).
  { rewrite Na, (hv_nb _ _ _ _ _ _ _ _ HV). unfold nb0 in *. lia. }
  { rewrite La, (hv_list _ _ _ _ _ _ _ _ HV). intro Q. apply in_app_or in Q. destruct Q as [Q|[Q|[]]]; [apply Hold in Q; lia|lia]. }
  set (sb := bs_insert sa rb) in *.
  assert (HBb : In B (s_list sb)).
  { rewrite Lb, La, (hv_list _ _ _ _ _ _ _ _ HV). apply in_or_app. left. apply in_or_app. now left. }
  destruct (LI_remove vars cons sb B LIb HBb) as (_ & Pc & _).
  rewrite Lb, La, (hv_list _ _ _ _ _ _ _ _ HV) in Pc.
  assert (L4 : s_list s4 = s_list (bs_remove sb B)) by reflexivity.
  assert (Sur : forall b, In b ((s_list st ++ [lb]) ++ [rb]) -> b <> B -> In b (s_list s4)).
  { intros b Hb Hne. rewrite L4. apply (Permutation_in b (Permutation_sym Pc)) in Hb. destruct Hb; [congruence|assumption]. }
  assert (HBlt := Hold B HB).
  split; [|split; [|split; [|split; assumption]]].
  - intros b Hb Hne. apply Sur; [|exact Hne]. apply in_or_app. left. apply in_or_app. now left.
  - apply Sur; [|lia]. apply in_or_app. left. apply in_or_app. right. now left.
  - apply Sur; [|lia]. apply in_or_app. right. now left.
Qed.

(* one step of Blocks.split: it returns, the invariants survive, and so does
   every other block that is still to be visited *)
Lemma split_step_track : forall bid st ex k, Inv vars cons None st -> idx_ok vars cons -> In bid (s_list st) ->
  exists st' ex' k', split_step vars cons bid (st, (ex, k)) = Ok (st', (ex', k')) /\ Inv vars cons None st' /\
    (forall b, In b (s_list st) -> b <> bid -> In b (s_list st')) /\
    (ex' = ex \/ (exists lb rb, ex' = [lb; rb] /\ lb <> rb /\ In lb (s_list st') /\ In rb (s_list st') /\
                                (forall b, In b (s_list st) -> b <> lb /\ b <> rb))).
Proof.
  intros bid st ex k I IDX Hb.
  destruct (split_step_no_fuel bid st (ex, k) I IDX Hb) as [[st' [ex' k']] E].
  exists st', ex', k'. split; [exact E|]. split; [eapply split_step_gen; eassumption|].
  unfold split_step in E.
  destruct (find_min_lm vars cons st bid) as [[st1 [v|]]|e] eqn:EF; [| |discriminate].
  - assert (HB := find_min_lm_in_block None st bid st1 v I IDX Hb EF).
    destruct (find_min_lm_active vars cons st bid st1 v EF) as [Hv Hact].
    apply find_min_lm_lm_eq in EF.
    set (st1' := set_mg st1 (note_lm (k_lm (cst_ st1 v) - LAGRANGIAN_TOLERANCE) (s_mg st1))) in *.
    assert (L1 : lm_eq st st1') by (eapply lm_eq_trans; [exact EF|apply set_mg_lm_eq]).
    assert (I1 : Inv vars cons None st1') by (eapply Inv_lm_eq; eassumption).
    assert (SL : s_list st1' = s_list st) by (destruct L1 as (_ & _ & Z & _); exact Z).
    assert (VS : forall y, vst_ st1' y = vst_ st y) by (destruct L1 as (Z & _); intros y; unfold vst_; now rewrite Z).
    assert (NB : length (s_b st1') = length (s_b st)) by (destruct L1 as (_ & Z & _); now rewrite Z).
    destruct (Qltb (k_lm (cst_ st1 v)) LAGRANGIAN_TOLERANCE).
    + destruct (block_split vars cons st1' v) as [[st2 [lb rb]]|e] eqn:E2; [|discriminate].
      destruct I1 as [W1 T1].
      assert (Hact1 : k_act (cst_ st1' v) = true) by (rewrite (lm_eq_act _ _ L1 v); exact Hact).
      destruct (block_split_halves vars cons None st1' v st2 lb rb W1 T1 IDX Hv Hact1 E2) as (E1 & E2' & HV).
      destruct (after_split_list None st1' v st2 lb rb E1 E2' W1 IDX Hv HV) as (S1 & S2 & S3 & S4 & S5).
      rewrite VS, HB in S1. inversion E; subst st' ex' k'.
      change (set_inact (bs_remove (bs_insert (bs_insert st2 lb) rb) (o_blk (vst_ st1' (c_l (con_ cons v)))))
                (s_inact (bs_remove (bs_insert (bs_insert st2 lb) rb) (o_blk (vst_ st1' (c_l (con_ cons v))))) ++ [v]))
        with (after_split st2 lb rb (o_blk (vst_ st1' (c_l (con_ cons v)))) v).
      rewrite VS, HB in *.
      split; [intros b Hb0 Hne; apply S1; [now rewrite SL|exact Hne]|].
      destruct k as [|k0]; [right|now left].
      exists lb, rb. split; [reflexivity|]. split; [lia|]. split; [exact S2|]. split; [exact S3|].
      intros b Hb0. assert (Z := wf_ids _ _ _ _ W1 b). rewrite SL in Z. specialize (Z Hb0). lia.
    + inversion E; subst. split; [intros b Hb0 _; now rewrite SL|now left].
  - apply find_min_lm_lm_eq in EF. inversion E; subst. destruct EF as (_ & _ & Z & _).
    split; [intros b Hb0 _; now rewrite Z|now left].
Qed.

Lemma split_fold_track : forall L st ex k, Inv vars cons None st -> idx_ok vars cons -> NoDup L ->
  (forall b, In b L -> In b (s_list st)) ->
  (forall b, In b ex -> In b (s_list st) /\ ~ In b L) -> NoDup ex ->
  exists st' ex' k', fold_res (split_step vars cons) L (st, (ex, k)) = Ok (st', (ex', k')) /\ Inv vars cons None st' /\
    (forall b, In b ex' -> In b (s_list st')) /\ NoDup ex'.
Proof.
  induction L as [|bid L IH]; intros st ex k I IDX ND HL Hex NDex.
  - exists st, ex, k. simpl. split; [reflexivity|]. split; [exact I|]. split; [intros b Hb; now apply Hex|exact NDex].
  - apply NoDup_cons_iff in ND. destruct ND as [Hnb ND].
    destruct (split_step_track bid st ex k I IDX (HL bid (or_introl eq_refl))) as (st1 & ex1 & k1 & E & I1 & Sur & Hex1).
    cbn [fold_res]. rewrite E.
    apply (IH st1 ex1 k1 I1 IDX ND).
    + intros b Hb. apply Sur; [apply HL; now right|intro; subst; contradiction].
    + intros b Hb. destruct Hex1 as [Q|(lb & rb & Q & Hne & Hl & Hr & Hfresh)].
      * subst ex1. destruct (Hex b Hb) as [A B]. split; [apply Sur; [exact A|intro; subst; apply B; now left]|intro Z; apply B; now right].
      * subst ex1. destruct Hb as [Hb|[Hb|[]]]; subst b.
        -- split; [exact Hl|]. intro Z. destruct (Hfresh lb (HL lb (or_intror Z))). congruence.
        -- split; [exact Hr|]. intro Z. destruct (Hfresh rb (HL rb (or_intror Z))). congruence.
    + destruct Hex1 as [Q|(lb & rb & Q & Hne & _)]; subst ex1; [exact NDex|].
      constructor; [intros [Z|[]]; congruence|constructor; [intros []|constructor]].
Qed.

Theorem blocks_split_no_fuel : forall st, Inv vars cons None st -> idx_ok vars cons ->
  exists st' k, blocks_split vars cons st = Ok (st', k).
Proof.
  intros st I IDX. unfold blocks_split.
  set (st0 := fold_left (update_weighted vars) (s_list st) st).
  assert (C0 : core_eq st st0) by apply update_all_core_eq.
  assert (I0 : Inv vars cons None st0) by (eapply Inv_core_eq; eassumption).
  destruct I0 as [W0 T0].
  destruct (split_fold_track (s_list st0) st0 [] 0%nat (conj W0 T0) IDX (wf_nodup _ _ _ _ W0) (fun b Hb => Hb))
    as (st1 & ex1 & k1 & E1 & I1 & Hex1 & ND1); [intros b []|constructor|].
  rewrite E1.
  destruct (split_fold_track ex1 st1 [] k1 I1 IDX ND1 Hex1) as (st2 & ex2 & k2 & E2 & _); [intros b []|constructor|].
  rewrite E2. now exists st2, k2.
Qed.

(* satisfy and solve can only run out of the loop fuels *)
Theorem satisfy_only_fuel2 : forall fuel st k, idx_ok vars cons -> Inv vars cons None st ->
  satisfy vars cons fuel st = Fuel k -> k = 2%nat.
Proof.
  intros fuel st k IDX I H. unfold satisfy in H.
  destruct (blocks_split_no_fuel st I IDX) as (st1 & ns & E1). rewrite E1 in H.
  assert (I1 := blocks_split_gen vars cons st st1 ns E1 IDX I).
  destruct (most_violated vars cons st1) as [st2 v] eqn:E2.
  destruct (most_violated_gen vars cons st1 st2 v I1 E2) as [I2 M2].
  destruct (satisfy_loop vars cons fuel st2 v) as [st3|e] eqn:E3; [discriminate|].
  inversion H; subst. eapply satisfy_loop_only_fuel2; eassumption.
Qed.

Lemma solve_loop_only_loop_fuel : forall fuel sfuel st lastcost cost ns stalled nsat k,
  idx_ok vars cons -> sc_ok vars -> Inv vars cons None st ->
  solve_loop vars cons fuel sfuel st lastcost cost ns stalled nsat = Fuel k -> k = 2%nat \/ k = 3%nat.
Proof.
  induction fuel as [|f IH]; intros sfuel st lastcost cost ns stalled nsat k IDX SC I H; cbn [solve_loop] in H;
    destruct (Qltb COST_EPS (Qabs (lastcost - cost)) || negb (Nat.eqb ns 0) && Nat.ltb stalled (length cons))%bool; try discriminate.
  - inversion H. now right.
  - assert (Iq : Inv vars cons None (set_mg st (note_pos (Qabs (lastcost - cost) - COST_EPS) (s_mg st))))
      by (eapply Inv_lm_eq; [apply set_mg_lm_eq|exact I]).
    destruct (satisfy vars cons sfuel _) as [[s1 n1]|e] eqn:E.
    + destruct (satisfy_gen vars cons _ _ _ _ E IDX SC Iq) as [I1 _].
      exact (IH _ _ _ _ _ _ _ _ IDX SC I1 H).
    + inversion H; subst. left. exact (satisfy_only_fuel2 _ _ _ IDX Iq E).
Qed.

Theorem solve_only_loop_fuel : forall k, idx_ok vars cons -> sc_ok vars ->
  solve vars cons = Fuel k -> k = 2%nat \/ k = 3%nat.
Proof.
  intros k IDX SC H. unfold solve, solve_with in H.
  assert (I00 : Inv vars cons None (init_state vars cons)) by (split; [apply WF_init|apply I3_init]).
  destruct (satisfy vars cons (sat_fuel vars cons) (init_state vars cons)) as [[st0 ns]|e] eqn:E0.
  - destruct (satisfy_gen vars cons _ _ _ _ E0 IDX SC I00) as [I0 _].
    exact (solve_loop_only_loop_fuel _ _ _ _ _ _ _ _ _ IDX SC I0 H).
  - inversion H; subst. left. exact (satisfy_only_fuel2 _ _ _ IDX I00 E0).
Qed.
End Fuel.
