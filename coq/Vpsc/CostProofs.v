(* The cost reported by solve is the cost of the reported positions whenever
   the blocks of the exit state partition the variables (checker part_ok). *)
From Coq Require Import ZArith QArith Qabs Qminmax List Bool Arith Lia Lqa Permutation.
From Labella Require Import Vpsc.Vpsc Vpsc.VpscBase Vpsc.Kkt Vpsc.KktProofs.
Import ListNotations.
Open Scope Q_scope.

Section Cost.
Variable vars : list var.
Variable cons : list con.

Definition term (st : state) (v : nat) : Q :=
  (position vars st v - v_des (var_ vars v)) * (position vars st v - v_des (var_ vars v)) * v_w (var_ vars v).

Lemma block_cost_sum : forall st b,
  block_cost vars st b == qsum (map (term st) (b_vars (blk_ st b))).
Proof.
  intros st b. unfold block_cost. induction (b_vars (blk_ st b)) as [|v l IH]; simpl; [reflexivity|].
  rewrite qr_eq, IH. unfold term. ring.
Qed.

Lemma blocks_cost_sum : forall st,
  blocks_cost vars st == qsum (map (term st) (flat_map (fun b => b_vars (blk_ st b)) (s_list st))).
Proof.
  intros st. unfold blocks_cost. induction (s_list st) as [|b l IH]; simpl; [reflexivity|].
  rewrite map_app, qsum_app, IH, block_cost_sum. ring.
Qed.

Lemma qsum_perm : forall (f : nat -> Q) l l', Permutation l l' -> qsum (map f l) == qsum (map f l').
Proof.
  intros f l l' P. induction P; simpl; try reflexivity.
  - now rewrite IHP.
  - ring.
  - now rewrite IHP1.
Qed.

Lemma part_ok_perm : forall st, part_ok vars st = true ->
  Permutation (seq 0 (length vars)) (flat_map (fun b => b_vars (blk_ st b)) (s_list st)).
Proof.
  intros st H. unfold part_ok in H.
  apply andb_true_iff in H. destruct H as [H _]. apply andb_true_iff in H. destruct H as [H1 H2].
  apply Nat.eqb_eq in H1. rewrite forallb_forall in H2.
  apply NoDup_Permutation_bis.
  - apply seq_NoDup.
  - rewrite H1, seq_length. lia.
  - intros v Hv. specialize (H2 v Hv). apply Nat.eqb_eq in H2.
    apply (count_occ_In Nat.eq_dec). lia.
Qed.

Lemma xat_positions : forall st i, (i < length vars)%nat ->
  xat (positions vars st) i = position vars st i.
Proof.
  intros st i Hi. unfold xat, positions, nvars.
  rewrite (nth_indep _ 0 (position vars st 0)) by (rewrite map_length, seq_length; exact Hi).
  rewrite map_nth. rewrite seq_nth by exact Hi. reflexivity.
Qed.

Lemma cost_of_perm : forall st,
  Permutation (seq 0 (length vars)) (flat_map (fun b => b_vars (blk_ st b)) (s_list st)) ->
  blocks_cost vars st == cost_fn vars (positions vars st).
Proof.
  intros st H. rewrite blocks_cost_sum. rewrite <- (qsum_perm _ _ _ H).
  unfold cost_fn. apply qsum_map_ext. intros i Hi. apply in_seq in Hi.
  rewrite xat_positions by lia. unfold term, var_at, var_. ring.
Qed.

Theorem cost_of_partition : forall st, part_ok vars st = true ->
  blocks_cost vars st == cost_fn vars (positions vars st).
Proof. intros st H. apply cost_of_perm. now apply part_ok_perm. Qed.

(* solve returns blocks_cost of the state it returns *)
Lemma solve_loop_cost : forall fuel sfuel st lastcost cost ns stalled nsat st' c' k',
  cost = blocks_cost vars st ->
  solve_loop vars cons fuel sfuel st lastcost cost ns stalled nsat = Ok (st', c', k') ->
  c' = blocks_cost vars st'.
Proof.
  induction fuel as [|f IH]; intros sfuel st lastcost cost ns stalled nsat st' c' k' Hc H;
    cbn [solve_loop] in H;
    destruct (Qltb COST_EPS (Qabs (lastcost - cost)) || negb (Nat.eqb ns 0) && Nat.ltb stalled (length cons))%bool.
  - discriminate.
  - injection H as E1 E2 E3. rewrite <- E1, <- E2. exact Hc.
  - destruct (satisfy vars cons sfuel _) as [[st1 ns1]|e] eqn:E; [|discriminate].
    eapply IH; [|exact H]. reflexivity.
  - injection H as E1 E2 E3. rewrite <- E1, <- E2. exact Hc.
Qed.

Lemma solve_cost : forall st c k, solve vars cons = Ok (st, c, k) -> c = blocks_cost vars st.
Proof.
  intros st c k H. unfold solve, solve_with in H.
  destruct (satisfy vars cons (sat_fuel vars cons) (init_state vars cons)) as [[st0 ns]|e]; [|discriminate].
  eapply solve_loop_cost; [|exact H]. reflexivity.
Qed.

Theorem cost_identity_checked : forall st c k,
  solve vars cons = Ok (st, c, k) -> part_ok vars st = true ->
  c == cost_fn vars (positions vars st).
Proof.
  intros st c k H P. rewrite (solve_cost st c k H). apply cost_of_partition. exact P.
Qed.
End Cost.
