(* The satisfy loop without split-between: every iteration either merges two
   blocks (one block less) or flags a constraint (one unflagged constraint
   less), so  #blocks + #unflagged  iterations suffice, and the fuel the model
   passes (sat_fuel) is larger.  With split-between no such measure is known
   (a split adds a block); that part of termination stays open. *)
From Coq Require Import ZArith QArith Qabs Qminmax List Bool Arith Lia Lqa Permutation.
From Labella Require Import Vpsc.Vpsc Vpsc.VpscBase Vpsc.InvBase Vpsc.InvProofs Vpsc.MergeOnly
  Vpsc.Tree Vpsc.SplitProofs Vpsc.PathProofs Vpsc.General Vpsc.FuelProofs.
Import ListNotations.
Open Scope Q_scope.

Section Loop.
Variable vars : list var.
Variable cons : list con.
Let n := length vars.
Let m := length cons.

(* the loop body with the split-between branch replaced by the marker Fuel 4 *)
Definition satisfy_body_mo (st : state) (v : nat) : res state :=
  let k := con_ cons v in
  let lb := o_blk (vst_ st (c_l k)) in
  let rb := o_blk (vst_ st (c_r k)) in
  if negb (Nat.eqb lb rb) then Ok (bs_merge vars cons st v)
  else
    match is_adp cons (trav_fuel vars) st (c_r k) (c_l k) with
    | Fuel e => Fuel e
    | Ok true => Ok (set_unsat st v)
    | Ok false =>
        match find_min_lm_between vars cons st (c_l k) (c_r k) with
        | Fuel e => Fuel e
        | Ok (st1, None) => Ok (set_unsat st1 v)
        | Ok (st1, Some c) => Fuel 4          (* split-between reached *)
        end
    end.

Fixpoint satisfy_loop_mo (fuel : nat) (st : state) (v : option nat) : res state :=
  match v with
  | None => Ok st
  | Some c =>
      if Qltb (slack vars cons st c) ZERO_UPPERBOUND && negb (k_act (cst_ st c)) then
        match fuel with
        | O => Fuel 2
        | S f =>
            match satisfy_body_mo st c with
            | Fuel e => Fuel e
            | Ok st1 => let (st2, v') := most_violated vars cons st1 in satisfy_loop_mo f st2 v'
            end
        end
      else Ok st
  end.

Lemma body_mo_agrees : forall st c st', satisfy_body_mo st c = Ok st' -> satisfy_body vars cons st c = Ok st'.
Proof.
  intros st c st' H. unfold satisfy_body_mo in H. unfold satisfy_body.
  destruct (negb (Nat.eqb (o_blk (vst_ st (c_l (con_ cons c)))) (o_blk (vst_ st (c_r (con_ cons c)))))); [exact H|].
  destruct (is_adp cons (trav_fuel vars) st (c_r (con_ cons c)) (c_l (con_ cons c))) as [[|]|e]; try exact H.
  destruct (find_min_lm_between vars cons st (c_l (con_ cons c)) (c_r (con_ cons c))) as [[st1 [c2|]]|e]; [discriminate H|exact H|exact H].
Qed.

Lemma loop_mo_agrees : forall fuel st v st', satisfy_loop_mo fuel st v = Ok st' -> satisfy_loop vars cons fuel st v = Ok st'.
Proof.
  induction fuel as [|f IH]; intros st v st' H; destruct v as [c|]; cbn [satisfy_loop_mo satisfy_loop] in *; try exact H.
  destruct (Qltb (slack vars cons st c) ZERO_UPPERBOUND && negb (k_act (cst_ st c)))%bool; [|exact H].
    destruct (satisfy_body_mo st c) as [st1|e] eqn:E; [|discriminate H].
    rewrite (body_mo_agrees st c st1 E). destruct (most_violated vars cons st1) as [st2 v']. now apply IH.
Qed.

(* ------------------------------------------------------ the measure --- *)
Definition nunfl (st : state) : nat := length (filter (fun c => negb (k_uns (cst_ st c))) (seq 0 m)).
Definition mu (st : state) : nat := (length (s_list st) + nunfl st)%nat.

Lemma filter_length_le : forall {A} (P : A -> bool) l, (length (filter P l) <= length l)%nat.
Proof. induction l as [|a l IH]; simpl; [lia|]. destruct (P a); simpl; lia. Qed.

Lemma filter_drop_one : forall (P Q : nat -> bool) l c, NoDup l -> In c l -> P c = true -> Q c = false ->
  (forall x, x <> c -> Q x = P x) -> S (length (filter Q l)) = length (filter P l).
Proof.
  intros P Q l c ND. induction ND as [|a l Hn ND IH]; intros Hin Pc Qc Hx; [contradiction|]. simpl.
  destruct (Nat.eq_dec a c) as [E|E].
  - subst a. rewrite Pc, Qc. simpl. f_equal.
    assert (Z : filter Q l = filter P l) by (apply filter_ext_in'; intros x Hxin; apply Hx; intro; subst; contradiction).
    now rewrite Z.
  - rewrite (Hx a E). destruct Hin as [Q0|Hin]; [congruence|]. destruct (P a); simpl; rewrite <- (IH Hin Pc Qc Hx); reflexivity.
Qed.

Lemma nunfl_set_unsat : forall st c, (c < m)%nat -> length (s_c st) = m -> k_uns (cst_ st c) = false ->
  S (nunfl (set_unsat st c)) = nunfl st.
Proof.
  intros st c Hc L Hu. unfold nunfl.
  apply (filter_drop_one (fun k => negb (k_uns (cst_ st k))) (fun k => negb (k_uns (cst_ (set_unsat st c) k))) (seq 0 m) c).
  - apply seq_NoDup. - apply in_seq. lia. - now rewrite Hu.
  - unfold set_unsat. rewrite cst_set_c, Nat.eqb_refl. replace (Nat.ltb c (length (s_c st))) with true by (symmetry; apply Nat.ltb_lt; lia). reflexivity.
  - intros x Hx. unfold set_unsat. rewrite cst_set_c. replace (Nat.eqb c x) with false by (symmetry; apply Nat.eqb_neq; congruence). reflexivity.
Qed.

Lemma nunfl_ext : forall st st', (forall k, k_uns (cst_ st' k) = k_uns (cst_ st k)) -> nunfl st' = nunfl st.
Proof. intros st st' H. unfold nunfl. f_equal. apply filter_ext_in'. intros k _. now rewrite H. Qed.

(* a merge removes one block from the list and leaves the flags alone *)
Lemma bs_merge_measure : forall pend st c, WF vars cons pend st -> idx_ok vars cons -> (c < m)%nat ->
  o_blk (vst_ st (c_l (con_ cons c))) <> o_blk (vst_ st (c_r (con_ cons c))) ->
  S (length (s_list (bs_merge vars cons st c))) = length (s_list st) /\
  forall k, k_uns (cst_ (bs_merge vars cons st c) k) = k_uns (cst_ st k).
Proof.
  intros pend st c W IDX Hc Hne.
  assert (G : forall a b d, In a (s_list st) -> In b (s_list st) -> a <> b ->
              S (length (s_list (bs_remove (merge_across vars st a b c d) b))) = length (s_list st) /\
              forall k, k_uns (cst_ (bs_remove (merge_across vars st a b c d) b) k) = k_uns (cst_ st k)).
  { intros a b d Ha Hb Hab.
    assert (NDF := wf_nodup_flat _ _ _ _ W).
    assert (NDL : NoDup (bvars st b)) by (apply (NoDup_flat_map_elem (bvars st) (s_list st)); assumption).
    assert (HLlt : forall v, In v (bvars st b) -> (v < length (s_v st))%nat)
      by (intros v Hv; rewrite (wf_nv _ _ _ _ W); eapply wf_bvars_lt; eauto).
    destruct (merge_across_spec vars st a b c d Hab (wf_ids _ _ _ _ W a Ha) NDL HLlt)
      as (A1 & B1 & LV1 & LB1 & LC1 & C1 & V1 & O1 & S1 & I1).
    set (st1 := merge_across vars st a b c d) in *.
    assert (LI1 : LI st1).
    { split; [|split].
      - rewrite A1. apply (wf_nodup _ _ _ _ W).
      - intros x Hx. rewrite A1 in Hx. rewrite LB1. now apply (wf_ids _ _ _ _ W).
      - intros i Hi. rewrite A1 in *.
        assert (Hb1 : forall x, b_ind (blk_ st1 x) = b_ind (blk_ st x)).
        { intros x. destruct (Nat.eq_dec x a) as [E|E]; [subst; exact I1|now rewrite O1]. }
        rewrite Hb1. now apply (wf_ind _ _ _ _ W). }
    assert (Hb1 : In b (s_list st1)) by now rewrite A1.
    destruct (LI_remove vars cons st1 b LI1 Hb1) as (_ & P2 & _ & C2 & _).
    rewrite A1 in P2. apply Permutation_length in P2. simpl in P2. split; [exact P2|].
    intros k. unfold cst_ at 1. rewrite C2. fold (cst_ st1 k). rewrite C1.
    destruct (Nat.eqb c k && Nat.ltb c (length (s_c st)))%bool eqn:Q; [|reflexivity].
    apply andb_true_iff in Q. destruct Q as [Q _]. apply Nat.eqb_eq in Q. now subst. }
  unfold bs_merge. fold (con_ cons c). set (k := con_ cons c) in *.
  destruct (IDX c Hc) as [Hl Hr]. fold k in Hl, Hr.
  destruct (wf_var_block _ _ _ _ _ W Hl) as [Il _]. destruct (wf_var_block _ _ _ _ _ W Hr) as [Ir _].
  destruct (Nat.ltb _ _); apply G; try assumption; congruence.
Qed.

Lemma body_mo_decreases : forall pend st c st1, Inv vars cons pend st -> idx_ok vars cons -> (c < m)%nat ->
  k_uns (cst_ st c) = false -> satisfy_body_mo st c = Ok st1 -> S (mu st1) = mu st.
Proof.
  intros pend st c st1 [W T] IDX Hc Hu H. unfold satisfy_body_mo in H.
  set (k := con_ cons c) in *.
  destruct (Nat.eqb (o_blk (vst_ st (c_l k))) (o_blk (vst_ st (c_r k)))) eqn:EB; cbn [negb] in H.
  - assert (Flag : forall s, lm_eq st s -> S (mu (set_unsat s c)) = mu st).
    { intros s L. unfold mu. destruct L as (_ & _ & L3 & _ & L5 & L6).
      change (s_list (set_unsat s c)) with (s_list s). rewrite L3.
      assert (Z : S (nunfl (set_unsat s c)) = nunfl s).
      { apply nunfl_set_unsat; [exact Hc|rewrite L5; apply (wf_nc _ _ _ _ W)|]. destruct (L6 c) as [_ Q]. now rewrite Q. }
      assert (Z2 : nunfl s = nunfl st) by (apply nunfl_ext; intros k0; now destruct (L6 k0)). lia. }
    destruct (is_adp cons (trav_fuel vars) st (c_r k) (c_l k)) as [[|]|e]; [| |discriminate].
    + inversion H; subst. apply Flag. apply lm_eq_refl.
    + destruct (find_min_lm_between vars cons st (c_l k) (c_r k)) as [[s1 [c2|]]|e] eqn:EF; try discriminate.
      apply find_min_lm_between_lm_eq in EF. inversion H; subst. now apply Flag.
  - apply Nat.eqb_neq in EB. inversion H; subst.
    destruct (bs_merge_measure pend st c W IDX Hc EB) as [A B]. unfold mu. rewrite (nunfl_ext st _ B). lia.
Qed.

Lemma mu_most_violated : forall st st' v, most_violated vars cons st = (st', v) -> mu st' = mu st.
Proof.
  intros st st' v H. apply most_violated_spec in H. destruct H as (_ & B & _ & D & _). unfold mu. rewrite D.
  f_equal. apply nunfl_ext. intros k. unfold cst_. now rewrite B.
Qed.

(* a loop that meets no split-between does not run out of fuel *)
Theorem satisfy_loop_mo_terminates : forall fuel st v,
  idx_ok vars cons -> Inv vars cons (pend_of vars cons st v) st -> MVg vars cons st v ->
  (mu st <= fuel)%nat -> satisfy_loop_mo fuel st v <> Fuel 2.
Proof.
  induction fuel as [|f IH]; intros st v IDX I M Hmu; destruct v as [c|]; cbn [satisfy_loop_mo]; try discriminate.
  - fold (violated vars cons st c). unfold pend_of in I. destruct (violated vars cons st c) eqn:Vi; [|discriminate].
    destruct M as (Hc & Hu & _).
    (* mu >= 1: c itself is unflagged *)
    exfalso. unfold mu, nunfl in Hmu.
    assert (Z : In c (filter (fun c0 => negb (k_uns (cst_ st c0))) (seq 0 m))) by (apply filter_In; split; [apply in_seq; lia|now rewrite Hu]).
    destruct (filter (fun c0 => negb (k_uns (cst_ st c0))) (seq 0 m)); [contradiction|simpl in Hmu; lia].
  - fold (violated vars cons st c). unfold pend_of in I. destruct (violated vars cons st c) eqn:Vi; [|discriminate].
    destruct M as (Hc & Hu & Hmin).
    destruct (satisfy_body_mo st c) as [st1|e] eqn:EB.
    + destruct (most_violated vars cons st1) as [st2 v'] eqn:EM.
      assert (EB' := body_mo_agrees st c st1 EB).
      assert (I1 : Inv vars cons None st1) by (apply (satisfy_body_gen vars cons st c st1 (Some c) EB' I IDX Hc); now right).
      destruct (most_violated_gen vars cons st1 st2 v' I1 EM) as [I2 M2].
      apply (IH st2 v' IDX I2 M2).
      assert (D := body_mo_decreases (Some c) st c st1 I IDX Hc Hu EB). rewrite (mu_most_violated _ _ _ EM). lia.
    + (* the body never runs out of traversal fuel; the only marker it can return is 4 *)
      intro Q. inversion Q; subst e.
      destruct (satisfy_body_no_fuel vars cons (Some c) st c I IDX Hc) as [sx Ex].
      unfold satisfy_body_mo in EB. unfold satisfy_body in Ex.
      destruct (negb (Nat.eqb (o_blk (vst_ st (c_l (con_ cons c)))) (o_blk (vst_ st (c_r (con_ cons c)))))); [discriminate EB|].
      destruct (is_adp cons (trav_fuel vars) st (c_r (con_ cons c)) (c_l (con_ cons c))) as [[|]|e2]; [discriminate EB| |discriminate Ex].
      destruct (find_min_lm_between vars cons st (c_l (con_ cons c)) (c_r (con_ cons c))) as [[s1 [c2|]]|e2];
        [discriminate EB|discriminate EB|discriminate Ex].
Qed.

(* the model's fuel is above the measure *)
Lemma blocks_le_vars : forall pend st, Inv vars cons pend st -> (length (s_list st) <= n)%nat.
Proof.
  intros pend st [W T].
  assert (L : (length (s_list st) <= length (flat_map (bvars st) (s_list st)))%nat).
  { assert (G : forall l, (forall b, In b l -> bvars st b <> []) -> (length l <= length (flat_map (bvars st) l))%nat).
    { induction l as [|b l IH]; intros H; simpl; [lia|]. rewrite app_length.
      assert (bvars st b <> []) by (apply H; now left).
      assert (length l <= length (flat_map (bvars st) l))%nat by (apply IH; intros; apply H; now right).
      destruct (bvars st b); [congruence|simpl; lia]. }
    apply G. intros b Hb. destruct (T b Hb) as (r & E & _ & P). intro Q. rewrite Q in P.
    apply Permutation_sym, Permutation_nil in P. discriminate. }
  rewrite (Permutation_length (wf_part _ _ _ _ W)), seq_length in L. exact L.
Qed.

Theorem sat_fuel_above_measure : forall pend st, Inv vars cons pend st -> (mu st <= sat_fuel vars cons)%nat.
Proof.
  intros pend st I. unfold mu, sat_fuel, nvars. fold n m.
  assert (A := blocks_le_vars pend st I).
  assert (B : (nunfl st <= m)%nat) by (unfold nunfl; rewrite <- (seq_length m 0) at 2; apply filter_length_le).
  nia.
Qed.
End Loop.
