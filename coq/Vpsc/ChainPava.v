(* Chain instances, as labella/removeOverlap.py builds them (Layout/Layer.v:
   variables in target order, one constraint per adjacent pair, scales 1,
   weights 1 and 1e10 walls): a certified exit state of the VPSC solver is
   within the certificate's bound of the PAVA solution (Layout/Pava.v), which
   is THE optimum.  No claim that vpsc never splits is needed. *)
From Coq Require Import ZArith QArith Qabs Qminmax List Bool Arith Lia Lqa Permutation.
From Labella Require Import Vpsc.Vpsc Vpsc.VpscBase Vpsc.Kkt Vpsc.KktProofs Vpsc.Convex.
From Labella Require Base.QUtil Base.QUtilProofs Layout.Pava Layout.PavaProofs.
Import ListNotations.
Open Scope Q_scope.

(* the solver instance of a chain problem (d, w, g) *)
Definition chain_vars (d w : list Q) : list var := QUtil.map2 (fun di wi => mkVar di wi 1) d w.
Fixpoint chain_cons_from (i : nat) (g : list Q) : list con :=
  match g with
  | [] => []
  | gi :: g' => mkCon i (S i) gi :: chain_cons_from (S i) g'
  end.
Definition chain_cons (g : list Q) : list con := chain_cons_from 0 g.

Lemma chain_vars_length : forall d w, length w = length d -> length (chain_vars d w) = length d.
Proof. intros d w H. unfold chain_vars. rewrite QUtilProofs.map2_length, H. apply Nat.min_id. Qed.

Lemma chain_cons_in : forall g i c, In c (chain_cons_from i g) <->
  exists j, (j < length g)%nat /\ c = mkCon (i + j) (S (i + j)) (nth j g 0).
Proof.
  induction g as [|gi g IH]; intros i c; simpl.
  - split; [intros []|intros (j & H & _); lia].
  - rewrite IH. split.
    + intros [H|(j & Hj & H)]; [exists 0%nat; split; [lia|]; subst; now rewrite Nat.add_0_r|].
      exists (S j). split; [lia|]. subst. simpl. now replace (i + S j)%nat with (S i + j)%nat by lia.
    + intros (j & Hj & H). destruct j as [|j]; [left; subst; now rewrite Nat.add_0_r|right].
      exists j. split; [lia|]. subst. simpl. now replace (i + S j)%nat with (S i + j)%nat by lia.
Qed.

(* the two formulations of the problem coincide on lists of the right length *)
Lemma cost_fn_cons : forall v vars x0 x,
  cost_fn (v :: vars) (x0 :: x) == v_w v * ((x0 - v_des v) * (x0 - v_des v)) + cost_fn vars x.
Proof.
  intros. unfold cost_fn. cbn [length seq map]. fold (qsum (map (fun i => v_w (var_at (v :: vars) i) *
    ((xat (x0 :: x) i - v_des (var_at (v :: vars) i)) * (xat (x0 :: x) i - v_des (var_at (v :: vars) i)))) (seq 1 (length vars)))).
  rewrite <- seq_shift, map_map. unfold qsum at 1. cbn [fold_right]. fold (qsum (map (fun x1 => v_w (var_at (v :: vars) (S x1)) *
    ((xat (x0 :: x) (S x1) - v_des (var_at (v :: vars) (S x1))) * (xat (x0 :: x) (S x1) - v_des (var_at (v :: vars) (S x1))))) (seq 0 (length vars)))).
  reflexivity.
Qed.

Lemma cost_fn_pava : forall d w x, length w = length d -> length x = length d ->
  cost_fn (chain_vars d w) x == Pava.cost d w x.
Proof.
  induction d as [|di d IH]; intros w x Lw Lx.
  - destruct w; [|discriminate]. destruct x; [|discriminate]. reflexivity.
  - destruct w as [|wi w]; [discriminate|]. destruct x as [|xi x]; [discriminate|].
    cbn [length] in Lw, Lx. injection Lw as Lw. injection Lx as Lx.
    change (chain_vars (di :: d) (wi :: w)) with (mkVar di wi 1 :: chain_vars d w).
    rewrite cost_fn_cons, PavaProofs.cost_cons, (IH w x Lw Lx). reflexivity.
Qed.

Lemma wdist_cons : forall v vars x0 x y0 y,
  wdist (v :: vars) (x0 :: x) (y0 :: y) == v_w v * ((x0 - y0) * (x0 - y0)) + wdist vars x y.
Proof.
  intros. unfold wdist. cbn [length seq map]. rewrite <- seq_shift, map_map. reflexivity.
Qed.

Lemma wdist_pava : forall d w x p, length w = length d -> length x = length d -> length p = length d ->
  wdist (chain_vars d w) x p == Pava.cost p w x.
Proof.
  induction d as [|di d IH]; intros w x p Lw Lx Lp.
  - destruct w; [|discriminate]. destruct x; [|discriminate]. destruct p; [|discriminate]. reflexivity.
  - destruct w as [|wi w]; [discriminate|]. destruct x as [|xi x]; [discriminate|]. destruct p as [|pi p]; [discriminate|].
    cbn [length] in Lw, Lx, Lp. injection Lw as Lw. injection Lx as Lx. injection Lp as Lp.
    change (chain_vars (di :: d) (wi :: w)) with (mkVar di wi 1 :: chain_vars d w).
    rewrite wdist_cons, PavaProofs.cost_cons, (IH w x p Lw Lx Lp). reflexivity.
Qed.

Lemma var_at_chain : forall d w i, length w = length d -> (i < length d)%nat ->
  var_at (chain_vars d w) i = mkVar (nth i d 0) (nth i w 0) 1.
Proof.
  induction d as [|di d IH]; intros w i Lw Hi; [simpl in Hi; lia|].
  destruct w as [|wi w]; [discriminate|]. cbn [length] in Lw, Hi. injection Lw as Lw.
  change (chain_vars (di :: d) (wi :: w)) with (mkVar di wi 1 :: chain_vars d w).
  destruct i as [|i]; [reflexivity|]. unfold var_at. cbn [nth]. apply (IH w i Lw). lia.
Qed.

Section Chain.
Variables d w g : list Q.
Hypothesis CO : Pava.chain_ok d w g.
Let vars := chain_vars d w.
Let cons := chain_cons g.
Let n := length d.

Lemma chain_len : length vars = n /\ length w = n /\ S (length g) = n.
Proof. destruct CO as (A & B & _). repeat split; [apply chain_vars_length; exact A|exact A|exact B]. Qed.

Lemma chain_weights : forall v, In v vars -> 0 < v_w v.
Proof.
  intros v Hv. destruct chain_len as (L1 & L2 & L3). destruct (In_nth _ _ dvar Hv) as (i & Hi & E).
  fold (var_at vars i) in E. rewrite L1 in Hi. unfold vars in E. rewrite var_at_chain in E by (assumption || lia).
  subst v. cbn [v_w]. destruct CO as (_ & _ & P). unfold Pava.all_pos in P. rewrite Forall_forall in P.
  apply P. apply nth_In. lia.
Qed.

Lemma chain_idx : forall c, In c cons -> (c_l c < length vars)%nat /\ (c_r c < length vars)%nat.
Proof.
  intros c Hc. destruct chain_len as (L1 & L2 & L3). apply chain_cons_in in Hc. destruct Hc as (j & Hj & E). subst c.
  cbn [c_l c_r]. rewrite L1. simpl. lia.
Qed.

Lemma chain_slack : forall x j, (j < length g)%nat ->
  slack_fn vars x (mkCon j (S j) (nth j g 0)) == QUtil.qnth (S j) x - nth j g 0 - QUtil.qnth j x.
Proof.
  intros x j Hj. destruct chain_len as (L1 & L2 & L3). unfold slack_fn. cbn [c_l c_r c_gap].
  unfold vars. rewrite !var_at_chain by (assumption || lia). cbn [v_sc]. unfold xat, QUtil.qnth. ring.
Qed.

Lemma chain_feasible_iff : forall x, length x = n ->
  (feasible vars cons x <-> Pava.feasible g x).
Proof.
  intros x Lx. destruct chain_len as (L1 & L2 & L3). split.
  - intro F. apply PavaProofs.feasible_of_nth. intros i Hi Hg.
    assert (Hc : In (mkCon i (S i) (nth i g 0)) cons).
    { apply chain_cons_in. exists i. split; [exact Hg|reflexivity]. }
    assert (S0 := F _ Hc). rewrite chain_slack in S0 by exact Hg. unfold QUtil.qnth in *. lra.
  - intros F c Hc. apply chain_cons_in in Hc. destruct Hc as (j & Hj & E). subst c. simpl.
    rewrite chain_slack by exact Hj.
    assert (Z := PavaProofs.feasible_nth x g F). rewrite Lx in Z. specialize (Z L3 j).
    assert (Hlt : (S j < n)%nat) by lia. specialize (Z Hlt). unfold QUtil.qnth in *. lra.
Qed.

Let p := Pava.pava d w g.

Lemma pava_is_feasible : feasible vars cons p /\ length p = n.
Proof.
  destruct (PavaProofs.pava_kkt d w g CO) as (_ & _ & L). split; [|exact L].
  apply chain_feasible_iff; [exact L|]. now apply PavaProofs.pava_feasible_list.
Qed.

(* an exactly feasible point x with multipliers lam is within dual_gap of pava *)
Theorem chain_close_to_pava_exact : forall x lam, length x = n ->
  (forall l, In l lam -> 0 <= l) -> feasible vars cons x ->
  wdist vars x p <= dual_gap vars cons x lam.
Proof.
  intros x lam Lx Hl Fx. destruct chain_len as (L1 & L2 & L3). destruct pava_is_feasible as [Fp Lp].
  assert (W := weak_duality vars cons x lam p chain_weights chain_idx Hl Fp).
  assert (O := PavaProofs.pava_optimal_list d w g x CO Lx (proj1 (chain_feasible_iff x Lx) Fx)).
  fold p in O. unfold vars in *.
  rewrite (cost_fn_pava d w x L2 Lx) in W. rewrite (cost_fn_pava d w p L2 Lp) in W.
  rewrite (wdist_pava d w x p L2 Lx Lp). lra.
Qed.

(* any point x: the bound carries the cost difference explicitly *)
Theorem chain_close_to_pava_general : forall x lam,
  (forall l, In l lam -> 0 <= l) ->
  wdist vars x p <= pos_gap vars cons x lam + 2 * (cost_fn vars p - cost_fn vars x).
Proof.
  intros x lam Hl. destruct pava_is_feasible as [Fp Lp].
  exact (strong_convexity vars cons x lam p chain_weights chain_idx Hl Fp).
Qed.

(* pava is the unique optimum of the solver's problem *)
Theorem pava_is_the_optimum : forall y, length y = n -> feasible vars cons y ->
  cost_fn vars p <= cost_fn vars y.
Proof.
  intros y Ly Fy. destruct chain_len as (L1 & L2 & L3). destruct pava_is_feasible as [Fp Lp].
  assert (O := PavaProofs.pava_optimal_list d w g y CO Ly (proj1 (chain_feasible_iff y Ly) Fy)). fold p in O.
  assert (N : 0 <= Pava.cost p w y) by (apply PavaProofs.cost_nonneg; destruct CO as (_ & _ & P); exact P).
  unfold vars. rewrite (cost_fn_pava d w y L2 Ly), (cost_fn_pava d w p L2 Lp). lra.
Qed.
End Chain.

(* exact feasibility as a checker *)
Definition feasibleb (vars : list var) (cons : list con) (x : list Q) : bool :=
  forallb (fun c => Qle_bool 0 (slack_fn vars x c)) cons.
Lemma feasibleb_sound : forall vars cons x, feasibleb vars cons x = true -> feasible vars cons x.
Proof.
  intros vars cons x H c Hc. unfold feasibleb in H. rewrite forallb_forall in H. apply Qle_bool_iff. now apply H.
Qed.

(* a certified exit state of the solver on a chain instance *)
Theorem chain_state_matches_pava : forall d w g st, Pava.chain_ok d w g ->
  let vars := chain_vars d w in let cons := chain_cons g in
  kkt_ok vars cons st = true -> feasibleb vars cons (positions vars st) = true ->
  wdist vars (positions vars st) (Pava.pava d w g) <= opt_bound (cost_fn vars (positions vars st)).
Proof.
  intros d w g st CO vars cons K F. unfold kkt_ok in K.
  destruct (exit_multipliers vars cons st) as [lam|k]; [|discriminate].
  apply andb_true_iff in K. destruct K as [_ K]. unfold cert_ok in K.
  apply andb_true_iff in K. destruct K as [K G]. apply andb_true_iff in K. destruct K as [_ LO].
  apply Qle_bool_iff in G. destruct (lam_ok_spec _ _ LO) as [_ Hl].
  assert (Lx : length (positions vars st) = length d).
  { unfold positions, nvars. rewrite map_length, seq_length. apply chain_vars_length. now destruct CO. }
  assert (C := chain_close_to_pava_exact d w g CO (positions vars st) lam Lx Hl (feasibleb_sound _ _ _ F)).
  fold vars cons in C. lra.
Qed.
