(* Weak duality and KKT sufficiency for the separation-constraint QP, in full
   generality (any positive weights, any scales, any constraint multiset),
   and soundness of the executable certificate checkers of Vpsc/Kkt.v. *)
From Coq Require Import ZArith QArith Qabs Qminmax List Bool Arith Lia Lqa Permutation.
From Labella Require Import Vpsc.Vpsc Vpsc.VpscBase Vpsc.Kkt.
Import ListNotations.
Open Scope Q_scope.

(* ------------------------------------------------------------- sums --- *)
Lemma qsum_app : forall l1 l2, qsum (l1 ++ l2) == qsum l1 + qsum l2.
Proof. induction l1 as [|a l1 IH]; intros l2; simpl; [ring|]. rewrite IH. ring. Qed.

Lemma qsum_map_ext : forall (f g : nat -> Q) l,
  (forall i, In i l -> f i == g i) -> qsum (map f l) == qsum (map g l).
Proof.
  induction l as [|a l IH]; intros H; simpl; [reflexivity|].
  rewrite (H a (or_introl eq_refl)), IH; [reflexivity|]. intros i Hi. apply H. now right.
Qed.

Lemma qsum_map_plus : forall (f g : nat -> Q) l,
  qsum (map (fun i => f i + g i) l) == qsum (map f l) + qsum (map g l).
Proof. induction l as [|a l IH]; simpl; [ring|]. rewrite IH. ring. Qed.

Lemma qsum_map_scal : forall (f : nat -> Q) k l,
  qsum (map (fun i => k * f i) l) == k * qsum (map f l).
Proof. induction l as [|a l IH]; simpl; [ring|]. rewrite IH. ring. Qed.

Lemma qsum_map_le : forall (f g : nat -> Q) l,
  (forall i, In i l -> f i <= g i) -> qsum (map f l) <= qsum (map g l).
Proof.
  induction l as [|a l IH]; intros H; simpl; [lra|].
  assert (H1 := H a (or_introl eq_refl)).
  assert (H2 : qsum (map f l) <= qsum (map g l)) by (apply IH; intros i Hi; apply H; now right).
  lra.
Qed.

Lemma qsum_map_zero : forall (f : nat -> Q) l,
  (forall i, In i l -> f i == 0) -> qsum (map f l) == 0.
Proof.
  induction l as [|a l IH]; intros H; simpl; [reflexivity|].
  rewrite (H a (or_introl eq_refl)), IH; [ring|]. intros i Hi. apply H. now right.
Qed.

(* sum of an indicator *)
Lemma qsum_delta : forall (f : nat -> Q) k a n s,
  (s <= k < s + n)%nat ->
  qsum (map (fun i => (if Nat.eqb k i then a else 0) * f i) (seq s n)) == a * f k.
Proof.
  intros f k a n. induction n as [|n IH]; intros s Hk; [lia|].
  cbn [seq map qsum fold_right].
  destruct (Nat.eqb k s) eqn:E.
  - apply Nat.eqb_eq in E. subst s.
    assert (Z : qsum (map (fun i => (if Nat.eqb k i then a else 0) * f i) (seq (S k) n)) == 0).
    { apply qsum_map_zero. intros i Hi. apply in_seq in Hi.
      replace (Nat.eqb k i) with false by (symmetry; apply Nat.eqb_neq; lia). ring. }
    unfold qsum in Z. rewrite Z. ring.
  - apply Nat.eqb_neq in E.
    assert (Z := IH (S s)). unfold qsum in Z. rewrite Z by lia. ring.
Qed.

(* ------------------------------------------------------ weak duality --- *)
Section Duality.
Variable vars : list var.
Variable cons : list con.
Let n := length vars.
Let w (i : nat) := v_w (var_at vars i).
Let d (i : nat) := v_des (var_at vars i).
Let s (i : nat) := v_sc (var_at vars i).

(* sum_c lam_c (s_r t_r - s_l t_l) *)
Fixpoint lin_gap (t : nat -> Q) (cs : list con) (lam : list Q) : Q :=
  match cs, lam with
  | c :: cs', l :: lam' => l * (s (c_r c) * t (c_r c) - s (c_l c) * t (c_l c)) + lin_gap t cs' lam'
  | _, _ => 0
  end.

Lemma exchange : forall (t : nat -> Q) cs lam,
  (forall c, In c cs -> (c_l c < n)%nat /\ (c_r c < n)%nat) ->
  qsum (map (fun i => s i * net i cs lam * t i) (seq 0 n)) == lin_gap t cs lam.
Proof.
  intros t cs. induction cs as [|c cs IH]; intros lam Hidx.
  - simpl. apply qsum_map_zero. intros; ring.
  - destruct lam as [|l lam].
    + simpl. apply qsum_map_zero. intros; ring.
    + simpl net. simpl lin_gap.
      destruct (Hidx c (or_introl eq_refl)) as [Hl Hr].
      rewrite <- IH by (intros c' Hc'; apply Hidx; now right).
      rewrite (qsum_map_ext _ (fun i =>
                 ((if Nat.eqb (c_r c) i then l else 0) * (s i * t i)
                  + (if Nat.eqb (c_l c) i then - l else 0) * (s i * t i))
                 + s i * net i cs lam * t i)).
      * rewrite qsum_map_plus, qsum_map_plus.
        rewrite (qsum_delta (fun i => s i * t i) (c_r c) l n 0) by lia.
        rewrite (qsum_delta (fun i => s i * t i) (c_l c) (- l) n 0) by lia.
        ring.
      * intros i _. destruct (Nat.eqb (c_r c) i); destruct (Nat.eqb (c_l c) i); ring.
Qed.

Lemma lin_gap_slack : forall x y cs lam,
  lin_gap (fun i => xat y i - xat x i) cs lam == comp_gap vars y cs lam - comp_gap vars x cs lam.
Proof.
  intros x y cs. induction cs as [|c cs IH]; intros lam; simpl; [ring|].
  destruct lam as [|l lam]; [ring|]. rewrite IH. unfold slack_fn, s. ring.
Qed.

Lemma comp_gap_nonneg : forall y cs lam,
  (forall c, In c cs -> 0 <= slack_fn vars y c) ->
  (forall l, In l lam -> 0 <= l) -> 0 <= comp_gap vars y cs lam.
Proof.
  intros y cs. induction cs as [|c cs IH]; intros lam Hf Hl; simpl; [lra|].
  destruct lam as [|l lam]; [lra|].
  assert (H1 := Hf c (or_introl eq_refl)). assert (H2 := Hl l (or_introl eq_refl)).
  assert (H3 : 0 <= comp_gap vars y cs lam)
    by (apply IH; [intros c' Hc'; apply Hf; now right | intros l' Hl'; apply Hl; now right]).
  assert (0 <= l * slack_fn vars y c) by (apply Qmult_le_0_compat; assumption).
  lra.
Qed.

Lemma sq_nonneg : forall a : Q, 0 <= a * a.
Proof.
  intros a. destruct (Qlt_le_dec a 0) as [H|H].
  - setoid_replace (a * a) with ((- a) * (- a)) by ring. apply Qmult_le_0_compat; lra.
  - apply Qmult_le_0_compat; lra.
Qed.

Lemma square_completion : forall ww r t : Q, 0 < ww -> - (r * r / (4 * ww)) <= ww * (t * t) + r * t.
Proof.
  intros ww r t Hw.
  set (q := r * r / (4 * ww)).
  assert (Hq : q * (4 * ww) == r * r) by (unfold q; field; lra).
  assert (Hsq := sq_nonneg (2 * ww * t + r)).
  assert (H4 : 0 <= 4 * ww * (ww * (t * t) + r * t + q)).
  { setoid_replace (4 * ww * (ww * (t * t) + r * t + q))
      with ((2 * ww * t + r) * (2 * ww * t + r) + (q * (4 * ww) - r * r)) by ring.
    rewrite Hq. lra. }
  destruct (Qlt_le_dec (ww * (t * t) + r * t + q) 0) as [Hneg|Hpos]; [|lra].
  exfalso.
  assert (H5 : 0 <= (4 * ww) * (- (ww * (t * t) + r * t + q))) by (apply Qmult_le_0_compat; lra).
  assert (H6 : 4 * ww * (ww * (t * t) + r * t + q) == 0) by lra.
  assert (H7 : 4 * ww * (ww * (t * t) + r * t + q) == 0 -> ww * (t * t) + r * t + q == 0).
  { intro E. apply Qmult_integral in E. destruct E as [E|E]; [lra|exact E]. }
  apply H7 in H6. lra.
Qed.

Theorem weak_duality : forall x lam y,
  (forall v, In v vars -> 0 < v_w v) ->
  (forall c, In c cons -> (c_l c < n)%nat /\ (c_r c < n)%nat) ->
  (forall l, In l lam -> 0 <= l) ->
  feasible vars cons y ->
  cost_fn vars x - dual_gap vars cons x lam <= cost_fn vars y.
Proof.
  intros x lam y Hw Hidx Hlam Hy.
  set (t := fun i => xat y i - xat x i).
  set (r := fun i => resid vars cons x lam i).
  (* cost y - cost x, termwise *)
  assert (Hsplit : cost_fn vars y - cost_fn vars x ==
                   qsum (map (fun i => w i * (t i * t i) + r i * t i) (seq 0 n))
                   + qsum (map (fun i => s i * net i cons lam * t i) (seq 0 n))).
  { unfold cost_fn. rewrite <- qsum_map_plus.
    assert (E : forall a b, a - b == a + (-1) * b) by (intros; ring).
    rewrite E, <- qsum_map_scal, <- qsum_map_plus.
    apply qsum_map_ext. intros i _. unfold r, resid, t, w, s. fold (var_at vars i). ring. }
  rewrite exchange in Hsplit by exact Hidx.
  assert (E2 := lin_gap_slack x y cons lam). fold t in E2. rewrite E2 in Hsplit. clear E2.
  assert (Hy0 : 0 <= comp_gap vars y cons lam) by (apply comp_gap_nonneg; assumption).
  assert (Hsq : - qsum (map (fun i => r i * r i / (4 * w i)) (seq 0 n))
                <= qsum (map (fun i => w i * (t i * t i) + r i * t i) (seq 0 n))).
  { assert (E : forall a, - a == (-1) * a) by (intros; ring).
    rewrite E, <- qsum_map_scal. apply qsum_map_le. intros i Hi.
    apply in_seq in Hi.
    assert (0 < w i) by (apply Hw; unfold var_at; apply nth_In; unfold n in Hi; lia).
    assert (H1 := square_completion (w i) (r i) (t i) H). lra. }
  unfold dual_gap. fold n. subst r. unfold w in *. cbv beta in *.
  set (A := qsum (map (fun i => v_w (var_at vars i) * (t i * t i) + resid vars cons x lam i * t i) (seq 0 n))) in *.
  set (B := qsum (map (fun i => resid vars cons x lam i * resid vars cons x lam i / (4 * v_w (var_at vars i))) (seq 0 n))) in *.
  lra.
Qed.

(* the textbook statement: a KKT point is optimal *)
Theorem kkt_sufficient_gen : forall x lam,
  (forall v, In v vars -> 0 < v_w v) ->
  (forall c, In c cons -> (c_l c < n)%nat /\ (c_r c < n)%nat) ->
  feasible vars cons x ->
  (forall l, In l lam -> 0 <= l) ->
  (forall i, (i < n)%nat -> resid vars cons x lam i == 0) ->       (* stationarity *)
  comp_gap vars x cons lam == 0 ->                                  (* complementary slackness *)
  forall y, feasible vars cons y -> cost_fn vars x <= cost_fn vars y.
Proof.
  intros x lam Hw Hidx _ Hlam Hst Hcs y Hy.
  assert (H := weak_duality x lam y Hw Hidx Hlam Hy).
  assert (G : dual_gap vars cons x lam == 0).
  { unfold dual_gap. rewrite Hcs. fold n.
    rewrite qsum_map_zero; [ring|]. intros i Hi. apply in_seq in Hi.
    rewrite (Hst i) by lia. unfold Qdiv. ring. }
  lra.
Qed.
End Duality.

(* ------------------------------------------- soundness of the checkers --- *)
Lemma inst_ok_spec : forall vars cons, inst_ok vars cons = true ->
  (forall v, In v vars -> 0 < v_w v /\ 0 < v_sc v) /\
  (forall c, In c cons -> (c_l c < length vars)%nat /\ (c_r c < length vars)%nat).
Proof.
  intros vars cons H. unfold inst_ok in H. apply andb_true_iff in H. destruct H as [H1 H2].
  rewrite forallb_forall in H1, H2. split.
  - intros v Hv. specialize (H1 v Hv). apply andb_true_iff in H1. destruct H1 as [A B].
    apply Qltb_lt in A. apply Qltb_lt in B. now split.
  - intros c Hc. specialize (H2 c Hc). apply andb_true_iff in H2. destruct H2 as [A B].
    apply Nat.ltb_lt in A. apply Nat.ltb_lt in B. now split.
Qed.

Lemma lam_ok_spec : forall cons lam, lam_ok cons lam = true ->
  length lam = length cons /\ forall l, In l lam -> 0 <= l.
Proof.
  intros cons lam H. unfold lam_ok in H. apply andb_true_iff in H. destruct H as [H1 H2].
  apply Nat.eqb_eq in H1. rewrite forallb_forall in H2. split; [exact H1|].
  intros l Hl. apply Qle_bool_iff. now apply H2.
Qed.

Theorem cert_ok_sound : forall vars cons x lam bound,
  cert_ok vars cons x lam bound = true ->
  forall y, feasible vars cons y -> cost_fn vars x - bound <= cost_fn vars y.
Proof.
  intros vars cons x lam bound H y Hy. unfold cert_ok in H.
  apply andb_true_iff in H. destruct H as [H H3]. apply andb_true_iff in H. destruct H as [H1 H2].
  apply inst_ok_spec in H1. destruct H1 as [Hw Hidx]. apply lam_ok_spec in H2. destruct H2 as [_ Hl].
  apply Qle_bool_iff in H3.
  assert (W := weak_duality vars cons x lam y (fun v Hv => proj1 (Hw v Hv)) Hidx Hl Hy). lra.
Qed.

Lemma feas_ok_spec : forall vars x eps cs fl, feas_ok vars x eps cs fl = true ->
  length fl = length cs /\
  forall k, (k < length cs)%nat -> nth k fl true = false -> - eps <= slack_fn vars x (nth k cs dcon).
Proof.
  intros vars x eps cs. induction cs as [|c cs IH]; intros fl H.
  - destruct fl; [|discriminate]. split; [reflexivity|]. intros k Hk. simpl in Hk. lia.
  - destruct fl as [|f fl]; [discriminate|]. simpl in H.
    apply andb_true_iff in H. destruct H as [H1 H2]. destruct (IH fl H2) as [L R]. split.
    + simpl. now rewrite L.
    + intros k Hk Hf. destruct k as [|k]; simpl in *.
      * subst f. simpl in H1. now apply Qle_bool_iff.
      * apply R; [lia|exact Hf].
Qed.

Lemma all_false_nth : forall fl k, forallb negb fl = true -> (k < length fl)%nat -> nth k fl true = false.
Proof.
  induction fl as [|f fl IH]; intros k H Hk; simpl in *; [lia|].
  apply andb_true_iff in H. destruct H as [H1 H2]. destruct k; [now destruct f|]. apply IH; [exact H2|lia].
Qed.

(* kkt_ok: the exit state is feasible within 1e-10 and within
   1e-6 (1 + cost) of the optimum *)
Theorem kkt_ok_sound : forall vars cons st, kkt_ok vars cons st = true ->
  let x := positions vars st in
  (forall c, In c cons -> - FEAS_EPS <= slack_fn vars x c) /\
  (forall y, feasible vars cons y -> cost_fn vars x - opt_bound (cost_fn vars x) <= cost_fn vars y).
Proof.
  intros vars cons st H x. unfold kkt_ok in H.
  destruct (exit_multipliers vars cons st) as [lam|k]; [|discriminate].
  fold x in H. apply andb_true_iff in H. destruct H as [H H3].
  apply andb_true_iff in H. destruct H as [H1 H2]. split.
  - intros c Hc. unfold state_feas_ok in H2. fold x in H2.
    apply feas_ok_spec in H2. destruct H2 as [L R].
    destruct (In_nth _ _ dcon Hc) as [k [Hk Ek]]. rewrite <- Ek. apply R; [exact Hk|].
    apply all_false_nth; [exact H1|lia].
  - intros y Hy. exact (cert_ok_sound vars cons x lam _ H3 y Hy).
Qed.

(* feasibility certified per run, also with flags (cyclic instances) *)
Theorem state_feas_ok_sound : forall vars cons st, state_feas_ok vars cons st = true ->
  length (flags st) = length cons /\
  forall k, (k < length cons)%nat -> nth k (flags st) true = false ->
            - FEAS_EPS <= slack_fn vars (positions vars st) (nth k cons dcon).
Proof. intros vars cons st H. exact (feas_ok_spec _ _ _ _ _ H). Qed.
