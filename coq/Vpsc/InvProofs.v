(* Structural invariants of the solver model and their preservation by the
   merge path (Blocks.merge / mergeAcross / remove), mostViolated and the
   flagging branches: I1 (every inactive unflagged constraint is in the
   inactive list), I2 (an active constraint has both ends in one block with
   offset difference = gap), I4 (the blocks partition the variables), and the
   blockInd bookkeeping that remove relies on. *)
From Coq Require Import ZArith QArith Qabs Qminmax List Bool Arith Lia Lqa Permutation.
From Labella Require Import Vpsc.Vpsc Vpsc.VpscBase Vpsc.InvBase.
Import ListNotations.
Open Scope Q_scope.

(* ------------------------------------------------- accessor / update --- *)
Lemma vst_set_v : forall st v x u,
  vst_ (set_v st v x) u = if (Nat.eqb v u && Nat.ltb v (length (s_v st)))%bool then x else vst_ st u.
Proof. intros. unfold vst_, set_v. cbn [s_v]. apply nth_upd. Qed.
Lemma cst_set_c : forall st c x u,
  cst_ (set_c st c x) u = if (Nat.eqb c u && Nat.ltb c (length (s_c st)))%bool then x else cst_ st u.
Proof. intros. unfold cst_, set_c. cbn [s_c]. apply nth_upd. Qed.
Lemma blk_set_b : forall st b x u,
  blk_ (set_b st b x) u = if (Nat.eqb b u && Nat.ltb b (length (s_b st)))%bool then x else blk_ st u.
Proof. intros. unfold blk_, set_b. cbn [s_b]. apply nth_upd. Qed.

Section Inv.
Variable vars : list var.
Variable cons : list con.
Let n := length vars.
Let m := length cons.

(* ----------------------------------------------------- add_variable --- *)
Lemma add_variable_frame : forall st bid v,
  let st' := add_variable vars st bid v in
  s_list st' = s_list st /\ s_inact st' = s_inact st /\ s_c st' = s_c st /\
  length (s_v st') = length (s_v st) /\ length (s_b st') = length (s_b st).
Proof.
  intros st bid v. unfold add_variable, set_b, set_v. cbn. rewrite !length_upd. repeat split.
Qed.

Lemma add_variable_vst : forall st bid v u, (v < length (s_v st))%nat ->
  vst_ (add_variable vars st bid v) u = if Nat.eqb v u then mkVst (o_off (vst_ st v)) bid else vst_ st u.
Proof.
  intros st bid v u Hv. unfold add_variable.
  change (vst_ (set_b ?s ?b ?x) u) with (vst_ s u).
  rewrite vst_set_v. replace (Nat.ltb v (length (s_v st))) with true by (symmetry; now apply Nat.ltb_lt).
  now rewrite andb_true_r.
Qed.

Lemma add_variable_blk_other : forall st bid v b, b <> bid ->
  blk_ (add_variable vars st bid v) b = blk_ st b.
Proof.
  intros st bid v b H. unfold add_variable. rewrite blk_set_b.
  replace (Nat.eqb bid b) with false by (symmetry; apply Nat.eqb_neq; congruence). reflexivity.
Qed.

Lemma add_variable_blk_same : forall st bid v, (bid < length (s_b st))%nat ->
  let b' := blk_ (add_variable vars st bid v) bid in
  b_vars b' = b_vars (blk_ st bid) ++ [v] /\ b_ind b' = b_ind (blk_ st bid) /\ b_sc b' = b_sc (blk_ st bid).
Proof.
  intros st bid v H. unfold add_variable. cbv zeta. rewrite blk_set_b. rewrite Nat.eqb_refl.
  cbn [set_v s_b].
  replace (Nat.ltb bid (length (s_b st))) with true by (symmetry; now apply Nat.ltb_lt).
  cbn. repeat split.
Qed.

(* ------------------------------------------------------ merge_across --- *)
Definition mstep (a : nat) (dist : Q) (s : state) (v : nat) : state :=
  add_variable vars (set_off s v (qr (o_off (vst_ s v) + dist))) a v.

Lemma set_off_frame : forall s v o,
  s_list (set_off s v o) = s_list s /\ s_inact (set_off s v o) = s_inact s /\ s_c (set_off s v o) = s_c s /\
  length (s_v (set_off s v o)) = length (s_v s) /\ s_b (set_off s v o) = s_b s.
Proof. intros. unfold set_off, set_v. cbn. rewrite length_upd. repeat split. Qed.

Lemma mstep_frame : forall a dist s v,
  s_list (mstep a dist s v) = s_list s /\ s_inact (mstep a dist s v) = s_inact s /\
  s_c (mstep a dist s v) = s_c s /\ length (s_v (mstep a dist s v)) = length (s_v s) /\
  length (s_b (mstep a dist s v)) = length (s_b s).
Proof.
  intros. unfold mstep.
  destruct (add_variable_frame (set_off s v (qr (o_off (vst_ s v) + dist))) a v) as (A & B & C & D & E).
  destruct (set_off_frame s v (qr (o_off (vst_ s v) + dist))) as (A' & B' & C' & D' & E').
  cbv zeta in *. rewrite A, B, C, D, E, A', B', C', D', E'. repeat split.
Qed.

Lemma mstep_vst : forall a dist s v u, (v < length (s_v s))%nat ->
  vst_ (mstep a dist s v) u = if Nat.eqb v u then mkVst (qr (o_off (vst_ s v) + dist)) a else vst_ s u.
Proof.
  intros a dist s v u Hv. unfold mstep.
  rewrite add_variable_vst by (destruct (set_off_frame s v (qr (o_off (vst_ s v) + dist))) as (_ & _ & _ & D & _); now rewrite D).
  unfold set_off. rewrite !vst_set_v. rewrite Nat.eqb_refl.
  replace (Nat.ltb v (length (s_v s))) with true by (symmetry; now apply Nat.ltb_lt).
  cbn [andb o_off]. destruct (Nat.eqb v u); reflexivity.
Qed.

Lemma mstep_blk_other : forall a dist s v b, b <> a -> blk_ (mstep a dist s v) b = blk_ s b.
Proof. intros. unfold mstep. now rewrite add_variable_blk_other. Qed.

Lemma mstep_blk_same : forall a dist s v, (a < length (s_b s))%nat ->
  b_vars (blk_ (mstep a dist s v) a) = b_vars (blk_ s a) ++ [v] /\
  b_ind (blk_ (mstep a dist s v) a) = b_ind (blk_ s a) /\
  b_sc (blk_ (mstep a dist s v) a) = b_sc (blk_ s a).
Proof.
  intros a dist s v H. unfold mstep.
  apply (add_variable_blk_same (set_off s v (qr (o_off (vst_ s v) + dist))) a v).
  destruct (set_off_frame s v (qr (o_off (vst_ s v) + dist))) as (_ & _ & _ & _ & E). now rewrite E.
Qed.

Lemma mfold_spec : forall a dist L s, (a < length (s_b s))%nat -> NoDup L ->
  (forall v, In v L -> (v < length (s_v s))%nat) ->
  let s' := fold_left (mstep a dist) L s in
  s_list s' = s_list s /\ s_inact s' = s_inact s /\ s_c s' = s_c s /\
  length (s_v s') = length (s_v s) /\ length (s_b s') = length (s_b s) /\
  (forall u, vst_ s' u = if in_dec Nat.eq_dec u L then mkVst (qr (o_off (vst_ s u) + dist)) a else vst_ s u) /\
  (forall b, b <> a -> blk_ s' b = blk_ s b) /\
  b_vars (blk_ s' a) = b_vars (blk_ s a) ++ L /\ b_ind (blk_ s' a) = b_ind (blk_ s a) /\
  b_sc (blk_ s' a) = b_sc (blk_ s a).
Proof.
  intros a dist L. induction L as [|v L IH]; intros s Ha ND Hv; cbn [fold_left]; cbv zeta.
  - repeat split; try reflexivity. now rewrite app_nil_r.
  - inversion ND as [|? ? Hn ND']; subst.
    destruct (mstep_frame a dist s v) as (A & B & C & D & E).
    assert (Ha' : (a < length (s_b (mstep a dist s v)))%nat) by now rewrite E.
    assert (Hv' : forall u, In u L -> (u < length (s_v (mstep a dist s v)))%nat)
      by (intros u Hu; rewrite D; apply Hv; now right).
    destruct (IH (mstep a dist s v) Ha' ND' Hv') as (A1 & B1 & C1 & D1 & E1 & V1 & O1 & S1 & I1 & SC1).
    destruct (mstep_blk_same a dist s v Ha) as (S0 & I0 & SC0).
    repeat split.
    + now rewrite A1. + now rewrite B1. + now rewrite C1. + now rewrite D1. + now rewrite E1.
    + intros u. rewrite V1. rewrite mstep_vst by (apply Hv; now left).
      destruct (in_dec Nat.eq_dec u L) as [I|I]; destruct (in_dec Nat.eq_dec u (v :: L)) as [J|J].
      * destruct (Nat.eqb_spec v u) as [Q|Q]; [subst; contradiction|reflexivity].
      * exfalso. apply J. now right.
      * destruct J as [J|J]; [|contradiction]. subst u. now rewrite Nat.eqb_refl.
      * destruct (Nat.eqb_spec v u) as [Q|Q]; [exfalso; apply J; now left|reflexivity].
    + intros b Hb. rewrite O1 by exact Hb. now apply mstep_blk_other.
    + rewrite S1, S0. now rewrite <- app_assoc.
    + now rewrite I1.
    + now rewrite SC1.
Qed.

Lemma merge_across_spec : forall st a b c dist,
  a <> b -> (a < length (s_b st))%nat -> NoDup (b_vars (blk_ st b)) ->
  (forall v, In v (b_vars (blk_ st b)) -> (v < length (s_v st))%nat) ->
  let L := b_vars (blk_ st b) in
  let st' := merge_across vars st a b c dist in
  s_list st' = s_list st /\ s_inact st' = s_inact st /\
  length (s_v st') = length (s_v st) /\ length (s_b st') = length (s_b st) /\
  length (s_c st') = length (s_c st) /\
  (forall u, cst_ st' u = if (Nat.eqb c u && Nat.ltb c (length (s_c st)))%bool
                          then mkCst true (k_uns (cst_ st c)) (k_lm (cst_ st c)) else cst_ st u) /\
  (forall u, vst_ st' u = if in_dec Nat.eq_dec u L then mkVst (qr (o_off (vst_ st u) + dist)) a else vst_ st u) /\
  (forall b', b' <> a -> blk_ st' b' = blk_ st b') /\
  b_vars (blk_ st' a) = b_vars (blk_ st a) ++ L /\ b_ind (blk_ st' a) = b_ind (blk_ st a).
Proof.
  intros st a b c dist Hab Ha ND Hv L st'.
  unfold st', merge_across.
  set (st1 := set_active st c true).
  assert (F1 : s_list st1 = s_list st /\ s_inact st1 = s_inact st /\ s_v st1 = s_v st /\ s_b st1 = s_b st)
    by (unfold st1, set_active, set_c; cbn; repeat split).
  destruct F1 as (F1a & F1b & F1c & F1d).
  assert (Lc : length (s_c st1) = length (s_c st)) by (unfold st1, set_active, set_c; cbn; now rewrite length_upd).
  change (b_vars (blk_ st1 b)) with L.
  change (fold_left _ L st1) with (fold_left (mstep a dist) L st1).
  assert (Ha1 : (a < length (s_b st1))%nat) by now rewrite F1d.
  assert (Hv1 : forall v, In v L -> (v < length (s_v st1))%nat) by (intros v Hin; rewrite F1c; now apply Hv).
  destruct (mfold_spec a dist L st1 Ha1 ND Hv1) as (A & B & C & D & E & V & O & S & I & SC).
  set (st2 := fold_left (mstep a dist) L st1) in *.
  assert (La : (a < length (s_b st2))%nat) by (rewrite E; exact Ha1).
  repeat split.
  - unfold set_b; cbn [s_list]. now rewrite A.
  - unfold set_b; cbn [s_inact]. now rewrite B.
  - unfold set_b; cbn [s_v]. now rewrite D, F1c.
  - unfold set_b; cbn [s_b]. now rewrite length_upd, E, F1d.
  - unfold set_b; cbn [s_c]. now rewrite C.
  - intros u. change (cst_ (set_b st2 a _) u) with (cst_ st2 u). unfold cst_ at 1. rewrite C. fold (cst_ st1 u).
    unfold st1, set_active. now rewrite cst_set_c.
  - intros u. change (vst_ (set_b st2 a _) u) with (vst_ st2 u). rewrite V. unfold vst_, st1, set_active, set_c. cbn [s_v]. reflexivity.
  - intros b' Hb'. rewrite blk_set_b. replace (Nat.eqb a b') with false by (symmetry; apply Nat.eqb_neq; congruence).
    cbn [andb]. rewrite O by exact Hb'. reflexivity.
  - rewrite blk_set_b, Nat.eqb_refl. replace (Nat.ltb a (length (s_b st2))) with true by (symmetry; now apply Nat.ltb_lt).
    cbn [andb with_posn b_vars]. rewrite S. reflexivity.
  - rewrite blk_set_b, Nat.eqb_refl. replace (Nat.ltb a (length (s_b st2))) with true by (symmetry; now apply Nat.ltb_lt).
    cbn [andb with_posn b_ind]. rewrite I. reflexivity.
Qed.

(* ---------------------------------------------------------- bs_remove --- *)
Lemma bs_remove_spec : forall st bid i,
  NoDup (s_list st) -> (i < length (s_list st))%nat -> nth i (s_list st) 0%nat = bid ->
  b_ind (blk_ st bid) = i ->
  (forall b, In b (s_list st) -> (b < length (s_b st))%nat) ->
  let st' := bs_remove st bid in
  let swap := last (s_list st) 0%nat in
  s_list st' = swap_remove (s_list st) i 0%nat /\
  s_v st' = s_v st /\ s_c st' = s_c st /\ s_inact st' = s_inact st /\
  length (s_b st') = length (s_b st) /\
  (forall b', b_vars (blk_ st' b') = b_vars (blk_ st b')) /\
  (forall b', b_ind (blk_ st' b') = if (Nat.eqb swap b' && negb (Nat.eqb bid swap))%bool then i else b_ind (blk_ st b')).
Proof.
  intros st bid i ND Hi Hn Hind Hids st' swap.
  assert (Hl : s_list st <> []) by (intro E; rewrite E in Hi; simpl in Hi; lia).
  assert (Hswap_in : In swap (s_list st)).
  { unfold swap. rewrite nth_last. apply nth_In. lia. }
  unfold st', bs_remove. fold swap. rewrite Hind.
  destruct (Nat.eqb_spec bid swap) as [E|E].
  - (* the removed block is the last one *)
    assert (Ei : i = (length (s_list st) - 1)%nat).
    { apply (proj1 (NoDup_nth (s_list st) 0%nat) ND); [exact Hi|lia|]. rewrite Hn, E. unfold swap. now rewrite nth_last. }
    cbn. repeat split.
    + unfold swap_remove. rewrite nth_last, <- Ei. now rewrite upd_nth_same.
    + intros b'. now rewrite andb_false_r.
  - cbn [set_list set_b s_list s_v s_c s_inact s_b]. repeat split.
    + now rewrite length_upd.
    + intros b'. unfold blk_ at 1. cbn [s_b set_list set_b]. rewrite nth_upd.
      destruct (Nat.eqb swap b' && Nat.ltb swap (length (s_b st)))%bool eqn:Q; [|reflexivity].
      apply andb_true_iff in Q. destruct Q as [Q _]. apply Nat.eqb_eq in Q. subst b'. reflexivity.
    + intros b'. unfold blk_ at 1. cbn [s_b set_list set_b]. rewrite nth_upd.
      replace (Nat.ltb swap (length (s_b st))) with true by (symmetry; apply Nat.ltb_lt; now apply Hids).
      rewrite andb_true_r. cbn [negb andb].
      destruct (Nat.eqb_spec swap b') as [Q|Q]; [subst b'; reflexivity|reflexivity].
Qed.

(* ------------------------------------------------------ the invariant --- *)
Definition bvars (st : state) (b : nat) : list nat := b_vars (blk_ st b).

Record WF (pend : option nat) (st : state) : Prop := mkWF {
  wf_nv : length (s_v st) = n;
  wf_nc : length (s_c st) = m;
  wf_part : Permutation (flat_map (bvars st) (s_list st)) (seq 0 n);                     (* I4 *)
  wf_blk : forall b v, In b (s_list st) -> In v (bvars st b) -> o_blk (vst_ st v) = b;  (* I4 *)
  wf_ids : forall b, In b (s_list st) -> (b < length (s_b st))%nat;
  wf_ind : forall i, (i < length (s_list st))%nat -> b_ind (blk_ st (nth i (s_list st) 0%nat)) = i;
  wf_nodup : NoDup (s_list st);
  wf_I2 : forall c, (c < m)%nat -> k_act (cst_ st c) = true ->
          o_blk (vst_ st (c_l (con_ cons c))) = o_blk (vst_ st (c_r (con_ cons c))) /\
          o_off (vst_ st (c_r (con_ cons c))) - o_off (vst_ st (c_l (con_ cons c))) == c_gap (con_ cons c);
  wf_I1 : forall c, (c < m)%nat -> k_act (cst_ st c) = false -> k_uns (cst_ st c) = false ->
          Some c <> pend -> In c (s_inact st);
  wf_inact_lt : forall c, In c (s_inact st) -> (c < m)%nat;
  wf_noself : forall c, (c < m)%nat -> k_act (cst_ st c) = true -> c_l (con_ cons c) <> c_r (con_ cons c)
}.

Definition idx_ok : Prop := forall c, (c < m)%nat -> (c_l (con_ cons c) < n)%nat /\ (c_r (con_ cons c) < n)%nat.

Lemma wf_var_block : forall pend st v, WF pend st -> (v < n)%nat ->
  In (o_blk (vst_ st v)) (s_list st) /\ In v (bvars st (o_blk (vst_ st v))).
Proof.
  intros pend st v W Hv.
  assert (Hin : In v (flat_map (bvars st) (s_list st))).
  { apply (Permutation_in v (Permutation_sym (wf_part _ _ W))). apply in_seq. lia. }
  apply in_flat_map in Hin. destruct Hin as [b [Hb Hvb]].
  rewrite (wf_blk _ _ W b v Hb Hvb). now split.
Qed.

Lemma wf_bvars_lt : forall pend st b v, WF pend st -> In b (s_list st) -> In v (bvars st b) -> (v < n)%nat.
Proof.
  intros pend st b v W Hb Hv.
  assert (Hin : In v (seq 0 n)).
  { apply (Permutation_in v (wf_part _ _ W)). apply in_flat_map. now exists b. }
  apply in_seq in Hin. lia.
Qed.

Lemma wf_nodup_flat : forall pend st, WF pend st -> NoDup (flat_map (bvars st) (s_list st)).
Proof.
  intros pend st W. apply (Permutation_NoDup (Permutation_sym (wf_part _ _ W))). apply seq_NoDup.
Qed.

(* absorbing block b into block a across constraint c with shift d *)
Lemma WF_merge_pair : forall pend st a b c d,
  WF pend st -> idx_ok -> (c < m)%nat -> (pend = None \/ pend = Some c) ->
  In a (s_list st) -> In b (s_list st) -> a <> b ->
  let cl := c_l (con_ cons c) in let cr := c_r (con_ cons c) in
  ((o_blk (vst_ st cl) = a /\ o_blk (vst_ st cr) = b /\
    o_off (vst_ st cr) + d - o_off (vst_ st cl) == c_gap (con_ cons c)) \/
   (o_blk (vst_ st cl) = b /\ o_blk (vst_ st cr) = a /\
    o_off (vst_ st cr) - (o_off (vst_ st cl) + d) == c_gap (con_ cons c))) ->
  WF None (bs_remove (merge_across vars st a b c d) b).
Proof.
  intros pend st a b c d W IDX Hc Hpend Ha Hb Hab cl cr Hshift.
  assert (NDF := wf_nodup_flat _ _ W).
  assert (NDL : NoDup (bvars st b)) by (apply (NoDup_flat_map_elem (bvars st) (s_list st)); assumption).
  assert (HLlt : forall v, In v (bvars st b) -> (v < length (s_v st))%nat)
    by (intros v Hv; rewrite (wf_nv _ _ W); eapply wf_bvars_lt; eauto).
  destruct (merge_across_spec st a b c d Hab (wf_ids _ _ W a Ha) NDL HLlt)
    as (A1 & B1 & LV1 & LB1 & LC1 & C1 & V1 & O1 & S1 & I1).
  set (st1 := merge_across vars st a b c d) in *.
  fold (bvars st b) in V1, S1.
  destruct (In_nth _ _ 0%nat Hb) as [i [Hi Hnth]].
  assert (Hbind : b_ind (blk_ st1 b) = i).
  { rewrite O1 by congruence. rewrite <- Hnth. apply (wf_ind _ _ W). exact Hi. }
  assert (ND1 : NoDup (s_list st1)) by (rewrite A1; apply (wf_nodup _ _ W)).
  assert (Hi1 : (i < length (s_list st1))%nat) by now rewrite A1.
  assert (Hn1 : nth i (s_list st1) 0%nat = b) by now rewrite A1.
  assert (Hids1 : forall x, In x (s_list st1) -> (x < length (s_b st1))%nat)
    by (intros x Hx; rewrite LB1; apply (wf_ids _ _ W); now rewrite <- A1).
  destruct (bs_remove_spec st1 b i ND1 Hi1 Hn1 Hbind Hids1) as (A2 & V2 & C2 & B2 & LB2 & S2 & I2).
  set (st2 := bs_remove st1 b) in *.
  rewrite A1 in A2.
  set (l := s_list st) in *. set (l' := swap_remove l i 0%nat) in *.
  assert (Pl : Permutation (b :: l') l) by (rewrite <- Hnth; apply swap_remove_perm; [exact Hi|apply (wf_nodup _ _ W)]).
  assert (Hl'in : forall x, In x l' <-> In x l /\ x <> b).
  { intros x. unfold l'. rewrite swap_remove_In by (try exact Hi; apply (wf_nodup _ _ W)). now rewrite Hnth. }
  (* block contents after the merge *)
  assert (BV1 : forall x, bvars st1 x = if Nat.eqb x a then bvars st a ++ bvars st b else bvars st x).
  { intros x. unfold bvars. destruct (Nat.eqb_spec x a) as [E|E]; [subst; exact S1|now rewrite O1]. }
  assert (BV2 : forall x, bvars st2 x = bvars st1 x) by (intros x; unfold bvars; apply S2).
  assert (VS2 : forall u, vst_ st2 u = vst_ st1 u) by (intros u; unfold vst_; now rewrite V2).
  assert (CS2 : forall u, cst_ st2 u = cst_ st1 u) by (intros u; unfold cst_; now rewrite C2).
  (* membership in L is decided by the old block pointer *)
  assert (InL : forall v, (v < n)%nat -> (In v (bvars st b) <-> o_blk (vst_ st v) = b)).
  { intros v Hv. split.
    - intro H. now apply (wf_blk _ _ W).
    - intro H. destruct (wf_var_block _ _ v W Hv) as [_ Q]. now rewrite H in Q. }
  constructor.
  - now rewrite V2, LV1, (wf_nv _ _ W).
  - now rewrite C2, LC1, (wf_nc _ _ W).
  - (* partition *)
    rewrite A2. fold l'.
    rewrite (flat_map_ext_in (bvars st2) (bvars st1)) by (intros; apply BV2).
    assert (P1 : Permutation (flat_map (bvars st1) l) (flat_map (bvars st) l ++ bvars st b)).
    { apply (flat_map_extend (bvars st) (bvars st1) l a (bvars st b)).
      - apply (wf_nodup _ _ W). - exact Ha.
      - rewrite BV1. now rewrite Nat.eqb_refl.
      - intros x Hx. rewrite BV1. now replace (Nat.eqb x a) with false by (symmetry; now apply Nat.eqb_neq). }
    assert (P2 : Permutation (flat_map (bvars st1) l) (bvars st1 b ++ flat_map (bvars st1) l')).
    { apply Permutation_sym. apply (flat_map_perm (bvars st1)) in Pl. exact Pl. }
    assert (Eb : bvars st1 b = bvars st b).
    { rewrite BV1. now replace (Nat.eqb b a) with false by (symmetry; apply Nat.eqb_neq; congruence). }
    rewrite Eb in P2.
    assert (P3 : Permutation (bvars st b ++ flat_map (bvars st1) l') (bvars st b ++ flat_map (bvars st) l)).
    { transitivity (flat_map (bvars st1) l); [now apply Permutation_sym|].
      transitivity (flat_map (bvars st) l ++ bvars st b); [exact P1|apply Permutation_app_comm]. }
    apply Permutation_app_inv_l in P3. transitivity (flat_map (bvars st) l); [exact P3|apply (wf_part _ _ W)].
  - (* block pointers *)
    intros x v Hx Hv. rewrite A2 in Hx. fold l' in Hx. apply Hl'in in Hx. destruct Hx as [Hx Hxb].
    rewrite BV2, BV1 in Hv. rewrite VS2, V1.
    destruct (Nat.eqb_spec x a) as [E|E].
    + subst x. destruct (in_dec Nat.eq_dec v (bvars st b)) as [J|J]; [reflexivity|].
      apply in_app_or in Hv. destruct Hv as [Hv|Hv]; [|contradiction]. now apply (wf_blk _ _ W).
    + destruct (in_dec Nat.eq_dec v (bvars st b)) as [J|J].
      * exfalso. apply Hxb. apply (NoDup_flat_map_disjoint (bvars st) l x b v NDF Hx Hb Hv J).
      * now apply (wf_blk _ _ W).
  - intros x Hx. rewrite A2 in Hx. fold l' in Hx. apply Hl'in in Hx. rewrite LB2, LB1. apply (wf_ids _ _ W). tauto.
  - (* blockInd *)
    intros j Hj. rewrite A2 in *. fold l' in Hj |- *. unfold l' in Hj. rewrite swap_remove_length in Hj.
    unfold l'. rewrite swap_remove_nth by (assumption || exact Hi).
    assert (F := proj1 (NoDup_nth l 0%nat) (wf_nodup _ _ W)).
    assert (Hb1 : forall x, b_ind (blk_ st1 x) = b_ind (blk_ st x)).
    { intros x. destruct (Nat.eq_dec x a) as [E|E]; [subst; exact I1|now rewrite O1]. }
    rewrite I2. rewrite A1. fold l.
    destruct (Nat.eqb_spec i j) as [E|E].
    + subst j. rewrite Nat.eqb_refl.
      assert (Hne : b <> last l 0%nat).
      { intro Q. rewrite nth_last in Q. rewrite <- Hnth in Q.
        assert (i = length l - 1)%nat by (apply F; [exact Hi|unfold l in *; lia|exact Q]). lia. }
      replace (Nat.eqb b (last l 0%nat)) with false by (symmetry; now apply Nat.eqb_neq). reflexivity.
    + assert (Hne : last l 0%nat <> nth j l 0%nat).
      { intro Q. rewrite nth_last in Q.
        assert (length l - 1 = j)%nat by (apply F; [unfold l in *; lia|unfold l in *; lia|exact Q]). lia. }
      replace (Nat.eqb (last l 0%nat) (nth j l 0%nat)) with false by (symmetry; now apply Nat.eqb_neq).
      cbn [andb]. rewrite Hb1. apply (wf_ind _ _ W). unfold l in *. lia.
  - rewrite A2. apply swap_remove_NoDup; [exact Hi|apply (wf_nodup _ _ W)].
  - (* I2 *)
    intros c' Hc' Hact. rewrite CS2, C1 in Hact. rewrite !VS2, !V1.
    destruct (IDX c' Hc') as [Hl Hr].
    replace (Nat.ltb c (length (s_c st))) with true in Hact by (symmetry; apply Nat.ltb_lt; now rewrite (wf_nc _ _ W)).
    rewrite andb_true_r in Hact.
    destruct (Nat.eqb_spec c c') as [E|E].
    + subst c'. fold cl cr.
      destruct Hshift as [(Ql & Qr & Qo)|(Ql & Qr & Qo)].
      * destruct (in_dec Nat.eq_dec cl (bvars st b)) as [J|J];
          [apply InL in J; [congruence|exact Hl]|].
        destruct (in_dec Nat.eq_dec cr (bvars st b)) as [K|K];
          [|exfalso; apply K; apply InL; [exact Hr|exact Qr]].
        cbn [o_blk o_off]. split; [exact Ql|]. rewrite qr_eq. exact Qo.
      * destruct (in_dec Nat.eq_dec cr (bvars st b)) as [J|J];
          [apply InL in J; [congruence|exact Hr]|].
        destruct (in_dec Nat.eq_dec cl (bvars st b)) as [K|K];
          [|exfalso; apply K; apply InL; [exact Hl|exact Ql]].
        cbn [o_blk o_off]. split; [symmetry; exact Qr|]. rewrite qr_eq. exact Qo.
    + destruct (wf_I2 _ _ W c' Hc' Hact) as [Qb Qo].
      set (vl := c_l (con_ cons c')) in *. set (vr := c_r (con_ cons c')) in *.
      destruct (in_dec Nat.eq_dec vl (bvars st b)) as [J|J]; destruct (in_dec Nat.eq_dec vr (bvars st b)) as [K|K].
      * cbn [o_blk o_off]. split; [reflexivity|]. rewrite !qr_eq. lra.
      * exfalso. apply K. apply InL; [exact Hr|]. rewrite <- Qb. now apply InL.
      * exfalso. apply J. apply InL; [exact Hl|]. rewrite Qb. now apply InL.
      * now split.
  - (* I1 *)
    intros c' Hc' Hact Huns _. rewrite B2, B1. rewrite CS2, C1 in Hact, Huns.
    replace (Nat.ltb c (length (s_c st))) with true in Hact, Huns by (symmetry; apply Nat.ltb_lt; now rewrite (wf_nc _ _ W)).
    rewrite andb_true_r in Hact, Huns.
    destruct (Nat.eqb_spec c c') as [E|E]; [discriminate|].
    apply (wf_I1 _ _ W c' Hc' Hact Huns). destruct Hpend as [P|P]; rewrite P; congruence.
  - intros c' Hc'. rewrite B2, B1 in Hc'. now apply (wf_inact_lt _ _ W).
  - intros c' Hc' Hact. rewrite CS2, C1 in Hact.
    replace (Nat.ltb c (length (s_c st))) with true in Hact by (symmetry; apply Nat.ltb_lt; now rewrite (wf_nc _ _ W)).
    rewrite andb_true_r in Hact.
    destruct (Nat.eqb_spec c c') as [E|E]; [|now apply (wf_noself _ _ W)].
    subst c'. fold cl cr. intro Q. apply Hab.
    destruct Hshift as [(Ql & Qr & _)|(Ql & Qr & _)]; congruence.
Qed.

Lemma WF_bs_merge : forall pend st c,
  WF pend st -> idx_ok -> (c < m)%nat -> (pend = None \/ pend = Some c) ->
  o_blk (vst_ st (c_l (con_ cons c))) <> o_blk (vst_ st (c_r (con_ cons c))) ->
  WF None (bs_merge vars cons st c).
Proof.
  intros pend st c W IDX Hc Hp Hne. unfold bs_merge. fold (con_ cons c).
  set (k := con_ cons c) in *.
  destruct (IDX c Hc) as [Hl Hr]. fold k in Hl, Hr.
  destruct (wf_var_block _ _ _ W Hl) as [Il _]. destruct (wf_var_block _ _ _ W Hr) as [Ir _].
  set (lb := o_blk (vst_ st (c_l k))) in *. set (rb := o_blk (vst_ st (c_r k))) in *.
  set (dist := qr (o_off (vst_ st (c_r k)) - o_off (vst_ st (c_l k)) - c_gap k)).
  assert (Ed : dist == o_off (vst_ st (c_r k)) - o_off (vst_ st (c_l k)) - c_gap k) by apply qr_eq.
  destruct (Nat.ltb (length (b_vars (blk_ st lb))) (length (b_vars (blk_ st rb)))).
  - apply (WF_merge_pair pend st rb lb c dist W IDX Hc Hp Ir Il); [congruence|].
    right. fold k. repeat split; try reflexivity. rewrite Ed. ring.
  - apply (WF_merge_pair pend st lb rb c (- dist) W IDX Hc Hp Il Ir); [congruence|].
    left. fold k. repeat split; try reflexivity. rewrite Ed. ring.
Qed.

(* ------------------------------------- operations that keep the core --- *)
(* lm_eq: only lm fields and the instrumentation differ *)
Definition lm_eq (st st' : state) : Prop :=
  s_v st' = s_v st /\ s_b st' = s_b st /\ s_list st' = s_list st /\ s_inact st' = s_inact st /\
  length (s_c st') = length (s_c st) /\
  forall c, k_act (cst_ st' c) = k_act (cst_ st c) /\ k_uns (cst_ st' c) = k_uns (cst_ st c).

(* core_eq: additionally the position statistics of blocks may differ *)
Definition core_eq (st st' : state) : Prop :=
  s_v st' = s_v st /\ s_list st' = s_list st /\ s_inact st' = s_inact st /\
  length (s_b st') = length (s_b st) /\
  (forall b, b_vars (blk_ st' b) = b_vars (blk_ st b) /\ b_ind (blk_ st' b) = b_ind (blk_ st b)) /\
  length (s_c st') = length (s_c st) /\
  forall c, k_act (cst_ st' c) = k_act (cst_ st c) /\ k_uns (cst_ st' c) = k_uns (cst_ st c).

Lemma lm_eq_refl : forall st, lm_eq st st.
Proof. intros. unfold lm_eq. repeat split. Qed.
Lemma lm_eq_trans : forall a b c, lm_eq a b -> lm_eq b c -> lm_eq a c.
Proof.
  intros a b c (A1 & A2 & A3 & A4 & A5 & A6) (B1 & B2 & B3 & B4 & B5 & B6). unfold lm_eq.
  repeat split; try congruence; destruct (A6 c0), (B6 c0); congruence.
Qed.
Lemma core_eq_refl : forall st, core_eq st st.
Proof. intros. unfold core_eq. repeat split. Qed.
Lemma core_eq_trans : forall a b c, core_eq a b -> core_eq b c -> core_eq a c.
Proof.
  intros a b c (A1 & A2 & A3 & A4 & A5 & A6 & A7) (B1 & B2 & B3 & B4 & B5 & B6 & B7). unfold core_eq.
  repeat split; try congruence.
  - destruct (A5 b0), (B5 b0); congruence.
  - destruct (A5 b0), (B5 b0); congruence.
  - destruct (A7 c0), (B7 c0); congruence.
  - destruct (A7 c0), (B7 c0); congruence.
Qed.
Lemma lm_eq_core : forall a b, lm_eq a b -> core_eq a b.
Proof.
  intros a b (A1 & A2 & A3 & A4 & A5 & A6). unfold core_eq. repeat split; try congruence.
  - unfold blk_. now rewrite A2. - unfold blk_. now rewrite A2. - apply A6. - apply A6.
Qed.

Lemma WF_core_eq : forall pend st st', core_eq st st' -> WF pend st -> WF pend st'.
Proof.
  intros pend st st' (A1 & A2 & A3 & A4 & A5 & A6 & A7) W.
  assert (BV : forall b, bvars st' b = bvars st b) by (intros b; unfold bvars; apply A5).
  assert (VS : forall v, vst_ st' v = vst_ st v) by (intros v; unfold vst_; now rewrite A1).
  constructor.
  - rewrite A1. apply (wf_nv _ _ W).
  - rewrite A6. apply (wf_nc _ _ W).
  - rewrite A2. rewrite (flat_map_ext_in (bvars st') (bvars st)) by (intros; apply BV). apply (wf_part _ _ W).
  - intros b v Hb Hv. rewrite A2 in Hb. rewrite BV in Hv. rewrite VS. now apply (wf_blk _ _ W).
  - intros b Hb. rewrite A2 in Hb. rewrite A4. now apply (wf_ids _ _ W).
  - intros i Hi. rewrite A2 in *. destruct (A5 (nth i (s_list st) 0%nat)) as [_ E]. rewrite E. now apply (wf_ind _ _ W).
  - rewrite A2. apply (wf_nodup _ _ W).
  - intros c Hc Hact. rewrite !VS. destruct (A7 c) as [E _]. rewrite E in Hact. now apply (wf_I2 _ _ W).
  - intros c Hc Hact Huns Hp. rewrite A3. destruct (A7 c) as [E1 E2]. rewrite E1 in Hact. rewrite E2 in Huns.
    now apply (wf_I1 _ _ W).
  - intros c Hc. rewrite A3 in Hc. now apply (wf_inact_lt _ _ W).
  - intros c Hc Hact. destruct (A7 c) as [E _]. rewrite E in Hact. now apply (wf_noself _ _ W).
Qed.

Lemma set_mg_lm_eq : forall st g, lm_eq st (set_mg st g).
Proof. intros. unfold lm_eq, set_mg. cbn. repeat split. Qed.

Lemma set_lm_lm_eq : forall st c x, lm_eq st (set_lm st c x).
Proof.
  intros. unfold lm_eq, set_lm, set_c. cbn [s_v s_b s_list s_inact s_c]. rewrite length_upd. repeat split.
  - unfold cst_ at 1. cbn [s_c]. rewrite nth_upd. destruct (Nat.eqb c c0 && Nat.ltb c (length (s_c st)))%bool eqn:E; [|reflexivity].
    apply andb_true_iff in E. destruct E as [E _]. apply Nat.eqb_eq in E. now subst.
  - unfold cst_ at 1. cbn [s_c]. rewrite nth_upd. destruct (Nat.eqb c c0 && Nat.ltb c (length (s_c st)))%bool eqn:E; [|reflexivity].
    apply andb_true_iff in E. destruct E as [E _]. apply Nat.eqb_eq in E. now subst.
Qed.

Lemma fold_res_inv : forall {A S} (P : S -> S -> Prop) (f : A -> S -> res S) l,
  (forall s, P s s) -> (forall a b c, P a b -> P b c -> P a c) ->
  (forall a s s', In a l -> f a s = Ok s' -> P s s') ->
  forall s s', fold_res f l s = Ok s' -> P s s'.
Proof.
  intros A S P f l Rf Tr. induction l as [|a l IH]; intros Hf s s' H; simpl in H.
  - inversion H. apply Rf.
  - destruct (f a s) as [s1|k] eqn:E; [|discriminate].
    apply (Tr s s1 s').
    + apply (Hf a s s1); [now left|exact E].
    + apply IH; [|exact H]. intros a' t t' Ha'. apply Hf. now right.
Qed.

Lemma compute_lm_lm_eq : forall {M} (post : nat -> state -> M -> state * M),
  (forall c s mm, lm_eq s (fst (post c s mm))) ->
  forall fuel v u s mm r s' m', compute_lm vars cons post fuel v u (s, mm) = Ok (r, (s', m')) -> lm_eq s s'.
Proof.
  intros M post Hpost. induction fuel as [|f IH]; intros v u s mm r s' m' H; [discriminate|].
  cbn [compute_lm] in H. cbn [fst snd] in H.
  match type of H with context [fold_res ?F ?L ?S0] => destruct (fold_res F L S0) as [[dv [s1 m1]]|k] eqn:E; [|discriminate];
    assert (Q := fold_res_inv (fun a b : Q * (state * M) => lm_eq (fst (snd a)) (fst (snd b))) F L) end.
  inversion H; subst. clear H.
  apply (lm_eq_trans s (set_mg s (note_mag (dfdv vars s v) (s_mg s))) s'); [apply set_mg_lm_eq|].
  apply (Q (fun x => lm_eq_refl _) (fun a b c => lm_eq_trans _ _ _)) in E; [exact E|].
  intros [c nx] [dv0 [s0 m0]] acc' _ Hstep. cbn [fst snd].
  destruct (compute_lm vars cons post f nx (Some v) (s0, m0)) as [[d [s2 m2]]|k] eqn:E2; [|discriminate].
  apply IH in E2.
  destruct (Nat.eqb nx (c_r (con_ cons c))).
  - destruct (post c (set_lm s2 c d) m2) as [s3 m3] eqn:E3. inversion Hstep; subst. cbn [fst snd].
    apply (lm_eq_trans _ _ _ E2). apply (lm_eq_trans _ (set_lm s2 c d)); [apply set_lm_lm_eq|].
    assert (Z := Hpost c (set_lm s2 c d) m2). now rewrite E3 in Z.
  - destruct (post c (set_lm s2 c (- d)) m2) as [s3 m3] eqn:E3. inversion Hstep; subst. cbn [fst snd].
    apply (lm_eq_trans _ _ _ E2). apply (lm_eq_trans _ (set_lm s2 c (- d))); [apply set_lm_lm_eq|].
    assert (Z := Hpost c (set_lm s2 c (- d)) m2). now rewrite E3 in Z.
Qed.

Lemma post_min_lm_eq : forall c s mm, lm_eq s (fst (post_min c s mm)).
Proof.
  intros c s [m0|]; unfold post_min; [|apply lm_eq_refl].
  destruct (Qltb (k_lm (cst_ s c)) (k_lm (cst_ s m0))); apply set_mg_lm_eq.
Qed.

Lemma find_min_lm_lm_eq : forall st bid st' r, find_min_lm vars cons st bid = Ok (st', r) -> lm_eq st st'.
Proof.
  intros st bid st' r H. unfold find_min_lm in H.
  destruct (compute_lm vars cons post_min (trav_fuel vars) (hd 0%nat (b_vars (blk_ st bid))) None (st, None))
    as [[d [s1 m1]]|k] eqn:E; [|discriminate].
  inversion H; subst. eapply compute_lm_lm_eq; [|exact E]. apply post_min_lm_eq.
Qed.

Lemma visit_between_lm_eq : forall c nx s mm, lm_eq s (fst (visit_between cons c nx s mm)).
Proof.
  intros. unfold visit_between. destruct (Nat.eqb (c_r (con_ cons c)) nx); [apply post_min_lm_eq|apply lm_eq_refl].
Qed.

Lemma find_path_lm_eq : forall fuel v prev to s mm b s' m',
  find_path cons fuel v prev to (s, mm) = Ok (b, (s', m')) -> lm_eq s s'.
Proof.
  induction fuel as [|f IH]; intros v prev to s mm b s' m' H; [discriminate|].
  cbn [find_path] in H. cbn [fst] in H.
  match type of H with fold_res ?F ?L ?S0 = _ =>
    assert (Q := fold_res_inv (fun a b : bool * (state * option nat) => lm_eq (fst (snd a)) (fst (snd b))) F L
                  (fun x => lm_eq_refl _) (fun a b c => lm_eq_trans _ _ _)) end.
  apply Q in H; [exact H|]. clear Q H.
  intros [c nx] [found [s0 m0]] acc' _ Hstep. cbn [fst snd].
  destruct found; [inversion Hstep; subst; apply lm_eq_refl|].
  destruct (Nat.eqb nx to).
  - inversion Hstep; subst. cbn [fst snd]. apply visit_between_lm_eq.
  - destruct (find_path cons f nx (Some v) to (s0, m0)) as [[[|] [s2 m2]]|k] eqn:E2; try discriminate.
    + apply IH in E2. inversion Hstep; subst. cbn [fst snd].
      apply (lm_eq_trans _ _ _ E2). apply visit_between_lm_eq.
    + apply IH in E2. inversion Hstep; subst. exact E2.
Qed.

Lemma find_min_lm_between_lm_eq : forall st lv rv st' r,
  find_min_lm_between vars cons st lv rv = Ok (st', r) -> lm_eq st st'.
Proof.
  intros st lv rv st' r H. unfold find_min_lm_between in H.
  destruct (compute_lm vars cons (fun _ s (mm : unit) => (s, mm)) (trav_fuel vars) lv None (st, tt))
    as [[d [s1 m1]]|k] eqn:E; [|discriminate].
  apply compute_lm_lm_eq in E; [|intros; apply lm_eq_refl].
  destruct (find_path cons (trav_fuel vars) lv None rv (s1, None)) as [[b [s2 m2]]|k] eqn:E2; [|discriminate].
  apply find_path_lm_eq in E2. inversion H; subst. eapply lm_eq_trans; eassumption.
Qed.

(* updateWeightedPosition only touches the position statistics *)
Lemma update_weighted_core_eq : forall st bid, core_eq st (update_weighted vars st bid).
Proof.
  intros st bid. unfold update_weighted.
  set (b := blk_ st bid).
  assert (F : forall l acc, b_vars (fold_left (fun acc v => ps_add vars acc v (o_off (vst_ st v))) l acc) = b_vars acc /\
                            b_ind (fold_left (fun acc v => ps_add vars acc v (o_off (vst_ st v))) l acc) = b_ind acc).
  { induction l as [|v l IH]; intros acc; [now split|]. cbn [fold_left]. destruct (IH (ps_add vars acc v (o_off (vst_ st v)))) as [A B].
    rewrite A, B. unfold ps_add. now split. }
  unfold core_eq, set_b. cbn [s_v s_list s_inact s_b s_c]. rewrite length_upd. repeat split.
  - unfold blk_ at 1. cbn [s_b]. rewrite nth_upd.
    destruct (Nat.eqb bid b0 && Nat.ltb bid (length (s_b st)))%bool eqn:E; [|reflexivity].
    apply andb_true_iff in E. destruct E as [E _]. apply Nat.eqb_eq in E. subst b0.
    unfold with_posn. cbn [b_vars]. destruct (F (b_vars b) (mkBlk (b_vars b) (b_posn b) (b_sc b) 0 0 0 (b_ind b))) as [A _].
    rewrite A. reflexivity.
  - unfold blk_ at 1. cbn [s_b]. rewrite nth_upd.
    destruct (Nat.eqb bid b0 && Nat.ltb bid (length (s_b st)))%bool eqn:E; [|reflexivity].
    apply andb_true_iff in E. destruct E as [E _]. apply Nat.eqb_eq in E. subst b0.
    unfold with_posn. cbn [b_ind]. destruct (F (b_vars b) (mkBlk (b_vars b) (b_posn b) (b_sc b) 0 0 0 (b_ind b))) as [_ B].
    rewrite B. reflexivity.
Qed.

Lemma update_all_core_eq : forall l st, core_eq st (fold_left (update_weighted vars) l st).
Proof.
  induction l as [|b l IH]; intros st; cbn [fold_left]; [apply core_eq_refl|].
  eapply core_eq_trans; [apply update_weighted_core_eq|apply IH].
Qed.

(* flagging a constraint *)
Lemma WF_set_unsat : forall pend st c, WF pend st -> (pend = None \/ pend = Some c) -> WF None (set_unsat st c).
Proof.
  intros pend st c W Hp.
  assert (CS : forall u, k_act (cst_ (set_unsat st c) u) = k_act (cst_ st u) /\
                         (k_uns (cst_ (set_unsat st c) u) = false -> k_uns (cst_ st u) = false /\ (u <> c \/ (length (s_c st) <= c)%nat))).
  { intros u. unfold set_unsat. rewrite cst_set_c.
    destruct (Nat.eqb_spec c u) as [E|E]; cbn [andb].
    - subst u. destruct (Nat.ltb c (length (s_c st))) eqn:L; cbn [k_act k_uns].
      + split; [reflexivity|discriminate].
      + apply Nat.ltb_ge in L. split; [reflexivity|]. intro H. split; [exact H|now right].
    - split; [reflexivity|]. intro H. split; [exact H|left; congruence]. }
  constructor.
  - apply (wf_nv _ _ W).
  - unfold set_unsat, set_c. cbn [s_c]. rewrite length_upd. apply (wf_nc _ _ W).
  - apply (wf_part _ _ W).
  - apply (wf_blk _ _ W).
  - apply (wf_ids _ _ W).
  - apply (wf_ind _ _ W).
  - apply (wf_nodup _ _ W).
  - intros c' Hc' Hact. destruct (CS c') as [E _]. rewrite E in Hact. now apply (wf_I2 _ _ W).
  - intros c' Hc' Hact Huns _. destruct (CS c') as [E F]. rewrite E in Hact. destruct (F Huns) as [G1 G2].
    apply (wf_I1 _ _ W c' Hc' Hact G1).
    assert (c' <> c) by (destruct G2 as [G2|G2]; [exact G2|rewrite (wf_nc _ _ W) in G2; lia]).
    destruct Hp as [P|P]; rewrite P; congruence.
  - apply (wf_inact_lt _ _ W).
  - intros c' Hc' Hact. destruct (CS c') as [E _]. rewrite E in Hact. now apply (wf_noself _ _ W).
Qed.

(* -------------------------------------------------------- mostViolated --- *)
Lemma slack_ext : forall st st' c, s_v st' = s_v st -> s_b st' = s_b st -> s_c st' = s_c st ->
  slack vars cons st' c = slack vars cons st c.
Proof.
  intros st st' c A B C. unfold slack, position, cst_, vst_, blk_. now rewrite A, B, C.
Qed.

Lemma mv_scan_spec : forall st l i ms v dp g ms' v' dp' g',
  mv_scan vars cons st l i (ms, v, dp, g) = (ms', v', dp', g') ->
  (forall x, In x l -> k_uns (cst_ st x) = false -> ms' <= slack vars cons st x) /\ ms' <= ms /\
  ((v' = v /\ dp' = dp /\ ms' = ms) \/
   exists j c, v' = Some c /\ dp' = (i + j)%nat /\ nth j l 0%nat = c /\ (j < length l)%nat /\
               k_uns (cst_ st c) = false /\ ms' = slack vars cons st c).
Proof.
  intros st l. induction l as [|c t IH]; intros i ms v dp g ms' v' dp' g' H; cbn [mv_scan] in H.
  - inversion H; subst. split; [intros x []|]. split; [apply Qle_refl|]. left. repeat split.
  - destruct (k_uns (cst_ st c)) eqn:U.
    + destruct (IH _ _ _ _ _ _ _ _ _ H) as (A & B & C). split; [|split].
      * intros x [E|Hx] Hu; [subst; congruence|now apply A].
      * exact B.
      * destruct C as [C|(j & c0 & C1 & C2 & C3 & C4 & C5 & C6)]; [now left|right].
        exists (S j), c0. repeat split; try assumption; [lia|simpl; lia].
    + destruct (Qltb (slack vars cons st c) ms) eqn:L.
      * apply Qltb_lt in L. destruct (IH _ _ _ _ _ _ _ _ _ H) as (A & B & C). split; [|split].
        -- intros x [E|Hx] Hu; [subst; exact B|now apply A].
        -- lra.
        -- right. destruct C as [(C1 & C2 & C3)|(j & c0 & C1 & C2 & C3 & C4 & C5 & C6)].
           ++ exists 0%nat, c. subst. repeat split; try assumption; [lia|simpl; lia].
           ++ exists (S j), c0. repeat split; try assumption; [lia|simpl; lia].
      * apply Qltb_ge in L. destruct (IH _ _ _ _ _ _ _ _ _ H) as (A & B & C). split; [|split].
        -- intros x [E|Hx] Hu; [subst; lra|now apply A].
        -- exact B.
        -- destruct C as [C|(j & c0 & C1 & C2 & C3 & C4 & C5 & C6)]; [now left|right].
           exists (S j), c0. repeat split; try assumption; [lia|simpl; lia].
Qed.

Definition violated (st : state) (c : nat) : bool :=
  Qltb (slack vars cons st c) ZERO_UPPERBOUND && negb (k_act (cst_ st c)).

Lemma most_violated_spec : forall st st' v, most_violated vars cons st = (st', v) ->
  s_v st' = s_v st /\ s_c st' = s_c st /\ s_b st' = s_b st /\ s_list st' = s_list st /\
  match v with
  | None => s_inact st' = s_inact st /\
            forall x, In x (s_inact st) -> k_uns (cst_ st x) = false -> maxsize <= slack vars cons st x
  | Some c => In c (s_inact st) /\ k_uns (cst_ st c) = false /\
              (forall x, In x (s_inact st) -> k_uns (cst_ st x) = false -> slack vars cons st c <= slack vars cons st x) /\
              (if violated st c
               then (forall x, In x (s_inact st) -> x <> c -> In x (s_inact st')) /\
                    (forall x, In x (s_inact st') -> In x (s_inact st))
               else s_inact st' = s_inact st)
  end.
Proof.
  intros st st' v H. unfold most_violated in H.
  destruct (mv_scan vars cons st (s_inact st) 0 (maxsize, None, length (s_inact st), s_mg st)) as [[[ms v0] dp] g] eqn:E.
  destruct (mv_scan_spec _ _ _ _ _ _ _ _ _ _ _ E) as (A & B & C).
  destruct C as [(C1 & C2 & C3)|(j & c & C1 & C2 & C3 & C4 & C5 & C6)].
  - subst v0. inversion H; subst. cbn. repeat split. intros x Hx Hu. now apply A.
  - subst v0. simpl in C2. subst dp.
    replace (Nat.eqb j (length (s_inact st))) with false in H by (symmetry; apply Nat.eqb_neq; lia).
    cbn [negb andb] in H. rewrite C6 in H. fold (violated st c) in H.
    assert (Hin : In c (s_inact st)) by (rewrite <- C3; now apply nth_In).
    assert (Hmin : forall x, In x (s_inact st) -> k_uns (cst_ st x) = false -> slack vars cons st c <= slack vars cons st x)
      by (intros x Hx Hu; rewrite <- C6; now apply A).
    destruct (violated st c) eqn:Vi.
    + inversion H; subst st' v. cbn [s_v s_c s_b s_list s_inact set_inact set_mg].
      split; [reflexivity|]. split; [reflexivity|]. split; [reflexivity|]. split; [reflexivity|].
      split; [exact Hin|]. split; [exact C5|]. split; [exact Hmin|]. rewrite Vi. split.
      * intros x Hx Hne. change (removelast (upd (s_inact st) j (last (s_inact st) 0%nat))) with (swap_remove (s_inact st) j 0%nat).
        apply swap_remove_keeps; [exact C4|exact Hx|now rewrite C3].
      * intros x Hx. eapply swap_remove_incl; [exact C4|exact Hx].
    + inversion H; subst st' v. cbn [s_v s_c s_b s_list s_inact set_inact set_mg].
      split; [reflexivity|]. split; [reflexivity|]. split; [reflexivity|]. split; [reflexivity|].
      split; [exact Hin|]. split; [exact C5|]. split; [exact Hmin|]. rewrite Vi. reflexivity.
Qed.
End Inv.
