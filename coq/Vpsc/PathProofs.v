(* findPath / findMinLMBetween return a constraint on the tree path between the
   two ends of the violated constraint, traversed left-to-right; splitting there
   separates the two ends.  findMinLM returns an active constraint. *)
From Coq Require Import ZArith QArith Qabs Qminmax List Bool Arith Lia Lqa Permutation.
From Labella Require Import Vpsc.Vpsc Vpsc.VpscBase Vpsc.InvBase Vpsc.InvProofs Vpsc.Tree Vpsc.SplitProofs.
Import ListNotations.
Open Scope Q_scope.

Section Path.
Variable vars : list var.
Variable cons : list con.
Let n := length vars.
Let m := length cons.

Inductive pathedge (st : state) (to : nat) : nat -> option nat -> nat -> nat -> nat -> Prop :=
| pe_here : forall v p c nx, In (c, nx) (nbrs cons st v p) -> (exists d, at_depth cons d st nx (Some v) to) ->
            pathedge st to v p c v nx
| pe_deep : forall v p c0 nx c u w, In (c0, nx) (nbrs cons st v p) -> pathedge st to nx (Some v) c u w ->
            pathedge st to v p c u w.

Lemma at_depth_ext : forall st st', (forall v p, nbrs cons st' v p = nbrs cons st v p) ->
  forall d v p x, at_depth cons d st' v p x <-> at_depth cons d st v p x.
Proof.
  intros st st' H. induction d as [|d IH]; intros v p x; simpl; [tauto|].
  split; intros (c & nx & A & B); exists c, nx; [rewrite H in A|rewrite H]; (split; [exact A|now apply IH]).
Qed.

Lemma pathedge_ext : forall st st' to, (forall v p, nbrs cons st' v p = nbrs cons st v p) ->
  forall v p c u w, pathedge st' to v p c u w -> pathedge st to v p c u w.
Proof.
  intros st st' to H v p c u w P. induction P as [v p c nx A [d D]|v p c0 nx c u w A P IH].
  - apply pe_here; [now rewrite <- H|]. exists d. now apply (at_depth_ext st st' H).
  - eapply pe_deep; [rewrite <- H; exact A|exact IH].
Qed.

Lemma lm_eq_nbrs : forall s s', lm_eq s s' -> forall v p, nbrs cons s' v p = nbrs cons s v p.
Proof. intros s s' (_ & _ & _ & _ & _ & A) v p. apply nbrs_act_ext. intros c. apply A. Qed.

Lemma post_min_cases : forall c s mm, snd (post_min c s mm) = mm \/ snd (post_min c s mm) = Some c.
Proof.
  intros c s [m0|]; unfold post_min; [|now right].
  destruct (Qltb (k_lm (cst_ s c)) (k_lm (cst_ s m0))); [now right|now left].
Qed.

Definition fp_post (s : state) (to v : nat) (p : option nat) (mm mm' : option nat) : Prop :=
  mm' = mm \/ exists c u w, mm' = Some c /\ pathedge s to v p c u w /\ c_r (con_ cons c) = w.

Lemma find_path_spec : forall f v p to s mm b s' mm',
  find_path cons f v p to (s, mm) = Ok (b, (s', mm')) ->
  lm_eq s s' /\ (b = true -> exists d, at_depth cons (S d) s v p to) /\ (b = false -> mm' = mm) /\ fp_post s to v p mm mm'.
Proof.
  induction f as [|f IH]; intros v p to s mm b s' mm' H; [discriminate|].
  cbn [find_path] in H. cbn [fst] in H.
  set (step := fun (cn : nat * nat) (acc : bool * (state * option nat)) =>
         let (c, nx) := cn in let (found, sm1) := acc in
         if found then Ok acc
         else if Nat.eqb nx to then Ok (true, visit_between cons c nx (fst sm1) (snd sm1))
              else match find_path cons f nx (Some v) to sm1 with
                   | Fuel k => Fuel k
                   | Ok (true, sm2) => Ok (true, visit_between cons c nx (fst sm2) (snd sm2))
                   | Ok (false, sm2) => Ok (false, sm2)
                   end) in *.
  assert (G : forall l b0 s0 m0 b1 s1 m1, incl l (nbrs cons s v p) -> lm_eq s s0 ->
              fold_res step l (b0, (s0, m0)) = Ok (b1, (s1, m1)) ->
              lm_eq s s1 /\ (b1 = true -> b0 = true \/ exists d, at_depth cons (S d) s v p to) /\
              (b1 = false -> m1 = m0 /\ b0 = false) /\ (m1 = m0 \/ exists c u w, m1 = Some c /\ pathedge s to v p c u w /\ c_r (con_ cons c) = w)).
  { induction l as [|[c nx] l IHl]; intros b0 s0 m0 b1 s1 m1 Hl L0 HF; simpl in HF.
    - inversion HF; subst. split; [exact L0|]. split; [intro Q; now left|]. split; [intro Q; now split|now left].
    - assert (Hin : In (c, nx) (nbrs cons s v p)) by (apply Hl; now left).
      assert (Hl' : incl l (nbrs cons s v p)) by (intros x Hx; apply Hl; now right).
      unfold step at 1 in HF. destruct b0.
      + (* already found: nothing changes *)
        destruct (IHl true s0 m0 b1 s1 m1 Hl' L0 HF) as (A & B & C & D).
        split; [exact A|]. split; [intros _; now left|]. split; [exact C|exact D].
      + destruct (Nat.eqb_spec nx to) as [E|E].
        * subst nx. cbn [fst snd] in HF.
          assert (La : lm_eq s (fst (visit_between cons c to s0 m0))) by (eapply lm_eq_trans; [exact L0|apply visit_between_lm_eq]).
          destruct (visit_between cons c to s0 m0) as [sa ma] eqn:EV. cbn [fst] in La.
          destruct (IHl true sa ma b1 s1 m1 Hl' La HF) as (A & B & C & D).
          assert (Hd : exists d, at_depth cons (S d) s v p to) by (exists 0%nat; simpl; exists c, to; now split).
          assert (Hma : ma = m0 \/ (ma = Some c /\ c_r (con_ cons c) = to)).
          { assert (Z : ma = snd (visit_between cons c to s0 m0)) by now rewrite EV. unfold visit_between in Z.
            destruct (Nat.eqb_spec (c_r (con_ cons c)) to) as [Q|Q]; [|left; exact Z].
            destruct (post_min_cases c s0 m0) as [Y|Y]; rewrite Y in Z; [now left|right; now split]. }
          split; [exact A|]. split; [intros _; now right|]. split; [intro Q; destruct (C Q); discriminate|].
          destruct D as [D|D]; [|right; exact D].
          destruct Hma as [Hma|[Hma Hr]]; [left; congruence|right].
          exists c, v, to. repeat split; [congruence| |exact Hr]. apply pe_here; [exact Hin|]. now exists 0%nat.
        * destruct (find_path cons f nx (Some v) to (s0, m0)) as [[b2 [s2 m2]]|k] eqn:EF; [|discriminate].
          destruct (IH nx (Some v) to s0 m0 b2 s2 m2 EF) as (L2 & D2 & N2 & P2).
          assert (NB0 := lm_eq_nbrs s s0 L0).
          assert (L02 : lm_eq s s2) by (eapply lm_eq_trans; eassumption).
          destruct b2.
          -- cbn [fst snd] in HF.
             assert (La : lm_eq s (fst (visit_between cons c nx s2 m2))) by (eapply lm_eq_trans; [exact L02|apply visit_between_lm_eq]).
             destruct (visit_between cons c nx s2 m2) as [sa ma] eqn:EV. cbn [fst] in La.
             destruct (IHl true sa ma b1 s1 m1 Hl' La HF) as (A & B & C & D).
             destruct (D2 eq_refl) as [d Hd0]. apply (at_depth_ext s s0 NB0) in Hd0.
             assert (Hd : exists d, at_depth cons (S d) s v p to) by (exists (S d); cbn [at_depth]; exists c, nx; split; [exact Hin|exact Hd0]).
             assert (Hma : ma = m2 \/ (ma = Some c /\ c_r (con_ cons c) = nx)).
             { assert (Z : ma = snd (visit_between cons c nx s2 m2)) by now rewrite EV. unfold visit_between in Z.
               destruct (Nat.eqb_spec (c_r (con_ cons c)) nx) as [Q|Q]; [|left; exact Z].
               destruct (post_min_cases c s2 m2) as [Y|Y]; rewrite Y in Z; [now left|right; now split]. }
             split; [exact A|]. split; [intros _; now right|]. split; [intro Q; destruct (C Q); discriminate|].
             destruct D as [D|D]; [|right; exact D].
             destruct Hma as [Hma|[Hma Hr]].
             ++ destruct P2 as [P2|(c2 & u2 & w2 & Q1 & Q2 & Q3)]; [left; congruence|right].
                exists c2, u2, w2. repeat split; [congruence| |exact Q3].
                eapply pe_deep; [exact Hin|]. apply (pathedge_ext s s0 to NB0). exact Q2.
             ++ right. exists c, v, nx. repeat split; [congruence| |exact Hr]. apply pe_here; [exact Hin|]. now exists (S d).
          -- destruct (IHl false s2 m2 b1 s1 m1 Hl' L02 HF) as (A & B & C & D).
             assert (E2 : m2 = m0) by (now apply N2). subst m2.
             split; [exact A|]. split; [intro Q; destruct (B Q) as [Z|Z]; [discriminate|now right]|]. split; [exact C|exact D]. }
  destruct (G _ false s mm b s' mm' (incl_refl _) (lm_eq_refl s) H) as (A & B & C & D).
  split; [exact A|]. split; [|split].
  - intro Q. destruct (B Q) as [Z|Z]; [discriminate|exact Z].
  - intro Q. now destruct (C Q).
  - exact D.
Qed.

Lemma depth_in_reach : forall d f st v p E x, reach cons f st v p = Ok E -> at_depth cons d st v p x -> In x (v :: verts E).
Proof.
  induction d as [|d IH]; intros f st v p E x H D; simpl in D; [left; now symmetry|].
  destruct D as (c & nx & A & B). destruct f as [|f]; [discriminate|]. cbn [reach] in H.
  destruct (children_contains _ _ _ _ c nx H A) as (I1 & e & Re & I2).
  right. destruct (IH f st nx (Some v) e x Re B) as [Q|Q].
  - subst x. change nx with (t_v (c, v, nx)). unfold verts. now apply in_map.
  - unfold verts in *. apply in_map_iff in Q. destruct Q as (t & Q1 & Q2). apply in_map_iff. exists t. split; [exact Q1|now apply I2].
Qed.

Lemma pathedge_sub : forall st to v p c u w, pathedge st to v p c u w ->
  forall f E, reach cons f st v p = Ok E ->
  exists f' ew, reach cons f' st w (Some u) = Ok ew /\ In to (w :: verts ew) /\ In (c, u, w) E /\
                incl (w :: verts ew) (verts E).
Proof.
  intros st to v p c u w P. induction P as [v p c nx A [d D]|v p c0 nx c u w A P IH]; intros f E H.
  - destruct f as [|f]; [discriminate|]. cbn [reach] in H.
    destruct (children_contains _ _ _ _ c nx H A) as (I1 & e & Re & I2).
    exists f, e. split; [exact Re|]. split; [eapply depth_in_reach; eassumption|]. split; [exact I1|].
    intros y [Q|Q].
    + subst y. change nx with (t_v (c, v, nx)). unfold verts. now apply in_map.
    + unfold verts in *. apply in_map_iff in Q. destruct Q as (t & Q1 & Q2). apply in_map_iff. exists t. split; [exact Q1|now apply I2].
  - destruct f as [|f]; [discriminate|]. cbn [reach] in H.
    destruct (children_contains _ _ _ _ c0 nx H A) as (I1 & e & Re & I2).
    destruct (IH f e Re) as (f' & ew & R & T1 & T2 & T3). exists f', ew. split; [exact R|]. split; [exact T1|]. split; [now apply I2|].
    intros y Hy. apply T3 in Hy. unfold verts in *. apply in_map_iff in Hy. destruct Hy as (t & Q1 & Q2).
    apply in_map_iff. exists t. split; [exact Q1|now apply I2].
Qed.

(* findMinLM / findMinLMBetween return active constraints *)
Lemma compute_lm_min_active : forall f v u s mm r s' mm',
  compute_lm vars cons post_min f v u (s, mm) = Ok (r, (s', mm')) ->
  mm' = mm \/ exists c, mm' = Some c /\ (c < m)%nat /\ k_act (cst_ s c) = true.
Proof.
  induction f as [|f IH]; intros v u s mm r s' mm' H; [discriminate|].
  cbn [compute_lm] in H. cbn [fst snd] in H.
  match type of H with context [fold_res ?F ?L ?S0] => destruct (fold_res F L S0) as [[dv [s1 m1]]|k] eqn:E; [|discriminate];
    set (step := F) in *; set (L0 := L) in *; set (A0 := S0) in * end.
  inversion H; subst r s1 m1. clear H.
  assert (G : forall l acc acc', incl l L0 -> lm_eq s (fst (snd acc)) -> fold_res step l acc = Ok acc' ->
              lm_eq s (fst (snd acc')) /\
              (snd (snd acc') = snd (snd acc) \/ exists c, snd (snd acc') = Some c /\ (c < m)%nat /\ k_act (cst_ s c) = true)).
  { induction l as [|[c nx] l IHl]; intros acc acc' Hl L1 HF; simpl in HF.
    - inversion HF; subst. split; [exact L1|now left].
    - destruct acc as [dv0 [s0 m0]]. unfold step at 1 in HF. cbn [fst snd] in *.
      destruct (compute_lm vars cons post_min f nx (Some v) (s0, m0)) as [[d [s2 m2]]|k] eqn:E2; [|discriminate].
      assert (L2 := compute_lm_lm_eq vars cons post_min (post_min_lm_eq) _ _ _ _ _ _ _ _ E2).
      apply IH in E2.
      assert (Hin : In (c, nx) (nbrs cons s v u)).
      { assert (Q : In (c, nx) L0) by (apply Hl; now left). exact Q. }
      apply nbrs_spec in Hin. destruct Hin as (Hc & Ha & _).
      assert (Act0 : forall k, k_act (cst_ s0 k) = k_act (cst_ s k)) by (destruct L1 as (_ & _ & _ & _ & _ & Z); intros k; apply Z).
      set (sx := if Nat.eqb nx (c_r (con_ cons c)) then set_lm s2 c d else set_lm s2 c (- d)).
      assert (Lx : lm_eq s sx).
      { eapply lm_eq_trans; [exact L1|]. eapply lm_eq_trans; [exact L2|]. unfold sx. destruct (Nat.eqb nx (c_r (con_ cons c))); apply set_lm_lm_eq. }
      set (q0 := if Nat.eqb nx (c_r (con_ cons c)) then qr (dv0 + d * v_sc (var_ vars (c_l (con_ cons c)))) else qr (dv0 + d * v_sc (var_ vars (c_r (con_ cons c))))).
      assert (HF' : fold_res step l (q0, post_min c sx m2) = Ok acc').
      { unfold sx, q0. destruct (Nat.eqb nx (c_r (con_ cons c))); cbn [fst snd] in *;
          [destruct (post_min c (set_lm s2 c d) m2) as [s3 m3]|destruct (post_min c (set_lm s2 c (- d)) m2) as [s3 m3]]; exact HF. }
      assert (Lp : lm_eq s (fst (post_min c sx m2))) by (eapply lm_eq_trans; [exact Lx|apply post_min_lm_eq]).
      destruct (IHl (q0, post_min c sx m2) acc' (fun x Hx => Hl x (or_intror Hx)) Lp HF') as (A & B). cbn [fst snd] in *.
      split; [exact A|].
      assert (Hm2 : m2 = m0 \/ exists c1, m2 = Some c1 /\ (c1 < m)%nat /\ k_act (cst_ s c1) = true).
      { destruct E2 as [Q|(c1 & Q1 & Q2 & Q3)]; [now left|right]. exists c1. repeat split; try assumption. now rewrite <- Act0. }
      destruct B as [B|B]; [|right; exact B].
      destruct (post_min_cases c sx m2) as [Y|Y]; rewrite Y in B.
      + destruct Hm2 as [Q|Q]; [left; congruence|right]. destruct Q as (c1 & Q1 & Q2 & Q3). exists c1. repeat split; try assumption. congruence.
      + right. exists c. repeat split; assumption. }
  destruct (G L0 A0 (dv, (s', mm')) (incl_refl _) (set_mg_lm_eq s _) E) as (_ & B). cbn [snd] in B. exact B.
Qed.

Lemma find_min_lm_active : forall st bid st' c, find_min_lm vars cons st bid = Ok (st', Some c) ->
  (c < m)%nat /\ k_act (cst_ st c) = true.
Proof.
  intros st bid st' c H. unfold find_min_lm in H.
  destruct (compute_lm vars cons post_min (trav_fuel vars) (hd 0%nat (b_vars (blk_ st bid))) None (st, None))
    as [[d [s1 m1]]|k] eqn:E; [|discriminate].
  inversion H; subst. apply compute_lm_min_active in E. destruct E as [E|(c0 & E1 & E2 & E3)]; [discriminate|].
  inversion E1; subst. now split.
Qed.
End Path.
