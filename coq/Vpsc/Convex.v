(* Strong convexity of the separation QP: a dual certificate bounds not only
   the cost excess but the weighted squared DISTANCE to every feasible point
   that is at least as cheap -- in particular to the optimum, which is unique.
   This turns the per-run certificate (kkt_ok) into a statement about
   positions. *)
From Coq Require Import ZArith QArith Qabs Qminmax List Bool Arith Lia Lqa Permutation.
From Labella Require Import Vpsc.Vpsc Vpsc.VpscBase Vpsc.Kkt Vpsc.KktProofs.
Import ListNotations.
Open Scope Q_scope.

Lemma qsum_lin2 : forall (f g : nat -> Q) k1 k2 l,
  k1 * qsum (map f l) + k2 * qsum (map g l) == qsum (map (fun i => k1 * f i + k2 * g i) l).
Proof. intros. rewrite qsum_map_plus, !qsum_map_scal. reflexivity. Qed.

Section Convex.
Variable vars : list var.
Variable cons : list con.
Let n := length vars.

(* sum_i w_i (x_i - y_i)^2 *)
Definition wdist (x y : list Q) : Q :=
  qsum (map (fun i => v_w (var_at vars i) * ((xat x i - xat y i) * (xat x i - xat y i))) (seq 0 n)).

(* sum_i r_i^2 / (4 w_i), the stationarity part of dual_gap *)
Definition resid_gap (x lam : list Q) : Q :=
  qsum (map (fun i => resid vars cons x lam i * resid vars cons x lam i / (4 * v_w (var_at vars i))) (seq 0 n)).

(* the bound on the weighted squared distance *)
Definition pos_gap (x lam : list Q) : Q := 2 * comp_gap vars x cons lam + 4 * resid_gap x lam.

Lemma dual_gap_parts : forall x lam, dual_gap vars cons x lam == comp_gap vars x cons lam + resid_gap x lam.
Proof. intros. reflexivity. Qed.

Lemma pos_gap_dual : forall x lam, pos_gap x lam == 4 * dual_gap vars cons x lam - 2 * comp_gap vars x cons lam.
Proof. intros. unfold pos_gap. rewrite dual_gap_parts. ring. Qed.

(* cost y - cost x, exactly *)
Lemma cost_difference : forall x lam y,
  (forall c, In c cons -> (c_l c < n)%nat /\ (c_r c < n)%nat) ->
  cost_fn vars y - cost_fn vars x ==
  qsum (map (fun i => v_w (var_at vars i) * ((xat y i - xat x i) * (xat y i - xat x i))
                      + resid vars cons x lam i * (xat y i - xat x i)) (seq 0 n))
  + (comp_gap vars y cons lam - comp_gap vars x cons lam).
Proof.
  intros x lam y Hidx.
  rewrite <- (lin_gap_slack vars x y cons lam).
  rewrite <- (exchange vars (fun i => xat y i - xat x i) cons lam Hidx).
  unfold cost_fn. fold n. rewrite <- qsum_map_plus.
  assert (E : forall a b, a - b == a + (-1) * b) by (intros; ring).
  rewrite E, <- qsum_map_scal, <- qsum_map_plus.
  apply qsum_map_ext. intros i _. unfold resid. ring.
Qed.

Lemma half_completion : forall ww r t : Q, 0 < ww ->
  (1 # 2) * (ww * (t * t)) - 2 * (r * r / (4 * ww)) <= ww * (t * t) + r * t.
Proof.
  intros ww r t Hw.
  assert (H := square_completion ((1 # 2) * ww) r t). 
  assert (Hh : 0 < (1 # 2) * ww) by lra. specialize (H Hh).
  assert (E : r * r / (4 * ((1 # 2) * ww)) == 2 * (r * r / (4 * ww))) by (field; lra).
  rewrite E in H. lra.
Qed.

Theorem strong_convexity : forall x lam y,
  (forall v, In v vars -> 0 < v_w v) ->
  (forall c, In c cons -> (c_l c < n)%nat /\ (c_r c < n)%nat) ->
  (forall l, In l lam -> 0 <= l) ->
  feasible vars cons y ->
  wdist x y <= pos_gap x lam + 2 * (cost_fn vars y - cost_fn vars x).
Proof.
  intros x lam y Hw Hidx Hlam Hy.
  assert (D := cost_difference x lam y Hidx).
  assert (Hy0 : 0 <= comp_gap vars y cons lam) by (apply comp_gap_nonneg; assumption).
  set (S1 := qsum (map (fun i => v_w (var_at vars i) * ((xat y i - xat x i) * (xat y i - xat x i))
                      + resid vars cons x lam i * (xat y i - xat x i)) (seq 0 n))) in *.
  assert (L : (1 # 2) * wdist x y - 2 * resid_gap x lam <= S1).
  { unfold wdist, resid_gap, S1.
    setoid_replace ((1 # 2) * qsum (map (fun i => v_w (var_at vars i) * ((xat x i - xat y i) * (xat x i - xat y i))) (seq 0 n))
                    - 2 * qsum (map (fun i => resid vars cons x lam i * resid vars cons x lam i / (4 * v_w (var_at vars i))) (seq 0 n)))
      with ((1 # 2) * qsum (map (fun i => v_w (var_at vars i) * ((xat x i - xat y i) * (xat x i - xat y i))) (seq 0 n))
            + (-2) * qsum (map (fun i => resid vars cons x lam i * resid vars cons x lam i / (4 * v_w (var_at vars i))) (seq 0 n))) by ring.
    rewrite qsum_lin2.
    apply qsum_map_le. intros i Hi. apply in_seq in Hi.
    assert (Hwi : 0 < v_w (var_at vars i)) by (apply Hw; unfold var_at; apply nth_In; unfold n in Hi; lia).
    assert (Hc := half_completion (v_w (var_at vars i)) (resid vars cons x lam i) (xat y i - xat x i) Hwi).
    setoid_replace ((xat x i - xat y i) * (xat x i - xat y i)) with ((xat y i - xat x i) * (xat y i - xat x i)) by ring.
    lra. }
  unfold pos_gap. lra.
Qed.

(* any feasible point that is at least as cheap as x is close to x; in
   particular every optimum *)
Theorem close_to_any_optimum : forall x lam y,
  (forall v, In v vars -> 0 < v_w v) ->
  (forall c, In c cons -> (c_l c < n)%nat /\ (c_r c < n)%nat) ->
  (forall l, In l lam -> 0 <= l) ->
  feasible vars cons y -> cost_fn vars y <= cost_fn vars x ->
  wdist x y <= pos_gap x lam.
Proof.
  intros x lam y Hw Hidx Hlam Hy Hc. assert (S := strong_convexity x lam y Hw Hidx Hlam Hy). lra.
Qed.

(* one coordinate *)
Lemma wdist_coord : forall x y i, (forall v, In v vars -> 0 < v_w v) -> (i < n)%nat ->
  v_w (var_at vars i) * ((xat x i - xat y i) * (xat x i - xat y i)) <= wdist x y.
Proof.
  intros x y i Hw Hi. unfold wdist.
  assert (G : forall l, (forall j, In j l -> (j < n)%nat) -> In i l ->
              v_w (var_at vars i) * ((xat x i - xat y i) * (xat x i - xat y i)) <=
              qsum (map (fun i0 => v_w (var_at vars i0) * ((xat x i0 - xat y i0) * (xat x i0 - xat y i0))) l)).
  { induction l as [|a l IH]; intros Hl Hin; [contradiction|]. simpl.
    assert (N : forall l0, (forall j, In j l0 -> (j < n)%nat) ->
                0 <= qsum (map (fun i0 => v_w (var_at vars i0) * ((xat x i0 - xat y i0) * (xat x i0 - xat y i0))) l0)).
    { induction l0 as [|b l0 IH0]; intros Hl0; simpl; [lra|].
      assert (0 < v_w (var_at vars b)) by (apply Hw; unfold var_at; apply nth_In; apply Hl0; now left).
      assert (0 <= (xat x b - xat y b) * (xat x b - xat y b)) by apply sq_nonneg.
      assert (0 <= qsum (map (fun i0 => v_w (var_at vars i0) * ((xat x i0 - xat y i0) * (xat x i0 - xat y i0))) l0))
        by (apply IH0; intros; apply Hl0; now right).
      assert (0 <= v_w (var_at vars b) * ((xat x b - xat y b) * (xat x b - xat y b))) by (apply Qmult_le_0_compat; lra).
      unfold qsum in *. lra. }
    assert (Na : 0 <= v_w (var_at vars a) * ((xat x a - xat y a) * (xat x a - xat y a))).
    { assert (0 < v_w (var_at vars a)) by (apply Hw; unfold var_at; apply nth_In; apply Hl; now left).
      apply Qmult_le_0_compat; [lra|apply sq_nonneg]. }
    destruct Hin as [E|Hin].
    - subst a. assert (Z := N l (fun j Hj => Hl j (or_intror Hj))). unfold qsum in *. lra.
    - assert (Z := IH (fun j Hj => Hl j (or_intror Hj)) Hin). unfold qsum in *. lra. }
  apply G; [intros j Hj; apply in_seq in Hj; lia|apply in_seq; lia].
Qed.

(* ------------------------------------------ the optimum is unique --- *)
Definition midpoint (y1 y2 : list Q) : list Q := map (fun i => (xat y1 i + xat y2 i) / 2) (seq 0 n).

Lemma xat_midpoint : forall y1 y2 i, (i < n)%nat -> xat (midpoint y1 y2) i == (xat y1 i + xat y2 i) / 2.
Proof.
  intros y1 y2 i Hi. unfold xat, midpoint.
  rewrite (nth_indep _ 0 ((fun i0 => (nth i0 y1 0 + nth i0 y2 0) / 2) 0%nat)) by (rewrite map_length, seq_length; exact Hi).
  rewrite (map_nth (fun i0 => (nth i0 y1 0 + nth i0 y2 0) / 2)). rewrite seq_nth by exact Hi. reflexivity.
Qed.

Theorem optimum_unique : forall y1 y2,
  (forall v, In v vars -> 0 < v_w v) ->
  (forall c, In c cons -> (c_l c < n)%nat /\ (c_r c < n)%nat) ->
  feasible vars cons y1 -> feasible vars cons y2 ->
  (forall z, feasible vars cons z -> cost_fn vars y1 <= cost_fn vars z) ->
  (forall z, feasible vars cons z -> cost_fn vars y2 <= cost_fn vars z) ->
  forall i, (i < n)%nat -> xat y1 i == xat y2 i.
Proof.
  intros y1 y2 Hw Hidx F1 F2 O1 O2 i Hi.
  set (z := midpoint y1 y2).
  assert (Fz : feasible vars cons z).
  { intros c Hc. destruct (Hidx c Hc) as [Hl Hr]. unfold slack_fn.
    unfold z. rewrite !xat_midpoint by assumption.
    assert (A := F1 c Hc). assert (B := F2 c Hc). unfold slack_fn in A, B.
    setoid_replace (v_sc (var_at vars (c_r c)) * ((xat y1 (c_r c) + xat y2 (c_r c)) / 2) - c_gap c
                    - v_sc (var_at vars (c_l c)) * ((xat y1 (c_l c) + xat y2 (c_l c)) / 2))
      with ((1 # 2) * ((v_sc (var_at vars (c_r c)) * xat y1 (c_r c) - c_gap c - v_sc (var_at vars (c_l c)) * xat y1 (c_l c))
             + (v_sc (var_at vars (c_r c)) * xat y2 (c_r c) - c_gap c - v_sc (var_at vars (c_l c)) * xat y2 (c_l c)))) by field.
    set (a1 := v_sc (var_at vars (c_r c)) * xat y1 (c_r c) - c_gap c - v_sc (var_at vars (c_l c)) * xat y1 (c_l c)) in *.
    set (a2 := v_sc (var_at vars (c_r c)) * xat y2 (c_r c) - c_gap c - v_sc (var_at vars (c_l c)) * xat y2 (c_l c)) in *.
    lra. }
  (* parallelogram identity *)
  assert (P : cost_fn vars z == (1 # 2) * (cost_fn vars y1 + cost_fn vars y2) - (1 # 4) * wdist y1 y2).
  { unfold cost_fn, wdist. fold n.
    assert (E : forall a b c0, (1 # 2) * (a + b) - (1 # 4) * c0 == (1 # 2) * a + ((1 # 2) * b + (- (1 # 4)) * c0)) by (intros; ring).
    rewrite E, <- !qsum_map_scal, <- !qsum_map_plus.
    apply qsum_map_ext. intros j Hj. apply in_seq in Hj. unfold z. rewrite xat_midpoint by lia. field. }
  assert (Z1 := O1 z Fz). assert (Z2 := O2 z Fz). assert (Z3 := O1 y2 F2). assert (Z4 := O2 y1 F1).
  assert (D0 : wdist y1 y2 <= 0) by lra.
  assert (C := wdist_coord y1 y2 i Hw Hi).
  assert (Hwi : 0 < v_w (var_at vars i)) by (apply Hw; unfold var_at; apply nth_In; unfold n in Hi; lia).
  set (t := xat y1 i - xat y2 i) in *.
  assert (T0 : v_w (var_at vars i) * (t * t) <= 0) by lra.
  assert (T1 : 0 <= t * t) by apply sq_nonneg.
  assert (T2 : t * t == 0).
  { destruct (Qlt_le_dec 0 (t * t)) as [Q|Q]; [|lra]. exfalso.
    assert (0 < v_w (var_at vars i) * (t * t)) by (apply Qmult_lt_0_compat; assumption). lra. }
  apply Qmult_integral in T2. unfold t in T2. destruct T2; lra.
Qed.
End Convex.

(* ----------------------------------------------- on a solver state --- *)
Section OnState.
Variable vars : list var.
Variable cons : list con.

Lemma comp_gap_lower : forall x e cs lam, 0 <= e ->
  (forall c, In c cs -> - e <= slack_fn vars x c) -> (forall l, In l lam -> 0 <= l) ->
  - (e * qsum lam) <= comp_gap vars x cs lam.
Proof.
  intros x e cs. induction cs as [|c cs IH]; intros lam He Hs Hl.
  - simpl. assert (0 <= qsum lam).
    { clear - Hl. induction lam as [|l lam IH]; simpl; [lra|].
      assert (0 <= l) by (apply Hl; now left). assert (0 <= qsum lam) by (apply IH; intros; apply Hl; now right). unfold qsum in *. lra. }
    assert (0 <= e * qsum lam) by (apply Qmult_le_0_compat; assumption). lra.
  - destruct lam as [|l lam]; [simpl; setoid_replace (e * 0) with 0 by ring; lra|]. simpl.
    assert (H1 := Hs c (or_introl eq_refl)). assert (H2 := Hl l (or_introl eq_refl)).
    assert (H3 := IH lam He (fun c0 Hc0 => Hs c0 (or_intror Hc0)) (fun l0 Hl0 => Hl l0 (or_intror Hl0))).
    assert (H4 : - (e * l) <= l * slack_fn vars x c).
    { assert (0 <= l * (slack_fn vars x c + e)) by (apply Qmult_le_0_compat; lra).
      setoid_replace (l * slack_fn vars x c) with (l * (slack_fn vars x c + e) - e * l) by ring. lra. }
    unfold qsum in *.
    setoid_replace (e * (l + fold_right Qplus 0 lam)) with (e * l + e * fold_right Qplus 0 lam) by ring. lra.
Qed.

(* kkt_ok: the exit state is within an explicit weighted distance of every
   feasible point that is at least as cheap -- of THE optimum *)
Theorem kkt_ok_close : forall st, kkt_ok vars cons st = true ->
  let x := positions vars st in
  exists lam, exit_multipliers vars cons st = Ok lam /\
    forall y, feasible vars cons y -> cost_fn vars y <= cost_fn vars x ->
      wdist vars x y <= 4 * opt_bound (cost_fn vars x) + 2 * (FEAS_EPS * qsum lam).
Proof.
  intros st H x. unfold kkt_ok in H.
  destruct (exit_multipliers vars cons st) as [lam|k] eqn:E; [|discriminate].
  exists lam. split; [reflexivity|]. intros y Hy Hc. fold x in H.
  apply andb_true_iff in H. destruct H as [H H3]. apply andb_true_iff in H. destruct H as [H1 H2].
  unfold cert_ok in H3. apply andb_true_iff in H3. destruct H3 as [H3 G]. apply andb_true_iff in H3. destruct H3 as [IO LO].
  apply Qle_bool_iff in G. destruct (inst_ok_spec _ _ IO) as [Hw Hidx]. destruct (lam_ok_spec _ _ LO) as [_ Hl].
  assert (C := close_to_any_optimum vars cons x lam y (fun v Hv => proj1 (Hw v Hv)) Hidx Hl Hy Hc).
  rewrite pos_gap_dual in C.
  assert (Fe : forall c, In c cons -> - FEAS_EPS <= slack_fn vars x c).
  { intros c Hcin. unfold state_feas_ok in H2. fold x in H2. apply feas_ok_spec in H2. destruct H2 as [L R].
    destruct (In_nth _ _ dcon Hcin) as [k [Hk Ek]]. rewrite <- Ek. apply R; [exact Hk|].
    apply all_false_nth; [exact H1|lia]. }
  assert (Epos : 0 <= FEAS_EPS) by (unfold FEAS_EPS, ZERO_UPPERBOUND; apply Qle_bool_iff; reflexivity).
  assert (Lw := comp_gap_lower x FEAS_EPS cons lam Epos Fe Hl). lra.
Qed.
End OnState.
