(* Basic facts about the helpers of Vpsc/Vpsc.v: normalisation, boolean
   comparisons, list update. *)
From Coq Require Import ZArith QArith Qabs Qminmax List Bool Arith Lia Lqa.
From Labella Require Import Vpsc.Vpsc.
Import ListNotations.
Open Scope Q_scope.

Lemma qr_eq : forall q, qr q == q.
Proof.
  intros [n d]. unfold qr. cbn [Qnum Qden].
  generalize (zgcd gcd_fuel (Z.pos d) (Z.abs n)). intro g.
  destruct (Z.ltb 1 g) eqn:E1; cbn [andb]; [|reflexivity].
  destruct (Z.eqb (n mod g) 0) eqn:E2; cbn [andb]; [|reflexivity].
  destruct (Z.eqb (Z.pos d mod g) 0) eqn:E3; [|reflexivity].
  apply Z.ltb_lt in E1. apply Z.eqb_eq in E2. apply Z.eqb_eq in E3.
  destruct (Z.pos d / g)%Z as [|p|p] eqn:E4; try reflexivity.
  unfold Qeq. cbn [Qnum Qden].
  assert (Hn : n = (g * (n / g))%Z) by (apply Z_div_exact_full_2; [lia|exact E2]).
  assert (Hd : Z.pos d = (g * (Z.pos d / g))%Z) by (apply Z_div_exact_full_2; [lia|exact E3]).
  rewrite E4 in Hd. rewrite Hd. rewrite Hn at 2. ring.
Qed.

Lemma Qltb_lt : forall a b, Qltb a b = true <-> a < b.
Proof.
  intros a b. unfold Qltb. rewrite negb_true_iff. split.
  - intro H. apply Qnot_le_lt. intro L. apply Qle_bool_iff in L. congruence.
  - intro H. destruct (Qle_bool b a) eqn:E; [|reflexivity].
    apply Qle_bool_iff in E. lra.
Qed.

Lemma Qltb_ge : forall a b, Qltb a b = false <-> b <= a.
Proof.
  intros a b. unfold Qltb. rewrite negb_false_iff. apply Qle_bool_iff.
Qed.

Lemma nth_upd_same : forall {A} (l : list A) i x d, (i < length l)%nat -> nth i (upd l i x) d = x.
Proof.
  induction l as [|h t IH]; intros i x d H; simpl in *; [lia|].
  destruct i; [reflexivity|]. simpl. apply IH. lia.
Qed.

Lemma nth_upd_other : forall {A} (l : list A) i j x d, i <> j -> nth j (upd l i x) d = nth j l d.
Proof.
  induction l as [|h t IH]; intros i j x d H; simpl; [reflexivity|].
  destruct i; destruct j; simpl; try reflexivity; try lia. apply IH. lia.
Qed.

Lemma length_upd : forall {A} (l : list A) i x, length (upd l i x) = length l.
Proof.
  induction l as [|h t IH]; intros i x; simpl; [reflexivity|].
  destruct i; simpl; [reflexivity|]. now rewrite IH.
Qed.
