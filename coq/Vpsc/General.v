(* The invariants WF (I1, I2, I4, blockInd) and I3 (active constraints of a
   block form a tree) hold in EVERY state solve reaches, splits included; hence
   whenever solve returns, every unflagged constraint holds within 1e-10 and the
   reported cost is the cost of the reported positions. *)
From Coq Require Import ZArith QArith Qabs Qminmax List Bool Arith Lia Lqa Permutation.
From Labella Require Import Vpsc.Vpsc Vpsc.VpscBase Vpsc.InvBase Vpsc.InvProofs Vpsc.MergeOnly
  Vpsc.Tree Vpsc.SplitProofs Vpsc.PathProofs.
Import ListNotations.
Open Scope Q_scope.

Section Gen.
Variable vars : list var.
Variable cons : list con.
Let n := length vars.
Let m := length cons.

Definition Inv (pend : option nat) (st : state) : Prop := WF vars cons pend st /\ I3 cons st.

Lemma Inv_core_eq : forall pend st st', core_eq st st' -> Inv pend st -> Inv pend st'.
Proof. intros pend st st' C [W T]. split; [eapply WF_core_eq; eassumption|eapply I3_core_eq; eassumption]. Qed.

Lemma Inv_lm_eq : forall pend st st', lm_eq st st' -> Inv pend st -> Inv pend st'.
Proof. intros pend st st' C. apply Inv_core_eq. now apply lm_eq_core. Qed.

(* ------------------------------------------------------ Blocks.split --- *)
Lemma split_step_gen : forall bid st ex k st' ex' k',
  split_step vars cons bid (st, (ex, k)) = Ok (st', (ex', k')) -> idx_ok vars cons -> Inv None st -> Inv None st'.
Proof.
  intros bid st ex k st' ex' k' H IDX I. unfold split_step in H.
  destruct (find_min_lm vars cons st bid) as [[st1 [v|]]|e] eqn:E; [| |discriminate].
  - destruct (find_min_lm_active vars cons st bid st1 v E) as [Hv Hact].
    apply find_min_lm_lm_eq in E.
    set (st1' := set_mg st1 (note_lm (k_lm (cst_ st1 v) - LAGRANGIAN_TOLERANCE) (s_mg st1))) in *.
    assert (L1 : lm_eq st st1') by (eapply lm_eq_trans; [exact E|apply set_mg_lm_eq]).
    assert (I1 : Inv None st1') by (eapply Inv_lm_eq; eassumption).
    destruct (Qltb (k_lm (cst_ st1 v)) LAGRANGIAN_TOLERANCE).
    + destruct (block_split vars cons st1' v) as [[st2 [lb rb]]|e] eqn:E2; [|discriminate].
      inversion H; subst. destruct I1 as [W1 T1].
      assert (Hact1 : k_act (cst_ st1' v) = true) by (destruct L1 as (_ & _ & _ & _ & _ & Z); destruct (Z v) as [Z1 _]; now rewrite Z1).
      destruct (block_split_halves vars cons None st1' v st2 lb rb W1 T1 IDX Hv Hact1 E2) as (E1 & E2' & HV).
      destruct (split_preserves vars cons None st1' v st2 lb rb E1 E2' W1 T1 IDX Hv Hact1 HV) as (W4 & T4 & _).
      split; [exact W4|exact T4].
    + inversion H; subst. exact I1.
  - apply find_min_lm_lm_eq in E. inversion H; subst. eapply Inv_lm_eq; eassumption.
Qed.

Lemma split_fold_gen : forall l a b, fold_res (split_step vars cons) l a = Ok b -> idx_ok vars cons ->
  Inv None (fst a) -> Inv None (fst b).
Proof.
  induction l as [|bid l IH]; intros a b H IDX I; simpl in H; [inversion H; now subst|].
  destruct (split_step vars cons bid a) as [a1|e] eqn:E; [|discriminate].
  apply (IH a1 b H IDX). destruct a as [st [ex k]]. destruct a1 as [st1 [ex1 k1]]. cbn [fst] in *.
  eapply split_step_gen; eassumption.
Qed.

Lemma blocks_split_gen : forall st st' k, blocks_split vars cons st = Ok (st', k) -> idx_ok vars cons ->
  Inv None st -> Inv None st'.
Proof.
  intros st st' k H IDX I. unfold blocks_split in H.
  set (st0 := fold_left (update_weighted vars) (s_list st) st) in *.
  assert (I0 : Inv None st0) by (eapply Inv_core_eq; [apply update_all_core_eq|exact I]).
  destruct (fold_res (split_step vars cons) (s_list st0) (st0, ([], 0%nat))) as [[st1 [extra k1]]|e] eqn:E1; [|discriminate].
  destruct (fold_res (split_step vars cons) extra (st1, ([], k1))) as [[st2 [ex2 k2]]|e] eqn:E2; [|discriminate].
  inversion H; subst.
  apply (split_fold_gen _ _ _ E2 IDX). cbn [fst]. apply (split_fold_gen _ _ _ E1 IDX). exact I0.
Qed.

(* ------------------------------------- splitting between two variables --- *)
Lemma separation : forall pend st v st1 c st2 nl nr,
  Inv pend st -> idx_ok vars cons -> (v < m)%nat ->
  o_blk (vst_ st (c_l (con_ cons v))) = o_blk (vst_ st (c_r (con_ cons v))) ->
  find_min_lm_between vars cons st (c_l (con_ cons v)) (c_r (con_ cons v)) = Ok (st1, Some c) ->
  block_split vars cons st1 c = Ok (st2, (nl, nr)) ->
  let s4 := after_split st2 nl nr (o_blk (vst_ st (c_l (con_ cons v)))) c in
  Inv pend s4 /\ o_blk (vst_ s4 (c_l (con_ cons v))) <> o_blk (vst_ s4 (c_r (con_ cons v))).
Proof.
  intros pend st v st1 c st2 nl nr [W T] IDX Hv Hsame HF HS s4.
  set (lv := c_l (con_ cons v)) in *. set (rv := c_r (con_ cons v)) in *.
  destruct (IDX v Hv) as [Hlv Hrv]. fold lv in Hlv. fold rv in Hrv. fold n in Hlv, Hrv.
  (* what findMinLMBetween returns *)
  unfold find_min_lm_between in HF.
  destruct (compute_lm vars cons (fun _ s (mm : unit) => (s, mm)) (trav_fuel vars) lv None (st, tt)) as [[d [s1 u1]]|k] eqn:EC; [|discriminate].
  apply compute_lm_lm_eq in EC; [|intros; apply lm_eq_refl].
  destruct (find_path cons (trav_fuel vars) lv None rv (s1, None)) as [[b [s2 m2]]|k] eqn:EP; [|discriminate].
  inversion HF; subst s2 m2. clear HF.
  destruct (find_path_spec cons _ _ _ _ _ _ _ _ _ EP) as (L12 & _ & _ & FP).
  destruct FP as [FP|(c0 & u & w & FP1 & FP2 & FP3)]; [discriminate|]. inversion FP1; subst c0. clear FP1.
  assert (L01 : lm_eq st st1) by (eapply lm_eq_trans; eassumption).
  apply (pathedge_ext cons st s1 rv (lm_eq_nbrs cons st s1 EC)) in FP2.
  (* the tree of the block, rooted at lv *)
  destruct (wf_var_block _ _ _ _ lv W Hlv) as [HB Hlvb]. set (B := o_blk (vst_ st lv)) in *.
  destruct (T B HB) as (r & E & Tr & Pr).
  destruct (reroot_any cons st r E lv Tr (Permutation_in lv (Permutation_sym Pr) Hlvb)) as (Elv & [[f Hf] NDlv] & Plv).
  destruct (pathedge_sub cons st rv lv None c u w FP2 f Elv Hf) as (f' & ew & Rw & Hrvw & Hcuw & Hincl).
  destruct (reach_edge cons f st lv None Elv (c, u, w) Hf Hcuw) as [q Hq]. unfold t_c, t_p, t_v in Hq. cbn [fst snd] in Hq.
  assert (Hq' := Hq). apply nbrs_spec in Hq'. destruct Hq' as (Hc & Hact & _ & Hends). fold m in Hc.
  assert (Hnself := wf_noself _ _ _ _ W c Hc Hact).
  assert (Hu : c_l (con_ cons c) = u) by (destruct Hends as [[A Bq]|[A Bq]]; congruence).
  (* u lies in the same block as lv *)
  assert (Huin : In u (lv :: verts Elv)).
  { destruct (reach_parent cons f st lv None Elv (c, u, w) Hf Hcuw) as [Q|Q]; [left; symmetry; exact Q|now right]. }
  assert (HuB : o_blk (vst_ st u) = B).
  { apply (wf_blk _ _ _ _ W B u HB). apply (Permutation_in u Pr). now apply (Permutation_in u Plv). }
  (* invariants carry over to st1 *)
  assert (W1 : WF vars cons pend st1) by (eapply WF_core_eq; [apply lm_eq_core; exact L01|exact W]).
  assert (T1 : I3 cons st1) by (eapply I3_core_eq; [apply lm_eq_core; exact L01|exact T]).
  assert (Act1 : forall k, k_act (cst_ st1 k) = k_act (cst_ st k)) by (destruct L01 as (_ & _ & _ & _ & _ & Z); intros k; apply Z).
  assert (VS1 : forall y, vst_ st1 y = vst_ st y) by (destruct L01 as (Z & _); intros y; unfold vst_; now rewrite Z).
  assert (Hact1 : k_act (cst_ st1 c) = true) by now rewrite Act1.
  destruct (block_split_halves vars cons pend st1 c st2 nl nr W1 T1 IDX Hc Hact1 HS) as (E1 & E2 & HV).
  destruct (split_preserves vars cons pend st1 c st2 nl nr E1 E2 W1 T1 IDX Hc Hact1 HV) as (W4 & T4 & VS4 & _ & Hne).
  rewrite Hu, VS1, HuB in W4, T4, VS4. fold s4 in W4, T4, VS4.
  split; [now split|].
  (* the right half is the subtree below c *)
  destruct (hv_sub _ _ _ _ _ _ _ _ HV) as [f2 Hf2]. rewrite Hu, FP3 in Hf2.
  rewrite (reach_act_ext cons f2 st st1 w (Some u) Act1) in Hf2.
  assert (EE : E2 = ew) by (eapply reach_det; eassumption). subst ew.
  assert (Hrv4 : o_blk (vst_ s4 rv) = nr).
  { rewrite VS4. apply (hv_blk2 _ _ _ _ _ _ _ _ HV). now rewrite FP3. }
  assert (Hlv4 : o_blk (vst_ s4 lv) = nl).
  { rewrite VS4. apply (hv_blk1 _ _ _ _ _ _ _ _ HV).
    assert (P := hv_perm _ _ _ _ _ _ _ _ HV). rewrite Hu, VS1, HuB in P. rewrite FP3 in P.
    assert (BV1 : bvars st1 B = bvars st B) by (unfold bvars, blk_; destruct L01 as (_ & Z & _); now rewrite Z).
    rewrite BV1 in P. apply (Permutation_in lv P) in Hlvb. rewrite Hu.
    apply in_app_or in Hlvb. destruct Hlvb as [Q|Q]; [exact Q|exfalso].
    apply Hincl in Q. apply NoDup_cons_iff in NDlv. now destruct NDlv. }
  rewrite Hrv4, Hlv4. exact Hne.
Qed.

(* --------------------------------------------- one satisfy iteration --- *)
Lemma Inv_requeue : forall pend st v, Inv pend st -> (v < m)%nat -> (pend = None \/ pend = Some v) ->
  Inv None (set_inact st (s_inact st ++ [v])).
Proof.
  intros pend st v [W T] Hv Hp. split.
  - constructor; try (apply W).
    + intros c Hc Ha Hu _. cbn [set_inact s_inact]. apply in_or_app.
      destruct (Nat.eq_dec c v) as [Q|Q]; [right; left; now symmetry|left].
      apply (wf_I1 _ _ _ _ W c Hc Ha Hu). destruct Hp as [P|P]; rewrite P; congruence.
    + intros c Hc. cbn [set_inact s_inact] in Hc. apply in_app_or in Hc.
      destruct Hc as [Hc|[Hc|[]]]; [now apply (wf_inact_lt _ _ _ _ W)|now subst].
  - eapply I3_frame; [| | |exact T]; reflexivity.
Qed.

Lemma satisfy_body_gen : forall st c st' pend,
  satisfy_body vars cons st c = Ok st' -> Inv pend st -> idx_ok vars cons -> (c < m)%nat ->
  (pend = None \/ pend = Some c) -> Inv None st'.
Proof.
  intros st c st' pend H I IDX Hc Hp. unfold satisfy_body in H.
  set (k := con_ cons c) in *.
  destruct (Nat.eqb (o_blk (vst_ st (c_l k))) (o_blk (vst_ st (c_r k)))) eqn:EB; cbn [negb] in H.
  - apply Nat.eqb_eq in EB.
    destruct (is_adp cons (trav_fuel vars) st (c_r k) (c_l k)) as [[|]|e] eqn:EA; [| |discriminate].
    + inversion H; subst. destruct I as [W T]. split; [eapply WF_set_unsat; eassumption|now apply I3_set_unsat].
    + destruct (find_min_lm_between vars cons st (c_l k) (c_r k)) as [[st1 [c2|]]|e] eqn:EF; [| |discriminate].
      * destruct (block_split vars cons st1 c2) as [[st2 [nl nr]]|e] eqn:ES; [|discriminate].
        destruct (separation pend st c st1 c2 st2 nl nr I IDX Hc EB EF ES) as [I4 Hsep].
        fold k in I4, Hsep.
        set (s4 := after_split st2 nl nr (o_blk (vst_ st (c_l k))) c2) in *.
        change (set_inact (bs_remove (bs_insert (bs_insert st2 nl) nr) (o_blk (vst_ st (c_l k))))
                  (s_inact (bs_remove (bs_insert (bs_insert st2 nl) nr) (o_blk (vst_ st (c_l k)))) ++ [c2])) with s4 in H.
        set (s5 := set_mg s4 (note_pos (slack vars cons s4 c) (s_mg s4))) in *.
        assert (I5 : Inv pend s5) by (eapply Inv_lm_eq; [apply set_mg_lm_eq|exact I4]).
        destruct (Qle_bool 0 (slack vars cons s4 c)).
        -- inversion H; subst. now apply (Inv_requeue pend s5 c I5 Hc Hp).
        -- inversion H; subst. destruct I5 as [W5 T5]. split.
           ++ apply (WF_bs_merge vars cons pend s5 c W5 IDX Hc Hp). exact Hsep.
           ++ apply (I3_bs_merge vars cons pend s5 c W5 T5 IDX Hc). exact Hsep.
      * apply find_min_lm_between_lm_eq in EF. inversion H; subst.
        assert (I1 : Inv pend st1) by (eapply Inv_lm_eq; eassumption). destruct I1 as [W1 T1].
        split; [eapply WF_set_unsat; eassumption|now apply I3_set_unsat].
  - apply Nat.eqb_neq in EB. inversion H; subst. destruct I as [W T]. split.
    + now apply (WF_bs_merge vars cons pend st c W IDX Hc Hp).
    + now apply (I3_bs_merge vars cons pend st c W T IDX Hc).
Qed.

(* ------------------------------------------------- the satisfy loop --- *)
Definition MVg (st : state) (v : option nat) : Prop :=
  match v with
  | None => forall x, In x (s_inact st) -> k_uns (cst_ st x) = false -> maxsize <= slack vars cons st x
  | Some c => (c < m)%nat /\ k_uns (cst_ st c) = false /\
              (forall x, In x (s_inact st) -> k_uns (cst_ st x) = false -> slack vars cons st c <= slack vars cons st x)
  end.
Definition pend_of (st : state) (v : option nat) : option nat :=
  match v with Some c => if violated vars cons st c then Some c else None | None => None end.

Lemma most_violated_gen : forall st st' v, Inv None st -> most_violated vars cons st = (st', v) ->
  Inv (pend_of st' v) st' /\ MVg st' v.
Proof.
  intros st st' v [W T] H.
  destruct (most_violated_MV vars cons st st' v W H) as (_ & W' & M).
  assert (S := most_violated_spec vars cons st st' v H). destruct S as (A & B & C & D & _).
  split; [split; [exact W'|eapply I3_frame; [exact B|exact C|exact D|exact T]]|].
  destruct v as [c|]; [|exact M]. destruct M as (M1 & M2 & M3 & _). now repeat split.
Qed.

Lemma satisfy_loop_gen : forall fuel st v st',
  satisfy_loop vars cons fuel st v = Ok st' -> idx_ok vars cons -> sc_ok vars ->
  Inv (pend_of st v) st -> MVg st v -> Inv None st' /\ Exit vars cons st'.
Proof.
  induction fuel as [|f IH]; intros st v st' H IDX SC I M.
  - destruct v as [c|]; cbn [satisfy_loop] in H.
    + fold (violated vars cons st c) in H. unfold pend_of in I. destruct (violated vars cons st c) eqn:Vi; [discriminate|].
      inversion H; subst. split; [exact I|]. destruct I as [W _].
      destruct M as (Hc & Hu & Hmin). intros x Hx Hux. assert (Hs := Hmin x Hx Hux).
      unfold violated in Vi. apply andb_false_iff in Vi. destruct Vi as [Vi|Vi].
      * apply Qltb_ge in Vi. lra.
      * apply negb_false_iff in Vi. assert (Z := active_slack_zero vars cons None st' c W IDX SC Hc Vi Hu).
        assert (Zn := ZUB_neg). lra.
    + inversion H; subst. split; [exact I|]. intros x Hx Hux. assert (Hs := M x Hx Hux). assert (Zm := ZUB_lt_maxsize). lra.
  - destruct v as [c|]; cbn [satisfy_loop] in H.
    + fold (violated vars cons st c) in H. unfold pend_of in I. destruct (violated vars cons st c) eqn:Vi.
      * destruct (satisfy_body vars cons st c) as [st1|e] eqn:EB; [|discriminate].
        destruct (most_violated vars cons st1) as [st2 v'] eqn:EM.
        destruct M as (Hc & Hu & Hmin).
        assert (I1 : Inv None st1) by (apply (satisfy_body_gen st c st1 (Some c) EB I IDX Hc); now right).
        destruct (most_violated_gen st1 st2 v' I1 EM) as [I2 M2].
        exact (IH st2 v' st' H IDX SC I2 M2).
      * inversion H; subst. split; [exact I|]. destruct I as [W _].
        destruct M as (Hc & Hu & Hmin). intros x Hx Hux. assert (Hs := Hmin x Hx Hux).
        unfold violated in Vi. apply andb_false_iff in Vi. destruct Vi as [Vi|Vi].
        -- apply Qltb_ge in Vi. lra.
        -- apply negb_false_iff in Vi. assert (Z := active_slack_zero vars cons None st' c W IDX SC Hc Vi Hu).
           assert (Zn := ZUB_neg). lra.
    + inversion H; subst. split; [exact I|]. intros x Hx Hux. assert (Hs := M x Hx Hux). assert (Zm := ZUB_lt_maxsize). lra.
Qed.

Lemma satisfy_gen : forall fuel st st' ns, satisfy vars cons fuel st = Ok (st', ns) ->
  idx_ok vars cons -> sc_ok vars -> Inv None st -> Inv None st' /\ Exit vars cons st'.
Proof.
  intros fuel st st' ns H IDX SC I. unfold satisfy in H.
  destruct (blocks_split vars cons st) as [[st1 k]|e] eqn:E1; [|discriminate].
  destruct (most_violated vars cons st1) as [st2 v] eqn:E2.
  destruct (satisfy_loop vars cons fuel st2 v) as [st3|e] eqn:E3; [|discriminate].
  assert (I1 := blocks_split_gen st st1 k E1 IDX I). inversion H; subst.
  destruct (most_violated_gen st1 st2 v I1 E2) as [I2 M2].
  exact (satisfy_loop_gen fuel st2 v st' E3 IDX SC I2 M2).
Qed.

Lemma I3_init : I3 cons (init_state vars cons).
Proof.
  intros b Hb. change (s_list (init_state vars cons)) with (seq 0 n) in Hb. apply in_seq in Hb.
  exists b, []. split.
  - split; [|constructor; [intros []|constructor]]. exists 1%nat. cbn [reach].
    assert (E : nbrs cons (init_state vars cons) b None = []).
    { destruct (nbrs cons (init_state vars cons) b None) as [|[c nx] l] eqn:Q; [reflexivity|exfalso].
      assert (Z : In (c, nx) (nbrs cons (init_state vars cons) b None)) by (rewrite Q; now left).
      apply nbrs_spec in Z. destruct Z as (_ & Z & _). rewrite init_cst in Z. discriminate. }
    rewrite E. reflexivity.
  - unfold bvars. rewrite init_blk by (simpl; lia). reflexivity.
Qed.

Lemma solve_loop_gen : forall fuel sfuel st lastcost cost ns stalled nsat st' c' k',
  solve_loop vars cons fuel sfuel st lastcost cost ns stalled nsat = Ok (st', c', k') ->
  idx_ok vars cons -> sc_ok vars -> Inv None st -> Exit vars cons st -> Inv None st' /\ Exit vars cons st'.
Proof.
  induction fuel as [|f IH]; intros sfuel st lastcost cost ns stalled nsat st' c' k' H IDX SC I EX;
    cbn [solve_loop] in H;
    destruct (Qltb COST_EPS (Qabs (lastcost - cost)) || negb (Nat.eqb ns 0) && Nat.ltb stalled (length cons))%bool.
  - discriminate.
  - inversion H; subst. split; [|exact EX]. eapply Inv_lm_eq; [apply set_mg_lm_eq|exact I].
  - destruct (satisfy vars cons sfuel _) as [[st1 ns1]|e] eqn:E; [|discriminate].
    assert (I0 : Inv None (set_mg st (note_pos (Qabs (lastcost - cost) - COST_EPS) (s_mg st))))
      by (eapply Inv_lm_eq; [apply set_mg_lm_eq|exact I]).
    destruct (satisfy_gen sfuel _ st1 ns1 E IDX SC I0) as [I1 E1].
    exact (IH _ _ _ _ _ _ _ _ _ _ H IDX SC I1 E1).
  - inversion H; subst. split; [|exact EX]. eapply Inv_lm_eq; [apply set_mg_lm_eq|exact I].
Qed.

Theorem solve_inv : forall st c k,
  solve vars cons = Ok (st, c, k) -> idx_ok vars cons -> sc_ok vars -> Inv None st /\ Exit vars cons st.
Proof.
  intros st c k H IDX SC. unfold solve, solve_with in H.
  destruct (satisfy vars cons (sat_fuel vars cons) (init_state vars cons)) as [[st0 ns]|e] eqn:E0; [|discriminate].
  assert (I00 : Inv None (init_state vars cons)) by (split; [apply WF_init|apply I3_init]).
  destruct (satisfy_gen _ _ _ _ E0 IDX SC I00) as [I0 X0].
  exact (solve_loop_gen _ _ _ _ _ _ _ _ _ _ _ H IDX SC I0 X0).
Qed.
End Gen.
