(* Property C17: calendar intervals round instants correctly.
   Statements only.  `u` ranges over the seven units (second, minute, hour,
   day, week starting Sunday, month, year); `interval_of u` is the model of
   d3_time[u] (Time/Interval.v); instants are valid datetimes (years 1..9999,
   microsecond resolution) and are compared through `to_us` (microseconds since
   1970-01-01).  `is_boundary u`, `kth_following`, `unit_number u`
   (Time/IntervalSpec.v) do not mention the interval code.

   Results are `Ok r` (value), `Raise` (Python raises: only when a result
   would leave years 1..9999, or month/year steps from a non-boundary day that
   does not exist in the target month) or `NoFuel` (model artefact, proved
   unreachable).  Each specification is about `Ok` results; the `_total`
   theorems show that `Ok` is what happens in years 2..9997. *)
From Coq Require Import ZArith List Bool Sorted.
From Labella Require Import Time.Calendar Time.CalendarProofs Time.Interval
  Time.IntervalSpec Time.IntervalProofs Time.UnitProofs History.TimeOld.
Import ListNotations.
Open Scope Z_scope.

(* floor t is a boundary, not after t, and no boundary lies in (floor t, t] *)
Theorem C17_floor_spec : forall u t r,
  valid t -> iv_floor (interval_of u) t = Ok r ->
  valid r /\ to_us r <= to_us t /\ is_boundary u (to_us r) /\
  (forall b, is_boundary u b -> b <= to_us t -> b <= to_us r).
Proof. intros u. exact (g_floor _ _ (all_units_ok u)). Qed.
Print Assumptions C17_floor_spec.

(* ceil t is a boundary, not before t, and no boundary lies in [t, ceil t).
   Stated for instants of millisecond resolution, the property's domain: the
   code computes ceil t = step (floor (t - 1 ms)) 1, which for an instant
   strictly between a boundary b and b + 1 ms returns b (C17_ex_ceil_microsecond). *)
Theorem C17_ceil_spec : forall u t r,
  valid t -> ms_resolution t -> iv_ceil (interval_of u) t = Ok r ->
  valid r /\ to_us t <= to_us r /\ is_boundary u (to_us r) /\
  (forall b, is_boundary u b -> to_us t <= b -> to_us r <= b).
Proof. intros u. exact (g_ceil _ _ (all_units_ok u)). Qed.
Print Assumptions C17_ceil_spec.

(* round t is a boundary nearest to t; of two equally near ones, the later *)
Theorem C17_round_spec : forall u t r,
  valid t -> iv_round (interval_of u) t = Ok r ->
  valid r /\ is_boundary u (to_us r) /\
  (forall b, is_boundary u b ->
     Z.abs (to_us r - to_us t) <= Z.abs (b - to_us t) /\
     (Z.abs (b - to_us t) = Z.abs (to_us r - to_us t) -> b <= to_us r)).
Proof. intros u. exact (g_round _ _ (all_units_ok u)). Qed.
Print Assumptions C17_round_spec.

(* stepping a boundary forward by k >= 0 gives the k-th following boundary *)
Theorem C17_offset_spec : forall u b k r,
  valid b -> is_boundary u (to_us b) -> 0 <= k ->
  iv_offset (interval_of u) b k = Ok r ->
  valid r /\ kth_following (is_boundary u) (to_us b) (Z.to_nat k) (to_us r).
Proof. intros u. exact (g_offset _ _ (all_units_ok u)). Qed.
Print Assumptions C17_offset_spec.

(* ... and "the k-th following boundary" determines the instant *)
Theorem C17_kth_following_unique : forall u b n r r',
  kth_following (is_boundary u) b n r -> kth_following (is_boundary u) b n r' -> r = r'.
Proof. intros u. exact (kth_following_unique (is_boundary u)). Qed.
Print Assumptions C17_kth_following_unique.

(* range t0 t1 step lists, strictly increasing, exactly the boundaries in
   [t0, t1) whose unit number is divisible by the step (all of them if
   step <= 1).  t0 of millisecond resolution, as for ceil. *)
Theorem C17_range_spec : forall u t0 t1 st l,
  valid t0 -> ms_resolution t0 -> iv_range (interval_of u) t0 t1 st = Ok l ->
  Forall valid l /\ StronglySorted lt_us l /\
  (forall x, valid x ->
     (In x l <-> is_boundary u (to_us x) /\ to_us t0 <= to_us x < to_us t1 /\
                 (1 < st -> unit_number u x mod st = 0))).
Proof. exact units_range_spec. Qed.
Print Assumptions C17_range_spec.

Theorem C17_range_fuel_enough : forall u t0 t1 st,
  valid t0 -> iv_range (interval_of u) t0 t1 st <> NoFuel.
Proof. intros u. exact (g_range_fuel_enough _ _ (all_units_ok u)). Qed.
Print Assumptions C17_range_fuel_enough.

(* no operation runs out of fuel or raises in years 2..9997 (nothing can
   leave datetime.min .. datetime.max from there in one step) *)
Theorem C17_total : forall u t, valid t -> 2 <= dt_y t <= 9997 ->
  (exists r, iv_floor (interval_of u) t = Ok r) /\
  (exists r, iv_ceil (interval_of u) t = Ok r) /\
  (exists r, iv_round (interval_of u) t = Ok r).
Proof. exact units_total. Qed.
Print Assumptions C17_total.

Theorem C17_offset_total : forall u b k,
  valid b -> is_boundary u (to_us b) -> 0 <= k ->
  to_us b + k * (366 * 86400000000) <= MAX_US ->
  exists r, iv_offset (interval_of u) b k = Ok r.
Proof. intros u. exact (g_offset_total _ _ (all_units_ok u)). Qed.
Print Assumptions C17_offset_total.

Theorem C17_range_total : forall u t0 t1 st,
  valid t0 -> valid t1 -> 2 <= dt_y t0 <= 9997 -> 2 <= dt_y t1 <= 9997 ->
  exists l, iv_range (interval_of u) t0 t1 st = Ok l.
Proof. exact units_range_total. Qed.
Print Assumptions C17_range_total.

(* the calendar underneath: conversions are mutually inverse on ALL integers /
   all well-formed records, the year range 1..9999 is MIN_US..MAX_US, Python's
   field-wise order is the order of to_us, consecutive months/years differ by
   the month/year length *)
Theorem C17_calendar_roundtrip :
  (forall z, to_us (of_us z) = z /\ wf (of_us z)) /\
  (forall t, wf t -> of_us (to_us t) = t) /\
  (forall t, wf t -> (1 <= dt_y t <= 9999 <-> MIN_US <= to_us t <= MAX_US)) /\
  (forall a b, wf a -> wf b -> lex_lt a b -> to_us a < to_us b).
Proof.
  split; [intros z; split; [apply to_us_of_us|apply of_us_wf]|].
  split; [exact of_us_to_us|]. split; [exact year_range_iff|exact to_us_lt_lex].
Qed.
Print Assumptions C17_calendar_roundtrip.

Theorem C17_calendar_lengths :
  (forall i, first_of_month (i + 1) = first_of_month i + month_len i) /\
  (forall y, days_from_civil (y + 1) 1 1 = days_from_civil y 1 1 + (if is_leap y then 366 else 365)) /\
  days_from_civil 1970 1 1 = 0 /\
  (forall n, isoweekday_of_days (n + 1) = isoweekday_of_days n mod 7 + 1).
Proof.
  split; [exact first_of_month_succ|]. split; [exact first_of_year_succ|].
  split; [exact epoch_is_zero|exact isoweekday_succ].
Qed.
Print Assumptions C17_calendar_lengths.

(* historical (Appendix A.7): before the repair 867ccf8 the day step used month
   arithmetic and raised across a 31st, where the following boundary exists
   and the repaired step finds it (model of the old code: History/TimeOld.v) *)
Theorem C17_refuted_old :
  day_offset_old (mkdt 2084 8 31 0 0 0 0) 1 = Raise /\
  iv_offset iv_day (mkdt 2084 8 31 0 0 0 0) 1 = Ok (mkdt 2084 9 1 0 0 0 0).
Proof. exact day_offset_old_raises. Qed.
Print Assumptions C17_refuted_old.

(* ---------- non-vacuity and worked instances ------------------------------- *)
(* 2021-03-14T02:30:15.500 (a Sunday); 2084-08-31 (the historic day-offset witness) *)
Definition ex_t : dt := mkdt 2021 3 14 2 30 15 500000.

Example C17_ex_floor_ceil_round :
  valid ex_t /\ ms_resolution ex_t /\
  iv_floor iv_hour ex_t = Ok (mkdt 2021 3 14 2 0 0 0) /\
  iv_ceil iv_hour ex_t = Ok (mkdt 2021 3 14 3 0 0 0) /\
  iv_round iv_hour ex_t = Ok (mkdt 2021 3 14 3 0 0 0) /\
  iv_floor iv_week ex_t = Ok (mkdt 2021 3 14 0 0 0 0) /\
  iv_ceil iv_week ex_t = Ok (mkdt 2021 3 21 0 0 0 0) /\
  iv_floor iv_month (mkdt 2020 2 29 23 59 59 999000) = Ok (mkdt 2020 2 1 0 0 0 0) /\
  iv_ceil iv_month (mkdt 2020 2 29 23 59 59 999000) = Ok (mkdt 2020 3 1 0 0 0 0) /\
  iv_ceil iv_year (mkdt 2099 12 31 0 0 0 1000) = Ok (mkdt 2100 1 1 0 0 0 0) /\
  iv_round iv_day (mkdt 2021 3 14 12 0 0 0) = Ok (mkdt 2021 3 15 0 0 0 0).
Proof. vm_compute. repeat split. Qed.

Example C17_ex_offset :
  iv_offset iv_day (mkdt 2084 8 31 0 0 0 0) 1 = Ok (mkdt 2084 9 1 0 0 0 0) /\
  iv_offset iv_month (mkdt 2021 11 1 0 0 0 0) 400 = Ok (mkdt 2055 3 1 0 0 0 0) /\
  iv_offset iv_year (mkdt 1900 1 1 0 0 0 0) 400 = Ok (mkdt 2300 1 1 0 0 0 0) /\
  iv_offset iv_week (mkdt 2021 3 14 0 0 0 0) 2 = Ok (mkdt 2021 3 28 0 0 0 0) /\
  is_boundary UDay (to_us (mkdt 2084 8 31 0 0 0 0)) /\
  is_boundary UWeek (to_us (mkdt 2021 3 14 0 0 0 0)).
Proof. vm_compute. repeat split. Qed.

Example C17_ex_range :
  iv_range iv_day (mkdt 2020 2 27 12 0 0 0) (mkdt 2020 3 2 0 0 0 0) 1 =
    Ok [mkdt 2020 2 28 0 0 0 0; mkdt 2020 2 29 0 0 0 0; mkdt 2020 3 1 0 0 0 0] /\
  iv_range iv_month (mkdt 2020 10 15 0 0 0 0) (mkdt 2021 8 1 0 0 0 0) 3 =
    Ok [mkdt 2021 1 1 0 0 0 0; mkdt 2021 4 1 0 0 0 0; mkdt 2021 7 1 0 0 0 0] /\
  iv_range iv_week (mkdt 2023 1 1 0 0 0 0) (mkdt 2023 1 29 0 0 0 0) 2 =
    Ok [mkdt 2023 1 8 0 0 0 0; mkdt 2023 1 22 0 0 0 0] /\
  iv_range iv_hour (mkdt 2021 3 14 2 0 0 0) (mkdt 2021 3 14 2 0 0 0) 1 = Ok [].
Proof. vm_compute. repeat split. Qed.

(* the results that are NOT Ok: leaving years 1..9999, and a month step from a
   day that does not exist in the target month (not a boundary) *)
Example C17_ex_raise :
  iv_floor iv_week (mkdt 1 1 1 12 0 0 0) = Raise /\
  iv_ceil iv_year (mkdt 9999 6 1 0 0 0 0) = Raise /\
  iv_offset iv_month (mkdt 2021 1 31 0 0 0 0) 1 = Raise /\
  iv_offset iv_year (mkdt 2020 2 29 0 0 0 0) 1 = Raise.
Proof. vm_compute. repeat split. Qed.

(* why ceil_spec asks for millisecond resolution: 1970-01-01T00:00:00.000500 *)
Example C17_ex_ceil_microsecond :
  valid (mkdt 1970 1 1 0 0 0 500) /\ ~ ms_resolution (mkdt 1970 1 1 0 0 0 500) /\
  iv_ceil iv_second (mkdt 1970 1 1 0 0 0 500) = Ok (mkdt 1970 1 1 0 0 0 0).
Proof. vm_compute. repeat split. intros H; discriminate H. Qed.
