(* Property C12: the linear scale is the affine map through its domain and
   range end points; after any history every scale is consistent with what it
   reports; a copy and its original never influence each other.
   Statements only; every proof is `exact <lemma>`.
   Q equality is == (Qeq); the inverse laws hold exactly in the model, the
   property's "up to floating-point error" is the tolerance of the tie. *)
From Coq Require Import ZArith QArith List Bool.
From Labella Require Import Scale.Linear Scale.LinearProofs Scale.Ticks Scale.Nice
  Scale.ScaleState Scale.ScaleStateProofs.
Import ListNotations.
Open Scope Q_scope.

(* ---------- point-wise: all domains [a,b], a <> b, either order; all ranges;
   all x --------------------------------------------------------------------- *)
Theorem C12_lin_endpoints : forall a b r0 r1, ~ a == b ->
  lin a b r0 r1 a == r0 /\ lin a b r0 r1 b == r1.
Proof. exact lin_endpoints. Qed.
Print Assumptions C12_lin_endpoints.

Theorem C12_lin_affine : forall a b r0 r1 x y t, ~ a == b ->
  lin a b r0 r1 (x * (1 - t) + y * t) ==
  lin a b r0 r1 x * (1 - t) + lin a b r0 r1 y * t.
Proof. exact lin_affine. Qed.
Print Assumptions C12_lin_affine.

(* strictly monotone in between and beyond; increasing when domain and range
   have the same orientation, decreasing otherwise *)
Theorem C12_lin_strict_mono : forall a b r0 r1 x y, ~ a == b -> ~ r0 == r1 -> x < y ->
  (0 < (b - a) * (r1 - r0) -> lin a b r0 r1 x < lin a b r0 r1 y) /\
  ((b - a) * (r1 - r0) < 0 -> lin a b r0 r1 y < lin a b r0 r1 x).
Proof. exact lin_strict_mono. Qed.
Print Assumptions C12_lin_strict_mono.

Theorem C12_lin_direction_total : forall a b r0 r1 : Q, ~ a == b -> ~ r0 == r1 ->
  0 < (b - a) * (r1 - r0) \/ (b - a) * (r1 - r0) < 0.
Proof. exact lin_direction_total. Qed.
Print Assumptions C12_lin_direction_total.

Theorem C12_lin_inv_left : forall a b r0 r1 x, ~ a == b -> ~ r0 == r1 ->
  inv a b r0 r1 (lin a b r0 r1 x) == x.
Proof. exact lin_inv_left. Qed.
Print Assumptions C12_lin_inv_left.

Theorem C12_lin_inv_right : forall a b r0 r1 y, ~ a == b -> ~ r0 == r1 ->
  lin a b r0 r1 (inv a b r0 r1 y) == y.
Proof. exact lin_inv_right. Qed.
Print Assumptions C12_lin_inv_right.

(* clamping (no hypothesis: also for degenerate domains) *)
Theorem C12_clamp_in_range : forall a b r0 r1 x,
  qmin r0 r1 <= lin_clamp a b r0 r1 x <= qmax r0 r1.
Proof. exact clamp_in_range. Qed.
Print Assumptions C12_clamp_in_range.

Theorem C12_clamp_id_inside : forall a b r0 r1 x, ~ a == b ->
  qmin a b <= x <= qmax a b -> lin_clamp a b r0 r1 x == lin a b r0 r1 x.
Proof. exact clamp_id_inside. Qed.
Print Assumptions C12_clamp_id_inside.

(* invert() uses the same clamp flag: its outputs stay in the domain *)
Theorem C12_clamp_inv_in_domain : forall a b r0 r1 y,
  qmin a b <= inv_gen true a b r0 r1 y <= qmax a b.
Proof. exact clamp_inv_in_domain. Qed.
Print Assumptions C12_clamp_inv_in_domain.

Theorem C12_clamp_inv_id_inside : forall a b r0 r1 y, ~ r0 == r1 ->
  qmin r0 r1 <= y <= qmax r0 r1 -> inv_gen true a b r0 r1 y == inv a b r0 r1 y.
Proof. exact clamp_inv_id_inside. Qed.
Print Assumptions C12_clamp_inv_id_inside.

(* ---------- object level: all operation lists ----------------------------- *)
(* The heap machine of coq/Scale/ScaleState.v: ONE heap of list cells; scales
   may share cells in every combination (the caller hands the same list to
   several scales, or hands one scale's own domain()/range() list to another).
   No operation writes into an existing cell: *)
Theorem C12_ss_cells_immutable : forall ops st c v,
  nth_error (heap st) c = Some v -> nth_error (heap (run ops st)) c = Some v.
Proof. exact ss_cells_immutable. Qed.
Print Assumptions C12_ss_cells_immutable.

(* ss_inv st: every scale's closures hold exactly the end points of the domain
   and range cells it points to (= reports) and its current clamp flag.  For
   ALL histories, shared cells included, no disjointness side condition. *)
Theorem C12_ss_invariant : forall ops, ss_inv (run ops init).
Proof. exact ss_invariant. Qed.
Print Assumptions C12_ss_invariant.

(* hence: after ANY sequence of constructor/domain/range/clamp/nice/copy calls
   every scale maps the end points of the domain it reports to the end points
   of the range it reports *)
Theorem C12_ss_endpoints : forall ops i a b r0 r1,
  let st := run ops init in
  observe st i QDomain = APair (a, b) -> observe st i QRange = APair (r0, r1) -> ~ a == b ->
  exists v0 v1, observe st i (QCall a) = ANum v0 /\ observe st i (QCall b) = ANum v1 /\
                v0 == r0 /\ v1 == r1.
Proof. exact ss_endpoints. Qed.
Print Assumptions C12_ss_endpoints.

(* no operation list that does not write to scale t changes any observation of
   t (Leibniz equality: the same numbers, not merely equal ones) - even when
   the other scales hold t's own list objects *)
Theorem C12_ss_independent : forall pre ops t q,
  let st := run pre init in
  (t < length (scales st))%nat ->
  forallb (fun o => negb (touches t o)) ops = true ->
  observe (run ops st) t q = observe st t q.
Proof. exact ss_independent. Qed.
Print Assumptions C12_ss_independent.

(* copy: the copy answers as the original did; afterwards operations on the
   copy never change the original and operations on the original never change
   the copy *)
Theorem C12_ss_copy_independent : forall pre i ops q,
  let st := run pre init in
  let c := length (scales st) in
  let st1 := step st (OCopy i) in
  (i < length (scales st))%nat ->
  (forall x, observe st1 c x = observe st i x) /\
  (forallb (fun o => negb (touches i o)) ops = true ->
     observe (run ops st1) i q = observe st i q) /\
  (forallb (fun o => negb (touches c o)) ops = true ->
     observe (run ops st1) c q = observe st i q).
Proof. exact ss_copy_independent. Qed.
Print Assumptions C12_ss_copy_independent.

Theorem C12_ss_no_dangling : forall ops j s,
  let st := run ops init in
  nth_error (scales st) j = Some s ->
  (dom s < length (heap st))%nat /\ (rng s < length (heap st))%nat.
Proof. exact ss_no_dangling. Qed.
Print Assumptions C12_ss_no_dangling.

(* ---------- non-vacuity ---------------------------------------------------- *)
Example C12_ex_point :
  Qeq_bool (lin (3#10) (97#10) 0 100 5) (50#1) = true /\
  Qeq_bool (lin 10 0 0 100 (25#10)) 75 = true /\
  Qeq_bool (inv 10 0 0 100 75) (25#10) = true /\
  Qeq_bool (lin_clamp 0 1 0 100 2) 100 = true /\
  Qeq_bool (lin 0 1 0 100 2) 200 = true.
Proof. vm_compute. repeat split. Qed.

(* the history of DESIGN.md A.6: s.domain([0.3,9.7]).range([0,100]); c = s.copy();
   c.nice(): the original still reports [0.3,9.7] and maps 0.3 to 0, the copy
   reports [0,10] and maps 0 to 0.  Cells: 0,1 = defaults of s; 2 = [0,100];
   3 = [0.3,9.7]; 4,5 = the copy's lists; 6 = the copy's nice domain *)
Definition C12_A6 : list op :=
  [ONew; OAlloc (0, 100); ODomain 0 (3#10, 97#10); ORange 0 2; OCopy 0; ONice 1 10].
Example C12_ex_history :
  let st := run C12_A6 init in
  observe st 0 QDomain = APair (3#10, 97#10) /\
  observe st 1 QDomain = APair (0, 10) /\
  (exists v, observe st 0 (QCall (3#10)) = ANum v /\ Qeq_bool v 0 = true) /\
  (exists v, observe st 1 (QCall 10) = ANum v /\ Qeq_bool v 100 = true) /\
  forallb (fun o => negb (touches 0 o)) [ONice 1 10; ODomain 1 (5, 7); OCopy 1] = true.
Proof.
  vm_compute. repeat split; eexists; split; reflexivity.
Qed.

(* the audit history (B6): c = s.copy(); c.range(s.domain()); s.nice(): the copy
   holds the original's own domain list as its range; nice() on the original
   allocates a new list, so the copy still reports the range [0.3,9.7] and
   maps its domain end points onto it *)
Definition C12_B6 : list op :=
  [ONew; OAlloc (0, 100); ODomain 0 (3#10, 97#10); ORange 0 2; OCopy 0;
   ORangeOfDomain 1 0; ONice 0 10].
Example C12_ex_alias :
  let st := run C12_B6 init in
  observe st 0 QDomain = APair (0, 10) /\
  observe st 1 QRange = APair (3#10, 97#10) /\
  observe st 1 QDomain = APair (3#10, 97#10) /\
  (exists v, observe st 1 (QCall (97#10)) = ANum v /\ Qeq_bool v (97#10) = true) /\
  (exists s0 s1, nth_error (scales (run [ONew; OAlloc (0, 100); ODomain 0 (3#10, 97#10); ORange 0 2;
                                         OCopy 0; ORangeOfDomain 1 0] init)) 0 = Some s0 /\
                 nth_error (scales (run [ONew; OAlloc (0, 100); ODomain 0 (3#10, 97#10); ORange 0 2;
                                         OCopy 0; ORangeOfDomain 1 0] init)) 1 = Some s1 /\
                 rng s1 = dom s0).
Proof.
  vm_compute. repeat split; try (eexists; split; reflexivity).
  eexists. eexists. repeat split.
Qed.
