(* Property C02: labels are displaced as little as possible (least-squares
   optimal placement).  Statements only; every proof is `exact <lemma>`.

   Vocabulary (coq/Layout/Pava.v, Layer.v):
     cost d w x              sum_i w_i (x_i - d_i)^2     (so cost x w y = sum w_i (y_i - x_i)^2)
     feasible g y            y_{i+1} - y_i >= g_i for all i
     objective o s yl y yr   the objective the code gives the solver: sum (y_i - t_i)^2
                             + 1e10 (yl - minP)^2 + 1e10 (yr - maxP)^2 (terms of absent bounds omitted)
     separated o s yl y yr   the item gaps, and half a width between each existing wall and the
                             first / last item
     wallL, wallR            where the model's solution puts the wall variables
     inside o s y            y_1 - w_1/2 >= minP and y_n + w_n/2 <= maxP (for the bounds that exist)
   Not here (owned by the engine package): C02_targets (a deeper layer's
   targets are the reported positions of its stubs); the theorems below hold
   for arbitrary targets.
   The distance to the optimum under HARD bounds (stretch item of DESIGN.md) is
   proved at the end of this file: C02_hard_optimum, C02_hard_close,
   C02_distance_to_hard_optimum. *)
From Coq Require Import ZArith QArith List Bool.
From Labella Require Import Base.QUtil Base.QUtilProofs Layout.Pava Layout.PavaProofs
  Layout.Layer Layout.LayerProofs.
Import ListNotations.
Open Scope Q_scope.

(* `feasible` is exactly the pointwise statement *)
Theorem feasible_pointwise : forall y g,
  (forall i, (S i < length y)%nat -> (i < length g)%nat -> qnth i g <= qnth (S i) y - qnth i y) ->
  feasible g y.
Proof. exact feasible_of_nth. Qed.
Print Assumptions feasible_pointwise.

(* the chain solver: strong optimality (for all desired positions, weights > 0, gaps,
   and all competing feasible placements) *)
Theorem pava_optimal : forall d w g y, chain_ok d w g ->
  length y = length d -> feasible g y ->
  cost d w (pava d w g) + cost (pava d w g) w y <= cost d w y.
Proof. exact pava_optimal_list. Qed.
Print Assumptions pava_optimal.

(* ... hence uniqueness of the minimiser *)
Theorem pava_unique_minimiser : forall d w g y, chain_ok d w g ->
  length y = length d -> feasible g y ->
  cost d w y <= cost d w (pava d w g) -> Forall2 Qeq (pava d w g) y.
Proof. exact pava_unique. Qed.
Print Assumptions pava_unique_minimiser.

(* a layer: the model's positions minimise the code's actual objective (wall
   terms included) among ALL placements of items and walls that keep the
   separation constraints, with a quadratic margin *)
Theorem C02_layer : forall o its yl y yr, its <> [] ->
  let s := sorted_items its in
  length y = length its -> separated o s yl y yr ->
  objective o s (wallL o s) (solve_layer_exact o its) (wallR o s) + sqdist (solve_layer_exact o its) y
    <= objective o s yl y yr.
Proof. exact C02_layer_lemma. Qed.
Print Assumptions C02_layer.

(* ... so they are the unique minimiser *)
Theorem C02_layer_unique : forall o its yl y yr, its <> [] ->
  let s := sorted_items its in
  length y = length its -> separated o s yl y yr ->
  objective o s yl y yr <= objective o s (wallL o s) (solve_layer_exact o its) (wallR o s) ->
  Forall2 Qeq (solve_layer_exact o its) y.
Proof. exact C02_unique_lemma. Qed.
Print Assumptions C02_layer_unique.

(* every placement that keeps the item gaps and lies inside the bounds is at
   least as far from the targets as the model's placement *)
Theorem C02_beats_bounded : forall o its y, its <> [] ->
  let s := sorted_items its in
  length y = length its -> feasible (gaps o s) y -> inside o s y ->
  sqdist (map tgt s) (solve_layer_exact o its) <= sqdist (map tgt s) y.
Proof. exact C02_beats_bounded_lemma. Qed.
Print Assumptions C02_beats_bounded.

(* the reported integers are within 1/2 of the optimum *)
Theorem C02_rounded : forall o its,
  Forall2 (fun z x => - (1 # 2) <= inject_Z z - x <= 1 # 2)
          (solve_layer o its) (solve_layer_exact o its).
Proof. exact C02_rounded_lemma. Qed.
Print Assumptions C02_rounded.

(* targets that already are separated and inside the bounds are not moved *)
Theorem C02_unmoved : forall o its, its <> [] ->
  let s := sorted_items its in
  feasible (gaps o s) (map tgt s) -> inside o s (map tgt s) ->
  Forall2 Qeq (solve_layer_exact o its) (map tgt s) /\
  solve_layer o its = map (fun a => pyround (tgt a)) s.
Proof. exact C02_unmoved_lemma. Qed.
Print Assumptions C02_unmoved.

(* per item (the last sentence of the property): in the chain problem, a
   variable whose neighbours' solved positions leave the required gaps around
   its desired position sits exactly there *)
Theorem pava_unmoved_item : forall d w g k, chain_ok d w g -> (k < length d)%nat ->
  let x := pava d w g in
  match k with O => True | S k' => qnth k' x + qnth k' g <= qnth k d end ->
  (S k = length d \/ qnth k d <= qnth (S k) x - qnth k g) ->
  qnth k x == qnth k d.
Proof. exact PavaProofs.pava_unmoved_item. Qed.
Print Assumptions pava_unmoved_item.

(* ... for item i of a layer (in target order): if the solved position of its
   left neighbour plus the gap is not right of its target (for the first item:
   the left wall's position plus half its width, when there is a lower bound)
   and likewise on the right, it is not moved, and is reported at round(target) *)
Theorem C02_unmoved_item : forall o its i a, nth_error (sorted_items its) i = Some a ->
  let s := sorted_items its in
  let x := solve_layer_exact o its in
  let g := gaps o s in
  match i with
  | O => match minP o with Some _ => wallL o s + wid a / 2 <= tgt a | None => True end
  | S i' => qnth i' x + qnth i' g <= tgt a
  end ->
  (if (S i =? length its)%nat
   then match maxP o with Some _ => tgt a <= wallR o s - wid a / 2 | None => True end
   else tgt a <= qnth (S i) x - qnth i g) ->
  qnth i x == tgt a /\ nth i (solve_layer o its) 0%Z = pyround (tgt a).
Proof. exact C02_unmoved_item_lemma. Qed.
Print Assumptions C02_unmoved_item.

(* the hypotheses of C02_unmoved_item hold for the third item of C02_ex_layer
   below (target 200) although its two neighbours are moved *)
Example C02_ex_unmoved_item :
  let o := mkOpts 3 2 (Some 0) None in
  let its := [mkItem 200 10 false; mkItem 20 10 false; mkItem 24 10 false] in
  nth_error (sorted_items its) 2 = Some (mkItem 200 10 false) /\
  qnth 1 (solve_layer_exact o its) + qnth 1 (gaps o (sorted_items its)) <= 200 /\
  (3 =? length its)%nat = true /\ maxP o = None.
Proof. vm_compute. repeat split; try reflexivity; discriminate. Qed.

(* non-vacuity *)
Example C02_ex_chain :
  chain_ok [0; 5; 3; 100] [10000000000; 1; 1; 10000000000] [5; 13; 5] /\
  feasible [5; 13; 5] [0; 5; 18; 100] /\
  map Qred (pava [0; 5; 3; 100] [10000000000; 1; 1; 10000000000] [5; 13; 5]) =
    [-5 # 3333333334; 16666666665 # 3333333334; 60000000007 # 3333333334; 100].
Proof.
  split; [repeat split; repeat constructor|].
  split; [cbn [feasible]; repeat split; discriminate|vm_compute; reflexivity].
Qed.

(* two labels that overlap are moved symmetrically; a third with room stays *)
Example C02_ex_layer :
  let o := mkOpts 3 2 (Some 0) None in
  let its := [mkItem 200 10 false; mkItem 20 10 false; mkItem 24 10 false] in
  map Qred (solve_layer_exact o its) = [31 # 2; 57 # 2; 200] /\
  solve_layer o its = [16; 28; 200]%Z.
Proof. vm_compute. split; reflexivity. Qed.

(* hypotheses of C02_unmoved / C02_beats_bounded are satisfiable *)
Example C02_ex_unmoved :
  let o := mkOpts 3 2 (Some 0) (Some 100) in
  let its := [mkItem 60 10 false; mkItem 20 10 true; mkItem 40 (5 # 2) true] in
  let s := sorted_items its in
  its <> [] /\ feasible (gaps o s) (map tgt s) /\ inside o s (map tgt s) /\
  solve_layer o its = [20; 40; 60]%Z.
Proof.
  vm_compute. split; [discriminate|]. split; [repeat split; discriminate|].
  split; [split; discriminate|reflexivity].
Qed.

(* ==========================================================================
   The distance to the optimum under HARD bounds (the placement the property
   text speaks of), quantified.  This replaces the stretch item
   C02_distance_to_hard_optimum_partial of DESIGN.md by the full statement and
   turns the open finding "soft-wall-slack" into a quantified one.

     hard_clamp o s   the model's solver variables clamped into the bounds in
                      gap-offset coordinates (so the separation is kept; the
                      two walls land exactly on minP / maxP), items only
     slackL, slackR   how far the walls gave way: minP - x_L, x_R - maxP (0 if absent)
     delta o its      (sum_i |x_i - t_i|) / 1e10   (C03_inside)
   Holds whenever the layer fits (`fits`: no slack required), for any
   combination of present / absent bounds. *)
From Labella Require Import Layout.HardBoundProofs.

(* hard_clamp is an admissible placement (separated, inside the bounds) and is
   better than every other admissible placement, with a quadratic margin:
   it is THE least-squares optimum among placements inside the bounds *)
Theorem C02_hard_optimum : forall o its, its <> [] -> fits o (sorted_items its) ->
  let s := sorted_items its in
  let z := hard_clamp o s in
  length z = length its /\ feasible (gaps o s) z /\ inside o s z /\
  forall v, length v = length its -> feasible (gaps o s) v -> inside o s v ->
    sqdist (map tgt s) z + sqdist z v <= sqdist (map tgt s) v.
Proof. exact C02_hard_optimum_lemma. Qed.
Print Assumptions C02_hard_optimum.

(* the walls only give way outward, by at most delta (stationarity of the wall
   variables), and no item of the model's solution is farther from hard_clamp
   than its wall gave way *)
Theorem C02_hard_close : forall o its, its <> [] -> fits o (sorted_items its) ->
  let s := sorted_items its in
  (0 <= slackL o s <= delta o its) /\ (0 <= slackR o s <= delta o its) /\
  Forall2 (fun x z => - slackR o s <= z - x <= slackL o s) (solve_layer_exact o its) (hard_clamp o s).
Proof. exact C02_hard_close_lemma. Qed.
Print Assumptions C02_hard_close.

(* hence for ANY least-squares optimum y among the separated placements inside
   the bounds: y is hard_clamp, the model's exact positions are within the wall
   displacements (<= delta) of it item by item, and sum (x_i - y_i)^2 <= n delta^2.
   With C02_rounded the reported integers are within 1/2 + delta of y. *)
Theorem C02_distance_to_hard_optimum : forall o its y, its <> [] -> fits o (sorted_items its) ->
  let s := sorted_items its in
  length y = length its -> feasible (gaps o s) y -> inside o s y ->
  (forall v, length v = length its -> feasible (gaps o s) v -> inside o s v ->
     sqdist (map tgt s) y <= sqdist (map tgt s) v) ->
  Forall2 Qeq (hard_clamp o s) y /\
  Forall2 (fun x yi => - slackR o s <= yi - x <= slackL o s) (solve_layer_exact o its) y /\
  Forall2 (fun x yi => - delta o its <= yi - x <= delta o its) (solve_layer_exact o its) y /\
  sqdist (solve_layer_exact o its) y <= qlen its * (delta o its * delta o its).
Proof. exact C02_distance_to_hard_optimum_lemma. Qed.
Print Assumptions C02_distance_to_hard_optimum.

(* the witness of the finding (labels (1e11, 10) and (50, 10), bounds 0..100):
   the optimum inside the bounds is [50; 95], the model's exact solution is
   [50; 105 - 1e-8], reported [50; 105]; the right wall gave way by
   slackR = delta = 9.9999999895..., which is exactly the actual distance:
   the bound is attained. *)
Example C02_ex_hard_distance :
  let o := mkOpts 3 2 (Some 0) (Some 100) in
  let its := [mkItem 100000000000 10 false; mkItem 50 10 false] in
  its <> [] /\ fits o (sorted_items its) /\
  map Qred (hard_clamp o (sorted_items its)) = [50; 95] /\
  map Qred (solve_layer_exact o its) = [50; 1050000000000 # 10000000001] /\
  Qred (slackL o (sorted_items its)) = 0 /\
  Qred (slackR o (sorted_items its)) = 99999999905 # 10000000001 /\
  Qred (delta o its) = 99999999905 # 10000000001 /\
  Qred ((1050000000000 # 10000000001) - 95) = 99999999905 # 10000000001 /\
  solve_layer o its = [50; 105]%Z.
Proof.
  vm_compute. split; [discriminate|]. split; [discriminate|]. repeat split; reflexivity.
Qed.
