(* Property C02: labels are displaced as little as possible (least-squares
   optimal placement).  Statements only; every proof is `exact <lemma>`.

   Vocabulary (coq/Layout/Pava.v, Layer.v):
     cost d w x              sum_i w_i (x_i - d_i)^2     (so cost x w y = sum w_i (y_i - x_i)^2)
     feasible g y            y_{i+1} - y_i >= g_i for all i
     objective o s yl y yr   the objective the code gives the solver: sum (y_i - t_i)^2
                             + 1e10 (yl - minP)^2 + 1e10 (yr - maxP)^2 (terms of absent bounds omitted)
     separated o s yl y yr   the item gaps, and half a width between each existing wall and the
                             first / last item
     wallL, wallR            where the model's solution puts the wall variables
     inside o s y            y_1 - w_1/2 >= minP and y_n + w_n/2 <= maxP (for the bounds that exist)
   Not here (owned by the engine package): C02_targets (a deeper layer's
   targets are the reported positions of its stubs); the theorems below hold
   for arbitrary targets.
   Not proved (stretch item of DESIGN.md, C02_distance_to_hard_optimum_partial):
   a bound ||x - x_hard||^2 <= C * delta on the distance to the optimum under
   HARD bounds.  What stands instead: C02_beats_bounded (x is at least as good
   as every bounded placement) and C03_inside (x leaves the bounds by at most
   delta). *)
From Coq Require Import ZArith QArith List Bool.
From Labella Require Import Base.QUtil Base.QUtilProofs Layout.Pava Layout.PavaProofs
  Layout.Layer Layout.LayerProofs.
Import ListNotations.
Open Scope Q_scope.

(* `feasible` is exactly the pointwise statement *)
Theorem feasible_pointwise : forall y g,
  (forall i, (S i < length y)%nat -> (i < length g)%nat -> qnth i g <= qnth (S i) y - qnth i y) ->
  feasible g y.
Proof. exact feasible_of_nth. Qed.
Print Assumptions feasible_pointwise.

(* the chain solver: strong optimality (for all desired positions, weights > 0, gaps,
   and all competing feasible placements) *)
Theorem pava_optimal : forall d w g y, chain_ok d w g ->
  length y = length d -> feasible g y ->
  cost d w (pava d w g) + cost (pava d w g) w y <= cost d w y.
Proof. exact pava_optimal_list. Qed.
Print Assumptions pava_optimal.

(* ... hence uniqueness of the minimiser *)
Theorem pava_unique_minimiser : forall d w g y, chain_ok d w g ->
  length y = length d -> feasible g y ->
  cost d w y <= cost d w (pava d w g) -> Forall2 Qeq (pava d w g) y.
Proof. exact pava_unique. Qed.
Print Assumptions pava_unique_minimiser.

(* a layer: the model's positions minimise the code's actual objective (wall
   terms included) among ALL placements of items and walls that keep the
   separation constraints, with a quadratic margin *)
Theorem C02_layer : forall o its yl y yr, its <> [] ->
  let s := sorted_items its in
  length y = length its -> separated o s yl y yr ->
  objective o s (wallL o s) (solve_layer_exact o its) (wallR o s) + sqdist (solve_layer_exact o its) y
    <= objective o s yl y yr.
Proof. exact C02_layer_lemma. Qed.
Print Assumptions C02_layer.

(* ... so they are the unique minimiser *)
Theorem C02_layer_unique : forall o its yl y yr, its <> [] ->
  let s := sorted_items its in
  length y = length its -> separated o s yl y yr ->
  objective o s yl y yr <= objective o s (wallL o s) (solve_layer_exact o its) (wallR o s) ->
  Forall2 Qeq (solve_layer_exact o its) y.
Proof. exact C02_unique_lemma. Qed.
Print Assumptions C02_layer_unique.

(* every placement that keeps the item gaps and lies inside the bounds is at
   least as far from the targets as the model's placement *)
Theorem C02_beats_bounded : forall o its y, its <> [] ->
  let s := sorted_items its in
  length y = length its -> feasible (gaps o s) y -> inside o s y ->
  sqdist (map tgt s) (solve_layer_exact o its) <= sqdist (map tgt s) y.
Proof. exact C02_beats_bounded_lemma. Qed.
Print Assumptions C02_beats_bounded.

(* the reported integers are within 1/2 of the optimum *)
Theorem C02_rounded : forall o its,
  Forall2 (fun z x => - (1 # 2) <= inject_Z z - x <= 1 # 2)
          (solve_layer o its) (solve_layer_exact o its).
Proof. exact C02_rounded_lemma. Qed.
Print Assumptions C02_rounded.

(* targets that already are separated and inside the bounds are not moved *)
Theorem C02_unmoved : forall o its, its <> [] ->
  let s := sorted_items its in
  feasible (gaps o s) (map tgt s) -> inside o s (map tgt s) ->
  Forall2 Qeq (solve_layer_exact o its) (map tgt s) /\
  solve_layer o its = map (fun a => pyround (tgt a)) s.
Proof. exact C02_unmoved_lemma. Qed.
Print Assumptions C02_unmoved.

(* non-vacuity *)
Example C02_ex_chain :
  chain_ok [0; 5; 3; 100] [10000000000; 1; 1; 10000000000] [5; 13; 5] /\
  feasible [5; 13; 5] [0; 5; 18; 100] /\
  map Qred (pava [0; 5; 3; 100] [10000000000; 1; 1; 10000000000] [5; 13; 5]) =
    [-5 # 3333333334; 16666666665 # 3333333334; 60000000007 # 3333333334; 100].
Proof.
  split; [repeat split; repeat constructor|].
  split; [cbn [feasible]; repeat split; discriminate|vm_compute; reflexivity].
Qed.

(* two labels that overlap are moved symmetrically; a third with room stays *)
Example C02_ex_layer :
  let o := mkOpts 3 2 (Some 0) None in
  let its := [mkItem 200 10 false; mkItem 20 10 false; mkItem 24 10 false] in
  map Qred (solve_layer_exact o its) = [31 # 2; 57 # 2; 200] /\
  solve_layer o its = [16; 28; 200]%Z.
Proof. vm_compute. split; reflexivity. Qed.

(* hypotheses of C02_unmoved / C02_beats_bounded are satisfiable *)
Example C02_ex_unmoved :
  let o := mkOpts 3 2 (Some 0) (Some 100) in
  let its := [mkItem 60 10 false; mkItem 20 10 true; mkItem 40 (5 # 2) true] in
  let s := sorted_items its in
  its <> [] /\ feasible (gaps o s) (map tgt s) /\ inside o s (map tgt s) /\
  solve_layer o its = [20; 40; 60]%Z.
Proof.
  vm_compute. split; [discriminate|]. split; [repeat split; discriminate|].
  split; [split; discriminate|reflexivity].
Qed.
