(* Property C13: linear ticks are round, evenly spaced, complete, in-domain,
   uniquely labelled.  Statements only; every proof is `exact <lemma>`.
   All theorems: for ALL rational domains (a, b), a <> b, either order, and ALL
   counts m >= 1 (the property's m in 1..100 and the default 10 included).
   The model is exact (coq/Scale/Ticks.v); the drift of the implementation's
   accumulated double `r += step` is NOT proved (_partial by design, see the
   end of the file); the tie bounds it by 1e-3*step as the property grants. *)
From Coq Require Import ZArith QArith Qround List.
From Labella Require Import Scale.Ticks Scale.IlogProofs Scale.TickStepProofs
  Scale.TicksProofs Scale.FmtProofs.
Import ListNotations.
Open Scope Q_scope.

(* the fuelled searches never run out: ilog10 and the generator loop *)
Theorem C13_ilog10_fuel_enough : forall q, 0 < q -> ilog10_opt q <> None.
Proof. exact ilog10_fuel_enough. Qed.
Print Assumptions C13_ilog10_fuel_enough.

Theorem C13_ilog10_spec : forall q, 0 < q -> pow10 (ilog10 q) <= q < pow10 (ilog10 q + 1).
Proof. exact ilog10_spec. Qed.
Print Assumptions C13_ilog10_spec.

Theorem C13_ticks_fuel_enough : forall a b m, ~ a == b -> (0 < m)%Z -> ticks_opt a b m <> None.
Proof. exact ticks_fuel_enough. Qed.
Print Assumptions C13_ticks_fuel_enough.

(* the step is 1, 2 or 5 times a power of ten (and positive) *)
Theorem C13_step_form : forall S m, 0 < S -> (0 < m)%Z ->
  exists (c e : Z), (c = 1 \/ c = 2 \/ c = 5)%Z /\ tick_step S m == inject_Z c * pow10 e.
Proof. exact step_form. Qed.
Print Assumptions C13_step_form.

Theorem C13_step_pos : forall S m, 0 < S -> (0 < m)%Z -> 0 < tick_step S m.
Proof. exact step_pos. Qed.
Print Assumptions C13_step_pos.

Theorem C13_ticks_multiples : forall a b m, ~ a == b -> (0 < m)%Z ->
  Forall (fun t => exists k : Z, t == inject_Z k * dom_step a b m) (ticks a b m).
Proof. exact ticks_multiples. Qed.
Print Assumptions C13_ticks_multiples.

(* increasing and evenly spaced: consecutive ticks are exactly one step apart *)
Theorem C13_ticks_increasing : forall a b m, ~ a == b -> (0 < m)%Z ->
  forall i x y, nth_error (ticks a b m) i = Some x -> nth_error (ticks a b m) (S i) = Some y ->
  y == x + dom_step a b m /\ x < y.
Proof. exact ticks_increasing. Qed.
Print Assumptions C13_ticks_increasing.

Theorem C13_ticks_in_domain : forall a b m, ~ a == b -> (0 < m)%Z ->
  Forall (fun t => fst (extent a b) <= t <= snd (extent a b)) (ticks a b m).
Proof. exact ticks_in_domain. Qed.
Print Assumptions C13_ticks_in_domain.

(* no multiple of the step inside the domain is missing *)
Theorem C13_ticks_complete : forall a b m, ~ a == b -> (0 < m)%Z ->
  forall k : Z, fst (extent a b) <= inject_Z k * dom_step a b m <= snd (extent a b) ->
  exists t, In t (ticks a b m) /\ t == inject_Z k * dom_step a b m.
Proof. exact ticks_complete. Qed.
Print Assumptions C13_ticks_complete.

(* floor(0.57 m) <= number of ticks <= 1.43 m + 1 *)
Theorem C13_ticks_count : forall a b m, ~ a == b -> (0 < m)%Z ->
  (Qfloor ((57 # 100) * inject_Z m) <= Z.of_nat (length (ticks a b m)))%Z /\
  inject_Z (Z.of_nat (length (ticks a b m))) <= (143 # 100) * inject_Z m + 1.
Proof. exact ticks_count. Qed.
Print Assumptions C13_ticks_count.

(* labels: the text printed with `decimals step` decimals denotes its tick
   exactly (fmt_value n t = pyround (t * 10^n) / 10^n), hence distinct ticks
   get distinct texts *)
Theorem C13_fmt_exact : forall a b m, ~ a == b -> (0 < m)%Z ->
  Forall (fun t => fmt_value (decimals (dom_step a b m)) t == t) (ticks a b m).
Proof. exact fmt_exact. Qed.
Print Assumptions C13_fmt_exact.

Theorem C13_fmt_injective : forall a b m, ~ a == b -> (0 < m)%Z ->
  forall t1 t2, In t1 (ticks a b m) -> In t2 (ticks a b m) ->
  fmt (decimals (dom_step a b m)) t1 = fmt (decimals (dom_step a b m)) t2 -> t1 == t2.
Proof. exact fmt_injective. Qed.
Print Assumptions C13_fmt_injective.

(* reversed domains give the same ticks (d3_scaleExtent) *)
Theorem C13_ticks_sym : forall a b m, ~ a == b ->
  ticks a b m = ticks b a m /\ dom_step a b m = dom_step b a m.
Proof. exact ticks_sym. Qed.
Print Assumptions C13_ticks_sym.

(* C13_drift_partial (NOT proved, by design): the implementation's ticks are
   the doubles r_0 = fl(ceil(lo/step)*step), r_{i+1} = fl(r_i + step); the
   statement "|r_i - (c+i)*step| <= step/1000 and the loop emits the same
   number of values" is about IEEE rounding, which the exact-rational model
   does not contain.  It is checked by the tie on every run (tolerance
   1e-3*step, the property's own "well within a thousandth of the step"). *)

(* ---------- non-vacuity ---------------------------------------------------- *)
Example C13_ex_ticks :
  ticks (3#10) (97#10) 10 = [1; 2; 3; 4; 5; 6; 7; 8; 9] /\
  Qeq_bool (dom_step (3#10) (97#10) 10) 1 = true /\
  map Qred (ticks 1 0 4) = [0; 1#5; 2#5; 3#5; 4#5; 1] /\
  tick_texts 1 0 4 = (1%Z, [0; 2; 4; 6; 8; 10]%Z) /\
  length (ticks 0 1 100) = 101%nat /\ length (ticks 0 (1428 # 1000) 1) = 1%nat.
Proof. vm_compute. repeat split. Qed.

Example C13_ex_ilog :
  ilog10 (1234 # 10) = 2%Z /\ ilog10 (1 # 1000) = (-3)%Z /\ ilog10 (999 # 1000) = (-1)%Z /\
  ilog10 1 = 0%Z /\ ilog10 10 = 1%Z.
Proof. vm_compute. repeat split. Qed.
