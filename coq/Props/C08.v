(* Property C08: drawn label boxes are pairwise disjoint, on the side of the
   axis named by the direction, at least layerGap - 1 from it, and the boxes
   of a farther layer lie wholly beyond those of nearer layers; for
   nodeSpacing >= 3 and layerGap >= 1, in all four directions.
   Statements only.  `label_box d G H l` is the rectangle both emitters print
   for label l: origin = nodePos truncated by "%i", size printed in full
   (C08_drawn_boxes ties it to the two documents).  H is the layer thickness
   compute() uses (node_height).  The separation of rounded centres within a
   layer is property C01's conclusion and enters as the hypothesis
   `separated` (the layout package proves it for the solver model). *)
From Coq Require Import ZArith QArith List Bool.
From Labella Require Import Render.Geometry Render.GeometryProofs Render.Scene Render.SceneProofs.
Import ListNotations.
Open Scope Q_scope.

(* two labels whose rounded centres are (w_a + w_b)/2 + nodeSpacing - 1 apart
   (w = extent along the axis) have disjoint along-axis intervals after the
   %i truncation of their origins *)
Theorem C08_same_layer : forall d G H nodeSp a b,
  3 <= nodeSp -> separated d nodeSp a b ->
  along_hi d (label_box d G H a) < along_lo d (label_box d G H b).
Proof. exact same_layer_along. Qed.
Print Assumptions C08_same_layer.

(* every box lies on the named side, more than G - 1 from the axis *)
Theorem C08_side : forall d G ls l,
  0 <= G -> In l ls -> (forall x, In x ls -> label_wf x) ->
  G - 1 < cross_near d (label_box d G (node_height d ls) l) /\
  cross_near d (label_box d G (node_height d ls) l) <= cross_far d (label_box d G (node_height d ls) l).
Proof. exact box_side_list. Qed.
Print Assumptions C08_side.

(* G >= 1: a box of a farther layer lies wholly beyond a box of a nearer layer *)
Theorem C08_layers : forall d G ls a b,
  1 <= G -> In a ls -> In b ls -> (forall x, In x ls -> label_wf x) ->
  (l_layer a < l_layer b)%Z ->
  cross_far d (label_box d G (node_height d ls) a) < cross_near d (label_box d G (node_height d ls) b).
Proof. exact box_layers_list. Qed.
Print Assumptions C08_layers.

(* all boxes pairwise disjoint *)
Theorem C08_disjoint : forall d G nodeSp ls,
  3 <= nodeSp -> 1 <= G ->
  (forall l, In l ls -> label_wf l) ->
  (forall i j a b, nth_error ls i = Some a -> nth_error ls j = Some b -> i <> j ->
     l_layer a = l_layer b -> separated d nodeSp a b \/ separated d nodeSp b a) ->
  forall i j a b, nth_error ls i = Some a -> nth_error ls j = Some b -> i <> j ->
    rect_disjoint (label_box d G (node_height d ls) a) (label_box d G (node_height d ls) b).
Proof. exact boxes_disjoint. Qed.
Print Assumptions C08_disjoint.

(* the i-th rectangle of the SVG document and of the TikZ document is label_box *)
Theorem C08_drawn_boxes : forall s i l, nth_error (sc_labels s) i = Some l ->
  let box := label_box (o_dir (sc_opts s)) (o_gap (sc_opts s)) (sc_H s) l in
  (exists b, nth_error (pc_boxes (geom_svg (svg_doc_of s))) i = Some b /\ pbox_rect b = box) /\
  (exists b, nth_error (pc_boxes (geom_tikz (tikz_doc_of s))) i = Some b /\ pbox_rect b = box).
Proof. exact drawn_boxes. Qed.
Print Assumptions C08_drawn_boxes.

(* hence: all rectangles drawn by either back-end are pairwise disjoint *)
Theorem C08_disjoint_drawn : forall s nodeSp,
  3 <= nodeSp -> 1 <= o_gap (sc_opts s) ->
  (forall l, In l (sc_labels s) -> label_wf l) ->
  (forall i j a b, nth_error (sc_labels s) i = Some a -> nth_error (sc_labels s) j = Some b -> i <> j ->
     l_layer a = l_layer b ->
     separated (o_dir (sc_opts s)) nodeSp a b \/ separated (o_dir (sc_opts s)) nodeSp b a) ->
  forall pic, pic = geom_svg (svg_doc_of s) \/ pic = geom_tikz (tikz_doc_of s) ->
  forall i j bi bj, nth_error (pc_boxes pic) i = Some bi -> nth_error (pc_boxes pic) j = Some bj -> i <> j ->
    rect_disjoint (pbox_rect bi) (pbox_rect bj).
Proof. exact drawn_boxes_disjoint. Qed.
Print Assumptions C08_disjoint_drawn.

(* label_wf's size part holds for every label get_nodes builds from
   non-negative widths and paddings *)
Theorem C08_sizes_nonneg : forall d p width t,
  0 <= width -> 0 <= padL p -> 0 <= padR p -> 0 <= padT p -> 0 <= padB p ->
  0 <= fst (node_size d p width t) /\ 0 <= snd (node_size d p width t).
Proof. exact node_size_nonneg. Qed.
Print Assumptions C08_sizes_nonneg.

(* truncation facts the proofs rest on *)
Theorem C08_trunc : forall q,
  Qabs.Qabs (inject_Z (trunc q) - q) < 1 /\
  (0 <= q -> 0 <= inject_Z (trunc q) /\ inject_Z (trunc q) <= q) /\
  (q <= 0 -> inject_Z (trunc q) <= 0 /\ q <= inject_Z (trunc q)).
Proof. exact trunc_facts. Qed.
Print Assumptions C08_trunc.

(* non-vacuity: three labels, direction left, two in layer 0 that the solver
   separated by exactly the guaranteed amount, one in layer 1 behind a stub;
   nodeSpacing 3, layerGap 1 (both extreme).  All hypotheses hold and the boxes
   come out where the arithmetic says. *)
Definition ex_ls : list label :=
  [ mkLabel (10 # 1) (55 # 1) (17 # 1) [8%Z] (Some [97%N]) [];
    mkLabel (20 # 1) (91 # 2) (17 # 1) [27%Z] (Some [98%N]) [];
    mkLabel (21 # 1) (18 # 1) (64 # 1) [20%Z; 40%Z] None [] ].

Example C08_ex_hyps :
  (forall l, In l ex_ls -> label_wf l) /\
  (forall i j a b, nth_error ex_ls i = Some a -> nth_error ex_ls j = Some b -> i <> j ->
     l_layer a = l_layer b -> separated Left 3 a b \/ separated Left 3 b a).
Proof.
  split.
  - intros l [<-|[<-|[<-|[]]]]; unfold label_wf; cbn; repeat split; try discriminate.
  - intros [|[|[|i]]] [|[|[|j]]] a b Ea Eb Ne; cbn in Ea, Eb; try congruence;
      try (destruct i; discriminate); try (destruct j; discriminate);
      injection Ea as <-; injection Eb as <-; vm_compute; intro; try discriminate;
      first [left; discriminate | right; discriminate].
Qed.

Example C08_ex_boxes :
  node_height Left ex_ls = 55 # 1 /\
  map (fun l => let b := label_box Left 1 (55 # 1) l in (Qred (rx b), Qred (ry b), rw b, rh b)) ex_ls =
  [ (-56 # 1, 0 # 1, 55 # 1, 17 # 1); (-46 # 1, 18 # 1, 91 # 2, 17 # 1); (-75 # 1, 8 # 1, 18 # 1, 64 # 1) ].
Proof. vm_compute. split; reflexivity. Qed.
