(* Property C08: drawn label boxes are pairwise disjoint, on the side of the
   axis named by the direction, at least layerGap - 1 from it, and the boxes
   of a farther layer lie wholly beyond those of nearer layers; for
   nodeSpacing >= 3 and layerGap >= 1, in all four directions.
   Statements only.  `label_box d G H l` is the rectangle both emitters print
   for label l: origin = nodePos truncated by "%i", size printed in full
   (C08_drawn_boxes ties it to the two documents).  H is the layer thickness
   compute() uses (node_height).  The separation of rounded centres within a
   layer is property C01's conclusion and enters as the hypothesis
   `separated` (the layout package proves it for the solver model). *)
From Coq Require Import ZArith QArith List Bool.
From Labella Require Import Render.Geometry Render.GeometryProofs Render.Scene Render.SceneProofs.
Import ListNotations.
Open Scope Q_scope.

(* two labels whose rounded centres are (w_a + w_b)/2 + nodeSpacing - 1 apart
   (w = extent along the axis) have disjoint along-axis intervals after the
   %i truncation of their origins *)
Theorem C08_same_layer : forall d G H nodeSp a b,
  3 <= nodeSp -> separated d nodeSp a b ->
  along_hi d (label_box d G H a) < along_lo d (label_box d G H b).
Proof. exact same_layer_along. Qed.
Print Assumptions C08_same_layer.

(* every box lies on the named side, more than G - 1 from the axis *)
Theorem C08_side : forall d G ls l,
  0 <= G -> In l ls -> (forall x, In x ls -> label_wf x) ->
  G - 1 < cross_near d (label_box d G (node_height d ls) l) /\
  cross_near d (label_box d G (node_height d ls) l) <= cross_far d (label_box d G (node_height d ls) l).
Proof. exact box_side_list. Qed.
Print Assumptions C08_side.

(* G >= 1: a box of a farther layer lies wholly beyond a box of a nearer layer *)
Theorem C08_layers : forall d G ls a b,
  1 <= G -> In a ls -> In b ls -> (forall x, In x ls -> label_wf x) ->
  (l_layer a < l_layer b)%Z ->
  cross_far d (label_box d G (node_height d ls) a) < cross_near d (label_box d G (node_height d ls) b).
Proof. exact box_layers_list. Qed.
Print Assumptions C08_layers.

(* all boxes pairwise disjoint *)
Theorem C08_disjoint : forall d G nodeSp ls,
  3 <= nodeSp -> 1 <= G ->
  (forall l, In l ls -> label_wf l) ->
  (forall i j a b, nth_error ls i = Some a -> nth_error ls j = Some b -> i <> j ->
     l_layer a = l_layer b -> separated d nodeSp a b \/ separated d nodeSp b a) ->
  forall i j a b, nth_error ls i = Some a -> nth_error ls j = Some b -> i <> j ->
    rect_disjoint (label_box d G (node_height d ls) a) (label_box d G (node_height d ls) b).
Proof. exact boxes_disjoint. Qed.
Print Assumptions C08_disjoint.

(* the i-th rectangle of the SVG document and of the TikZ document is label_box *)
Theorem C08_drawn_boxes : forall s i l, nth_error (sc_labels s) i = Some l ->
  let box := label_box (o_dir (sc_opts s)) (o_gap (sc_opts s)) (sc_H s) l in
  (exists b, nth_error (pc_boxes (geom_svg (svg_doc_of s))) i = Some b /\ pbox_rect b = box) /\
  (exists b, nth_error (pc_boxes (geom_tikz (tikz_doc_of s))) i = Some b /\ pbox_rect b = box).
Proof. exact drawn_boxes. Qed.
Print Assumptions C08_drawn_boxes.

(* hence: all rectangles drawn by either back-end are pairwise disjoint *)
Theorem C08_disjoint_drawn : forall s nodeSp,
  3 <= nodeSp -> 1 <= o_gap (sc_opts s) ->
  (forall l, In l (sc_labels s) -> label_wf l) ->
  (forall i j a b, nth_error (sc_labels s) i = Some a -> nth_error (sc_labels s) j = Some b -> i <> j ->
     l_layer a = l_layer b ->
     separated (o_dir (sc_opts s)) nodeSp a b \/ separated (o_dir (sc_opts s)) nodeSp b a) ->
  forall pic, pic = geom_svg (svg_doc_of s) \/ pic = geom_tikz (tikz_doc_of s) ->
  forall i j bi bj, nth_error (pc_boxes pic) i = Some bi -> nth_error (pc_boxes pic) j = Some bj -> i <> j ->
    rect_disjoint (pbox_rect bi) (pbox_rect bj).
Proof. exact drawn_boxes_disjoint. Qed.
Print Assumptions C08_disjoint_drawn.

(* label_wf's size part holds for every label get_nodes builds from
   non-negative widths and paddings *)
Theorem C08_sizes_nonneg : forall d p width t,
  0 <= width -> 0 <= padL p -> 0 <= padR p -> 0 <= padT p -> 0 <= padB p ->
  0 <= fst (node_size d p width t) /\ 0 <= snd (node_size d p width t).
Proof. exact node_size_nonneg. Qed.
Print Assumptions C08_sizes_nonneg.

(* truncation facts the proofs rest on *)
Theorem C08_trunc : forall q,
  Qabs.Qabs (inject_Z (trunc q) - q) < 1 /\
  (0 <= q -> 0 <= inject_Z (trunc q) /\ inject_Z (trunc q) <= q) /\
  (q <= 0 -> inject_Z (trunc q) <= 0 /\ q <= inject_Z (trunc q)).
Proof. exact trunc_facts. Qed.
Print Assumptions C08_trunc.

(* non-vacuity: three labels, direction left, two in layer 0 that the solver
   separated by exactly the guaranteed amount, one in layer 1 behind a stub;
   nodeSpacing 3, layerGap 1 (both extreme).  All hypotheses hold and the boxes
   come out where the arithmetic says. *)
Definition ex_ls : list label :=
  [ mkLabel (10 # 1) (55 # 1) (17 # 1) [8%Z] (Some [97%N]) [];
    mkLabel (20 # 1) (91 # 2) (17 # 1) [27%Z] (Some [98%N]) [];
    mkLabel (21 # 1) (18 # 1) (64 # 1) [20%Z; 40%Z] None [] ].

Example C08_ex_hyps :
  (forall l, In l ex_ls -> label_wf l) /\
  (forall i j a b, nth_error ex_ls i = Some a -> nth_error ex_ls j = Some b -> i <> j ->
     l_layer a = l_layer b -> separated Left 3 a b \/ separated Left 3 b a).
Proof.
  split.
  - intros l [<-|[<-|[<-|[]]]]; unfold label_wf; cbn; repeat split; try discriminate.
  - intros [|[|[|i]]] [|[|[|j]]] a b Ea Eb Ne; cbn in Ea, Eb; try congruence;
      try (destruct i; discriminate); try (destruct j; discriminate);
      injection Ea as <-; injection Eb as <-; vm_compute; intro; try discriminate;
      first [left; discriminate | right; discriminate].
Qed.

Example C08_ex_boxes :
  node_height Left ex_ls = 55 # 1 /\
  map (fun l => let b := label_box Left 1 (55 # 1) l in (Qred (rx b), Qred (ry b), rw b, rh b)) ex_ls =
  [ (-56 # 1, 0 # 1, 55 # 1, 17 # 1); (-46 # 1, 18 # 1, 91 # 2, 17 # 1); (-75 # 1, 8 # 1, 18 # 1, 64 # 1) ].
Proof. vm_compute. split; reflexivity. Qed.

(* ==========================================================================
   C08 for layouts PRODUCED BY THE ENGINE: no `separated` hypothesis left.

   Composition of three models:
     coq/Render/Compose.v   Timeline.get_nodes / compute (timeline.py:235-277):
                            items -> engine labels (idealPos = scale(time), width =
                            padded extent along the axis) -> Force.layout -> one scene
                            label per engine node (sizes by identity, chain = reported
                            positions of its stubs, then its own);
     coq/Layout/Force.v     the engine (C06; C01_all_layers: every reported layer of
                            a compute is solve_layer of that layer's problem);
     coq/Layout/Layer.v     one layer (C01_pairwise_labels: two labels of a layer are
                            (w_a + w_b)/2 + nodeSpacing - 1 apart, no guard).
   tl_item = (scale(time), given width, text, function colours);
   scene_labels d p e its = self.nodes after compute() for direction d, padding p,
   engine options e;  compose_dom = the documented domain (C08_domain below). *)
From Labella Require Import Layout.ForceState Layout.ForceStateProofs Layout.Force Layout.ForceProofs.
From Labella Require Import Render.Compose Render.ComposeProofs.
Open Scope Q_scope.

(* the documented domain is enough *)
Theorem C08_domain : forall d p e its,
  (forall it, In it its -> 0 < ti_width it) ->
  0 <= padL p -> 0 <= padR p -> 0 <= padT p -> 0 <= padB p ->
  0 <= e_spacing e -> 0 <= e_stub e -> 0 < e_density e -> lineSp_ok e ->
  compose_dom d p e its.
Proof. exact compose_dom_simple. Qed.
Print Assumptions C08_domain.

(* the scene built from the engine's layout satisfies `separated`, for every
   direction and every label spacing (>= 0) *)
Theorem engine_separated : forall d p e its, compose_dom d p e its ->
  forall i j a b,
    nth_error (scene_labels d p e its) i = Some a -> nth_error (scene_labels d p e its) j = Some b ->
    i <> j -> l_layer a = l_layer b ->
    separated d (e_spacing e) a b \/ separated d (e_spacing e) b a.
Proof. exact engine_separated_lemma. Qed.
Print Assumptions engine_separated.

(* ... and every scene label is well formed *)
Theorem C08_engine_wf : forall d p e its, compose_dom d p e its ->
  forall l, In l (scene_labels d p e its) -> label_wf l.
Proof. exact scene_labels_wf. Qed.
Print Assumptions C08_engine_wf.

(* a scene label sits in the engine's layer at the engine's position *)
Theorem C08_engine_label : forall d p its rep nd,
  let l := scene_label d p its rep nd in
  l_layer l = Z.of_nat (n_layer nd) /\ l_cur l = qz (n_cur nd) /\ l_ideal l = n_pos nd /\
  length (l_chain l) = S (n_layer nd).
Proof. exact scene_label_engine. Qed.
Print Assumptions C08_engine_label.

(* all boxes drawn for the engine's layout are pairwise disjoint: every label
   set, nodeSpacing >= 3, layerGap >= 1, all four directions *)
Theorem C08_engine_disjoint : forall d p G e its,
  3 <= e_spacing e -> 1 <= G -> compose_dom d p e its ->
  let ls := scene_labels d p e its in
  forall i j a b, nth_error ls i = Some a -> nth_error ls j = Some b -> i <> j ->
    rect_disjoint (label_box d G (node_height d ls) a) (label_box d G (node_height d ls) b).
Proof. exact engine_boxes_disjoint. Qed.
Print Assumptions C08_engine_disjoint.

(* on the named side, more than G - 1 from the axis *)
Theorem C08_engine_side : forall d p G e its l,
  0 <= G -> compose_dom d p e its ->
  let ls := scene_labels d p e its in
  In l ls ->
  G - 1 < cross_near d (label_box d G (node_height d ls) l) /\
  cross_near d (label_box d G (node_height d ls) l) <= cross_far d (label_box d G (node_height d ls) l).
Proof. exact engine_box_side. Qed.
Print Assumptions C08_engine_side.

(* boxes of a farther layer lie wholly beyond boxes of a nearer layer *)
Theorem C08_engine_layers : forall d p G e its a b,
  1 <= G -> compose_dom d p e its ->
  let ls := scene_labels d p e its in
  In a ls -> In b ls -> (l_layer a < l_layer b)%Z ->
  cross_far d (label_box d G (node_height d ls) a) < cross_near d (label_box d G (node_height d ls) b).
Proof. exact engine_box_layers. Qed.
Print Assumptions C08_engine_layers.

(* hence for the two documents export() writes *)
Theorem C08_engine_disjoint_drawn : forall o ticks e its,
  3 <= e_spacing e -> 1 <= o_gap o -> compose_dom (o_dir o) (o_pad o) e its ->
  let s := engine_scene o ticks e its in
  forall pic, pic = geom_svg (svg_doc_of s) \/ pic = geom_tikz (tikz_doc_of s) ->
  forall i j bi bj, nth_error (pc_boxes pic) i = Some bi -> nth_error (pc_boxes pic) j = Some bj -> i <> j ->
    rect_disjoint (pbox_rect bi) (pbox_rect bj).
Proof. exact engine_drawn_disjoint. Qed.
Print Assumptions C08_engine_disjoint_drawn.

(* the chain of a scene label is what [h.currentPos for h in
   node.getPathFromRoot()] gives: in every layer j below the label's own, the
   one item the engine reports for this label is a stub, at position chain[j];
   the last entry is the label's own reported position (C02_targets) *)
Theorem C08_engine_chain : forall d p e its, compose_dom d p e its ->
  let st := engine_result d p e its in
  forall nd, In nd (st_nodes st) ->
    In (n_id nd, false, inject_Z (last (chain_of (reported st) nd) 0%Z)) (nth (n_layer nd) (reported st) []) /\
    forall j, (j < n_layer nd)%nat ->
      let c := inject_Z (nth j (chain_of (reported st) nd) 0%Z) in
      In (n_id nd, true, c) (nth j (reported st) []) /\
      forall b c', In (n_id nd, b, c') (nth j (reported st) []) -> b = true /\ c' = c.
Proof. exact engine_chain_stubs_lemma. Qed.
Print Assumptions C08_engine_chain.

(* non-vacuity: five items (one without text), padding 2/2/3/2, bounds 0..150,
   density 1/2, nodeSpacing 3 and layerGap 1 (both extreme); the engine needs
   three layers for direction up and two for direction left.  The domain
   holds and the scene and its boxes come out as the arithmetic says. *)
From Labella Require Layout.Distribute.
Definition ex_items : list tl_item :=
  [mkTlItem 10 50 (Some [97%N]) []; mkTlItem 12 40 (Some [98%N]) []; mkTlItem 14 (121 # 2) None [];
   mkTlItem 100 50 (Some [99%N]) []; mkTlItem 101 30 (Some [100%N]) []].
Definition ex_pad : padding := mkPad 2 2 3 2.
Definition ex_eopts : eopts := mkEopts Distribute.AlgOverlap (Some 0) (Some 150) (1 # 2) 3 1 None.

Example C08_ex_engine_domain : forall d, compose_dom d ex_pad ex_eopts ex_items /\ 3 <= e_spacing ex_eopts.
Proof.
  intro d. split; [|discriminate].
  apply C08_domain; try discriminate; try exact I; try reflexivity.
  intros it [<-|[<-|[<-|[<-|[<-|[]]]]]]; reflexivity.
Qed.

Example C08_ex_engine_scene :
  map (fun l => (l_layer l, l_chain l, Qred (l_w l), Qred (l_h l))) (scene_labels Up ex_pad ex_eopts ex_items) =
  [(2%Z, [0%Z; 0%Z; 27%Z], 54, 18); (1%Z, [3%Z; 26%Z], 44, 18); (0%Z, [39%Z], 129 # 2, 18);
   (1%Z, [90%Z; 90%Z], 54, 18); (0%Z, [111%Z], 34, 18)] /\
  map (fun l => (l_layer l, l_chain l, Qred (l_w l), Qred (l_h l))) (scene_labels Left ex_pad ex_eopts ex_items) =
  [(1%Z, [0%Z; 8%Z], 55, 17); (1%Z, [3%Z; 28%Z], 45, 17); (0%Z, [39%Z], 18, 129 # 2);
   (1%Z, [94%Z; 94%Z], 55, 17); (0%Z, [106%Z], 35, 17)] /\
  (let ls := scene_labels Left ex_pad ex_eopts ex_items in
   map (fun l => let b := label_box Left 1 (node_height Left ls) l in (Qred (rx b), Qred (ry b), Qred (rw b), Qred (rh b))) ls) =
  [(-112, 0, 55, 17); (-102, 19, 45, 17); (-19, 6, 18, 129 # 2); (-112, 85, 55, 17); (-36, 97, 35, 17)].
Proof. vm_compute. repeat split; reflexivity. Qed.
