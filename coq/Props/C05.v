(* Property C05: the separation-constraint solver (labella/vpsc.py) returns a
   feasible, certified-optimal solution.  Statements only.

   Problem (Vpsc/Kkt.v): minimise cost_fn vars x = sum_i w_i (x_i - d_i)^2
   subject to slack_fn vars x c = s_r x_r - gap - s_l x_l >= 0 for all c in cons.
   Model (Vpsc/Vpsc.v): solve vars cons : res (state * cost * rounds), a
   faithful model of Solver.solve() of the current /repo (b960568).
   `Constraint.equality` is always False in this code base and is not modelled. *)
From Coq Require Import ZArith QArith List Bool.
From Labella Require Import Vpsc.Vpsc Vpsc.Kkt Vpsc.KktProofs Vpsc.CostProofs Vpsc.InvProofs Vpsc.MergeOnly
  Vpsc.Tree Vpsc.SplitProofs Vpsc.General Vpsc.FinalProofs History.VpscOld.
Import ListNotations.
Open Scope Q_scope.

(* (1) KKT sufficiency in full generality: any weights > 0, any scales, any
   multiset of constraints (duplicates, redundant ones, cycles). *)
Theorem kkt_sufficient : forall vars cons x lam,
  (forall v, In v vars -> 0 < v_w v) ->
  (forall c, In c cons -> (c_l c < length vars)%nat /\ (c_r c < length vars)%nat) ->
  feasible vars cons x ->
  (forall l, In l lam -> 0 <= l) ->                                   (* multipliers >= 0 *)
  (forall i, (i < length vars)%nat -> resid vars cons x lam i == 0) -> (* stationarity *)
  comp_gap vars x cons lam == 0 ->                                     (* complementary slackness *)
  forall y, feasible vars cons y -> cost_fn vars x <= cost_fn vars y.
Proof. exact kkt_sufficient_gen. Qed.
Print Assumptions kkt_sufficient.

(* toleranced version = weak duality.  For ANY point x (feasible or not) and
   ANY multipliers >= 0 (stationary or not), every feasible y costs at least
   cost x - dual_gap x lam, where
     dual_gap x lam = sum_c lam_c slack_c(x) + sum_i resid_i^2 / (4 w_i).
   This subsumes the bound B(eps, tau, y) planned in DESIGN.md: a multiplier
   below 0 is clipped to 0 and reappears in resid, a slack in [-eps, 0) makes
   its term negative, i.e. the bound is then even stronger; the bound does
   not depend on y. *)
Theorem kkt_sufficient_toleranced : forall vars cons x lam y,
  (forall v, In v vars -> 0 < v_w v) ->
  (forall c, In c cons -> (c_l c < length vars)%nat /\ (c_r c < length vars)%nat) ->
  (forall l, In l lam -> 0 <= l) ->
  feasible vars cons y ->
  cost_fn vars x - dual_gap vars cons x lam <= cost_fn vars y.
Proof. exact weak_duality. Qed.
Print Assumptions kkt_sufficient_toleranced.

(* (4) C05_optimal_partial.  FULL statement aimed at (not proved):
     forall vars cons (positive weights/scales, acyclic cons) st c k,
       solve vars cons = Ok (st, c, k) ->
       forall y, feasible vars cons y -> c - negligible <= cost_fn vars y.
   MISSING: optimality of the exit state is not an invariant of the algorithm
   (solve stops on cost stationarity plus "no split in the last round", not on
   "no negative multiplier"; the loop before b960568 is refuted below), and
   no termination bound is known when blocks split.  PROVED instead: the
   executable checker kkt_ok (no flag, every slack >= -1e-10, a dual
   certificate with gap <= 1e-6 (1 + cost)) is sound, for every state; the
   check evaluates it on the exit state of every generated instance. *)
Theorem C05_optimal_partial : forall vars cons st,
  kkt_ok vars cons st = true ->
  let x := positions vars st in
  (forall c, In c cons -> - FEAS_EPS <= slack_fn vars x c) /\
  (forall y, feasible vars cons y -> cost_fn vars x - opt_bound (cost_fn vars x) <= cost_fn vars y).
Proof. exact kkt_ok_sound. Qed.
Print Assumptions C05_optimal_partial.

(* (3) C05_feasible_at_exit, FULL: for every instance inside the quantifier
   (positive weights and scales, constraint ends are variables; acyclic or
   cyclic, duplicates, redundant constraints), whenever solve returns (the
   three fuels not exhausted) every constraint that is not flagged
   unsatisfiable holds within 1e-10.  This is also (5), the cyclic case:
   flagging only removes a constraint from consideration.
   Proof (Vpsc/InvProofs.v, MergeOnly.v, Tree.v, SplitProofs.v, PathProofs.v,
   General.v): the invariants
     I1 every inactive unflagged constraint is in the inactive list (up to the
        one mostViolated just popped),
     I2 an active constraint has both ends in one block, offset difference = gap,
     I3 the active constraints of a block form a tree (phrased through the
        code's own depth-first traversal with the `prev` check),
     I4 the blocks in the block list partition the variables, plus the
        blockInd / NoDup bookkeeping Blocks.remove relies on,
   hold initially and are preserved by Blocks.merge, Blocks.split (with its
   iterate-while-rebinding visit order), the split-between branch of satisfy
   (findMinLMBetween returns a constraint on the tree path between the two
   ends, so the ends are separated before the re-merge), flagging,
   mostViolated's swap-with-last deletion, updateBlockPositions and the
   multiplier traversals. *)
Theorem C05_feasible_at_exit : forall vars cons st c k,
  inst_ok vars cons = true -> solve vars cons = Ok (st, c, k) ->
  forall j, (j < length cons)%nat -> nth j (flags st) true = false ->
            - FEAS_EPS <= slack_fn vars (positions vars st) (nth j cons dcon).
Proof. exact feasible_at_exit. Qed.
Print Assumptions C05_feasible_at_exit.

(* (5) the same statement read for contradictory cycles *)
Theorem C05_cyclic_unflagged_hold : forall vars cons st c k,
  inst_ok vars cons = true -> solve vars cons = Ok (st, c, k) ->
  forall j, (j < length cons)%nat -> nth j (flags st) true = false ->
            - FEAS_EPS <= slack_fn vars (positions vars st) (nth j cons dcon).
Proof. exact feasible_at_exit. Qed.
Print Assumptions C05_cyclic_unflagged_hold.

(* (2) C05_cost_is_cost_of_positions, FULL (from I4) *)
Theorem C05_cost_is_cost_of_positions : forall vars cons st c k,
  inst_ok vars cons = true -> solve vars cons = Ok (st, c, k) ->
  c == cost_fn vars (positions vars st).
Proof. exact cost_identity. Qed.
Print Assumptions C05_cost_is_cost_of_positions.

(* the invariants themselves at exit *)
Theorem C05_invariants_at_exit : forall vars cons st c k,
  inst_ok vars cons = true -> solve vars cons = Ok (st, c, k) -> WF vars cons None st /\ I3 cons st.
Proof. exact invariants_at_exit. Qed.
Print Assumptions C05_invariants_at_exit.

(* one merge step preserves the structural invariants, in any execution *)
Theorem C05_merge_preserves_invariants : forall vars cons pend st c,
  WF vars cons pend st -> idx_ok vars cons -> (c < length cons)%nat -> (pend = None \/ pend = Some c) ->
  o_blk (vst_ st (c_l (con_ cons c))) <> o_blk (vst_ st (c_r (con_ cons c))) ->
  WF vars cons None (bs_merge vars cons st c).
Proof. exact WF_bs_merge. Qed.
Print Assumptions C05_merge_preserves_invariants.

(* NOT proved (named, as C05_terminates would be): that solve always returns,
   i.e. that the fuels sat_fuel / solve_fuel / trav_fuel are never exhausted.
   No termination bound is known for satisfy when blocks split.  Every theorem
   above therefore carries the hypothesis solve = Ok; the check reports any
   generated instance on which the model runs out of fuel or the
   implementation does not return (none in 4.10^6 instances). *)

(* History: the loop of b524544 returned a non-optimal state (kept compiled). *)
Theorem C05_refuted_old_early_exit :
  exists st c, solve_old w_vars w_cons = Ok (st, c) /\
               c == 256 # 3 /\
               c == cost_fn w_vars (positions w_vars st) /\
               feasible w_vars w_cons w_better /\
               cost_fn w_vars w_better == 254 # 3 /\
               cost_fn w_vars w_better < c - (6 # 10).
Proof. exact C05_refuted_old_early_exit_lemma. Qed.
Print Assumptions C05_refuted_old_early_exit.

(* History: the solver as first ported (5c6fa44: one merge per satisfy() call,
   inactive list never shortened) returned with an unflagged constraint
   violated by more than 1/2 on witness A.1 of DESIGN.md (kept compiled). *)
Theorem C05_refuted_old_first_port :
  exists st c, vpsc_cur a1_vars a1_cons = Ok (st, c) /\
    exists j, (j < length a1_cons)%nat /\ nth j (flags st) true = false /\
              slack_fn a1_vars (positions a1_vars st) (nth j a1_cons dcon) < - (1 # 2).
Proof. exact C05_refuted_cur_lemma. Qed.
Print Assumptions C05_refuted_old_first_port.

(* non-vacuity: on the witness the CURRENT solve returns the optimum 254/3 and
   all proved checkers accept its exit state; on a contradictory 2-cycle it
   flags one constraint and the other holds *)
Example C05_ex_witness_now_optimal :
  match solve w_vars w_cons with
  | Ok (st, c, _) => Qeq_bool c (254 # 3) && kkt_ok w_vars w_cons st && part_ok w_vars st
                     && state_feas_ok w_vars w_cons st
  | Fuel _ => false
  end = true.
Proof. vm_compute. reflexivity. Qed.

(* a merge-only run (test_no_splits of tests/test_vpsc.py): the hypotheses of the
   merge-only theorems are met and the run is certified optimal *)
(* witness A.1 under the current solve: feasible, certified optimal *)
Example C05_ex_A1_now_ok :
  match solve a1_vars a1_cons with
  | Ok (st, c, _) => kkt_ok a1_vars a1_cons st && inst_ok a1_vars a1_cons
  | Fuel _ => false
  end = true.
Proof. vm_compute. reflexivity. Qed.

Example C05_ex_merge_only :
  let vs := map (fun d => mkVar (inject_Z d) 1 1) [2; 9; 9; 9; 2]%Z in
  let cs := [mkCon 0 4 3; mkCon 0 1 3; mkCon 1 2 3; mkCon 2 4 3; mkCon 3 4 3] in
  match solve vs cs with
  | Ok (st, c, _) => (inst_ok vs cs, Nat.eqb (length (s_b st)) (length vs), kkt_ok vs cs st, Qeq_bool c (972 # 10))
  | Fuel _ => (false, false, false, false)
  end = (true, true, true, true).
Proof. vm_compute. reflexivity. Qed.

Example C05_ex_cycle :
  let vs := [mkVar 0 1 1; mkVar 0 1 1] in
  let cs := [mkCon 0 1 1; mkCon 1 0 1] in
  match solve vs cs with
  | Ok (st, c, _) => (flags st, positions vs st, state_feas_ok vs cs st, part_ok vs st)
  | Fuel _ => ([], [], false, false)
  end = ([false; true], [- (1 # 2); 1 # 2], true, true).
Proof. vm_compute. reflexivity. Qed.

(* ======================================================================
   Follow-up: from cost certificates to POSITIONS (strong convexity), chain
   instances against PAVA, and non-vacuity of the hypothesis solve = Ok. *)
From Labella Require Import Vpsc.Convex Vpsc.ChainPava Vpsc.TestSuite.
From Labella Require Layout.Pava Layout.Layer.

(* (6) strong convexity, full generality: for ANY x, ANY multipliers >= 0 and
   every feasible y,
     sum_i w_i (x_i - y_i)^2 <= pos_gap x lam + 2 (cost y - cost x),
   pos_gap x lam = 2 sum_c lam_c slack_c(x) + 4 sum_i resid_i^2/(4 w_i)
                 = 4 dual_gap x lam - 2 sum_c lam_c slack_c(x).
   (With exact stationarity, resid = 0, this is sum w (x-y)^2 <= 2 comp_gap;
   the factor 4 on the residual part is what the inequality
   w t^2 + r t >= w t^2/2 - r^2/(2w) costs.) *)
Theorem C05_strong_convexity : forall vars cons x lam y,
  (forall v, In v vars -> 0 < v_w v) ->
  (forall c, In c cons -> (c_l c < length vars)%nat /\ (c_r c < length vars)%nat) ->
  (forall l, In l lam -> 0 <= l) ->
  feasible vars cons y ->
  wdist vars x y <= pos_gap vars cons x lam + 2 * (cost_fn vars y - cost_fn vars x).
Proof. exact strong_convexity. Qed.
Print Assumptions C05_strong_convexity.

(* every feasible point that is at least as cheap as x -- in particular every
   optimum -- lies within pos_gap of x in the weighted squared distance *)
Theorem C05_close_to_any_optimum : forall vars cons x lam y,
  (forall v, In v vars -> 0 < v_w v) ->
  (forall c, In c cons -> (c_l c < length vars)%nat /\ (c_r c < length vars)%nat) ->
  (forall l, In l lam -> 0 <= l) ->
  feasible vars cons y -> cost_fn vars y <= cost_fn vars x ->
  wdist vars x y <= pos_gap vars cons x lam.
Proof. exact close_to_any_optimum. Qed.
Print Assumptions C05_close_to_any_optimum.

(* each coordinate: w_i (x_i - y_i)^2 <= the weighted distance, i.e.
   |x_i - y_i| <= sqrt(bound / w_i) (no square roots over Q) *)
Theorem C05_distance_per_coordinate : forall vars x y i,
  (forall v, In v vars -> 0 < v_w v) -> (i < length vars)%nat ->
  v_w (var_at vars i) * ((xat x i - xat y i) * (xat x i - xat y i)) <= wdist vars x y.
Proof. exact wdist_coord. Qed.
Print Assumptions C05_distance_per_coordinate.

(* the optimum is unique (strict convexity; midpoint argument) *)
Theorem C05_optimum_unique : forall vars cons y1 y2,
  (forall v, In v vars -> 0 < v_w v) ->
  (forall c, In c cons -> (c_l c < length vars)%nat /\ (c_r c < length vars)%nat) ->
  feasible vars cons y1 -> feasible vars cons y2 ->
  (forall z, feasible vars cons z -> cost_fn vars y1 <= cost_fn vars z) ->
  (forall z, feasible vars cons z -> cost_fn vars y2 <= cost_fn vars z) ->
  forall i, (i < length vars)%nat -> xat y1 i == xat y2 i.
Proof. exact optimum_unique. Qed.
Print Assumptions C05_optimum_unique.

(* the per-run certificate as a statement about positions: a state accepted by
   kkt_ok is within 4 * 1e-6 (1 + cost) + 2 * 1e-10 * (sum of its multipliers)
   of every feasible point at least as cheap, hence of THE optimum.  (The
   second term accounts for slacks in [-1e-10, 0); it vanishes when the state
   is exactly feasible.) *)
Theorem kkt_ok_close_to_any_optimum : forall vars cons st, kkt_ok vars cons st = true ->
  let x := positions vars st in
  exists lam, exit_multipliers vars cons st = Ok lam /\
    forall y, feasible vars cons y -> cost_fn vars y <= cost_fn vars x ->
      wdist vars x y <= 4 * opt_bound (cost_fn vars x) + 2 * (FEAS_EPS * qsum lam).
Proof. exact kkt_ok_close. Qed.
Print Assumptions kkt_ok_close_to_any_optimum.

(* (7) chain instances as Layout/Layer.v builds them: chain_vars d w has scale 1
   and the given weights (1 for items, 1e10 for walls), chain_cons g one
   constraint (i, i+1, g_i) per adjacent pair.  pava d w g is THE optimum of
   that solver problem, and a certified, exactly feasible exit state is
   within 1e-6 (1 + cost) of it in the weighted squared distance -- whatever
   sequence of merges and splits the solver went through. *)
Theorem C05_chain_pava_is_the_optimum : forall d w g y, Pava.chain_ok d w g ->
  length y = length d -> feasible (chain_vars d w) (chain_cons g) y ->
  cost_fn (chain_vars d w) (Pava.pava d w g) <= cost_fn (chain_vars d w) y.
Proof. intros d w g y H. exact (pava_is_the_optimum d w g H y). Qed.
Print Assumptions C05_chain_pava_is_the_optimum.

Theorem C05_chain_matches_pava : forall d w g st, Pava.chain_ok d w g ->
  let vars := chain_vars d w in let cons := chain_cons g in
  kkt_ok vars cons st = true -> feasibleb vars cons (positions vars st) = true ->
  wdist vars (positions vars st) (Pava.pava d w g) <= opt_bound (cost_fn vars (positions vars st)).
Proof. exact chain_state_matches_pava. Qed.
Print Assumptions C05_chain_matches_pava.

(* without exact feasibility of x the cost difference stays explicit *)
Theorem C05_chain_matches_pava_general : forall d w g x lam, Pava.chain_ok d w g ->
  (forall l, In l lam -> 0 <= l) ->
  wdist (chain_vars d w) x (Pava.pava d w g) <=
  pos_gap (chain_vars d w) (chain_cons g) x lam
  + 2 * (cost_fn (chain_vars d w) (Pava.pava d w g) - cost_fn (chain_vars d w) x).
Proof. intros d w g x lam H. exact (chain_close_to_pava_general d w g H x lam). Qed.
Print Assumptions C05_chain_matches_pava_general.

(* a layer chain with both walls: the solver returns, its state is certified
   (kkt_ok), exactly feasible, and equals pava coordinate by coordinate *)
Example C05_ex_layer_chain :
  let d := Layer.chain_d layer_opts layer_items in
  let w := Layer.chain_w layer_opts layer_items in
  let g := Layer.chain_g layer_opts layer_items in
  match solve (chain_vars d w) (chain_cons g) with
  | Ok (st, c, _) =>
      let x := positions (chain_vars d w) st in
      kkt_ok (chain_vars d w) (chain_cons g) st && feasibleb (chain_vars d w) (chain_cons g) x
      && Qle_bool (wdist (chain_vars d w) x (Pava.pava d w g)) (opt_bound (cost_fn (chain_vars d w) x))
      && forallb (fun ab => Qeq_bool (fst ab) (snd ab)) (combine x (Pava.pava d w g))
      && Nat.eqb (length x) (length (Pava.pava d w g))
  | Fuel _ => false
  end = true.
Proof. vm_compute. reflexivity. Qed.

(* non-vacuity of `solve = Ok`: on all eleven instances of tests/test_vpsc.py
   the model returns and its result passes every proved checker *)
Example C05_ex_test_suite_solves : forallb solved_ok test_suite = true /\ length test_suite = 11%nat.
Proof. vm_compute. split; reflexivity. Qed.

(* (8) Fuel.  The model's three fuels: 1 = recursion depth of the traversals
   (trav_fuel = |vars| + 1), 2 = iterations of the satisfy loop (sat_fuel),
   3 = rounds of solve (solve_fuel).
   PROVED: the traversal fuel is always enough -- in every state solve reaches
   the active constraints of a block form a tree (I3), so compute_lm,
   populateSplitBlock, findPath and isActiveDirectedPathBetween recurse at most
   |vars| deep; Blocks.split, splitBetween and the whole loop body therefore
   never return out-of-fuel.  Consequently solve can only fail to return by
   exhausting a LOOP fuel: *)
From Labella Require Import Vpsc.FuelProofs Vpsc.FuelLoop.

Theorem C05_traversal_fuel_enough : forall vars cons k,
  inst_ok vars cons = true -> solve vars cons = Fuel k -> k = 2%nat \/ k = 3%nat.
Proof.
  intros vars cons k IO H.
  exact (solve_only_loop_fuel vars cons k (inst_ok_idx vars cons IO) (inst_ok_sc vars cons IO) H).
Qed.
Print Assumptions C05_traversal_fuel_enough.

(* the loop body itself always returns (no fuel involved once the traversals are bounded) *)
Theorem C05_loop_body_returns : forall vars cons pend st c,
  Inv vars cons pend st -> idx_ok vars cons -> (c < length cons)%nat ->
  exists st', satisfy_body vars cons st c = Ok st'.
Proof. exact satisfy_body_no_fuel. Qed.
Print Assumptions C05_loop_body_returns.

(* PROVED: a satisfy loop that meets no split-between terminates within the fuel
   the model passes.  satisfy_loop_mo is satisfy_loop with the split-between
   branch replaced by the marker Fuel 4; where it returns Ok so does
   satisfy_loop, with the same state; and it never runs out of loop fuel,
   because every iteration removes a block (merge) or an unflagged constraint
   (flag):  mu = #blocks + #unflagged <= |vars| + |cons| <= sat_fuel. *)
Theorem C05_satisfy_loop_terminates_without_split_between : forall vars cons st v,
  idx_ok vars cons -> Inv vars cons (pend_of vars cons st v) st -> MVg vars cons st v ->
  satisfy_loop_mo vars cons (sat_fuel vars cons) st v <> Fuel 2 /\
  (forall st', satisfy_loop_mo vars cons (sat_fuel vars cons) st v = Ok st' ->
               satisfy_loop vars cons (sat_fuel vars cons) st v = Ok st').
Proof.
  intros vars cons st v IDX I M. split.
  - apply (satisfy_loop_mo_terminates vars cons); try assumption. exact (sat_fuel_above_measure vars cons _ st I).
  - intros st'. apply loop_mo_agrees.
Qed.
Print Assumptions C05_satisfy_loop_terminates_without_split_between.

(* NOT KNOWN (C05_terminates_partial is the two theorems above): (a) a bound on
   the iterations of satisfy when split-between occurs -- a split adds a block,
   the re-merge removes one, and the re-queued constraint returns to the
   inactive list, so #blocks + #unflagged does not decrease and no other
   decreasing measure is known (WebCola gives none); (b) a bound on the rounds
   of solve: b960568 bounds the CONSECUTIVE stationary rounds by len(cs)
   (`stalled < len(self.cs)`), but rounds in which the cost moves by more than
   1e-4 are not bounded by anything proved here (the cost is not shown to be
   monotone across rounds).  On every generated instance the model returned
   with at most 9 rounds; solve_fuel = 200 + 2 |cons|. *)
