(* Property C15: the time scale is affine in elapsed time and invertible.
   Statements only.  `tscale` = (domain instants d0, d1; range ends r0, r1),
   `ts_apply` = TimeScale.__call__, `ts_invert` = TimeScale.invert
   (Time/TimeScale.v); doubles are modelled by exact rationals, so the
   statements are exact and the implementation's rounding (the property's
   "to within a millisecond") is the tolerance of the tie. *)
From Coq Require Import ZArith QArith List Bool.
From Labella Require Import Time.Calendar Time.CalendarProofs Time.TimeScale Time.TimeScaleProofs.
Import ListNotations.
Open Scope Q_scope.

(* epoch milliseconds: adding a duration adds that many milliseconds ... *)
Theorem C15_to_ms_additive : forall t delta t',
  add_us t delta = Ok t' -> to_ms t' == to_ms t + (delta # 1000).
Proof. exact to_ms_additive. Qed.
Print Assumptions C15_to_ms_additive.

(* ... and later instants (in epoch time, equivalently in Python's field-wise
   order on datetimes) have strictly more milliseconds *)
Theorem C15_to_ms_strict_mono :
  (forall a b, (to_us a < to_us b)%Z <-> to_ms a < to_ms b) /\
  (forall a b, wf a -> wf b -> lex_lt a b -> to_ms a < to_ms b).
Proof. split; [exact to_ms_lt|exact to_ms_lex]. Qed.
Print Assumptions C15_to_ms_strict_mono.

(* it agrees with a linear scale applied to milliseconds since the epoch
   (scale.py:506-507 delegates; `lin` is d3_scale_bilinear) *)
Theorem C15_ts_is_linear_of_ms : forall s t,
  ts_apply s t = lin (to_ms (ts_d0 s)) (to_ms (ts_d1 s)) (ts_r0 s) (ts_r1 s) (to_ms t).
Proof. exact ts_is_linear_of_ms. Qed.
Print Assumptions C15_ts_is_linear_of_ms.

(* the two domain instants go to the two range end points *)
Theorem C15_ts_endpoints : forall s, nondegenerate s ->
  ts_apply s (ts_d0 s) == ts_r0 s /\ ts_apply s (ts_d1 s) == ts_r1 s.
Proof. exact ts_endpoints. Qed.
Print Assumptions C15_ts_endpoints.

(* every other instant proportionally to elapsed time *)
Theorem C15_ts_affine : forall s t, nondegenerate s ->
  ts_apply s t == ts_r0 s + (ts_r1 s - ts_r0 s) *
    ((to_ms t - to_ms (ts_d0 s)) / (to_ms (ts_d1 s) - to_ms (ts_d0 s))).
Proof. exact ts_affine. Qed.
Print Assumptions C15_ts_affine.

(* equal durations map to equal lengths *)
Theorem C15_ts_equal_durations : forall s a b c d, nondegenerate s ->
  (to_us b - to_us a = to_us d - to_us c)%Z ->
  ts_apply s b - ts_apply s a == ts_apply s d - ts_apply s c.
Proof. exact ts_equal_durations. Qed.
Print Assumptions C15_ts_equal_durations.

(* later instants map strictly farther along the range: the fraction of the
   way from r0 to r1 strictly grows with t (domain d0 < d1; it strictly shrinks
   for a reversed domain), hence the position itself grows when r0 < r1 *)
Theorem C15_ts_strict_mono : forall s a b, (to_us a < to_us b)%Z ->
  ((to_us (ts_d0 s) < to_us (ts_d1 s))%Z -> ts_progress s a < ts_progress s b) /\
  ((to_us (ts_d1 s) < to_us (ts_d0 s))%Z -> ts_progress s b < ts_progress s a) /\
  ((to_us (ts_d0 s) < to_us (ts_d1 s))%Z -> ts_r0 s < ts_r1 s -> ts_apply s a < ts_apply s b).
Proof.
  intros s a b H. split; [|split].
  - intros Hd. exact (ts_progress_mono s a b Hd H).
  - intros Hd. exact (ts_progress_anti s a b Hd H).
  - intros Hd Hr. exact (ts_strict_mono s a b Hd Hr H).
Qed.
Print Assumptions C15_ts_strict_mono.

(* invert returns the original instant (exactly, in the model) *)
Theorem C15_ts_invert : forall s t, valid t -> nondegenerate s -> ~ ts_r1 s == ts_r0 s ->
  ts_invert_ms s (ts_apply s t) == to_ms t /\ ts_invert s (ts_apply s t) = Ok t.
Proof.
  intros s t Hv H Hr. split; [exact (ts_invert_ms_apply s t H Hr)|exact (ts_invert_apply s t Hv H Hr)].
Qed.
Print Assumptions C15_ts_invert.

(* domain() returns the instants that were set *)
Theorem C15_ts_domain : forall s, valid (ts_d0 s) -> valid (ts_d1 s) ->
  ts_domain s = (Ok (ts_d0 s), Ok (ts_d1 s)).
Proof. exact ts_domain_ok. Qed.
Print Assumptions C15_ts_domain.

(* ---------- non-vacuity ----------------------------------------------------- *)
(* 2021-03-01 .. 2021-03-28 -> [0, 1000]; noon of 14 March is half way *)
Definition ex_scale : tscale :=
  mk_tscale (mkdt 2021 3 1 0 0 0 0) (mkdt 2021 3 28 0 0 0 0) 0 1000.

Example C15_ex :
  nondegenerate ex_scale /\ ~ ts_r1 ex_scale == ts_r0 ex_scale /\
  valid (mkdt 2021 3 14 12 0 0 0) /\
  Qred (ts_apply ex_scale (mkdt 2021 3 14 12 0 0 0)) = 500 /\
  ts_invert ex_scale 500 = Ok (mkdt 2021 3 14 12 0 0 0) /\
  Qred (ts_apply ex_scale (mkdt 2021 4 24 0 0 0 0)) = 2000 /\
  ts_invert ex_scale (1 # 3) = Ok (mkdt 2021 3 1 0 12 57 600000).
Proof.
  split; [vm_compute; discriminate|]. split; [vm_compute; discriminate|].
  vm_compute. repeat split.
Qed.
