(* Property C18: results do not depend on the process's local time zone.
   Statements only.

   READ THIS FIRST.  `tz : Z -> Z` is the process environment: the offset of
   local time from UTC as an ARBITRARY function of the UTC instant (so DST
   shifts and fractional-hour offsets are covered).  The model of the code as
   it is now (Time/TzModel.v, Time/Interval.v, Time/TimeScale.v) takes `tz` as
   a parameter and never uses it, because the conversions the code now uses
   (`(x - _EPOCH) / timedelta(milliseconds=1)`, `_EPOCH + timedelta(...)`)
   are arithmetic on naive values.  C18_independent is therefore immediate,
   and it is only as strong as the claim "the code calls no zone-dependent
   service".  THE SUBSTANCE OF C18 IS THE TIE (harness/props/c18.py):
     (i)  a fail-closed `ast` scan of labella/*.py for zone-dependent names;
     (ii) every case is run under TZ in {UTC, America/New_York, Asia/Kolkata,
          Australia/Lord_Howe, Pacific/Chatham}; the outputs must be identical
          and equal to the zone-free model.
   Partial by nature: the OS zone database is not modelled.
   C18_refuted_old is the kernel-checked record of the defect that the repair
   9910f7f removed (History/TimeOld.v). *)
From Coq Require Import ZArith List Bool.
From Labella Require Import Time.Calendar Time.Interval Time.TzModel Time.TzProofs History.TimeOld.
Import ListNotations.
Open Scope Z_scope.

Theorem C18_independent : forall (tz : Z -> Z) (c : time_call),
  time_api tz c = time_api utc c.
Proof. exact time_api_independent. Qed.
Print Assumptions C18_independent.

Theorem C18_conversions_independent : forall (tz : Z -> Z),
  (forall t, dt2us_now tz t = dt2us_now utc t) /\
  (forall z, us2dt_now tz z = us2dt_now utc z).
Proof. exact conversions_independent. Qed.
Print Assumptions C18_conversions_independent.

(* the old conversions were zone dependent: under tz = +05:30 the hour floor of
   2021-03-14T02:30:15.5 is 02:30, under UTC it is 02:00 (Appendix A.9) *)
Theorem C18_refuted_old :
  exists tz t, valid t /\ hour_floor_old tz t <> hour_floor_old utc t.
Proof. exact hour_floor_old_zone_dependent. Qed.
Print Assumptions C18_refuted_old.

Example C18_ex_now :
  time_api kolkata (CFloor UHour witness_A9) = RInstant (Ok (mkdt 2021 3 14 2 0 0 0)) /\
  time_api utc (CFloor UHour witness_A9) = RInstant (Ok (mkdt 2021 3 14 2 0 0 0)).
Proof. vm_compute. split; reflexivity. Qed.

Example C18_ex_old :
  hour_floor_old kolkata witness_A9 = Ok (mkdt 2021 3 14 2 30 0 0) /\
  hour_floor_old utc witness_A9 = Ok (mkdt 2021 3 14 2 0 0 0).
Proof. vm_compute. split; reflexivity. Qed.
