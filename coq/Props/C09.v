(* Property C09: the SVG and the TikZ back-end draw the same picture.
   Statements only.  svg_doc_of and tikz_doc_of (coq/Render/Scene.v) are two
   separately written emitter models, line for line after timeline.py 323-518
   and 521-851; geom_svg / geom_tikz read the drawn geometry out of each
   document (SVG path semantics; TikZ colour and text macros resolved through
   the \definecolor and \def\text tables of the header).

   picture_sim p q says, component by component:
     main-layer shift    same value        (Fl 0 | Fi x   vs  Fi 0 | Fi x: exact)
     axis end point      within 1          (Fs x           vs  Fi x: |x - trunc x| < 1)
     tick origins        within 1, same texts (F16 x       vs  Fi x)
     links               IDENTICAL: colour triple and every segment point for point (F8 both)
     boxes               IDENTICAL: origin (Fi both), size (Fs both), fill, border,
                         text colour and text (raw text; uni2tex is property C19)
     dots                same centre value (Fs x vs F6 x: equal before the decimal
                         rounding, i.e. within 5e-7 as printed), same diameter
                         (2 r  vs  minimum size 2 r), same colour triple
   Margins are not part of the picture (documented TikZ limitation).
   nval reads a number before the decimal rounding of its format; nprint is
   the decimal actually printed ("%.kf": the value rounded half-even to k
   decimals; "%i": truncated; str(): the value itself, its shortest-digits
   spelling not modelled).  C09_printed_* bound the distance between the two,
   so "same value" means: printed within 5e-7 (Fs vs F6) or identically (same
   format), and "within 1" means printed less than 1 + 5e-17 apart. *)
From Coq Require Import ZArith NArith QArith List Bool.
From Labella Require Import Text.Utils Render.Geometry Render.Scene Render.SceneProofs.
Import ListNotations.
Open Scope Q_scope.

Theorem C09_same_geometry : forall s,
  colours_valid s -> scene_wf s ->
  picture_sim (geom_svg (svg_doc_of s)) (geom_tikz (tikz_doc_of s)).
Proof. exact same_geometry. Qed.
Print Assumptions C09_same_geometry.

(* the colours that are equal are real triples, not two failures *)
Theorem C09_colours_defined : forall s, colours_valid s -> scene_wf s ->
  Forall (fun k => fst k <> None) (pc_links (geom_svg (svg_doc_of s))) /\
  Forall (fun b => pb_bg b <> None /\ pb_border b <> Some None /\
                   (forall c t, pb_text b = Some (c, t) -> c <> None))
         (pc_boxes (geom_svg (svg_doc_of s))) /\
  Forall (fun c => pd_fill c <> None) (pc_dots (geom_svg (svg_doc_of s))).
Proof. exact colours_defined. Qed.
Print Assumptions C09_colours_defined.

(* the macro look-up really finds the colour colorFunc yields for that role and
   index (int2name is injective: C20) *)
Theorem C09_colour_lookup : forall s r i l,
  nth_error (sc_labels s) i = Some l -> role_used (sc_opts s) r = true ->
  lookup_col (tk_colors (tikz_doc_of s)) (r, int2name (N.of_nat i))
  = Some (hex2html (color_func (sc_opts s) r (N.of_nat i) l)).
Proof. exact tikz_colour_lookup. Qed.
Print Assumptions C09_colour_lookup.

(* the TikZ replay of the step list draws exactly the SVG path's segments *)
Theorem C09_replay : forall col steps cur,
  map tikz_seg_geom (tikz_replay col cur steps) = svg_segs cur steps.
Proof. exact replay_geom. Qed.
Print Assumptions C09_replay.

(* what is printed: within half a unit of the last digit of the value read *)
Theorem C09_printed_value : forall n, Qabs.Qabs (nprint n - nval n) <= ntol n.
Proof. exact nprint_close. Qed.
Print Assumptions C09_printed_value.

Theorem C09_printed_same : forall a b, num_same a b ->
  Qabs.Qabs (nprint a - nprint b) <= ntol a + ntol b.
Proof. exact printed_same. Qed.
Print Assumptions C09_printed_same.

Theorem C09_printed_close : forall a b, num_close a b ->
  Qabs.Qabs (nprint a - nprint b) < 1 + ntol a + ntol b.
Proof. exact printed_close. Qed.
Print Assumptions C09_printed_close.

(* non-vacuity: a scene with a stub chain, a border, ticks, and colours in all
   four forms (3-digit, 6-digit, list, function) satisfies the hypotheses, and
   the two pictures compute to what the statement says *)
Definition ex_opts : opts :=
  mkOpts Left (200 # 1) (361 # 2) (20 # 1) (20 # 1) (20 # 1) (20 # 1) (60 # 1)
    (mkPad (2 # 1) (2 # 1) (3 # 1) (2 # 1)) (3 # 1) true true false
    (CList [[35; 102; 48; 48]; [48; 48; 102; 102; 48; 48]]%N)   (* dot: ["#f00", "00ff00"] *)
    (CConst [35; 50; 50; 50]%N)                                 (* labelBg "#222" *)
    (CConst [35; 102; 102; 102]%N)                              (* labelText "#fff" *)
    CFun                                                        (* link: function *)
    (CConst [35; 48; 48; 48]%N).
Definition ex_scene : scene :=
  mkScene ex_opts [(0 # 1, [49]%N); (35 # 2, [50]%N)]
    [ mkLabel (0 # 1) (55 # 1) (17 # 1) [8%Z] (Some [97; 60; 38]%N) [[]; []; []; [35; 97; 66; 99]%N; []];
      mkLabel (105 # 1) (18 # 1) (64 # 1) [105%Z; 110%Z] None [[]; []; []; [49; 102; 55; 55; 98; 52]%N; []] ].

Example C09_ex_hyps : colours_valid ex_scene /\ scene_wf ex_scene.
Proof.
  split.
  - intros [|[|[|i]]] l r E U; cbn in E; try discriminate; try (destruct i; discriminate);
      injection E as <-; destruct r; vm_compute; reflexivity.
  - intros l [<-|[<-|[]]]; cbn; discriminate.
Qed.

Example C09_ex_pictures :
  pc_boxes (geom_svg (svg_doc_of ex_scene)) = pc_boxes (geom_tikz (tikz_doc_of ex_scene)) /\
  map (fun k => fst k) (pc_links (geom_tikz (tikz_doc_of ex_scene))) = [Some (170, 187, 204)%N; Some (31, 119, 180)%N] /\
  map (fun k => length (snd k)) (pc_links (geom_tikz (tikz_doc_of ex_scene))) = [1; 3]%nat /\
  map (fun c => pd_fill c) (pc_dots (geom_svg (svg_doc_of ex_scene))) = [Some (255, 0, 0)%N; Some (0, 255, 0)%N] /\
  pc_axis (geom_svg (svg_doc_of ex_scene)) = (Fl 0, Fs ((361 # 2) - (20 # 1) - (20 # 1))) /\
  nval (snd (pc_axis (geom_tikz (tikz_doc_of ex_scene)))) = 140 # 1.
Proof. vm_compute. repeat split. Qed.

Example C09_ex_printed :
  Qred (nprint (F6 (21874999999999993 # 250000000000000))) = 175 # 2 /\     (* 87.49999999999997 -> 87.500000 *)
  Qred (nprint (F8 (1 # 3))) = 33333333 # 100000000 /\
  Qred (nprint (F8 (5 # 1000000000))) = 0 /\                                (* half: to even *)
  Qred (nprint (F8 (15 # 1000000000))) = 1 # 50000000 /\
  nprint (Fi (-(1 # 2))) = 0.
Proof. vm_compute. repeat split. Qed.

(* ======================= the whole pipeline (Render/Pipeline.v) ========================
   Both documents that the export pipeline produces from one raw input describe the
   same picture (picture_sim as above), for EVERY input on which it returns (by
   C07_pipeline_total: every documented input) whose colour options yield valid
   codes: a constant code, every entry of a non-empty list, the value of a function
   option on every datum.  No hypothesis about the scene is left: the labels'
   chains are non-empty by construction of the engine adapter. *)
From Labella Require Import Render.Axis Render.Pipeline Render.PipelineProofs.

Theorem C09_pipeline_same_geometry : forall r s,
  pipeline_scene r = AOk s -> raw_colours_valid r ->
  picture_sim (geom_svg (svg_doc_of s)) (geom_tikz (tikz_doc_of s)).
Proof. exact pipeline_same_geometry. Qed.
Print Assumptions C09_pipeline_same_geometry.
