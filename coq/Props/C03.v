(* Property C03: position bounds are honoured whenever the items fit;
   otherwise the excess spills.  Statements only; every proof is `exact <lemma>`.

   The walls are modelled as coded: soft variables of weight W = 1e10
   (removeOverlap.py:61-73).  "Inside the bounds" therefore holds up to the
   explicit slack  delta o its = (sum_i |x_i - t_i|) / W  -- the total
   displacement of the layer divided by the wall weight -- not exactly.

   Vocabulary (coq/Layout/Layer.v):
     fits o s            w_1/2 + sum of gaps + w_n/2 <= maxP - minP  (True if a bound is absent)
     needed_length o s   that left-hand side
     delta o its         the slack above;   qlen l = the length of l as a rational
     layer_width         what Force.set_options hands to the distributor (force.py:43-54) *)
From Coq Require Import ZArith QArith List Bool.
From Labella Require Import Base.QUtil Base.QUtilProofs Layout.Pava Layout.PavaProofs
  Layout.Layer Layout.LayerProofs.
Import ListNotations.
Open Scope Q_scope.

(* if the layer fits (or a bound is absent) every reported item lies inside
   the bounds that exist, to within 1/2 (rounding) + delta (soft walls) *)
Theorem C03_inside : forall o its, its <> [] -> opts_ok o -> items_ok its ->
  fits o (sorted_items its) ->
  (forall m, minP o = Some m ->
     Forall2 (fun a z => m - (1 # 2) - delta o its <= inject_Z z - wid a / 2)
             (sorted_items its) (solve_layer o its)) /\
  (forall M, maxP o = Some M ->
     Forall2 (fun a z => inject_Z z + wid a / 2 <= M + (1 # 2) + delta o its)
             (sorted_items its) (solve_layer o its)).
Proof. exact C03_inside_lemma. Qed.
Print Assumptions C03_inside.

(* WITHOUT the slack delta the statement is false -- of the model and of the
   code alike (known finding "soft-wall-slack"): the property text's "inside
   the bounds to within 0.5 rounding whenever the items fit" fails for targets
   far beyond a bound.  Witness: minPos 0, maxPos 100, labels (1e11, width 10)
   and (50, width 10): the layer needs 23 of the 100 units, yet the first label
   is reported at 105, its right edge at 110 > 100 + 1/2. *)
Theorem C03_inside_tight_refuted : exists o its i a z M,
  its <> [] /\ opts_ok o /\ items_ok its /\ fits o (sorted_items its) /\
  maxP o = Some M /\
  nth_error (sorted_items its) i = Some a /\ nth_error (solve_layer o its) i = Some z /\
  M + (1 # 2) < inject_Z z + wid a / 2.
Proof.
  exists (mkOpts 3 2 (Some 0) (Some 100)).
  exists [mkItem 100000000000 10 false; mkItem 50 10 false].
  exists 1%nat, (mkItem 100000000000 10 false), 105%Z, 100.
  split; [discriminate|]. split; [split; discriminate|].
  split; [repeat constructor; discriminate|].
  vm_compute. repeat split; try reflexivity; discriminate.
Qed.
Print Assumptions C03_inside_tight_refuted.

(* delta is negligible: with targets within Mg of [minP, maxP] it is at most
   n (maxP - minP + Mg) / 1e10  (1000 labels on a 10^4-unit timeline: 1e-3) *)
Theorem C03_delta_bound : forall o its m M Mg, its <> [] -> opts_ok o -> items_ok its ->
  minP o = Some m -> maxP o = Some M -> fits o (sorted_items its) ->
  Forall (fun a => m - Mg <= tgt a <= M + Mg) its ->
  delta o its <= qlen its * (M - m + Mg) / Wwall.
Proof. exact C03_delta_bound_lemma. Qed.
Print Assumptions C03_delta_bound.

(* with NO fitting hypothesis the separation of C01 holds unchanged
   (C01_separation has no such hypothesis), hence the layer is as long as it
   needs to be: the excess extends beyond the bounds *)
Theorem C03_spill : forall o its f, its <> [] ->
  let s := sorted_items its in
  let pos := solve_layer o its in
  needed_length o s - 1 <=
  (inject_Z (nth (length its - 1) pos 0%Z) + wid (last s f) / 2) -
  (inject_Z (nth 0 pos 0%Z) - wid (hd f s) / 2).
Proof. exact C03_spill_lemma. Qed.
Print Assumptions C03_spill.

Theorem C03_spill_separation : forall o its i j, (i <= j)%nat -> (j < length its)%nat ->
  Qsum (slice i j (gaps o (sorted_items its))) - 1 <=
  inject_Z (nth j (solve_layer o its) 0%Z) - inject_Z (nth i (solve_layer o its) 0%Z).
Proof. exact C01_separation_le. Qed.
Print Assumptions C03_spill_separation.

(* the width handed to the layering step: maxP - minP when both bounds are
   configured, none otherwise *)
Theorem C03_layer_width :
  (forall a b, layer_width (Some a) (Some b) = Some (b - a)) /\
  (forall mx, layer_width None mx = None) /\
  (forall mn, layer_width mn None = None).
Proof. exact C03_layer_width_lemma. Qed.
Print Assumptions C03_layer_width.

(* non-vacuity: a layer that fits exactly, one that does not *)
Example C03_ex_fits :
  let o := mkOpts 3 2 (Some 0) (Some 36) in
  let its := [mkItem 100 10 false; mkItem (-50) 10 false; mkItem 7 10 false] in
  its <> [] /\ opts_ok o /\ items_ok its /\ fits o (sorted_items its) /\
  needed_length o (sorted_items its) == 36 /\
  solve_layer o its = [5; 18; 31]%Z /\
  Qred (delta o its) = 225000000034 # 16666666671666666667.
Proof.
  vm_compute. split; [discriminate|]. split; [split; discriminate|].
  split; [repeat constructor; discriminate|]. split; [discriminate|].
  split; [reflexivity|]. split; reflexivity.
Qed.

Example C03_ex_spills :
  let o := mkOpts 3 2 (Some 0) (Some 30) in
  let its := [mkItem 100 10 false; mkItem (-50) 10 false; mkItem 7 10 false] in
  ~ fits o (sorted_items its) /\ solve_layer o its = [2; 15; 28]%Z.
Proof.
  split; [|vm_compute; reflexivity]. vm_compute. intro H. apply H. reflexivity.
Qed.

(* how much of C03_inside's slack is real: the walls give way outward only, by
   slackL = minP - x_L and slackR = x_R - maxP, both at most delta; clamping the
   solution by exactly these amounts gives the optimum inside the bounds
   (coq/Props/C02.v: C02_hard_optimum, C02_distance_to_hard_optimum) *)
From Labella Require Import Layout.HardBoundProofs.
Theorem C03_walls_give_way : forall o its, its <> [] -> fits o (sorted_items its) ->
  let s := sorted_items its in
  (0 <= slackL o s <= delta o its) /\ (0 <= slackR o s <= delta o its) /\
  Forall2 (fun x z => - slackR o s <= z - x <= slackL o s) (solve_layer_exact o its) (hard_clamp o s).
Proof. exact C02_hard_close_lemma. Qed.
Print Assumptions C03_walls_give_way.
