(* Property C07: every datum is drawn once, on the axis at the position of its
   time, linked to its own label; boxes have the datum's size plus padding and
   its text; ticks carry their text at their position.
   Statements only.  The layout result (per label: ideal position = scale(time),
   the integer positions of its stubs layer by layer and its own, text, width)
   is the input of the model (`scene`); sizes are computed by the get_nodes
   model (node_size); svg_doc_of / tikz_doc_of are the emitter models and
   geom_svg / geom_tikz read the drawn geometry out of them.

   Planned in DESIGN.md 5 and NOT proved here at full strength:
     C07_affine (now proved, below): composed with the scale models through the
       axis pipeline of Render/Axis.v (LinearScale: Scale/Linear.v; TimeScale:
       Time/TimeScale.v on epoch milliseconds of the full instant).
     C07_ticktext (now proved, below): the tick texts are modelled in
       Time/TickFormat.v (mytimeformat; "{:.nf}".format) and tied by ./check C11.
     nval reads an F8/F16/F6/Fs number as its value before decimal rounding;
       the printed decimal (nprint, half-even to the format's digits) is within
       half a unit of the last digit (C09_printed_value); the shortest-digits
       spelling of str() is not modelled (only that it denotes the value). *)
From Coq Require Import ZArith NArith QArith List Bool.
From Labella Require Import Render.Geometry Render.GeometryProofs Render.Scene Render.SceneProofs
  Render.Axis Render.AxisProofs Time.Calendar Time.TickFormat Time.TickFormatProofs Scale.Ticks.
Import ListNotations.
Open Scope Q_scope.

(* exactly one dot, one link and one box per label, in node order, in both documents *)
Theorem C07_counts : forall s,
  let n := length (sc_labels s) in
  (length (sv_dots (svg_doc_of s)) = n /\ length (sv_links (svg_doc_of s)) = n /\
   length (sv_labels (svg_doc_of s)) = n) /\
  (length (tk_dots (tikz_doc_of s)) = n /\ length (tk_links (tikz_doc_of s)) = n /\
   length (tk_labels (tikz_doc_of s)) = n).
Proof. intro s. split; [exact (svg_counts s) | exact (tikz_counts s)]. Qed.
Print Assumptions C07_counts.

Theorem C07_order : forall s i l, nth_error (sc_labels s) i = Some l ->
  (nth_error (sv_dots (svg_doc_of s)) i = Some (svg_dot_of s (N.of_nat i) l) /\
   nth_error (sv_links (svg_doc_of s)) i = Some (svg_link_of s (N.of_nat i) l) /\
   nth_error (sv_labels (svg_doc_of s)) i = Some (svg_label_of s (N.of_nat i) l)) /\
  (nth_error (tk_dots (tikz_doc_of s)) i = Some (tikz_dot_of s (N.of_nat i) l) /\
   nth_error (tk_links (tikz_doc_of s)) i = Some (tikz_link_of s (N.of_nat i) l) /\
   nth_error (tk_labels (tikz_doc_of s)) i = Some (tikz_label_of s (N.of_nat i) l)).
Proof. intros s i l E. split; [exact (svg_nth s i l E) | exact (tikz_nth s i l E)]. Qed.
Print Assumptions C07_order.

(* dot i lies on the axis line (cross coordinate 0) at the label's ideal
   position, in both documents *)
Theorem C07_dots_on_axis : forall s i l, nth_error (sc_labels s) i = Some l ->
  let d := o_dir (sc_opts s) in
  (exists c, nth_error (pc_dots (geom_svg (svg_doc_of s))) i = Some c /\
             nval (np_along d (pd_at c)) == l_ideal l /\ nval (np_cross d (pd_at c)) == 0) /\
  (exists c, nth_error (pc_dots (geom_tikz (tikz_doc_of s))) i = Some c /\
             nval (np_along d (pd_at c)) == l_ideal l /\ nval (np_cross d (pd_at c)) == 0).
Proof. exact dots_on_axis. Qed.
Print Assumptions C07_dots_on_axis.

(* the path of a label with a stub chain of ANY depth: one move to the
   datum's dot, then, layer by layer, a curve to the near edge of the layer at
   the position of the label's own stub there and a line across the layer
   (for every stub), ending with the curve to the label itself; no other move *)
Theorem C07_link_path : forall d G H l,
  exists rest, label_path d G H l = M (start_pt d (l_ideal l)) :: rest /\
    Forall (fun st => step_kind st <> KM) rest /\
    Forall2 sig_eq rest (link_spec d G H 0 (l_chain l)).
Proof. exact label_path_spec. Qed.
Print Assumptions C07_link_path.

(* it ends at the middle of the axis-facing edge of the label's box (before
   the %i truncation of the box origin; after it, within 1 unit).
   thickness_ok is `l_h l == H` for direction up and True otherwise. *)
Theorem C07_link_end : forall d G H l, l_chain l <> [] -> thickness_ok d H l ->
  pt_eq (path_end (label_path d G H l)) (edge_mid d (label_box_exact d G H l)) /\
  pt_within1 (path_end (label_path d G H l)) (edge_mid d (label_box d G H l)).
Proof.
  intros d G H l N T. split;
    [exact (link_ends_at_edge_mid d G H l N T) | exact (link_ends_near_drawn_box d G H l N T)].
Qed.
Print Assumptions C07_link_end.

(* why the hypothesis is there: for `up`, a label thinner than the layer is
   missed by exactly H - h *)
Theorem C07_link_end_up_general : forall G H l, l_chain l <> [] ->
  let e := path_end (label_path Up G H l) in
  let m := edge_mid Up (label_box_exact Up G H l) in
  fst e == fst m /\ snd e == snd m + (H - l_h l).
Proof. exact link_end_up_general. Qed.
Print Assumptions C07_link_end_up_general.

(* with explicit widths every label built by get_nodes has the same height, so
   for up/down the layer thickness equals every label's thickness *)
Theorem C07_thickness_uniform : forall d p ls,
  sideways d = false -> ls <> [] ->
  (forall l, In l ls -> exists width t, (l_w l, l_h l) = node_size d p width t) ->
  forall l, In l ls -> l_h l == node_height d ls.
Proof. exact thickness_uniform. Qed.
Print Assumptions C07_thickness_uniform.

(* what is drawn for label i is that path: segments that start at the dot,
   each starting where the previous ended, ending step by step at the path's
   step ends (the TikZ document draws the identical segments: C09) *)
Theorem C07_link_drawn : forall s i l, nth_error (sc_labels s) i = Some l -> l_chain l <> [] ->
  let st := p8 (start_pt (o_dir (sc_opts s)) (l_ideal l)) in
  exists col gs, nth_error (pc_links (geom_svg (svg_doc_of s))) i = Some (col, gs) /\
    gs <> [] /\ segs_continuous st gs /\
    map seg_end gs = map (fun x => p8 (step_end x)) (tl (sc_path s l)).
Proof. exact link_drawn. Qed.
Print Assumptions C07_link_drawn.

(* C07_link for label i of a scene, assembled: path shape, end point, and what
   the documents draw *)
Theorem C07_link : forall s i l,
  nth_error (sc_labels s) i = Some l -> l_chain l <> [] ->
  let d := o_dir (sc_opts s) in
  let G := o_gap (sc_opts s) in
  let H := sc_H s in
  thickness_ok d H l ->
  (exists rest, sc_path s l = M (start_pt d (l_ideal l)) :: rest /\
     Forall (fun st => step_kind st <> KM) rest /\
     Forall2 sig_eq rest (link_spec d G H 0 (l_chain l))) /\
  pt_eq (path_end (sc_path s l)) (edge_mid d (label_box_exact d G H l)) /\
  pt_within1 (path_end (sc_path s l)) (edge_mid d (label_box d G H l)) /\
  (exists col gs, nth_error (pc_links (geom_svg (svg_doc_of s))) i = Some (col, gs) /\
     gs <> [] /\ segs_continuous (p8 (start_pt d (l_ideal l))) gs /\
     map seg_end gs = map (fun x => p8 (step_end x)) (tl (sc_path s l))).
Proof. exact link_full. Qed.
Print Assumptions C07_link.

(* the thickness condition holds for every label the get_nodes model builds *)
Theorem C07_thickness_ok_explicit : forall d p ls,
  ls <> [] ->
  (forall l, In l ls -> exists width t, (l_w l, l_h l) = node_size d p width t) ->
  forall l, In l ls -> thickness_ok d (node_height d ls) l.
Proof. exact thickness_ok_explicit. Qed.
Print Assumptions C07_thickness_ok_explicit.

(* box: origin = nodePos truncated by %i, size = the label's w and h printed in
   full, text verbatim (and shown iff non-empty) ... *)
Theorem C07_box : forall s i l, nth_error (sc_labels s) i = Some l ->
  exists b, nth_error (pc_boxes (geom_svg (svg_doc_of s))) i = Some b /\
    pb_origin b = (Fi (fst (sc_origin s l)), Fi (snd (sc_origin s l))) /\
    pb_w b = Fs (l_w l) /\ pb_h b = Fs (l_h l) /\
    match pb_text b with
    | Some (_, t) => l_text l = Some t /\ t <> []
    | None => text_shown (l_text l) = false
    end.
Proof. exact box_drawn. Qed.
Print Assumptions C07_box.

(* ... and w, h are the datum's size plus padding, swapped for left/right
   (as coded: with a text the explicit width becomes the horizontal extent and
   takes the top/bottom padding) *)
Theorem C07_box_size : forall d p width t,
  node_size d p width t =
  if sideways d
  then if text_shown t
       then (width + padT p + padB p, item_height + padL p + padR p)
       else (item_height + padT p + padB p, width + padL p + padR p)
  else (width + padL p + padR p, item_height + padT p + padB p).
Proof. exact node_size_spec. Qed.
Print Assumptions C07_box_size.

(* tick j sits on the axis line at its position (TikZ: truncated by %i) with its text *)
Theorem C07_ticks : forall s j pos text, o_ticks (sc_opts s) = true ->
  nth_error (sc_ticks s) j = Some (pos, text) ->
  let d := o_dir (sc_opts s) in
  (exists ts p, pc_ticks (geom_svg (svg_doc_of s)) = Some ts /\ nth_error ts j = Some (p, text) /\
        nval (np_along d p) == pos /\ nval (np_cross d p) == 0) /\
  (exists ts p, pc_ticks (geom_tikz (tikz_doc_of s)) = Some ts /\ nth_error ts j = Some (p, text) /\
        nval (np_along d p) = inject_Z (trunc pos) /\ nval (np_cross d p) == 0).
Proof. exact ticks_drawn. Qed.
Print Assumptions C07_ticks.

(* C07_affine.  `axis i = AOk o` is the axis pipeline of timeline.py on input i
   (Render/Axis.v): o reports the domain (ax_d0, ax_d1), the inner length ax_len
   (= innerWidth or innerHeight by direction), the dot positions ax_dots (timePos of
   every datum, in datum order) and the ticks.  `coord` is the scale's coordinate:
   the number (LinearScale) or the epoch milliseconds of the FULL instant, time of
   day included (TimeScale).  For a non-degenerate increasing domain and a positive
   inner length: dots and ticks sit at ONE function ax_pos o of the coordinate, which
   is affine with positive slope (hence increasing) and maps the reported domain onto
   [0, inner length]; in the drawn SVG scene whose labels carry these ideal positions,
   dot k is on the axis line at ax_pos o (time of datum k), and inside [0, inner
   length] whenever the time is inside the domain. *)
Theorem C07_affine : forall i o s,
  axis i = AOk o -> coord (ax_d0 o) < coord (ax_d1 o) -> 0 < ax_len o ->
  Forall2 (fun l p => l_ideal l == p) (sc_labels s) (ax_dots o) ->
  (exists a b, 0 < a /\ (forall x, ax_pos o x == a * x + b) /\
               ax_pos o (coord (ax_d0 o)) == 0 /\ ax_pos o (coord (ax_d1 o)) == ax_len o) /\
  ax_len o = axis_len (ai_opts i) /\
  (forall x y, x < y -> ax_pos o x < ax_pos o y) /\
  ax_ticks o = map (fun p => ax_pos o (coord p)) (ax_tick_at o) /\
  forall k l v, nth_error (sc_labels s) k = Some l -> nth_error (ai_data i) k = Some v ->
    let t := coord (parse (ai_today i) v) in
    let d := o_dir (sc_opts s) in
    exists c, nth_error (pc_dots (geom_svg (svg_doc_of s))) k = Some c /\
      nval (np_along d (pd_at c)) == ax_pos o t /\ nval (np_cross d (pd_at c)) == 0 /\
      (coord (ax_d0 o) <= t -> t <= coord (ax_d1 o) ->
       0 <= nval (np_along d (pd_at c)) /\ nval (np_along d (pd_at c)) <= ax_len o).
Proof. exact axis_dots_affine. Qed.
Print Assumptions C07_affine.

(* every datum has its dot position in the pipeline's output, in datum order (so the
   Forall2 hypothesis above is about as many labels as data) *)
Theorem C07_affine_dots : forall i o, axis i = AOk o ->
  Forall2 (fun v p => p = ax_pos o (coord (parse (ai_today i) v))) (ai_data i) (ax_dots o).
Proof. intros i o H. exact (proj1 (axis_counts i o H)). Qed.
Print Assumptions C07_affine_dots.

(* C07_ticktext.  In the axis pipeline positions and texts are the SAME tick list,
   zipped: the text of every tick is scale.tickFormat() applied to the tick AT THAT
   position (tick_format: mytimeformat for the TimeScale, "{:.nf}".format with the
   decimals of the tick step for the LinearScale, Time/TickFormat.v); and a scene that
   draws these ticks shows, as tick j, that text at that position in both documents. *)
Theorem C07_ticktext : forall i o, axis i = AOk o ->
  ax_tick_text o = map (tick_format o) (ax_tick_at o) /\
  combine (ax_ticks o) (ax_tick_text o) =
    map (fun p => (ax_pos o (coord p), tick_format o p)) (ax_tick_at o).
Proof. exact axis_tick_text. Qed.
Print Assumptions C07_ticktext.

Theorem C07_ticktext_drawn : forall i o s j p, axis i = AOk o -> o_ticks (sc_opts s) = true ->
  sc_ticks s = combine (ax_ticks o) (ax_tick_text o) ->
  nth_error (ax_tick_at o) j = Some p ->
  let d := o_dir (sc_opts s) in
  let text := tick_format o p in
  let pos := ax_pos o (coord p) in
  (exists ts pt, pc_ticks (geom_svg (svg_doc_of s)) = Some ts /\ nth_error ts j = Some (pt, text) /\
        nval (np_along d pt) == pos /\ nval (np_cross d pt) == 0) /\
  (exists ts pt, pc_ticks (geom_tikz (tikz_doc_of s)) = Some ts /\ nth_error ts j = Some (pt, text) /\
        nval (np_along d pt) = inject_Z (trunc pos) /\ nval (np_cross d pt) == 0).
Proof. exact axis_ticks_drawn. Qed.
Print Assumptions C07_ticktext_drawn.

(* tickformat_total and what the texts denote.  Time: on a valid instant of a year
   1000..9999 (strftime's %Y is modelled for four-digit years only; the documented
   domain is 1900..2200) the text has the width of its branch - 4 (%Y), 3..9 (%B),
   6 (%b %d), 6 (%a %d), 5 (%I %p), 5 (%H:%M), 3 (:%S) - and the branch is the
   seven-way split of mytimeformat on the instant's fields. *)
Theorem C07_timeformat_total : forall t, valid t -> (1000 <= dt_y t)%Z ->
  match time_format_branch t with
  | 0 => length (time_format t) = 4%nat
  | 1 => (3 <= length (time_format t) <= 9)%nat
  | 2 | 3 => length (time_format t) = 6%nat
  | 4 | 5 => length (time_format t) = 5%nat
  | _ => length (time_format t) = 3%nat
  end%Z.
Proof. exact time_format_total. Qed.
Print Assumptions C07_timeformat_total.

Theorem C07_timeformat_branches : forall t,
  match time_format_branch t with
  | 0 => dt_d t = 1 /\ dt_mo t = 1 /\ time_format t = nat_digits (dt_y t)
  | 1 => dt_d t = 1 /\ dt_mo t <> 1 /\ time_format t = month_name (dt_mo t)
  | 2 => dt_d t <> 1 /\ isoweekday t = 7 /\ dt_h t = 0 /\ dt_mi t = 0 /\ dt_s t = 0 /\
         time_format t = month_abbr (dt_mo t) ++ [SP] ++ d2 (dt_d t)
  | 3 => dt_d t <> 1 /\ isoweekday t <> 7 /\ dt_h t = 0 /\ dt_mi t = 0 /\ dt_s t = 0 /\
         time_format t = weekday_abbr (isoweekday t) ++ [SP] ++ d2 (dt_d t)
  | 4 => dt_d t <> 1 /\ dt_h t <> 0 /\ dt_mi t = 0 /\ dt_s t = 0 /\
         time_format t = d2 (hour12 (dt_h t)) ++ [SP] ++ ampm (dt_h t)
  | 5 => dt_d t <> 1 /\ dt_mi t <> 0 /\ dt_s t = 0 /\
         time_format t = d2 (dt_h t) ++ [COLON] ++ d2 (dt_mi t)
  | _ => dt_s t <> 0 /\ time_format t = [COLON] ++ d2 (dt_s t)
  end%Z.
Proof. exact time_format_branches. Qed.
Print Assumptions C07_timeformat_branches.

(* the digit fields read back as the numbers they were made from (dvalue: the value
   of a string of ASCII digits); two-digit fields have width 2; the 12-hour clock *)
Theorem C07_digits : 
  (forall z, (0 <= z)%Z -> dvalue (nat_digits z) = z) /\
  (forall z, (0 <= z < 100)%Z -> dvalue (d2 z) = z /\ length (d2 z) = 2%nat) /\
  (forall h, (0 <= h < 24)%Z -> (1 <= hour12 h <= 12)%Z /\ h = (hour12 h mod 12 + (if (h <? 12)%Z then 0 else 12))%Z).
Proof.
  split; [exact nat_digits_value|]. split; [|exact hour12_spec].
  intros z H. split; [exact (d2_value z H)|exact (d2_length z)].
Qed.
Print Assumptions C07_digits.

(* Linear: the text of a tick is never empty and denotes the tick EXACTLY: an optional
   '-', the integer part, and (if n > 0) '.' with exactly n fraction digits, with
   ip + fp / 10^n = |t|  (n = max(0, precision(step)); ticks are multiples of the step).
   Distinct ticks get distinct texts by C13's fmt_injective. *)
Theorem C07_linformat_exact : forall a b m t, ~ a == b -> (0 < m)%Z -> In t (ticks a b m) ->
  let n := decimals (dom_step a b m) in
  exists ip fp,
    lin_tick_format a b m t =
      (if Qlt_le_dec t 0 then [MINUS] else []) ++ nat_digits ip ++
      (if (n <=? 0)%Z then [] else DOT :: digits_w (Z.to_nat n) fp) /\
    dvalue (nat_digits ip) = ip /\ dvalue (digits_w (Z.to_nat n) fp) = fp /\
    length (digits_w (Z.to_nat n) fp) = Z.to_nat n /\ (0 <= ip)%Z /\ (0 <= fp < 10 ^ n)%Z /\
    inject_Z ip + inject_Z fp / pow10 n == if Qlt_le_dec t 0 then - t else t.
Proof. exact lin_tick_text_exact. Qed.
Print Assumptions C07_linformat_exact.

Theorem C07_linformat_total : forall n x, fixed_format n x <> [].
Proof. exact fixed_format_total. Qed.
Print Assumptions C07_linformat_total.

(* the seven branches of mytimeformat and four fixed-point texts:
   "2021" "March" "Mar 14" "Mon 15" "01 PM" "12 AM"... *)
Example C07_ex_ticktext :
  time_format (mkdt 2021 1 1 0 0 0 0) = [50; 48; 50; 49]%N /\
  time_format (mkdt 2021 3 1 0 0 0 0) = [77; 97; 114; 99; 104]%N /\
  time_format (mkdt 2021 3 14 0 0 0 0) = [77; 97; 114; 32; 49; 52]%N /\
  time_format (mkdt 2021 3 15 0 0 0 0) = [77; 111; 110; 32; 49; 53]%N /\
  time_format (mkdt 2021 3 15 13 0 0 0) = [48; 49; 32; 80; 77]%N /\
  time_format (mkdt 2021 3 15 0 5 0 0) = [48; 48; 58; 48; 53]%N /\
  time_format (mkdt 2021 3 15 0 5 7 0) = [58; 48; 55]%N /\
  time_format (mkdt 2021 3 15 12 0 0 0) = [49; 50; 32; 80; 77]%N /\
  fixed_format 2 (- (1 # 3)) = [45; 48; 46; 51; 51]%N /\ fixed_format 0 12 = [49; 50]%N /\
  fixed_format 3 (5 # 1000) = [48; 46; 48; 48; 53]%N /\ fixed_format 1 (- (1 # 100)) = [45; 48; 46; 48]%N.
Proof. vm_compute. repeat split. Qed.

(* non-vacuity: direction up, layer gap 60, two labels of height 18; the second
   sits in layer 2 behind two stubs.  Its path has the specified five steps
   and ends at the middle of the bottom edge of its box. *)
Definition ex_l1 : label := mkLabel (0 # 1) (54 # 1) (18 # 1) [27%Z] (Some [97%N]) [].
Definition ex_l2 : label := mkLabel (100 # 1) (89 # 2) (18 # 1) [87%Z; 26%Z; 26%Z] (Some [98%N]) [].

Example C07_ex_path :
  node_height Up [ex_l1; ex_l2] = 18 # 1 /\
  l_chain ex_l2 <> [] /\ thickness_ok Up (18 # 1) ex_l2 /\
  map step_kind (label_path Up (60 # 1) (18 # 1) ex_l2) = [KM; KC; KL; KC; KL; KC] /\
  map (fun st => (Qred (fst (step_end st)), Qred (snd (step_end st)))) (label_path Up (60 # 1) (18 # 1) ex_l2) =
    [ (100 # 1, 0 # 1); (87 # 1, -60 # 1); (87 # 1, -78 # 1); (26 # 1, -138 # 1); (26 # 1, -156 # 1); (26 # 1, -216 # 1) ] /\
  (let b := label_box Up (60 # 1) (18 # 1) ex_l2 in (Qred (rx b), Qred (ry b), rw b, rh b))
    = (3 # 1, -234 # 1, 89 # 2, 18 # 1).
Proof. vm_compute. repeat split; try reflexivity; discriminate. Qed.

Example C07_ex_sizes :
  node_size Left (mkPad (2 # 1) (2 # 1) (3 # 1) (2 # 1)) (50 # 1) (Some [97%N]) = ((50 # 1) + (3 # 1) + (2 # 1), (13 # 1) + (2 # 1) + (2 # 1)) /\
  node_size Left (mkPad (2 # 1) (2 # 1) (3 # 1) (2 # 1)) (60 # 1) None = ((13 # 1) + (3 # 1) + (2 # 1), (60 # 1) + (2 # 1) + (2 # 1)) /\
  node_size Up (mkPad (2 # 1) (2 # 1) (3 # 1) (2 # 1)) (50 # 1) (Some [97%N]) = ((50 # 1) + (2 # 1) + (2 # 1), (13 # 1) + (3 # 1) + (2 # 1)).
Proof. vm_compute. repeat split. Qed.

(* ======================= the whole pipeline (Render/Pipeline.v) ========================
   timeline_docs r : the SVG and TikZ documents of TimelineSVG/TimelineTex(data,
   options).export() computed from the RAW input r alone - times, widths, texts,
   options, engine options, today - by Axis (parse_items, init_axis, scale, ticks,
   tick texts) o Compose (get_nodes, the layout engine, stub chains) o Scene (the
   two emitters).  Tied end to end by command 850 (family pipeline:* of this check).
   pipeline_dom is Appendix B: non-empty data fitting the scale (years 1900..2200),
   positive widths, non-negative paddings, engine options in range. *)
From Coq Require Import Permutation.
From Labella Require Import Layout.ForceState Layout.Force Layout.ForceProofs Render.Compose Render.ComposeProofs
  Render.Pipeline Render.PipelineProofs.

(* the export never raises on the documented domain (C11_total + the engine's domain) *)
Theorem C07_pipeline_total : forall r, pipeline_dom r ->
  exists s, pipeline_scene r = AOk s /\ timeline_docs r = AOk (svg_doc_of s, tikz_doc_of s).
Proof. exact pipeline_total. Qed.
Print Assumptions C07_pipeline_total.

(* C07 with NO abstract hypothesis left.  For every input on which the pipeline
   returns (by C07_pipeline_total: every documented input):
   - there are exactly as many labels (hence, C07_counts, dots, links and boxes in
     each document) as data, and the k-th belongs to datum ids[k] where ids is a
     permutation of the data indices: one dot, one link, one box per datum;
   - dot k lies on the axis line at ax_pos (the full instant / number of THAT datum),
     in both documents;
   - link k is C07_link for that label: starts at the dot, one continuous path
     through the label's own stubs layer by layer, ends at the middle of the
     axis-facing edge of its box (the thickness condition is discharged: explicit
     widths);
   - box k has that datum's size plus padding (swapped for left/right) and shows its
     text verbatim;
   - tick j is drawn at ax_pos of the j-th tick value with tickFormat of that value;
   - ax_pos is ONE function: for a non-degenerate domain and a positive inner length
     it is affine with positive slope, increasing, maps the reported domain onto
     [0, inner length] and everything inside the domain into the axis.
   (A degenerate domain puts every dot at 0: C11_degenerate.) *)
Theorem C07_pipeline : forall r s,
  pipeline_scene r = AOk s ->
  exists ax ids,
    axis (ri_axis r) = AOk ax /\
    Permutation ids (seq 0 (length (ri_data r))) /\
    length (sc_labels s) = length (ri_data r) /\
    (forall k l, nth_error (sc_labels s) k = Some l ->
       let d := o_dir (ri_opts r) in
       exists id dat, nth_error ids k = Some id /\ nth_error (ri_data r) id = Some dat /\
         let t := coord (parse (ri_today r) (rd_time dat)) in
         (exists c, nth_error (pc_dots (geom_svg (svg_doc_of s))) k = Some c /\
            nval (np_along d (pd_at c)) == ax_pos ax t /\ nval (np_cross d (pd_at c)) == 0) /\
         (exists c, nth_error (pc_dots (geom_tikz (tikz_doc_of s))) k = Some c /\
            nval (np_along d (pd_at c)) == ax_pos ax t /\ nval (np_cross d (pd_at c)) == 0) /\
         ((exists rest, sc_path s l = M (start_pt d (l_ideal l)) :: rest /\
             Forall (fun st => step_kind st <> KM) rest /\
             Forall2 sig_eq rest (link_spec d (o_gap (ri_opts r)) (sc_H s) 0 (l_chain l))) /\
          pt_eq (path_end (sc_path s l)) (edge_mid d (label_box_exact d (o_gap (ri_opts r)) (sc_H s) l)) /\
          pt_within1 (path_end (sc_path s l)) (edge_mid d (label_box d (o_gap (ri_opts r)) (sc_H s) l)) /\
          (exists col gs, nth_error (pc_links (geom_svg (svg_doc_of s))) k = Some (col, gs) /\
             gs <> [] /\ segs_continuous (p8 (start_pt d (l_ideal l))) gs /\
             map seg_end gs = map (fun x => p8 (step_end x)) (tl (sc_path s l)))) /\
         (exists b, nth_error (pc_boxes (geom_svg (svg_doc_of s))) k = Some b /\
            (pb_w b, pb_h b) = (let '(w, h) := node_size d (o_pad (ri_opts r)) (rd_width dat) (rd_text dat) in (Fs w, Fs h)) /\
            match pb_text b with
            | Some (_, t) => rd_text dat = Some t /\ t <> []
            | None => text_shown (rd_text dat) = false
            end)) /\
    (o_ticks (ri_opts r) = true ->
     forall j pv, nth_error (ax_tick_at ax) j = Some pv ->
       let d := o_dir (ri_opts r) in
       (exists ts pt, pc_ticks (geom_svg (svg_doc_of s)) = Some ts /\
          nth_error ts j = Some (pt, tick_format ax pv) /\
          nval (np_along d pt) == ax_pos ax (coord pv) /\ nval (np_cross d pt) == 0) /\
       (exists ts pt, pc_ticks (geom_tikz (tikz_doc_of s)) = Some ts /\
          nth_error ts j = Some (pt, tick_format ax pv) /\
          nval (np_along d pt) = inject_Z (trunc (ax_pos ax (coord pv))) /\ nval (np_cross d pt) == 0)) /\
    ax_len ax = axis_len (ri_opts r) /\
    (coord (ax_d0 ax) < coord (ax_d1 ax) -> 0 < ax_len ax ->
     (exists a b, 0 < a /\ (forall x, ax_pos ax x == a * x + b) /\
        ax_pos ax (coord (ax_d0 ax)) == 0 /\ ax_pos ax (coord (ax_d1 ax)) == ax_len ax) /\
     (forall x y, x < y -> ax_pos ax x < ax_pos ax y) /\
     (forall x, coord (ax_d0 ax) <= x -> x <= coord (ax_d1 ax) -> 0 <= ax_pos ax x /\ ax_pos ax x <= ax_len ax)).
Proof. exact pipeline_c07. Qed.
Print Assumptions C07_pipeline.

(* "through the datum's OWN stubs": the chain of the label of engine node nd is, layer
   by layer, the position the engine reports for THE stub of that datum in that layer
   (there is exactly one item of the datum there, and it is a stub), and finally the
   reported position of the label itself in its own layer *)
Theorem C07_pipeline_own_stubs : forall r s, pipeline_scene r = AOk s -> pipeline_dom r ->
  exists ax, axis (ri_axis r) = AOk ax /\
  let d := o_dir (ri_opts r) in
  let p := o_pad (ri_opts r) in
  let its := items_of (ax_dots ax) (ri_data r) in
  let st := engine_result d p (ri_engine r) its in
  sc_labels s = map (scene_label d p its (reported st)) (st_nodes st) /\
  forall nd, In nd (st_nodes st) ->
    let l := scene_label d p its (reported st) nd in
    In (n_id nd, false, inject_Z (l_cur l)) (nth (n_layer nd) (reported st) []) /\
    l_layer l = Z.of_nat (n_layer nd) /\
    forall j, (j < n_layer nd)%nat ->
      let c := inject_Z (nth j (l_chain l) 0%Z) in
      In (n_id nd, true, c) (nth j (reported st) []) /\
      forall b c', In (n_id nd, b, c') (nth j (reported st) []) -> b = true /\ c' = c.
Proof. exact pipeline_chain_stubs. Qed.
Print Assumptions C07_pipeline_own_stubs.

(* C08 for the pipeline's boxes (no separation hypothesis: the engine's solver
   provides it, C08_engine_disjoint): nodeSpacing >= 3, layerGap >= 1 *)
Theorem C07_pipeline_boxes_disjoint : forall r s,
  pipeline_scene r = AOk s -> pipeline_dom r ->
  3 <= e_spacing (ri_engine r) -> 1 <= o_gap (ri_opts r) ->
  forall pic, pic = geom_svg (svg_doc_of s) \/ pic = geom_tikz (tikz_doc_of s) ->
  forall i j bi bj, nth_error (pc_boxes pic) i = Some bi -> nth_error (pc_boxes pic) j = Some bj -> i <> j ->
    rect_disjoint (pbox_rect bi) (pbox_rect bj).
Proof. exact pipeline_boxes_disjoint. Qed.
Print Assumptions C07_pipeline_boxes_disjoint.

(* non-vacuity: three numeric data (unsorted, one with a text), LinearScale, derived
   domain, direction up, 200 x 100 with margins 20, default engine options.  The input
   is in the documented domain, the pipeline returns, nice() turns [1.5, 9.25] into
   [1, 10] and the dots sit at 160 * (t - 1) / 9. *)
Definition ex_raw : raw_in :=
  mkRawIn SLinear
    [ mkRawDatum (TNum (37 # 4)) (20 # 1) (Some [97%N]) [];
      mkRawDatum (TNum (3 # 2)) (21 # 1) None [];
      mkRawDatum (TNum (11 # 2)) (22 # 1) None [] ]
    None
    (mkOpts Up (200 # 1) (100 # 1) (20 # 1) (20 # 1) (20 # 1) (20 # 1) (60 # 1)
       (mkPad (2 # 1) (2 # 1) (3 # 1) (2 # 1)) (3 # 1) true false false
       (CConst [35; 50; 50; 50]%N) (CConst [35; 50; 50; 50]%N) (CConst [35; 102; 102; 102]%N)
       (CConst [35; 50; 50; 50]%N) (CConst [35; 48; 48; 48]%N))
    default_eopts (2026, 10, 1)%Z.

Example C07_ex_pipeline_dom : pipeline_dom ex_raw.
Proof.
  unfold pipeline_dom. split.
  - split; [discriminate|]. cbn. split; [|exact I]. repeat constructor; eexists; reflexivity.
  - split.
    + intros d [<-|[<-|[<-|[]]]]; reflexivity.
    + cbn. repeat split; try discriminate; reflexivity.
Qed.

Example C07_ex_pipeline :
  match timeline_docs ex_raw with
  | AOk (sv, tk) =>
      (length (sv_dots sv), length (sv_links sv), length (sv_labels sv), length (tk_dots tk)) = (3, 3, 3, 3)%nat /\
      map (fun c => match sdt_cx c with Some n => Qred (nval n) | None => 0 end) (sv_dots sv)
        = [440 # 3; 80 # 9; 80 # 1] /\
      match sv_ticks sv with
      | Some ts => map stk_text ts = map (fun c => [c]) [49; 50; 51; 52; 53; 54; 55; 56; 57]%N ++ [[49; 48]%N]
      | None => False
      end
  | _ => False
  end.
Proof. vm_compute. repeat split. Qed.

(* ---------- "shows the datum's text verbatim": the serialisation of the SVG text nodes -------
   TimelineSVG sets element.text and ElementTree.tostring writes us-ascii: & < > as named
   entities, every code point above 127 as a decimal character reference (Text/Xml.v, tied to
   the raw bytes of the export by the xml family of this check, API 503).  Reading the
   character data back gives exactly the text, for EVERY list of Unicode code points; the
   decimal references are covered by an exhaustive kernel computation over all 1 114 112 code
   points (the bound is in the statement).  xml_read is the MODEL's reader: a conforming XML
   parser agrees with it on sequences of XML characters without carriage returns (what the tie
   generates and checks with ElementTree's parser); C0 controls, surrogates and U+FFFE/FFFF are
   not XML characters (the document ElementTree writes for them is not well-formed) and a
   carriage return is normalised to a newline by every parser - those texts are outside the
   documented domain, although the serialisation itself (xml_escape) is the code's for ALL
   code points (audit 5 compared all 1 114 112). *)
From Coq Require Import NArith.
From Labella Require Import Text.Xml Text.XmlProofs.

Theorem C07_text_verbatim_xml : forall s,
  Forall (fun c => (c < 1114112)%N) s -> xml_read (xml_escape s) = Some s.
Proof. exact xml_roundtrip. Qed.
Print Assumptions C07_text_verbatim_xml.

Theorem C07_text_xml_injective : forall s t,
  Forall (fun c => (c < 1114112)%N) s -> Forall (fun c => (c < 1114112)%N) t ->
  xml_escape s = xml_escape t -> s = t.
Proof. exact xml_escape_injective. Qed.
Print Assumptions C07_text_xml_injective.

Theorem C07_text_xml_plain : forall s,
  Forall (fun c => (c < 128 /\ c <> AMP /\ c <> LT /\ c <> GT)%N) s -> xml_escape s = s.
Proof. exact xml_escape_plain. Qed.
Print Assumptions C07_text_xml_plain.

Example C07_ex_xml :
  xml_escape [97; 60; 98; 62; 38; 8364; 128512]%N
  = [97; 38;108;116;59; 98; 38;103;116;59; 38;97;109;112;59; 38;35;56;51;54;52;59; 38;35;49;50;56;53;49;50;59]%N /\
  xml_read (xml_escape [97; 60; 98; 62; 38; 8364; 128512]%N) = Some [97; 60; 98; 62; 38; 8364; 128512]%N.
Proof. vm_compute. split; reflexivity. Qed.
