(* Property C20: per-label TeX names are unique; colour conversions agree.
   Statements only; every proof is `exact <lemma>`. *)
From Coq Require Import NArith List Bool.
From Labella Require Import Text.Utils Text.UtilsProofs.
Import ListNotations.
Open Scope N_scope.

(* names: total, letters only, non-empty, injective for ALL indices, and
   enumerated in length-then-alphabetical order *)
Theorem C20_fuel_enough : forall i, int2name_opt i <> None.
Proof. exact int2name_fuel_enough. Qed.
Print Assumptions C20_fuel_enough.

Theorem C20_name_roundtrip : forall i, name2int (int2name i) = i.
Proof. exact name2int_int2name. Qed.
Print Assumptions C20_name_roundtrip.

Theorem C20_names_injective : forall i j, int2name i = int2name j -> i = j.
Proof. exact int2name_injective. Qed.
Print Assumptions C20_names_injective.

Theorem C20_names_letters : forall i,
  forallb is_upper_letter (int2name i) = true /\ int2name i <> [].
Proof. intro i; split; [exact (int2name_letters i)|exact (int2name_nonempty i)]. Qed.
Print Assumptions C20_names_letters.

Theorem C20_names_shortlex : forall i j, i < j ->
  shortlex_lt (int2name i) (int2name j) = true.
Proof. exact int2name_shortlex. Qed.
Print Assumptions C20_names_shortlex.

(* colours: on every valid code (optional '#', 3 or 6 hex digits, any case)
   the triple exists, the SVG string reads back as it, the TeX HTML code is
   six upper-case hex digits denoting it *)
Theorem C20_hex_total : forall code, valid_code code = true ->
  exists t, hex2rgb code = Some t.
Proof. exact hex_total. Qed.
Print Assumptions C20_hex_total.

Theorem C20_hex_agree : forall code t,
  valid_code code = true -> hex2rgb code = Some t ->
  (exists s, hex2rgbstr code = Some s /\ parse_rgbstr s = Some t) /\
  triple_of_html (hex2html code) = Some t.
Proof. exact hex_agree. Qed.
Print Assumptions C20_hex_agree.

Theorem C20_hex3_doubles : forall a b c, a <> 35 ->
  hex2rgb [a; b; c] = hex2rgb [a; a; b; b; c; c].
Proof. intros a b c H. destruct (hex3_doubles a b c) as [E|E]; [exact E|contradiction]. Qed.
Print Assumptions C20_hex3_doubles.

(* non-vacuity: the hypotheses are met by concrete inputs and the functions
   compute what the documentation says *)
Example C20_ex_names :
  int2name 0 = [65] /\ int2name 25 = [90] /\ int2name 26 = [65; 65] /\
  int2name 701 = [90; 90] /\ int2name 702 = [65; 65; 65].
Proof. vm_compute. repeat split. Qed.

Example C20_ex_hex :
  valid_code [35; 102; 70; 48] = true /\
  hex2rgb [35; 102; 70; 48] = Some (255, 255, 0) /\
  hex2html [35; 102; 70; 48] = [70; 70; 70; 70; 48; 48] /\
  valid_code [49; 102; 55; 55; 98; 52] = true /\
  hex2rgb [49; 102; 55; 55; 98; 52] = Some (31, 119, 180).
Proof. vm_compute. repeat split. Qed.
