(* Property C04: layering conserves labels, builds complete stub chains and
   stays within capacity; the engine reports exactly this layering.
   Statements only; every proof is `exact <lemma>`.

   Model: coq/Layout/Distribute.v (faithful to labella/distributor.py and to the
   distribute call of labella/force.py).  `distribute o labels = Some ls`: ls is
   the list of layers, axis first; an item is (label, is_stub); labels are
   indices into `dist_sorted o labels` (the list sorted stably by position, or
   the caller's list for algorithm none); `mk_lab i` / `mk_stub i` are the label
   i and a stub of label i; the parent of an item of layer j is the item of the
   same label in layer j-1.  `dist_dom`: widths > 0, spacing >= 0, stub width
   >= 0, density > 0 (DESIGN.md Appendix B).  `None` is the out-of-fuel value
   of the overlap loops and is excluded by C04_fuel_enough. *)
From Coq Require Import ZArith QArith Qround List Bool Arith Permutation.
From Labella Require Import Layout.Distribute Layout.DistributeBase Layout.DistributeProofs
  Layout.ForceState Layout.ForceStateProofs.
Import ListNotations.
Open Scope nat_scope.

(* overlap_fuel_enough: the fuel of the greedy loops is never exhausted
   (each round keeps >= 2 labels or everything) *)
Theorem C04_fuel_enough : forall o labels,
  dist_dom o labels -> distribute o labels <> None.
Proof. exact distribute_fuel_enough. Qed.
Print Assumptions C04_fuel_enough.

(* every input label is in exactly one layer: the labels of all layers are a
   permutation of the input (as indices and as (position, width) records) *)
Theorem C04_conservation : forall o labels ls,
  dist_dom o labels -> distribute o labels = Some ls ->
  Permutation (labels_of ls) (seq 0 (length labels)) /\
  Permutation (map (fun i => nth i (dist_sorted o labels) label0) (labels_of ls)) labels.
Proof. exact distribute_conservation. Qed.
Print Assumptions C04_conservation.

(* layer numbers are contiguous from the axis: overlap and none never return a
   layer without a label; simple returns its estimated number of layers, of
   which exactly layers 0 .. min(n, L)-1 hold labels and the later ones are
   empty (they hold no items at all) *)
Theorem C04_contiguous : forall o labels ls,
  dist_dom o labels -> distribute o labels = Some ls ->
  (o_alg o <> AlgSimple -> Forall (fun l => nonstubs l <> []) ls) /\
  (o_alg o = AlgSimple -> forall j, j < length ls ->
     (nonstubs (nth j ls []) <> [] <-> j < length labels) /\
     (nth j ls [] <> [] <-> j < length labels)).
Proof. exact distribute_contiguous. Qed.
Print Assumptions C04_contiguous.

(* a label of layer k occurs once, in layer k only; it has exactly one stub in
   every layer j < k and none elsewhere (the chain k-1, ..., 0); every stub
   belongs to a label of a farther layer; every item belongs to an input label;
   the total number of items is sum_k (k+1) * |labels of layer k|, so nothing
   else exists.  A stub carries its label's position and the stub width. *)
Theorem C04_chains : forall o labels ls,
  dist_dom o labels -> distribute o labels = Some ls ->
  (forall k i, In (mk_lab i) (nth k ls []) ->
     i < length labels /\
     (forall j, cnt (nth j ls []) (mk_lab i) = if j =? k then 1 else 0) /\
     (forall j, cnt (nth j ls []) (mk_stub i) = if j <? k then 1 else 0)) /\
  (forall j i, In (mk_stub i) (nth j ls []) ->
     exists k, j < k /\ In (mk_lab i) (nth k ls [])) /\
  (forall j it, In it (nth j ls []) -> fst it < length labels) /\
  length (concat ls) = weighted 0 ls.
Proof. exact distribute_chains. Qed.
Print Assumptions C04_chains.

Theorem C04_stub_carries : forall o srt i,
  item_pos srt (mk_stub i) = item_pos srt (mk_lab i) /\
  item_width o srt (mk_stub i) = o_stub o /\
  item_width o srt (mk_lab i) = l_width (nth i srt label0).
Proof. intros; repeat split. Qed.
Print Assumptions C04_stub_carries.

(* no layer width (None or 0), or algorithm none, or the required width within
   density * layerWidth  =>  one layer holding all labels, no stubs *)
Theorem C04_single : forall o labels,
  labels <> [] ->
  o_alg o = AlgNone \/ o_layerWidth o = None \/
  (exists lw, o_layerWidth o = Some lw /\
     ((lw == 0)%Q \/
      ((0 < lw)%Q /\ dist_dom o labels /\
       (required_width (o_spacing o) (map l_width labels) <= o_density o * lw)%Q))) ->
  distribute o labels = Some [all_labels (length labels)].
Proof. exact distribute_single_opts. Qed.
Print Assumptions C04_single.

(* overlap: three or more labels that do not fit are split *)
Theorem C04_splits : forall o labels lw,
  dist_dom o labels -> o_alg o = AlgOverlap -> o_layerWidth o = Some lw -> (0 < lw)%Q ->
  3 <= length labels ->
  (o_density o * lw < required_width (o_spacing o) (map l_width labels))%Q ->
  exists ls, distribute o labels = Some ls /\ 2 <= length ls.
Proof. exact distribute_splits_opts. Qed.
Print Assumptions C04_splits.

(* overlap: every layer's labels, stubs and spacing are within the budget
   unless the layer holds at most two labels *)
Theorem C04_capacity : forall o labels lw ls,
  dist_dom o labels -> o_alg o = AlgOverlap -> o_layerWidth o = Some lw -> (0 < lw)%Q ->
  distribute o labels = Some ls ->
  forall l, In l ls ->
    length (nonstubs l) <= 2 \/
    (layer_required_width o (dist_sorted o labels) l <= o_density o * lw)%Q.
Proof. exact distribute_capacity_opts. Qed.
Print Assumptions C04_capacity.

(* the engine stores the distributor's result: the layering getLayers()
   reports after compute() is `distribute` under the options set_options
   derives (layerWidth = maxPos - minPos when both are given, else None).
   (removeOverlap afterwards re-sorts each reported list in place, stably by
   target position; the tie checks exactly that.) *)
Theorem C04_reported : forall f labels,
  force_layers f labels = distribute (dopts_of_fopts f) labels /\
  o_alg (dopts_of_fopts f) = f_alg f /\ o_density (dopts_of_fopts f) = f_density f /\
  o_spacing (dopts_of_fopts f) = f_spacing f /\ o_stub (dopts_of_fopts f) = f_stub f /\
  o_layerWidth (dopts_of_fopts f) =
    match f_minPos f, f_maxPos f with Some a, Some b => Some (b - a)%Q | _, _ => None end.
Proof. exact force_layers_reported. Qed.
Print Assumptions C04_reported.

(* ... and on the engine state machine (coq/Layout/ForceState.v: any state st an
   arbitrary history of nodes()/set_options()/compute() calls leaves behind,
   node objects with stale fields, any per-layer solver): after compute(),
   getLayers() reports one list per layer of `distribute`, holding exactly that
   layer's labels and stubs (named by the identity of their label); only the
   order inside a list differs (removeOverlap's in-place sort by target). *)
Theorem C04_reported_engine : forall (solve : lopts -> list litem -> list Z) st,
  engine_dom (st_opts st) (st_nodes st) ->
  exists ls rep,
    distribute (dopts_of_eopts (st_opts st)) (map label_of (st_nodes st)) = Some ls /\
    st_layers (force_compute solve st) = Some rep /\
    Forall2 (fun r l => Permutation (map rshape r)
                          (map (ishape (ord_of (e_alg (st_opts st)) (st_nodes st))) l)) rep ls.
Proof. exact force_reports_distribution. Qed.
Print Assumptions C04_reported_engine.

(* non-vacuity: a concrete input in the domain; seven labels, budget 50 *)
Definition ex_labels : list label :=
  [mkLabel 40 20; mkLabel 0 20; mkLabel 10 (41#2); mkLabel 30 20; mkLabel 20 20;
   mkLabel 50 20; mkLabel 50 5].
Definition ex_overlap : dopts := mkDopts AlgOverlap (Some 100%Q) (1#2) 3 1.
Definition ex_simple : dopts := mkDopts AlgSimple (Some 100%Q) (1#2) 3 1.

Example C04_ex_domain : dist_dom ex_overlap ex_labels /\ dist_dom ex_simple ex_labels.
Proof. split; apply dist_dom_b_sound; vm_compute; reflexivity. Qed.

Example C04_ex_overlap :
  distribute ex_overlap ex_labels =
  Some [[(2, false); (0, false); (4, true); (3, true); (5, true); (6, true); (1, true)];
        [(6, false); (1, false); (4, true); (3, true); (5, true)];
        [(3, false); (5, false); (4, true)];
        [(4, false)]] /\
  dist_perm ex_overlap ex_labels = [1; 2; 4; 3; 0; 5; 6] /\
  (o_density ex_overlap * 100 < required_width (o_spacing ex_overlap) (map l_width ex_labels))%Q.
Proof. vm_compute. repeat split. Qed.

Example C04_ex_simple :
  distribute ex_simple ex_labels =
  Some [[(0, false); (1, true); (2, true); (3, false); (4, true); (5, true); (6, false)];
        [(1, false); (2, true); (4, false); (5, true)];
        [(2, false); (5, false)]] /\
  distribute (mkDopts AlgSimple (Some 10%Q) (1#2) 3 1) [mkLabel 0 20; mkLabel 1 20] =
  Some [[(0, false); (1, true)]; [(1, false)]; []; []; []; []; []; []; []].
Proof. vm_compute. repeat split. Qed.

Example C04_ex_single :
  distribute (mkDopts AlgOverlap None (1#2) 3 1) ex_labels = Some [all_labels 7] /\
  distribute (mkDopts AlgNone (Some 100%Q) (1#2) 3 1) ex_labels = Some [all_labels 7] /\
  distribute (mkDopts AlgOverlap (Some 400%Q) (1#2) 3 1) ex_labels = Some [all_labels 7].
Proof. vm_compute. repeat split. Qed.

(* the engine on node objects that carry stale fields from an earlier layout
   (currentPos 7, layerIndex 3, a parent link, overlapCount 5), identities
   100..106, with a stand-in solver *)
Definition ex_nodes : list nodeobj :=
  map (fun p => mkNode (fst p) (l_pos (snd p)) (l_width (snd p)) false 7 3 (Some 9%Q) 5)
      (combine (seq 100 7) ex_labels).
Definition ex_state : fstate :=
  mkState ex_nodes (mkEopts AlgOverlap (Some 0%Q) (Some 100%Q) (1#2) 3 1 None) None.
Definition ex_solve (lo : lopts) (items : list litem) : list Z :=
  map (fun it => Qfloor (li_target it)) items.

Example C04_ex_engine :
  engine_dom (st_opts ex_state) (st_nodes ex_state) /\
  option_map (map (map rshape)) (st_layers (force_compute ex_solve ex_state)) =
  Some [[(101, false); (102, true); (104, false); (103, true); (100, true); (105, true); (106, true)];
        [(102, false); (103, true); (100, true); (106, false); (105, true)];
        [(103, false); (100, true); (105, false)];
        [(100, false)]].
Proof. split; [apply dist_dom_b_sound; vm_compute; reflexivity|vm_compute; reflexivity]. Qed.
