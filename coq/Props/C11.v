(* Property C11: export succeeds on every documented input.  Statements only.

   `axis` (Render/Axis.v) is the axis pipeline of labella/timeline.py - parse_items,
   equal_heights' max(), init_axis (explicit domain, or d3_extent + scale.nice(),
   then range([0, inner length])), timePos of every datum, scale.ticks() and their
   positions - in an error monad with an explicit failure at every Python operation
   that can raise on that path:
     ARaise EEmptyData  max() of an empty sequence (empty data)
     ARaise EType       a time or explicit domain end of the wrong type for the scale
     ARaise EDateRange  datetime arithmetic of nice()/ticks() leaving years 1..9999
     AFuel              a fuelled loop of the model ran dry (model artefact)
   Scales: LinearScale = Scale/{Linear,Ticks,Nice}.v, TimeScale = Time/{TimeScale,
   TimeTicks,TimeNice}.v; doubles are exact rationals.

   WHAT THE COQ MODEL DOES NOT CARRY (covered by the tie of harness/props/c11.py only):
     - the interpreter's frame accounting: CPython spends four frames per level of
       the solver's recursive traversals against the default limit of 1000 (measured
       by the tie); conflict clusters above 200 items are the OPEN KNOWN FINDING the
       property itself records (corpus/C11/recursion_260.json).  The LOGICAL half is
       proved below (the C11_depth theorems): in every solver state the recursion depth of each
       traversal is at most the size of the BLOCK it starts in, whatever the number
       of labels, layers and blocks; a layer of k items gives at most k + 2 variables;
     - (the dict-key handling of omitted / empty / partial options IS modelled since:
       Render/Options.v, theorems C11_options_* below);
     - the emitters' string formatting (SVG / TikZ text, uni2tex: properties C07,
       C09, C19) -- tick texts are modelled since (C07_ticktext, Time/TickFormat.v) and tied by this check;
     - DESIGN.md's C11_refuted_cur (the four pre-repair witnesses of Appendix A.5)
       is history: the repairs are in /repo and recorded in known_findings.json.
   Instants have millisecond resolution and lie in years 1900..2200 (Appendix B);
   time-nice totality is proved for exactly that range and every count m >= 1
   (Time/NiceTotalProofs.v: any window 1003*(366 d + 1 ms) away from datetime.min /
   max and domains shorter than 1000*365 days). *)
From Coq Require Import ZArith QArith List Bool.
From Labella Require Import Render.Geometry Render.Scene Time.Calendar Time.IntervalSpec
  Time.TimeNice Time.NiceTotalProofs Render.Axis Render.AxisProofs.
Import ListNotations.
Open Scope Q_scope.

(* for every input of the documented domain the pipeline returns a value: it never
   raises and never runs out of fuel (uses tnice_total and C16's tt_total) *)
Theorem C11_total : forall i, doc_domain i -> exists o, axis i = AOk o.
Proof. exact axis_total. Qed.
Print Assumptions C11_total.

(* time-nice totality, the ingredient proved for this property: both ends in years
   1900..2200, any count m >= 1 *)
Theorem C11_tnice_total : forall d0 d1 m,
  valid d0 -> valid d1 -> ms_resolution d0 -> ms_resolution d1 ->
  (1900 <= dt_y d0 <= 2200)%Z -> (1900 <= dt_y d1 <= 2200)%Z -> (0 < m)%Z ->
  exists n0 n1, ts_nice d0 d1 m = Ok (n0, n1) /\
    valid n0 /\ valid n1 /\ ms_resolution n0 /\ ms_resolution n1 /\
    (2 <= dt_y n0 <= 9997)%Z /\ (2 <= dt_y n1 <= 9997)%Z.
Proof. exact tnice_total_years. Qed.
Print Assumptions C11_tnice_total.

(* a degenerate domain (a single datum, or all times equal; no explicit domain) puts
   every dot at coordinate 0, the start of the axis, for both scale kinds *)
Theorem C11_degenerate : forall i o,
  axis i = AOk o -> ai_domain i = None -> all_times_equal i ->
  Forall (fun p => p == 0) (ax_dots o) /\ coord (ax_d0 o) == coord (ax_d1 o).
Proof. exact axis_degenerate. Qed.
Print Assumptions C11_degenerate.

(* one dot per datum, in datum order, at the scale position of its (parsed) time;
   one position per tick *)
Theorem C11_counts : forall i o, axis i = AOk o ->
  Forall2 (fun v p => p = ax_pos o (coord (parse (ai_today i) v))) (ai_data i) (ax_dots o) /\
  ax_ticks o = map (fun p => ax_pos o (coord p)) (ax_tick_at o).
Proof. exact axis_counts. Qed.
Print Assumptions C11_counts.

(* ---------- non-vacuity and the failures that ARE modelled ------------------------------ *)
Definition ex_opts (d : direction) (tk : bool) : opts :=
  mkOpts d 400 400 20 20 20 20 60 (mkPad 2 2 3 2) 3 tk false false
         (CConst []) (CConst []) (CConst []) (CConst []) (CConst []).

(* 2020-01-31 (a date), 2020-03-01T12:00 and a bare 08:30 completed with today = 2020-02-29 *)
Definition ex_time : axis_in :=
  mk_axis_in STime [TDate 2020 1 31; TDateTime (mkdt 2020 3 1 12 0 0 0); TClock 8 30 0 0]
             None (ex_opts Up true) (2020, 2, 29)%Z.

Example C11_ex_time :
  doc_domain ex_time /\
  exists o, axis ex_time = AOk o /\
    ax_d0 o = PInst (mkdt 2020 1 31 0 0 0 0) /\ ax_d1 o = PInst (mkdt 2020 3 3 0 0 0 0) /\
    ax_len o == 360 /\ length (ax_dots o) = 3%nat /\ length (ax_ticks o) = 18%nat.
Proof.
  split.
  - split; [discriminate|]. cbn. split; [|exact I].
    repeat constructor; eexists; (split; [reflexivity|]);
      (repeat split; try reflexivity; vm_compute; discriminate).
  - eexists. split; [vm_compute; reflexivity|]. vm_compute. repeat split.
Qed.

Definition ex_lin : axis_in :=
  mk_axis_in SLinear [TNum (3 # 10); TNum (97 # 10); TNum 5] None (ex_opts Left false) (2020, 2, 29)%Z.

Example C11_ex_linear :
  doc_domain ex_lin /\
  exists o, axis ex_lin = AOk o /\ ax_d0 o = PNum 0 /\ ax_d1 o = PNum 10 /\
    map Qred (ax_dots o) = [54 # 5; 1746 # 5; 180] /\ ax_ticks o = [].
Proof.
  split.
  - split; [discriminate|]. cbn. split; [|exact I]. repeat constructor; eexists; reflexivity.
  - eexists. split; [vm_compute; reflexivity|]. vm_compute. repeat split.
Qed.

Example C11_ex_degenerate :
  exists o, axis (mk_axis_in STime [TDateTime (mkdt 2021 3 14 2 30 15 500000)] None (ex_opts Right true) (2021, 1, 1)%Z)
            = AOk o /\ map Qred (ax_dots o) = [0] /\ map Qred (ax_ticks o) = [0].
Proof. eexists. split; [vm_compute; reflexivity|]. vm_compute. split; reflexivity. Qed.

Example C11_ex_raise :
  axis (mk_axis_in STime [] None (ex_opts Up true) (2020, 1, 1)%Z) = ARaise EEmptyData /\
  axis (mk_axis_in STime [TNum 5] None (ex_opts Up true) (2020, 1, 1)%Z) = ARaise EType /\
  axis (mk_axis_in SLinear [TDate 2020 1 1] None (ex_opts Up true) (2020, 1, 1)%Z) = ARaise EType /\
  axis (mk_axis_in STime [TDateTime (mkdt 2020 1 1 0 0 0 0)] (Some (TDate 2020 1 1, TDate 2020 2 1))
                   (ex_opts Up true) (2020, 1, 1)%Z) = ARaise EType /\
  axis (mk_axis_in STime [TDateTime (mkdt 1 1 2 0 0 0 0); TDateTime (mkdt 9999 12 30 0 0 0 0)] None
                   (ex_opts Up true) (2020, 1, 1)%Z) = ARaise EDateRange.
Proof. vm_compute. repeat split. Qed.

(* ---------- recursion depth of the layout engine's solver (the recursion-limit clause) ----
   Fuel = recursion depth: every recursive call of Block.compute_lm / populateSplitBlock /
   findPath / isActiveDirectedPathBetween (vpsc.py) is one `S f` of the model's traversals.
   Inv is the invariant of every state solve() goes through (C05_invariants_at_exit and the
   preservation theorems of Props/C05.v).  blk_size st v = number of variables of v's block. *)
From Labella Require Import Vpsc.Vpsc Vpsc.InvProofs Vpsc.Tree Vpsc.General Vpsc.FuelProofs Vpsc.DepthProofs
  Vpsc.ChainPava.
From Labella Require Layout.Layer.
Close Scope Q_scope.

(* the active constraints reachable from v are explored within |block of v| levels, and they
   span exactly that block *)
Theorem C11_depth_le_block : forall vars cons pend st v,
  Inv vars cons pend st -> (v < length vars)%nat ->
  exists E, reach cons (blk_size st v) st v None = Ok E /\ NoDup (v :: verts E) /\
            Permutation.Permutation (v :: verts E) (bvars st (o_blk (vst_ st v))).
Proof. exact reach_depth_le_block. Qed.
Print Assumptions C11_depth_le_block.

(* Block.compute_lm with any visitor that only writes multipliers (findMinLM, Blocks.split,
   findMinLMBetween) *)
Theorem C11_depth_compute_lm : forall vars cons (M : Type) (post : nat -> state -> M -> state * M),
  (forall c s mm, lm_eq s (fst (post c s mm))) ->
  forall pend st v mm, Inv vars cons pend st -> (v < length vars)%nat ->
  exists r, compute_lm vars cons post (blk_size st v) v None (st, mm) = Ok r.
Proof. intros vars cons M post H. exact (compute_lm_depth_le_block vars cons post H). Qed.
Print Assumptions C11_depth_compute_lm.

Theorem C11_depth_find_path : forall vars cons pend st v to mm,
  Inv vars cons pend st -> (v < length vars)%nat ->
  exists r, find_path cons (blk_size st v) v None to (st, mm) = Ok r.
Proof. exact find_path_depth_le_block. Qed.
Print Assumptions C11_depth_find_path.

(* (is_adp tests u = v before it spends fuel, so `blk_size` levels of fuel allow blk_size + 1
   nested activations of isActiveDirectedPathBetween: the tie allows exactly that one more) *)
Theorem C11_depth_directed_path : forall vars cons pend st v to,
  Inv vars cons pend st -> (v < length vars)%nat ->
  exists b, is_adp cons (blk_size st v) st v to = Ok b.
Proof. exact is_adp_depth_le_block. Qed.
Print Assumptions C11_depth_directed_path.

(* Block.split: both halves are populated within the size of the block being split (their own
   sizes add up to it) *)
Theorem C11_depth_populate : forall vars cons pend st c,
  Inv vars cons pend st -> idx_ok vars cons -> (c < length cons)%nat -> k_act (cst_ st c) = true ->
  let u := c_l (con_ cons c) in let w := c_r (con_ cons c) in
  let st0 := set_active st c false in
  exists E1 E2,
    reach cons (S (length E1)) st0 u None = Ok E1 /\
    reach cons (S (length E2)) st0 w None = Ok E2 /\
    (S (length E1) + S (length E2) = blk_size st u)%nat /\
    (forall bid s, act_eq s st0 -> exists s', populate vars cons (blk_size st u) bid u None s = Ok s') /\
    (forall bid s, act_eq s st0 -> exists s', populate vars cons (blk_size st u) bid w None s = Ok s').
Proof. exact populate_depth_le_block. Qed.
Print Assumptions C11_depth_populate.

(* a block holds at most all variables; the solver instance of a layer of k items has at most
   k + 2 variables (the items and the walls that exist: removeOverlap.py:47-73) *)
Theorem C11_depth_le_vars : forall vars cons pend st v,
  Inv vars cons pend st -> (v < length vars)%nat -> (blk_size st v <= length vars)%nat.
Proof. exact blk_size_le_n. Qed.
Print Assumptions C11_depth_le_vars.

Theorem C11_layer_vars : forall o s,
  (length (chain_vars (Layer.chain_d o s) (Layer.chain_w o s)) <= length s + 2)%nat.
Proof.
  intros o s. rewrite chain_vars_length.
  - unfold Layer.chain_d. rewrite !app_length, map_length.
    destruct (Layer.minP o), (Layer.maxP o); simpl; Lia.lia.
  - unfold Layer.chain_d, Layer.chain_w. rewrite !app_length, !map_length.
    destruct (Layer.minP o), (Layer.maxP o); reflexivity.
Qed.
Print Assumptions C11_layer_vars.

(* ---------- the option dictionaries (options omitted entirely / empty / partial) -------------
   Render/Options.v models Timeline.__init__'s merge (timeline.py:141-160) and every subscript
   the axis set-up, the renderers and the engine perform on the merged dict; KeyError and
   TypeError are explicit results.  Tied to the code by API 720/721 (harness/props/c11opts.py). *)
From Coq Require Import String.
From Labella Require Import Layout.ForceState Render.Options Render.OptionsProofs.
Open Scope string_scope.

(* options=None is options={} *)
Theorem C11_options_none : forall fresh, tl_merge fresh None = tl_merge fresh (Some []).
Proof. exact tl_merge_none. Qed.
Print Assumptions C11_options_none.

(* what the merge produces, for EVERY user dict (any keys, documented or not, any values):
   the user's value where given and the default otherwise; the caller's scale object or a
   fresh TimeScale of the timeline's own; latex merged key by key; labella a COPY of the
   caller's engine options with the direction written in *)
Theorem C11_options_merge : forall fresh u, user_wf u -> exists d, tl_merge fresh (Some u) = OOk d /\ merged_spec fresh u d.
Proof. exact tl_merge_spec. Qed.
Print Assumptions C11_options_merge.

(* hence no documented key is ever missing afterwards, whatever the user omitted *)
Theorem C11_options_all_keys : forall fresh u d, merged_spec fresh u d ->
  (forall k, In k top_keys -> dget d k <> None) /\
  (exists lm, dget d K_latex = Some (VDict lm) /\ forall j, In j latex_keys -> dget lm j <> None) /\
  (exists l, dget d K_labella = Some (VDict l) /\ dget l E_direction = Some (user_direction u)).
Proof. exact merged_has_all_keys. Qed.
Print Assumptions C11_options_all_keys.

(* and every subscript performed on the merged options succeeds when the values that ARE
   given have the documented kinds (user_ok): no KeyError, no TypeError *)
Theorem C11_options_total : forall fresh u, user_ok u -> exists r, resolve fresh (Some u) = OOk r.
Proof. exact resolve_total. Qed.
Print Assumptions C11_options_total.

Theorem C11_options_omitted_total : forall fresh, exists r, resolve fresh None = OOk r.
Proof. exact resolve_none_total. Qed.
Print Assumptions C11_options_omitted_total.

(* WHICH scale object the timeline points to: the caller's object (by identity), else the
   TimeScale this constructor call created (`fresh`); hence never the module-level default
   object (identity 0) - the defect repaired by ada857e - unless the caller passes that object *)
Theorem C11_options_scale_identity : forall fresh u r, user_wf u -> resolve fresh (Some u) = OOk r ->
  r_scale_id r = match dget u K_scale with Some (VScale _ i) => i | _ => fresh end.
Proof. exact resolve_scale_identity. Qed.
Print Assumptions C11_options_scale_identity.

(* non-vacuity: a partial dict (direction, a partial latex dict, an engine dict with one key, a
   LinearScale, an undocumented key) meets user_ok and resolves to the expected values; a
   partial margin dict raises KeyError, a non-dict latex value TypeError *)
Definition ex_user : dict :=
  [ (K_direction, VStr (s2n "up")); (K_latex, VDict [(L_tickCross, VBool true)]);
    (K_labella, VDict [(E_maxPos, VNum 340)]); (K_scale, VScale true 7); (123%N, VNum 5);
    (K_dotColor, VStrs [s2n "#111"; s2n "#abc"]) ].

Example C11_ex_options :
  user_ok ex_user /\
  exists r, resolve 9 (Some ex_user) = OOk r /\
    o_dir (r_opts r) = Up /\ o_cross (r_opts r) = true /\ o_ticks (r_opts r) = true /\
    Qeq_bool (o_iw (r_opts r)) 400 = true /\ Qeq_bool (o_ml (r_opts r)) 20 = true /\
    e_maxPos (r_engine r) = Some 340%Q /\ e_minPos (r_engine r) = Some 0%Q /\
    r_linear r = true /\ r_own_scale r = false /\ r_scale_id r = 7%N.
Proof.
  split.
  - assert (W : user_wf ex_user).
    { repeat split; cbn; repeat constructor; cbn; intuition discriminate. }
    constructor; try exact W.
    all: try (unfold given; cbn; exact I).
    all: try (unfold given; cbn; eexists; vm_compute; reflexivity).
    all: try (unfold given; cbn; eexists; eexists; reflexivity).
    intros k Hk. unfold given. cbn in Hk.
    repeat (destruct Hk as [<-|Hk]; [cbn; exact I|]). contradiction.
  - eexists. split; [vm_compute; reflexivity|]. vm_compute. repeat split.
Qed.

Example C11_ex_options_raise :
  resolve 9 (Some [(K_margin, VDict [(K_left, VNum 10)])]) = ORaise OKeyError /\
  resolve 9 (Some [(K_latex, VNum 5)]) = ORaise OTypeError /\
  resolve 9 (Some [(K_direction, VStr (s2n "north"))]) = ORaise OTypeError /\
  resolve 9 (Some [(K_dotColor, VStr (s2n "zzz"))]) = ORaise OTypeError /\
  (exists r, resolve 9 (Some [(K_borderColor, VStr (s2n "zzz"))]) = OOk r) /\        (* not read: showBorder is off *)
  resolve 9 (Some [(K_borderColor, VStr (s2n "zzz")); (K_showBorder, VBool true)]) = ORaise OTypeError.
Proof. vm_compute. repeat split. eexists. reflexivity. Qed.

(* ---------- the whole export from the caller's raw arguments ------------------------------
   export_docs (Render/PipelineOptions.v) = resolve (option dictionaries) ; timeline_docs
   (axis ; engine ; both emitters).  For options None / {} / any documented subset and data
   in the documented domain of the scale the options select, both documents are produced. *)
From Labella Require Import Render.Pipeline Render.PipelineProofs Render.PipelineOptions.
Theorem C11_export_total : forall fresh user data dom today,
  (match user with Some u => user_ok u | None => True end) ->
  (forall r, raw_of_user fresh user data dom today = OOk r -> pipeline_dom r) ->
  exists r s, raw_of_user fresh user data dom today = OOk r /\
              export_docs fresh user data dom today = OOk (AOk (svg_doc_of s, tikz_doc_of s)).
Proof. exact export_total. Qed.
Print Assumptions C11_export_total.

(* the direction written into the copy of the engine-option dict does not reach the engine *)
Theorem C11_options_engine_ignores_direction : forall l dir,
  engine_update (dset l E_direction dir) = engine_update l.
Proof. exact engine_update_ignores_direction. Qed.
Print Assumptions C11_options_engine_ignores_direction.
