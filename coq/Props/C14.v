(* Property C14: nice() only widens a domain, by less than two tick steps, to
   round end points.  Statements only; every proof is `exact <lemma>`.

   ===================== linear scale part (Scale package) ===================
   All theorems: for ALL rational domains (a, b), a <> b, either order, and ALL
   counts m >= 1, on the exact model coq/Scale/Nice.v of d3_scale_linearNice
   (two passes of floor/ceil to the tick step of the CURRENT domain).
   step1, step2 = the steps used by pass one and two; step_result = the tick
   step of the resulting domain. *)
From Coq Require Import ZArith QArith Qabs List.
From Labella Require Import Scale.Ticks Scale.Nice Scale.TickStepProofs Scale.NiceProofs Scale.NiceRoundProofs.
Open Scope Q_scope.

(* never inward *)
Theorem C14_nice_outward : forall m, (0 < m)%Z -> forall a b,
  (a < b -> fst (nice m (a, b)) <= a /\ b <= snd (nice m (a, b))) /\
  (b < a -> a <= fst (nice m (a, b)) /\ snd (nice m (a, b)) <= b).
Proof. exact nice_outward. Qed.
Print Assumptions C14_nice_outward.

(* the orientation is never reversed (nor collapsed) *)
Theorem C14_nice_orientation : forall m, (0 < m)%Z -> forall a b,
  (a < b -> fst (nice m (a, b)) < snd (nice m (a, b))) /\
  (b < a -> snd (nice m (a, b)) < fst (nice m (a, b))).
Proof. exact nice_orientation. Qed.
Print Assumptions C14_nice_orientation.

(* the tick step is monotone in the span *)
Theorem C14_step_monotone : forall S S' m, 0 < S -> S <= S' -> (0 < m)%Z ->
  tick_step S m <= tick_step S' m.
Proof. exact step_monotone. Qed.
Print Assumptions C14_step_monotone.

(* pass one moves an end by less than step1, pass two by less than step2, and
   step1 <= step2 <= the step of the result: less than two steps in all *)
Theorem C14_nice_lt_two_steps : forall m, (0 < m)%Z -> forall a b, ~ a == b ->
  let d := (a, b) in let r := nice m d in
  0 < step1 m d /\ step1 m d <= step2 m d /\ step2 m d <= step_result m d /\
  Qabs (fst r - a) < step1 m d + step2 m d /\ Qabs (snd r - b) < step1 m d + step2 m d /\
  Qabs (fst r - a) < 2 * step_result m d /\ Qabs (snd r - b) < 2 * step_result m d.
Proof. exact nice_lt_two_steps. Qed.
Print Assumptions C14_nice_lt_two_steps.

(* round end points: both ends are multiples of step2, the tick step of the
   resulting domain is 1, 2, 5/2, 5 or 10 times step2 (ratio_ok; in particular
   never 4 times), hence both ends are multiples of one tenth of the tick step
   of the resulting domain *)
Theorem C14_nice_round : forall m, (0 < m)%Z -> forall a b, ~ a == b ->
  let d := (a, b) in let r := nice m d in
  is_multiple (step2 m d) (fst r) /\ is_multiple (step2 m d) (snd r) /\
  ratio_ok (step_result m d) (step2 m d) /\
  is_multiple (step_result m d / 10) (fst r) /\ is_multiple (step_result m d / 10) (snd r).
Proof. exact nice_round. Qed.
Print Assumptions C14_nice_round.

(* reversed domains are handled by the index swap: nice commutes with
   swapping the two ends *)
Theorem C14_nice_swap : forall m, (0 < m)%Z -> forall a b, b < a ->
  nice m (a, b) = (snd (nice m (b, a)), fst (nice m (b, a))) /\
  step2 m (a, b) = step2 m (b, a) /\ step_result m (a, b) = step_result m (b, a).
Proof. exact nice_swap. Qed.
Print Assumptions C14_nice_swap.

(* non-vacuity: the hypotheses are met and nice() does move the ends *)
Example C14_ex_nice :
  nice 10 (3#10, 97#10) = (0, 10) /\ nice 10 (97#10, 3#10) = (10, 0) /\
  nice 10 (-135#1000, 129#1000) = (-(7#50), 7#50) /\
  nice 14 (1222, 8536#10) = (1250, 800) /\
  (step1 14 (1222, 8536#10), step2 14 (1222, 8536#10), step_result 14 (1222, 8536#10)) = (20, 50, 50) /\
  nice 1 (19#10, 41#10) = (0, 10).
Proof. vm_compute. repeat split. Qed.

(* ===================== time scale part (built by the time package) ========= *)
(* Property C14, TIME part (TimeScale.nice); the linear part belongs to the
   scale package.  Statements only; merged into Props/C14.v (Module TimePart).

   `ts_nice d0 d1 m` is the model of TimeScale().domain([d0, d1]).nice(m).domain()
   (m = 10 when omitted) in Time/TimeNice.v; `aligned meth x` (TimeNiceProofs.v)
   says: for a calendar method (unit u, skip k) x is a boundary of u (independent
   predicate of C17) whose unit number is divisible by k when k > 1; for the
   millisecond method x is a whole millisecond divisible by the integer step.
   Domains have millisecond resolution (the property's quantifier).

   PROVED for all domains and counts: tnice_outward, tnice_orientation,
   tnice_aligned, tnice_skip_fuel, and (Time/NiceBoundProofs.v) tnice_lt_two_ticks
   for EVERY row of the method table (fixed-length units, two-day ticks, months,
   quarters, k-year steps, both fall-backs): there is a g > 0 with every gap of
   the ORIGINAL domain's ticks in [g, 2 g] and each end moving outward by less
   than 2 g - less than two tick steps even counted in the smallest step.
   (nice_floor returns the greatest point of the row's tick set below the end,
   nice_ceil the least one above it; every window of length gmax <= 2 g holds
   a point of the tick set.)
   Totality (no Raise in years 2..9997 minus the skip reach) is not stated here;
   Raise only arises when an end would leave years 1..9999. *)
From Coq Require ZArith QArith List Bool.
From Labella Require Time.Calendar Time.Interval Time.IntervalSpec Time.TimeScale Time.TimeTicks Time.TimeNice Time.TimeNiceProofs Time.TickCountProofs Time.NiceBoundProofs.
Module TimePart.
Import ZArith QArith List Bool.
Import Time.Calendar Time.Interval Time.IntervalSpec Time.TimeScale Time.TimeTicks Time.TimeNice Time.TimeNiceProofs Time.TickCountProofs Time.NiceBoundProofs.
Import ListNotations Sorted.
Open Scope Z_scope.
(* tnice_outward + tnice_aligned: the smaller end only moves down, the larger end
   only moves up, each stays in its own position of the pair, both are aligned *)
Theorem C14T_tnice_outward_aligned : forall d0 d1 m n0 n1,
  valid d0 -> valid d1 -> ms_resolution d0 -> ms_resolution d1 ->
  ts_nice d0 d1 m = Ok (n0, n1) ->
  exists meth, tick_method_of (to_ms (dom_lo d0 d1)) (to_ms (dom_hi d0 d1)) m = Ok meth /\
    valid n0 /\ valid n1 /\ aligned meth n0 /\ aligned meth n1 /\
    (if to_us d1 <? to_us d0
     then to_us n1 <= to_us d1 /\ to_us d0 <= to_us n0
     else to_us n0 <= to_us d0 /\ to_us d1 <= to_us n1).
Proof. exact ts_nice_spec. Qed.
Print Assumptions C14T_tnice_outward_aligned.

(* tnice_orientation *)
Theorem C14T_tnice_orientation : forall d0 d1 m n0 n1,
  valid d0 -> valid d1 -> ms_resolution d0 -> ms_resolution d1 ->
  ts_nice d0 d1 m = Ok (n0, n1) ->
  (to_us d0 < to_us d1 -> to_us n0 < to_us n1) /\
  (to_us d1 < to_us d0 -> to_us n1 < to_us n0) /\
  (to_us d0 = to_us d1 -> to_us n0 <= to_us n1).
Proof. exact ts_nice_orientation. Qed.
Print Assumptions C14T_tnice_orientation.

(* tnice_skip_fuel: the step-back / step-forward loops of scale.py:173-186 end
   within `skip` rounds for every method the table can produce (fuel = skip + 1
   never runs out).  This is also a termination argument for the code's
   `while skipped(...)` loops. *)
Theorem C14T_tnice_skip_fuel : forall d0 d1 m,
  valid d0 -> valid d1 -> ms_resolution d0 -> ms_resolution d1 ->
  ts_nice d0 d1 m <> NoFuel.
Proof. exact ts_nice_fuel_enough. Qed.
Print Assumptions C14T_tnice_skip_fuel.

(* the ingredient of the fuel bound: along consecutive boundaries the unit number
   grows by one or wraps to 0 (all units but the week, which the table only uses
   with skip 1) *)
Theorem C14T_number_succ : forall u x x', u <> UWeek -> valid x -> valid x' ->
  is_boundary u (to_us x) -> next_boundary (is_boundary u) (to_us x) (to_us x') ->
  iv_number (interval_of u) x' = iv_number (interval_of u) x + 1 \/
  iv_number (interval_of u) x' = 0.
Proof. exact number_succ. Qed.
Print Assumptions C14T_number_succ.

(* tnice_row_bounds: the statement without an existential.  (gmin, gmax) :=
   meth_bounds meth are the separation and density of the row of the method
   table that tickMethod picks for the ORIGINAL domain (Time/TickRows.v):
   gmax <= 2 gmin; every gap of the original domain's ticks lies in [gmin, gmax];
   each end moves outward by less than gmax; and the ticks of the NICED domain
   under the same method contain both new ends (at least two ticks unless the
   niced domain is a point) with gaps in [gmin, gmax] as well.  So each end moves
   by less than two tick steps measured on ticks that always exist, also when the
   original domain has 0 or 1 ticks (small m). *)
Theorem C14T_tnice_row_bounds : forall d0 d1 m n0 n1 meth,
  valid d0 -> valid d1 -> ms_resolution d0 -> ms_resolution d1 ->
  ts_nice d0 d1 m = Ok (n0, n1) ->
  tick_method_of (to_ms (dom_lo d0 d1)) (to_ms (dom_hi d0 d1)) m = Ok meth ->
  0 < fst (meth_bounds meth) /\ snd (meth_bounds meth) <= 2 * fst (meth_bounds meth) /\
  (forall l, ts_ticks d0 d1 m = Ok l ->
     Sorted (fun x y => fst (meth_bounds meth) <= to_us y - to_us x <= snd (meth_bounds meth)) l) /\
  (if to_us d1 <? to_us d0
   then to_us d1 - to_us n1 < snd (meth_bounds meth) /\ to_us n0 - to_us d0 < snd (meth_bounds meth)
   else to_us d0 - to_us n0 < snd (meth_bounds meth) /\ to_us n1 - to_us d1 < snd (meth_bounds meth)) /\
  (forall t1 l', valid t1 -> to_us t1 = to_us (nice_hi d0 d1 n0 n1) + 1000 ->
     ni_range meth (nice_lo d0 d1 n0 n1) t1 = Ok l' ->
     In (to_us (nice_lo d0 d1 n0 n1)) (map to_us l') /\ In (to_us (nice_hi d0 d1 n0 n1)) (map to_us l') /\
     Sorted (fun x y => fst (meth_bounds meth) <= to_us y - to_us x <= snd (meth_bounds meth)) l' /\
     (to_us (nice_lo d0 d1 n0 n1) < to_us (nice_hi d0 d1 n0 n1) -> (2 <= length l')%nat)).
Proof. exact tnice_row_bounds. Qed.
Print Assumptions C14T_tnice_row_bounds.

(* the audit's example: 2001-02-01 .. 2003-12-01, m = 2: ONE original tick
   (2002-01-01); nice gives 2000-01-01 .. 2004-01-01; the method is (year, 2):
   gmin = 730 days, gmax = 732 days; the niced domain's ticks 2000, 2002, 2004 *)
Example C14T_ex_one_tick :
  ts_ticks (mkdt 2001 2 1 0 0 0 0) (mkdt 2003 12 1 0 0 0 0) 2 = Ok [mkdt 2002 1 1 0 0 0 0] /\
  ts_nice (mkdt 2001 2 1 0 0 0 0) (mkdt 2003 12 1 0 0 0 0) 2 =
    Ok (mkdt 2000 1 1 0 0 0 0, mkdt 2004 1 1 0 0 0 0) /\
  tick_method_of (to_ms (mkdt 2001 2 1 0 0 0 0)) (to_ms (mkdt 2003 12 1 0 0 0 0)) 2 = Ok (TUnit UYear 2) /\
  meth_bounds (TUnit UYear 2) = (730 * 86400000000, 732 * 86400000000) /\
  ni_range (TUnit UYear 2) (mkdt 2000 1 1 0 0 0 0) (mkdt 2004 1 1 0 0 0 1000) =
    Ok [mkdt 2000 1 1 0 0 0 0; mkdt 2002 1 1 0 0 0 0; mkdt 2004 1 1 0 0 0 0].
Proof. vm_compute. repeat split. Qed.

(* tnice_lt_two_ticks (corollary of the above; when the original domain has fewer
   than two ticks its gap clause is empty - use C14T_tnice_row_bounds then) *)
(* tnice_lt_two_ticks: each end moves outward by less than two tick steps of the
   ORIGINAL domain's ticks: all gaps of ts_ticks d0 d1 m lie in [g, 2 g] and each
   end moves by less than 2 g *)
Theorem C14T_tnice_lt_two_ticks : forall d0 d1 m n0 n1,
  valid d0 -> valid d1 -> ms_resolution d0 -> ms_resolution d1 ->
  ts_nice d0 d1 m = Ok (n0, n1) ->
  exists g, 0 < g /\
    (forall l, ts_ticks d0 d1 m = Ok l ->
       Sorted (fun x y => g <= to_us y - to_us x <= 2 * g) l) /\
    (if to_us d1 <? to_us d0
     then to_us d1 - to_us n1 < 2 * g /\ to_us n0 - to_us d0 < 2 * g
     else to_us d0 - to_us n0 < 2 * g /\ to_us n1 - to_us d1 < 2 * g).
Proof. exact tnice_lt_two_ticks. Qed.
Print Assumptions C14T_tnice_lt_two_ticks.

(* ---------- non-vacuity ---------------------------------------------------------- *)
(* A.7: nice(42) on [2068-03-15, 2068-05-30]: two-day ticks -> [2068-03-15, 2068-05-31];
   a reversed 94-year domain with m = 3: 50-year skip -> [2100, 2000];
   a 90 ms domain with m = 7: 20 ms steps *)
Example C14T_ex :
  ts_nice (mkdt 2068 3 15 0 0 0 0) (mkdt 2068 5 30 0 0 0 0) 42 =
    Ok (mkdt 2068 3 15 0 0 0 0, mkdt 2068 5 31 0 0 0 0) /\
  tick_method_of (to_ms (mkdt 2068 3 15 0 0 0 0)) (to_ms (mkdt 2068 5 30 0 0 0 0)) 42 = Ok (TUnit UDay 2) /\
  ts_nice (mkdt 2095 5 30 0 0 0 0) (mkdt 2001 3 15 7 0 0 0) 3 =
    Ok (mkdt 2100 1 1 0 0 0 0, mkdt 2000 1 1 0 0 0 0) /\
  ts_nice (mkdt 2001 3 15 7 3 2 5000) (mkdt 2001 3 15 7 3 2 95000) 7 =
    Ok (mkdt 2001 3 15 7 3 2 0, mkdt 2001 3 15 7 3 2 100000) /\
  ts_nice (mkdt 2001 3 15 7 3 2 0) (mkdt 2001 3 17 9 0 0 0) 10 =
    Ok (mkdt 2001 3 15 6 0 0 0, mkdt 2001 3 17 12 0 0 0).
Proof. vm_compute. repeat split. Qed.

End TimePart.
