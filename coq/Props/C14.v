(* Property C14: nice() only widens a domain, by less than two tick steps, to
   round end points.  Statements only; every proof is `exact <lemma>`.

   ===================== linear scale part (Scale package) ===================
   All theorems: for ALL rational domains (a, b), a <> b, either order, and ALL
   counts m >= 1, on the exact model coq/Scale/Nice.v of d3_scale_linearNice
   (two passes of floor/ceil to the tick step of the CURRENT domain).
   step1, step2 = the steps used by pass one and two; step_result = the tick
   step of the resulting domain. *)
From Coq Require Import ZArith QArith Qabs List.
From Labella Require Import Scale.Ticks Scale.Nice Scale.TickStepProofs Scale.NiceProofs Scale.NiceRoundProofs.
Open Scope Q_scope.

(* never inward *)
Theorem C14_nice_outward : forall m, (0 < m)%Z -> forall a b,
  (a < b -> fst (nice m (a, b)) <= a /\ b <= snd (nice m (a, b))) /\
  (b < a -> a <= fst (nice m (a, b)) /\ snd (nice m (a, b)) <= b).
Proof. exact nice_outward. Qed.
Print Assumptions C14_nice_outward.

(* the orientation is never reversed (nor collapsed) *)
Theorem C14_nice_orientation : forall m, (0 < m)%Z -> forall a b,
  (a < b -> fst (nice m (a, b)) < snd (nice m (a, b))) /\
  (b < a -> snd (nice m (a, b)) < fst (nice m (a, b))).
Proof. exact nice_orientation. Qed.
Print Assumptions C14_nice_orientation.

(* the tick step is monotone in the span *)
Theorem C14_step_monotone : forall S S' m, 0 < S -> S <= S' -> (0 < m)%Z ->
  tick_step S m <= tick_step S' m.
Proof. exact step_monotone. Qed.
Print Assumptions C14_step_monotone.

(* pass one moves an end by less than step1, pass two by less than step2, and
   step1 <= step2 <= the step of the result: less than two steps in all *)
Theorem C14_nice_lt_two_steps : forall m, (0 < m)%Z -> forall a b, ~ a == b ->
  let d := (a, b) in let r := nice m d in
  0 < step1 m d /\ step1 m d <= step2 m d /\ step2 m d <= step_result m d /\
  Qabs (fst r - a) < step1 m d + step2 m d /\ Qabs (snd r - b) < step1 m d + step2 m d /\
  Qabs (fst r - a) < 2 * step_result m d /\ Qabs (snd r - b) < 2 * step_result m d.
Proof. exact nice_lt_two_steps. Qed.
Print Assumptions C14_nice_lt_two_steps.

(* round end points: both ends are multiples of step2, the tick step of the
   resulting domain is 1, 2, 5/2, 5 or 10 times step2 (ratio_ok; in particular
   never 4 times), hence both ends are multiples of one tenth of the tick step
   of the resulting domain *)
Theorem C14_nice_round : forall m, (0 < m)%Z -> forall a b, ~ a == b ->
  let d := (a, b) in let r := nice m d in
  is_multiple (step2 m d) (fst r) /\ is_multiple (step2 m d) (snd r) /\
  ratio_ok (step_result m d) (step2 m d) /\
  is_multiple (step_result m d / 10) (fst r) /\ is_multiple (step_result m d / 10) (snd r).
Proof. exact nice_round. Qed.
Print Assumptions C14_nice_round.

(* reversed domains are handled by the index swap: nice commutes with
   swapping the two ends *)
Theorem C14_nice_swap : forall m, (0 < m)%Z -> forall a b, b < a ->
  nice m (a, b) = (snd (nice m (b, a)), fst (nice m (b, a))) /\
  step2 m (a, b) = step2 m (b, a) /\ step_result m (a, b) = step_result m (b, a).
Proof. exact nice_swap. Qed.
Print Assumptions C14_nice_swap.

(* non-vacuity: the hypotheses are met and nice() does move the ends *)
Example C14_ex_nice :
  nice 10 (3#10, 97#10) = (0, 10) /\ nice 10 (97#10, 3#10) = (10, 0) /\
  nice 10 (-135#1000, 129#1000) = (-(7#50), 7#50) /\
  nice 14 (1222, 8536#10) = (1250, 800) /\
  (step1 14 (1222, 8536#10), step2 14 (1222, 8536#10), step_result 14 (1222, 8536#10)) = (20, 50, 50) /\
  nice 1 (19#10, 41#10) = (0, 10).
Proof. vm_compute. repeat split. Qed.

(* ===================== time scale part: added by the time package ==========
   (tnice_outward, tnice_orientation, tnice_aligned, tnice_skip_fuel,
   tnice_lt_two_ticks of DESIGN.md section 5/C14 go below this line)        *)
