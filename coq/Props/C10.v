(* Property C10: a timeline's export depends only on its own data and options.
   Statements only.  The model (Render/Process.v) fixes the REFERENCE structure
   of labella/timeline.py -- which mutable scale object an instance points to,
   who writes through that reference and when -- and is generic in the data,
   options, scale-state and document types and in the functions init_axis
   (construction-time re-domaining) and render (export), over which every
   theorem below is universally quantified. *)
From Coq Require Import List Arith Bool.
From Labella Require Import Render.Process Render.ProcessProofs.
From Labella Require Render.ProcessData.
Import ListNotations.

(* Refinement: for EVERY history over any number of timelines and caller-owned
   scale objects, the i-th export equals the stateless specification
   evaluated on the history prefix. *)
Theorem C10_isolation :
  forall (D Opt Sc Doc : Type) (init_axis : D -> Opt -> Sc -> Sc)
         (render : D -> Opt -> Sc -> Doc) (s_fresh : Sc)
         (caller_cells : list Sc) (h : list (op D Opt)),
  wf_hist D Opt (length caller_cells) h = true ->
  run D Opt Sc Doc init_axis render s_fresh (init_state D Opt Sc caller_cells) h =
  spec_run D Opt Sc Doc init_axis render s_fresh caller_cells [] h.
Proof. exact isolation. Qed.
Print Assumptions C10_isolation.

(* ... and for a timeline that was not given a scale object by the caller the
   specification is the export of its own data and options alone (what a
   fresh process computes): no other operation of the history occurs in it. *)
Theorem C10_default_scale_own :
  forall (D Opt Sc Doc : Type) (init_axis : D -> Opt -> Sc -> Sc)
         (render : D -> Opt -> Sc -> Doc) (s_fresh : Sc)
         (caller_cells : list Sc) (prefix : list (op D Opt)) id d opts,
  latest D Opt id prefix = Some (d, opts, Default) ->
  spec_export D Opt Sc Doc init_axis render s_fresh caller_cells prefix id =
  Some (render d opts (init_axis d opts s_fresh)).
Proof. exact spec_default_own. Qed.
Print Assumptions C10_default_scale_own.

(* Exporting does not change the state, so exporting twice gives identical
   documents. *)
Theorem C10_idempotent :
  forall (D Opt Sc Doc : Type) (init_axis : D -> Opt -> Sc -> Sc)
         (render : D -> Opt -> Sc -> Doc) (s_fresh : Sc) (st : state D Opt Sc) id,
  fst (step D Opt Sc Doc init_axis render s_fresh st (Export id)) = st /\
  snd (step D Opt Sc Doc init_axis render s_fresh
         (fst (step D Opt Sc Doc init_axis render s_fresh st (Export id))) (Export id)) =
  snd (step D Opt Sc Doc init_axis render s_fresh st (Export id)).
Proof. exact export_idempotent. Qed.
Print Assumptions C10_idempotent.

(* The caller's DATA objects are shared cells too: parse_items writes the
   normalised time back into the caller's dicts.  Render/ProcessData.v models
   those cells; because the write-back is idempotent (the only hypothesis,
   norm_idem), timelines built from the SAME data list object still export as
   the stateless specification says, and a default-scale timeline's export
   mentions only its own normalised data and options. *)
Theorem C10_isolation_shared_data :
  forall (D Opt Sc Doc : Type) (norm : D -> D),
  (forall d, norm (norm d) = norm d) ->
  forall (init_axis : D -> Opt -> Sc -> Sc) (render : D -> Opt -> Sc -> Doc) (s_fresh : Sc) (d_none : D)
         (data : list D) (caller_cells : list Sc) (h : list (ProcessData.op Opt)),
  ProcessData.wf_hist Opt (length data) (length caller_cells) h = true ->
  ProcessData.run D Opt Sc Doc norm init_axis render s_fresh d_none
                  (ProcessData.init_state D Opt Sc data caller_cells) h =
  ProcessData.spec_run D Opt Sc Doc norm init_axis render s_fresh d_none data caller_cells [] h.
Proof. exact ProcessData.isolation_data. Qed.
Print Assumptions C10_isolation_shared_data.

Theorem C10_default_scale_own_data :
  forall (D Opt Sc Doc : Type) (norm : D -> D)
         (init_axis : D -> Opt -> Sc -> Sc) (render : D -> Opt -> Sc -> Doc) (s_fresh : Sc) (d_none : D)
         (data : list D) (caller_cells : list Sc) (prefix : list (ProcessData.op Opt)) id dc opts,
  ProcessData.latest Opt id prefix = Some (dc, opts, ProcessData.Default) ->
  ProcessData.spec_export D Opt Sc Doc norm init_axis render s_fresh d_none data caller_cells prefix id =
  Some (render (norm (nth dc data d_none)) opts (init_axis (norm (nth dc data d_none)) opts s_fresh)).
Proof. exact ProcessData.spec_default_own. Qed.
Print Assumptions C10_default_scale_own_data.

(* non-vacuity: two timelines from the same data list object (cell 0), norm =
   "mark as normalised"; both see the normalised data, neither sees the other *)
Example C10_ex_shared_data :
  let norm := fun d : nat => if Nat.ltb d 100 then d + 100 else d in
  ProcessData.wf_hist nat 1 0 [ProcessData.Construct nat 0 0 20 ProcessData.Default;
                               ProcessData.Construct nat 1 0 21 ProcessData.Default;
                               ProcessData.Export nat 0; ProcessData.Export nat 1] = true /\
  ProcessData.run nat nat (list (nat * nat)) _ norm (fun d o s => s ++ [(d, o)]) (fun d o s => (d, o, s)) [] 0
    (ProcessData.init_state nat nat _ [7] [])
    [ProcessData.Construct nat 0 0 20 ProcessData.Default; ProcessData.Construct nat 1 0 21 ProcessData.Default;
     ProcessData.Export nat 0; ProcessData.Export nat 1] =
  [Some (107, 20, [(107, 20)]); Some (107, 21, [(107, 21)])].
Proof. vm_compute. split; reflexivity. Qed.

(* Non-vacuity, and the recorded defect: with the OLD plumbing (one
   module-level default scale shared by every instance, Process.step_old) the
   history  Construct A; Construct B; Export A  yields a document for A that
   depends on B's data.  Instantiation: scale state = list of constructions
   applied to it. *)
Definition ia (d o : nat) (s : list (nat * nat)) := s ++ [(d, o)].
Definition rd (d o : nat) (s : list (nat * nat)) := (d, o, s).
Definition hAB : list (op nat nat) :=
  [Construct 0 10 20 Default; Construct 1 11 21 Default; Export 0; Export 0; Export 1].

Example C10_ex_new :
  wf_hist nat nat 0 hAB = true /\
  run nat nat _ _ ia rd [] (init_state nat nat _ []) hAB =
  [Some (10, 20, [(10, 20)]); Some (10, 20, [(10, 20)]); Some (11, 21, [(11, 21)])].
Proof. vm_compute. split; reflexivity. Qed.

(* two timelines GIVEN the same caller-owned scale object 0 do share it (the
   property allows exactly that), a third one with its own default scale is
   unaffected: the well-formedness hypothesis of C10_isolation is met *)
Definition hShared : list (op nat nat) :=
  [Construct 0 10 20 (Caller 0); Construct 2 12 22 Default; Construct 1 11 21 (Caller 0);
   Export 0; Export 2; Export 1].
Example C10_ex_caller :
  wf_hist nat nat 1 hShared = true /\
  run nat nat _ _ ia rd [] (init_state nat nat _ [[(99, 99)]]) hShared =
  [Some (10, 20, [(99, 99); (10, 20); (11, 21)]); Some (12, 22, [(12, 22)]);
   Some (11, 21, [(99, 99); (10, 20); (11, 21)])].
Proof. vm_compute. split; reflexivity. Qed.

Theorem C10_refuted_old :
  exists h : list (op nat nat),
    run_old nat nat _ _ ia rd [] (init_state nat nat _ [[]]) h <>
    spec_run nat nat _ _ ia rd [] [[]] [] h.
Proof. exists hAB. vm_compute. discriminate. Qed.
Print Assumptions C10_refuted_old.

(* ---------- which objects a timeline points to, derived from the option-dictionary model -----
   The reference structure above (a Default timeline owns a fresh scale; a caller-supplied one
   is shared exactly with the timelines that were given the same object) is what
   Timeline.__init__ does to the option dicts (Render/Options.v, tied to the code by the C11
   check): scale objects carry an identity in the model (0 = the module-level default object). *)
From Coq Require Import NArith.
From Labella Require Import Render.Options Render.OptionsProofs.

Theorem C10_options_scale_identity : forall fresh u r, user_wf u -> resolve fresh (Some u) = OOk r ->
  r_scale_id r = match dget u K_scale with Some (VScale _ i) => i | _ => fresh end.
Proof. exact resolve_scale_identity. Qed.
Print Assumptions C10_options_scale_identity.

(* in particular the module-level default scale object (identity 0), through which two
   default-scale timelines influenced each other before ada857e, is never the one a timeline
   points to (a model of the old constructor, without the fresh TimeScale, fails this) *)
Theorem C10_options_scale_not_default : forall fresh u r, user_wf u -> resolve fresh (Some u) = OOk r ->
  fresh <> 0%N -> (forall b i, dget u K_scale = Some (VScale b i) -> i <> 0%N) -> r_scale_id r <> 0%N.
Proof. exact resolve_scale_not_default. Qed.
Print Assumptions C10_options_scale_not_default.

(* the merged dict holds, under "scale", the caller's object or the fresh TimeScale; under
   "labella" the caller's engine options plus the direction; every other key is the caller's
   value or the module default - nothing else enters a timeline's options.  (Object identity of
   the engine-option dict is not expressible in this model: that the dict is a COPY is checked
   on the implementation by the C11 tie's oracle.) *)
Theorem C10_options_only_own_inputs : forall fresh u, user_wf u ->
  exists d, tl_merge fresh (Some u) = OOk d /\ merged_spec fresh u d.
Proof. exact tl_merge_spec. Qed.
Print Assumptions C10_options_only_own_inputs.
