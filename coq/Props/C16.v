(* Property C16: time ticks never fail, increase, stay in the domain, sit on
   calendar boundaries.  Statements only.

   `ts_ticks d0 d1 m` is the model of TimeScale().domain([d0, d1]).ticks(m)
   (Time/TimeTicks.v); dom_lo/dom_hi are the sorted domain ends;
   `tick_method_of` is TimeScale.tickMethod; is_boundary is the independent
   boundary predicate of C17 (Time/IntervalSpec.v).  Domains have millisecond
   resolution (the property's quantifier).

   PROVED here, for all domains and all counts m >= 1: totality (never Raise,
   never out of fuel) in years 2..9997, strictly increasing, inside the domain,
   every tick a boundary of the unit chosen by the method table, and a boundary
   of a unit is a boundary of every finer unit (so yearly ticks are 1 January
   midnight, monthly ticks the first of a month at midnight, ... , second ticks
   whole seconds; millisecond ticks whole milliseconds).

   ALSO PROVED (Time/TickCountProofs.v; they were the `_partial` items of
   DESIGN.md), for ALL rows of the method table (seconds ... years, both
   fall-backs), all valid domains of millisecond resolution and all m >= 1:
     tt_short_domain : span_ms < m -> exactly one tick per millisecond of [lo, hi]
     tt_gap_ratio    : all consecutive gaps lie in [g, 2 g] for some g > 0
                       (fixed-length rows: equal gaps; 2-day ticks: 1 or 2 days;
                        months: 28..31 days; quarters: 84..93; k years: 365k..366k)
     tt_count        : m <= span_ms -> m / 2.4 - 1 <= length l <= 2.4 m + 1
     gap_implies_alignment : an observed gap >= 1 s / 1 min / 1 h / 1 day / 28 days /
                       365 days forces every tick onto that calendar boundary
   Nothing of the property's counting clauses is left unproved on the model.
   (The bounds hold for every m >= 1 and every span; the property only claims
   m in 2..50 and spans up to 250 years.) *)
From Coq Require Import ZArith QArith List Bool Sorted.
From Labella Require Import Time.Calendar Time.Interval Time.IntervalSpec Time.TimeScale
  Time.TimeTicks Time.TimeTicksProofs Time.TickCountProofs History.TimeOld.
Import ListNotations.
Open Scope Z_scope.

(* tt_total *)
Theorem C16_tt_total : forall d0 d1 m,
  valid d0 -> valid d1 -> ms_resolution d0 -> ms_resolution d1 ->
  2 <= dt_y d0 <= 9997 -> 2 <= dt_y d1 <= 9997 -> 0 < m ->
  exists l, ts_ticks d0 d1 m = Ok l.
Proof. exact ticks_total. Qed.
Print Assumptions C16_tt_total.

(* tt_increasing, tt_in_domain, tt_on_boundary *)
Theorem C16_tt_spec : forall d0 d1 m l,
  valid d0 -> valid d1 -> ms_resolution d0 -> ms_resolution d1 ->
  ts_ticks d0 d1 m = Ok l ->
  Forall valid l /\ StronglySorted lt_us l /\
  Forall (fun x => to_us (dom_lo d0 d1) <= to_us x <= to_us (dom_hi d0 d1)) l /\
  exists meth, tick_method_of (to_ms (dom_lo d0 d1)) (to_ms (dom_hi d0 d1)) m = Ok meth /\
    match meth with
    | TMillis _ => Forall ms_resolution l
    | TUnit u _ => Forall (fun x => is_boundary u (to_us x)) l
    end.
Proof. exact ticks_spec. Qed.
Print Assumptions C16_tt_spec.

(* a coarser spacing implies all the finer alignments *)
Theorem C16_boundary_coarser : forall x,
  (is_boundary UYear x -> is_boundary UMonth x) /\
  (is_boundary UMonth x -> is_boundary UDay x) /\
  (is_boundary UWeek x -> is_boundary UDay x) /\
  (is_boundary UDay x -> is_boundary UHour x) /\
  (is_boundary UHour x -> is_boundary UMinute x) /\
  (is_boundary UMinute x -> is_boundary USecond x).
Proof. exact boundary_coarser. Qed.
Print Assumptions C16_boundary_coarser.

(* boundary_fields: the alignments read on the calendar fields *)
Theorem C16_boundary_fields : forall t, valid t ->
  (is_boundary USecond (to_us t) -> dt_us t = 0) /\
  (is_boundary UMinute (to_us t) -> dt_s t = 0 /\ dt_us t = 0) /\
  (is_boundary UHour (to_us t) -> dt_mi t = 0 /\ dt_s t = 0 /\ dt_us t = 0) /\
  (is_boundary UDay (to_us t) -> dt_h t = 0 /\ dt_mi t = 0 /\ dt_s t = 0 /\ dt_us t = 0) /\
  (is_boundary UMonth (to_us t) -> dt_d t = 1) /\
  (is_boundary UYear (to_us t) -> dt_mo t = 1 /\ dt_d t = 1).
Proof. exact boundary_fields. Qed.
Print Assumptions C16_boundary_fields.

(* the method table always yields a method; the exact log10 never runs out of fuel *)
Theorem C16_tick_method_total : forall e0 e1 count,
  (e0 <= e1)%Q -> 0 < count -> exists meth, tick_method_of e0 e1 count = Ok meth.
Proof. exact tick_method_total. Qed.
Print Assumptions C16_tick_method_total.

Theorem C16_ilog10_fuel_enough : forall q : Q, (0 < q)%Q -> ilog10 q <> None.
Proof. exact ilog10_fuel_enough. Qed.
Print Assumptions C16_ilog10_fuel_enough.

(* tt_short_domain: a domain shorter than m milliseconds gets one tick per
   millisecond, from its first to its last instant (all inside the domain) *)
Theorem C16_tt_short_domain : forall d0 d1 m l,
  valid d0 -> valid d1 -> ms_resolution d0 -> ms_resolution d1 ->
  let lo := to_us (dom_lo d0 d1) in let hi := to_us (dom_hi d0 d1) in
  (hi - lo) / 1000 < m ->
  ts_ticks d0 d1 m = Ok l ->
  map to_us l = map (fun i => lo + 1000 * Z.of_nat i) (seq 0 (Z.to_nat ((hi - lo) / 1000 + 1))).
Proof. exact tt_short_domain. Qed.
Print Assumptions C16_tt_short_domain.

(* tt_gap_ratio: consecutive gaps differ by at most a factor of two - indeed
   ALL gaps of one tick list lie between some g and 2 g (microseconds) *)
Theorem C16_tt_gap_ratio : forall d0 d1 m l,
  valid d0 -> valid d1 -> ms_resolution d0 -> ms_resolution d1 ->
  ts_ticks d0 d1 m = Ok l ->
  exists g, 0 < g /\ Sorted (fun x y => g <= to_us y - to_us x <= 2 * g) l.
Proof. exact tt_gap_ratio. Qed.
Print Assumptions C16_tt_gap_ratio.

(* tt_count: m / 2.4 - 1 <= n <= 2.4 m + 1, written on integers *)
Theorem C16_tt_count : forall d0 d1 m l,
  valid d0 -> valid d1 -> ms_resolution d0 -> ms_resolution d1 -> 0 < m ->
  m <= (to_us (dom_hi d0 d1) - to_us (dom_lo d0 d1)) / 1000 ->
  ts_ticks d0 d1 m = Ok l ->
  let n := Z.of_nat (length l) in 10 * m <= 24 * (n + 1) /\ 10 * (n - 1) <= 24 * m.
Proof. exact tt_count. Qed.
Print Assumptions C16_tt_count.

(* gap_implies_alignment: the alignment clause read off an OBSERVED gap.  If two
   consecutive ticks are at least 1 s / 1 min / 1 h / 1 day / 28 days / 365 days
   apart, then EVERY tick is a whole second / minute / hour / a midnight / the
   first of a month at midnight / 1 January at midnight (is_boundary of that unit;
   C16_boundary_fields reads it on the calendar fields).  Proof: the gap is at
   most the density gmax of the row the method table chose (TickRows.v), which
   excludes every row finer than the claimed alignment. *)
Theorem C16_gap_implies_alignment : forall d0 d1 m l i x y,
  valid d0 -> valid d1 -> ms_resolution d0 -> ms_resolution d1 ->
  ts_ticks d0 d1 m = Ok l ->
  nth_error l i = Some x -> nth_error l (S i) = Some y ->
  let G := to_us y - to_us x in
  (1000000 <= G -> Forall (fun t => is_boundary USecond (to_us t)) l) /\
  (60000000 <= G -> Forall (fun t => is_boundary UMinute (to_us t)) l) /\
  (3600000000 <= G -> Forall (fun t => is_boundary UHour (to_us t)) l) /\
  (86400000000 <= G -> Forall (fun t => is_boundary UDay (to_us t)) l) /\
  (28 * 86400000000 <= G -> Forall (fun t => is_boundary UMonth (to_us t)) l) /\
  (365 * 86400000000 <= G -> Forall (fun t => is_boundary UYear (to_us t)) l).
Proof. exact gap_implies_alignment. Qed.
Print Assumptions C16_gap_implies_alignment.

(* the bounds behind it, as a function of the method (no existential): all ticks
   lie in the method's tick set and all gaps within the row's [gmin, gmax] *)
Theorem C16_ticks_row : forall d0 d1 m l meth,
  valid d0 -> valid d1 -> ms_resolution d0 -> ms_resolution d1 ->
  ts_ticks d0 d1 m = Ok l ->
  tick_method_of (to_ms (dom_lo d0 d1)) (to_ms (dom_hi d0 d1)) m = Ok meth ->
  Forall (fun t => meth_ticks meth (to_us t)) l /\
  Sorted (fun x y => fst (meth_bounds meth) <= to_us y - to_us x <= snd (meth_bounds meth)) l.
Proof. exact ticks_row. Qed.
Print Assumptions C16_ticks_row.

(* historical (A.7): before the repair 867ccf8 day ticks crossing a 31st raised,
   because the day step did; the witness of the step is kept in History/TimeOld.v *)
Theorem C16_refuted_old :
  day_offset_old (mkdt 2084 8 31 0 0 0 0) 1 = Raise /\
  iv_offset iv_day (mkdt 2084 8 31 0 0 0 0) 1 = Ok (mkdt 2084 9 1 0 0 0 0).
Proof. exact day_offset_old_raises. Qed.
Print Assumptions C16_refuted_old.

(* ---------- non-vacuity -------------------------------------------------------- *)
(* A.7: 1993-08-27T02:51:26.520 .. 1993-09-27T02:15:46.514, ticks(43): daily ticks
   across the 31st; A.8: a 7 ms domain, ticks(17): one tick per millisecond *)
Example C16_ex_days :
  exists l, ts_ticks (mkdt 1993 8 27 2 51 26 520000) (mkdt 1993 9 27 2 15 46 514000) 43 = Ok l /\
            length l = 31%nat /\ nth 4 l dt_min = mkdt 1993 9 1 0 0 0 0 /\
  tick_method_of (to_ms (mkdt 1993 8 27 2 51 26 520000)) (to_ms (mkdt 1993 9 27 2 15 46 514000)) 43
    = Ok (TUnit UDay 1).
Proof. eexists. vm_compute. repeat split. Qed.

Example C16_ex_ms :
  ts_ticks (mkdt 2020 1 1 0 0 0 5000) (mkdt 2020 1 1 0 0 0 12000) 17 =
  Ok [mkdt 2020 1 1 0 0 0 5000; mkdt 2020 1 1 0 0 0 6000; mkdt 2020 1 1 0 0 0 7000;
      mkdt 2020 1 1 0 0 0 8000; mkdt 2020 1 1 0 0 0 9000; mkdt 2020 1 1 0 0 0 10000;
      mkdt 2020 1 1 0 0 0 11000; mkdt 2020 1 1 0 0 0 12000].
Proof. vm_compute. reflexivity. Qed.

Example C16_ex_years :
  tick_method_of (to_ms (mkdt 1900 1 1 0 0 0 0)) (to_ms (mkdt 2150 1 1 0 0 0 0)) 10 = Ok (TUnit UYear 20) /\
  exists l, ts_ticks (mkdt 2150 1 1 0 0 0 0) (mkdt 1900 1 1 0 0 0 0) 10 = Ok l /\ length l = 13%nat /\
            nth 1 l dt_min = mkdt 1920 1 1 0 0 0 0.
Proof. split; [vm_compute; reflexivity|]. eexists. vm_compute. repeat split. Qed.

(* the counting clauses on concrete domains: two-day ticks across the end of a
   31-day month (gaps of 2 days and 1 day), m = 20 over 45 days: 23 ticks *)
Example C16_ex_two_day :
  exists l, ts_ticks (mkdt 2021 1 20 0 0 0 0) (mkdt 2021 3 6 0 0 0 0) 20 = Ok l /\
            length l = 23%nat /\
            nth 5 l dt_min = mkdt 2021 1 31 0 0 0 0 /\ nth 6 l dt_min = mkdt 2021 2 1 0 0 0 0 /\
            nth 7 l dt_min = mkdt 2021 2 3 0 0 0 0 /\
  tick_method_of (to_ms (mkdt 2021 1 20 0 0 0 0)) (to_ms (mkdt 2021 3 6 0 0 0 0)) 20 = Ok (TUnit UDay 2).
Proof. eexists. vm_compute. repeat split. Qed.
