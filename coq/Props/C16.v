(* Property C16: time ticks never fail, increase, stay in the domain, sit on
   calendar boundaries.  Statements only.

   `ts_ticks d0 d1 m` is the model of TimeScale().domain([d0, d1]).ticks(m)
   (Time/TimeTicks.v); dom_lo/dom_hi are the sorted domain ends;
   `tick_method_of` is TimeScale.tickMethod; is_boundary is the independent
   boundary predicate of C17 (Time/IntervalSpec.v).  Domains have millisecond
   resolution (the property's quantifier).

   PROVED here, for all domains and all counts m >= 1: totality (never Raise,
   never out of fuel) in years 2..9997, strictly increasing, inside the domain,
   every tick a boundary of the unit chosen by the method table, and a boundary
   of a unit is a boundary of every finer unit (so yearly ticks are 1 January
   midnight, monthly ticks the first of a month at midnight, ... , second ticks
   whole seconds; millisecond ticks whole milliseconds).

   NOT PROVED (DESIGN.md planned them as `tt_count_partial`,
   `tt_gap_ratio_partial`, `tt_short_domain`); they are checked on every
   generated case by the property oracle of harness/props/c16.py instead:
     tt_count      : ts_ticks d0 d1 m = Ok l -> m <= span_ms ->
                     m / 2.4 - 1 <= length l <= 2.4 * m + 1
     tt_gap_ratio  : for consecutive ticks a b c of l:
                     (c - b) <= 2 * (b - a) /\ (b - a) <= 2 * (c - b)
     tt_short_domain : span_ms < m -> l = one instant per millisecond of [lo, hi]
   What is missing is the case analysis over the 18 rows of the method table
   (and, for day/month/year rows, over month and year lengths) and the error
   analysis of the linear tick step (ilog10 and the .15/.35/.75 thresholds). *)
From Coq Require Import ZArith QArith List Bool Sorted.
From Labella Require Import Time.Calendar Time.Interval Time.IntervalSpec Time.TimeScale
  Time.TimeTicks Time.TimeTicksProofs History.TimeOld.
Import ListNotations.
Open Scope Z_scope.

(* tt_total *)
Theorem C16_tt_total : forall d0 d1 m,
  valid d0 -> valid d1 -> ms_resolution d0 -> ms_resolution d1 ->
  2 <= dt_y d0 <= 9997 -> 2 <= dt_y d1 <= 9997 -> 0 < m ->
  exists l, ts_ticks d0 d1 m = Ok l.
Proof. exact ticks_total. Qed.
Print Assumptions C16_tt_total.

(* tt_increasing, tt_in_domain, tt_on_boundary *)
Theorem C16_tt_spec : forall d0 d1 m l,
  valid d0 -> valid d1 -> ms_resolution d0 -> ms_resolution d1 ->
  ts_ticks d0 d1 m = Ok l ->
  Forall valid l /\ StronglySorted lt_us l /\
  Forall (fun x => to_us (dom_lo d0 d1) <= to_us x <= to_us (dom_hi d0 d1)) l /\
  exists meth, tick_method_of (to_ms (dom_lo d0 d1)) (to_ms (dom_hi d0 d1)) m = Ok meth /\
    match meth with
    | TMillis _ => Forall ms_resolution l
    | TUnit u _ => Forall (fun x => is_boundary u (to_us x)) l
    end.
Proof. exact ticks_spec. Qed.
Print Assumptions C16_tt_spec.

(* a coarser spacing implies all the finer alignments *)
Theorem C16_boundary_coarser : forall x,
  (is_boundary UYear x -> is_boundary UMonth x) /\
  (is_boundary UMonth x -> is_boundary UDay x) /\
  (is_boundary UWeek x -> is_boundary UDay x) /\
  (is_boundary UDay x -> is_boundary UHour x) /\
  (is_boundary UHour x -> is_boundary UMinute x) /\
  (is_boundary UMinute x -> is_boundary USecond x).
Proof. exact boundary_coarser. Qed.
Print Assumptions C16_boundary_coarser.

(* boundary_fields: the alignments read on the calendar fields *)
Theorem C16_boundary_fields : forall t, valid t ->
  (is_boundary USecond (to_us t) -> dt_us t = 0) /\
  (is_boundary UMinute (to_us t) -> dt_s t = 0 /\ dt_us t = 0) /\
  (is_boundary UHour (to_us t) -> dt_mi t = 0 /\ dt_s t = 0 /\ dt_us t = 0) /\
  (is_boundary UDay (to_us t) -> dt_h t = 0 /\ dt_mi t = 0 /\ dt_s t = 0 /\ dt_us t = 0) /\
  (is_boundary UMonth (to_us t) -> dt_d t = 1) /\
  (is_boundary UYear (to_us t) -> dt_mo t = 1 /\ dt_d t = 1).
Proof. exact boundary_fields. Qed.
Print Assumptions C16_boundary_fields.

(* the method table always yields a method; the exact log10 never runs out of fuel *)
Theorem C16_tick_method_total : forall e0 e1 count,
  (e0 <= e1)%Q -> 0 < count -> exists meth, tick_method_of e0 e1 count = Ok meth.
Proof. exact tick_method_total. Qed.
Print Assumptions C16_tick_method_total.

Theorem C16_ilog10_fuel_enough : forall q : Q, (0 < q)%Q -> ilog10 q <> None.
Proof. exact ilog10_fuel_enough. Qed.
Print Assumptions C16_ilog10_fuel_enough.

(* historical (A.7): before the repair 867ccf8 day ticks crossing a 31st raised,
   because the day step did; the witness of the step is kept in History/TimeOld.v *)
Theorem C16_refuted_old :
  day_offset_old (mkdt 2084 8 31 0 0 0 0) 1 = Raise /\
  iv_offset iv_day (mkdt 2084 8 31 0 0 0 0) 1 = Ok (mkdt 2084 9 1 0 0 0 0).
Proof. exact day_offset_old_raises. Qed.
Print Assumptions C16_refuted_old.

(* ---------- non-vacuity -------------------------------------------------------- *)
(* A.7: 1993-08-27T02:51:26.520 .. 1993-09-27T02:15:46.514, ticks(43): daily ticks
   across the 31st; A.8: a 7 ms domain, ticks(17): one tick per millisecond *)
Example C16_ex_days :
  exists l, ts_ticks (mkdt 1993 8 27 2 51 26 520000) (mkdt 1993 9 27 2 15 46 514000) 43 = Ok l /\
            length l = 31%nat /\ nth 4 l dt_min = mkdt 1993 9 1 0 0 0 0 /\
  tick_method_of (to_ms (mkdt 1993 8 27 2 51 26 520000)) (to_ms (mkdt 1993 9 27 2 15 46 514000)) 43
    = Ok (TUnit UDay 1).
Proof. eexists. vm_compute. repeat split. Qed.

Example C16_ex_ms :
  ts_ticks (mkdt 2020 1 1 0 0 0 5000) (mkdt 2020 1 1 0 0 0 12000) 17 =
  Ok [mkdt 2020 1 1 0 0 0 5000; mkdt 2020 1 1 0 0 0 6000; mkdt 2020 1 1 0 0 0 7000;
      mkdt 2020 1 1 0 0 0 8000; mkdt 2020 1 1 0 0 0 9000; mkdt 2020 1 1 0 0 0 10000;
      mkdt 2020 1 1 0 0 0 11000; mkdt 2020 1 1 0 0 0 12000].
Proof. vm_compute. reflexivity. Qed.

Example C16_ex_years :
  tick_method_of (to_ms (mkdt 1900 1 1 0 0 0 0)) (to_ms (mkdt 2150 1 1 0 0 0 0)) 10 = Ok (TUnit UYear 20) /\
  exists l, ts_ticks (mkdt 2150 1 1 0 0 0 0) (mkdt 1900 1 1 0 0 0 0) 10 = Ok l /\ length l = 13%nat /\
            nth 1 l dt_min = mkdt 1920 1 1 0 0 0 0.
Proof. split; [vm_compute; reflexivity|]. eexists. vm_compute. repeat split. Qed.
